/* c10_layout.c — correspondence + witness-search harness for C10 (multistream / projection layouts).
   Modes (suite `layout`):
     enum                   layout construction: every channel count -1..257 x mapping families, create + init,
                            projection create/init, validate_ambisonics, isqrt32
     rand <seed> <n>        random (channels, streams, coupled, mapping) through decoder/encoder init+create,
                            get_left/right/mono_channel, validate_layout/validate_encoder_layout
     msval <seed> <n>       opus_multistream_packet_validate on concatenations of self-delimited packets
     msenc <seed> <n>       (build with -DC10_STUB) opus_multistream_encode with every per-stream opus_encode_native replaced
                            by a scripted one (a pre-generated packet when it fits curr_max, else BUFFER_TOO_SMALL): the
                            curr_max values, the return value and the bytes written (real repacketizer)
     projdec <seed> <n>     opus_projection_decoder_create/init on exported and on arbitrary matrices / arguments
     route <seed> <n>       (build with -DC10_STUB) opus_multistream_decode_native with the per-stream decoder
                            replaced by a scripted stub and a logging copy_channel_out: the call trace
     matrix <seed> <n>      mapping_matrix_multiply_channel_in_short / out_short on the built-in matrices and
                            impulse round trips
     search <seed> <n>      S4 oracle on the implementation only: real encoders -> packet structure ->
                            real multistream decoder vs. stand-alone decoders, bit for bit
     impulse                S4 oracle: unit impulses through mixing then demixing (short and float paths)
     rfc                    S4 oracle: the layouts built for every family x channel count (checked in C10.py)
   The static functions are reached by #including the repo .c files (compiled with the library's flags). */
#ifdef C10_STUB
#define opus_decode_native verif_decode_native
#define opus_encode_native verif_encode_native
#endif
#include "vcommon.h"
#include <math.h>
#include "opus_multistream_encoder.c"
#include "opus_multistream_decoder.c"
#include "opus_projection_encoder.c"
#include "opus_projection.h"
#include "mapping_matrix.h"

#define MSBUF (1u << 20)   /* >= 24 streams x 49 frames x 600 bytes + headers, and 255 x 2 x 600 */
static const int RATES[5] = {8000, 12000, 16000, 24000, 48000};
static void *bigbuf; /* room for any encoder/decoder state */
#define BIGSZ (96u << 20)

static void pr_layout(const ChannelLayout *l)
{
   int i;
   printf("%d/%d/%d/", l->nb_channels, l->nb_streams, l->nb_coupled_streams);
   for (i = 0; i < l->nb_channels; i++) printf("%s%d", i ? "," : "", l->mapping[i]);
}

/* ------------------------------------------------------------------ layout construction */
static void do_surround(int create, int fsok, int family, int channels)
{
   int streams = -1, coupled = -1, ret = 0, i;
   unsigned char mapping[256];
   OpusMSEncoder *st;
   int Fs = fsok ? 48000 : 44100;
   memset(mapping, 0xEE, sizeof mapping);
   printf("I layout surround %s %d %d %d\n", create ? "create" : "init", fsok, family, channels);
   fflush(stdout);
   if (create) st = opus_multistream_surround_encoder_create(Fs, channels, family, &streams, &coupled, mapping, OPUS_APPLICATION_AUDIO, &ret);
   else { st = (OpusMSEncoder *)bigbuf; ret = opus_multistream_surround_encoder_init(st, Fs, channels, family, &streams, &coupled, mapping, OPUS_APPLICATION_AUDIO); }
   if (ret != OPUS_OK) { printf("O %s\n", verr(ret)); return; }
   printf("O OK streams=%d coupled=%d mapping=", streams, coupled);
   for (i = 0; i < channels; i++) printf("%s%d", i ? "," : "", mapping[i]);
   printf(" type=%d lfe=%d st=", (int)st->mapping_type, st->lfe_stream);
   pr_layout(&st->layout); printf("\n");
   if (create) opus_multistream_encoder_destroy(st);
}

static void do_proj(int create, int fsok, int family, int channels)
{
   int streams = -1, coupled = -1, ret = 0;
   OpusProjectionEncoder *st;
   int Fs = fsok ? 48000 : 44100;
   printf("I layout proj %s %d %d %d\n", create ? "create" : "init", fsok, family, channels);
   fflush(stdout);
   if (create) st = opus_projection_ambisonics_encoder_create(Fs, channels, family, &streams, &coupled, OPUS_APPLICATION_AUDIO, &ret);
   else { st = (OpusProjectionEncoder *)bigbuf; ret = opus_projection_ambisonics_encoder_init(st, Fs, channels, family, &streams, &coupled, OPUS_APPLICATION_AUDIO); }
   if (ret != OPUS_OK) { printf("O %s\n", verr(ret)); return; }
   {
      MappingMatrix *mx = get_mixing_matrix(st), *dx = get_enc_demixing_matrix(st);
      opus_int32 size = -1, gain = -1;
      unsigned char *dm;
      printf("O OK streams=%d coupled=%d st=", streams, coupled);
      pr_layout(&get_multistream_encoder(st)->layout);
      opus_projection_encoder_ctl(st, OPUS_PROJECTION_GET_DEMIXING_MATRIX_SIZE(&size));
      opus_projection_encoder_ctl(st, OPUS_PROJECTION_GET_DEMIXING_MATRIX_GAIN(&gain));
      printf(" mix=%dx%d:%d demix=%dx%d:%d dm=", mx->rows, mx->cols, mx->gain, dx->rows, dx->cols, gain);
      dm = (unsigned char *)malloc(size > 0 ? size : 1);
      ret = opus_projection_encoder_ctl(st, OPUS_PROJECTION_GET_DEMIXING_MATRIX(dm, size));
      if (ret != OPUS_OK) printf("%s", verr(ret)); else vhex(stdout, dm, size);
      printf("\n");
      free(dm);
   }
   if (create) opus_projection_encoder_destroy(st);
}

static void do_ambi(int channels)
{
   int s = -1, c = -1, r;
   printf("I layout ambi %d\n", channels);
   r = validate_ambisonics(channels, &s, &c);
   if (r) printf("O OK %d %d\n", s, c); else printf("O REJECT\n");
}

static void run_enum(void)
{
   static const int fams[] = {0, 1, 2, 255, 3, 4, -1, 254, 256};
   int f, ch, mode;
   for (f = 0; f < 9; f++) for (ch = -1; ch <= 257; ch++) for (mode = 0; mode < 2; mode++) {
      do_surround(mode, 1, fams[f], ch);
      if (ch % 16 == 3 || ch <= 8) do_surround(mode, 0, fams[f], ch);
   }
   for (f = 0; f < 9; f++) for (ch = -1; ch <= 257; ch++) for (mode = 0; mode < 2; mode++) {
      if (fams[f] != 3 && ch > 40 && ch % 8) continue;
      do_proj(mode, 1, fams[f], ch);
      if (ch == 4 || ch == 11) do_proj(mode, 0, fams[f], ch);
   }
   for (ch = -3; ch <= 300; ch++) do_ambi(ch);
   for (ch = 1; ch <= 70000; ch += (ch < 2000 ? 1 : 37)) { printf("I layout isqrt %d\nO r=%u\n", ch, isqrt32(ch)); }
   { static const unsigned big[] = {65535, 65536, 1u << 20, (1u << 24) - 1, 1u << 30, 0x7fffffffu, 0xfffe0001u, 0xffffffffu};
     for (f = 0; f < 8; f++) printf("I layout isqrt %u\nO r=%u\n", big[f], isqrt32(big[f])); }
}

/* ------------------------------------------------------------------ random layouts */
static void gen_layout(vrng *r, int *channels, int *streams, int *coupled, unsigned char *mapping, int encoderish)
{
   int ch, st, co, i, maxc;
   int small = vchance(r, 80);
   ch = small ? vrange(r, 1, 10) : vrange(r, 1, 255);
   if (vchance(r, 3)) ch = vchance(r, 50) ? 255 : 1;
   st = small ? vrange(r, 1, 6) : vrange(r, 1, 255);
   co = vchance(r, 30) ? 0 : vrange(r, 0, st);
   if (vchance(r, 4)) { st = vrange(r, 120, 255); co = 255 - st + vrange(r, -2, 1); if (co < 0) co = 0; }
   if (encoderish) { /* make the encoder's extra condition streams+coupled<=channels likely */
      if (st + co > ch && vchance(r, 85)) { st = 1 + vbelow(r, ch); co = vbelow(r, (ch - st < st ? ch - st : st) + 1); }
   }
   maxc = st + co;
   for (i = 0; i < ch; i++) {
      int k = vbelow(r, 100);
      if (k < 70) mapping[i] = maxc > 0 ? vbelow(r, maxc > 255 ? 255 : maxc) : 0;      /* valid, duplicates likely */
      else if (k < 85) mapping[i] = 255;
      else if (k < 93) mapping[i] = (unsigned char)(maxc + vrange(r, -1, 1));            /* boundary */
      else mapping[i] = (unsigned char)vnext(r);
   }
   if (encoderish && vchance(r, 70)) { /* cover every stream so that validate_encoder_layout passes */
      int need = maxc < ch ? maxc : ch, j;
      for (j = 0; j < need; j++) mapping[j] = j;
      for (j = need - 1; j > 0; j--) { int k = vbelow(r, j + 1); unsigned char t = mapping[j]; mapping[j] = mapping[k]; mapping[k] = t; }
      if (ch > need && vchance(r, 50)) { int a = vbelow(r, ch), b = vbelow(r, ch); unsigned char t = mapping[a]; mapping[a] = mapping[b]; mapping[b] = t; }
   }
   if (vchance(r, 6)) { int k = vbelow(r, 6); /* out-of-range arguments */
      if (k == 0) ch = vchance(r, 50) ? 0 : 256; else if (k == 1) st = 0; else if (k == 2) co = -1;
      else if (k == 3) co = st + 1; else if (k == 4) { st = 200; co = 56; } else ch = -1; }
   *channels = ch; *streams = st; *coupled = co;
}

static void do_decinit(int create, int fsok, int ch, int st, int co, const unsigned char *mapping)
{
   int n = ch > 0 ? (ch > 256 ? 256 : ch) : 0, ret = 0;
   unsigned char *m = vexact(mapping, n);
   OpusMSDecoder *d;
   printf("I layout decinit %s %d %d %d %d ", create ? "create" : "init", fsok, ch, st, co); vhex(stdout, mapping, n); printf("\n");
   fflush(stdout);
   if (create) d = opus_multistream_decoder_create(fsok ? 16000 : 44100, ch, st, co, m, &ret);
   else { d = (OpusMSDecoder *)bigbuf; ret = opus_multistream_decoder_init(d, fsok ? 16000 : 44100, ch, st, co, m); }
   if (ret != OPUS_OK) printf("O %s\n", verr(ret));
   else { printf("O OK st="); pr_layout(&d->layout); printf("\n"); if (create) opus_multistream_decoder_destroy(d); }
   free(m);
}

static void do_encinit(int create, int fsok, int ch, int st, int co, const unsigned char *mapping)
{
   int n = ch > 0 ? (ch > 256 ? 256 : ch) : 0, ret = 0;
   unsigned char *m = vexact(mapping, n);
   OpusMSEncoder *e;
   printf("I layout encinit %s %d %d %d %d ", create ? "create" : "init", fsok, ch, st, co); vhex(stdout, mapping, n); printf("\n");
   fflush(stdout);
   if (create) e = opus_multistream_encoder_create(fsok ? 24000 : 44100, ch, st, co, m, OPUS_APPLICATION_VOIP, &ret);
   else { e = (OpusMSEncoder *)bigbuf; ret = opus_multistream_encoder_init(e, fsok ? 24000 : 44100, ch, st, co, m, OPUS_APPLICATION_VOIP); }
   if (ret != OPUS_OK) printf("O %s\n", verr(ret));
   else { printf("O OK st="); pr_layout(&e->layout); printf(" type=%d lfe=%d\n", (int)e->mapping_type, e->lfe_stream); if (create) opus_multistream_encoder_destroy(e); }
   free(m);
}

static void do_getchan(vrng *r, int ch, int st, int co, const unsigned char *mapping)
{
   ChannelLayout l;
   int i, k;
   if (ch < 1 || ch > 255 || co < 0 || st < 1) return;
   l.nb_channels = ch; l.nb_streams = st; l.nb_coupled_streams = co;
   memset(l.mapping, 0xEE, sizeof l.mapping);
   for (i = 0; i < ch; i++) l.mapping[i] = mapping[i];
   printf("I layout vlayout %d %d %d ", ch, st, co); vhex(stdout, mapping, ch);
   printf("\nO layout=%d enc=%d\n", validate_layout(&l), validate_encoder_layout(&l));
   for (k = 0; k < 4; k++) {
      int kind = vbelow(r, 3), s = vchance(r, 80) ? (int)vbelow(r, st) : vrange(r, 0, 130);
      int prev = vchance(r, 40) ? -1 : vrange(r, -2, ch + 1), res;
      printf("I layout getchan %c %d %d ", "lrm"[kind], ch, co); vhex(stdout, mapping, ch); printf(" %d %d\n", s, prev);
      res = kind == 0 ? get_left_channel(&l, s, prev) : kind == 1 ? get_right_channel(&l, s, prev) : get_mono_channel(&l, s, prev);
      printf("O c=%d\n", res);
   }
}

static void run_rand(uint64_t seed, long n)
{
   vrng r; long c; r.s = seed;
   for (c = 0; c < n; c++) {
      unsigned char mapping[256];
      int ch, st, co, enc = vbelow(&r, 2), fsok = !vchance(&r, 5);
      memset(mapping, 0, sizeof mapping);
      gen_layout(&r, &ch, &st, &co, mapping, enc);
      if (enc) { do_encinit(vbelow(&r, 2), fsok, ch, st, co, mapping); if (vchance(&r, 30)) do_decinit(vbelow(&r, 2), fsok, ch, st, co, mapping); }
      else { do_decinit(vbelow(&r, 2), fsok, ch, st, co, mapping); if (vchance(&r, 30)) do_encinit(vbelow(&r, 2), fsok, ch, st, co, mapping); }
      if (vchance(&r, 50)) do_getchan(&r, ch, st, co, mapping);
   }
}

/* ------------------------------------------------------------------ multistream packets */
static long put_size(unsigned char *o, int s) { if (s < 252) { o[0] = s; return 1; } o[0] = 252 + (s & 3); o[1] = (s - o[0]) >> 2; return 2; }
/* configs by frame duration class: 0=2.5ms 1=5 2=10 3=20 4=40 5=60 */
static const int cfg_by_dur[6][9] = {{16, 20, 24, 28, -1}, {17, 21, 25, 29, -1}, {0, 4, 8, 12, 14, 18, 22, 26, 30}, {1, 5, 9, 13, 15, 19, 23, 27, 31}, {2, 6, 10, -1}, {3, 7, 11, -1}};
static const int cfg_n[6] = {4, 4, 9, 9, 3, 3};

/* one sub-packet with `count` frames of duration class `dur`; self-delimited when sd */
static long gen_sub(vrng *r, int sd, int dur, int count, unsigned char *o)
{
   int config = cfg_by_dur[dur][vbelow(r, cfg_n[dur])], stereo = vbelow(r, 2);
   int code, vbr = 0, i, sizes[64], haspad = 0;
   long n = 0, padtotal = 0;
   if (count == 1) code = vchance(r, 70) ? 0 : 3; else if (count == 2) code = 1 + vbelow(r, 3); else code = 3;
   if (code == 3) vbr = vbelow(r, 2);
   { int base = vchance(r, 80) ? (int)vbelow(r, 12) : (vchance(r, 50) ? 251 + (int)vbelow(r, 6) : (int)vbelow(r, 600));
     for (i = 0; i < count; i++) sizes[i] = (code == 1 || (code == 3 && !vbr)) ? base : (vchance(r, 80) ? (int)vbelow(r, 12) : (int)vbelow(r, 300)); }
   o[n++] = config * 8 + stereo * 4 + code;
   if (code == 3) {
      haspad = vchance(r, 25);
      o[n++] = (count & 63) | (haspad ? 64 : 0) | (vbr ? 128 : 0);
      if (haspad) { int c255 = vchance(r, 85) ? 0 : 1, last = vbelow(r, 8); for (i = 0; i < c255; i++) o[n++] = 255; o[n++] = last; padtotal = 254L * c255 + last; }
   }
   if (code == 2 || (code == 3 && vbr)) for (i = 0; i < count - 1; i++) n += put_size(o + n, sizes[i]);
   if (sd) n += put_size(o + n, sizes[count - 1]);
   for (i = 0; i < count; i++) { int k; for (k = 0; k < sizes[i]; k++) o[n++] = (unsigned char)vnext(r); }
   { long k; for (k = 0; k < padtotal; k++) o[n++] = 0; }
   return n;
}

/* a multistream packet of nb sub-packets; mostly equal durations */
static long gen_ms(vrng *r, int nb, unsigned char *o, long *offs)
{
   int dur = vbelow(r, 6), count, s;
   long n = 0;
   static const int maxcnt[6] = {48, 24, 12, 6, 3, 2};
   count = vchance(r, 60) ? 1 : (vchance(r, 60) ? 2 : vrange(r, 1, maxcnt[dur] + (vchance(r, 10) ? 1 : 0)));
   if (nb > 24 && count > 2) count = 2;   /* keeps the packet below MSBUF (255 streams x 2 frames x <600 bytes) */
   for (s = 0; s < nb; s++) {
      int d = dur, c = count;
      if (vchance(r, 4)) { d = vbelow(r, 6); c = vrange(r, 1, 3); }   /* unequal duration */
      if (offs) offs[s] = n;
      n += gen_sub(r, s != nb - 1, d, c, o + n);
   }
   if (offs) offs[nb] = n;
   return n;
}

static long mutate(vrng *r, unsigned char *buf, long n)
{
   int mut = vbelow(r, 14);
   if (mut == 0 && n > 0) n = vbelow(r, (uint32_t)n + 1);
   else if (mut == 1) { int k = vrange(r, 1, 4); while (k--) buf[n++] = (unsigned char)vnext(r); }
   else if (mut == 2 && n > 0) buf[vbelow(r, n < 8 ? (uint32_t)n : 8)] = (unsigned char)vnext(r);
   else if (mut == 3 && n > 0) buf[vbelow(r, (uint32_t)n)] ^= 1 << vbelow(r, 8);
   else if (mut == 4) { long k; n = vbelow(r, 12); for (k = 0; k < n; k++) buf[k] = (unsigned char)vnext(r); }
   return n;
}

static void do_msvalidate(int nb, int Fs, const unsigned char *buf, long n)
{
   unsigned char *p = vexact(buf, n);
   int ret;
   printf("I layout msvalidate %d %d ", nb, Fs); vhex(stdout, buf, n); printf("\n");
   fflush(stdout);
   ret = opus_multistream_packet_validate(p, (opus_int32)n, nb, Fs);
   if (ret < 0) printf("O %s\n", verr(ret)); else printf("O n=%d\n", ret);
   free(p);
}

static void run_msval(uint64_t seed, long cases)
{
   static unsigned char buf[MSBUF];
   vrng r; long c; r.s = seed;
   for (c = 0; c < cases; c++) {
      int nb = vchance(&r, 85) ? vrange(&r, 1, 5) : vrange(&r, 1, 24);
      long n = gen_ms(&r, nb, buf, NULL);
      int nbv = nb;
      n = mutate(&r, buf, n);
      if (vchance(&r, 8)) nbv = nb + vrange(&r, -1, 1);
      if (nbv < 0) nbv = 0;
      do_msvalidate(nbv, RATES[vbelow(&r, 5)], buf, n);
   }
}

/* ------------------------------------------------------------------ routing with a scripted per-stream decoder */
#ifdef C10_STUB
static struct { int ret[256]; int off[256]; int n, call, coupled; } script;
int verif_decode_native(OpusDecoder *st, const unsigned char *data, opus_int32 len, opus_res *pcm, int frame_size,
      int decode_fec, int self_delimited, opus_int32 *packet_offset, int soft_clip, const OpusDRED *dred, opus_int32 dred_offset)
{
   int s = script.call++;
   (void)st; (void)data; (void)len; (void)decode_fec; (void)self_delimited; (void)soft_clip; (void)dred; (void)dred_offset; (void)frame_size;
   if (s >= script.n) { printf("O STUB-OVERRUN\n"); exit(5); }
   if (packet_offset) *packet_offset = script.off[s];
   /* mark the stream's samples: value identifies (stream, side) */
   if (s < script.coupled) { pcm[0] = (opus_res)(4 * s + 1); pcm[1] = (opus_res)(4 * s + 2); }
   else pcm[0] = (opus_res)(4 * s + 3);
   return script.ret[s];
}
static struct { int chan[4096]; int code[4096]; int fs[4096]; int n; } calllog;
static void log_copy(void *dst, int dst_stride, int dst_channel, const opus_res *src, int src_stride, int frame_size, void *user_data)
{
   int code = 0;
   (void)dst; (void)dst_stride; (void)user_data;
   if (src) { code = (int)src[0]; if ((code & 3) == 3 ? src_stride != 1 : src_stride != 2) code = -1; }
   else if (src_stride != 0) code = -1;
   if (calllog.n < 4096) { calllog.chan[calllog.n] = dst_channel; calllog.code[calllog.n] = code; calllog.fs[calllog.n] = frame_size; calllog.n++; }
}

static void run_route(uint64_t seed, long cases)
{
   static unsigned char buf[MSBUF];
   static long offs[300];
   vrng r; long c; r.s = seed;
   for (c = 0; c < cases; c++) {
      unsigned char mapping[256];
      int ch, st, co, i, ret, err = 0, Fs = RATES[vbelow(&r, 5)], frame_size, plc = vchance(&r, 30);
      long n = 0, len;
      OpusMSDecoder *d;
      static const int fss[] = {120, 240, 480, 960, 1920, 2880, 5760, 1, 7, 0, -1, 100000};
      memset(mapping, 0, sizeof mapping);
      do { gen_layout(&r, &ch, &st, &co, mapping, 0); if (st > 12 && vchance(&r, 90)) st = vrange(&r, 1, 12); if (co > st) co = st;
           d = opus_multistream_decoder_create(Fs, ch, st, co, mapping, &err); } while (!d);
      frame_size = vchance(&r, 40) ? 5760 : fss[vbelow(&r, vchance(&r, 80) ? 7 : 12)];
      if (!plc) { n = gen_ms(&r, st, buf, offs); if (vchance(&r, 25)) n = mutate(&r, buf, n); }
      len = n;
      if (vchance(&r, 3)) len = -1;
      script.n = st; script.call = 0; script.coupled = co; calllog.n = 0;
      { int base = vchance(&r, 70) ? frame_size : (int)vbelow(&r, 3000), bad = vchance(&r, 15) ? (int)vbelow(&r, st) : -1;
        if (base < 1) base = 1 + vbelow(&r, 960);
        for (i = 0; i < st; i++) {
           script.ret[i] = vchance(&r, 5) ? 1 + (int)vbelow(&r, 3000) : base;
           if (i == bad) script.ret[i] = vchance(&r, 50) ? 0 : -(int)(1 + vbelow(&r, 7));
           script.off[i] = (!plc && vchance(&r, 90)) ? (int)(offs[i + 1] - offs[i]) : vrange(&r, -3, 40);
        } }
      printf("I layout route %d %d %d ", ch, st, co); vhex(stdout, mapping, ch);
      printf(" %d %d %ld ", Fs, frame_size, len); vhex(stdout, buf, len > 0 ? n : 0); printf(" ");
      for (i = 0; i < st; i++) printf("%s%d:%d", i ? "," : "", script.ret[i], script.off[i]);
      printf("\n"); fflush(stdout);
      { unsigned char *p = vexact(buf, len > 0 ? n : 0);
        float dummy[4];
        ret = opus_multistream_decode_native(d, p, (opus_int32)len, dummy, log_copy, frame_size, 0, 0, NULL);
        free(p); }
      printf("O ret=%s", ret < 0 ? verr(ret) : ""); if (ret >= 0) printf("%d", ret);
      printf(" calls=");
      if (!calllog.n) printf("-");
      for (i = 0; i < calllog.n; i++) {
         int code = calllog.code[i];
         printf("%s%d:", i ? "," : "", calllog.chan[i]);
         if (code == 0) printf("Z"); else if (code < 0) printf("BADSTRIDE"); else printf("%c%d", "?LRM"[code & 3], code >> 2);
         printf(":%d", calllog.fs[i]);
      }
      printf("\n");
      opus_multistream_decoder_destroy(d);
   }
}

/* ---- multistream encode with scripted per-stream encoders */
static struct { unsigned char *pk[256]; int len[256]; int n, call; int cm[256]; } escript;
opus_int32 verif_encode_native(OpusEncoder *st, const opus_res *pcm, int frame_size, unsigned char *data, opus_int32 out_data_bytes,
      int lsb_depth, const void *analysis_pcm, opus_int32 analysis_size, int c1, int c2, int analysis_channels, downmix_func downmix, int float_api)
{
   int s = escript.call++;
   (void)st; (void)pcm; (void)frame_size; (void)lsb_depth; (void)analysis_pcm; (void)analysis_size; (void)c1; (void)c2; (void)analysis_channels; (void)downmix; (void)float_api;
   if (s >= escript.n) { printf("O STUB-OVERRUN\n"); exit(5); }
   escript.cm[s] = out_data_bytes;
   if (escript.len[s] > out_data_bytes) return OPUS_BUFFER_TOO_SMALL;
   memcpy(data, escript.pk[s], escript.len[s]);
   return escript.len[s];
}

static void run_msenc(uint64_t seed, long cases)
{
   static unsigned char pkbuf[24][40000];
   static opus_int16 pcm[5760 * 48];
   vrng r; long c; r.s = seed;
   for (c = 0; c < cases; c++) {
      /* (dur class, count) decompositions of a total duration given in 2.5 ms units */
      static const int units[6] = {1, 2, 4, 8, 16, 24};
      static const int totals[9] = {1, 2, 4, 8, 16, 24, 32, 40, 48};
      int st = vchance(&r, 85) ? vrange(&r, 1, 5) : vrange(&r, 6, 20), co = vbelow(&r, st + 1), ch = st + co;
      int Fs = RATES[vbelow(&r, 5)], total = totals[vbelow(&r, 9)], frame_size = Fs / 400 * total;
      int vbr = vbelow(&r, 2), s, i, sum = 0, ret, err = 0;
      long maxd;
      opus_int32 bitrate = 0; int have_br = 0;
      unsigned char mapping[64], *out;
      OpusMSEncoder *enc;
      for (i = 0; i < ch; i++) mapping[i] = i;
      for (s = 0; s < st; s++) {
         int tot = total, d, cnt;
         if (vchance(&r, 4)) tot = totals[vbelow(&r, 9)];                 /* wrong duration (outside the contract) */
         do { d = vbelow(&r, 6); } while (tot % units[d] || tot / units[d] > 48);
         cnt = tot / units[d];
         escript.len[s] = (int)gen_sub(&r, 0, d, cnt, pkbuf[s]);
         if (vchance(&r, 3)) escript.len[s] = (int)mutate(&r, pkbuf[s], escript.len[s]);
         if (escript.len[s] > 7662) escript.len[s] = 7662;
         escript.pk[s] = pkbuf[s];
         sum += escript.len[s];
      }
      escript.n = st; escript.call = 0;
      { int k = vbelow(&r, 10), need = sum + 2 * (st - 1);
        maxd = k < 6 ? need + vrange(&r, -4, 6) : k < 8 ? need + vrange(&r, 7, 600) : k < 9 ? 4000L * st : vrange(&r, -2, 3 * st + 2);
        if (maxd > 200000) maxd = 200000; }
      if (!vbr || vchance(&r, 30)) {                                      /* explicit bitrate, or OPUS_BITRATE_MAX */
         if (vchance(&r, 50)) { have_br = 1; bitrate = (opus_int32)((sum + 2 * st + vrange(&r, -6, 40)) * 8L * Fs / frame_size); /* the range OPUS_SET_BITRATE on the multistream encoder stores unchanged (it clamps to [500, 300000] per channel) */
                                if (bitrate < 500 * ch) bitrate = 500 * ch; if (bitrate > 300000 * ch) bitrate = 300000 * ch; }
      }
      enc = opus_multistream_encoder_create(Fs, ch, st, co, mapping, OPUS_APPLICATION_AUDIO, &err);
      if (!enc) { printf("O CREATE-FAILED\n"); exit(5); }
      opus_multistream_encoder_ctl(enc, OPUS_SET_VBR(vbr));
      opus_multistream_encoder_ctl(enc, OPUS_SET_BITRATE(have_br ? bitrate : OPUS_BITRATE_MAX));
      if (vbr && !have_br && vchance(&r, 50)) opus_multistream_encoder_ctl(enc, OPUS_SET_BITRATE(OPUS_AUTO));
      printf("I layout msenc %d %d %d %d ", st, Fs, frame_size, vbr);
      if (have_br) printf("%d", bitrate); else printf("-");
      printf(" %ld ", maxd);
      for (s = 0; s < st; s++) { if (s) printf("/"); vhex(stdout, pkbuf[s], escript.len[s]); }
      printf("\n"); fflush(stdout);
      out = (unsigned char *)malloc(maxd > 0 ? maxd : 1);
      ret = opus_multistream_encode(enc, pcm, frame_size, out, (opus_int32)maxd);
      printf("O ret=");
      if (ret < 0) printf("%s", verr(ret)); else printf("%d", ret);
      printf(" cm=");
      if (!escript.call) printf("-");
      for (s = 0; s < escript.call; s++) printf("%s%d", s ? "," : "", escript.cm[s]);
      if (ret >= 0) { printf(" data="); vhex(stdout, out, ret); }
      printf("\n");
      free(out);
      opus_multistream_encoder_destroy(enc);
   }
}
#endif

/* ------------------------------------------------------------------ mapping matrices */
static const MappingMatrix *MIX[7], *DEMIX[7];
static const opus_int16 *MIXD[7], *DEMIXD[7];
static void setup_matrices(void)
{
   MIX[2] = &mapping_matrix_foa_mixing; MIXD[2] = mapping_matrix_foa_mixing_data; DEMIX[2] = &mapping_matrix_foa_demixing; DEMIXD[2] = mapping_matrix_foa_demixing_data;
   MIX[3] = &mapping_matrix_soa_mixing; MIXD[3] = mapping_matrix_soa_mixing_data; DEMIX[3] = &mapping_matrix_soa_demixing; DEMIXD[3] = mapping_matrix_soa_demixing_data;
   MIX[4] = &mapping_matrix_toa_mixing; MIXD[4] = mapping_matrix_toa_mixing_data; DEMIX[4] = &mapping_matrix_toa_demixing; DEMIXD[4] = mapping_matrix_toa_demixing_data;
   MIX[5] = &mapping_matrix_fourthoa_mixing; MIXD[5] = mapping_matrix_fourthoa_mixing_data; DEMIX[5] = &mapping_matrix_fourthoa_demixing; DEMIXD[5] = mapping_matrix_fourthoa_demixing_data;
   MIX[6] = &mapping_matrix_fifthoa_mixing; MIXD[6] = mapping_matrix_fifthoa_mixing_data; DEMIX[6] = &mapping_matrix_fifthoa_demixing; DEMIXD[6] = mapping_matrix_fifthoa_demixing_data;
}
/* a MappingMatrix object as the encoder builds it (header + cells) */
/* a custom (possibly non-square) matrix for the correspondence cases: when set, make_matrix / mx_name use it */
static struct { int on, rows, cols; opus_int16 cells[64]; } g_cm;
static MappingMatrix *make_matrix(int o, int demix)
{
   const MappingMatrix *h = demix ? DEMIX[o] : MIX[o];
   MappingMatrix *m;
   if (g_cm.on) {
      m = (MappingMatrix *)malloc(mapping_matrix_get_size(g_cm.rows, g_cm.cols));
      mapping_matrix_init(m, g_cm.rows, g_cm.cols, 0, g_cm.cells, g_cm.rows * g_cm.cols * (int)sizeof(opus_int16));
      return m;
   }
   m = (MappingMatrix *)malloc(mapping_matrix_get_size(h->rows, h->cols));
   mapping_matrix_init(m, h->rows, h->cols, h->gain, demix ? DEMIXD[o] : MIXD[o], h->rows * h->cols * (int)sizeof(opus_int16));
   return m;
}
/* "<o> mix|demix" for a built-in matrix, "0 m<rows>:<cols>:<cells>" for the custom one */
static const char *mx_name(int o, int demix)
{
   static char b[700]; int i, n;
   if (!g_cm.on) { sprintf(b, "%d %s", o, demix ? "demix" : "mix"); return b; }
   n = sprintf(b, "0 m%d:%d:", g_cm.rows, g_cm.cols);
   for (i = 0; i < g_cm.rows * g_cm.cols; i++) n += sprintf(b + n, "%s%d", i ? "," : "", g_cm.cells[i]);
   return b;
}
static unsigned f2u(float f) { unsigned u; memcpy(&u, &f, 4); return u; }

static void do_mixin(int o, int demix, int input_rows, int output_row, int output_rows, int frame_size, const opus_int16 *in)
{
   MappingMatrix *m = make_matrix(o, demix);
   opus_int16 *inx = (opus_int16 *)malloc(sizeof(opus_int16) * (input_rows * frame_size + 1));
   float *out = (float *)calloc(output_rows * frame_size + 1, sizeof(float));
   int i;
   memcpy(inx, in, sizeof(opus_int16) * input_rows * frame_size);
   printf("I layout mixin %s %d %d %d %d ", mx_name(o, demix), input_rows, output_row, output_rows, frame_size);
   if (!(input_rows * frame_size)) printf("-");
   for (i = 0; i < input_rows * frame_size; i++) printf("%s%d", i ? "," : "", in[i]);
   printf("\n"); fflush(stdout);
   mapping_matrix_multiply_channel_in_short(m, inx, input_rows, out, output_row, output_rows, frame_size);
   printf("O OK ");
   if (!frame_size) printf("-");
   for (i = 0; i < frame_size; i++) printf("%s%u", i ? "," : "", f2u(out[output_rows * i]));
   printf("\n");
   free(m); free(inx); free(out);
}

static void do_mixout(int o, int demix, int input_row, int input_rows, int output_rows, int frame_size, const float *in, opus_int16 *out)
{
   MappingMatrix *m = make_matrix(o, demix);
   float *inx = (float *)malloc(sizeof(float) * (input_rows * frame_size + 1));
   opus_int16 *outx = (opus_int16 *)malloc(sizeof(opus_int16) * (output_rows * frame_size + 1));
   int i, nin = frame_size ? input_rows * (frame_size - 1) + 1 : 0;
   memcpy(inx, in, sizeof(float) * nin);
   memcpy(outx, out, sizeof(opus_int16) * output_rows * frame_size);
   printf("I layout mixout %s %d %d %d %d ", mx_name(o, demix), input_row, input_rows, output_rows, frame_size);
   if (!nin) printf("-");
   for (i = 0; i < nin; i++) printf("%s%u", i ? "," : "", f2u(in[i]));
   printf(" ");
   if (!(output_rows * frame_size)) printf("-");
   for (i = 0; i < output_rows * frame_size; i++) printf("%s%d", i ? "," : "", out[i]);
   printf("\n"); fflush(stdout);
   mapping_matrix_multiply_channel_out_short(m, inx, input_row, input_rows, outx, output_rows, frame_size);
   printf("O OK ");
   if (!(output_rows * frame_size)) printf("-");
   for (i = 0; i < output_rows * frame_size; i++) printf("%s%d", i ? "," : "", outx[i]);
   printf("\n");
   memcpy(out, outx, sizeof(opus_int16) * output_rows * frame_size);
   free(m); free(inx); free(outx);
}

static void pr_bits(const float *v, int n) { int i; if (!n) printf("-"); for (i = 0; i < n; i++) printf("%s%u", i ? "," : "", f2u(v[i])); }
static void do_mixinf(int o, int demix, int input_rows, int output_row, int output_rows, int frame_size, const float *in)
{
   MappingMatrix *m = make_matrix(o, demix);
   float *inx = (float *)malloc(sizeof(float) * (input_rows * frame_size + 1));
   float *out = (float *)calloc(output_rows * frame_size + 1, sizeof(float)), res[8];
   int i;
   memcpy(inx, in, sizeof(float) * input_rows * frame_size);
   printf("I layout mixinf %s %d %d %d %d ", mx_name(o, demix), input_rows, output_row, output_rows, frame_size);
   pr_bits(in, input_rows * frame_size);
   printf("\n"); fflush(stdout);
   mapping_matrix_multiply_channel_in_float(m, inx, input_rows, out, output_row, output_rows, frame_size);
   for (i = 0; i < frame_size; i++) res[i] = out[output_rows * i];
   printf("O OK "); pr_bits(res, frame_size); printf("\n");
   free(m); free(inx); free(out);
}
static void do_mixoutf(int o, int demix, int input_row, int input_rows, int output_rows, int frame_size, const float *in, const float *out0)
{
   MappingMatrix *m = make_matrix(o, demix);
   int nin = frame_size ? input_rows * (frame_size - 1) + 1 : 0;
   float *inx = (float *)malloc(sizeof(float) * (nin + 1));
   float *outx = (float *)malloc(sizeof(float) * (output_rows * frame_size + 1));
   memcpy(inx, in, sizeof(float) * nin);
   memcpy(outx, out0, sizeof(float) * output_rows * frame_size);
   printf("I layout mixoutf %s %d %d %d %d ", mx_name(o, demix), input_row, input_rows, output_rows, frame_size);
   pr_bits(in, nin); printf(" "); pr_bits(out0, output_rows * frame_size);
   printf("\n"); fflush(stdout);
   mapping_matrix_multiply_channel_out_float(m, inx, input_row, input_rows, outx, output_rows, frame_size);
   printf("O OK "); pr_bits(outx, output_rows * frame_size); printf("\n");
   free(m); free(inx); free(outx);
}
static void do_mixin24(int o, int demix, int input_rows, int output_row, int output_rows, int frame_size, const opus_int32 *in)
{
   MappingMatrix *m = make_matrix(o, demix);
   opus_int32 *inx = (opus_int32 *)malloc(sizeof(opus_int32) * (input_rows * frame_size + 1));
   float *out = (float *)calloc(output_rows * frame_size + 1, sizeof(float)), res[8];
   int i;
   memcpy(inx, in, sizeof(opus_int32) * input_rows * frame_size);
   printf("I layout mixin24 %s %d %d %d %d ", mx_name(o, demix), input_rows, output_row, output_rows, frame_size);
   if (!(input_rows * frame_size)) printf("-");
   for (i = 0; i < input_rows * frame_size; i++) printf("%s%d", i ? "," : "", in[i]);
   printf("\n"); fflush(stdout);
   mapping_matrix_multiply_channel_in_int24(m, inx, input_rows, out, output_row, output_rows, frame_size);
   for (i = 0; i < frame_size; i++) res[i] = out[output_rows * i];
   printf("O OK "); pr_bits(res, frame_size); printf("\n");
   free(m); free(inx); free(out);
}
static void do_mixout24(int o, int demix, int input_row, int input_rows, int output_rows, int frame_size, const float *in, const opus_int32 *out0)
{
   MappingMatrix *m = make_matrix(o, demix);
   int nin = frame_size ? input_rows * (frame_size - 1) + 1 : 0, i;
   float *inx = (float *)malloc(sizeof(float) * (nin + 1));
   opus_int32 *outx = (opus_int32 *)malloc(sizeof(opus_int32) * (output_rows * frame_size + 1));
   memcpy(inx, in, sizeof(float) * nin);
   memcpy(outx, out0, sizeof(opus_int32) * output_rows * frame_size);
   printf("I layout mixout24 %s %d %d %d %d ", mx_name(o, demix), input_row, input_rows, output_rows, frame_size);
   pr_bits(in, nin); printf(" ");
   if (!(output_rows * frame_size)) printf("-");
   for (i = 0; i < output_rows * frame_size; i++) printf("%s%d", i ? "," : "", out0[i]);
   printf("\n"); fflush(stdout);
   mapping_matrix_multiply_channel_out_int24(m, inx, input_row, input_rows, outx, output_rows, frame_size);
   printf("O OK ");
   if (!(output_rows * frame_size)) printf("-");
   for (i = 0; i < output_rows * frame_size; i++) printf("%s%d", i ? "," : "", outx[i]);
   printf("\n");
   free(m); free(inx); free(outx);
}
/* 24-bit paths: in_int24 in the exact binary32 domain; out_int24 with arbitrary finite floats (incl. beyond the int range of
   float2int) and accumulators up to the int32 limits (the sum is converted back to opus_int32 without saturation) */
static void run_matrix_int24(vrng *r, long cases)
{
   long c;
   for (c = 0; c < cases; c++) {
      int o = vrange(r, 2, 6), demix = vbelow(r, 2), n = o * o + 2, ch = vchance(r, 50) ? n : n - 2;
      int frame_size = vrange(r, 1, 3), i, k, j = vbelow(r, 16);
      opus_int32 in[38 * 3], out[38 * 3];
      float fin[4];
      memset(in, 0, sizeof in);
      if (vchance(r, 50)) for (i = 0; i < frame_size; i++) in[i * ch + vbelow(r, ch)] = vrange(r, -255, 255) * (1 << j);
      else for (i = 0; i < frame_size * ch; i++) in[i] = vrange(r, -7, 7) * (1 << j);
      do_mixin24(o, demix, ch, vbelow(r, ch), vchance(r, 50) ? 1 : 2, frame_size, in);
      for (i = 0; i < frame_size; i++) {
         k = vbelow(r, 10);
         if (k < 5) fin[i] = (float)vrange(r, -9000000, 9000000) / 8388608.f;
         else if (k < 7) fin[i] = ((float)vrange(r, -70000, 70000) + 0.5f) / 8388608.f;      /* ties */
         else if (k < 8) fin[i] = (float)vrange(r, -300, 300);                                 /* beyond the int range above 255 */
         else { unsigned u = (unsigned)vnext(r); float f; if (((u >> 23) & 255) == 255) u &= ~(1u << 30); memcpy(&f, &u, 4); fin[i] = f; }
      }
      for (k = 0; k < frame_size * ch; k++)
         out[k] = vchance(r, 60) ? 0 : (vchance(r, 70) ? vrange(r, -9000000, 9000000) : (opus_int32)(vchance(r, 50) ? 2147483647 - vbelow(r, 1 << 24) : -2147483647 - 1 + (opus_int32)vbelow(r, 1 << 24)));
      do_mixout24(o, demix, vbelow(r, ch), 1, ch, frame_size, fin, out);
   }
}

/* exact-domain float cases: every product, partial sum and scaled result is a binary32 value, so the result does not
   depend on rounding, evaluation precision or contraction */
static void run_matrix_float(vrng *r, long cases)
{
   long c;
   for (c = 0; c < cases; c++) {
      int o = vrange(r, 2, 6), demix = vbelow(r, 2), n = o * o + 2, ch = vchance(r, 50) ? n : n - 2;
      int frame_size = vrange(r, 1, 3), i, k, j = vbelow(r, 21), rows = ch;
      float fin[38 * 3], fout[38 * 3], unit = ldexpf(1.f, -j);
      memset(fin, 0, sizeof fin);
      if (vchance(r, 50)) for (i = 0; i < frame_size; i++) fin[i * rows + vbelow(r, rows)] = (float)vrange(r, -255, 255) * unit;
      else for (i = 0; i < frame_size * rows; i++) fin[i] = (float)vrange(r, -7, 7) * unit;
      do_mixinf(o, demix, rows, vbelow(r, ch), vchance(r, 50) ? 1 : 2, frame_size, fin);
      /* out_float: sample k*2^-j (|k| < 128), accumulator q*2^-(15+j) with |q| < 2^22 */
      for (i = 0; i < frame_size; i++) fin[i] = (float)vrange(r, -127, 127) * unit;
      for (k = 0; k < frame_size * ch; k++) fout[k] = vchance(r, 50) ? 0.f : (float)vrange(r, -4194303, 4194303) * ldexpf(1.f, -15 - j);
      do_mixoutf(o, demix, vbelow(r, ch), 1, ch, frame_size, fin, fout);
   }
}

/* exact-domain int16 inputs for the float accumulation of in_short: either one non-zero channel per
   sample with few significant bits, or all channels with |x| <= 7 (|sum| < 2^24) */
static void gen_exact_input(vrng *r, opus_int16 *in, int rows, int frame_size)
{
   int i, c, kind = vbelow(r, 3);
   memset(in, 0, sizeof(opus_int16) * rows * frame_size);
   for (i = 0; i < frame_size; i++) {
      if (kind == 0) { c = vbelow(r, rows); in[i * rows + c] = (opus_int16)((vchance(r, 50) ? 1 : -1) * (1 << vbelow(r, 15))); }
      else if (kind == 1) { c = vbelow(r, rows); in[i * rows + c] = (opus_int16)(vrange(r, -255, 255) * (vchance(r, 50) ? 1 : 128)); }
      else for (c = 0; c < rows; c++) in[i * rows + c] = (opus_int16)vrange(r, -7, 7);
   }
}

/* all six multiply functions on random NON-SQUARE matrices (rows != cols in both directions, incl. the shapes a projection
   decoder can be created with: rows = channels < cols = streams+coupled), so that a wrong column-major stride shows */
static void run_matrix_nonsquare(vrng *r, long cases)
{
   long c;
   for (c = 0; c < cases; c++) {
      int rows, cols, i, k, frame_size = vrange(r, 1, 3), j = vbelow(r, 16);
      opus_int16 in16[8 * 3], out16[8 * 3]; opus_int32 in24[8 * 3], out24[8 * 3]; float fin[8 * 3], fout[8 * 3], unit = ldexpf(1.f, -j);
      do { rows = vrange(r, 1, 7); cols = vrange(r, 1, 7); } while (rows == cols);
      g_cm.on = 1; g_cm.rows = rows; g_cm.cols = cols;
      for (i = 0; i < rows * cols; i++) g_cm.cells[i] = (opus_int16)(vchance(r, 15) ? 0 : vchance(r, 10) ? (vchance(r, 50) ? 32767 : -32768) : vrange(r, -32768, 32767));
      /* in_* : input_rows <= cols channels in, one output row */
      { int ir = vchance(r, 70) ? cols : vrange(r, 1, cols), orow = vbelow(r, rows), ors = rows >= 2 && vchance(r, 50) ? 2 : 1;
        gen_exact_input(r, in16, ir, frame_size);
        do_mixin(0, 0, ir, orow, ors, frame_size, in16);
        memset(fin, 0, sizeof fin);
        if (vchance(r, 50)) for (i = 0; i < frame_size; i++) fin[i * ir + vbelow(r, ir)] = (float)vrange(r, -255, 255) * unit;
        else for (i = 0; i < frame_size * ir; i++) fin[i] = (float)vrange(r, -7, 7) * unit;
        do_mixinf(0, 0, ir, orow, ors, frame_size, fin);
        memset(in24, 0, sizeof in24);
        if (vchance(r, 50)) for (i = 0; i < frame_size; i++) in24[i * ir + vbelow(r, ir)] = vrange(r, -255, 255) * (1 << j);
        else for (i = 0; i < frame_size * ir; i++) in24[i] = vrange(r, -7, 7) * (1 << j);
        do_mixin24(0, 0, ir, orow, ors, frame_size, in24); }
      /* out_* : one input row (column of the matrix) into output_rows <= rows channels */
      { int irow = vbelow(r, cols), ors = vchance(r, 70) ? rows : vrange(r, 1, rows);
        for (i = 0; i < frame_size; i++) fin[i] = (float)vrange(r, -40000, 40000) / 32768.f;
        for (k = 0; k < frame_size * ors; k++) out16[k] = (opus_int16)(vchance(r, 60) ? 0 : vrange(r, -32768, 32767));
        do_mixout(0, 0, irow, 1, ors, frame_size, fin, out16);
        for (i = 0; i < frame_size; i++) fin[i] = (float)vrange(r, -127, 127) * unit;
        for (k = 0; k < frame_size * ors; k++) fout[k] = vchance(r, 50) ? 0.f : (float)vrange(r, -4194303, 4194303) * ldexpf(1.f, -15 - j);
        do_mixoutf(0, 0, irow, 1, ors, frame_size, fin, fout);
        for (i = 0; i < frame_size; i++) fin[i] = (float)vrange(r, -9000000, 9000000) / 8388608.f;
        for (k = 0; k < frame_size * ors; k++) out24[k] = vchance(r, 60) ? 0 : vrange(r, -9000000, 9000000);
        do_mixout24(0, 0, irow, 1, ors, frame_size, fin, out24); }
      g_cm.on = 0;
   }
}

static void run_matrix(uint64_t seed, long cases)
{
   vrng r; long c; r.s = seed;
   setup_matrices();
   for (c = 0; c < cases; c++) {
      int o = vrange(&r, 2, 6), demix = vbelow(&r, 2), n = o * o + 2;
      int ch = vchance(&r, 50) ? n : n - 2, frame_size = vrange(&r, 1, 4);
      opus_int16 in[38 * 4], out[38 * 4];
      float fin[38 * 4];
      int i;
      if (vchance(&r, 3)) frame_size = 0;
      /* in_short as the projection encoder calls it */
      gen_exact_input(&r, in, ch, frame_size);
      do_mixin(o, demix, ch, vbelow(&r, ch), vchance(&r, 50) ? 1 : 2, frame_size, in);
      /* out_short with arbitrary finite floats and a non-zero accumulator */
      for (i = 0; i < 38 * 4; i++) {
         int k = vbelow(&r, 10);
         if (k < 5) fin[i] = (float)vrange(&r, -40000, 40000) / 32768.f;
         else if (k < 7) fin[i] = ((float)vrange(&r, -70000, 70000) + 0.5f) / 32768.f;    /* ties */
         else if (k < 8) fin[i] = (float)vrange(&r, -3, 3);
         else { unsigned u = (unsigned)vnext(&r); float f; if (((u >> 23) & 255) == 255) u &= ~(1u << 30); memcpy(&f, &u, 4); fin[i] = f; }
         out[i] = (opus_int16)(vchance(&r, 70) ? 0 : (vchance(&r, 80) ? vrange(&r, -300, 300) : vrange(&r, -32768, 32767)));
      }
      do_mixout(o, demix, vbelow(&r, ch), vchance(&r, 50) ? 1 : 2, ch, frame_size, fin, out);
   }
   run_matrix_float(&r, cases / 2 + 20);
   run_matrix_nonsquare(&r, cases / 2 + 40);
   run_matrix_int24(&r, cases / 2 + 20);
   /* saturation boundary of out_short: accumulator chosen so that acc + ((cell*sample+16384)>>15) lands on
      32766..32769 and -32767..-32770 for a random cell of the matrix column */
   for (c = 0; c < cases / 4 + 40; c++) {
      int o = vrange(&r, 2, 6), demix = vbelow(&r, 2), n = o * o + 2, ch = vchance(&r, 50) ? n : n - 2;
      int col = vbelow(&r, ch), row = vbelow(&r, ch), i, target, cell, inc, sample;
      const MappingMatrix *h = demix ? DEMIX[o] : MIX[o];
      opus_int16 out[38];
      float fin[1];
      cell = (demix ? DEMIXD[o] : MIXD[o])[h->rows * col + row];
      sample = vchance(&r, 50) ? vrange(&r, -32768, 32767) : (vchance(&r, 50) ? 32767 : -32768);
      fin[0] = (float)sample / 32768.f;
      inc = (cell * sample + 16384) >> 15;
      target = (vchance(&r, 50) ? 32766 : -32770) + (int)vbelow(&r, 4);
      for (i = 0; i < ch; i++) out[i] = (opus_int16)(vchance(&r, 60) ? 0 : vrange(&r, -32768, 32767));
      { int acc = target - inc; if (acc > 32767) acc = 32767; if (acc < -32768) acc = -32768; out[row] = (opus_int16)acc; }
      do_mixout(o, demix, col, 1, ch, 1, fin, out);
   }
   /* impulse round trips exactly as projection encode -> decode route them (short API) */
   {
      int o, sub, j;
      for (o = 2; o <= 6; o++) for (sub = 0; sub < 2; sub++) {
         int ch = o * o + (sub ? 0 : 2);
         for (j = 0; j < ch; j++) {
            static const int amps[3] = {16384, -8192, 4096};
            int a = amps[(j + o) % 3], k;
            opus_int16 in[38], out[38];
            float res[38];
            memset(in, 0, sizeof in); in[j] = (opus_int16)a;
            for (k = 0; k < ch; k++) {   /* stream inputs: row k of the mixing matrix */
               MappingMatrix *m = make_matrix(o, 0);
               float outf[2] = {0, 0};
               opus_int16 *inx = (opus_int16 *)malloc(sizeof(opus_int16) * ch); memcpy(inx, in, sizeof(opus_int16) * ch);
               do_mixin(o, 0, ch, k, 1, 1, in);
               mapping_matrix_multiply_channel_in_short(m, inx, ch, outf, k, 1, 1);
               res[k] = outf[0]; free(m); free(inx);
            }
            memset(out, 0, sizeof out);
            for (k = 0; k < ch; k++) do_mixout(o, 1, k, 1, ch, 1, &res[k], out);
         }
      }
   }
}

#ifndef C10_STUB
/* ------------------------------------------------------------------ S4: witness search on the implementation */
#include <math.h>
static long n_diff, n_checks, n_cases, n_multi, n_straddle;
static void report_diff(const char *sig, const char *what, const char *exp, const char *obs)
{
   n_diff++;
   if (n_diff <= 8) printf("DIFF %s | %s | expected=%s | observed=%s\n", sig, what, exp, obs);
}
/* self-delimited sub-packet -> the same frames in standard (RFC 6716 section 3) framing */
static long to_standard(const unsigned char *p, long plen, unsigned char *o)
{
   unsigned char toc; const unsigned char *frames[48]; opus_int16 size[48]; opus_int32 pkoff;
   int count = opus_packet_parse_impl(p, (opus_int32)plen, 1, &toc, frames, size, NULL, &pkoff, NULL, NULL), i;
   long n = 0;
   if (count < 1) return -1;
   if (count == 1) o[n++] = toc & 0xFC;
   else { o[n++] = toc | 3; o[n++] = 0x80 | count; for (i = 0; i < count - 1; i++) n += put_size(o + n, size[i]); }
   for (i = 0; i < count; i++) { memcpy(o + n, frames[i], size[i]); n += size[i]; }
   return n;
}
/* split a multistream packet; returns 0 or a static description of the structural defect */
static const char *split_ms(const unsigned char *data, long len, int nb, int Fs, int expect_samples, const unsigned char **sub, long *sublen)
{
   static char msg[200];
   int s;
   for (s = 0; s < nb; s++) {
      unsigned char toc; opus_int16 size[48]; opus_int32 pkoff = 0; int count, samples;
      if (len <= 0) { sprintf(msg, "stream %d: no bytes left", s); return msg; }
      count = opus_packet_parse_impl(data, (opus_int32)len, s != nb - 1, &toc, NULL, size, NULL, &pkoff, NULL, NULL);
      if (count < 0) { sprintf(msg, "stream %d: sub-packet does not parse (%s)", s, verr(count)); return msg; }
      samples = count * opus_packet_get_samples_per_frame(data, Fs);
      if (samples != expect_samples) { sprintf(msg, "stream %d: duration %d samples, expected %d", s, samples, expect_samples); return msg; }
      if (s == nb - 1 && pkoff != len) { sprintf(msg, "last stream consumes %d of %ld bytes", (int)pkoff, len); return msg; }
      if (s != nb - 1 && count > 2) { n_multi++; if ((size[0] >= 252) != (size[count - 1] >= 252)) n_straddle++; }
      sub[s] = data; sublen[s] = pkoff; data += pkoff; len -= pkoff;
   }
   return NULL;
}
static void gen_signal(vrng *r, float *pcm, int ch, int n, int Fs, long t0)
{
   int c, i;
   for (c = 0; c < ch; c++) {
      static const float amps[] = {0.f, 0.001f, 0.05f, 0.3f, 0.3f, 0.8f, 1.6f};
      float a = amps[vbelow(r, 7)], f = (float)vrange(r, 50, 7000), na = vchance(r, 50) ? 0.f : a * 0.3f;
      for (i = 0; i < n; i++) {
         float v = a * (float)sin(6.2831853 * f * (double)(t0 + i) / Fs);
         if (na > 0) v += na * ((float)(int)(vnext(r) & 0xffff) / 32768.f - 1.f);
         pcm[i * ch + c] = v;
      }
   }
}
/* 20 ms blocks alternating between loud/noisy (the VBR encoder spends its whole budget) and nearly silent ones, so the
   sub-frame sizes of a 40..120 ms packet lie on both sides of the 251/252-byte length-coding boundary */
static void gen_blocks(vrng *r, float *pcm, int ch, int n, int Fs, long t0, unsigned pattern)
{
   int c, i, blk = Fs / 50;
   for (i = 0; i < n; i++) {
      int kind = (pattern >> (((t0 + i) / blk) % 12)) & 1;
      float na = kind ? 0.27f : 0.0002f, sa = kind ? 0.21f : 0.002f;
      for (c = 0; c < ch; c++) {
         double f = 300.0 + 210.0 * c, t = (double)(t0 + i) / Fs;
         pcm[i * ch + c] = sa * (float)sin(6.2831853 * f * t) + 0.3f * sa * (float)sin(6.2831853 * 3.1 * f * t)
                         + na * ((float)(int)(vnext(r) & 0xffff) / 32768.f - 1.f);
      }
   }
}
#include "opus_projection_decoder.c"

/* ---- projection decoder creation: exported matrices and arbitrary arguments */
static void do_projdec(int create, int fsok, int ch, int st, int co, const unsigned char *dm, long nbytes, long size)
{
   unsigned char *m = vexact(dm, nbytes);
   OpusProjectionDecoder *d; int ret = 0, i;
   printf("I layout projdec %s %d %d %d %d ", create ? "create" : "init", fsok, ch, st, co); vhex(stdout, dm, nbytes); printf(" %ld\n", size);
   fflush(stdout);
   if (create) d = opus_projection_decoder_create(fsok ? 48000 : 44100, ch, st, co, m, (opus_int32)size, &ret);
   else { d = (OpusProjectionDecoder *)bigbuf; ret = opus_projection_decoder_init(d, fsok ? 48000 : 44100, ch, st, co, m, (opus_int32)size); }
   if (ret != OPUS_OK) printf("O %s\n", verr(ret));
   else {
      MappingMatrix *mx = get_dec_demixing_matrix(d); opus_int16 *cells = mapping_matrix_get_data(mx);
      printf("O OK st="); pr_layout(&get_multistream_decoder(d)->layout);
      printf(" m=%dx%d:%d cells=", mx->rows, mx->cols, mx->gain);
      if (!(mx->rows * mx->cols)) printf("-");
      for (i = 0; i < mx->rows * mx->cols; i++) printf("%s%d", i ? "," : "", cells[i]);
      printf("\n");
      if (create) opus_projection_decoder_destroy(d);
   }
   free(m);
}
static void run_projdec(uint64_t seed, long cases)
{
   static unsigned char dm[20000];
   vrng r; long c; int o, sub; r.s = seed;
   /* the matrices the encoder exports, at the exact size and around it */
   for (o = 2; o <= 6; o++) for (sub = 0; sub < 2; sub++) {
      int ch = o * o + (sub ? 0 : 2), streams, coupled, err; opus_int32 dsz = 0;
      OpusProjectionEncoder *pe = opus_projection_ambisonics_encoder_create(48000, ch, 3, &streams, &coupled, OPUS_APPLICATION_AUDIO, &err);
      if (!pe) continue;
      opus_projection_encoder_ctl(pe, OPUS_PROJECTION_GET_DEMIXING_MATRIX_SIZE(&dsz));
      opus_projection_encoder_ctl(pe, OPUS_PROJECTION_GET_DEMIXING_MATRIX(dm, dsz));
      opus_projection_encoder_destroy(pe);
      do_projdec(1, 1, ch, streams, coupled, dm, dsz, dsz);
      do_projdec(0, 1, ch, streams, coupled, dm, dsz, dsz);
      do_projdec(1, 0, ch, streams, coupled, dm, dsz, dsz);
      do_projdec(1, 1, ch, streams, coupled, dm, dsz, dsz + 2);
      do_projdec(0, 1, ch, streams, coupled, dm, dsz, dsz - 2);
      do_projdec(1, 1, ch, streams + 1, coupled - 1, dm, dsz, dsz);
      do_projdec(1, 1, ch, coupled, streams, dm, dsz, dsz);
   }
   { static const int bad[][4] = {{0, 1, 0, 0}, {1, 1, -1, 0}, {1, 0, 0, 0}, {0, 0, 0, 0}, {-1, -2, 0, 4}, {-1, 1, 0, 0}, {256, 1, 0, 512},
        {255, 1, 0, 510}, {255, 128, 127, 130050}, {1, 255, 0, 510}, {1, 255, 1, 512}, {2, 1, 0, 4}, {1, 2, 2, 8}, {1, 2, 3, 10}};
     int k; memset(dm, 0x40, sizeof dm);
     for (k = 0; k < (int)(sizeof bad / sizeof bad[0]); k++) { long sz = bad[k][3], nb = sz > 0 && sz < (long)sizeof dm ? sz : 0;
        if (sz >= (long)sizeof dm) nb = 0, sz = bad[k][3];
        if (nb == 0 && sz > 0) continue;          /* never announce more than the buffer holds */
        do_projdec(1, 1, bad[k][0], bad[k][1], bad[k][2], dm, nb, sz); do_projdec(0, 1, bad[k][0], bad[k][1], bad[k][2], dm, nb, sz); } }
   for (c = 0; c < cases; c++) {
      int ch = vchance(&r, 85) ? vrange(&r, 1, 12) : (vchance(&r, 50) ? vrange(&r, -2, 60) : vrange(&r, 250, 258));
      int st = vchance(&r, 85) ? vrange(&r, 1, 8) : vrange(&r, -1, 40), co = vchance(&r, 85) ? vrange(&r, 0, st > 0 ? st : 0) : vrange(&r, -1, st + 1);
      long want = 2L * (st + co) * ch, size = vchance(&r, 75) ? want : want + 2 * vrange(&r, -2, 2), nbytes, i;
      if (size < 0) size = 0;
      if (size > (long)sizeof dm - 8) continue;
      nbytes = size;                               /* the buffer always holds what the caller announces */
      for (i = 0; i < nbytes; i++) dm[i] = (unsigned char)(vchance(&r, 20) ? (vchance(&r, 50) ? 0x80 : 0xff) : vnext(&r));
      do_projdec(vbelow(&r, 2), !vchance(&r, 6), ch, st, co, dm, nbytes, size);
   }
}

/* regression corpus: the calls on which opus_projection_decoder_init used to declare a zero-length array before
   validating its arguments (fixed by 31272f65); must answer BAD_ARG / ALLOC_FAIL without a sanitizer report */
static int run_projvla(void)
{
   unsigned char m[4] = {0, 0, 0, 0};
   do_projdec(1, 1, 0, 1, 0, m, 0, 0);
   do_projdec(0, 1, 1, 1, -1, m, 0, 0);
   return 0;
}

static int run_search(uint64_t seed, long cases, int verbose, int directed)
{
   vrng r; long cno; r.s = seed;
   static unsigned char pkt[400000], stdp[48 * 1275 + 200];
   static float in[5760 * 40], out[5760 * 40], sout[40][5760 * 2], expf[5760 * 40];
   static opus_int16 ini[5760 * 40], outi[5760 * 40], souti[40][5760 * 2];
   static const int projch[10] = {4, 6, 9, 11, 16, 18, 25, 27, 36, 38};
   static const int ambich[] = {1, 3, 4, 6, 9, 11, 16, 18};
   for (cno = 0; cno < cases; cno++) {
      int kind = vbelow(&r, 10), Fs = RATES[vbelow(&r, 5)], app, ch = 0, streams = 0, coupled = 0, family = -1, err = 0;
      static const int fsdiv[9] = {400, 200, 100, 50, 25, 0, 0, 0, 10};   /* 2.5 5 10 20 40 60 80 100 120ms */
      int fsi = vbelow(&r, 9), frame_size, use_short = vchance(&r, 30), nframes = vrange(&r, 2, 4), fr, s, c, i;
      unsigned char emap[256], dmap[256];
      int dch;
      OpusMSEncoder *enc = NULL; OpusProjectionEncoder *penc = NULL;
      OpusMSDecoder *dec = NULL; OpusProjectionDecoder *pdec = NULL;
      OpusDecoder *sd[40];
      char sig[200];
      opus_int16 dmx[38 * 38]; int gain = 0;
      unsigned pattern = (unsigned)vnext(&r);
      (void)fsdiv;
      if (directed) { Fs = vchance(&r, 85) ? 48000 : 24000; fsi = 4 + vbelow(&r, 5); nframes = 6; }
      frame_size = fsi == 5 ? Fs * 3 / 50 : fsi == 6 ? Fs * 2 / 25 : fsi == 7 ? Fs / 10 : fsi == 8 ? Fs * 3 / 25 : Fs / fsdiv[fsi];
      { static const int apps[3] = {OPUS_APPLICATION_VOIP, OPUS_APPLICATION_AUDIO, OPUS_APPLICATION_RESTRICTED_LOWDELAY}; app = apps[vbelow(&r, 3)]; }
      if (directed) app = vchance(&r, 50) ? OPUS_APPLICATION_RESTRICTED_LOWDELAY : OPUS_APPLICATION_AUDIO;
      if (kind < 5) {           /* surround encoder, families 0 1 2 255 */
         int k = vbelow(&r, 4);
         family = k == 0 ? 0 : k == 1 ? 1 : k == 2 ? 2 : 255;
         if (directed && family == 0) family = 255;
         if (directed) ch = family == 1 ? vrange(&r, 3, 8) : family == 2 ? (vchance(&r, 50) ? 4 : 6) : vrange(&r, 2, 4);
         else
         ch = family == 0 ? vrange(&r, 1, 2) : family == 1 ? vrange(&r, 1, 8) : family == 2 ? ambich[vbelow(&r, vchance(&r, 85) ? 6 : 8)] : (vchance(&r, 90) ? vrange(&r, 1, 6) : vrange(&r, 7, 20));
         enc = opus_multistream_surround_encoder_create(Fs, ch, family, &streams, &coupled, emap, app, &err);
         if (!enc) { sprintf(sig, "surround family=%d ch=%d Fs=%d", family, ch, Fs); report_diff(sig, "surround encoder creation failed for a supported layout", "OK", verr(err)); continue; }
      } else if (kind < 8) {    /* generic multistream encoder, arbitrary valid encoder layout */
         int j, need;
         streams = directed ? vrange(&r, 2, 4) : vrange(&r, 1, 5); coupled = vrange(&r, 0, streams); need = streams + coupled;
         if (directed && vchance(&r, 50)) { coupled = 0; need = streams; }
         ch = need + (vchance(&r, 50) ? 0 : vrange(&r, 1, 4));
         for (j = 0; j < need; j++) emap[j] = j;
         for (j = need; j < ch; j++) emap[j] = vchance(&r, 50) ? 255 : vbelow(&r, need);
         for (j = ch - 1; j > 0; j--) { int k = vbelow(&r, j + 1); unsigned char t = emap[j]; emap[j] = emap[k]; emap[k] = t; }
         enc = opus_multistream_encoder_create(Fs, ch, streams, coupled, emap, app, &err);
         if (!enc) { sprintf(sig, "ms ch=%d streams=%d coupled=%d Fs=%d", ch, streams, coupled, Fs); report_diff(sig, "multistream encoder creation failed for a valid layout", "OK", verr(err)); continue; }
      } else {                  /* projection encoder, family 3 */
         opus_int32 dsz = 0; unsigned char dm[38 * 38 * 2];
         ch = projch[vbelow(&r, directed ? 2 : vchance(&r, 80) ? 4 : 10)]; family = 3;
         if (ch > 20) nframes = 2;
         penc = opus_projection_ambisonics_encoder_create(Fs, ch, 3, &streams, &coupled, app, &err);
         if (!penc) { sprintf(sig, "projection ch=%d Fs=%d", ch, Fs); report_diff(sig, "projection encoder creation failed for a supported channel count", "OK", verr(err)); continue; }
         opus_projection_encoder_ctl(penc, OPUS_PROJECTION_GET_DEMIXING_MATRIX_SIZE(&dsz));
         opus_projection_encoder_ctl(penc, OPUS_PROJECTION_GET_DEMIXING_MATRIX_GAIN(&gain));
         opus_projection_encoder_ctl(penc, OPUS_PROJECTION_GET_DEMIXING_MATRIX(dm, dsz));
         for (i = 0; i < dsz / 2; i++) { int v = dm[2 * i] | dm[2 * i + 1] << 8; dmx[i] = (opus_int16)(((v & 0xFFFF) ^ 0x8000) - 0x8000); }
         pdec = opus_projection_decoder_create(Fs, ch, streams, coupled, dm, dsz, &err);
         if (!pdec) { sprintf(sig, "projection ch=%d Fs=%d", ch, Fs); report_diff(sig, "projection decoder rejects the exported demixing matrix", "OK", verr(err)); opus_projection_encoder_destroy(penc); continue; }
      }
      /* decoder-side mapping: the encoder's, or an arbitrary one over the same streams */
      dch = ch; memcpy(dmap, emap, sizeof dmap);
      if (!penc && vchance(&r, 50)) {
         dch = vrange(&r, 1, ch + 3); if (dch > 38) dch = 38;
         for (i = 0; i < dch; i++) dmap[i] = vchance(&r, 20) ? 255 : vbelow(&r, streams + coupled);
      }
      if (!penc) { dec = opus_multistream_decoder_create(Fs, dch, streams, coupled, dmap, &err);
         if (!dec) { report_diff("msdec", "multistream decoder creation failed for a valid layout", "OK", verr(err)); opus_multistream_encoder_destroy(enc); continue; } }
      for (s = 0; s < streams; s++) sd[s] = opus_decoder_create(Fs, s < coupled ? 2 : 1, &err);
      { int br = vchance(&r, 30) ? -1000 : vrange(&r, 6, 160) * 1000 * (streams + coupled) / 2, vbr = vbelow(&r, 2), cx = vrange(&r, 0, 10);
        if (directed) { /* about 80..135 kb/s for a mono stream (20 ms CELT frames of 200..340 bytes), unconstrained VBR */
           int per = vrange(&r, 80, 135) * 1000;
           if (coupled && vchance(&r, 40)) per = vrange(&r, 45, 70) * 1000;   /* ... or for a coupled stream */
           br = per * (streams + coupled); vbr = 1; }
        if (enc) { if (br > 0) opus_multistream_encoder_ctl(enc, OPUS_SET_BITRATE(br)); opus_multistream_encoder_ctl(enc, OPUS_SET_VBR(vbr)); opus_multistream_encoder_ctl(enc, OPUS_SET_COMPLEXITY(cx));
                   if (directed) opus_multistream_encoder_ctl(enc, OPUS_SET_VBR_CONSTRAINT(0)); }
        else { if (br > 0) opus_projection_encoder_ctl(penc, OPUS_SET_BITRATE(br)); opus_projection_encoder_ctl(penc, OPUS_SET_VBR(vbr)); opus_projection_encoder_ctl(penc, OPUS_SET_COMPLEXITY(cx));
               if (directed) opus_projection_encoder_ctl(penc, OPUS_SET_VBR_CONSTRAINT(0)); }
        sprintf(sig, "%s family=%d ch=%d streams=%d coupled=%d Fs=%d frame=%d app=%d br=%d vbr=%d short=%d dch=%d seed=%llu case=%ld",
                penc ? "projection" : (kind < 5 ? "surround" : "ms"), family, ch, streams, coupled, Fs, frame_size, app, br, vbr, use_short, dch, (unsigned long long)seed, cno); }
      printf("C %s family=%d ch=%d Fs=%d frame=%d short=%d\n", penc ? "projection" : (kind < 5 ? "surround" : "ms"), family, ch, Fs, frame_size, use_short);
      n_cases++;
      for (fr = 0; fr < nframes; fr++) {
         int len, ret, lost = fr > 0 && vchance(&r, 12);
         const unsigned char *sub[40]; long sublen[40];
         const char *why;
         if (directed) gen_blocks(&r, in, ch, frame_size, Fs, (long)fr * frame_size, pattern);
         else gen_signal(&r, in, ch, frame_size, Fs, (long)fr * frame_size);
         for (i = 0; i < ch * frame_size; i++) { float v = in[i] * 32768.f; ini[i] = (opus_int16)(v > 32767 ? 32767 : v < -32768 ? -32768 : (int)v); }
         if (enc) len = use_short ? opus_multistream_encode(enc, ini, frame_size, pkt, 1275 * 3 * streams + 7) : opus_multistream_encode_float(enc, in, frame_size, pkt, 1275 * 3 * streams + 7);
         else len = use_short ? opus_projection_encode(penc, ini, frame_size, pkt, 1275 * 3 * streams + 7) : opus_projection_encode_float(penc, in, frame_size, pkt, 1275 * 3 * streams + 7);
         if (len <= 0) { report_diff(sig, "encoder returned an error", ">0", verr(len)); break; }
         why = split_ms(pkt, len, streams, Fs, frame_size, sub, sublen);
         n_checks++;
         if (why) { char hx[300]; int k, m = len < 120 ? len : 120; for (k = 0; k < m; k++) sprintf(hx + 2 * k, "%02x", pkt[k]);
            report_diff(sig, "packet is not a concatenation of self-delimited packets of equal duration (last in standard framing)", "structure ok", why); printf("DIFFPKT %s\n", hx); break; }
         /* decode: whole packet vs. stand-alone decoders on the sub-packets */
         { unsigned char *pp = vexact(pkt, len);
           if (dec) ret = use_short ? opus_multistream_decode(dec, lost ? NULL : pp, lost ? 0 : len, outi, frame_size, 0) : opus_multistream_decode_float(dec, lost ? NULL : pp, lost ? 0 : len, out, frame_size, 0);
           else ret = use_short ? opus_projection_decode(pdec, lost ? NULL : pp, lost ? 0 : len, outi, frame_size, 0) : opus_projection_decode_float(pdec, lost ? NULL : pp, lost ? 0 : len, out, frame_size, 0);
           free(pp); }
         if (ret != frame_size) { char b[40]; sprintf(b, "%d", ret); report_diff(sig, "multistream decode does not return the common duration", "frame_size", ret < 0 ? verr(ret) : b); break; }
         for (s = 0; s < streams; s++) {
            long sl = sublen[s]; const unsigned char *sp = sub[s]; int r2;
            if (s != streams - 1) { sl = to_standard(sub[s], sublen[s], stdp); sp = stdp; }
            { unsigned char *pp = vexact(sp, sl > 0 ? sl : 0);
              r2 = use_short ? opus_decode(sd[s], lost ? NULL : pp, lost ? 0 : (opus_int32)sl, souti[s], frame_size, 0) : opus_decode_float(sd[s], lost ? NULL : pp, lost ? 0 : (opus_int32)sl, sout[s], frame_size, 0);
              free(pp); }
            if (r2 != frame_size) { char b[60]; sprintf(b, "stream %d: %d", s, r2); report_diff(sig, "stand-alone decoder disagrees on the duration", "frame_size", b); }
         }
         if (dec) {
            for (c = 0; c < dch; c++) {
               int m = dmap[c], st2 = m < 2 * coupled ? m / 2 : m - coupled, stride = m < 2 * coupled ? 2 : 1, off = m < 2 * coupled ? m % 2 : 0;
               n_checks++;
               for (i = 0; i < frame_size; i++) {
                  unsigned got, want;
                  if (use_short) { got = (unsigned short)outi[i * dch + c]; want = m == 255 ? 0 : (unsigned short)souti[st2][i * stride + off]; }
                  else { got = f2u(out[i * dch + c]); want = m == 255 ? 0 : f2u(sout[st2][i * stride + off]); }
                  if (got != want) { char a[80], b[80], w[160]; sprintf(a, "%08x", want); sprintf(b, "%08x", got);
                     sprintf(w, "frame %d%s channel %d (mapping %d) sample %d differs from the stand-alone decoder of its stream", fr, lost ? " (lost)" : "", c, m, i);
                     report_diff(sig, w, a, b); goto next_case; }
               }
            }
         } else {
            /* projection: demixing matrix (as exported) applied to the stand-alone stream outputs, same operation order */
            int nin = streams + coupled, row;
            n_checks++;
            for (i = 0; i < frame_size; i++) for (row = 0; row < ch; row++) {
               if (use_short) {
                  opus_int32 acc = 0;   /* 32-bit accumulation, saturated to int16 after every term */
                  for (c = 0; c < nin; c++) { int st2 = c < 2 * coupled ? c / 2 : c - coupled; opus_int32 x = c < 2 * coupled ? souti[st2][2 * i + c % 2] : souti[st2][i];
                     opus_int32 tmp = (opus_int32)dmx[ch * c + row] * x; acc += (tmp + 16384) >> 15; if (acc > 32767) acc = 32767; if (acc < -32768) acc = -32768; }
                  if (acc != outi[i * ch + row]) { char a[40], b[40], w[120]; sprintf(a, "%d", acc); sprintf(b, "%d", outi[i * ch + row]); sprintf(w, "frame %d output channel %d sample %d != demixing matrix x stand-alone stream outputs", fr, row, i); report_diff(sig, w, a, b); goto next_case; }
               } else {
                  volatile float acc = 0;
                  for (c = 0; c < nin; c++) { int st2 = c < 2 * coupled ? c / 2 : c - coupled; float x = c < 2 * coupled ? sout[st2][2 * i + c % 2] : sout[st2][i];
                     volatile float t1 = (1 / 32768.f) * dmx[ch * c + row]; volatile float t2 = t1 * x; acc = acc + t2; }
                  expf[i * ch + row] = acc;
                  if (f2u(acc) != f2u(out[i * ch + row]) && !(acc == 0 && out[i * ch + row] == 0)) { char a[40], b[40], w[120]; sprintf(a, "%08x", f2u(acc)); sprintf(b, "%08x", f2u(out[i * ch + row])); sprintf(w, "frame %d output channel %d sample %d != demixing matrix x stand-alone stream outputs", fr, row, i); report_diff(sig, w, a, b); goto next_case; }
               }
            }
         }
      }
   next_case:
      if (verbose) printf("S %s\n", sig);
      for (s = 0; s < streams; s++) opus_decoder_destroy(sd[s]);
      if (enc) opus_multistream_encoder_destroy(enc);
      if (penc) opus_projection_encoder_destroy(penc);
      if (dec) opus_multistream_decoder_destroy(dec);
      if (pdec) opus_projection_decoder_destroy(pdec);
   }
   printf("# %s: %ld non-final sub-packets with > 2 frames, %ld of them with first/last frame size on opposite sides of 252 bytes\n",
          directed ? "straddle" : "search", n_multi, n_straddle);
   printf("SEARCH cases=%ld checks=%ld diffs=%ld\n", n_cases, n_checks, n_diff);
   return 0;
}

/* S4: projection decoders with NON-SQUARE demixing matrices (channels < streams+coupled, the only non-square shape
   opus_projection_decoder_create accepts), all three APIs.  For each format the output must equal the matrix applied - in
   the library's own operation order - to the stand-alone decoder outputs of the same format.  Only columns < channels
   take part: the decoder routes decoded channel c to output channel c through the identity layout of `channels` entries. */
static int run_nonsq(uint64_t seed, long cases)
{
   vrng r; long cno; r.s = seed;
   static unsigned char pkt[60000], stdp[48 * 1275 + 200];
   static float in[5760 * 8], outf[5760 * 8], sf[8][5760 * 2];
   static opus_int16 out16[5760 * 8], s16[8][5760 * 2];
   static opus_int32 out24[5760 * 8], s24[8][5760 * 2];
   for (cno = 0; cno < cases; cno++) {
      int st = vrange(&r, 1, 4), co = vrange(&r, 0, st), nin = st + co, ch = nin > 1 ? vrange(&r, 1, nin - (vchance(&r, 85) ? 1 : 0)) : 1;
      int Fs = RATES[vbelow(&r, 5)], frame_size = Fs / (vchance(&r, 50) ? 50 : 100), err = 0, s, i, k, row, fr, nframes = 3;
      unsigned char map[8], dm[8 * 8 * 2]; opus_int16 cells[64];
      OpusMSEncoder *enc; OpusProjectionDecoder *pd[3]; OpusDecoder *sd[3][8];
      char sig[200];
      for (i = 0; i < nin; i++) map[i] = i;
      enc = opus_multistream_encoder_create(Fs, nin, st, co, map, OPUS_APPLICATION_AUDIO, &err);
      if (!enc) { report_diff("nonsq", "multistream encoder creation failed", "OK", verr(err)); continue; }
      opus_multistream_encoder_ctl(enc, OPUS_SET_BITRATE(vrange(&r, 16, 96) * 1000 * nin));
      for (i = 0; i < ch * nin; i++) { int v = vchance(&r, 15) ? 0 : vchance(&r, 8) ? (vchance(&r, 50) ? 32767 : -32768) : vrange(&r, -24000, 24000);
         cells[i] = (opus_int16)v; dm[2 * i] = (unsigned char)(v & 255); dm[2 * i + 1] = (unsigned char)((v >> 8) & 255); }
      for (k = 0; k < 3; k++) {
         pd[k] = opus_projection_decoder_create(Fs, ch, st, co, dm, 2 * ch * nin, &err);
         for (s = 0; s < st; s++) sd[k][s] = opus_decoder_create(Fs, s < co ? 2 : 1, &err);
      }
      sprintf(sig, "nonsq channels=%d streams=%d coupled=%d (matrix %dx%d) Fs=%d frame=%d seed=%llu case=%ld", ch, st, co, ch, nin, Fs, frame_size, (unsigned long long)seed, cno);
      if (!pd[0] || !pd[1] || !pd[2]) { report_diff(sig, "projection decoder creation failed for channels <= streams+coupled", "OK", verr(err)); goto done; }
      printf("C nonsq %dx%d Fs=%d\n", ch, nin, Fs);
      n_cases++;
      for (fr = 0; fr < nframes; fr++) {
         int len, r16, r24, rf; const unsigned char *sub[40]; long sublen[40]; const char *why;
         gen_signal(&r, in, nin, frame_size, Fs, (long)fr * frame_size);
         len = opus_multistream_encode_float(enc, in, frame_size, pkt, sizeof pkt);
         if (len <= 0) { report_diff(sig, "encoder returned an error", ">0", verr(len)); break; }
         why = split_ms(pkt, len, st, Fs, frame_size, sub, sublen);
         if (why) { report_diff(sig, "packet structure", "ok", why); break; }
         { unsigned char *pp = vexact(pkt, len);
           r16 = opus_projection_decode(pd[0], pp, len, out16, frame_size, 0);
           r24 = opus_projection_decode24(pd[1], pp, len, out24, frame_size, 0);
           rf = opus_projection_decode_float(pd[2], pp, len, outf, frame_size, 0);
           free(pp); }
         if (r16 != frame_size || r24 != frame_size || rf != frame_size) { report_diff(sig, "projection decode does not return the frame size", "frame_size", "error"); break; }
         for (s = 0; s < st; s++) {
            long sl = sublen[s]; const unsigned char *sp = sub[s];
            if (s != st - 1) { sl = to_standard(sub[s], sublen[s], stdp); sp = stdp; }
            { unsigned char *pp = vexact(sp, sl > 0 ? sl : 0);
              opus_decode(sd[0][s], pp, (opus_int32)sl, s16[s], frame_size, 0);
              opus_decode24(sd[1][s], pp, (opus_int32)sl, s24[s], frame_size, 0);
              opus_decode_float(sd[2][s], pp, (opus_int32)sl, sf[s], frame_size, 0);
              free(pp); }
         }
         n_checks += 3;
         for (i = 0; i < frame_size; i++) for (row = 0; row < ch; row++) {
            opus_int32 a16 = 0, a24 = 0; volatile float af = 0; char a[60], b[60], w[160];
            for (k = 0; k < ch; k++) {      /* decoded channel k = output channel k of the identity layout: column k */
               int s2 = k < 2 * co ? k / 2 : k - co, idx = k < 2 * co ? 2 * i + k % 2 : i;
               opus_int32 c = cells[ch * k + row];
               a16 += (c * (opus_int32)s16[s2][idx] + 16384) >> 15; if (a16 > 32767) a16 = 32767; if (a16 < -32768) a16 = -32768;
               a24 = (opus_int32)((opus_int64)a24 + (((opus_int64)c * s24[s2][idx] + 16384) >> 15));
               { volatile float t1 = (1 / 32768.f) * c; volatile float t2 = t1 * sf[s2][idx]; af = af + t2; }
            }
            if (a16 != out16[i * ch + row]) { sprintf(a, "%d", a16); sprintf(b, "%d", out16[i * ch + row]); sprintf(w, "opus_projection_decode: frame %d channel %d sample %d != demixing matrix x stand-alone int16 outputs", fr, row, i); report_diff(sig, w, a, b); goto done; }
            if (a24 != out24[i * ch + row]) { sprintf(a, "%d", a24); sprintf(b, "%d", out24[i * ch + row]); sprintf(w, "opus_projection_decode24: frame %d channel %d sample %d != demixing matrix x stand-alone int24 outputs", fr, row, i); report_diff(sig, w, a, b); goto done; }
            if (f2u(af) != f2u(outf[i * ch + row]) && !(af == 0 && outf[i * ch + row] == 0)) { sprintf(a, "%08x", f2u(af)); sprintf(b, "%08x", f2u(outf[i * ch + row])); sprintf(w, "opus_projection_decode_float: frame %d channel %d sample %d != demixing matrix x stand-alone float outputs", fr, row, i); report_diff(sig, w, a, b); goto done; }
         }
      }
   done:
      for (k = 0; k < 3; k++) { if (pd[k]) opus_projection_decoder_destroy(pd[k]); for (s = 0; s < st; s++) opus_decoder_destroy(sd[k][s]); }
      opus_multistream_encoder_destroy(enc);
   }
   printf("SEARCH cases=%ld checks=%ld diffs=%ld\n", n_cases, n_checks, n_diff);
   return 0;
}

/* unit impulses through the mixing matrix (encoder object) then the demixing matrix (decoder object) */
static int run_impulse(void)
{
   int o, sub, j, i;
   double worst = 0;
   for (o = 2; o <= 6; o++) for (sub = 0; sub < 2; sub++) {
      int ch = o * o + (sub ? 0 : 2), streams, coupled, err, gain = 0; opus_int32 dsz = 0;
      unsigned char dm[38 * 38 * 2];
      OpusProjectionEncoder *pe = opus_projection_ambisonics_encoder_create(48000, ch, 3, &streams, &coupled, OPUS_APPLICATION_AUDIO, &err);
      OpusProjectionDecoder *pd;
      double G;
      char sig[100];
      sprintf(sig, "impulse order=%d channels=%d", o - 1, ch);
      if (!pe) { report_diff(sig, "projection encoder creation failed", "OK", verr(err)); continue; }
      opus_projection_encoder_ctl(pe, OPUS_PROJECTION_GET_DEMIXING_MATRIX_SIZE(&dsz));
      opus_projection_encoder_ctl(pe, OPUS_PROJECTION_GET_DEMIXING_MATRIX_GAIN(&gain));
      opus_projection_encoder_ctl(pe, OPUS_PROJECTION_GET_DEMIXING_MATRIX(dm, dsz));
      pd = opus_projection_decoder_create(48000, ch, streams, coupled, dm, dsz, &err);
      if (!pd) { report_diff(sig, "projection decoder creation failed", "OK", verr(err)); continue; }
      G = pow(10.0, gain / (20.0 * 256.0));
      printf("C impulse order=%d ch=%d gain=%d\n", o - 1, ch, gain);
      for (j = 0; j < ch; j++) {
         float inf[38], res[38], outf[38]; opus_int16 ins[38], outs[38];
         int k, A = 16384;
         memset(inf, 0, sizeof inf); memset(ins, 0, sizeof ins); inf[j] = 1.f; ins[j] = (opus_int16)A;
         /* float path */
         for (k = 0; k < streams + coupled; k++) mapping_matrix_multiply_channel_in_float(get_mixing_matrix(pe), inf, ch, &res[k], k, 1, 1);
         memset(outf, 0, sizeof outf);
         for (k = 0; k < streams + coupled; k++) mapping_matrix_multiply_channel_out_float(get_dec_demixing_matrix(pd), &res[k], k, 1, outf, ch, 1);
         n_checks++;
         for (i = 0; i < ch; i++) { double dev = fabs(outf[i] * G - (i == j ? 1.0 : 0.0)); if (dev > worst) worst = dev;
            if (dev > 3e-4 + 1e-5) { char a[60], b[60], w[120]; sprintf(a, "%d", i == j); sprintf(b, "%.9g (x gain %.6f)", outf[i], G); sprintf(w, "float impulse on input channel %d: output channel %d", j, i); report_diff(sig, w, a, b); } }
         /* int16 path */
         for (k = 0; k < streams + coupled; k++) mapping_matrix_multiply_channel_in_short(get_mixing_matrix(pe), ins, ch, &res[k], k, 1, 1);
         memset(outs, 0, sizeof outs);
         for (k = 0; k < streams + coupled; k++) mapping_matrix_multiply_channel_out_short(get_dec_demixing_matrix(pd), &res[k], k, 1, outs, ch, 1);
         n_checks++;
         for (i = 0; i < ch; i++) { double dev = fabs(outs[i] * G - (i == j ? A : 0.0));
            if (dev > 3e-4 * A + ch + 1) { char a[60], b[60], w[120]; sprintf(a, "%d", i == j ? A : 0); sprintf(b, "%d (x gain %.6f)", outs[i], G); sprintf(w, "int16 impulse on input channel %d: output channel %d", j, i); report_diff(sig, w, a, b); } }
      }
      n_cases++;
      opus_projection_encoder_destroy(pe); opus_projection_decoder_destroy(pd);
   }
   printf("# impulse worst float deviation %.3e\n", worst);
   printf("SEARCH cases=%ld checks=%ld diffs=%ld\n", n_cases, n_checks, n_diff);
   return 0;
}
/* layouts the implementation builds, one line per (family, channels): checked by tools/props/C10.py against an
   independent transcription of RFC 7845 section 5.1.1 / RFC 8486 section 3 */
static int run_rfc(void)
{
   static const int fams[] = {0, 1, 2, 255};
   int f, ch, i;
   for (f = 0; f < 4; f++) for (ch = 1; ch <= 255; ch++) {
      int streams = -1, coupled = -1, err = 0, encok = 0, decok = 0;
      unsigned char mapping[256];
      OpusMSEncoder *st = opus_multistream_surround_encoder_create(48000, ch, fams[f], &streams, &coupled, mapping, OPUS_APPLICATION_AUDIO, &err);
      if (!st) { printf("L %d %d %s\n", fams[f], ch, verr(err)); continue; }
      opus_multistream_encoder_destroy(st);
      { OpusMSEncoder *e = opus_multistream_encoder_create(48000, ch, streams, coupled, mapping, OPUS_APPLICATION_AUDIO, &err); encok = e != NULL; if (e) opus_multistream_encoder_destroy(e); }
      { OpusMSDecoder *d = opus_multistream_decoder_create(48000, ch, streams, coupled, mapping, &err); decok = d != NULL; if (d) opus_multistream_decoder_destroy(d); }
      printf("L %d %d OK %d %d %d %d ", fams[f], ch, streams, coupled, encok, decok);
      for (i = 0; i < ch; i++) printf("%s%d", i ? "," : "", mapping[i]);
      printf("\n");
   }
   for (ch = 1; ch <= 255; ch++) {
      int streams = -1, coupled = -1, err = 0;
      OpusProjectionEncoder *pe = opus_projection_ambisonics_encoder_create(48000, ch, 3, &streams, &coupled, OPUS_APPLICATION_AUDIO, &err);
      if (!pe) { printf("L 3 %d %s\n", ch, verr(err)); continue; }
      { OpusMSEncoder *ms = get_multistream_encoder(pe); int decok;
        opus_int32 dsz = 0; unsigned char dm[38 * 38 * 2]; OpusProjectionDecoder *pd;
        opus_projection_encoder_ctl(pe, OPUS_PROJECTION_GET_DEMIXING_MATRIX_SIZE(&dsz));
        opus_projection_encoder_ctl(pe, OPUS_PROJECTION_GET_DEMIXING_MATRIX(dm, dsz));
        pd = opus_projection_decoder_create(48000, ch, streams, coupled, dm, dsz, &err); decok = pd != NULL; if (pd) opus_projection_decoder_destroy(pd);
        printf("L 3 %d OK %d %d 1 %d ", ch, streams, coupled, decok);
        for (i = 0; i < ch; i++) printf("%s%d", i ? "," : "", ms->layout.mapping[i]);
        printf("\n"); }
      opus_projection_encoder_destroy(pe);
   }
   return 0;
}
#endif


int main(int argc, char **argv)
{
   vinstall_traps();
   bigbuf = malloc(BIGSZ);
   if (argc >= 2 && !strcmp(argv[1], "enum")) run_enum();
   else if (argc >= 4 && !strcmp(argv[1], "rand")) run_rand(strtoull(argv[2], 0, 10), atol(argv[3]));
   else if (argc >= 4 && !strcmp(argv[1], "msval")) run_msval(strtoull(argv[2], 0, 10), atol(argv[3]));
   else if (argc >= 4 && !strcmp(argv[1], "matrix")) run_matrix(strtoull(argv[2], 0, 10), atol(argv[3]));
#ifdef C10_STUB
   else if (argc >= 4 && !strcmp(argv[1], "route")) run_route(strtoull(argv[2], 0, 10), atol(argv[3]));
   else if (argc >= 4 && !strcmp(argv[1], "msenc")) run_msenc(strtoull(argv[2], 0, 10), atol(argv[3]));
#else
   else if (argc >= 4 && !strcmp(argv[1], "projdec")) run_projdec(strtoull(argv[2], 0, 10), atol(argv[3]));
   else if (argc >= 2 && !strcmp(argv[1], "projvla")) return run_projvla();
   else if (argc >= 4 && !strcmp(argv[1], "search")) return run_search(strtoull(argv[2], 0, 10), atol(argv[3]), argc >= 5 ? atoi(argv[4]) : 0, 0);
   else if (argc >= 4 && !strcmp(argv[1], "nonsq")) return run_nonsq(strtoull(argv[2], 0, 10), atol(argv[3]));
   else if (argc >= 4 && !strcmp(argv[1], "straddle")) return run_search(strtoull(argv[2], 0, 10), atol(argv[3]), argc >= 5 ? atoi(argv[4]) : 0, 1);
   else if (argc >= 2 && !strcmp(argv[1], "impulse")) return run_impulse();
   else if (argc >= 2 && !strcmp(argv[1], "rfc")) return run_rfc();
#endif
   else { fprintf(stderr, "usage\n"); return 64; }
   return 0;
}
