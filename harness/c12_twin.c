/* c12_twin.c — witness-search harness for C12 (codec state is deterministic, freely copyable,
   reset-equivalent).  Links the library exactly as built (public API only; two private request
   numbers used by the multistream layer are used in a marked minority of cases).

   Usage:
     c12_twin run  <mode> <kind> <seed> <first> <count>    cases first..first+count-1 of stream <seed>
     c12_twin case <mode> <kind> <seed> <index>            one case, verbose (the replay of a witness)
   mode:  clone   memcpy of get_size bytes at op `cut` of a random history; the original is then run to the
                  end, poisoned and freed, and the clone is run on the same calls
          reset   OPUS_RESET_STATE at op `cut` vs. a newly initialised object with every successful
                  setter of the history replayed (force_channels, which the encoder itself may change,
                  is copied through its getter)
          determ  the same history twice: heap and stack zero-filled / no other objects, vs.
                  heap 0x5A / stack 0x5A / decoy objects alive and used between the calls
   kind:  enc dec msenc msdec projenc projdec rp

   Output per case (one line):
     C <mode> <kind> <seed> <index> <class> ops=<n> cut=<k> OK
     C <mode> <kind> <seed> <index> <class> ops=<n> cut=<k> DIFF op=<i> <op text> | exp <rec> | obs <rec>
   where a <rec> is  ret=<r> len=<n> h=<fnv64 of payload> v=<getter values…> head=<first payload bytes>.
   Everything is a function of (mode, kind, seed, index); the RTCD level is capped by the environment
   variable OPUS_VERIF_ARCH_CAP read by the library's hook. */
#include "vcommon.h"
#include <math.h>
#include "opus.h"
#include "opus_multistream.h"
#include "opus_projection.h"

#define REQ_SET_FORCE_MODE 11002          /* src/opus_private.h (used by the multistream encoder) */
#define REQ_SET_VOICE_RATIO 11018
#define REQ_GET_VOICE_RATIO 11019
#define M_SILK 1000
#define M_HYBRID 1001
#define M_CELT 1002

/* ------------------------------------------------------------------ heap / stack poisoning */
#if defined(__has_feature)
#if __has_feature(memory_sanitizer)
#define C12_MSAN 1      /* MemorySanitizer build: filling would mark the memory initialised and blind the tool */
#include <sanitizer/msan_interface.h>
#endif
#endif
static int g_fill = -1;
static int g_bufpat = 0xEE;   /* what the caller's output buffers hold before a call (packet, PCM, repacketizer output) */
void *__real_malloc(size_t n);
void *__wrap_malloc(size_t n)
{
   void *p = __real_malloc(n);
#ifndef C12_MSAN
   if (p && g_fill >= 0) memset(p, g_fill, n);
#endif
   return p;
}
static void __attribute__((noinline)) dirty_stack(int pat)
{
#ifndef C12_MSAN
   volatile unsigned char buf[160000];
   size_t i;
   for (i = 0; i < sizeof buf; i++) buf[i] = (unsigned char)pat;
#else
   (void)pat;
#endif
}

/* ------------------------------------------------------------------ kinds, ops, records */
enum { K_ENC, K_DEC, K_MSENC, K_MSDEC, K_PROJENC, K_PROJDEC, K_RP, NKIND };
static const char *KNAME[NKIND] = {"enc", "dec", "msenc", "msdec", "projenc", "projdec", "rp"};
#define IS_ENC(k) ((k) == K_ENC || (k) == K_MSENC || (k) == K_PROJENC)
#define IS_DEC(k) ((k) == K_DEC || (k) == K_MSDEC || (k) == K_PROJDEC)

enum { OP_SET, OP_ENC, OP_GET, OP_RESET, OP_DEC, OP_RPINIT, OP_CAT, OP_OUT };
typedef struct { int type, a, b, c, d; uint64_t seed; } Op;

#define MAXV 24
typedef struct { int ret, nv; opus_int32 v[MAXV]; uint64_t h; long len; unsigned char head[12]; } Rec;

enum { S_BITRATE, S_COMPLEXITY, S_VBR, S_VBRC, S_FEC, S_LOSS, S_DTX, S_SIGNAL, S_MAXBW, S_BW, S_FORCECH, S_LSB,
       S_PRED, S_PHASE, S_FRAMEDUR, S_APP, S_FORCEMODE, S_VOICE, NSET };
static const char *SNAME[NSET] = {"BITRATE", "COMPLEXITY", "VBR", "VBR_CONSTRAINT", "INBAND_FEC", "PACKET_LOSS_PERC",
   "DTX", "SIGNAL", "MAX_BANDWIDTH", "BANDWIDTH", "FORCE_CHANNELS", "LSB_DEPTH", "PREDICTION_DISABLED",
   "PHASE_INVERSION_DISABLED", "EXPERT_FRAME_DURATION", "APPLICATION", "FORCE_MODE(private)", "VOICE_RATIO(private)"};
static const int SREQ[NSET] = {OPUS_SET_BITRATE_REQUEST, OPUS_SET_COMPLEXITY_REQUEST, OPUS_SET_VBR_REQUEST,
   OPUS_SET_VBR_CONSTRAINT_REQUEST, OPUS_SET_INBAND_FEC_REQUEST, OPUS_SET_PACKET_LOSS_PERC_REQUEST,
   OPUS_SET_DTX_REQUEST, OPUS_SET_SIGNAL_REQUEST, OPUS_SET_MAX_BANDWIDTH_REQUEST, OPUS_SET_BANDWIDTH_REQUEST,
   OPUS_SET_FORCE_CHANNELS_REQUEST, OPUS_SET_LSB_DEPTH_REQUEST, OPUS_SET_PREDICTION_DISABLED_REQUEST,
   OPUS_SET_PHASE_INVERSION_DISABLED_REQUEST, OPUS_SET_EXPERT_FRAME_DURATION_REQUEST, OPUS_SET_APPLICATION_REQUEST,
   REQ_SET_FORCE_MODE, REQ_SET_VOICE_RATIO};
static const int EGET[] = {OPUS_GET_APPLICATION_REQUEST, OPUS_GET_BITRATE_REQUEST, OPUS_GET_FORCE_CHANNELS_REQUEST,
   OPUS_GET_MAX_BANDWIDTH_REQUEST, OPUS_GET_BANDWIDTH_REQUEST, OPUS_GET_DTX_REQUEST, OPUS_GET_COMPLEXITY_REQUEST,
   OPUS_GET_INBAND_FEC_REQUEST, OPUS_GET_PACKET_LOSS_PERC_REQUEST, OPUS_GET_VBR_REQUEST, OPUS_GET_VBR_CONSTRAINT_REQUEST,
   OPUS_GET_SIGNAL_REQUEST, OPUS_GET_LOOKAHEAD_REQUEST, OPUS_GET_SAMPLE_RATE_REQUEST, OPUS_GET_LSB_DEPTH_REQUEST,
   OPUS_GET_EXPERT_FRAME_DURATION_REQUEST, OPUS_GET_PREDICTION_DISABLED_REQUEST,
   OPUS_GET_PHASE_INVERSION_DISABLED_REQUEST, OPUS_GET_IN_DTX_REQUEST, OPUS_GET_FINAL_RANGE_REQUEST};
#define NEGET ((int)(sizeof EGET / sizeof EGET[0]))
enum { D_GAIN, D_COMPLEXITY, D_PHASE, NDSET };
static const char *DNAME[NDSET] = {"GAIN", "COMPLEXITY", "PHASE_INVERSION_DISABLED"};
static const int DREQ[NDSET] = {OPUS_SET_GAIN_REQUEST, OPUS_SET_COMPLEXITY_REQUEST, OPUS_SET_PHASE_INVERSION_DISABLED_REQUEST};
static const int DGET[] = {OPUS_GET_BANDWIDTH_REQUEST, OPUS_GET_COMPLEXITY_REQUEST, OPUS_GET_SAMPLE_RATE_REQUEST,
   OPUS_GET_PITCH_REQUEST, OPUS_GET_GAIN_REQUEST, OPUS_GET_LAST_PACKET_DURATION_REQUEST,
   OPUS_GET_PHASE_INVERSION_DISABLED_REQUEST, OPUS_GET_FINAL_RANGE_REQUEST};
#define NDGET ((int)(sizeof DGET / sizeof DGET[0]))

#define MAXOPS 96
#define MAXPK 40
#define MAXCH 11
#define MAXFRAME 5760
#define PKTCAP 6000

typedef struct {
   int kind, Fs, ch, app, family, streams, coupled, priv, scen;
   int encFs, encCh;                      /* for decoder kinds: the stream was produced at this rate/channels */
   unsigned char mapping[256];
   unsigned char *demix; opus_int32 demix_size;
   int nops, cut; Op ops[MAXOPS];
   int npk; unsigned char *pk[MAXPK]; int pklen[MAXPK];
   char cls[96];
} Case;

typedef struct { int kind; void *p; int size; } Obj;

/* ------------------------------------------------------------------ signals */
static void gen_signal(uint64_t seed, int kind, float *pcm, int n, int ch, int Fs)
{
   vrng r; int i, c;
   double f0, fa, amp, t0;
   r.s = seed; (void)vnext(&r);
   f0 = 90.0 + vbelow(&r, 200); fa = 200.0 + vbelow(&r, 5000); amp = 0.03 + vbelow(&r, 70) / 100.0;
   t0 = vbelow(&r, 48000) / 48000.0;
   if (fa > 0.45 * Fs) fa = 0.45 * Fs;
   for (i = 0; i < n; i++) {
      double t = t0 + (double)i / Fs, v = 0, nz = ((double)(vnext(&r) >> 40) / 8388608.0 - 1.0);
      int h;
      switch (kind) {
      case 0: v = 0; break;
      case 1: v = amp * sin(6.283185307179586 * fa * t); break;
      case 2: case 5:
         for (h = 1; h <= 8 && h * f0 < 0.45 * Fs; h++) v += amp / h * sin(6.283185307179586 * h * f0 * t);
         v *= 0.55 + 0.45 * sin(6.283185307179586 * 3.5 * t);
         if (kind == 5) v += 0.05 * amp * nz;
         break;
      case 3: v = amp * (0.5 * sin(6.283185307179586 * fa * t) + 0.3 * sin(6.283185307179586 * 1.26 * fa * t)
                      + 0.2 * sin(6.283185307179586 * 0.5 * fa * t)) + 0.01 * nz; break;
      case 4: v = amp * nz; break;
      default: v = 1.7 * sin(6.283185307179586 * fa * t); break;       /* clipping */
      }
      for (c = 0; c < ch; c++) {
         double w = v;
         if (kind != 0 && (c & 1)) w = 0.6 * v + 0.1 * amp * ((double)(vnext(&r) >> 40) / 8388608.0 - 1.0);
         if (kind != 0 && c >= 2) w = v * (1.0 / (1 + c)) + 0.02 * amp * sin(6.283185307179586 * (fa + 37 * c) * t);
         pcm[i * ch + c] = (float)w;
      }
   }
}
static void to16(const float *f, opus_int16 *s, int n)
{
   int i; for (i = 0; i < n; i++) { double v = floor(.5 + 32768.0 * f[i]); s[i] = (opus_int16)(v > 32767 ? 32767 : v < -32768 ? -32768 : v); }
}
static void to24(const float *f, opus_int32 *s, int n)
{
   int i; for (i = 0; i < n; i++) { double v = floor(.5 + 8388608.0 * f[i]); s[i] = (opus_int32)(v > 8388607 ? 8388607 : v < -8388608 ? -8388608 : v); }
}

/* loud (> 0 dBFS) low-frequency tone with continuous phase over the whole stream: the decoder's 16-bit entry
   points soft-clip it, and frames end inside clipped half-cycles (soft-clip memory carried to the next call) */
static double g_loud_f, g_loud_amp, g_loud_ph; static long g_loud_n;
static void gen_loud(float *pcm, int n, int ch, int Fs)
{
   int i, c;
   for (i = 0; i < n; i++) {
      double v = g_loud_amp * sin(6.283185307179586 * g_loud_f * (double)(g_loud_n + i) / Fs + g_loud_ph);
      for (c = 0; c < ch; c++) pcm[i * ch + c] = (float)((c % 3 == 1) ? -v : (c % 3 == 2) ? 0.8 * v : v);
   }
   g_loud_n += n;
}

/* ------------------------------------------------------------------ object construction */
static int obj_size(const Case *c)
{
   switch (c->kind) {
   case K_ENC: return opus_encoder_get_size(c->ch);
   case K_DEC: return opus_decoder_get_size(c->ch);
   case K_MSENC: return opus_multistream_surround_encoder_get_size(c->ch, c->family);
   case K_MSDEC: return opus_multistream_decoder_get_size(c->streams, c->coupled);
   case K_PROJENC: return opus_projection_ambisonics_encoder_get_size(c->ch, 3);
   case K_PROJDEC: return opus_projection_decoder_get_size(c->ch, c->streams, c->coupled);
   default: return opus_repacketizer_get_size();
   }
}
static int obj_init_kind(int kind, void *p, Case *c, int Fs)
{
   int st = 0, cp = 0; unsigned char map[256];
   switch (kind) {
   case K_ENC: return opus_encoder_init((OpusEncoder *)p, Fs, c->ch, c->app);
   case K_DEC: return opus_decoder_init((OpusDecoder *)p, Fs, c->ch);
   case K_MSENC: return opus_multistream_surround_encoder_init((OpusMSEncoder *)p, Fs, c->ch, c->family, &st, &cp, map, c->app);
   case K_MSDEC: return opus_multistream_decoder_init((OpusMSDecoder *)p, Fs, c->ch, c->streams, c->coupled, c->mapping);
   case K_PROJENC: return opus_projection_ambisonics_encoder_init((OpusProjectionEncoder *)p, Fs, c->ch, 3, &st, &cp, c->app);
   case K_PROJDEC: return opus_projection_decoder_init((OpusProjectionDecoder *)p, Fs, c->ch, c->streams, c->coupled, c->demix, c->demix_size);
   default: opus_repacketizer_init((OpusRepacketizer *)p); return 0;
   }
}
static Obj obj_new(Case *c)
{
   Obj o; int err;
   o.kind = c->kind; o.size = obj_size(c);
   if (o.size <= 0) { fprintf(stderr, "get_size failed kind=%d ch=%d\n", c->kind, c->ch); exit(70); }
   o.p = malloc(o.size);
   err = obj_init_kind(c->kind, o.p, c, c->Fs);
   if (err != OPUS_OK) { fprintf(stderr, "init failed kind=%d err=%d Fs=%d ch=%d\n", c->kind, err, c->Fs, c->ch); exit(70); }
   return o;
}
static void obj_free(Obj *o) { if (o->p) { memset(o->p, 0xDD, o->size); free(o->p); o->p = NULL; } }

#define ECTL(o, ...) ((o)->kind == K_ENC ? opus_encoder_ctl((OpusEncoder *)(o)->p, __VA_ARGS__) : \
   (o)->kind == K_MSENC ? opus_multistream_encoder_ctl((OpusMSEncoder *)(o)->p, __VA_ARGS__) : \
   opus_projection_encoder_ctl((OpusProjectionEncoder *)(o)->p, __VA_ARGS__))
#define DCTL(o, ...) ((o)->kind == K_DEC ? opus_decoder_ctl((OpusDecoder *)(o)->p, __VA_ARGS__) : \
   (o)->kind == K_MSDEC ? opus_multistream_decoder_ctl((OpusMSDecoder *)(o)->p, __VA_ARGS__) : \
   opus_projection_decoder_ctl((OpusProjectionDecoder *)(o)->p, __VA_ARGS__))

/* ------------------------------------------------------------------ running one op */
static uint64_t fnv(const void *p, size_t n)
{
   const unsigned char *b = (const unsigned char *)p; uint64_t h = 0xcbf29ce484222325ULL; size_t i;
   for (i = 0; i < n; i++) { h ^= b[i]; h *= 0x100000001b3ULL; }
   return h;
}
static void rec_payload(Rec *r, const void *p, long n)
{
#ifdef C12_MSAN
   if (n > 0) {                 /* an output byte computed from uninitialised memory is a finding even if no branch used it */
      long k = (long)__msan_test_shadow(p, (size_t)n);
      if (k >= 0) { printf("MSAN-OUTPUT byte %ld of %ld of an output (packet / PCM) depends on uninitialised memory\n", k, n); fflush(stdout); __msan_print_shadow((const char *)p + k, 1); exit(9); }
   }
#endif
   r->len = n; r->h = fnv(p, n > 0 ? n : 0);
   memset(r->head, 0, sizeof r->head);
   if (n > 0) memcpy(r->head, p, n < (long)sizeof r->head ? n : (long)sizeof r->head);
}

static float g_pcm[MAXFRAME * MAXCH];
static opus_int16 g_p16[MAXFRAME * MAXCH];
static opus_int32 g_p24[MAXFRAME * MAXCH];
static float g_out[MAXFRAME * MAXCH];
static unsigned char g_pkt[PKTCAP];
static unsigned char g_rpout[PKTCAP * 4];

static void run_op(Case *c, Obj *o, const Op *op, Rec *r)
{
   int i;
   memset(r, 0, sizeof *r);
   switch (op->type) {
   case OP_SET:
      r->ret = IS_ENC(o->kind) ? ECTL(o, SREQ[op->a], (opus_int32)op->b) : DCTL(o, DREQ[op->a], (opus_int32)op->b);
      break;
   case OP_RESET:
      r->ret = IS_ENC(o->kind) ? ECTL(o, OPUS_RESET_STATE) : DCTL(o, OPUS_RESET_STATE);
      break;
   case OP_GET:
      if (IS_ENC(o->kind)) {
         for (i = 0; i < NEGET; i++) { opus_int32 v = -77777; int e = ECTL(o, EGET[i], &v); r->v[i] = v; r->ret = (int)((unsigned)r->ret * 7u + (unsigned)e); }
         r->nv = NEGET;
      } else {
         for (i = 0; i < NDGET; i++) { opus_int32 v = -77777; int e = DCTL(o, DGET[i], &v); r->v[i] = v; r->ret = (int)((unsigned)r->ret * 7u + (unsigned)e); }
         r->nv = NDGET;
      }
      break;
   case OP_ENC: {
      int fs = op->a, api = op->b, maxb = op->c, n = fs * c->ch; opus_uint32 rng = 0;
      gen_signal(op->seed, op->d, g_pcm, fs, c->ch, c->Fs);
      memset(g_pkt, g_bufpat, maxb < PKTCAP ? maxb : PKTCAP);
      if (api == 1) to16(g_pcm, g_p16, n); else if (api == 2) to24(g_pcm, g_p24, n);
      switch (o->kind) {
      case K_ENC:
         r->ret = api == 0 ? opus_encode_float((OpusEncoder *)o->p, g_pcm, fs, g_pkt, maxb)
                : api == 1 ? opus_encode((OpusEncoder *)o->p, g_p16, fs, g_pkt, maxb)
                : opus_encode24((OpusEncoder *)o->p, g_p24, fs, g_pkt, maxb); break;
      case K_MSENC:
         r->ret = api == 0 ? opus_multistream_encode_float((OpusMSEncoder *)o->p, g_pcm, fs, g_pkt, maxb)
                : api == 1 ? opus_multistream_encode((OpusMSEncoder *)o->p, g_p16, fs, g_pkt, maxb)
                : opus_multistream_encode24((OpusMSEncoder *)o->p, g_p24, fs, g_pkt, maxb); break;
      default:
         r->ret = api == 0 ? opus_projection_encode_float((OpusProjectionEncoder *)o->p, g_pcm, fs, g_pkt, maxb)
                : api == 1 ? opus_projection_encode((OpusProjectionEncoder *)o->p, g_p16, fs, g_pkt, maxb)
                : opus_projection_encode24((OpusProjectionEncoder *)o->p, g_p24, fs, g_pkt, maxb); break;
      }
      rec_payload(r, g_pkt, r->ret > 0 ? r->ret : 0);
      r->v[0] = ECTL(o, OPUS_GET_FINAL_RANGE(&rng)); r->v[1] = (opus_int32)rng; r->nv = 2;
      break; }
   case OP_DEC: {
      const unsigned char *d = op->a >= 0 ? c->pk[op->a] : NULL; int len = op->a >= 0 ? c->pklen[op->a] : 0;
      int api = op->b, fec = op->c, fs = op->d; opus_uint32 rng = 0; long bytes = 0; const void *outp = g_out;
      memset(g_out, g_bufpat ^ 0x95, sizeof(float) * (size_t)(fs > 0 ? fs : 0) * c->ch);
      switch (o->kind) {
      case K_DEC:
         r->ret = api == 0 ? opus_decode_float((OpusDecoder *)o->p, d, len, g_out, fs, fec)
                : api == 1 ? opus_decode((OpusDecoder *)o->p, d, len, (opus_int16 *)g_out, fs, fec)
                : opus_decode24((OpusDecoder *)o->p, d, len, (opus_int32 *)g_out, fs, fec); break;
      case K_MSDEC:
         r->ret = api == 0 ? opus_multistream_decode_float((OpusMSDecoder *)o->p, d, len, g_out, fs, fec)
                : api == 1 ? opus_multistream_decode((OpusMSDecoder *)o->p, d, len, (opus_int16 *)g_out, fs, fec)
                : opus_multistream_decode24((OpusMSDecoder *)o->p, d, len, (opus_int32 *)g_out, fs, fec); break;
      default:
         r->ret = api == 0 ? opus_projection_decode_float((OpusProjectionDecoder *)o->p, d, len, g_out, fs, fec)
                : api == 1 ? opus_projection_decode((OpusProjectionDecoder *)o->p, d, len, (opus_int16 *)g_out, fs, fec)
                : opus_projection_decode24((OpusProjectionDecoder *)o->p, d, len, (opus_int32 *)g_out, fs, fec); break;
      }
      if (r->ret > 0) bytes = (long)r->ret * c->ch * (api == 1 ? 2 : 4);
      rec_payload(r, outp, bytes);
      r->v[0] = DCTL(o, OPUS_GET_FINAL_RANGE(&rng)); r->v[1] = (opus_int32)rng; r->nv = 2;
      break; }
   case OP_RPINIT:
      opus_repacketizer_init((OpusRepacketizer *)o->p); break;
   case OP_CAT:
      r->ret = opus_repacketizer_cat((OpusRepacketizer *)o->p, c->pk[op->a], c->pklen[op->a]);
      r->v[0] = opus_repacketizer_get_nb_frames((OpusRepacketizer *)o->p); r->nv = 1; break;
   default: {
      int nb = opus_repacketizer_get_nb_frames((OpusRepacketizer *)o->p), b = op->a, e = op->b;
      memset(g_rpout, g_bufpat, sizeof g_rpout);
      if (e < 0) r->ret = opus_repacketizer_out((OpusRepacketizer *)o->p, g_rpout, op->c);
      else { if (nb > 0) { b %= nb; e = b + 1 + e % (nb - b); } r->ret = opus_repacketizer_out_range((OpusRepacketizer *)o->p, b, e, g_rpout, op->c); }
      rec_payload(r, g_rpout, r->ret > 0 ? r->ret : 0);
      r->v[0] = nb; r->nv = 1; break; }
   }
}

static int rec_eq(const Rec *a, const Rec *b)
{
   return a->ret == b->ret && a->nv == b->nv && a->len == b->len && a->h == b->h && !memcmp(a->v, b->v, sizeof a->v);
}
static void rec_print(FILE *f, const Rec *r)
{
   int i;
   fprintf(f, "ret=%d len=%ld h=%016llx v=", r->ret, r->len, (unsigned long long)r->h);
   for (i = 0; i < r->nv; i++) fprintf(f, "%s%d", i ? "," : "", (int)r->v[i]);
   if (!r->nv) fputc('-', f);
   fprintf(f, " head="); vhex(f, r->head, r->len < (long)sizeof r->head ? (r->len > 0 ? r->len : 0) : (long)sizeof r->head);
}
static void op_print(FILE *f, const Case *c, const Op *op)
{
   static const char *SIG[] = {"silence", "tone", "speech", "music", "noise", "speech+noise", "clip"};
   static const char *API[] = {"float", "int16", "int24"};
   switch (op->type) {
   case OP_SET: fprintf(f, "SET_%s(%d)", IS_ENC(c->kind) ? SNAME[op->a] : DNAME[op->a], op->b); break;
   case OP_RESET: fprintf(f, "RESET_STATE"); break;
   case OP_GET: fprintf(f, "GET_ALL"); break;
   case OP_ENC: fprintf(f, "ENCODE(%s,frame=%d,max=%d,sig=%s:%llu)", API[op->b], op->a, op->c, SIG[op->d], (unsigned long long)op->seed); break;
   case OP_DEC: fprintf(f, "DECODE(%s,pkt=%d/len=%d,fec=%d,frame=%d)", API[op->b], op->a, op->a >= 0 ? c->pklen[op->a] : 0, op->c, op->d); break;
   case OP_RPINIT: fprintf(f, "RP_INIT"); break;
   case OP_CAT: fprintf(f, "RP_CAT(pkt=%d/len=%d)", op->a, c->pklen[op->a]); break;
   default: fprintf(f, "RP_OUT(%d,%d,max=%d)", op->a, op->b, op->c); break;
   }
}

/* ------------------------------------------------------------------ script generation */
static const int RATES[5] = {8000, 12000, 16000, 24000, 48000};
static const int APPS[3] = {OPUS_APPLICATION_VOIP, OPUS_APPLICATION_AUDIO, OPUS_APPLICATION_RESTRICTED_LOWDELAY};

static int pick_frame(vrng *r, int Fs, int longok)
{
   int k = vbelow(r, 100);
   if (k < 50) return Fs / 50;
   if (k < 60) return Fs / 100;
   if (k < 66) return Fs / 200;
   if (k < 72) return Fs / 400;
   if (!longok) return Fs / 50;
   if (k < 81) return Fs / 25;
   if (k < 89) return Fs / 50 * 3;
   if (k < 93) return Fs / 25 * 2;
   if (k < 97) return Fs / 10;
   return Fs / 25 * 3;
}
static int set_value(vrng *r, int s, const Case *c)
{
   switch (s) {
   case S_BITRATE: { int k = vbelow(r, 100); int per = IS_ENC(c->kind) && c->kind != K_ENC ? c->ch : 1;
      if (k < 6) return OPUS_AUTO; if (k < 10) return OPUS_BITRATE_MAX;
      if (k < 45) return per * (6000 + (int)vbelow(r, 26000));
      if (k < 85) return per * (24000 + (int)vbelow(r, 80000));
      return per * (100000 + (int)vbelow(r, 400000)); }
   case S_COMPLEXITY: return vbelow(r, 11);
   case S_VBR: case S_VBRC: case S_DTX: case S_PRED: case S_PHASE: return vbelow(r, 2);
   case S_FEC: return vbelow(r, 3);
   case S_LOSS: return vchance(r, 30) ? 0 : (int)vbelow(r, 35);
   case S_SIGNAL: return vchance(r, 34) ? OPUS_AUTO : vchance(r, 50) ? OPUS_SIGNAL_VOICE : OPUS_SIGNAL_MUSIC;
   case S_MAXBW: return OPUS_BANDWIDTH_NARROWBAND + (int)vbelow(r, 5);
   case S_BW: return vchance(r, 50) ? OPUS_AUTO : OPUS_BANDWIDTH_NARROWBAND + (int)vbelow(r, 5);
   case S_FORCECH: return vchance(r, 50) ? OPUS_AUTO : 1 + (int)vbelow(r, 2);
   case S_LSB: return 8 + (int)vbelow(r, 17);
   case S_FRAMEDUR: return vchance(r, 50) ? OPUS_FRAMESIZE_ARG : OPUS_FRAMESIZE_2_5_MS + (int)vbelow(r, 9);
   case S_APP: return APPS[vbelow(r, 3)];
   case S_FORCEMODE: return vchance(r, 25) ? OPUS_AUTO : M_SILK + (int)vbelow(r, 3);
   default: return (int)vbelow(r, 102) - 1;
   }
}
static void add(Case *c, int type, int a, int b, int cc, int d, uint64_t seed)
{
   Op *o;
   if (c->nops >= MAXOPS) return;
   o = &c->ops[c->nops++]; o->type = type; o->a = a; o->b = b; o->c = cc; o->d = d; o->seed = seed;
}
static int pick_set(vrng *r, const Case *c)
{
   int s;
   for (;;) {
      s = vbelow(r, NSET);
      if (s == S_VOICE) continue;     /* private, overwritten by every non-silent frame: not a setting */
      if (s == S_FORCEMODE && !(c->priv && c->kind == K_ENC)) continue;
      if (c->kind != K_ENC && (s == S_FRAMEDUR) && vchance(r, 70)) continue;
      return s;
   }
}
static int pick_sig(vrng *r, int scen)
{
   int k = vbelow(r, 100);
   if (scen == 1 || scen == 2) return k < 55 ? 2 : k < 75 ? 5 : k < 85 ? 0 : k < 93 ? 3 : 4;   /* speech heavy */
   if (scen == 3) return k < 40 ? 0 : k < 70 ? 3 : 2;                                          /* silence heavy */
   return k < 12 ? 0 : k < 27 ? 1 : k < 52 ? 2 : k < 72 ? 3 : k < 82 ? 4 : k < 96 ? 5 : 6;
}

/* encoder-like script.  scen: 0 random; 1 FEC hysteresis zone; 2 mode switching / prediction disabled;
   3 silence and DTX. */
static void gen_enc_script(Case *c, vrng *r)
{
   int n, i, longok = 1;
   c->scen = c->kind == K_ENC ? (int)vbelow(r, 8) : 0;
   if (c->scen > 3) c->scen = 0;
   c->priv = vchance(r, 30);
   if (c->kind == K_ENC) {
      c->Fs = RATES[vbelow(r, 5)]; c->ch = 1 + vbelow(r, 2); c->app = APPS[vbelow(r, 3)];
      if (c->scen == 1) { c->Fs = vchance(r, 70) ? (vchance(r, 50) ? 12000 : 16000) : RATES[vbelow(r, 5)]; c->app = APPS[vbelow(r, 2)]; }
      if (c->scen == 2 || c->scen == 3) c->app = APPS[vbelow(r, 2)];
   } else if (c->kind == K_MSENC) {
      c->Fs = RATES[vbelow(r, 5)]; c->ch = 1 + vbelow(r, 8); c->app = APPS[vbelow(r, 3)];
      c->family = c->ch <= 2 ? (int)vbelow(r, 2) : vchance(r, 75) ? 1 : 255;
      if (vchance(r, 15)) { static const int amb[] = {1, 4, 6, 9, 11}; c->family = 2; c->ch = amb[vbelow(r, 5)]; }
   } else {
      static const int amb[] = {4, 6, 9, 11};
      c->Fs = vchance(r, 60) ? 48000 : RATES[vbelow(r, 5)]; c->ch = amb[vbelow(r, 4)]; c->app = APPS[vbelow(r, 3)]; c->family = 3;
   }
   n = 10 + vbelow(r, c->kind == K_ENC ? 40 : 16);
   /* opening settings */
   if (c->scen == 1) {
      add(c, OP_SET, S_FEC, 1 + (int)vbelow(r, 2), 0, 0, 0);
      add(c, OP_SET, S_LOSS, 6 + (int)vbelow(r, 25), 0, 0, 0);
      add(c, OP_SET, S_BITRATE, 12000 + (int)vbelow(r, 14000), 0, 0, 0);
      if (vchance(r, 40)) add(c, OP_SET, S_MAXBW, OPUS_BANDWIDTH_NARROWBAND + (int)vbelow(r, 3), 0, 0, 0);
   } else if (c->scen == 2) {
      add(c, OP_SET, S_BITRATE, 9000 + (int)vbelow(r, 50000), 0, 0, 0);
      if (vchance(r, 60)) add(c, OP_SET, S_PRED, 1, 0, 0, 0);
      if (vchance(r, 50)) add(c, OP_SET, S_SIGNAL, vchance(r, 50) ? OPUS_SIGNAL_VOICE : OPUS_SIGNAL_MUSIC, 0, 0, 0);
   } else if (c->scen == 3) {
      add(c, OP_SET, S_DTX, 1, 0, 0, 0);
      add(c, OP_SET, S_BITRATE, 8000 + (int)vbelow(r, 60000), 0, 0, 0);
   }
   for (i = vbelow(r, 5); i > 0; i--) { int s = pick_set(r, c); add(c, OP_SET, s, set_value(r, s, c), 0, 0, 0); }
   while (c->nops < n) {
      int k = vbelow(r, 100);
      if (k < 62) {
         int fs = pick_frame(r, c->Fs, longok), maxb = vchance(r, 15) ? 2 + (int)vbelow(r, 250) : vchance(r, 50) ? 1500 : 4000;
         if (c->kind != K_ENC && maxb < 1500) maxb = 40 * c->ch + (int)vbelow(r, 600);
         add(c, OP_ENC, fs, vbelow(r, 3), maxb, pick_sig(r, c->scen), vnext(r));
      } else if (k < 82) {
         int s = pick_set(r, c);
         if (c->scen == 1 && vchance(r, 60)) { s = S_BITRATE; add(c, OP_SET, s, 12000 + (int)vbelow(r, 14000), 0, 0, 0); }
         else if (c->scen == 2 && vchance(r, 50)) { s = vchance(r, 50) ? S_BITRATE : (c->priv ? S_FORCEMODE : S_SIGNAL);
            add(c, OP_SET, s, s == S_BITRATE ? 7000 + (int)vbelow(r, 60000) : set_value(r, s, c), 0, 0, 0); }
         else add(c, OP_SET, s, set_value(r, s, c), 0, 0, 0);
      } else if (k < 94) add(c, OP_GET, 0, 0, 0, 0, 0);
      else add(c, OP_RESET, 0, 0, 0, 0, 0);
   }
   sprintf(c->cls, "%s/Fs%d/ch%d/app%d/fam%d/scen%d/priv%d", KNAME[c->kind], c->Fs, c->ch, c->app, c->family, c->scen, c->priv);
}

/* a packet stream for decoder-like kinds and the repacketiser, produced by an encoder of matching layout */
static void gen_packets(Case *c, vrng *r)
{
   Case e; Obj eo; int i, err, st = 0, cp = 0, fixed_frame = 0;
   memset(&e, 0, sizeof e);
   e.Fs = c->encFs; e.app = APPS[vbelow(r, 3)]; e.ch = c->encCh;
   if (c->kind == K_DEC || c->kind == K_RP) e.kind = K_ENC;
   else if (c->kind == K_MSDEC) { e.kind = K_MSENC; e.family = c->family; }
   else { e.kind = K_PROJENC; e.family = 3; }
   eo.kind = e.kind; eo.size = obj_size(&e); eo.p = malloc(eo.size);
   if (e.kind == K_ENC) err = opus_encoder_init((OpusEncoder *)eo.p, e.Fs, e.ch, e.app);
   else if (e.kind == K_MSENC) err = opus_multistream_surround_encoder_init((OpusMSEncoder *)eo.p, e.Fs, e.ch, e.family, &st, &cp, c->mapping, e.app);
   else err = opus_projection_ambisonics_encoder_init((OpusProjectionEncoder *)eo.p, e.Fs, e.ch, 3, &st, &cp, e.app);
   if (err) { fprintf(stderr, "packet encoder init failed %d\n", err); exit(70); }
   c->streams = st; c->coupled = cp;
   if (e.kind == K_ENC) { c->streams = 1; c->coupled = e.ch == 2; }
   if (e.kind == K_PROJENC) {
      opus_projection_encoder_ctl((OpusProjectionEncoder *)eo.p, OPUS_PROJECTION_GET_DEMIXING_MATRIX_SIZE(&c->demix_size));
      c->demix = (unsigned char *)malloc(c->demix_size > 0 ? c->demix_size : 1);
      opus_projection_encoder_ctl((OpusProjectionEncoder *)eo.p, OPUS_PROJECTION_GET_DEMIXING_MATRIX(c->demix, c->demix_size));
   }
   if (c->scen == 4) {                     /* loud scenario: enough rate to keep the overshoot, one frame size per stream */
      static const int q[6] = {50, 50, 100, 25, 200, 400};
      ECTL(&eo, OPUS_SET_BITRATE(e.ch * (48000 + (int)vbelow(r, 100000))));
      if (vchance(r, 40)) ECTL(&eo, OPUS_SET_VBR(0));
      if (vchance(r, 40)) ECTL(&eo, OPUS_SET_PREDICTION_DISABLED(1));
      ECTL(&eo, OPUS_SET_COMPLEXITY((int)vbelow(r, 11)));
      fixed_frame = e.Fs / q[vbelow(r, 6)];
      g_loud_f = 25.0 + vbelow(r, 90); g_loud_amp = (vchance(r, 50) ? -1.0 : 1.0) * (1.15 + vbelow(r, 130) / 100.0);
      g_loud_ph = vbelow(r, 6283) / 1000.0; g_loud_n = 0;
   } else {
   ECTL(&eo, OPUS_SET_BITRATE(e.ch * (vchance(r, 50) ? 8000 + (int)vbelow(r, 24000) : 24000 + (int)vbelow(r, 70000))));
   if (vchance(r, 50)) { ECTL(&eo, OPUS_SET_INBAND_FEC(1)); ECTL(&eo, OPUS_SET_PACKET_LOSS_PERC(10 + (int)vbelow(r, 20))); }
   if (vchance(r, 30)) ECTL(&eo, OPUS_SET_VBR(0));
   if (vchance(r, 25)) ECTL(&eo, OPUS_SET_DTX(1));
   ECTL(&eo, OPUS_SET_COMPLEXITY((int)vbelow(r, 11)));
   }
   if (c->kind == K_RP) { fixed_frame = pick_frame(r, e.Fs, 0); if (vchance(r, 60)) ECTL(&eo, OPUS_SET_BANDWIDTH(OPUS_BANDWIDTH_NARROWBAND + (int)vbelow(r, 5))); }
   c->npk = c->scen == 4 ? MAXPK - 6 : 14 + (int)vbelow(r, MAXPK - 14 - 6);
   for (i = 0; i < c->npk; i++) {
      int fs = fixed_frame ? fixed_frame : pick_frame(r, e.Fs, 1), len;
      Case tmp = e;
      if (c->scen == 4) gen_loud(g_pcm, fs, e.ch, e.Fs);
      else {
      if (c->kind != K_RP && vchance(r, 12)) ECTL(&eo, OPUS_SET_BITRATE(e.ch * (6000 + (int)vbelow(r, 90000))));
      gen_signal(vnext(r), pick_sig(r, 0), g_pcm, fs, e.ch, e.Fs);
      }
      (void)tmp;
      if (e.kind == K_ENC) len = opus_encode_float((OpusEncoder *)eo.p, g_pcm, fs, g_pkt, 1500);
      else if (e.kind == K_MSENC) len = opus_multistream_encode_float((OpusMSEncoder *)eo.p, g_pcm, fs, g_pkt, 4000);
      else len = opus_projection_encode_float((OpusProjectionEncoder *)eo.p, g_pcm, fs, g_pkt, 4000);
      if (len < 0) len = 0;
      c->pk[i] = vexact(g_pkt, len); c->pklen[i] = len;
   }
   /* damaged and junk packets */
   for (i = 0; i < 6 && c->npk < MAXPK && c->scen != 4; i++) {
      int src = vbelow(r, c->npk), len = c->pklen[src], j;
      memcpy(g_pkt, c->pk[src], len);
      switch (vbelow(r, 4)) {
      case 0: if (len > 1) len = 1 + vbelow(r, len - 1); break;
      case 1: for (j = 0; j < 3 && len > 0; j++) g_pkt[vbelow(r, len)] ^= 1 << vbelow(r, 8); break;
      case 2: len = 1 + vbelow(r, 60); for (j = 0; j < len; j++) g_pkt[j] = (unsigned char)vnext(r); break;
      default: if (len > 0) g_pkt[0] = (unsigned char)vnext(r); break;
      }
      c->pk[c->npk] = vexact(g_pkt, len); c->pklen[c->npk] = len; c->npk++;
   }
   free(eo.p);
}

/* loud scenario (scen 4, ~35 % of the decoder cases): a > 0 dBFS low-frequency stream decoded mostly through the
   16-bit entry points (the only ones that soft-clip), packets in order, resets at random frame boundaries */
static void gen_loud_dec_script(Case *c, vrng *r)
{
   int n, next = 0;
   if (c->kind == K_DEC) { c->Fs = vchance(r, 60) ? 48000 : RATES[vbelow(r, 5)]; c->ch = 1 + vbelow(r, 2); c->encFs = c->Fs; c->encCh = c->ch; }
   else if (c->kind == K_MSDEC) { c->Fs = vchance(r, 60) ? 48000 : RATES[vbelow(r, 5)]; c->ch = 1 + vbelow(r, 6); c->encFs = c->Fs; c->encCh = c->ch;
      c->family = c->ch <= 2 ? (int)vbelow(r, 2) : vchance(r, 75) ? 1 : 255; }
   else { static const int amb[] = {4, 6, 9}; c->Fs = 48000; c->ch = amb[vbelow(r, 3)]; c->encFs = c->Fs; c->encCh = c->ch; c->family = 3; }
   gen_packets(c, r);
   n = 14 + vbelow(r, 34);
   if (vchance(r, 30)) add(c, OP_SET, D_GAIN, (int)vbelow(r, 1200) - 300, 0, 0, 0);
   while (c->nops < n) {
      int k = vbelow(r, 100);
      if (k < 76) {
         int api = vchance(r, 82) ? 1 : (int)vbelow(r, 3);
         if (next >= c->npk) next = 0;
         add(c, OP_DEC, next++, api, 0, MAXFRAME * c->Fs / 48000, 0);
      } else if (k < 88) add(c, OP_RESET, 0, 0, 0, 0, 0);
      else if (k < 95) add(c, OP_GET, 0, 0, 0, 0, 0);
      else add(c, OP_SET, D_GAIN, (int)vbelow(r, 600) - 100, 0, 0, 0);
   }
   sprintf(c->cls, "%s/Fs%d/ch%d/encFs%d/encCh%d/fam%d/loud", KNAME[c->kind], c->Fs, c->ch, c->encFs, c->encCh, c->family);
}

static void gen_dec_script(Case *c, vrng *r)
{
   int n, i;
   { vrng q; q.s = r->s ^ 0xC12C12C12C12ULL; c->scen = vbelow(&q, 100) < 35 ? 4 : 0; }   /* does not advance r */
   if (c->scen == 4) { gen_loud_dec_script(c, r); return; }
   if (c->kind == K_DEC) {
      c->Fs = RATES[vbelow(r, 5)]; c->ch = 1 + vbelow(r, 2);
      c->encFs = vchance(r, 60) ? c->Fs : RATES[vbelow(r, 5)]; c->encCh = vchance(r, 70) ? c->ch : 1 + (int)vbelow(r, 2);
   } else if (c->kind == K_MSDEC) {
      c->Fs = RATES[vbelow(r, 5)]; c->ch = 1 + vbelow(r, 8); c->encFs = vchance(r, 60) ? c->Fs : RATES[vbelow(r, 5)]; c->encCh = c->ch;
      c->family = c->ch <= 2 ? (int)vbelow(r, 2) : vchance(r, 75) ? 1 : 255;
   } else {
      static const int amb[] = {4, 6, 9, 11};
      c->Fs = vchance(r, 60) ? 48000 : RATES[vbelow(r, 5)]; c->ch = amb[vbelow(r, 4)]; c->encFs = c->Fs; c->encCh = c->ch; c->family = 3;
   }
   gen_packets(c, r);
   n = 12 + vbelow(r, 40);
   for (i = vbelow(r, 3); i > 0; i--) { int s = vbelow(r, NDSET); add(c, OP_SET, s, s == D_GAIN ? (int)vbelow(r, 4000) - 2000 : s == D_COMPLEXITY ? (int)vbelow(r, 11) : (int)vbelow(r, 2), 0, 0, 0); }
   {
      int next = 0;
      while (c->nops < n) {
         int k = vbelow(r, 100);
         if (k < 66) {
            int idx = vchance(r, 75) ? next : (int)vbelow(r, c->npk), api = vbelow(r, 3), fec = 0, fs;
            int m = vbelow(r, 100);
            if (idx >= c->npk) idx = vbelow(r, c->npk);
            next = idx + 1;
            if (m < 12) idx = -1;                                  /* lost packet: PLC */
            else if (m < 22) fec = 1;                              /* FEC from this packet */
            fs = (idx < 0 || fec) ? pick_frame(r, c->Fs, 1) : (vchance(r, 85) ? MAXFRAME * c->Fs / 48000 : pick_frame(r, c->Fs, 1));
            add(c, OP_DEC, idx, api, fec, fs, 0);
         } else if (k < 80) { int s = vbelow(r, NDSET); add(c, OP_SET, s, s == D_GAIN ? (int)vbelow(r, 4000) - 2000 : s == D_COMPLEXITY ? (int)vbelow(r, 11) : (int)vbelow(r, 2), 0, 0, 0); }
         else if (k < 94) add(c, OP_GET, 0, 0, 0, 0, 0);
         else add(c, OP_RESET, 0, 0, 0, 0, 0);
      }
   }
   sprintf(c->cls, "%s/Fs%d/ch%d/encFs%d/encCh%d/fam%d", KNAME[c->kind], c->Fs, c->ch, c->encFs, c->encCh, c->family);
}

static void gen_rp_script(Case *c, vrng *r)
{
   int n = 8 + vbelow(r, 30);
   c->Fs = RATES[vbelow(r, 5)]; c->ch = 1 + vbelow(r, 2); c->encFs = c->Fs; c->encCh = c->ch;
   gen_packets(c, r);
   while (c->nops < n) {
      int k = vbelow(r, 100);
      if (k < 55) add(c, OP_CAT, vbelow(r, c->npk), 0, 0, 0, 0);
      else if (k < 80) add(c, OP_OUT, vbelow(r, 48), vchance(r, 40) ? -1 : (int)vbelow(r, 48), vchance(r, 20) ? 1 + (int)vbelow(r, 300) : PKTCAP * 4, 0, 0);
      else if (k < 88) add(c, OP_RPINIT, 0, 0, 0, 0, 0);
      else add(c, OP_OUT, 0, -1, PKTCAP * 4, 0, 0);
   }
   sprintf(c->cls, "rp/Fs%d/ch%d", c->Fs, c->ch);
}

static void gen_case(Case *c, int mode, int kind, uint64_t seed, int index)
{
   vrng r;
   memset(c, 0, sizeof *c);
   c->kind = kind;
   r.s = seed * 0x9E3779B97F4A7C15ULL + (uint64_t)index * 0xD1B54A32D192ED03ULL + (uint64_t)kind * 1000003ULL + (uint64_t)mode * 7919ULL;
   (void)vnext(&r);
   if (IS_ENC(kind)) gen_enc_script(c, &r);
   else if (IS_DEC(kind)) gen_dec_script(c, &r);
   else gen_rp_script(c, &r);
   c->cut = vbelow(&r, c->nops + 1);
   if (mode == 1 && c->cut == 0) c->cut = c->nops / 2;
}
static void free_case(Case *c)
{
   int i; for (i = 0; i < c->npk; i++) free(c->pk[i]);
   free(c->demix);
}

/* ------------------------------------------------------------------ the three twin experiments */
static Rec g_ra[MAXOPS], g_rb[MAXOPS];
static int g_verbose;

static void decoy_use(vrng *r, OpusEncoder *de, OpusDecoder *dd)
{
   static float pcm[960 * 2], out[960 * 2]; unsigned char pkt[600]; int len;
   gen_signal(vnext(r), 1 + vbelow(r, 5), pcm, 960, 2, 48000);
   len = opus_encode_float(de, pcm, 960, pkt, sizeof pkt);
   if (len > 0) (void)opus_decode_float(dd, pkt, len, out, 960, 0);
}

/* returns index of first differing op or -1 */
static int compare(const Case *c, int from)
{
   int i;
   for (i = from; i < c->nops; i++) if (!rec_eq(&g_ra[i], &g_rb[i])) return i;
   return -1;
}

/* The encoder itself may overwrite the application's force_channels setting with 1 (opus_encoder.c:1687, a
   stereo->mono transition inside a multi-frame packet).  "The same settings" are the ones the getters report,
   so the value is copied from the reset object to the new one — per stream for multistream / projection. */
static void sync_force_channels(Case *c, Obj *a, Obj *b)
{
   opus_int32 fc = 0; int s;
   if (c->kind == K_ENC) {
      if (opus_encoder_ctl((OpusEncoder *)a->p, OPUS_GET_FORCE_CHANNELS(&fc)) == OPUS_OK)
         opus_encoder_ctl((OpusEncoder *)b->p, OPUS_SET_FORCE_CHANNELS(fc));
   } else if (c->kind == K_MSENC || c->kind == K_PROJENC) {
      for (s = 0; s < 256; s++) {
         OpusEncoder *ea = NULL, *eb = NULL;
         if (ECTL(a, OPUS_MULTISTREAM_GET_ENCODER_STATE(s, &ea)) != OPUS_OK || !ea) break;
         if (ECTL(b, OPUS_MULTISTREAM_GET_ENCODER_STATE(s, &eb)) != OPUS_OK || !eb) break;
         if (opus_encoder_ctl(ea, OPUS_GET_FORCE_CHANNELS(&fc)) == OPUS_OK) opus_encoder_ctl(eb, OPUS_SET_FORCE_CHANNELS(fc));
      }
   }
}

static int run_case(int mode, Case *c)
{
   Obj a, b; int i, err;
   if (mode == 0) {                       /* clone */
      g_fill = 0xA5; a = obj_new(c);
      for (i = 0; i < c->cut; i++) run_op(c, &a, &c->ops[i], &g_ra[i]);
      g_fill = 0x5A; b.kind = a.kind; b.size = a.size; b.p = malloc(b.size);
      memcpy(b.p, a.p, a.size);
      for (i = c->cut; i < c->nops; i++) run_op(c, &a, &c->ops[i], &g_ra[i]);
      obj_free(&a);
      for (i = c->cut; i < c->nops; i++) run_op(c, &b, &c->ops[i], &g_rb[i]);
      obj_free(&b);
   } else if (mode == 1) {                /* reset vs fresh */
      g_fill = 0xA5; a = obj_new(c);
      for (i = 0; i < c->cut; i++) run_op(c, &a, &c->ops[i], &g_ra[i]);
      err = IS_ENC(c->kind) ? ECTL(&a, OPUS_RESET_STATE) : IS_DEC(c->kind) ? DCTL(&a, OPUS_RESET_STATE) : (opus_repacketizer_init((OpusRepacketizer *)a.p), 0);
      if (err) { fprintf(stderr, "RESET_STATE returned %d\n", err); exit(70); }
      g_fill = 0x5A; b = obj_new(c);
      for (i = 0; i < c->cut; i++)
         if (c->ops[i].type == OP_SET && g_ra[i].ret == OPUS_OK) { Rec t; run_op(c, &b, &c->ops[i], &t); }
      sync_force_channels(c, &a, &b);
      for (i = c->cut; i < c->nops; i++) {
         run_op(c, &a, &c->ops[i], &g_ra[i]); run_op(c, &b, &c->ops[i], &g_rb[i]);
         if (c->ops[i].type == OP_GET && (c->kind == K_MSENC || c->kind == K_PROJENC)) {
            /* multistream GET_BITRATE / GET_FORCE_CHANNELS report what the layer itself wrote into the stream
               encoders for the previous frame (rewritten before every encode): not settings, not compared */
            g_ra[i].v[1] = g_rb[i].v[1] = 0; g_ra[i].v[2] = g_rb[i].v[2] = 0;
         }
      }
      obj_free(&a); obj_free(&b);
   } else {                               /* determinism */
      vrng dr; OpusEncoder *de; OpusDecoder *dd; void *junk[8]; int j;
      g_fill = 0x00; g_bufpat = 0x00; dirty_stack(0x00); a = obj_new(c);            /* run 1: zero pages, as a fresh process sees them */
      for (i = 0; i < c->nops; i++) { dirty_stack(0x00); run_op(c, &a, &c->ops[i], &g_ra[i]); }
      obj_free(&a);
      g_fill = 0x5A; g_bufpat = 0xEE; dr.s = 12345;                                 /* run 2: dirty heap and stack, other objects alive */
      for (j = 0; j < 8; j++) junk[j] = malloc(1000 + 7919 * j);
      de = opus_encoder_create(48000, 2, OPUS_APPLICATION_AUDIO, &err); dd = opus_decoder_create(48000, 2, &err);
      for (j = 0; j < 8; j += 2) free(junk[j]);
      decoy_use(&dr, de, dd);
      dirty_stack(0x5A); b = obj_new(c);
      for (i = 0; i < c->nops; i++) { if (i % 3 == 0) decoy_use(&dr, de, dd); dirty_stack(0x5A); run_op(c, &b, &c->ops[i], &g_rb[i]); }
      obj_free(&b);
      for (j = 1; j < 8; j += 2) free(junk[j]);
      opus_encoder_destroy(de); opus_decoder_destroy(dd);
   }
   g_fill = -1;
   return compare(c, mode == 2 ? 0 : c->cut);
}

static const char *MODES[3] = {"clone", "reset", "determ"};

static void report(int mode, int kind, uint64_t seed, int index, Case *c, int d)
{
   printf("C %s %s %llu %d %s ops=%d cut=%d ", MODES[mode], KNAME[kind], (unsigned long long)seed, index, c->cls, c->nops, c->cut);
   if (d < 0) printf("OK\n");
   else {
      printf("DIFF op=%d ", d); op_print(stdout, c, &c->ops[d]);
      printf(" | exp "); rec_print(stdout, &g_ra[d]); printf(" | obs "); rec_print(stdout, &g_rb[d]); printf("\n");
   }
}

int main(int argc, char **argv)
{
   int mode, kind, first, count, i; uint64_t seed; static Case c;
   if (argc < 6) { fprintf(stderr, "usage: c12_twin run|case <mode> <kind> <seed> <first|index> [count]\n"); return 64; }
   for (mode = 0; mode < 3 && strcmp(argv[2], MODES[mode]); mode++);
   for (kind = 0; kind < NKIND && strcmp(argv[3], KNAME[kind]); kind++);
   if (mode == 3 || kind == NKIND) { fprintf(stderr, "bad mode/kind\n"); return 64; }
   seed = strtoull(argv[4], NULL, 10); first = atoi(argv[5]); count = argc > 6 ? atoi(argv[6]) : 1;
   if (!strcmp(argv[1], "case")) { g_verbose = 1; count = 1; }
   for (i = first; i < first + count; i++) {
      int d;
      gen_case(&c, mode, kind, seed, i);
      d = run_case(mode, &c);
      report(mode, kind, seed, i, &c, d);
      if (g_verbose) {
         int k;
         for (k = 0; k < c.nops; k++) {
            printf("  %s%3d ", k == c.cut ? (mode == 0 ? "--memcpy--\n  " : mode == 1 ? "--RESET_STATE | fresh+settings--\n  " : "") : "", k);
            op_print(stdout, &c, &c.ops[k]);
            printf("\n        A: "); rec_print(stdout, &g_ra[k]);
            if (mode == 2 || k >= c.cut) { printf("\n        B: "); rec_print(stdout, &g_rb[k]); if (!rec_eq(&g_ra[k], &g_rb[k])) printf("   <-- differs"); }
            printf("\n");
         }
      }
      free_case(&c);
      fflush(stdout);
   }
   return 0;
}
