/* c10_msdec.c — C10 extension slice "msdec": the REAL multistream decoder (opus_multistream_decode_native and
   opus_multistream_decoder_ctl of src/opus_multistream_decoder.c) with REAL per-stream decoders, observed through two
   recording wrappers placed between the multistream code and opus_decode_native / opus_decoder_ctl.
   Modes (suite `layout`):
     rand <seed> <n>   the tie: n histories (random layout, 3..10 API calls each on one OpusMSDecoder; packets from a real
                       multistream encoder, valid / corrupt / truncated / garbage / lost / FEC; ctl calls in between).
                       Per decode call:  I layout msdec-decode <ch> <streams> <coupled> <mapping> <Fs> <len> <packet> <frame_size> <fec> <soft_clip> <rets>
                                         O ret=<n|NAME> calls=<s:off:len:fsz:fec:sd:sc,...|-> copies=<chan:src:fs,...|->
                       Per ctl call:     I layout msdec-ctl <streams> <request> <arg> <nonnull> <rets>
                                         O ret=<n|NAME> value=<v> calls=<s:request:arg,...|->
                       <rets> (the per-stream results, an oracle input of the model) is known only after the call: the I line is
                       printed and flushed up to <rets> before the call and completed after it.
     twin <seed> <n>   the search (implementation only): same histories; one stand-alone twin OpusDecoder per stream gets
                       exactly the stream's own sub-packet (exact-size heap copy) with the recorded arguments and every ctl
                       the stream got; return value, packet_offset, PCM bit patterns, final range and the GET values must agree;
                       a rejected packet must leave every stream's final range / last packet duration untouched.
   The statics are reached by #including the repo .c file (compiled with the library's flags). */
#include "vcommon.h"
#include <stdarg.h>
#include <math.h>
#ifdef HAVE_CONFIG_H
#include "config.h"
#endif
#include "opus_multistream.h"
#include "opus.h"
#include "opus_private.h"          /* the real prototypes are seen un-renamed */

int rec_decode_native(OpusDecoder *st, const unsigned char *data, opus_int32 len, opus_res *pcm, int frame_size, int decode_fec,
      int self_delimited, opus_int32 *packet_offset, int soft_clip, const OpusDRED *dred, opus_int32 dred_offset);
int rec_decoder_ctl(OpusDecoder *st, int request, ...);

#define opus_decode_native rec_decode_native      /* recording wrapper, forwards to the real opus_decode_native */
#define opus_decoder_ctl   rec_decoder_ctl        /* recording variadic wrapper, forwards to the real opus_decoder_ctl */
#include "opus_multistream_decoder.c"
#undef opus_decode_native
#undef opus_decoder_ctl

/* ------------------------------------------------------------------ recording */
#define MAXREC 16
#define MAXFS 5760
typedef struct { int s; long off; int len, fsz, fec, sd, sc, ret, data_null; opus_int32 po; opus_uint32 rng; opus_res pcm[MAXFS * 2]; } DecRec;
typedef struct { int s, request, nonnull, ret; opus_int32 arg; opus_int32 sval; opus_uint32 uval; } CtlRec;
typedef struct { int chan, kind, s, fs; } CopyRec;   /* kind: 0 Z 1 L 2 R 3 M 4 BADSRC 5 BADDST 6 OOB */

static OpusMSDecoder *g_ms; static int g_streams, g_coupled, g_channels;
static const unsigned char *g_base;
static int g_in_decode, g_rec_ctl, g_snap;
static DecRec g_dec[MAXREC]; static int g_ndec, g_dec_over;
static CtlRec g_ctl[MAXREC]; static int g_nctl, g_ctl_over;
static CopyRec g_copy[64]; static int g_ncopy, g_copy_over;
static int g_cur_stream; static const opus_res *g_cur_buf;
static void *g_pcm; static int g_pcm_frames;

static OpusDecoder *stream_ptr(int k)
{
   char *ptr = (char *)g_ms + align(sizeof(OpusMSDecoder)); int s;
   for (s = 0; s < k; s++) ptr += s < g_coupled ? align(opus_decoder_get_size(2)) : align(opus_decoder_get_size(1));
   return (OpusDecoder *)ptr;
}
static int stream_index(const OpusDecoder *d)
{
   int s;
   if (!g_ms) return -1;
   for (s = 0; s < g_streams; s++) if (stream_ptr(s) == d) return s;
   return -1;
}

int rec_decode_native(OpusDecoder *st, const unsigned char *data, opus_int32 len, opus_res *pcm, int frame_size, int decode_fec,
      int self_delimited, opus_int32 *packet_offset, int soft_clip, const OpusDRED *dred, opus_int32 dred_offset)
{
   int s = stream_index(st), ret;
   ret = opus_decode_native(st, data, len, pcm, frame_size, decode_fec, self_delimited, packet_offset, soft_clip, dred, dred_offset);
   if (g_ndec < MAXREC) {
      DecRec *r = &g_dec[g_ndec++];
      r->s = s; r->len = len; r->fsz = frame_size; r->fec = decode_fec; r->sd = self_delimited; r->sc = soft_clip; r->ret = ret;
      r->data_null = data == NULL;
      if (data == NULL && g_base == NULL) r->off = 0;
      else if (data == NULL || g_base == NULL) r->off = -1000000000L;            /* canonical: not inside the caller's packet */
      else r->off = (long)((intptr_t)data - (intptr_t)g_base);
      r->po = packet_offset ? *packet_offset : -1;
      if (g_snap) {
         int chn = s >= 0 && s < g_coupled ? 2 : 1;
         r->rng = 0;
         opus_decoder_ctl(st, OPUS_GET_FINAL_RANGE(&r->rng));
         if (ret > 0 && ret <= MAXFS) memcpy(r->pcm, pcm, sizeof(opus_res) * ret * chn);
      }
   } else g_dec_over = 1;
   g_cur_stream = s; g_cur_buf = pcm;
   return ret;
}

int rec_decoder_ctl(OpusDecoder *st, int request, ...)
{
   va_list ap; int ret, nonnull = 1; opus_int32 arg = 0, sval = 0; opus_uint32 uval = 0;
   va_start(ap, request);
   switch (request) {
   case OPUS_GET_BANDWIDTH_REQUEST: case OPUS_GET_SAMPLE_RATE_REQUEST: case OPUS_GET_GAIN_REQUEST:
   case OPUS_GET_LAST_PACKET_DURATION_REQUEST: case OPUS_GET_PHASE_INVERSION_DISABLED_REQUEST: {
      opus_int32 *p = va_arg(ap, opus_int32 *);
      ret = opus_decoder_ctl(st, request, p);
      nonnull = p != NULL; if (p && ret == OPUS_OK) sval = *p;
   } break;
   case OPUS_GET_FINAL_RANGE_REQUEST: {
      opus_uint32 *p = va_arg(ap, opus_uint32 *);
      ret = opus_decoder_ctl(st, request, p);
      nonnull = p != NULL; if (p && ret == OPUS_OK) uval = *p;
   } break;
   case OPUS_RESET_STATE:
      ret = opus_decoder_ctl(st, OPUS_RESET_STATE);
      break;
   case OPUS_SET_GAIN_REQUEST: case OPUS_SET_PHASE_INVERSION_DISABLED_REQUEST:
      arg = va_arg(ap, opus_int32);
      ret = opus_decoder_ctl(st, request, arg);
      break;
   default:                       /* the multistream ctl forwards nothing else */
      printf("\nO UNEXPECTED-CTL-FORWARD %d\n", request); fflush(stdout); exit(5);
   }
   va_end(ap);
   if (g_rec_ctl && !g_in_decode) {
      if (g_nctl < MAXREC) { CtlRec *r = &g_ctl[g_nctl++]; r->s = stream_index(st); r->request = request; r->nonnull = nonnull; r->ret = ret; r->arg = arg; r->sval = sval; r->uval = uval; }
      else g_ctl_over = 1;
   }
   return ret;
}

/* logging copy callback: source kind from the per-stream buffer the last recorded decode call was given */
static void log_copy(void *dst, int dst_stride, int dst_channel, const opus_res *src, int src_stride, int frame_size, void *user_data)
{
   int kind;
   (void)user_data;
   if (src == NULL) kind = src_stride == 0 ? 0 : 4;
   else if (src_stride == 1 && src == g_cur_buf) kind = 3;
   else if (src_stride == 2 && src == g_cur_buf) kind = 1;
   else if (src_stride == 2 && src == g_cur_buf + 1) kind = 2;
   else kind = 4;
   if (dst != g_pcm || dst_stride != g_channels) kind = 5;
   else if (dst_channel < 0 || dst_channel >= g_channels || frame_size < 0 || frame_size > g_pcm_frames) kind = 6;
   if (g_ncopy < 64) { CopyRec *c = &g_copy[g_ncopy++]; c->chan = dst_channel; c->kind = kind; c->s = g_cur_stream; c->fs = frame_size; }
   else g_copy_over = 1;
   if (kind <= 3) opus_copy_channel_out_float(dst, dst_stride, dst_channel, src, src_stride, frame_size, user_data);
}

/* ------------------------------------------------------------------ structurally valid packets with random payload (as c10_layout.c) */
static long put_size(unsigned char *o, int s) { if (s < 252) { o[0] = s; return 1; } o[0] = 252 + (s & 3); o[1] = (s - o[0]) >> 2; return 2; }
static const int cfg_by_dur[6][9] = {{16, 20, 24, 28, -1}, {17, 21, 25, 29, -1}, {0, 4, 8, 12, 14, 18, 22, 26, 30}, {1, 5, 9, 13, 15, 19, 23, 27, 31}, {2, 6, 10, -1}, {3, 7, 11, -1}};
static const int cfg_n[6] = {4, 4, 9, 9, 3, 3};
static long gen_sub(vrng *r, int sd, int dur, int count, unsigned char *o)
{
   int config = cfg_by_dur[dur][vbelow(r, cfg_n[dur])], stereo = vbelow(r, 2);
   int code, vbr = 0, i, sizes[64], haspad = 0;
   long n = 0, padtotal = 0;
   if (count == 1) code = vchance(r, 70) ? 0 : 3; else if (count == 2) code = 1 + vbelow(r, 3); else code = 3;
   if (code == 3) vbr = vbelow(r, 2);
   { int base = vchance(r, 80) ? (int)vbelow(r, 40) : (int)vbelow(r, 300);
     for (i = 0; i < count; i++) sizes[i] = (code == 1 || (code == 3 && !vbr)) ? base : (vchance(r, 80) ? (int)vbelow(r, 40) : (int)vbelow(r, 300)); }
   o[n++] = config * 8 + stereo * 4 + code;
   if (code == 3) {
      haspad = vchance(r, 25);
      o[n++] = (count & 63) | (haspad ? 64 : 0) | (vbr ? 128 : 0);
      if (haspad) { int last = vbelow(r, 8); o[n++] = last; padtotal = last; }
   }
   if (code == 2 || (code == 3 && vbr)) for (i = 0; i < count - 1; i++) n += put_size(o + n, sizes[i]);
   if (sd) n += put_size(o + n, sizes[count - 1]);
   for (i = 0; i < count; i++) { int k; for (k = 0; k < sizes[i]; k++) o[n++] = (unsigned char)vnext(r); }
   { long k; for (k = 0; k < padtotal; k++) o[n++] = 0; }
   return n;
}
static long gen_ms(vrng *r, int nb, unsigned char *o)
{
   static const int maxcnt[6] = {6, 6, 6, 6, 3, 2};
   int dur = vbelow(r, 6), count = vchance(r, 60) ? 1 : vrange(r, 1, maxcnt[dur]), s;
   long n = 0;
   for (s = 0; s < nb; s++) {
      int d = dur, c = count;
      if (vchance(r, 4)) { d = vbelow(r, 6); c = vrange(r, 1, 3); }
      n += gen_sub(r, s != nb - 1, d, c, o + n);
   }
   return n;
}

/* ------------------------------------------------------------------ histories */
static const int RATES[5] = {8000, 12000, 16000, 24000, 48000};
static const int UNITS[6] = {1, 2, 4, 8, 16, 24};     /* frame durations in 2.5 ms units */
enum { K_VALID, K_CORRUPT, K_TRUNC, K_GARBAGE, K_LOSS, K_FEC, K_N };
static const char *KNAME[K_N] = {"valid", "corrupt", "truncated", "garbage", "loss", "fec"};
static long d_kind[K_N], d_ret_pos, d_ret_zero, d_ret_err[8], d_ctl[12], d_lbrr, d_pkts, d_hist, d_streamcalls, d_streamfail;
static const int CTLREQ[11] = {4009, 4029, 4045, 4039, 4047, 4031, 4028, 4034, 4046, 5122, 4002};

static long n_diff, n_checks, n_cases;
static char g_sig[600];
static void report_diff(const char *what, const char *exp, const char *obs)
{
   n_diff++;
   if (n_diff <= 8) printf("DIFF %s | %s | expected=%s | observed=%s\n", g_sig, what, exp, obs);
}
static void chk_int(const char *what, int s, long exp, long obs)
{
   n_checks++;
   if (exp != obs) { char a[40], b[40], w[200]; sprintf(a, "%ld", exp); sprintf(b, "%ld", obs); sprintf(w, "stream %d: %s", s, what); report_diff(w, a, b); }
}
static void pr_ret(int ret) { if (ret < 0) printf("%s", verr(ret)); else printf("%d", ret); }
static const char *outcome(int ret) { return ret > 0 ? "pos" : ret == 0 ? "zero" : verr(ret); }
static void count_ret(int ret) { if (ret > 0) d_ret_pos++; else if (ret == 0) d_ret_zero++; else d_ret_err[ret >= -7 ? -ret : 0]++; }

static void gen_signal(vrng *r, float *in, int ch, int n, int Fs, long pos, const float *freq, const float *amp)
{
   int i, c;
   for (c = 0; c < ch; c++) for (i = 0; i < n; i++) {
      double t = (double)(pos + i) / Fs;
      float env = 0.55f + 0.45f * (float)sin(2 * M_PI * 3.1 * t + c);
      float v = amp[c] * env * ((float)sin(2 * M_PI * freq[c] * t) + 0.4f * (float)sin(2 * M_PI * 2.01 * freq[c] * t + 1.0));
      v += amp[c] * 0.08f * ((float)(int)(vnext(r) & 0xFFFF) / 32768.f - 1.f);
      in[i * ch + c] = v;
   }
}

/* twins */
static OpusDecoder *g_twin[8];
static opus_res g_tbuf[MAXFS * 2];

static void twin_state_check(const char *when)
{
   int s; char w[120];
   for (s = 0; s < g_streams; s++) {
      opus_uint32 a = 0, b = 0; opus_int32 x = 0, y = 0;
      opus_decoder_ctl(stream_ptr(s), OPUS_GET_FINAL_RANGE(&a)); opus_decoder_ctl(g_twin[s], OPUS_GET_FINAL_RANGE(&b));
      sprintf(w, "final range of the stream inside the multistream decoder != stand-alone twin (%s)", when); chk_int(w, s, (long)b, (long)a);
      opus_decoder_ctl(stream_ptr(s), OPUS_GET_LAST_PACKET_DURATION(&x)); opus_decoder_ctl(g_twin[s], OPUS_GET_LAST_PACKET_DURATION(&y));
      sprintf(w, "OPUS_GET_LAST_PACKET_DURATION of the stream != stand-alone twin (%s)", when); chk_int(w, s, y, x);
      opus_decoder_ctl(stream_ptr(s), OPUS_GET_BANDWIDTH(&x)); opus_decoder_ctl(g_twin[s], OPUS_GET_BANDWIDTH(&y));
      sprintf(w, "OPUS_GET_BANDWIDTH of the stream != stand-alone twin (%s)", when); chk_int(w, s, y, x);
      opus_decoder_ctl(stream_ptr(s), OPUS_GET_GAIN(&x)); opus_decoder_ctl(g_twin[s], OPUS_GET_GAIN(&y));
      sprintf(w, "OPUS_GET_GAIN of the stream != stand-alone twin (%s)", when); chk_int(w, s, y, x);
      opus_decoder_ctl(stream_ptr(s), OPUS_GET_PHASE_INVERSION_DISABLED(&x)); opus_decoder_ctl(g_twin[s], OPUS_GET_PHASE_INVERSION_DISABLED(&y));
      sprintf(w, "OPUS_GET_PHASE_INVERSION_DISABLED of the stream != stand-alone twin (%s)", when); chk_int(w, s, y, x);
   }
}

static void do_ctl(vrng *r, int twin)
{
   int k = vbelow(r, 11), request = CTLREQ[k], nonnull = 1, ret, i;
   opus_int32 arg = 0, sval = 0; opus_uint32 uval = 0; OpusDecoder *dptr = NULL;
   long long value = 0;
   if (request == 4002 && vchance(r, 50)) request = 4010;
   d_ctl[k]++;
   g_nctl = 0; g_ctl_over = 0; g_rec_ctl = 1;
   if (k <= 5 || k == 9) nonnull = !vchance(r, 10);
   if (request == 4034) arg = vrange(r, -40000, 40000);
   else if (request == 4046) arg = vrange(r, 0, 2);
   else if (request == 5122) arg = vrange(r, -1, g_streams);
   else if (k == 10) arg = vrange(r, 0, 10);
   if (!twin) { printf("I layout msdec-ctl %d %d %d %d ", g_streams, request, k == 10 ? 0 : arg, nonnull); fflush(stdout); }
   if (k <= 4) ret = opus_multistream_decoder_ctl(g_ms, request, nonnull ? &sval : (opus_int32 *)NULL);
   else if (k == 5) ret = opus_multistream_decoder_ctl(g_ms, request, nonnull ? &uval : (opus_uint32 *)NULL);
   else if (k == 6) ret = opus_multistream_decoder_ctl(g_ms, request);
   else if (k == 9) ret = opus_multistream_decoder_ctl(g_ms, request, arg, nonnull ? &dptr : (OpusDecoder **)NULL);
   else ret = opus_multistream_decoder_ctl(g_ms, request, arg);
   g_rec_ctl = 0;
   if (k <= 4) value = sval; else if (k == 5) value = (long long)uval; else if (k == 9) value = dptr ? stream_index(dptr) : 0;
   if (!twin) {
      if (!g_nctl) printf("-");
      for (i = 0; i < g_nctl; i++) {
         CtlRec *c = &g_ctl[i];
         printf("%s%d:", i ? "," : "", c->ret);
         if (c->request == 4031) printf("%u", c->uval); else printf("%d", c->sval);
      }
      printf("\nO ret="); pr_ret(ret); printf(" value=%lld calls=", value);
      if (!g_nctl) printf("-");
      for (i = 0; i < g_nctl; i++) printf("%s%d:%d:%d", i ? "," : "", g_ctl[i].s, g_ctl[i].request, g_ctl[i].arg);
      if (g_ctl_over) printf(",OVERFLOW");
      printf("\n");
      return;
   }
   /* twin mode: mirror every per-stream ctl on the stand-alone twin, compare, then the multistream-level oracle */
   n_cases++;
   { char *bar = strstr(g_sig, " | then ctl"); if (bar) *bar = 0; sprintf(g_sig + strlen(g_sig), " | then ctl request=%d arg=%d nonnull=%d", request, arg, nonnull); }
   printf("C ctl req=%d streams=%d out=%s\n", request, g_streams, outcome(ret));
   for (i = 0; i < g_nctl; i++) {
      CtlRec *c = &g_ctl[i]; int r2; opus_int32 tv = 0; opus_uint32 tu = 0;
      if (c->s < 0 || c->s >= g_streams) { report_diff("ctl forwarded to something that is not a stream of this decoder", "a stream", "?"); continue; }
      switch (c->request) {
      case 4031: r2 = opus_decoder_ctl(g_twin[c->s], c->request, c->nonnull ? &tu : (opus_uint32 *)NULL); chk_int("OPUS_GET_FINAL_RANGE value seen through the multistream ctl != twin", c->s, (long)tu, (long)c->uval); break;
      case 4028: r2 = opus_decoder_ctl(g_twin[c->s], OPUS_RESET_STATE); break;
      case 4034: case 4046: r2 = opus_decoder_ctl(g_twin[c->s], c->request, c->arg); break;
      default: r2 = opus_decoder_ctl(g_twin[c->s], c->request, c->nonnull ? &tv : (opus_int32 *)NULL); chk_int("GET value seen through the multistream ctl != twin", c->s, tv, c->sval); break;
      }
      chk_int("per-stream ctl return value != twin", c->s, r2, c->ret);
   }
   if (k <= 4) {        /* GET = stream 0 only */
      n_checks++;
      if (g_nctl != 1 || g_ctl[0].s != 0) report_diff("an int32 GET must query exactly stream 0", "one call on stream 0", "other");
      else { chk_int("multistream GET return != stream 0's", 0, g_ctl[0].ret, ret); chk_int("multistream GET value != stream 0's", 0, g_ctl[0].sval, sval); }
   } else if (k == 5) {
      n_checks++;
      if (!nonnull) { if (ret != OPUS_BAD_ARG || g_nctl) report_diff("OPUS_GET_FINAL_RANGE(NULL)", "BAD_ARG, no stream touched", outcome(ret)); }
      else { opus_uint32 x = 0; int s; for (s = 0; s < g_streams; s++) { opus_uint32 t = 0; opus_decoder_ctl(g_twin[s], OPUS_GET_FINAL_RANGE(&t)); x ^= t; }
             chk_int("multistream final range != XOR of the stand-alone twins' final ranges", -1, (long)x, (long)uval); chk_int("multistream OPUS_GET_FINAL_RANGE return", -1, 0, ret); }
   } else if (k == 6 || k == 7 || k == 8) {   /* fan-out: streams 0..n-1 in order, stopping at the first failure */
      int okcalls = 0; n_checks++;
      for (i = 0; i < g_nctl; i++) { if (g_ctl[i].s != i || g_ctl[i].request != request || g_ctl[i].arg != arg) report_diff("ctl fan-out: call i must go to stream i with the caller's request and value", "s=i", "other"); if (g_ctl[i].ret == OPUS_OK) okcalls++; }
      if (g_nctl == 0 || ret != g_ctl[g_nctl - 1].ret || okcalls < g_nctl - 1 || (ret == OPUS_OK && g_nctl != g_streams))
         report_diff("ctl fan-out must reach every stream, or stop at the first failing stream and return its error", "all streams / first error", outcome(ret));
   } else if (k == 9) {
      n_checks++;
      if (arg < 0 || arg >= g_streams || !nonnull) { if (ret != OPUS_BAD_ARG || dptr) report_diff("OPUS_MULTISTREAM_GET_DECODER_STATE with a bad stream id / NULL", "BAD_ARG", outcome(ret)); }
      else if (ret != OPUS_OK || dptr != stream_ptr(arg)) report_diff("OPUS_MULTISTREAM_GET_DECODER_STATE does not return the decoder of the requested stream", "stream id", "other");
      if (g_nctl) report_diff("OPUS_MULTISTREAM_GET_DECODER_STATE touched a stream", "no per-stream ctl", "some");
   } else {
      n_checks++;
      if (ret != OPUS_UNIMPLEMENTED || g_nctl) report_diff("unknown request", "UNIMPLEMENTED, no stream touched", outcome(ret));
   }
   twin_state_check("after ctl");
}

static void run(uint64_t seed, long n, int twin)
{
   static unsigned char pkt[1275 * 6 * 5 + 4096], work[1275 * 6 * 5 + 4096];
   static float in[MAXFS * 10];
   vrng r; long h; r.s = seed;
   g_snap = twin;
   for (h = 0; h < n; h++) {
      unsigned char mapping[8], emap[10];
      int streams = vrange(&r, 1, 5), coupled = vchance(&r, 25) ? 0 : vrange(&r, 0, streams), channels = vrange(&r, 1, 8);
      int Fs = vchance(&r, 35) ? RATES[vbelow(&r, 5)] : 48000, encFs = vchance(&r, 80) ? Fs : RATES[vbelow(&r, 5)];
      int ech = streams + coupled, i, s, err = 0, ncalls = vrange(&r, 3, 10), call, durx = vbelow(&r, 6), pending = 0, prev_dur = 0, cur_dur = 0;
      long len = 0, pos = 0;
      float freq[10], amp[10];
      OpusMSEncoder *enc; OpusMSDecoder *dec;
      for (i = 0; i < channels; i++) mapping[i] = vchance(&r, 15) ? 255 : (unsigned char)vbelow(&r, ech);
      for (i = 0; i < ech; i++) { emap[i] = i; freq[i] = 90.f + (float)vbelow(&r, 900); amp[i] = vchance(&r, 15) ? 0.f : 0.05f + 0.01f * (float)vbelow(&r, 60); }
      { static const int apps[3] = {OPUS_APPLICATION_VOIP, OPUS_APPLICATION_AUDIO, OPUS_APPLICATION_RESTRICTED_LOWDELAY};
        int app = apps[vchance(&r, 50) ? 0 : vchance(&r, 70) ? 1 : 2];
        enc = opus_multistream_encoder_create(encFs, ech, streams, coupled, emap, app, &err);
        if (!enc) { printf("O ENCODER-CREATE-FAILED %s\n", verr(err)); exit(5); }
        opus_multistream_encoder_ctl(enc, OPUS_SET_BITRATE(vrange(&r, 6, 64) * 1000 * ech));
        opus_multistream_encoder_ctl(enc, OPUS_SET_COMPLEXITY(vrange(&r, 0, 3)));
        opus_multistream_encoder_ctl(enc, OPUS_SET_VBR(vbelow(&r, 2)));
        if (vchance(&r, 55)) { opus_multistream_encoder_ctl(enc, OPUS_SET_INBAND_FEC(vrange(&r, 1, 2))); opus_multistream_encoder_ctl(enc, OPUS_SET_PACKET_LOSS_PERC(vrange(&r, 5, 40))); }
        if (vchance(&r, 40)) opus_multistream_encoder_ctl(enc, OPUS_SET_SIGNAL(OPUS_SIGNAL_VOICE));
        if (app != OPUS_APPLICATION_RESTRICTED_LOWDELAY && vchance(&r, 30)) opus_multistream_encoder_ctl(enc, OPUS_SET_FORCE_MODE(vchance(&r, 70) ? MODE_SILK_ONLY : MODE_HYBRID));
        if (vchance(&r, 25)) opus_multistream_encoder_ctl(enc, OPUS_SET_MAX_BANDWIDTH(OPUS_BANDWIDTH_NARROWBAND + (int)vbelow(&r, 5))); }
      { unsigned char *m = vexact(mapping, channels);
        dec = opus_multistream_decoder_create(Fs, channels, streams, coupled, m, &err); free(m);
        if (!dec) { printf("O DECODER-CREATE-FAILED %s\n", verr(err)); exit(5); } }
      g_ms = dec; g_streams = streams; g_coupled = coupled; g_channels = channels;
      if (twin) for (s = 0; s < streams; s++) { g_twin[s] = opus_decoder_create(Fs, s < coupled ? 2 : 1, &err); if (!g_twin[s]) { printf("O TWIN-CREATE-FAILED\n"); exit(5); } }
      d_hist++;
      for (call = 0; call < ncalls; call++) {
         int kind, k = vbelow(&r, 100), frame_size, fec = 0, soft_clip = vbelow(&r, 2), ret, dursamp, data_null = 0;
         long clen; unsigned char *p; float *pcm; int afs;
         opus_uint32 pre_rng[8]; opus_int32 pre_dur[8];
         kind = k < 55 ? K_VALID : k < 67 ? K_CORRUPT : k < 75 ? K_TRUNC : k < 80 ? K_GARBAGE : k < 90 ? K_LOSS : K_FEC;
         d_kind[kind]++;
         if (!pending) {     /* next packet of the encoder */
            int efs;
            if (vchance(&r, 30)) durx = vbelow(&r, 6);
            efs = encFs / 400 * UNITS[durx];
            gen_signal(&r, in, ech, efs, encFs, pos, freq, amp); pos += efs;
            len = opus_multistream_encode_float(enc, in, efs, pkt, (opus_int32)(sizeof pkt - 4096));
            if (len <= 0) { printf("# msdec: encoder returned %s (history %ld), history cut short\n", verr((int)len), h); break; }
            prev_dur = cur_dur ? cur_dur : UNITS[durx]; cur_dur = UNITS[durx];
            d_pkts++; if (opus_packet_has_lbrr(pkt, (opus_int32)len) > 0) d_lbrr++;
         }
         pending = 0;
         memcpy(work, pkt, len); clen = len; dursamp = cur_dur * (Fs / 400);
         if (kind == K_CORRUPT) { int m = vrange(&r, 1, 3); while (m--) { long at = vchance(&r, 40) ? (long)vbelow(&r, clen < 8 ? (uint32_t)clen : 8) : (long)vbelow(&r, (uint32_t)clen);
                                     if (vchance(&r, 50)) work[at] ^= 1 << vbelow(&r, 8); else work[at] = (unsigned char)vnext(&r); } }
         else if (kind == K_TRUNC) clen = clen > 1 ? 1 + (long)vbelow(&r, (uint32_t)clen - 1) : 1;
         else if (kind == K_GARBAGE) { if (vchance(&r, 50)) { clen = vrange(&r, 1, 60); for (i = 0; i < clen; i++) work[i] = (unsigned char)vnext(&r); }
                                       else { clen = gen_ms(&r, vchance(&r, 90) ? streams : vrange(&r, 1, 6), work); if (vchance(&r, 15)) work[vbelow(&r, (uint32_t)clen)] ^= 1 << vbelow(&r, 8); dursamp = MAXFS; } }
         else if (kind == K_LOSS) { clen = vchance(&r, 4) ? -1 : 0; data_null = clen == 0 && vchance(&r, 50); }
         else if (kind == K_FEC) { fec = 1; pending = 1; }
         /* frame_size */
         k = vbelow(&r, 100);
         if (kind == K_LOSS || kind == K_FEC) {
            int u = k < 65 ? (kind == K_FEC ? prev_dur : cur_dur) : k < 75 ? cur_dur : vrange(&r, 1, 48);
            frame_size = u * (Fs / 400);
            if (k >= 75 && k < 80 && kind == K_FEC) frame_size = MAXFS;
            if (k >= 90 && k < 94) frame_size += vrange(&r, 1, Fs / 400 - 1);          /* not a multiple of 2.5 ms */
            else if (k >= 94 && k < 96) frame_size = vbelow(&r, 2) ? 0 : -1;
            else if (k >= 96 && k < 98) frame_size = (Fs / 25 * 3) + (Fs / 400) * vrange(&r, 1, 400);
         } else {
            if (k < 42) frame_size = dursamp; else if (k < 74) frame_size = MAXFS; else if (k < 80) frame_size = dursamp + vrange(&r, 1, 2000);
            else if (k < 89) frame_size = dursamp > 1 ? vrange(&r, 1, dursamp - 1) : 1; else if (k < 92) frame_size = vbelow(&r, 2) ? 0 : -1;
            else if (k < 96) frame_size = Fs / 25 * 3 + vrange(&r, 1, 100000); else frame_size = vrange(&r, 1, 6000);
         }
         afs = frame_size < 1 ? 1 : frame_size > MAXFS ? MAXFS : frame_size;
         pcm = (float *)malloc(sizeof(float) * channels * afs);
         for (i = 0; i < channels * afs; i++) pcm[i] = 77.f;
         p = vexact(work, clen > 0 ? clen : 0);
         g_base = data_null ? NULL : p; g_pcm = pcm; g_pcm_frames = afs;
         g_ndec = 0; g_dec_over = 0; g_ncopy = 0; g_copy_over = 0; g_cur_stream = -1; g_cur_buf = NULL;
         sprintf(g_sig, "twin seed=%llu history=%ld call=%d kind=%s ch=%d streams=%d coupled=%d Fs=%d len=%ld%s frame_size=%d fec=%d soft_clip=%d",
                 (unsigned long long)seed, h, call, KNAME[kind], channels, streams, coupled, Fs, clen, data_null ? "(NULL)" : "", frame_size, fec, soft_clip);
         if (!twin) {
            printf("I layout msdec-decode %d %d %d ", channels, streams, coupled); vhex(stdout, mapping, channels);
            printf(" %d %ld ", Fs, clen); vhex(stdout, work, clen > 0 ? clen : 0); printf(" %d %d %d ", frame_size, fec, soft_clip);
            fflush(stdout);
         } else for (s = 0; s < streams; s++) { pre_rng[s] = 0; pre_dur[s] = 0; opus_decoder_ctl(stream_ptr(s), OPUS_GET_FINAL_RANGE(&pre_rng[s])); opus_decoder_ctl(stream_ptr(s), OPUS_GET_LAST_PACKET_DURATION(&pre_dur[s])); }
         g_in_decode = 1;
         ret = opus_multistream_decode_native(dec, g_base, (opus_int32)clen, pcm, log_copy, frame_size, fec, soft_clip, NULL);
         g_in_decode = 0;
         count_ret(ret);
         d_streamcalls += g_ndec; for (i = 0; i < g_ndec; i++) if (g_dec[i].ret <= 0) d_streamfail++;
         if (!twin) {
            if (!g_ndec) printf("-");
            for (i = 0; i < g_ndec; i++) printf("%s%d:%d", i ? "," : "", g_dec[i].ret, g_dec[i].po);
            printf("\nO ret="); pr_ret(ret); printf(" calls=");
            if (!g_ndec) printf("-");
            for (i = 0; i < g_ndec; i++) { DecRec *d = &g_dec[i]; printf("%s%d:%ld:%d:%d:%d:%d:%d", i ? "," : "", d->s, d->off, d->len, d->fsz, d->fec, d->sd ? 1 : 0, d->sc ? 1 : 0); }
            if (g_dec_over) printf(",OVERFLOW");
            printf(" copies=");
            if (!g_ncopy) printf("-");
            for (i = 0; i < g_ncopy; i++) { CopyRec *c = &g_copy[i]; static const char *KN[7] = {"Z", "L", "R", "M", "BADSRC", "BADDST", "OOB"};
               printf("%s%d:%s", i ? "," : "", c->chan, KN[c->kind]); if (c->kind >= 1 && c->kind <= 3) printf("%d", c->s); printf(":%d", c->fs); }
            if (g_copy_over) printf(",OVERFLOW");
            printf("\n");
         } else {
            n_cases++;
            printf("C decode kind=%s streams=%d coupled=%d fec=%d out=%s calls=%d\n", KNAME[kind], streams, coupled, fec, outcome(ret), g_ndec);
            if (ret < 0 && g_ndec == 0) for (s = 0; s < streams; s++) {   /* rejected before any stream: nothing may have changed */
               opus_uint32 a = 0; opus_int32 x = 0;
               opus_decoder_ctl(stream_ptr(s), OPUS_GET_FINAL_RANGE(&a)); opus_decoder_ctl(stream_ptr(s), OPUS_GET_LAST_PACKET_DURATION(&x));
               chk_int("a rejected multistream packet changed the stream's final range", s, (long)pre_rng[s], (long)a);
               chk_int("a rejected multistream packet changed the stream's last packet duration", s, pre_dur[s], x);
            }
            if (g_ndec > 0 || ret >= 0) {
               /* the documented chain, driven by the twins alone: stream s gets the bytes that start where the twin of stream s-1
                  stopped, self-delimited iff s is not the last stream, frame_size = min(frame_size, Fs/25*3) then the previous
                  return value, the caller's decode_fec / soft_clip; the stand-alone twin sees ONLY the stream's own sub-packet */
               long posn = 0; int fs = frame_size < Fs / 25 * 3 ? frame_size : Fs / 25 * 3, plc = clen == 0, stopped = 0, ncall = 0;
               for (s = 0; s < streams && !stopped; s++) {
                  int sdx = s != streams - 1, chn = s < coupled ? 2 : 1, r2; long rest = clen - posn, sublen = 0; unsigned char *sub = NULL;
                  opus_int32 po2 = 0; opus_uint32 trng = 0; DecRec *d;
                  if (!plc && rest <= 0) { chk_int("packet exhausted before this stream: INTERNAL_ERROR expected", s, OPUS_INTERNAL_ERROR, ret); stopped = 1; break; }
                  if (s >= g_ndec) { char b[40]; sprintf(b, "%d calls", g_ndec); report_diff("a stream that the documented decode order reaches was not decoded", "one call per stream", b); break; }
                  d = &g_dec[s]; ncall++;
                  if (!plc) {
                     unsigned char toc; opus_int16 size[48]; opus_int32 pko = 0;
                     int cnt = opus_packet_parse_impl(p + posn, (opus_int32)rest, sdx, &toc, NULL, size, NULL, &pko, NULL, NULL);
                     sublen = (cnt > 0 && sdx && pko > 0 && pko <= rest) ? pko : rest;
                     sub = vexact(p + posn, sublen);
                  }
                  r2 = opus_decode_native(g_twin[s], sub, (opus_int32)sublen, g_tbuf, fs, fec, sdx, &po2, soft_clip, NULL, 0);
                  free(sub);
                  chk_int("the i-th per-stream decode call must be on stream i", s, s, d->s);
                  chk_int("data offset handed to the stream != end of the previous stream's sub-packet", s, plc ? (data_null ? 0 : 0) : posn, d->off);
                  chk_int("len handed to the stream != bytes remaining in the caller's packet", s, plc ? 0 : rest, d->len);
                  chk_int("frame_size handed to the stream != min(frame_size, Fs/25*3) / previous stream's return value", s, fs, d->fsz);
                  chk_int("decode_fec handed to the stream != the caller's", s, fec, d->fec);
                  chk_int("self_delimited handed to the stream != (stream is not the last)", s, sdx, d->sd);
                  chk_int("soft_clip handed to the stream != the caller's", s, soft_clip, d->sc);
                  chk_int("return value of the stream != stand-alone decoder on the stream's own sub-packet", s, r2, d->ret);
                  chk_int("packet_offset of the stream != stand-alone decoder on the stream's own sub-packet", s, po2, d->po);
                  opus_decoder_ctl(g_twin[s], OPUS_GET_FINAL_RANGE(&trng));
                  chk_int("final range of the stream != stand-alone decoder on the stream's own sub-packet", s, (long)trng, (long)d->rng);
                  n_checks++;
                  if (r2 > 0 && r2 == d->ret && r2 <= MAXFS && memcmp(g_tbuf, d->pcm, sizeof(opus_res) * r2 * chn)) {
                     int j; char a[40], b[40], w[160]; unsigned ua = 0, ub = 0;
                     for (j = 0; j < r2 * chn; j++) if (memcmp(&g_tbuf[j], &d->pcm[j], sizeof(opus_res))) break;
                     memcpy(&ua, &g_tbuf[j], sizeof ua < sizeof(opus_res) ? sizeof ua : sizeof(opus_res)); memcpy(&ub, &d->pcm[j], sizeof ub < sizeof(opus_res) ? sizeof ub : sizeof(opus_res));
                     sprintf(a, "%08x", ua); sprintf(b, "%08x", ub); sprintf(w, "stream %d: decoded sample %d differs from the stand-alone decoder fed the stream's own sub-packet", s, j);
                     report_diff(w, a, b);
                  }
                  if (r2 <= 0) { chk_int("the first failing stream's return value must be returned", s, r2, ret); stopped = 1; break; }
                  fs = r2; if (!plc) posn += po2;
               }
               chk_int("number of per-stream decode calls", -1, ncall, g_ndec);
               if (!stopped && s == streams) chk_int("multistream return value != the last stream's return value", -1, fs, ret);
            }
            if (kind == K_VALID && frame_size >= dursamp) chk_int("a packet of the multistream encoder decoded with room for its duration must return the duration", -1, dursamp, ret);
            if (ret > 0) {   /* routing of the real PCM: every output channel = the mapped stream's samples, zeros for 255, untouched beyond ret */
               int c, j; n_checks++;
               for (c = 0; c < channels; c++) { int m = mapping[c]; int st2 = m < 2 * coupled ? m / 2 : m - coupled, stride = m < 2 * coupled ? 2 : 1, o = m < 2 * coupled ? m % 2 : 0;
                  for (j = 0; j < ret && j < afs; j++) { float want = m == 255 ? 0.f : (float)g_dec[st2].pcm[j * stride + o], got = pcm[j * channels + c];
                     if (st2 < g_ndec && memcmp(&want, &got, sizeof want)) { char w[120]; sprintf(w, "output channel %d (mapping %d) sample %d is not the sample of its stream", c, m, j); report_diff(w, "stream sample", "other"); c = channels; break; } } }
               for (j = ret * channels; j < afs * channels; j++) if (pcm[j] != 77.f) { report_diff("samples beyond the returned count were written", "untouched", "written"); break; }
            }
            twin_state_check("after decode");
         }
         free(p); free(pcm);
         if (vchance(&r, 25)) do_ctl(&r, twin);
      }
      if (twin) for (s = 0; s < streams; s++) opus_decoder_destroy(g_twin[s]);
      opus_multistream_encoder_destroy(enc);
      opus_multistream_decoder_destroy(dec);
      g_ms = NULL;
   }
   {
      int i;
      printf("# msdec %s: histories=%ld packets=%ld (with LBRR in stream 0: %ld) decode calls:", twin ? "twin" : "rand", d_hist, d_pkts, d_lbrr);
      for (i = 0; i < K_N; i++) printf(" %s=%ld", KNAME[i], d_kind[i]);
      printf("; returns: >0=%ld 0=%ld", d_ret_pos, d_ret_zero);
      for (i = 1; i <= 7; i++) if (d_ret_err[i]) printf(" %s=%ld", verr(-i), d_ret_err[i]);
      if (d_ret_err[0]) printf(" other=%ld", d_ret_err[0]);
      printf("; per-stream decode calls=%ld (failing: %ld); ctl:", d_streamcalls, d_streamfail);
      for (i = 0; i < 11; i++) printf(" %d=%ld", i == 10 ? 4002 : CTLREQ[i], d_ctl[i]);
      printf("\n");
   }
   if (twin) printf("SEARCH cases=%ld checks=%ld diffs=%ld\n", n_cases, n_checks, n_diff);
}

int main(int argc, char **argv)
{
   vinstall_traps();
   if (argc >= 4 && !strcmp(argv[1], "rand")) run(strtoull(argv[2], 0, 10), atol(argv[3]), 0);
   else if (argc >= 4 && !strcmp(argv[1], "twin")) run(strtoull(argv[2], 0, 10), atol(argv[3]), 1);
   else { fprintf(stderr, "usage: c10_msdec rand|twin <seed> <n>\n"); return 2; }
   return 0;
}
