/* c15_vadnrg.c — correspondence harness for the sub-frame energy loop of silk_VAD_GetSA_Q8_c (silk/VAD.c:163-183) and
   silk_VAD_GetSA_Q8_sse4_1 (silk/x86/VAD_sse4_1.c:141-171) (property C15, extension round).

   The loop is inline in the two functions.  This TU #includes both files from /repo's working tree with two hooks:
     * `silk_ADD_POS_SAT32`, the macro that consumes every `sumSquared`, is redefined to a recorder that also reads
       the locals in scope at that point (`X`, `X_offset[b]`, `dec_subframe_offset`, `dec_subframe_length`): so every
       executed energy loop yields (the int16 samples it ran over, the value it produced) from the compiled code itself;
       the original saturating add is then performed unchanged;
     * `silk_ana_filt_bank_1` is redirected to a wrapper that either calls the real filter bank or, in `inject` mode,
       fills the band signals with chosen int16 data (all -32768, alternating extremes, random) so that the loop sees
       values the filter bank rarely produces.  Both variants see identical band signals.
   The k-th record of the C run is paired with the k-th record of the SSE4.1 run:
       I kernels vadnrg c,sse4_1 <samples>      O c=<sumSquared> sse4_1=<sumSquared>
   (`X-MISMATCH` is printed instead if the two runs did not see the same samples).  Compiled with -msse4.1; not all of
   libopus' VAD objects are linked (this TU defines their symbols).

      run <seed> <n>       n calls of each function: frame lengths 80/160/240/320 and 10 ms variants, random / loud /
                           silent / injected band signals, VAD state carried over between calls */
#include "vcommon.h"
#include "main.h"
#include "stack_alloc.h"

/* file-scope stand-ins for the locals the recorder reads: inside silk_VAD_GetSA_Q8_* they are shadowed by the real
   locals; in silk_VAD_GetNoiseLevels (which also uses silk_ADD_POS_SAT32) these are seen and `s == -1` says "not an
   energy loop" */
static opus_int16 *X = NULL;
static opus_int X_offset[4] = {0, 0, 0, 0};
static opus_int b = 0, s = -1, dec_subframe_length = 0, dec_subframe_offset = 0;

#define MAXREC 64
typedef struct { int n; opus_int16 x[160]; opus_int32 sum; } rec_t;
static rec_t g_rec[2][MAXREC]; static int g_nrec[2], g_which = 0;

static opus_int32 verif_addpos(opus_int32 a, opus_int32 v, const opus_int16 *px, int n, int sub, int last)
{
   if (sub >= 0 && px != NULL && g_nrec[g_which] < MAXREC && n <= 160) {
      rec_t *r = &g_rec[g_which][g_nrec[g_which]++];
      r->n = n; memcpy(r->x, px, n * sizeof(opus_int16));
      r->sum = last;          /* filled by the caller-side expression below */
   }
   return ((((opus_uint32)(a) + (opus_uint32)(v)) & 0x80000000) ? silk_int32_MAX : ((a) + (v)));
}
#undef silk_ADD_POS_SAT32
/* `sumSquared` is a local of both functions; in silk_VAD_GetNoiseLevels the second operand is recorded but ignored (s == -1) */
#define silk_ADD_POS_SAT32(a, v) verif_addpos((a), (v), (s >= 0 ? &X[X_offset[b] + dec_subframe_offset] : NULL), dec_subframe_length, s, VERIF_SUMSQ)
#define VERIF_SUMSQ sumSquared
static opus_int32 sumSquared = 0;

static int g_inject = 0; static vrng g_inj;
static void verif_afb(const opus_int16 *in, opus_int32 *S, opus_int16 *outL, opus_int16 *outH, const opus_int32 N)
{
   silk_ana_filt_bank_1(in, S, outL, outH, N);
   if (g_inject) {
      int i, N2 = N >> 1, st = g_inject;
      for (i = 0; i < N2; i++) {
         int v = st == 1 ? -32768 : st == 2 ? ((i & 1) ? 32767 : -32768) : st == 3 ? vrange(&g_inj, -32768, 32767) : (vchance(&g_inj, 50) ? vrange(&g_inj, -8, 8) : vrange(&g_inj, -32768, 32767));
         outH[i] = (opus_int16)v;
         outL[i] = (opus_int16)(st == 1 ? -32768 : st == 2 ? ((i & 1) ? -32768 : 32767) : vrange(&g_inj, -32768, 32767));
      }
   }
}
#define silk_ana_filt_bank_1 verif_afb
#include "silk/VAD.c"
#define tiltWeights tiltWeights_sse4_1      /* both files define this static table */
#include "silk/x86/VAD_sse4_1.c"
#undef tiltWeights
#undef silk_ana_filt_bank_1

static long g_cases = 0, g_calls = 0;

static void run(uint64_t seed, long n)
{
   vrng r; long k; static silk_encoder_state ec, es;
   r.s = seed ^ 0x7AD15ULL; r.s = vnext(&r) + 79;
   memset(&ec, 0, sizeof ec);
   silk_VAD_Init(&ec.sVAD);
   for (k = 0; k < n; k++) {
      static opus_int16 in[MAX_FRAME_LENGTH + 8];
      int fs = 8 + 4 * (int)vbelow(&r, 3), len = (vchance(&r, 80) ? 20 : 10) * fs, i, j, style = vbelow(&r, 7);
      uint64_t injseed = vnext(&r);
      int ret_c, ret_s;
      /* frame_length must be a multiple of 8 (VAD.c:106) */
      len = len / 8 * 8;
      for (i = 0; i < len; i++) {
         int v = style == 0 ? vrange(&r, -32768, 32767) : style == 1 ? ((i / 3 & 1) ? 32767 : -32768) : style == 2 ? 0
               : style == 3 ? vrange(&r, -300, 300) : (int)(25000.0 * sin(0.013 * i * (1 + (int)(k % 5))));
         in[i] = (opus_int16)v;
      }
      g_inject = style >= 5 ? 1 + (int)vbelow(&r, 4) : 0;
      ec.fs_kHz = fs; ec.frame_length = len;
      es = ec;                                   /* same state for both variants */
      g_which = 0; g_nrec[0] = 0; g_inj.s = injseed; ret_c = silk_VAD_GetSA_Q8_c(&ec, in);
      g_which = 1; g_nrec[1] = 0; g_inj.s = injseed; ret_s = silk_VAD_GetSA_Q8_sse4_1(&es, in);
      g_calls++;
      for (i = 0; i < g_nrec[0] || i < g_nrec[1]; i++) {
         const rec_t *a = &g_rec[0][i], *c = &g_rec[1][i];
         int same = i < g_nrec[0] && i < g_nrec[1] && a->n == c->n && !memcmp(a->x, c->x, a->n * sizeof(opus_int16));
         printf("I kernels vadnrg c,sse4_1 ");
         if (i >= g_nrec[0] || !a->n) printf("-"); else for (j = 0; j < a->n; j++) printf("%s%d", j ? "," : "", (int)a->x[j]);
         printf("\n");
         if (!same) printf("O X-MISMATCH records c=%d sse4_1=%d\n", g_nrec[0], g_nrec[1]);
         else printf("O c=%d sse4_1=%d\n", (int)a->sum, (int)c->sum);
         g_cases++;
      }
      (void)ret_c; (void)ret_s;
      /* carry the C variant's state on (the whole-function comparison is done by c15_codec) */
   }
   printf("# vadnrg calls=%ld energy-loops=%ld\n", g_calls, g_cases);
}

int main(int argc, char **argv)
{
   vinstall_traps();
   if (argc >= 4 && !strcmp(argv[1], "run")) run(strtoull(argv[2], 0, 10), atol(argv[3]));
   else { fprintf(stderr, "usage: c15_vadnrg run <seed> <n>\n"); return 64; }
   fflush(stdout);
   return 0;
}
