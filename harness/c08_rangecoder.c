/* c08_rangecoder.c — correspondence harness and witness search for the range coder (C08).
   Line protocol: see the header comment of lean/Driver/SuiteRangeCoder.lean.
   Modes:  rand <seed> <n>     n generated op sequences: I/O lines for `opusmodel check` + `# ` statistics
           one <subseed>       regenerate and run the single sequence carrying that sub-seed
           tf <level>          exhaustive ec_tell/ec_tell_frac table (l=24..32, every r, low in {0,1})
           ilog [seed]         EC_ILOG on boundaries and random values
           search <seed> <n>   S4: the property predicates P1..P4 on the implementation alone -> `W` lines
           prop                `rangecoder seq ...` lines from stdin -> `P OK` / `P FAIL <details>`
           stdin               `rangecoder seq|tf|ilog ...` lines from stdin -> I and O lines (replay)   */
#ifdef HAVE_CONFIG_H
#include "config.h"
#endif
#include "vcommon.h"
#include <stdarg.h>
#include "entenc.h"
#include "entdec.h"
#include "entcode.h"
#include "mfrngcod.h"

#define GUARD 16
#define MAXT 64
#define MAXOPS_GEN 4000

typedef struct { char k; uint32_t a, b, c; } op_t;
typedef struct { int n; unsigned *v; unsigned char *u8; opus_uint16 *u16; } tbl_t;
typedef struct { long size; unsigned fill; int ntbl; tbl_t tbl[MAXT]; int nops, cap; op_t *ops; } seq_t;

/* ------------------------------------------------------------------ string builder */
typedef struct { char *p; size_t n, cap; } sb_t;
static void sb_addf(sb_t *s, const char *fmt, ...)
{
   va_list ap; int k;
   if (s->n + 640 > s->cap) { s->cap = (s->n + 640) * 2; s->p = (char *)realloc(s->p, s->cap); }
   va_start(ap, fmt); k = vsnprintf(s->p + s->n, s->cap - s->n, fmt, ap); va_end(ap);
   if (k > 0) s->n += (size_t)k;
}
static void sb_reset(sb_t *s) { s->n = 0; if (s->p) s->p[0] = 0; }

/* ------------------------------------------------------------------ sequences */
static void seq_init(seq_t *q) { memset(q, 0, sizeof *q); }
static void seq_clear(seq_t *q)
{
   int i;
   for (i = 0; i < q->ntbl; i++) { free(q->tbl[i].v); free(q->tbl[i].u8); free(q->tbl[i].u16); }
   free(q->ops); seq_init(q);
}
static void seq_push(seq_t *q, const op_t *o)
{
   if (q->nops == q->cap) { q->cap = q->cap ? q->cap * 2 : 64; q->ops = (op_t *)realloc(q->ops, q->cap * sizeof(op_t)); }
   q->ops[q->nops++] = *o;
}
/* exact-size copies of a table in both element types (ASan sees a decoder running past the terminator) */
static void tbl_finish(tbl_t *t)
{
   int i, fits8 = 1, fits16 = 1;
   for (i = 0; i < t->n; i++) { if (t->v[i] > 255) fits8 = 0; if (t->v[i] > 65535) fits16 = 0; }
   t->u8 = NULL; t->u16 = NULL;
   if (fits8 && t->n > 0) { t->u8 = (unsigned char *)malloc(t->n); for (i = 0; i < t->n; i++) t->u8[i] = (unsigned char)t->v[i]; }
   if (fits16 && t->n > 0) { t->u16 = (opus_uint16 *)malloc(t->n * sizeof(opus_uint16)); for (i = 0; i < t->n; i++) t->u16[i] = (opus_uint16)t->v[i]; }
}
static void op_str(sb_t *s, const op_t *o)
{
   switch (o->k) {
   case 'e': case 'b': case 'i': case 'j': sb_addf(s, "%c:%u:%u:%u", o->k, o->a, o->b, o->c); break;
   case 's': sb_addf(s, "s:%u", o->a); break;
   default: sb_addf(s, "%c:%u:%u", o->k, o->a, o->b); break;
   }
}
static void fmt_input(const seq_t *q, sb_t *s)
{
   int i, j;
   sb_addf(s, "rangecoder seq %ld %u ", q->size, q->fill);
   if (q->ntbl == 0) sb_addf(s, "-");
   for (i = 0; i < q->ntbl; i++) {
      if (i) sb_addf(s, "/");
      for (j = 0; j < q->tbl[i].n; j++) sb_addf(s, "%s%u", j ? "," : "", q->tbl[i].v[j]);
   }
   sb_addf(s, " ");
   if (q->nops == 0) sb_addf(s, "-");
   for (i = 0; i < q->nops; i++) { if (i) sb_addf(s, ";"); op_str(s, &q->ops[i]); }
}

static int parse_u32(const char **pp, uint32_t *out)
{
   const char *p = *pp; unsigned long long v = 0; int nd = 0;
   while (*p >= '0' && *p <= '9') { v = v * 10 + (unsigned)(*p - '0'); if (v > 0xFFFFFFFFULL) return 0; p++; nd++; }
   if (!nd) return 0;
   *out = (uint32_t)v; *pp = p; return 1;
}
/* parse "rangecoder seq <size> <fill> <tables> <ops>"; returns 1 on success */
static int parse_seq(const char *p, seq_t *q)
{
   uint32_t v;
   seq_init(q);
   if (strncmp(p, "rangecoder seq ", 15)) return 0;
   p += 15;
   if (!parse_u32(&p, &v) || *p != ' ') return 0; q->size = (long)v; p++;
   if (!parse_u32(&p, &v) || *p != ' ') return 0; q->fill = v; p++;
   if (*p == '-') p++;
   else for (;;) {
      tbl_t *t; int cap = 0;
      if (q->ntbl >= MAXT) return 0;
      t = &q->tbl[q->ntbl++]; t->n = 0; t->v = NULL; t->u8 = NULL; t->u16 = NULL;
      for (;;) {
         if (!parse_u32(&p, &v)) return 0;
         if (t->n == cap) { cap = cap ? cap * 2 : 32; t->v = (unsigned *)realloc(t->v, cap * sizeof(unsigned)); }
         t->v[t->n++] = v;
         if (*p == ',') { p++; continue; }
         break;
      }
      tbl_finish(t);
      if (*p == '/') { p++; continue; }
      break;
   }
   if (*p != ' ') return 0; p++;
   if (*p == '-') p++;
   else for (;;) {
      op_t o; int na;
      o.k = *p++; o.a = o.b = o.c = 0;
      na = (o.k == 'e' || o.k == 'b' || o.k == 'i' || o.k == 'j') ? 3 : (o.k == 's' ? 1 : ((o.k == 'l' || o.k == 'u' || o.k == 'r' || o.k == 'p') ? 2 : 0));
      if (!na) return 0;
      if (*p++ != ':' || !parse_u32(&p, &o.a)) return 0;
      if (na >= 2 && (*p++ != ':' || !parse_u32(&p, &o.b))) return 0;
      if (na >= 3 && (*p++ != ':' || !parse_u32(&p, &o.c))) return 0;
      seq_push(q, &o);
      if (*p == ';') { p++; continue; }
      break;
   }
   while (*p == '\n' || *p == '\r' || *p == ' ') p++;
   return *p == 0;
}

static int ilog32(uint32_t v) { return v ? 32 - __builtin_clz(v) : 0; }

/* inverse-CDF table usable with ftb bits: non-empty, strictly decreasing, last 0, first < 2^ftb */
static int icdf_ok(const tbl_t *t, unsigned ftb)
{
   int i;
   if (t->n < 1 || t->v[t->n - 1] != 0) return 0;
   for (i = 1; i < t->n; i++) if (t->v[i] >= t->v[i - 1]) return 0;
   return ftb <= 16 && t->v[0] < (1U << ftb);
}
static void enc_apply(ec_enc *e, const seq_t *q, const op_t *o)
{
   switch (o->k) {
   case 'e': ec_encode(e, o->a, o->b, o->c); break;
   case 'b': ec_encode_bin(e, o->a, o->b, o->c); break;
   case 'l': ec_enc_bit_logp(e, o->a != 0, o->b); break;
   case 'i': ec_enc_icdf(e, (int)o->a, q->tbl[o->b].u8, o->c); break;
   case 'j': ec_enc_icdf16(e, (int)o->a, q->tbl[o->b].u16, o->c); break;
   case 'u': ec_enc_uint(e, o->a, o->b); break;
   case 'r': ec_enc_bits(e, o->a, o->b); break;
   case 'p': ec_enc_patch_initial_bits(e, o->a, o->b); break;
   case 's': ec_enc_shrink(e, o->a); break;
   }
}
/* legal parameters only (celt_assert would abort; illegal tables would read out of bounds) */
static const char *op_illegal(const seq_t *q, const op_t *o)
{
   switch (o->k) {
   case 'e': return (o->a < o->b && o->b <= o->c && o->c >= 1 && o->c <= 65536) ? NULL : "e: need 0<=fl<fh<=ft, 1<=ft<=65536";
   case 'b': return (o->c >= 1 && o->c <= 16 && o->a < o->b && o->b <= (1U << o->c)) ? NULL : "b: need 1<=bits<=16, fl<fh<=2^bits";
   case 'l': return (o->b >= 1 && o->b <= 15) ? NULL : "l: need 1<=logp<=15";
   case 'i': return (o->b < (uint32_t)q->ntbl && o->c <= 8 && q->tbl[o->b].u8 && icdf_ok(&q->tbl[o->b], o->c) && o->a < (uint32_t)q->tbl[o->b].n) ? NULL : "i: bad table/symbol/ftb";
   case 'j': return (o->b < (uint32_t)q->ntbl && o->c <= 16 && q->tbl[o->b].u16 && icdf_ok(&q->tbl[o->b], o->c) && o->a < (uint32_t)q->tbl[o->b].n) ? NULL : "j: bad table/symbol/ftb";
   case 'u': return (o->b >= 2 && o->a < o->b) ? NULL : "u: need 2<=ft, v<ft";
   case 'r': return (o->b >= 1 && o->b <= 25 && o->a < (1U << o->b)) ? NULL : "r: need 1<=n<=25, v<2^n";
   case 'p': return (o->b <= 8 && o->a < (1U << o->b)) ? NULL : "p: need n<=8, v<2^n";
   case 's': return NULL;   /* checked dynamically */
   }
   return "unknown op";
}
static const char *seq_illegal(const seq_t *q)
{
   int i, has_s = 0;
   if (q->size < 0 || q->size > (1 << 20)) return "size out of range";
   if (q->fill > 0x7fffffff) return "fill out of range";
   for (i = 0; i < q->nops; i++) {
      const char *w = op_illegal(q, &q->ops[i]);
      if (w) return w;
      if (q->ops[i].k == 's') has_s = 1;
   }
   if (has_s) {   /* dry run: offs+end_offs <= newsize <= storage at the time of the call */
      unsigned char *b = (unsigned char *)calloc(q->size + 1, 1);
      ec_enc e; const char *w = NULL;
      memset(&e, 0, sizeof e); ec_enc_init(&e, b, (opus_uint32)q->size);
      for (i = 0; i < q->nops && !w; i++) {
         if (q->ops[i].k == 's' && !(e.offs + e.end_offs <= q->ops[i].a && q->ops[i].a <= e.storage)) w = "s: need offs+end_offs<=size<=storage";
         else enc_apply(&e, q, &q->ops[i]);
      }
      free(b);
      return w;
   }
   return NULL;
}

/* ------------------------------------------------------------------ running the real coder */
typedef struct { uint32_t rng, val, offs, end_offs, end_window; int nend_bits, nbits_total, rem; uint32_t ext; int error, tell; uint32_t tf; } st_t;
static void snap(ec_ctx *c, st_t *s)
{
   s->rng = c->rng; s->val = c->val; s->offs = c->offs; s->end_offs = c->end_offs; s->end_window = c->end_window;
   s->nend_bits = c->nend_bits; s->nbits_total = c->nbits_total; s->rem = c->rem; s->ext = c->ext; s->error = c->error;
   s->tell = ec_tell(c); s->tf = ec_tell_frac(c);
}
static void print_st(const st_t *s)
{
   printf("%u,%u,%u,%u,%u,%d,%d,%d,%u,%d,%d,%u", s->rng, s->val, s->offs, s->end_offs, s->end_window,
          s->nend_bits, s->nbits_total, s->rem, s->ext, s->error, s->tell, s->tf);
}
/* patch kind of a sequence: 0 no patch op; 1 patch-style (op 0 = b:fl:fl+1:n, every p op = p:v:n); 2 other */
typedef struct { int kind; uint32_t n, v; } patch_t;
static void patch_kind(const seq_t *q, patch_t *ps)
{
   int i, any = 0, style;
   ps->kind = 0; ps->n = 0; ps->v = 0;
   style = q->nops > 0 && q->ops[0].k == 'b' && q->ops[0].b == q->ops[0].a + 1 && q->ops[0].c <= 8;
   for (i = 0; i < q->nops; i++) if (q->ops[i].k == 'p') {
      any = 1;
      if (style && q->ops[i].b == q->ops[0].c) ps->v = q->ops[i].a; else style = 0;
   }
   if (any) { ps->kind = style ? 1 : 2; ps->n = style ? q->ops[0].c : 0; }
}

typedef struct {
   st_t *E, D, *X; uint32_t *XV;
   unsigned char *B; long nB; uint32_t S;
   int guard_before_bad, patch_err, dec_wrote;
   int patch_pending_op; uint32_t patch_pending_ext;   /* first p op applied while the first byte was a carry-pending 0xFF */
   int tell_bd, err_bd; uint32_t storage_bd;
   int p3_op; long p3_idx; int p3_before, p3_after;
   uint32_t max_ext; int carry_flush;
} run_t;
static void run_free(run_t *R) { free(R->E); free(R->X); free(R->XV); free(R->B); memset(R, 0, sizeof *R); }

static unsigned char guard_pat(int i) { return (unsigned char)(0xC3 ^ (i * 29)); }

/* bytes the coder may not touch: leading guard, and everything from the current storage on */
static void p3_check(run_t *R, int opidx, const unsigned char *shadow, const unsigned char *phys, long total, uint32_t storage)
{
   long i;
   if (R->p3_op >= 0) return;
   for (i = 0; i < total; i++) {
      if (i >= GUARD && i < GUARD + (long)storage) { i = GUARD + (long)storage - 1; continue; }
      if (shadow[i] != phys[i]) { R->p3_op = opidx; R->p3_idx = i - GUARD; R->p3_before = shadow[i]; R->p3_after = phys[i]; return; }
   }
}

/* Encode the sequence into a fresh guarded buffer, finish, decode the first S bytes from an exact-size block.
   ps != NULL && ps->kind == 1: the decoder's ec_dec_update of op 0 uses the last patched value. */
static void exec_seq(const seq_t *q, run_t *R, const patch_t *ps, int track)
{
   long size = q->size, total = size + 2 * GUARD, i;
   unsigned char *phys = (unsigned char *)malloc(total), *buf = phys + GUARD, *shadow = NULL, *dbuf;
   ec_enc enc; ec_dec dec; int k;
   memset(R, 0, sizeof *R); R->p3_op = -1; R->patch_pending_op = -1;
   R->E = (st_t *)malloc((q->nops + 1) * sizeof(st_t));
   R->X = (st_t *)malloc((q->nops + 1) * sizeof(st_t));
   R->XV = (uint32_t *)malloc((q->nops + 1) * sizeof(uint32_t));
   for (i = 0; i < GUARD; i++) phys[i] = guard_pat((int)i);
   for (i = 0; i < size + GUARD; i++) buf[i] = (unsigned char)((q->fill + 37UL * (unsigned long)i) & 255);
   if (track) shadow = (unsigned char *)malloc(total);
   memset(&enc, 0, sizeof enc);
   ec_enc_init(&enc, buf, (opus_uint32)size);
   snap(&enc, &R->E[0]);
   for (k = 0; k < q->nops; k++) {
      int err0 = enc.error; uint32_t ext0 = enc.ext, offs0 = enc.offs;
      if (track) memcpy(shadow, phys, total);
      if (q->ops[k].k == 'p' && R->patch_pending_op < 0 && enc.offs == 0 && enc.rem < 0 && enc.ext > 0) { R->patch_pending_op = k; R->patch_pending_ext = enc.ext; }
      enc_apply(&enc, q, &q->ops[k]);
      snap(&enc, &R->E[k + 1]);
      if (q->ops[k].k == 'p' && !err0 && enc.error) R->patch_err = 1;
      if (enc.ext > R->max_ext) R->max_ext = enc.ext;
      if (ext0 > 0 && enc.ext < ext0 && !enc.error && enc.offs >= offs0 + 2 && buf[offs0 + 1] == 0) R->carry_flush++;
      if (track) p3_check(R, k, shadow, phys, total, enc.storage);
   }
   R->tell_bd = ec_tell(&enc); R->storage_bd = enc.storage; R->err_bd = enc.error;
   if (track) memcpy(shadow, phys, total);
   ec_enc_done(&enc);
   snap(&enc, &R->D);
   if (track) p3_check(R, q->nops, shadow, phys, total, enc.storage);
   for (i = 0; i < GUARD; i++) if (phys[i] != guard_pat((int)i)) R->guard_before_bad = 1;
   R->nB = size + GUARD; R->B = vexact(buf, R->nB); R->S = enc.storage;
   /* decoder on an exact-size copy of the first S bytes */
   dbuf = vexact(buf, (long)R->S);
   memset(&dec, 0, sizeof dec);   /* ec_dec_init leaves `ext` unset; the model has ext = 0 */
   ec_dec_init(&dec, dbuf, R->S);
   snap(&dec, &R->X[0]);
   for (k = 0; k < q->nops; k++) {
      const op_t *o = &q->ops[k]; uint32_t v = 0;
      switch (o->k) {
      case 'e': v = ec_decode(&dec, o->c); ec_dec_update(&dec, o->a, o->b, o->c); break;
      case 'b': v = ec_decode_bin(&dec, o->c);
                if (k == 0 && ps && ps->kind == 1) ec_dec_update(&dec, ps->v, ps->v + 1, 1U << o->c);
                else ec_dec_update(&dec, o->a, o->b, 1U << o->c);
                break;
      case 'l': v = (uint32_t)ec_dec_bit_logp(&dec, o->b); break;
      case 'i': v = (uint32_t)ec_dec_icdf(&dec, q->tbl[o->b].u8, o->c); break;
      case 'j': v = (uint32_t)ec_dec_icdf16(&dec, q->tbl[o->b].u16, o->c); break;
      case 'u': v = ec_dec_uint(&dec, o->b); break;
      case 'r': v = ec_dec_bits(&dec, o->b); break;
      default: v = 0; break;   /* p, s: encoder only */
      }
      R->XV[k] = v; snap(&dec, &R->X[k + 1]);
   }
   if (R->S > 0 && memcmp(dbuf, buf, R->S)) R->dec_wrote = 1;
   free(dbuf); free(shadow); free(phys);
}

static void print_answer(const seq_t *q, const run_t *R)
{
   int k;
   if (R->guard_before_bad) { printf("O GUARD-BEFORE-CORRUPTED\n"); return; }
   printf("O %s E ", R->D.error == 0 ? "ok" : "err");
   for (k = 0; k <= q->nops; k++) { if (k) putchar('|'); print_st(&R->E[k]); }
   printf(" D "); print_st(&R->D);
   printf(" B "); vhex(stdout, R->B, R->nB);
   printf(" S %u X ", R->S);
   print_st(&R->X[0]);
   for (k = 0; k < q->nops; k++) { printf("|%u@", R->XV[k]); print_st(&R->X[k + 1]); }
   printf("\n");
}

/* ------------------------------------------------------------------ property predicates on the implementation */
static int chk_states(const st_t *s, int n, const char *side, sb_t *out)
{
   int k;
   for (k = 0; k <= n; k++) {
      long long t8 = 8LL * s[k].tell, tf = (long long)s[k].tf;
      if (!(t8 - 7 <= tf && tf <= t8)) { sb_addf(out, "[P2 %s tell bounds after op#%d: expected 8*tell-7<=tell_frac<=8*tell, observed tell=%d tell_frac=%u] ", side, k - 1, s[k].tell, s[k].tf); return 1; }
      if (!(s[k].rng > 8388608U && s[k].rng <= 2147483648U)) { sb_addf(out, "[P2 %s range after op#%d: expected 2^23<rng<=2^31, observed rng=%u] ", side, k - 1, s[k].rng); return 1; }
      if (k > 0 && (s[k].tf < s[k - 1].tf || s[k].tell < s[k - 1].tell)) { sb_addf(out, "[P2 %s monotonic at op#%d: expected tell,tell_frac >= %d,%u observed %d,%u] ", side, k - 1, s[k - 1].tell, s[k - 1].tf, s[k].tell, s[k].tf); return 1; }
   }
   return 0;
}
/* returns the number of violated predicates; details appended to out */
static int check_props(const seq_t *q, const run_t *R, const patch_t *ps, sb_t *out, sb_t *note)
{
   int bad = 0, k;
   int ok = R->D.error == 0;
   /* P1 round trip */
   if (ok && ps->kind != 2) {
      for (k = 0; k < q->nops; k++) {
         const op_t *o = &q->ops[k]; uint32_t v = R->XV[k]; int good = 1; sb_t e = {0, 0, 0};
         switch (o->k) {
         case 'e': good = o->a <= v && v < o->b; sb_addf(&e, "%u<=fs<%u", o->a, o->b); break;
         case 'b': if (k == 0 && ps->kind == 1) { good = v == ps->v; sb_addf(&e, "patched %u", ps->v); }
                   else { good = o->a <= v && v < o->b; sb_addf(&e, "%u<=fs<%u", o->a, o->b); } break;
         case 'l': good = v == (uint32_t)(o->a != 0); sb_addf(&e, "%u", (unsigned)(o->a != 0)); break;
         case 'i': case 'j': case 'u': case 'r': good = v == o->a; sb_addf(&e, "%u", o->a); break;
         default: break;
         }
         if (!good) {
            sb_addf(out, "[P1 roundtrip op#%d ", k); op_str(out, o); sb_addf(out, ": expected %s observed %u] ", e.p, v);
            free(e.p); bad++; break;
         }
         free(e.p);
      }
      if (R->X[q->nops].error != 0) { sb_addf(out, "[P1 decoder error: expected 0 observed %d] ", R->X[q->nops].error); bad++; }
   }
   /* P2 bit accounting */
   bad += chk_states(R->E, q->nops, "enc", out);
   bad += chk_states(R->X, q->nops, "dec", out);
   if (ok && ps->kind != 2) {
      for (k = 0; k <= q->nops; k++) if (R->E[k].rng != R->X[k].rng || R->E[k].tell != R->X[k].tell || R->E[k].tf != R->X[k].tf) {
         sb_addf(out, "[P2 enc/dec agree after op#%d: expected rng,tell,tell_frac=%u,%d,%u observed (decoder) %u,%d,%u] ", k - 1,
                 R->E[k].rng, R->E[k].tell, R->E[k].tf, R->X[k].rng, R->X[k].tell, R->X[k].tf);
         bad++; break;
      }
   }
   /* P3 bytes outside the buffer */
   if (R->p3_op >= 0) {
      sb_addf(out, "[P3 outside write by %s#%d at buffer index %ld: expected x%02x observed x%02x] ",
              R->p3_op == q->nops ? "done" : "op", R->p3_op, R->p3_idx, R->p3_before, R->p3_after);
      bad++;
   } else if (R->guard_before_bad) { sb_addf(out, "[P3 leading guard bytes modified] "); bad++; }
   if (R->dec_wrote) { sb_addf(out, "[P3 decoder modified its input buffer] "); bad++; }
   /* P4 finishing within budget cannot fail */
   if (!R->patch_err && (long long)R->tell_bd <= 8LL * R->storage_bd && R->D.error != 0) {
      sb_addf(out, "[P4 done within budget: tell=%d <= 8*storage=%u (error before done %d): expected error 0 observed %d] ",
              R->tell_bd, 8 * R->storage_bd, R->err_bd, R->D.error);
      bad++;
   }
   if (bad && R->patch_pending_op >= 0)
      sb_addf(note, "{note: patch op#%d ran with offs=0 rem=-1 ext=%u, i.e. while the first byte was a buffered carry-pending 0xFF; ec_enc_patch_initial_bits then patches val (a later byte) instead of that byte}", R->patch_pending_op, R->patch_pending_ext);
   return bad;
}

/* ------------------------------------------------------------------ generator */
enum { PR_MIX, PR_RAW, PR_SYM, PR_UINT, PR_CARRY, PR_LOGP, PR_PATCH, PR_CHEAP, NPROF };
static const char *PROF_NAME[NPROF] = {"mix", "raw", "sym", "uint", "carry", "logp", "patch", "cheap"};
static const char KINDS[] = "eblijurps";
static const int WEIGHT[NPROF][9] = {
   /*            e   b   l   i   j   u   r   p  s */
   /* mix   */ {18, 12, 14, 12,  8, 14, 18,  1, 3},
   /* raw   */ { 4,  3,  4,  2,  2,  4, 80,  0, 1},
   /* sym   */ {30, 20,  3, 25, 20,  1,  1,  0, 0},
   /* uint  */ { 5,  2,  5,  2,  1, 80,  5,  0, 0},
   /* carry */ {18, 12, 14, 12,  8, 14, 18,  1, 3},
   /* logp  */ {18, 12, 14, 12,  8, 14, 18,  1, 3},
   /* patch */ {18, 12, 14, 12,  8, 14, 19,  0, 3},
   /* cheap */ {18, 12, 14, 12,  8, 14, 18,  1, 3},
};
enum { MODE_FIT, MODE_NEAR, MODE_FREE, MODE_OVER };
typedef struct {
   vrng r; seq_t *q; ec_enc enc; unsigned char *phys; long total;
   int profile, mode, patch_n, n8; int t8[MAXT];
} gen_t;

static uint32_t rnd_bits(vrng *r, int nb) { return nb >= 32 ? (uint32_t)vnext(r) : (uint32_t)(vnext(r) & ((1ULL << nb) - 1)); }
static int pick_size(vrng *r)
{
   static const int sp[] = {1, 2, 3, 4, 5, 8, 16, 1274, 1275};
   int p = vbelow(r, 100);
   if (p < 30) return sp[vbelow(r, 9)];
   if (p < 62) return vrange(r, 1, 40);
   if (p < 85) return vrange(r, 41, 300);
   return vrange(r, 301, 1275);
}
static int pick_len(vrng *r)
{
   int p = vbelow(r, 100);
   if (p < 60) return vrange(r, 1, 40);
   if (p < 90) return vrange(r, 40, 400);
   return vrange(r, 400, MAXOPS_GEN);
}
static void gen_table(vrng *r, tbl_t *t, int wide)
{
   int style = vbelow(r, 10), n, i, j;
   unsigned maxv;
   if (style == 0) {                      /* {x,0} */
      n = 2; t->v = (unsigned *)malloc(n * sizeof(unsigned));
      t->v[0] = 1 + vbelow(r, wide ? 65535 : 255); t->v[1] = 0;
   } else if (style == 1) {               /* uniform */
      static const int ns[] = {2, 3, 4, 8, 16};
      unsigned top = wide ? 65536 : 256, step;
      n = ns[vbelow(r, 5)]; step = top / (unsigned)n;
      t->v = (unsigned *)malloc(n * sizeof(unsigned));
      for (i = 0; i < n; i++) t->v[i] = top - step * (unsigned)(i + 1);
      t->v[n - 1] = 0;
   } else {                               /* n-1 distinct values in 1..maxv, descending, then 0 */
      n = vrange(r, 2, 20);
      if (wide) maxv = vchance(r, 50) ? 65535 : (unsigned)vrange(r, 300, 65535);
      else maxv = vchance(r, 60) ? 255 : (unsigned)vrange(r, n - 1, 255);
      t->v = (unsigned *)malloc(n * sizeof(unsigned));
      if (maxv <= 512) {
         unsigned pool[512];
         for (i = 0; i < (int)maxv; i++) pool[i] = (unsigned)i + 1;
         for (i = 0; i < n - 1; i++) { j = i + (int)vbelow(r, maxv - (unsigned)i); { unsigned x = pool[i]; pool[i] = pool[j]; pool[j] = x; } t->v[i] = pool[i]; }
      } else {
         for (i = 0; i < n - 1; ) {
            unsigned x = 1 + vbelow(r, maxv); int dup = 0;
            for (j = 0; j < i; j++) if (t->v[j] == x) dup = 1;
            if (!dup) t->v[i++] = x;
         }
      }
      for (i = 1; i < n - 1; i++) { unsigned x = t->v[i]; for (j = i; j > 0 && t->v[j - 1] < x; j--) t->v[j] = t->v[j - 1]; t->v[j] = x; }
      t->v[n - 1] = 0;
   }
   t->n = n; tbl_finish(t);
}
static uint32_t pick_ft(vrng *r)   /* 1..65536 */
{
   static const uint32_t B[] = {1, 2, 255, 256, 257, 65535, 65536};
   if (vchance(r, 40)) return B[vbelow(r, 7)];
   return rnd_bits(r, vrange(r, 1, 16)) + 1;
}
static void pick_range(vrng *r, uint32_t ft, uint32_t *fl, uint32_t *fh)
{
   uint32_t a, b;
   if (ft == 1) { *fl = 0; *fh = 1; return; }
   switch (vbelow(r, 9)) {
   case 0: *fl = 0; *fh = 1 + vbelow(r, ft); break;
   case 1: *fl = vbelow(r, ft); *fh = ft; break;
   case 2: *fl = vbelow(r, ft); *fh = *fl + 1; break;
   case 3: *fl = 0; *fh = ft; break;
   case 4: *fl = ft - 1; *fh = ft; break;
   case 5: *fl = 0; *fh = 1; break;
   default: a = vbelow(r, ft); b = vbelow(r, ft); if (a > b) { uint32_t x = a; a = b; b = x; } *fl = a; *fh = b + 1; break;
   }
}
static void gen_icdf(gen_t *g, op_t *o, int sixteen, int which /*-1 random, 0 first symbol, 1 last symbol*/)
{
   vrng *r = &g->r; int t, lo, n;
   if (!sixteen) t = g->t8[vbelow(r, (uint32_t)g->n8)]; else t = (int)vbelow(r, (uint32_t)g->q->ntbl);
   n = g->q->tbl[t].n; lo = ilog32(g->q->tbl[t].v[0]);
   o->k = sixteen ? 'j' : 'i'; o->b = (uint32_t)t;
   if (!sixteen) o->c = vchance(r, 50) ? 8 : (uint32_t)vrange(r, lo, 8);
   else { int p = vbelow(r, 10); o->c = p < 4 ? 16 : (p < 6 ? (uint32_t)lo : (uint32_t)vrange(r, lo, 16)); }
   if (which < 0) { int p = vbelow(r, 4); which = p == 0 ? 0 : (p == 1 ? 1 : -1); }
   o->a = which == 0 ? 0 : (which == 1 ? (uint32_t)(n - 1) : vbelow(r, (uint32_t)n));
}
static void gen_kind(gen_t *g, op_t *o, char k)
{
   vrng *r = &g->r;
   o->k = k; o->a = o->b = o->c = 0;
   switch (k) {
   case 'e': o->c = pick_ft(r); pick_range(r, o->c, &o->a, &o->b); break;
   case 'b': { static const int bb[] = {1, 8, 16}; o->c = vchance(r, 40) ? (uint32_t)bb[vbelow(r, 3)] : (uint32_t)vrange(r, 1, 16); pick_range(r, 1U << o->c, &o->a, &o->b); break; }
   case 'l': o->b = vchance(r, 40) ? (vchance(r, 50) ? 1 : 15) : (uint32_t)vrange(r, 1, 15); o->a = vbelow(r, 2); break;
   case 'i': gen_icdf(g, o, 0, -1); break;
   case 'j': gen_icdf(g, o, 1, -1); break;
   case 'u': {
      static const uint32_t F[] = {2, 3, 255, 256, 257, 511, 512, 513, 65535, 65536, 65537, 1U << 24, 1U << 31, 4294967295U, 4294967294U, (1U << 31) + 1};
      if (vchance(r, 40)) o->b = F[vbelow(r, sizeof F / sizeof F[0])];
      else { uint32_t v = rnd_bits(r, vrange(r, 2, 32)); o->b = v < 2 ? 2 : v; }
      { int p = vbelow(r, 10); o->a = p < 2 ? 0 : (p < 4 ? o->b - 1 : (uint32_t)(vnext(r) % o->b)); }
      break; }
   case 'r': { static const int nn[] = {1, 8, 24, 25}; int p;
      o->b = vchance(r, 40) ? (uint32_t)nn[vbelow(r, 4)] : (uint32_t)vrange(r, 1, 25);
      p = vbelow(r, 10); o->a = p < 2 ? 0 : (p < 4 ? (1U << o->b) - 1 : rnd_bits(r, (int)o->b));
      break; }
   case 'p': o->b = g->profile == PR_PATCH ? (uint32_t)g->patch_n : (uint32_t)vrange(r, 0, 8); o->a = rnd_bits(r, (int)o->b); break;
   case 's': {
      uint32_t lo = g->enc.offs + g->enc.end_offs, hi = g->enc.storage, need; int p = vbelow(r, 10);
      if (lo > hi) lo = hi;   /* cannot happen: offs+end_offs <= storage is an encoder invariant */
      need = (uint32_t)((ec_tell(&g->enc) + 7) / 8); if (need < lo) need = lo; if (need > hi) need = hi;
      o->a = p < 2 ? hi : (p < 4 ? lo : (p < 7 ? need : lo + vbelow(r, hi - lo + 1)));
      break; }
   }
}
static void gen_mix(gen_t *g, op_t *o, int prof)
{
   int p = vbelow(&g->r, 100), i;
   for (i = 0; i < 9; i++) { if (p < WEIGHT[prof][i]) break; p -= WEIGHT[prof][i]; }
   gen_kind(g, o, KINDS[i > 8 ? 0 : i]);
}
static void gen_op(gen_t *g, op_t *o, int k, int cheap)
{
   vrng *r = &g->r;
   if (g->profile == PR_PATCH) {
      if (k == 0) { o->k = 'b'; o->c = (uint32_t)g->patch_n; o->a = rnd_bits(r, g->patch_n); o->b = o->a + 1; return; }
      if (vchance(r, 4)) { gen_kind(g, o, 'p'); return; }
   }
   if (cheap || (g->profile == PR_CHEAP && vchance(r, 85))) {
      o->a = o->b = o->c = 0;
      switch (vbelow(r, 6)) {
      case 0: o->k = 'e'; o->c = pick_ft(r); o->a = 0; o->b = o->c; break;                               /* probability 1 */
      case 1: o->k = 'e'; o->c = pick_ft(r); if (o->c < 2) o->c = 2; o->a = 0; o->b = o->c - 1; break;
      case 2: o->k = 'l'; o->a = 0; o->b = (uint32_t)vrange(r, 6, 15); break;
      case 3: o->k = 'b'; o->c = (uint32_t)vrange(r, 2, 16); o->a = 0; o->b = (1U << o->c) - 1; break;
      case 4: gen_icdf(g, o, vbelow(r, 2), 0); break;
      default: o->k = 'e'; o->c = pick_ft(r); if (o->c < 3) o->c = 3; o->a = 1; o->b = o->c; break;
      }
      return;
   }
   if (g->profile == PR_CARRY && vchance(r, 85)) {
      o->a = o->b = o->c = 0;
      switch (vbelow(r, 9)) {
      case 0: case 1: o->k = 'e'; o->a = 65535; o->b = 65536; o->c = 65536; break;
      case 2: o->k = 'e'; o->c = pick_ft(r); o->a = o->c - 1; o->b = o->c; break;
      case 3: o->k = 'l'; o->a = 1; o->b = vchance(r, 60) ? 15 : (uint32_t)vrange(r, 1, 15); break;
      case 4: o->k = 'b'; o->c = (uint32_t)vrange(r, 1, 16); o->a = (1U << o->c) - 1; o->b = 1U << o->c; break;
      case 5: gen_icdf(g, o, vbelow(r, 2), 1); break;
      case 6: o->k = 'u'; o->b = (uint32_t)vrange(r, 2, 256); o->a = o->b - 1; break;
      case 7: o->k = 'e'; o->c = pick_ft(r); if (o->c < 4) o->c = 4; o->a = o->c - 1 - vbelow(r, 3); o->b = o->c; break;
      default: o->k = 'e'; o->c = 65536; o->a = 65536 - 1 - vbelow(r, 300); o->b = o->a + 1; break;
      }
      return;
   }
   if (g->profile == PR_LOGP && vchance(r, 85)) {
      int p = vbelow(r, 10);
      o->k = 'l'; o->c = 0;
      o->b = p < 6 ? 15 : (p < 8 ? 1 : (uint32_t)vrange(r, 1, 15));
      o->a = o->b >= 12 ? (uint32_t)vchance(r, 6) : vbelow(r, 2);
      return;
   }
   gen_mix(g, o, g->profile);
}

typedef struct { int profile, mode, target; } geninfo_t;

/* one sequence from its own sub-seed; the real encoder is dry-run while generating (legal shrink sizes,
   length relative to the buffer) */
static void gen_seq(uint64_t sub, seq_t *q, geninfo_t *gi)
{
   gen_t g; vrng *r = &g.r; int i, k, target, p;
   unsigned char *save; ec_enc saved;
   memset(&g, 0, sizeof g);
   r->s = sub; g.q = q; seq_init(q);
   q->size = pick_size(r); q->fill = vbelow(r, 256);
   q->ntbl = vrange(r, 1, 6);
   for (i = 0; i < q->ntbl; i++) { gen_table(r, &q->tbl[i], i == 0 ? 0 : vchance(r, 40)); if (q->tbl[i].u8) g.t8[g.n8++] = i; }
   p = vbelow(r, 100);
   g.profile = p < 30 ? PR_MIX : p < 40 ? PR_RAW : p < 52 ? PR_SYM : p < 60 ? PR_UINT : p < 72 ? PR_CARRY : p < 78 ? PR_LOGP : p < 88 ? PR_PATCH : PR_CHEAP;
   p = vbelow(r, 100);
   g.mode = p < 35 ? MODE_FIT : p < 50 ? MODE_NEAR : p < 85 ? MODE_FREE : MODE_OVER;
   g.patch_n = vrange(r, 1, 8);
   target = pick_len(r);
   if (g.mode != MODE_FREE && q->size >= 300 && vchance(r, 50)) target = vrange(r, 400, MAXOPS_GEN);   /* reach the budget of big buffers */
   g.total = q->size + 2 * GUARD; g.phys = (unsigned char *)calloc(g.total, 1); save = (unsigned char *)malloc(g.total);
   memset(&g.enc, 0, sizeof g.enc); ec_enc_init(&g.enc, g.phys + GUARD, (opus_uint32)q->size);
   for (k = 0; k < target; k++) {
      op_t o; int tries, ok = 0;
      for (tries = 0; tries < 4 && !ok; tries++) {
         gen_op(&g, &o, k, tries >= 2 && !(g.profile == PR_PATCH && k == 0));
         if (g.mode == MODE_FREE) { enc_apply(&g.enc, q, &o); ok = 1; break; }
         saved = g.enc; memcpy(save, g.phys, g.total);
         enc_apply(&g.enc, q, &o);
         if (!g.enc.error && (long long)ec_tell(&g.enc) <= 8LL * g.enc.storage) ok = 1;
         else { g.enc = saved; memcpy(g.phys, save, g.total); }
      }
      if (!ok) break;
      seq_push(q, &o);
   }
   if (g.mode == MODE_NEAR || g.mode == MODE_OVER || q->nops == 0) {
      int extra = q->nops == 0 ? 1 : (g.mode == MODE_OVER ? vrange(r, 4, 40) : vrange(r, 1, 3));
      while (extra-- > 0 && q->nops < MAXOPS_GEN) { op_t o; gen_op(&g, &o, q->nops, 0); enc_apply(&g.enc, q, &o); seq_push(q, &o); }
   }
   if (g.profile == PR_PATCH && q->nops < MAXOPS_GEN) {   /* patch-style sequences patch at least once, typically last */
      int any = 0; for (i = 0; i < q->nops; i++) if (q->ops[i].k == 'p') any = 1;
      if (!any || vchance(r, 30)) { op_t o; gen_kind(&g, &o, 'p'); enc_apply(&g.enc, q, &o); seq_push(q, &o); }
   }
   if (gi) { gi->profile = g.profile; gi->mode = g.mode; gi->target = target; }
   free(g.phys); free(save);
}

/* ------------------------------------------------------------------ statistics */
typedef struct {
   long cases, ok, err, ops, longest, kinds[9], szc[12], prof[NPROF], profok[NPROF], mode[4], modeok[4];
   long carry_flush, guard_bad; uint32_t max_ext; unsigned char classes[NPROF][6][2][3];
} stats_t;
static int size_class12(long s) { return s <= 5 ? (int)s - 1 : s <= 8 ? 5 : s <= 16 ? 6 : s <= 64 ? 7 : s <= 300 ? 8 : s <= 1273 ? 9 : s == 1274 ? 10 : 11; }
static const char *SZ12[12] = {"1", "2", "3", "4", "5", "6-8", "9-16", "17-64", "65-300", "301-1273", "1274", "1275"};
static void stats_add(stats_t *st, const seq_t *q, const run_t *R, const geninfo_t *gi)
{
   int k, ok = R->D.error == 0, sc = size_class12(q->size);
   st->cases++; st->ops += q->nops; if (q->nops > st->longest) st->longest = q->nops;
   if (ok) st->ok++; else st->err++;
   for (k = 0; k < q->nops; k++) { const char *w = strchr(KINDS, q->ops[k].k); if (w) st->kinds[w - KINDS]++; }
   st->szc[sc < 0 ? 0 : sc]++;
   if (gi) {
      int s6 = q->size <= 2 ? 0 : q->size <= 8 ? 1 : q->size <= 40 ? 2 : q->size <= 300 ? 3 : q->size <= 1273 ? 4 : 5;
      int l3 = q->nops <= 40 ? 0 : q->nops <= 400 ? 1 : 2;
      st->prof[gi->profile]++; st->mode[gi->mode]++;
      if (ok) { st->profok[gi->profile]++; st->modeok[gi->mode]++; }
      st->classes[gi->profile][s6][ok][l3] = 1;
   }
   if (R->max_ext > st->max_ext) st->max_ext = R->max_ext;
   st->carry_flush += R->carry_flush;
}
static long stats_classes(const stats_t *st)
{
   long n = 0; int a, b, c, d;
   for (a = 0; a < NPROF; a++) for (b = 0; b < 6; b++) for (c = 0; c < 2; c++) for (d = 0; d < 3; d++) n += st->classes[a][b][c][d];
   return n;
}
static void stats_kinds(const stats_t *st, FILE *f)
{
   int i; for (i = 0; i < 9; i++) fprintf(f, "%s%c:%ld", i ? "," : "", KINDS[i], st->kinds[i]);
}
static void stats_print(const stats_t *st)
{
   int i;
   printf("# seq cases=%ld ok=%ld err=%ld ops=%ld avg_len=%.1f longest=%ld max_ext=%u carry_flushes=%ld classes=%ld\n",
          st->cases, st->ok, st->err, st->ops, st->cases ? (double)st->ops / st->cases : 0.0, st->longest, st->max_ext, st->carry_flush, stats_classes(st));
   printf("# op kinds "); stats_kinds(st, stdout); printf("\n");
   printf("# buffer sizes");
   for (i = 0; i < 12; i++) printf(" %s:%ld", SZ12[i], st->szc[i]);
   printf("\n# profiles (cases/ok)");
   for (i = 0; i < NPROF; i++) printf(" %s:%ld/%ld", PROF_NAME[i], st->prof[i], st->profok[i]);
   printf("\n# length modes (cases/ok) fit:%ld/%ld near:%ld/%ld free:%ld/%ld over:%ld/%ld\n", st->mode[0], st->modeok[0], st->mode[1], st->modeok[1], st->mode[2], st->modeok[2], st->mode[3], st->modeok[3]);
}

/* ------------------------------------------------------------------ traps in search / prop mode
   (tie modes keep vcommon's "O SANITIZER" / "O ABORT" answers) */
static sb_t g_cur = {0, 0, 0};
static int g_trapmode = 0;   /* 1 search: W line with the input in flight; 2 prop: P FAIL */
static void c08_trap(const char *what)
{
   if (g_trapmode == 1) { fputs("\nW ", stdout); fputs(g_cur.p ? g_cur.p : "?", stdout); fputs(" :: TRAP ", stdout); fputs(what, stdout); fputs(" while running this legal op sequence\n", stdout); }
   else { fputs("\nP FAIL [TRAP ", stdout); fputs(what, stdout); fputs(" while running this legal op sequence] \n", stdout); }
   fflush(stdout);
}
#if defined(__SANITIZE_ADDRESS__)
static void c08_death(void) { c08_trap("sanitizer report"); }
#endif
static void c08_abort(int sig) { (void)sig; c08_trap("abort (hardening assertion)"); _exit(3); }
static void c08_segv(int sig) { (void)sig; c08_trap("SIGSEGV"); _exit(4); }
static void c08_install(int mode)
{
   g_trapmode = mode;
#if defined(__SANITIZE_ADDRESS__)
   __sanitizer_set_death_callback(c08_death);
   (void)c08_segv;
#else
   signal(SIGSEGV, c08_segv);
#endif
   signal(SIGABRT, c08_abort);
}

/* ------------------------------------------------------------------ modes */
static void tie_one(const seq_t *q, stats_t *st, const geninfo_t *gi)
{
   sb_t in = {0, 0, 0}; run_t R;
   fmt_input(q, &in);
   printf("I %s\n", in.p); fflush(stdout);
   exec_seq(q, &R, NULL, 0);
   print_answer(q, &R);
   if (st) { stats_add(st, q, &R, gi); st->guard_bad += R.guard_before_bad; }
   run_free(&R); free(in.p);
}
static void run_rand(uint64_t seed, long n)
{
   vrng m; long c; static stats_t st;
   m.s = seed;
   for (c = 0; c < n; c++) {
      uint64_t sub = vnext(&m); seq_t q; geninfo_t gi;
      gen_seq(sub, &q, &gi);
      tie_one(&q, &st, &gi);
      seq_clear(&q);
   }
   stats_print(&st);
}
static void run_one(uint64_t sub)
{
   seq_t q; geninfo_t gi;
   gen_seq(sub, &q, &gi);
   tie_one(&q, NULL, NULL);
   printf("# profile=%s mode=%d target=%d ops=%d\n", PROF_NAME[gi.profile], gi.mode, gi.target, q.nops);
   seq_clear(&q);
}

static int tf_legal(long l, long rlo, long n, long low, long nbits)
{
   return l >= 16 && l <= 32 && rlo >= 32768 && n >= 1 && rlo + n - 1 <= 65535 && (low == 0 || low == 1) && nbits >= 0 && nbits < (1L << 28);
}
static void do_tf(int l, unsigned rlo, int n, int low, int nbits)
{
   int i;
   printf("I rangecoder tf %d %u %d %d %d\n", l, rlo, n, low, nbits); fflush(stdout);
   printf("O ");
   for (i = 0; i < n; i++) {
      ec_ctx c; uint64_t rng = ((uint64_t)(rlo + (unsigned)i) << (l - 16)) + (low ? ((uint64_t)1 << (l - 16)) - 1 : 0);
      memset(&c, 0, sizeof c); c.rng = (opus_uint32)rng; c.nbits_total = nbits;
      printf("%s%d:%u", i ? "," : "", ec_tell(&c), ec_tell_frac(&c));
   }
   printf("\n");
}
static void run_tf(int level)
{
   static const int nb0[] = {33, 1000, 20000};
   static const int nb1[] = {33, 34, 35, 40, 41, 48, 49, 56, 57, 64, 65, 100, 127, 128, 255, 256, 1000, 1023, 1024, 4096, 10233, 20000, 32767, 65536, 1000000};
   const int *nb = level ? nb1 : nb0; int nnb = level ? 25 : 3, l, low, j, chunk = level ? 2048 : 256; unsigned rlo; long lines = 0;
   for (l = 24; l <= 32; l++) for (rlo = 32768; rlo < 65536; rlo += chunk) for (low = 0; low < 2; low++) for (j = 0; j < nnb; j++) { do_tf(l, rlo, chunk, low, nb[j]); lines++; }
   printf("# tell_frac table: l=24..32, every r in 32768..65535, low in {0,1}, %d nbits_total values: %ld lines x %d values = %ld (rng, nbits_total) points\n", nnb, lines, chunk, lines * chunk);
}
static void do_ilog(const uint32_t *v, int n)
{
   int i;
   printf("I rangecoder ilog "); for (i = 0; i < n; i++) printf("%s%u", i ? "," : "", v[i]); printf("\n"); fflush(stdout);
   printf("O "); for (i = 0; i < n; i++) printf("%s%d", i ? "," : "", EC_ILOG(v[i])); printf("\n");
}
static void run_ilog(uint64_t seed)
{
   uint32_t v[128]; int n = 0, k, j; vrng r; r.s = seed;
   v[n++] = 1; v[n++] = 4294967295U;
   for (k = 1; k <= 31; k++) { v[n++] = (1U << k) - 1; v[n++] = 1U << k; v[n++] = (1U << k) + 1; }
   do_ilog(v, n);
   for (j = 0; j < 40; j++) {
      n = 0;
      for (k = 0; k < 64; k++) { uint32_t x = rnd_bits(&r, vrange(&r, 1, 32)); v[n++] = x ? x : 1; }
      do_ilog(v, n);
   }
   printf("# ilog: 95 boundary values (1, 2^32-1, 2^k-1, 2^k, 2^k+1 for k=1..31) and 2560 random values\n");
}

static void run_search(uint64_t seed, long n)
{
   vrng m; long c, okrt = 0, nw = 0; static stats_t st; sb_t det = {0, 0, 0}, note = {0, 0, 0};
   m.s = seed; c08_install(1);
   for (c = 0; c < n; c++) {
      uint64_t sub = vnext(&m); seq_t q; geninfo_t gi; run_t R; patch_t ps; int bad;
      gen_seq(sub, &q, &gi);
      patch_kind(&q, &ps);
      sb_reset(&g_cur); fmt_input(&q, &g_cur);
      exec_seq(&q, &R, &ps, 1);
      sb_reset(&det); sb_reset(&note);
      bad = check_props(&q, &R, &ps, &det, &note);
      if (bad) {
         char *p = det.p, *e;
         /* one W line per violated predicate */
         while (p && (e = strstr(p, "] "))) { if (nw < 200) printf("W %s :: %.*s %s\n", g_cur.p, (int)(e - p - 1), p + 1, note.n ? note.p : ""); nw++; p = e + 2; }
         fflush(stdout);
      } else if (R.D.error == 0 && ps.kind != 2) okrt++;
      stats_add(&st, &q, &R, &gi);
      run_free(&R); seq_clear(&q);
   }
   stats_print(&st);
   printf("# search cases=%ld ok_roundtrips=%ld errors=%ld ops=%ld distinct=%ld witnesses=%ld kinds=", st.cases, okrt, st.err, st.ops, stats_classes(&st), nw);
   stats_kinds(&st, stdout); printf("\n");
   free(det.p); free(note.p);
}

static char line[1 << 22];
static void run_prop(void)
{
   sb_t det = {0, 0, 0}, note = {0, 0, 0};
   c08_install(2);
   while (fgets(line, sizeof line, stdin)) {
      const char *p = line; seq_t q; const char *w; run_t R; patch_t ps; int bad;
      if (!strncmp(p, "I ", 2)) p += 2;
      if (strncmp(p, "rangecoder seq ", 15)) continue;
      if (!parse_seq(p, &q)) { printf("P SKIP unparsable\n"); seq_clear(&q); continue; }
      if ((w = seq_illegal(&q))) { printf("P SKIP illegal input (%s)\n", w); seq_clear(&q); continue; }
      patch_kind(&q, &ps);
      fflush(stdout);
      exec_seq(&q, &R, &ps, 1);
      sb_reset(&det); sb_reset(&note);
      bad = check_props(&q, &R, &ps, &det, &note);
      if (bad) printf("P FAIL %s%s\n", det.p, note.n ? note.p : ""); else printf("P OK %s patchkind=%d ops=%d\n", R.D.error == 0 ? "ok" : "err", ps.kind, q.nops);
      fflush(stdout);
      run_free(&R); seq_clear(&q);
   }
   free(det.p); free(note.p);
}
static void run_stdin(void)
{
   while (fgets(line, sizeof line, stdin)) {
      const char *p = line; char op[16];
      if (!strncmp(p, "I ", 2)) p += 2;
      if (sscanf(p, "rangecoder %15s", op) != 1) continue;
      if (!strcmp(op, "seq")) {
         seq_t q; const char *w;
         if (!parse_seq(p, &q)) { printf("# skipped unparsable seq line\n"); seq_clear(&q); continue; }
         if ((w = seq_illegal(&q))) { printf("# skipped illegal seq line (%s)\n", w); seq_clear(&q); continue; }
         tie_one(&q, NULL, NULL); seq_clear(&q);
      } else if (!strcmp(op, "tf")) {
         long l, rlo, n, low, nbits;
         if (sscanf(p, "rangecoder tf %ld %ld %ld %ld %ld", &l, &rlo, &n, &low, &nbits) != 5 || !tf_legal(l, rlo, n, low, nbits)) { printf("# skipped illegal tf line\n"); continue; }
         do_tf((int)l, (unsigned)rlo, (int)n, (int)low, (int)nbits);
      } else if (!strcmp(op, "ilog")) {
         static uint32_t v[4096]; int n = 0, okl = 1; const char *s = strstr(p, "ilog ");
         if (!s) continue;
         s += 5;
         while (n < 4096) { if (!parse_u32(&s, &v[n]) || v[n] == 0) { okl = 0; break; } n++; if (*s == ',') { s++; continue; } break; }
         if (!okl || n == 0) { printf("# skipped illegal ilog line\n"); continue; }
         do_ilog(v, n);
      }
      fflush(stdout);
   }
}

int main(int argc, char **argv)
{
   vinstall_traps();
   if (argc >= 4 && !strcmp(argv[1], "rand")) run_rand(strtoull(argv[2], 0, 10), atol(argv[3]));
   else if (argc >= 3 && !strcmp(argv[1], "one")) run_one(strtoull(argv[2], 0, 10));
   else if (argc >= 3 && !strcmp(argv[1], "tf")) run_tf(atoi(argv[2]));
   else if (argc >= 2 && !strcmp(argv[1], "ilog")) run_ilog(argc >= 3 ? strtoull(argv[2], 0, 10) : 1);
   else if (argc >= 4 && !strcmp(argv[1], "search")) run_search(strtoull(argv[2], 0, 10), atol(argv[3]));
   else if (argc >= 2 && !strcmp(argv[1], "prop")) run_prop();
   else if (argc >= 2 && !strcmp(argv[1], "stdin")) run_stdin();
   else { fprintf(stderr, "usage: c08_rangecoder rand <seed> <n> | one <subseed> | tf <level> | ilog [seed] | search <seed> <n> | prop | stdin\n"); return 64; }
   return 0;
}
