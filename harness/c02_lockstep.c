/* c02_lockstep.c — witness search of property C02 on the real library: every packet the encoder returns is
   well formed, announces the submitted duration, and decodes — with this tree's decoder at every output rate and
   channel count — to exactly that many samples with OPUS_GET_FINAL_RANGE equal to the encoder's.

   src/opus_encoder.c is #included (not linked from the archive) only so that the sanitizer build of this TU can
   carry -fno-sanitize=float-cast-overflow for the benign (int)floor(NaN) at opus_encoder.c:1226 (DESIGN §9 O1);
   nothing is wrapped or redirected here.

   Modes:  lock <seed> <sessions>   single-stream encoders, random ctl histories, all PCM formats, all signals
           ms <seed> <sessions>     multistream / projection encoders with their decoders
           fill <seed> <level>      multi-frame VBR packets nearly filling max_data_bytes (sub-frames >= 253 bytes, +-8 sweep)
           mssweep <seed> <level>   multistream / projection, max_data_bytes 1..600 exhaustively at high rates
           redsw <seed> <sessions>  redundancy signalling under tight budgets (SILK-only, forced mode/bandwidth switches, +-16 sweep)
   Output: "V <what> | <expected> | <observed> | <context>" for every violated predicate,
           "# dist ..." distribution lines, "# lock cases=N violations=K".  All randomness from the seed. */
#include "vcommon.h"
#ifdef HAVE_CONFIG_H
#include "config.h"
#endif
#include <math.h>
#include "src/opus_encoder.c"
#include "opus_multistream.h"
#include "opus_projection.h"

static const int FSS[5] = {8000, 12000, 16000, 24000, 48000};
static const int APPS[3] = {OPUS_APPLICATION_VOIP, OPUS_APPLICATION_AUDIO, OPUS_APPLICATION_RESTRICTED_LOWDELAY};
static const int DUR400[9] = {1, 2, 4, 8, 16, 24, 32, 40, 48};
static long g_cases, g_viol, g_dec;
static long d_mode[3], d_bw[5], d_dur[9], d_code[4], d_err[8], d_dtx, d_kind[8];

static float vunit(vrng *r) { return (float)(vnext(r) >> 40) / 16777216.0f; }

/* kind: 0 silence 1 sine 2 noise 3 full-scale square 4 quiet noise 5 speech-like bursts 6 non-finite 7 huge */
static void gen_pcm(vrng *r, int kind, float *x, int n, int ch, int fs, double *phase)
{
   int i, c;
   double f0 = 100 + 50 * (int)vbelow(r, 40);
   float amp = kind == 4 ? 0.001f : 0.05f + 0.9f * vunit(r);
   for (i = 0; i < n; i++) for (c = 0; c < ch; c++) {
      float v = 0;
      switch (kind) {
      case 0: v = 0; break;
      case 1: v = amp * (float)sin(*phase + 6.283185307 * f0 * i / fs + c); break;
      case 2: case 4: v = amp * (2 * vunit(r) - 1); break;
      case 3: v = ((i / 37) & 1) ? 1.0f : -1.0f; break;
      case 5: v = ((i / (fs / 50)) % 3 == 0 ? 0.0f : amp * (float)sin(6.283185307 * (f0 + 3 * (i % 97)) * i / fs) * (0.5f + 0.5f * vunit(r))); break;
      case 6: { uint32_t k = vbelow(r, 50); v = k == 0 ? NAN : k == 1 ? INFINITY : k == 2 ? -INFINITY : amp * (2 * vunit(r) - 1); } break;
      case 7: v = 1e9f * (2 * vunit(r) - 1); break;
      }
      x[i * ch + c] = v;
   }
   *phase += 6.283185307 * f0 * n / fs;
}

static int pick_bitrate(vrng *r)
{
   int k = vbelow(r, 12);
   if (k == 0) return OPUS_AUTO;
   if (k == 1) return OPUS_BITRATE_MAX;
   if (k == 2) { static const int b[] = {500, 2400, 6000, 9000, 12000, 16000, 24000, 32000, 64000, 128000, 256000, 510000}; return b[vbelow(r, 12)]; }
   { double lo = log(500.0), hi = log(512000.0); return (int)exp(lo + (hi - lo) * vunit(r)); }
}

static char g_hist[600]; static int g_hl;
static void hist(const char *fmt, int a)
{
   if (g_hl > (int)sizeof g_hist - 40) { memmove(g_hist, g_hist + 200, g_hl - 200); g_hl -= 200; }
   g_hl += snprintf(g_hist + g_hl, sizeof g_hist - g_hl, fmt, a);
}
#define CTL(e, name, req, v) do { int v_ = (v); opus_encoder_ctl(e, req(v_)); hist(" " name "=%d", v_); } while (0)

static void rand_ctl(vrng *r, OpusEncoder *e, int n)
{
   while (n-- > 0) {
      switch (vbelow(r, 18)) {
      case 0: case 1: CTL(e, "br", OPUS_SET_BITRATE, pick_bitrate(r)); break;
      case 2: CTL(e, "vbr", OPUS_SET_VBR, vbelow(r, 2)); break;
      case 3: CTL(e, "cvbr", OPUS_SET_VBR_CONSTRAINT, vbelow(r, 2)); break;
      case 4: CTL(e, "cx", OPUS_SET_COMPLEXITY, vbelow(r, 11)); break;
      case 5: CTL(e, "bw", OPUS_SET_BANDWIDTH, vchance(r, 40) ? OPUS_AUTO : 1101 + (int)vbelow(r, 5)); break;
      case 6: CTL(e, "maxbw", OPUS_SET_MAX_BANDWIDTH, 1101 + (int)vbelow(r, 5)); break;
      case 7: CTL(e, "fch", OPUS_SET_FORCE_CHANNELS, vchance(r, 50) ? OPUS_AUTO : 1 + (int)vbelow(r, 2)); break;
      case 8: CTL(e, "sig", OPUS_SET_SIGNAL, vchance(r, 40) ? OPUS_AUTO : 3001 + (int)vbelow(r, 2)); break;
      case 9: CTL(e, "fec", OPUS_SET_INBAND_FEC, vbelow(r, 3)); break;
      case 10: CTL(e, "loss", OPUS_SET_PACKET_LOSS_PERC, vchance(r, 70) ? (int)vbelow(r, 31) : (int)vbelow(r, 101)); break;
      case 11: CTL(e, "dtx", OPUS_SET_DTX, vbelow(r, 2)); break;
      case 12: CTL(e, "lsb", OPUS_SET_LSB_DEPTH, 8 + (int)vbelow(r, 17)); break;
      case 13: CTL(e, "nopred", OPUS_SET_PREDICTION_DISABLED, vbelow(r, 2)); break;
      case 14: CTL(e, "nophase", OPUS_SET_PHASE_INVERSION_DISABLED, vbelow(r, 2)); break;
      case 15: CTL(e, "dur", OPUS_SET_EXPERT_FRAME_DURATION, vchance(r, 50) ? OPUS_FRAMESIZE_ARG : 5001 + (int)vbelow(r, 9)); break;
      case 16: CTL(e, "fmode", OPUS_SET_FORCE_MODE, vchance(r, 50) ? OPUS_AUTO : 1000 + (int)vbelow(r, 3)); break;
      case 17: if (vchance(r, 15)) { opus_encoder_ctl(e, OPUS_RESET_STATE); hist(" reset%d", 0); } break;
      }
   }
}

static void viol(const char *what, const char *exp, const char *obs, const char *ctx)
{
   g_viol++;
   if (g_viol <= 40) printf("V %s | %s | %s | %s | hist:%s\n", what, exp, obs, ctx, g_hist);
}

static void run_lock(uint64_t seed, long sessions)
{
   vrng r; long s; r.s = seed * 0x9E3779B97F4A7C15ULL + 1234567;
   for (s = 0; s < sessions; s++) {
      static float x[5760 * 2]; static opus_int16 x16[5760 * 2]; static opus_int32 x24[5760 * 2];
      static float outf[5760 * 2];
      int fs = FSS[vbelow(&r, 5)], ch = 1 + vbelow(&r, 2), app = APPS[vbelow(&r, 3)], err, steps = vrange(&r, 4, 16), k;
      int kind = vbelow(&r, 8), di, dc; double phase = 0;
      OpusEncoder *e = opus_encoder_create(fs, ch, app, &err);
      OpusDecoder *dec[5][2];
      if (!e) continue;
      g_hl = 0; g_hist[0] = 0;
      for (di = 0; di < 5; di++) for (dc = 0; dc < 2; dc++) dec[di][dc] = opus_decoder_create(FSS[di], dc + 1, &err);
      rand_ctl(&r, e, vrange(&r, 0, 6));
      for (k = 0; k < steps; k++) {
         int d = DUR400[vchance(&r, 40) ? 3 : vbelow(&r, 9)], afs = fs / 400 * d, out, api = vbelow(&r, 6), n, i, ret, frame;
         opus_int32 vdur = 0; opus_uint32 erng = 0;
         unsigned char *pkt; char ctx[256], exps[96], obs[160];
         if (vchance(&r, 35)) rand_ctl(&r, e, vrange(&r, 1, 3));
         if (vchance(&r, 15)) kind = vbelow(&r, 8);
         out = vchance(&r, 30) ? vrange(&r, 1, 12) : vchance(&r, 40) ? vrange(&r, 1, 400) : vrange(&r, 1, 1500);
         opus_encoder_ctl(e, OPUS_GET_EXPERT_FRAME_DURATION(&vdur));
         frame = frame_size_select(afs, vdur, fs);
         if (frame <= 0) continue;                              /* argument the API rejects: not part of C02 */
         n = afs;
         gen_pcm(&r, kind, x, n, ch, fs, &phase);
         d_kind[kind]++;
         pkt = (unsigned char *)malloc(out);                     /* exact size: ASan sees any write past max_data_bytes */
         if (api == 0 && kind < 6) { for (i = 0; i < n * ch; i++) x16[i] = (opus_int16)IMAX(-32768, IMIN(32767, (int)floor(.5 + 32768.0 * x[i]))); ret = opus_encode(e, x16, afs, pkt, out); }
         else if (api == 1 && kind < 6) { for (i = 0; i < n * ch; i++) x24[i] = (opus_int32)IMAX(-8388608, IMIN(8388607, (int)floor(.5 + 8388608.0 * x[i]))); ret = opus_encode24(e, x24, afs, pkt, out); }
         else ret = opus_encode_float(e, x, afs, pkt, out);
         g_cases++;
         snprintf(ctx, sizeof ctx, "seed=%llu session=%ld step=%d fs=%d ch=%d app=%d frame=%d out=%d kind=%d api=%d", (unsigned long long)seed, s, k, fs, ch, app, frame, out, kind, api);
         if (ret < 0) {
            d_err[-ret < 8 ? -ret : 0]++;
            if (!(ret == OPUS_BUFFER_TOO_SMALL && out == 1 && fs == frame * 10)) {
               snprintf(obs, sizeof obs, "%s", verr(ret));
               viol("encode-fails", "success (valid arguments, >= 2 bytes of space, or 1 byte and not 100 ms)", obs, ctx);
            }
            free(pkt); continue;
         }
         if (ret == 0 || ret > out) { snprintf(obs, sizeof obs, "ret=%d", ret); viol("ret-range", "1 <= ret <= max_data_bytes", obs, ctx); free(pkt); continue; }
         opus_encoder_ctl(e, OPUS_GET_FINAL_RANGE(&erng));
         {  /* well-formedness and announced duration */
            unsigned char toc; opus_int16 size[48]; int poff, cnt;
            cnt = opus_packet_parse(pkt, ret, &toc, NULL, size, &poff);
            if (cnt < 1) { snprintf(obs, sizeof obs, "opus_packet_parse -> %s", verr(cnt)); viol("malformed", "a well-formed packet", obs, ctx); free(pkt); continue; }
            if (opus_packet_get_nb_samples(pkt, ret, fs) != frame) {
               snprintf(exps, sizeof exps, "packet duration %d samples", frame); snprintf(obs, sizeof obs, "%d samples (toc %02x, %d frames)", opus_packet_get_nb_samples(pkt, ret, fs), toc, cnt);
               viol("duration", exps, obs, ctx);
            }
            d_mode[(toc & 0x80) ? 2 : ((toc & 0x60) == 0x60) ? 1 : 0]++;
            d_bw[opus_packet_get_bandwidth(pkt) - 1101]++; d_code[toc & 3]++;
            for (i = 0; i < 9; i++) if (frame == fs / 400 * DUR400[i]) d_dur[i]++;
            if (ret <= 2) d_dtx++;
         }
         for (di = 0; di < 5; di++) for (dc = 0; dc < 2; dc++) {
            int dfs = FSS[di], want = (int)((long)frame * dfs / fs), got; opus_uint32 drng = 0;
            if (!dec[di][dc]) continue;
            got = opus_decode_float(dec[di][dc], pkt, ret, outf, 5760, 0);
            opus_decoder_ctl(dec[di][dc], OPUS_GET_FINAL_RANGE(&drng));
            g_dec++;
            if (got != want) { snprintf(exps, sizeof exps, "%d samples at %d Hz x %d ch", want, dfs, dc + 1); snprintf(obs, sizeof obs, "opus_decode_float -> %d", got); viol("decode-count", exps, obs, ctx); }
            else if (drng != erng) { snprintf(exps, sizeof exps, "decoder final range %08x (encoder's)", erng); snprintf(obs, sizeof obs, "%08x at %d Hz x %d ch, packet %d bytes toc %02x", drng, dfs, dc + 1, ret, pkt[0]); viol("final-range", exps, obs, ctx); }
         }
         free(pkt);
      }
      for (di = 0; di < 5; di++) for (dc = 0; dc < 2; dc++) if (dec[di][dc]) opus_decoder_destroy(dec[di][dc]);
      opus_encoder_destroy(e);
   }
}

/* one encode + parse + decode at the encoder's own rate/channels; returns the encoder's return value */
static int encode_check(OpusEncoder *e, OpusDecoder *dec, const float *x, int afs, int fs, int ch, int out, const char *ctx)
{
   static float outf[5760 * 2];
   unsigned char *pkt = (unsigned char *)malloc(out > 0 ? out : 1);
   opus_uint32 erng = 0, drng = 0; char exps[96], obs[160]; int ret, got;
   ret = opus_encode_float(e, x, afs, pkt, out);
   g_cases++;
   if (ret < 0) {
      d_err[-ret < 8 ? -ret : 0]++;
      if (!(ret == OPUS_BUFFER_TOO_SMALL && out == 1 && fs == afs * 10)) { snprintf(obs, sizeof obs, "%s", verr(ret)); viol("encode-fails", "success (valid arguments, >= 2 bytes of space)", obs, ctx); }
      free(pkt); return ret;
   }
   if (ret == 0 || ret > out) { snprintf(obs, sizeof obs, "ret=%d", ret); viol("ret-range", "1 <= ret <= max_data_bytes", obs, ctx); free(pkt); return ret; }
   opus_encoder_ctl(e, OPUS_GET_FINAL_RANGE(&erng));
   if (opus_packet_get_nb_samples(pkt, ret, fs) != afs) {
      snprintf(exps, sizeof exps, "packet duration %d samples", afs); snprintf(obs, sizeof obs, "%d samples", opus_packet_get_nb_samples(pkt, ret, fs));
      viol("duration", exps, obs, ctx);
   }
   d_mode[(pkt[0] & 0x80) ? 2 : ((pkt[0] & 0x60) == 0x60) ? 1 : 0]++; d_code[pkt[0] & 3]++;
   got = opus_decode_float(dec, pkt, ret, outf, 5760, 0);
   opus_decoder_ctl(dec, OPUS_GET_FINAL_RANGE(&drng));
   g_dec++;
   if (got != afs) { snprintf(exps, sizeof exps, "%d samples", afs); snprintf(obs, sizeof obs, "opus_decode_float -> %d", got); viol("decode-count", exps, obs, ctx); }
   else if (drng != erng) { snprintf(exps, sizeof exps, "decoder final range %08x (encoder's)", erng); snprintf(obs, sizeof obs, "%08x, packet %d bytes toc %02x", drng, ret, pkt[0]); viol("final-range", exps, obs, ctx); }
   (void)ch; free(pkt);
   return ret;
}

/* multi-frame packets that nearly fill the buffer: VBR, 3..6 sub-frames of >= 253 bytes and unequal size, max_data_bytes
   swept +-8 around the size a probe packet had (sum of sub-frames + worst-case repacketiser header ~ max_data_bytes) */
static void run_fill(uint64_t seed, int level)
{
   vrng r; int fi, ch, di, ci, ti, mi;
   static const int tgt[] = {255, 262, 300, 420, 640};
   r.s = seed * 0xD6E8FEB86659FD93ULL + 31;
   for (fi = 2; fi < 5; fi++) for (ch = 1; ch <= 2; ch++) for (di = 5; di < 9; di++) for (ci = 0; ci < 2; ci++) for (mi = 0; mi < 2; mi++) for (ti = 0; ti < 5; ti++) {
      static float x[5760 * 2];
      int fs = FSS[fi], err, afs = fs / 400 * DUR400[di], k, probe, nb = DUR400[di] / 8, br; double phase = 0; char ctx[256];
      OpusEncoder *e; OpusDecoder *dec;
      if (!level && ((fi + ch + di + ci + mi + ti + (int)(seed % 3)) % 3) != 0) continue;
      e = opus_encoder_create(fs, ch, mi ? OPUS_APPLICATION_AUDIO : OPUS_APPLICATION_RESTRICTED_LOWDELAY, &err);
      dec = opus_decoder_create(fs, ch, &err);
      if (!e || !dec) continue;
      g_hl = 0; g_hist[0] = 0;
      if (mi) CTL(e, "fmode", OPUS_SET_FORCE_MODE, vchance(&r, 50) ? MODE_CELT_ONLY : MODE_HYBRID);
      CTL(e, "vbr", OPUS_SET_VBR, 1); CTL(e, "cvbr", OPUS_SET_VBR_CONSTRAINT, ci);
      br = tgt[ti] * 400 + (int)vbelow(&r, 1200);
      CTL(e, "br", OPUS_SET_BITRATE, br);
      for (k = 0; k < 4; k++) {
         int out = IMIN(1500, nb * (tgt[ti] + 1) + (k & 1));
         gen_pcm(&r, 2, x, afs, ch, fs, &phase);
         snprintf(ctx, sizeof ctx, "fill seed=%llu fs=%d ch=%d app=%d frame=%d out=%d br=%d cvbr=%d", (unsigned long long)seed, fs, ch, mi, afs, out, br, ci);
         encode_check(e, dec, x, afs, fs, ch, out, ctx);
      }
      gen_pcm(&r, 2, x, afs, ch, fs, &phase);
      snprintf(ctx, sizeof ctx, "fill seed=%llu fs=%d ch=%d app=%d frame=%d out=4000 br=%d cvbr=%d (probe)", (unsigned long long)seed, fs, ch, mi, afs, br, ci);
      probe = encode_check(e, dec, x, afs, fs, ch, 4000, ctx);
      if (probe > 3 * 253)
         for (k = -8; k <= 8; k++) {
            int out = IMAX(1, IMIN(4000, probe + k));
            gen_pcm(&r, 2, x, afs, ch, fs, &phase);
            snprintf(ctx, sizeof ctx, "fill seed=%llu fs=%d ch=%d app=%d frame=%d out=%d br=%d cvbr=%d (probe %d%+d)", (unsigned long long)seed, fs, ch, mi, afs, out, br, ci, probe, k);
            encode_check(e, dec, x, afs, fs, ch, out, ctx);
         }
      opus_encoder_destroy(e); opus_decoder_destroy(dec);
   }
}

/* redundancy signalling under tight budgets: SILK-only NB/MB/WB at low rates, CBR and VBR, forced SILK<->CELT switches
   (OPUS_SET_FORCE_MODE) and bandwidth changes so that CELT->SILK / SILK->CELT redundancy frames and bandwidth-switch
   redundancy are emitted, max_data_bytes swept +-16 around the size the previous packet had (so that max_redundancy
   clamps redundancy_bytes down to 2..4 and the encoder's budget test and the decoder's length test are both near their
   thresholds).  Predicate per packet: parse, duration, decoded sample count and final-range equality. */
static void run_redsw(uint64_t seed, long sessions)
{
   vrng r; long s; r.s = seed * 0xE7037ED1A0B428DBULL + 53;
   for (s = 0; s < sessions; s++) {
      static float x[5760 * 2];
      static const int fss[] = {8000, 12000, 16000, 24000, 48000};
      int fs = fss[vbelow(&r, 5)], ch = 1 + vbelow(&r, 2), err, k, steps = vrange(&r, 20, 60), last = 0, silk = 1;
      int bwmax = fs == 8000 ? 1101 : fs == 12000 ? 1102 : 1103, vbr = vbelow(&r, 2), kind = 1 + vbelow(&r, 5);
      double phase = 0; char ctx[256];
      OpusEncoder *e = opus_encoder_create(fs, ch, vchance(&r, 70) ? OPUS_APPLICATION_VOIP : OPUS_APPLICATION_AUDIO, &err);
      OpusDecoder *dec = opus_decoder_create(fs, ch, &err);
      if (!e || !dec) continue;
      g_hl = 0; g_hist[0] = 0;
      CTL(e, "vbr", OPUS_SET_VBR, vbr); CTL(e, "cvbr", OPUS_SET_VBR_CONSTRAINT, vbelow(&r, 2));
      CTL(e, "br", OPUS_SET_BITRATE, 6000 + (int)vbelow(&r, 18000) * ch);
      CTL(e, "fmode", OPUS_SET_FORCE_MODE, MODE_SILK_ONLY);
      CTL(e, "bw", OPUS_SET_BANDWIDTH, 1101 + (int)vbelow(&r, bwmax - 1100));
      CTL(e, "cx", OPUS_SET_COMPLEXITY, vbelow(&r, 11));
      for (k = 0; k < steps; k++) {
         int d = DUR400[3 + vbelow(&r, 4)], afs, out, ret;
         if (silk == 0) d = DUR400[2 + vbelow(&r, 2)];                       /* CELT frames: 10 / 20 ms */
         afs = fs / 400 * d;
         if (vchance(&r, 22)) { silk = !silk; CTL(e, "fmode", OPUS_SET_FORCE_MODE, silk ? MODE_SILK_ONLY : MODE_CELT_ONLY); }
         else if (vchance(&r, 12)) CTL(e, "bw", OPUS_SET_BANDWIDTH, 1101 + (int)vbelow(&r, bwmax - 1100));
         else if (vchance(&r, 8)) CTL(e, "br", OPUS_SET_BITRATE, 6000 + (int)vbelow(&r, 18000) * ch);
         else if (vchance(&r, 5)) { CTL(e, "fmode", OPUS_SET_FORCE_MODE, OPUS_AUTO); silk = 1; }
         if (vchance(&r, 10)) kind = 1 + vbelow(&r, 5);
         out = 1500;
         if (last > 3 && vchance(&r, 75)) { out = last + (vchance(&r, 50) ? vrange(&r, -16, 16) : -vrange(&r, 0, 3 * ((last + 19) / 20))); if (out < 2) out = 2; }
         gen_pcm(&r, kind, x, afs, ch, fs, &phase);
         snprintf(ctx, sizeof ctx, "redsw seed=%llu session=%ld step=%d fs=%d ch=%d frame=%d out=%d vbr=%d silk=%d", (unsigned long long)seed, s, k, fs, ch, afs, out, vbr, silk);
         ret = encode_check(e, dec, x, afs, fs, ch, out, ctx);
         if (ret > 0 && out == 1500) last = ret;
      }
      opus_encoder_destroy(e); opus_decoder_destroy(dec);
   }
}

/* multistream / projection with their decoders: max_data_bytes swept exhaustively over 1..600 at high rates */
static void run_mssweep(uint64_t seed, int level)
{
   vrng r; int li, vi, fi, di, out;
   static const int lay[][2] = {{1, 4}, {1, 3}, {1, 6}, {2, 4}, {3, 4}, {1, 8}, {0, 2}};   /* family, channels */
   r.s = seed * 0x9FB21C651E98DF25ULL + 43;
   for (li = 0; li < 7; li++) for (vi = 0; vi < 2; vi++) for (fi = 0; fi < (level ? 2 : 1); fi++) for (di = 0; di < (level ? 2 : 1); di++) {
      static float x[5760 * 8]; static float outf[5760 * 8];
      int fs = fi ? 16000 : 48000, afs = di ? fs / 100 : fs / 50, fam = lay[li][0], ch = lay[li][1], err = 0, streams = 0, coupled = 0, br;
      unsigned char mapping[255]; double phase = 0;
      OpusMSEncoder *ms = NULL; OpusProjectionEncoder *pj = NULL; OpusMSDecoder *md = NULL; OpusProjectionDecoder *pd = NULL;
      g_hl = 0; g_hist[0] = 0;
      if (fam == 3) pj = opus_projection_ambisonics_encoder_create(fs, ch, 3, &streams, &coupled, OPUS_APPLICATION_AUDIO, &err);
      else ms = opus_multistream_surround_encoder_create(fs, ch, fam, &streams, &coupled, mapping, OPUS_APPLICATION_AUDIO, &err);
      if (!ms && !pj) continue;
      if (ms) md = opus_multistream_decoder_create(fs, ch, streams, coupled, mapping, &err);
      else {
         opus_int32 msz = 0; unsigned char *mat;
         opus_projection_encoder_ctl(pj, OPUS_PROJECTION_GET_DEMIXING_MATRIX_SIZE(&msz));
         mat = (unsigned char *)malloc(msz > 0 ? msz : 1);
         opus_projection_encoder_ctl(pj, OPUS_PROJECTION_GET_DEMIXING_MATRIX(mat, msz));
         pd = opus_projection_decoder_create(fs, ch, streams, coupled, mat, msz, &err);
         free(mat);
      }
      br = vi == 0 && vchance(&r, 30) ? OPUS_BITRATE_MAX : 150000 * streams;
      if (ms) { opus_multistream_encoder_ctl(ms, OPUS_SET_BITRATE(br)); opus_multistream_encoder_ctl(ms, OPUS_SET_VBR(vi)); opus_multistream_encoder_ctl(ms, OPUS_SET_COMPLEXITY(4)); }
      else { opus_projection_encoder_ctl(pj, OPUS_SET_BITRATE(br)); opus_projection_encoder_ctl(pj, OPUS_SET_VBR(vi)); opus_projection_encoder_ctl(pj, OPUS_SET_COMPLEXITY(4)); }
      for (out = 1; out <= 600; out++) {
         unsigned char *pkt = (unsigned char *)malloc(out); int ret, small, got; opus_uint32 erng = 0, drng = 0; char ctx[256], exps[96], obs[160];
         gen_pcm(&r, 2, x, afs, ch, fs, &phase);
         ret = ms ? opus_multistream_encode_float(ms, x, afs, pkt, out) : opus_projection_encode_float(pj, x, afs, pkt, out);
         g_cases++;
         snprintf(ctx, sizeof ctx, "mssweep seed=%llu fam=%d fs=%d ch=%d streams=%d coupled=%d frame=%d out=%d vbr=%d br=%d", (unsigned long long)seed, fam, fs, ch, streams, coupled, afs, out, vi, br);
         small = streams * 2 - 1 + (fs / afs == 10 ? streams : 0);
         if (ret < 0) {
            d_err[-ret < 8 ? -ret : 0]++;
            if (!(ret == OPUS_BUFFER_TOO_SMALL && out < small)) { snprintf(obs, sizeof obs, "%s", verr(ret)); snprintf(exps, sizeof exps, "success (max_data_bytes >= %d)", small); viol("ms-encode-fails", exps, obs, ctx); }
            free(pkt); continue;
         }
         if (ret == 0 || ret > out) { snprintf(obs, sizeof obs, "ret=%d", ret); viol("ms-ret-range", "1 <= ret <= max_data_bytes", obs, ctx); free(pkt); continue; }
         if (ms) opus_multistream_encoder_ctl(ms, OPUS_GET_FINAL_RANGE(&erng)); else opus_projection_encoder_ctl(pj, OPUS_GET_FINAL_RANGE(&erng));
         got = md ? opus_multistream_decode_float(md, pkt, ret, outf, 5760, 0) : opus_projection_decode_float(pd, pkt, ret, outf, 5760, 0);
         if (md) opus_multistream_decoder_ctl(md, OPUS_GET_FINAL_RANGE(&drng)); else opus_projection_decoder_ctl(pd, OPUS_GET_FINAL_RANGE(&drng));
         g_dec++;
         if (got != afs) { snprintf(exps, sizeof exps, "%d samples", afs); snprintf(obs, sizeof obs, "multistream decode -> %d (%s)", got, got < 0 ? verr(got) : "count"); viol("ms-decode-count", exps, obs, ctx); }
         else if (drng != erng) { snprintf(exps, sizeof exps, "decoder final range %08x (encoder's)", erng); snprintf(obs, sizeof obs, "%08x, packet %d bytes", drng, ret); viol("ms-final-range", exps, obs, ctx); }
         free(pkt);
      }
      if (ms) opus_multistream_encoder_destroy(ms);
      if (pj) opus_projection_encoder_destroy(pj);
      if (md) opus_multistream_decoder_destroy(md);
      if (pd) opus_projection_decoder_destroy(pd);
   }
}

static void run_ms(uint64_t seed, long sessions)
{
   vrng r; long s; r.s = seed * 0xA24BAED4963EE407ULL + 99;
   for (s = 0; s < sessions; s++) {
      static float x[5760 * 8]; static float outf[5760 * 8];
      int fs = FSS[vbelow(&r, 5)], app = APPS[vbelow(&r, 3)], err = 0, streams = 0, coupled = 0, k, steps = vrange(&r, 3, 10);
      int fam = vbelow(&r, 4), ch; unsigned char mapping[255];
      OpusMSEncoder *ms = NULL; OpusProjectionEncoder *pj = NULL; OpusMSDecoder *md = NULL; OpusProjectionDecoder *pd = NULL; double phase = 0;
      g_hl = 0; g_hist[0] = 0;
      if (fam == 0) { ch = 1 + vbelow(&r, 2); ms = opus_multistream_surround_encoder_create(fs, ch, 0, &streams, &coupled, mapping, app, &err); }
      else if (fam == 1) { ch = 1 + vbelow(&r, 8); ms = opus_multistream_surround_encoder_create(fs, ch, 1, &streams, &coupled, mapping, app, &err); }
      else if (fam == 2) { static const int chs[] = {1, 4, 6}; ch = chs[vbelow(&r, 3)]; ms = opus_multistream_surround_encoder_create(fs, ch, 2, &streams, &coupled, mapping, app, &err); }
      else { static const int chs[] = {4, 6, 9, 11}; ch = chs[vbelow(&r, 2)]; pj = opus_projection_ambisonics_encoder_create(fs, ch, 3, &streams, &coupled, app, &err); }
      if (!ms && !pj) continue;
      if (ms) md = opus_multistream_decoder_create(fs, ch, streams, coupled, mapping, &err);
      else {
         opus_int32 msz = 0; unsigned char *mat;
         opus_projection_encoder_ctl(pj, OPUS_PROJECTION_GET_DEMIXING_MATRIX_SIZE(&msz));
         mat = (unsigned char *)malloc(msz > 0 ? msz : 1);
         opus_projection_encoder_ctl(pj, OPUS_PROJECTION_GET_DEMIXING_MATRIX(mat, msz));
         pd = opus_projection_decoder_create(fs, ch, streams, coupled, mat, msz, &err);
         free(mat);
      }
      for (k = 0; k < steps; k++) {
         int d = DUR400[vchance(&r, 50) ? 3 : vbelow(&r, 9)], afs = fs / 400 * d, out, kind = vbelow(&r, 8), ret, small, got;
         opus_uint32 erng = 0, drng = 0; unsigned char *pkt; char ctx[256], exps[96], obs[160];
         if (vchance(&r, 40)) {
            int br = pick_bitrate(&r), vbr = vbelow(&r, 2), cx = vbelow(&r, 11);
            if (br > 0) br = IMIN(br * streams, 512000 * streams);
            if (ms) { opus_multistream_encoder_ctl(ms, OPUS_SET_BITRATE(br)); opus_multistream_encoder_ctl(ms, OPUS_SET_VBR(vbr)); opus_multistream_encoder_ctl(ms, OPUS_SET_COMPLEXITY(cx)); }
            else { opus_projection_encoder_ctl(pj, OPUS_SET_BITRATE(br)); opus_projection_encoder_ctl(pj, OPUS_SET_VBR(vbr)); opus_projection_encoder_ctl(pj, OPUS_SET_COMPLEXITY(cx)); }
            hist(" br=%d", br); hist(" vbr=%d", vbr); hist(" cx=%d", cx);
         }
         out = vchance(&r, 40) ? vrange(&r, 1, 8 * streams) : vchance(&r, 50) ? vrange(&r, 1, 300 * streams) : vrange(&r, 1, 1500);
         pkt = (unsigned char *)malloc(out);
         gen_pcm(&r, kind, x, afs, ch, fs, &phase);
         ret = ms ? opus_multistream_encode_float(ms, x, afs, pkt, out) : opus_projection_encode_float(pj, x, afs, pkt, out);
         g_cases++;
         snprintf(ctx, sizeof ctx, "seed=%llu session=%ld step=%d fam=%d fs=%d ch=%d streams=%d coupled=%d frame=%d out=%d kind=%d", (unsigned long long)seed, s, k, fam, fs, ch, streams, coupled, afs, out, kind);
         small = streams * 2 - 1 + (fs / afs == 10 ? streams : 0);
         if (ret < 0) {
            d_err[-ret < 8 ? -ret : 0]++;
            if (!(ret == OPUS_BUFFER_TOO_SMALL && out < small)) { snprintf(obs, sizeof obs, "%s", verr(ret)); snprintf(exps, sizeof exps, "success (out >= %d)", small); viol("ms-encode-fails", exps, obs, ctx); }
            free(pkt); continue;
         }
         if (ret == 0 || ret > out) { snprintf(obs, sizeof obs, "ret=%d", ret); viol("ms-ret-range", "1 <= ret <= max_data_bytes", obs, ctx); free(pkt); continue; }
         if (ms) opus_multistream_encoder_ctl(ms, OPUS_GET_FINAL_RANGE(&erng)); else opus_projection_encoder_ctl(pj, OPUS_GET_FINAL_RANGE(&erng));
         got = md ? opus_multistream_decode_float(md, pkt, ret, outf, 5760, 0) : opus_projection_decode_float(pd, pkt, ret, outf, 5760, 0);
         if (md) opus_multistream_decoder_ctl(md, OPUS_GET_FINAL_RANGE(&drng)); else opus_projection_decoder_ctl(pd, OPUS_GET_FINAL_RANGE(&drng));
         g_dec++;
         if (got != afs) { snprintf(exps, sizeof exps, "%d samples", afs); snprintf(obs, sizeof obs, "multistream decode -> %d (%s)", got, got < 0 ? verr(got) : "count"); viol("ms-decode-count", exps, obs, ctx); }
         else if (drng != erng) { snprintf(exps, sizeof exps, "decoder final range %08x (encoder's)", erng); snprintf(obs, sizeof obs, "%08x, packet %d bytes", drng, ret); viol("ms-final-range", exps, obs, ctx); }
         free(pkt);
      }
      if (ms) opus_multistream_encoder_destroy(ms);
      if (pj) opus_projection_encoder_destroy(pj);
      if (md) opus_multistream_decoder_destroy(md);
      if (pd) opus_projection_decoder_destroy(pd);
   }
}

int main(int argc, char **argv)
{
   int i;
   setvbuf(stdout, NULL, _IOFBF, 1 << 16);
   vinstall_traps();
   if (argc >= 4 && !strcmp(argv[1], "lock")) run_lock(strtoull(argv[2], 0, 10), atol(argv[3]));
   else if (argc >= 4 && !strcmp(argv[1], "ms")) run_ms(strtoull(argv[2], 0, 10), atol(argv[3]));
   else if (argc >= 4 && !strcmp(argv[1], "fill")) run_fill(strtoull(argv[2], 0, 10), atoi(argv[3]));
   else if (argc >= 4 && !strcmp(argv[1], "mssweep")) run_mssweep(strtoull(argv[2], 0, 10), atoi(argv[3]));
   else if (argc >= 4 && !strcmp(argv[1], "redsw")) run_redsw(strtoull(argv[2], 0, 10), atol(argv[3]));
   else { fprintf(stderr, "usage: c02_lockstep lock|ms <seed> <sessions>\n"); return 64; }
   printf("# dist modes silk=%ld hybrid=%ld celt=%ld | bw", d_mode[0], d_mode[1], d_mode[2]);
   for (i = 0; i < 5; i++) printf(" %ld", d_bw[i]);
   printf(" | dur"); for (i = 0; i < 9; i++) printf(" %ld", d_dur[i]);
   printf(" | code"); for (i = 0; i < 4; i++) printf(" %ld", d_code[i]);
   printf(" | short(<=2 bytes)=%ld | errors", d_dtx); for (i = 1; i < 8; i++) printf(" %ld", d_err[i]);
   printf(" | kinds"); for (i = 0; i < 8; i++) printf(" %ld", d_kind[i]);
   printf("\n# lock cases=%ld decodes=%ld violations=%ld\n", g_cases, g_dec, g_viol);
   fflush(stdout);
   return g_viol ? 9 : 0;
}
