/* c14_threads.c — witness-search harness for C14 (independent instances do not interfere).
   Usage:  c14_threads par <seed> <threads> <iters>     all threads released together at a barrier
           c14_threads ser <seed> <threads> <iters>     the same scripts, one after the other, no threads
   Every (thread, iteration) runs one script on objects that only this thread touches: create, ctls,
   encode/decode (float and int16 APIs), destroy.  Script and signal depend only on (seed, thread, iteration).
   Output, one line per script:   T <thread> <iter> <kind/Fs/ch/app> <fnv64 of every observable> calls=<n>
   Observables: every return code, packet byte, final range, ctl read-back and PCM bit pattern.
   The driver (tools/props/C14.py) compares `par` against `ser`, plain and under ThreadSanitizer. */
#include "vcommon.h"
#include <pthread.h>
#include <math.h>
#include "opus.h"
#include "opus_multistream.h"
#include "opus_projection.h"
#include "cpu_support.h"

#define MAXFR 5760
#define MAXCH 6
#define MAXPKT 8000

typedef struct { uint64_t h; long calls; } acc;
static void hb(acc *a, const void *p, size_t n) {
   const unsigned char *b = (const unsigned char *)p; size_t i;
   for (i = 0; i < n; i++) { a->h ^= b[i]; a->h *= 0x100000001b3ULL; }
}
static void hi(acc *a, long long v) { hb(a, &v, sizeof v); }
static void call(acc *a, long long ret) { a->calls++; hi(a, ret); }

typedef struct {
   int tid, iter;
   uint64_t seed;
   acc a;
   char desc[64];
} job;

/* speech-like / music-like / silent test signal, deterministic in the rng */
static void gen_signal(vrng *r, float *pcm, int n, int ch, int Fs, int *phase)
{
   int kind = vbelow(r, 5), i, c;
   double f0 = 80.0 + vbelow(r, 3000), amp = (kind == 0) ? 0.0 : 0.02 + vbelow(r, 90) / 100.0;
   for (i = 0; i < n; i++) {
      double t = (double)(*phase + i) / Fs;
      double v = amp * sin(6.283185307179586 * f0 * t) * (kind == 3 ? (0.5 + 0.5 * sin(6.283185307179586 * 3.0 * t)) : 1.0);
      for (c = 0; c < ch; c++) {
         double w = v;
         if (kind == 2 || kind == 4) w += amp * 0.3 * ((double)(vnext(r) >> 40) / 8388608.0 - 1.0);
         if (c & 1) w = -0.7 * w;
         pcm[i * ch + c] = (float)w;
      }
   }
   *phase += n;
}
static void to16(const float *f, opus_int16 *s, int n) {
   int i; for (i = 0; i < n; i++) { double v = floor(.5 + 32768.0 * f[i]); s[i] = (opus_int16)(v > 32767 ? 32767 : v < -32768 ? -32768 : v); }
}

static const int RATES[5] = {8000, 12000, 16000, 24000, 48000};
static const int APPS[3] = {OPUS_APPLICATION_VOIP, OPUS_APPLICATION_AUDIO, OPUS_APPLICATION_RESTRICTED_LOWDELAY};
static int frame_size(vrng *r, int Fs, int app) {
   static const int q[6] = {400, 200, 100, 50, 25, 17};   /* Fs/q: 2.5 5 10 20 40 ms; 17 -> 60 ms special */
   int k = vbelow(r, 10);
   (void)app;
   if (k >= 6) k = 3;
   if (k == 5) return Fs / 50 * 3;
   return Fs / q[k];
}

static void enc_ctls(vrng *r, acc *a, OpusEncoder *e)
{
   int n = vbelow(r, 6), i; opus_int32 v;
   for (i = 0; i < n; i++) {
      switch (vbelow(r, 14)) {
      case 0: call(a, opus_encoder_ctl(e, OPUS_SET_BITRATE(vchance(r, 10) ? OPUS_AUTO : vchance(r, 10) ? OPUS_BITRATE_MAX : 6000 + (int)vbelow(r, 250000)))); break;
      case 1: call(a, opus_encoder_ctl(e, OPUS_SET_COMPLEXITY((int)vbelow(r, 11)))); break;
      case 2: call(a, opus_encoder_ctl(e, OPUS_SET_VBR((int)vbelow(r, 2)))); break;
      case 3: call(a, opus_encoder_ctl(e, OPUS_SET_VBR_CONSTRAINT((int)vbelow(r, 2)))); break;
      case 4: call(a, opus_encoder_ctl(e, OPUS_SET_INBAND_FEC((int)vbelow(r, 3)))); break;
      case 5: call(a, opus_encoder_ctl(e, OPUS_SET_PACKET_LOSS_PERC((int)vbelow(r, 40)))); break;
      case 6: call(a, opus_encoder_ctl(e, OPUS_SET_DTX((int)vbelow(r, 2)))); break;
      case 7: call(a, opus_encoder_ctl(e, OPUS_SET_SIGNAL(vchance(r, 33) ? OPUS_AUTO : vchance(r, 50) ? OPUS_SIGNAL_VOICE : OPUS_SIGNAL_MUSIC))); break;
      case 8: call(a, opus_encoder_ctl(e, OPUS_SET_MAX_BANDWIDTH(OPUS_BANDWIDTH_NARROWBAND + (int)vbelow(r, 5)))); break;
      case 9: call(a, opus_encoder_ctl(e, OPUS_SET_FORCE_CHANNELS(vchance(r, 50) ? OPUS_AUTO : 1 + (int)vbelow(r, 2)))); break;
      case 10: call(a, opus_encoder_ctl(e, OPUS_SET_LSB_DEPTH(8 + (int)vbelow(r, 17)))); break;
      case 11: call(a, opus_encoder_ctl(e, OPUS_SET_PREDICTION_DISABLED((int)vbelow(r, 2)))); break;
      case 12: call(a, opus_encoder_ctl(e, OPUS_SET_BANDWIDTH(vchance(r, 50) ? OPUS_AUTO : OPUS_BANDWIDTH_NARROWBAND + (int)vbelow(r, 5)))); break;
      default: call(a, opus_encoder_ctl(e, OPUS_GET_BITRATE(&v))); hi(a, v);
               call(a, opus_encoder_ctl(e, OPUS_GET_LOOKAHEAD(&v))); hi(a, v); break;
      }
   }
}

/* kind 0 and 4: encoder + decoder (4 adds loss, FEC, gain, reset, packet inspection, soft clip) */
static void script_encdec(job *j, vrng *r, int lossy)
{
   int Fs = RATES[vbelow(r, 5)], ch = 1 + vbelow(r, 2), app = APPS[vbelow(r, 3)];
   int dFs = vchance(r, 70) ? Fs : RATES[vbelow(r, 5)], dch = vchance(r, 70) ? ch : 1 + (int)vbelow(r, 2);
   int err = 0, nfr = 10 + vbelow(r, 15), f, phase = 0, use_init = vchance(r, 30);
   OpusEncoder *e; OpusDecoder *d;
   float *pcm = (float *)malloc(sizeof(float) * MAXFR * 2), *out = (float *)malloc(sizeof(float) * MAXFR * 2);
   opus_int16 *p16 = (opus_int16 *)malloc(2 * MAXFR * 2), *o16 = (opus_int16 *)malloc(2 * MAXFR * 2);
   unsigned char *pkt = (unsigned char *)malloc(MAXPKT);
   float clipmem[2] = {0, 0};
   int gotf = 0;
   acc *a = &j->a;
   sprintf(j->desc, "%s/%d/%d/%d", lossy ? "decplc" : "encdec", Fs, ch, app);
   if (use_init) {
      e = (OpusEncoder *)malloc(opus_encoder_get_size(ch)); err = opus_encoder_init(e, Fs, ch, app);
      d = (OpusDecoder *)malloc(opus_decoder_get_size(dch)); call(a, opus_decoder_init(d, dFs, dch));
   } else {
      e = opus_encoder_create(Fs, ch, app, &err);
      if (!err) d = opus_decoder_create(dFs, dch, &err); else d = NULL;
   }
   call(a, err);
   if (!e || !d || err) { hi(a, -999); goto done; }
   if (lossy) { call(a, opus_encoder_ctl(e, OPUS_SET_INBAND_FEC(1))); call(a, opus_encoder_ctl(e, OPUS_SET_PACKET_LOSS_PERC(20))); }
   for (f = 0; f < nfr; f++) {
      int fs = frame_size(r, Fs, app), len, dn, maxb = vchance(r, 20) ? 20 + (int)vbelow(r, 200) : MAXPKT;
      opus_uint32 er = 0, dr = 0;
      if (vchance(r, 40)) enc_ctls(r, a, e);
      gen_signal(r, pcm, fs, ch, Fs, &phase);
      if (vchance(r, 50)) len = opus_encode_float(e, pcm, fs, pkt, maxb);
      else { to16(pcm, p16, fs * ch); len = opus_encode(e, p16, fs, pkt, maxb); }
      call(a, len);
      if (len < 0) continue;
      hb(a, pkt, len);
      call(a, opus_encoder_ctl(e, OPUS_GET_FINAL_RANGE(&er))); hi(a, er);
      if (lossy) {
         call(a, opus_packet_get_nb_frames(pkt, len)); call(a, opus_packet_get_nb_samples(pkt, len, dFs));
         call(a, opus_packet_get_bandwidth(pkt)); call(a, opus_packet_has_lbrr(pkt, len));
         if (vchance(r, 25)) {                       /* lost packet: PLC, or FEC from this one */
            int lost = dFs / 50;
            dn = vchance(r, 50) ? opus_decode_float(d, NULL, 0, out, lost, 0) : opus_decode_float(d, pkt, len, out, lost, 1);
            call(a, dn); if (dn > 0) hb(a, out, sizeof(float) * dn * dch);
         }
         if (vchance(r, 15)) call(a, opus_decoder_ctl(d, OPUS_SET_GAIN((int)vbelow(r, 2000) - 1000)));
         if (vchance(r, 10)) call(a, opus_decoder_ctl(d, OPUS_RESET_STATE));
      }
      gotf = 0;
      if (vchance(r, 50)) { dn = opus_decode_float(d, pkt, len, out, MAXFR, 0); call(a, dn); if (dn > 0) hb(a, out, sizeof(float) * dn * dch); gotf = 1; }
      else { dn = opus_decode(d, pkt, len, o16, MAXFR, 0); call(a, dn); if (dn > 0) hb(a, o16, 2 * dn * dch); }
      call(a, opus_decoder_ctl(d, OPUS_GET_FINAL_RANGE(&dr))); hi(a, dr);
      if (lossy && dn > 0) {
         opus_int32 v = 0;
         call(a, opus_decoder_ctl(d, OPUS_GET_PITCH(&v))); hi(a, v);
         call(a, opus_decoder_ctl(d, OPUS_GET_LAST_PACKET_DURATION(&v))); hi(a, v);
         if (gotf) { int i; for (i = 0; i < dn * dch; i++) out[i] *= 3.0f;
            opus_pcm_soft_clip(out, dn, dch, clipmem); a->calls++; hb(a, out, sizeof(float) * dn * dch); }
      }
      if (vchance(r, 8)) call(a, opus_encoder_ctl(e, OPUS_RESET_STATE));
   }
done:
   if (use_init) { free(e); free(d); } else { if (e) opus_encoder_destroy(e); if (d) opus_decoder_destroy(d); }
   a->calls += 2;
   free(pcm); free(out); free(p16); free(o16); free(pkt);
}

/* kind 1: multistream encoder + decoder */
static void script_ms(job *j, vrng *r)
{
   int Fs = RATES[vbelow(r, 5)], ch = 1 + vbelow(r, MAXCH), app = APPS[vbelow(r, 3)], fam = (ch <= 2 && vchance(r, 50)) ? 0 : 1;
   int streams = 0, coupled = 0, err = 0, f, nfr = 5 + vbelow(r, 8), phase = 0;
   unsigned char mapping[8];
   OpusMSEncoder *e; OpusMSDecoder *d = NULL;
   float *pcm = (float *)malloc(sizeof(float) * MAXFR * MAXCH), *out = (float *)malloc(sizeof(float) * MAXFR * MAXCH);
   opus_int16 *p16 = (opus_int16 *)malloc(2 * MAXFR * MAXCH);
   unsigned char *pkt = (unsigned char *)malloc(MAXPKT);
   acc *a = &j->a;
   sprintf(j->desc, "ms/%d/%d/%d", Fs, ch, app);
   e = opus_multistream_surround_encoder_create(Fs, ch, fam, &streams, &coupled, mapping, app, &err);
   call(a, err); hi(a, streams); hi(a, coupled); if (!err) hb(a, mapping, ch);
   if (e && !err) { d = opus_multistream_decoder_create(Fs, ch, streams, coupled, mapping, &err); call(a, err); }
   if (!e || !d || err) { hi(a, -999); goto done; }
   call(a, opus_multistream_encoder_ctl(e, OPUS_SET_BITRATE(ch * (8000 + (int)vbelow(r, 90000)))));
   call(a, opus_multistream_encoder_ctl(e, OPUS_SET_COMPLEXITY((int)vbelow(r, 11))));
   if (vchance(r, 30)) call(a, opus_multistream_encoder_ctl(e, OPUS_SET_VBR(0)));
   for (f = 0; f < nfr; f++) {
      int fs = frame_size(r, Fs, app), len, dn; opus_uint32 er = 0, dr = 0;
      gen_signal(r, pcm, fs, ch, Fs, &phase);
      if (vchance(r, 60)) len = opus_multistream_encode_float(e, pcm, fs, pkt, MAXPKT);
      else { to16(pcm, p16, fs * ch); len = opus_multistream_encode(e, p16, fs, pkt, MAXPKT); }
      call(a, len);
      if (len < 0) continue;
      hb(a, pkt, len);
      call(a, opus_multistream_encoder_ctl(e, OPUS_GET_FINAL_RANGE(&er))); hi(a, er);
      dn = opus_multistream_decode_float(d, pkt, len, out, MAXFR, 0); call(a, dn);
      if (dn > 0) hb(a, out, sizeof(float) * dn * ch);
      call(a, opus_multistream_decoder_ctl(d, OPUS_GET_FINAL_RANGE(&dr))); hi(a, dr);
      if (vchance(r, 20)) { OpusEncoder *sub = NULL; opus_int32 v = 0;
         call(a, opus_multistream_encoder_ctl(e, OPUS_MULTISTREAM_GET_ENCODER_STATE((int)vbelow(r, streams), &sub)));
         if (sub) { call(a, opus_encoder_ctl(sub, OPUS_GET_BANDWIDTH(&v))); hi(a, v); } }
   }
done:
   if (e) opus_multistream_encoder_destroy(e);
   if (d) opus_multistream_decoder_destroy(d);
   a->calls += 2;
   free(pcm); free(out); free(p16); free(pkt);
}

/* kind 2: repacketizer, pad / unpad, parse — fed by this thread's own encoder */
static void script_repack(job *j, vrng *r)
{
   int Fs = RATES[vbelow(r, 5)], ch = 1 + vbelow(r, 2), app = APPS[vbelow(r, 2)], err = 0, k, n = 2 + vbelow(r, 3), phase = 0;
   OpusEncoder *e = opus_encoder_create(Fs, ch, app, &err);
   OpusRepacketizer *rp = opus_repacketizer_create();
   unsigned char *pk[4], *outp = (unsigned char *)malloc(4 * MAXPKT);
   int len[4] = {0, 0, 0, 0}, fs = Fs / 50, nb;
   float *pcm = (float *)malloc(sizeof(float) * MAXFR * 2);
   acc *a = &j->a;
   sprintf(j->desc, "repack/%d/%d/%d", Fs, ch, app);
   for (k = 0; k < 4; k++) pk[k] = (unsigned char *)malloc(MAXPKT);
   call(a, err);
   if (!e || !rp) { hi(a, -999); goto done; }
   call(a, opus_encoder_ctl(e, OPUS_SET_BITRATE(12000 + (int)vbelow(r, 60000))));
   if (vchance(r, 50)) call(a, opus_encoder_ctl(e, OPUS_SET_VBR(0)));
   for (k = 0; k < n; k++) {
      gen_signal(r, pcm, fs, ch, Fs, &phase);
      len[k] = opus_encode_float(e, pcm, fs, pk[k], 1200); call(a, len[k]);
      if (len[k] > 0) hb(a, pk[k], len[k]);
   }
   opus_repacketizer_init(rp); a->calls++;
   for (k = 0; k < n; k++) if (len[k] > 0) call(a, opus_repacketizer_cat(rp, pk[k], len[k]));
   nb = opus_repacketizer_get_nb_frames(rp); call(a, nb);
   { int o = opus_repacketizer_out(rp, outp, 4 * MAXPKT); call(a, o); if (o > 0) {
        unsigned char toc; const unsigned char *fr[48]; opus_int16 sz[48]; int po = 0, c;
        hb(a, outp, o);
        c = opus_packet_parse(outp, o, &toc, fr, sz, &po); call(a, c); hi(a, toc); hi(a, po);
        call(a, opus_packet_pad(outp, o, o + 1 + (int)vbelow(r, 600)));
        call(a, opus_packet_unpad(outp, o + 700)); } }
   if (nb > 1) { int o = opus_repacketizer_out_range(rp, 1, nb, outp, 4 * MAXPKT); call(a, o); if (o > 0) hb(a, outp, o); }
   if (nb > 0) { int o = opus_repacketizer_out_range(rp, 0, 1, outp, 3); call(a, o); }
done:
   if (e) opus_encoder_destroy(e);
   if (rp) opus_repacketizer_destroy(rp);
   a->calls += 2;
   for (k = 0; k < 4; k++) free(pk[k]);
   free(outp); free(pcm);
}

/* kind 3: projection (ambisonics) encoder + decoder */
static void script_proj(job *j, vrng *r)
{
   int Fs = vchance(r, 60) ? 48000 : RATES[vbelow(r, 5)], ch = vchance(r, 70) ? 4 : 9, err = 0, streams = 0, coupled = 0;
   int f, nfr = 4 + vbelow(r, 5), phase = 0; opus_int32 msz = 0, gain = 0;
   OpusProjectionEncoder *e; OpusProjectionDecoder *d = NULL; unsigned char *mat = NULL;
   float *pcm = (float *)malloc(sizeof(float) * 960 * 9), *out = (float *)malloc(sizeof(float) * MAXFR * 9);
   unsigned char *pkt = (unsigned char *)malloc(MAXPKT);
   acc *a = &j->a;
   sprintf(j->desc, "proj/%d/%d/%d", Fs, ch, OPUS_APPLICATION_AUDIO);
   e = opus_projection_ambisonics_encoder_create(Fs, ch, 3, &streams, &coupled, OPUS_APPLICATION_AUDIO, &err);
   call(a, err); hi(a, streams); hi(a, coupled);
   if (!e || err) { hi(a, -999); goto done; }
   call(a, opus_projection_encoder_ctl(e, OPUS_PROJECTION_GET_DEMIXING_MATRIX_SIZE(&msz))); hi(a, msz);
   call(a, opus_projection_encoder_ctl(e, OPUS_PROJECTION_GET_DEMIXING_MATRIX_GAIN(&gain))); hi(a, gain);
   mat = (unsigned char *)malloc(msz > 0 ? msz : 1);
   call(a, opus_projection_encoder_ctl(e, OPUS_PROJECTION_GET_DEMIXING_MATRIX(mat, msz))); hb(a, mat, msz);
   d = opus_projection_decoder_create(Fs, ch, streams, coupled, mat, msz, &err); call(a, err);
   if (!d || err) { hi(a, -999); goto done; }
   call(a, opus_projection_encoder_ctl(e, OPUS_SET_BITRATE(ch * (16000 + (int)vbelow(r, 64000)))));
   for (f = 0; f < nfr; f++) {
      int fs = Fs / 50, len, dn; opus_uint32 er = 0, dr = 0;
      gen_signal(r, pcm, fs, ch, Fs, &phase);
      len = opus_projection_encode_float(e, pcm, fs, pkt, MAXPKT); call(a, len);
      if (len < 0) continue;
      hb(a, pkt, len);
      call(a, opus_projection_encoder_ctl(e, OPUS_GET_FINAL_RANGE(&er))); hi(a, er);
      dn = opus_projection_decode_float(d, pkt, len, out, MAXFR, 0); call(a, dn);
      if (dn > 0) hb(a, out, sizeof(float) * dn * ch);
      call(a, opus_projection_decoder_ctl(d, OPUS_GET_FINAL_RANGE(&dr))); hi(a, dr);
   }
done:
   if (e) opus_projection_encoder_destroy(e);
   if (d) opus_projection_decoder_destroy(d);
   a->calls += 2;
   free(mat); free(pcm); free(out); free(pkt);
}

static void run_job(job *j)
{
   vrng r;
   int kind = (j->tid + j->iter) % 5;
   r.s = j->seed * 0x9E3779B97F4A7C15ULL + (uint64_t)j->tid * 1000003ULL + (uint64_t)j->iter * 7919ULL;
   (void)vnext(&r);
   j->a.h = 0xcbf29ce484222325ULL; j->a.calls = 0;
   switch (kind) {
   case 0: script_encdec(j, &r, 0); break;
   case 1: script_ms(j, &r); break;
   case 2: script_repack(j, &r); break;
   case 3: script_proj(j, &r); break;
   default: script_encdec(j, &r, 1); break;
   }
}

static pthread_barrier_t bar;
static int g_iters;
static job *g_jobs;    /* [thread][iter], each slot written by exactly one thread */

static void *worker(void *arg)
{
   int tid = (int)(intptr_t)arg, it;
   pthread_barrier_wait(&bar);
   for (it = 0; it < g_iters; it++) run_job(&g_jobs[tid * g_iters + it]);
   return NULL;
}

int main(int argc, char **argv)
{
   int par, nthr, t, it; uint64_t seed;
   if (argc < 5) { fprintf(stderr, "usage: c14_threads par|ser <seed> <threads> <iters>\n"); return 64; }
   par = !strcmp(argv[1], "par"); seed = strtoull(argv[2], NULL, 10); nthr = atoi(argv[3]); g_iters = atoi(argv[4]);
   if (nthr < 1 || nthr > 256 || g_iters < 1) return 64;
   g_jobs = (job *)calloc((size_t)nthr * g_iters, sizeof(job));
   for (t = 0; t < nthr; t++) for (it = 0; it < g_iters; it++) {
      job *j = &g_jobs[t * g_iters + it]; j->tid = t; j->iter = it; j->seed = seed; }
   if (par) {
      pthread_t *th = (pthread_t *)calloc(nthr, sizeof(pthread_t));
      pthread_attr_t at; pthread_attr_init(&at); pthread_attr_setstacksize(&at, 16u << 20);
      pthread_barrier_init(&bar, NULL, nthr);
      for (t = 0; t < nthr; t++) if (pthread_create(&th[t], &at, worker, (void *)(intptr_t)t)) { perror("pthread_create"); return 70; }
      for (t = 0; t < nthr; t++) pthread_join(th[t], NULL);
      free(th);
   } else {
      for (t = 0; t < nthr; t++) for (it = 0; it < g_iters; it++) run_job(&g_jobs[t * g_iters + it]);
   }
   for (t = 0; t < nthr; t++) for (it = 0; it < g_iters; it++) {
      job *j = &g_jobs[t * g_iters + it];
      printf("T %d %d %s %016llx calls=%ld\n", t, it, j->desc, (unsigned long long)j->a.h, j->a.calls);
   }
#if defined(OPUS_HAVE_RTCD)
   printf("ARCH %d\n", opus_select_arch());
#else
   printf("ARCH none\n");
#endif
   free(g_jobs);
   return 0;
}
