/* c18_synthidx.c — driver + access recorder of the C18 index-safety tie (see c18_synthidx_inst.c).

   Mode `core <seed> <nrand>`: silk_decode_core (the repo's source, instrumented) on a real decoder state
   (silk_init_decoder + silk_decoder_set_fs) for all (fs_kHz, nb_subfr) x signal types x interpolation flag x
   transition-branch states x extreme lags (min_lag, max_lag, the last lag before celt_assert( start_idx > 0 )
   fires, the first one where it fires, lags below min_lag down to negative values) x gain patterns, plus random
   cases.  Per case it prints
      I silkparams synthcore <fs> <nb> <sig> <qoff> <interp> <pitchL0,..,3> <lossCnt> <prevSig> <lagPrev> <gainDiff bits> <adjNe bits>
      O OK <array>:r=<min>..<max>,w=<min>..<max> ...      (element indices actually read / written)   or   O ABORT
   which the Lean index model (OpusModel/SilkSynthIdx.lean) must reproduce exactly. */
#include "vcommon.h"
#include <setjmp.h>
#include "main.h"
#include "Inlines.h"

void verif_decode_core(silk_decoder_state *psDec, silk_decoder_control *psDecCtrl, opus_int16 xq[],
                       const opus_int16 pulses[MAX_FRAME_LENGTH], int arch);

/* ------------------------------------------------------------------ recorder */
#define GUARD 16384
typedef struct { const char *name; char *base; long n, esz; long zlo, zhi; long rmin, rmax, wmin, wmax; int heap; char *blk; } vreg;
static vreg regs[64]; static int nregs = 0; static int recording = 0;

static vreg *vreg_add(const char *name, void *base, long n, long esz, long guard)
{
   vreg *g = &regs[nregs++];
   g->name = name; g->base = (char *)base; g->n = n; g->esz = esz; g->zlo = guard; g->zhi = guard;
   g->rmin = g->wmin = 1L << 40; g->rmax = g->wmax = -(1L << 40); g->heap = 0; g->blk = NULL;
   return g;
}
void *vrec_alloc(const char *name, long n, long esz)
{
   long bytes = (n > 0 ? n : 0) * esz;
   char *blk = (char *)malloc(bytes + 2 * GUARD);
   vreg *g;
   memset(blk, 0x5a, bytes + 2 * GUARD);
   g = vreg_add(name, blk + GUARD, n, esz, GUARD);
   g->heap = 1; g->blk = blk;
   return blk + GUARD;
}
static void vreg_reset(void) { int i; for (i = 0; i < nregs; i++) if (regs[i].heap) free(regs[i].blk); nregs = 0; }

static void vtouch(const void *addr, long size, int wr)
{
   const char *a = (const char *)addr; int i;
   if (!recording) return;
   for (i = nregs - 1; i >= 0; i--) {
      vreg *g = &regs[i];
      if (a >= g->base - g->zlo && a < g->base + g->n * g->esz + g->zhi) {      /* attributed by its first byte */
         long off = (long)(a - g->base), lo, hi;
         lo = off >= 0 ? off / g->esz : -((-off + g->esz - 1) / g->esz);
         off += size - 1;
         hi = off >= 0 ? off / g->esz : -((-off + g->esz - 1) / g->esz);
         if (wr) { if (lo < g->wmin) g->wmin = lo; if (hi > g->wmax) g->wmax = hi; }
         else    { if (lo < g->rmin) g->rmin = lo; if (hi > g->rmax) g->rmax = hi; }
         return;
      }
   }
}
/* the compiler-inserted callbacks (no ThreadSanitizer runtime is linked) */
void __tsan_init(void) {}
void __tsan_func_entry(void *pc) { (void)pc; }
void __tsan_func_exit(void) {}
void __tsan_vptr_update(void **a, void *b) { (void)a; (void)b; }
void __tsan_vptr_read(void **a) { (void)a; }
#define VCB(n) void __tsan_read##n(void *a) { vtouch(a, n, 0); } void __tsan_write##n(void *a) { vtouch(a, n, 1); } \
               void __tsan_unaligned_read##n(void *a) { vtouch(a, n, 0); } void __tsan_unaligned_write##n(void *a) { vtouch(a, n, 1); }
VCB(1) VCB(2) VCB(4) VCB(8) VCB(16)
void __tsan_read_range(void *a, long n) { if (n > 0) vtouch(a, n, 0); }
void __tsan_write_range(void *a, long n) { if (n > 0) vtouch(a, n, 1); }
void *vrec_memcpy(void *d, const void *s, size_t n) { if (n) { vtouch(s, (long)n, 0); vtouch(d, (long)n, 1); } return memcpy(d, s, n); }
void *vrec_memmove(void *d, const void *s, size_t n) { if (n) { vtouch(s, (long)n, 0); vtouch(d, (long)n, 1); } return memmove(d, s, n); }
void *vrec_memset(void *d, int c, size_t n) { if (n) vtouch(d, (long)n, 1); return memset(d, c, n); }

static void pext(long lo, long hi) { if (lo > hi) printf("-"); else printf("%ld..%ld", lo, hi); }
static void print_extents(const char *const *names, int nn)
{
   int i, j;
   for (j = 0; j < nn; j++) {
      long rmin = 1L << 40, rmax = -(1L << 40), wmin = 1L << 40, wmax = -(1L << 40);
      for (i = 0; i < nregs; i++) if (!strcmp(regs[i].name, names[j])) {
         if (regs[i].rmin < rmin) rmin = regs[i].rmin; if (regs[i].rmax > rmax) rmax = regs[i].rmax;
         if (regs[i].wmin < wmin) wmin = regs[i].wmin; if (regs[i].wmax > wmax) wmax = regs[i].wmax;
      }
      printf("%s%s:r=", j ? " " : "", names[j]); pext(rmin, rmax); printf(",w="); pext(wmin, wmax);
   }
}

/* ------------------------------------------------------------------ celt_assert -> ABORT without ending the run */
static sigjmp_buf vjmp; static volatile int vjmp_armed = 0;
static void vabort_jump(int sig) { (void)sig; if (vjmp_armed) siglongjmp(vjmp, 1); fputs("\nO ABORT\n", stdout); fflush(stdout); _exit(3); }

/* ------------------------------------------------------------------ silk_decode_core */
typedef struct {
   int fs, nb, sig, qoff, interp, pitchL[4], lossCnt, prevSig, lagPrev;
   opus_int32 gains[4], prevGain;
} core_case;

static const char *const core_names[] = {"sLTP", "sLTP_Q15", "res_Q14", "sLPC_Q14", "exc_Q14", "outBuf", "sLPC_Q14_buf",
                                         "PredCoef_Q12", "LTPCoef_Q14", "Gains_Q16", "pitchL", "xq", "pulses"};

static void do_core(vrng *r, const core_case *cc)
{
   silk_decoder_state *st = (silk_decoder_state *)calloc(1, sizeof(*st));
   silk_decoder_control *ctl = (silk_decoder_control *)calloc(1, sizeof(*ctl));
   int k, i, F, npulses, gd[4], ad[4];
   opus_int16 *xq, *pulses; opus_int32 pg;
   silk_init_decoder(st);
   st->nb_subfr = cc->nb;
   silk_decoder_set_fs(st, cc->fs, 48000);
   F = st->frame_length;
   npulses = (F + SHELL_CODEC_FRAME_LENGTH - 1) & ~(SHELL_CODEC_FRAME_LENGTH - 1);
   st->indices.signalType = (opus_int8)cc->sig; st->indices.quantOffsetType = (opus_int8)cc->qoff;
   st->indices.NLSFInterpCoef_Q2 = (opus_int8)(cc->interp ? vbelow(r, 4) : 4);
   st->indices.Seed = (opus_int8)vbelow(r, 4);
   st->lossCnt = cc->lossCnt; st->prevSignalType = cc->prevSig; st->lagPrev = cc->lagPrev;
   st->prev_gain_Q16 = cc->prevGain;
   for (i = 0; i < MAX_FRAME_LENGTH + 2 * MAX_SUB_FRAME_LENGTH; i++) st->outBuf[i] = (opus_int16)vrange(r, -3000, 3000);
   for (i = 0; i < MAX_LPC_ORDER; i++) st->sLPC_Q14_buf[i] = vrange(r, -100000, 100000);
   for (k = 0; k < 4; k++) { ctl->pitchL[k] = cc->pitchL[k]; ctl->Gains_Q16[k] = cc->gains[k]; }
   for (k = 0; k < 2; k++) for (i = 0; i < MAX_LPC_ORDER; i++) ctl->PredCoef_Q12[k][i] = (opus_int16)vrange(r, -600, 600);
   for (i = 0; i < LTP_ORDER * MAX_NB_SUBFR; i++) ctl->LTPCoef_Q14[i] = (opus_int16)vrange(r, -2000, 4000);
   ctl->LTP_scale_Q14 = 15565;
   /* the two gain predicates that steer loops (decode_core.c:116, :169), computed with the library's own inline */
   pg = cc->prevGain;
   for (k = 0; k < 4; k++) {
      gd[k] = cc->gains[k] != pg;
      ad[k] = gd[k] && silk_DIV32_varQ(pg, cc->gains[k], 16) != ((opus_int32)1 << 16);
      pg = cc->gains[k];
   }
   printf("I silkparams synthcore %d %d %d %d %d %d,%d,%d,%d %d %d %d %d%d%d%d %d%d%d%d\n", cc->fs, cc->nb, cc->sig, cc->qoff, cc->interp,
          cc->pitchL[0], cc->pitchL[1], cc->pitchL[2], cc->pitchL[3], cc->lossCnt, cc->prevSig, cc->lagPrev,
          gd[0], gd[1], gd[2], gd[3], ad[0], ad[1], ad[2], ad[3]);
   fflush(stdout);
   vreg_reset();
   xq = (opus_int16 *)vrec_alloc("xq", F, sizeof(opus_int16));
   pulses = (opus_int16 *)vrec_alloc("pulses", npulses, sizeof(opus_int16));
   for (i = 0; i < npulses; i++) pulses[i] = (opus_int16)(vchance(r, 70) ? 0 : vrange(r, -12, 12));
   vreg_add("exc_Q14", st->exc_Q14, MAX_FRAME_LENGTH, sizeof(opus_int32), 0);
   vreg_add("outBuf", st->outBuf, MAX_FRAME_LENGTH + 2 * MAX_SUB_FRAME_LENGTH, sizeof(opus_int16), 0);
   vreg_add("sLPC_Q14_buf", st->sLPC_Q14_buf, MAX_LPC_ORDER, sizeof(opus_int32), 0);
   vreg_add("PredCoef_Q12", ctl->PredCoef_Q12, 2 * MAX_LPC_ORDER, sizeof(opus_int16), 0);
   vreg_add("LTPCoef_Q14", ctl->LTPCoef_Q14, LTP_ORDER * MAX_NB_SUBFR, sizeof(opus_int16), 0);
   vreg_add("Gains_Q16", ctl->Gains_Q16, MAX_NB_SUBFR, sizeof(opus_int32), 0);
   vreg_add("pitchL", ctl->pitchL, MAX_NB_SUBFR, sizeof(opus_int), 0);
   vjmp_armed = 1;
   if (sigsetjmp(vjmp, 1) == 0) {
      recording = 1;
      verif_decode_core(st, ctl, xq, pulses, 0);
      recording = 0; vjmp_armed = 0;
      printf("O OK "); print_extents(core_names, (int)(sizeof(core_names) / sizeof(core_names[0]))); printf("\n");
   } else {
      recording = 0; vjmp_armed = 0;
      printf("O ABORT\n");
   }
   vreg_reset();
   free(st); free(ctl);
}

static void run_core(uint64_t seed, long nrand)
{
   static const int fss[3] = {8, 12, 16};
   vrng r; int f, nb, sig, interp, tr, li, gp, k; long c;
   r.s = seed * 0x2545F4914F6CDD1DULL + 77;
   for (f = 0; f < 3; f++) for (nb = 2; nb <= 4; nb += 2) {
      int fs = fss[f], order = fs == 16 ? 16 : 10, L = 20 * fs, minl = 2 * fs, maxl = 18 * fs;
      int lastok = L - order - 2 - 1;                       /* largest lag with start_idx > 0 */
      int lags[] = {minl, minl + 1, (minl + maxl) / 2, maxl - 1, maxl, maxl + 1, lastok, lastok + 1, lastok + 9, L,
                    minl - 1, 5, 3, 2, 1, 0, -1, -2, -3, -order - 2, -order - 3};
      int nl = (int)(sizeof(lags) / sizeof(lags[0]));
      for (sig = 0; sig <= 2; sig++) for (interp = 0; interp < 2; interp++) for (tr = 0; tr < 3; tr++) for (gp = 0; gp < 3; gp++)
      for (li = 0; li < nl; li++) {
         core_case cc;
         if (sig != 2 && tr != 2 && li > 0) continue;        /* lags are not used: one case is enough */
         if (sig == 2 && tr == 2 && li > 2) continue;        /* transition branch not taken for voiced frames */
         cc.fs = fs; cc.nb = nb; cc.sig = sig; cc.qoff = (li + gp) & 1; cc.interp = interp;
         for (k = 0; k < 4; k++) cc.pitchL[k] = sig == 2 ? lags[li] : 0;
         if (sig == 2 && (li % 3) == 1) { cc.pitchL[1] = lags[(li + 1) % nl]; cc.pitchL[3] = lags[(li + 2) % nl]; }
         if (sig == 2 && (li % 3) == 2) { cc.pitchL[2] = lags[(li + 5) % nl]; }
         cc.lossCnt = tr == 0 ? 0 : 1 + (li & 1); cc.prevSig = tr == 2 ? TYPE_VOICED : (tr == 1 ? TYPE_UNVOICED : TYPE_NO_VOICE_ACTIVITY);
         cc.lagPrev = tr == 2 ? lags[li] : 100;
         cc.prevGain = 65536 * 4;
         for (k = 0; k < 4; k++) cc.gains[k] = gp == 0 ? cc.prevGain : gp == 1 ? (65536 << (k & 1 ? 3 : 1)) : (k == 2 ? 65536 * 9 : 65536 * 4);
         do_core(&r, &cc);
      }
   }
   for (c = 0; c < nrand; c++) {
      core_case cc; int fs = fss[vbelow(&r, 3)], minl = 2 * fs, maxl = 18 * fs;
      cc.fs = fs; cc.nb = vchance(&r, 50) ? 2 : 4; cc.sig = (int)vbelow(&r, 3); cc.qoff = (int)vbelow(&r, 2); cc.interp = (int)vbelow(&r, 2);
      { int base = vrange(&r, minl, maxl); for (k = 0; k < 4; k++) { int v = base + vrange(&r, -12, 12); cc.pitchL[k] = cc.sig == 2 ? (v < minl ? minl : v > maxl ? maxl : v) : 0; } }
      if (vchance(&r, 10)) cc.pitchL[vbelow(&r, 4)] = vrange(&r, -30, 20 * fs + 20);          /* any lag, also illegal ones */
      cc.lossCnt = vchance(&r, 40) ? (int)vbelow(&r, 4) : 0; cc.prevSig = (int)vbelow(&r, 3);
      cc.lagPrev = vchance(&r, 85) ? vrange(&r, minl, maxl) : vrange(&r, -30, 20 * fs + 20);
      cc.prevGain = 1 << vrange(&r, 10, 24);
      for (k = 0; k < 4; k++) cc.gains[k] = vchance(&r, 40) ? (k ? cc.gains[k - 1] : cc.prevGain) : (opus_int32)(1 << vrange(&r, 10, 24)) + (opus_int32)vbelow(&r, 1000);
      do_core(&r, &cc);
   }
}

int main(int argc, char **argv)
{
   signal(SIGABRT, vabort_jump);
   if (argc >= 4 && !strcmp(argv[1], "core")) run_core(strtoull(argv[2], 0, 10), atol(argv[3]));
   else { fprintf(stderr, "usage: c18_synthidx core <seed> <nrand>\n"); return 64; }
   fflush(stdout);
   return 0;
}
