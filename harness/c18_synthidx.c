/* c18_synthidx.c — driver + access recorder of the C18 index-safety tie (see c18_synthidx_inst.c).

   Mode `core <seed> <nrand>`: silk_decode_core (the repo's source, instrumented) on a real decoder state
   (silk_init_decoder + silk_decoder_set_fs) for all (fs_kHz, nb_subfr) x signal types x interpolation flag x
   transition-branch states x extreme lags (min_lag, max_lag, the last lag before celt_assert( start_idx > 0 )
   fires, the first one where it fires, lags below min_lag down to negative values) x gain patterns, plus random
   cases.  Per case it prints
      I silkparams synthcore <fs> <nb> <sig> <qoff> <interp> <pitchL0,..,3> <lossCnt> <prevSig> <lagPrev> <gainDiff bits> <adjNe bits>
      O OK <array>:r=<min>..<max>,w=<min>..<max> ...      (element indices actually read / written)   or   O ABORT
   which the Lean index model (OpusModel/SilkSynthIdx.lean) must reproduce exactly. */
#include "vcommon.h"
#include <setjmp.h>
#include "main.h"
#include "Inlines.h"
#include "PLC.h"
#include "pitch_est_defines.h"
#include "tables.h"

void verif_decode_core(silk_decoder_state *psDec, silk_decoder_control *psDecCtrl, opus_int16 xq[],
                       const opus_int16 pulses[MAX_FRAME_LENGTH], int arch);

/* ------------------------------------------------------------------ recorder */
#define GUARD 16384
#define NPH 6
typedef struct { const char *name; char *base; long n, esz; long zlo, zhi; long rmin[NPH], rmax[NPH], wmin[NPH], wmax[NPH]; int heap; char *blk; unsigned char *wbm; long uninit; } vreg;
static vreg regs[96]; static int nregs = 0; static int recording = 0; static int cur_phase = 0;
void vrec_phase(int ph) { cur_phase = ph; }

static void vtouch(const void *addr, long size, int wr);
static vreg *vreg_add(const char *name, void *base, long n, long esz, long guard)
{
   vreg *g = &regs[nregs++];
   g->name = name; g->base = (char *)base; g->n = n; g->esz = esz; g->zlo = guard; g->zhi = guard;
   { int q; for (q = 0; q < NPH; q++) { g->rmin[q] = g->wmin[q] = 1L << 40; g->rmax[q] = g->wmax[q] = -(1L << 40); } }
   g->heap = 0; g->blk = NULL; g->wbm = NULL; g->uninit = 0;
   return g;
}
static struct { const char *name; long n; } vallocs[32]; static int nvallocs = 0; static int g_nChInt = 1;
void *vrec_alloc(const char *name, long n, long esz)
{
   long bytes = (n > 0 ? n : 0) * esz;
   char *blk = (char *)malloc(bytes + 2 * GUARD);
   vreg *g;
   memset(blk, 0x5a, bytes + 2 * GUARD);
   g = vreg_add(name, blk + GUARD, n, esz, GUARD);
   g->heap = 1; g->blk = blk;
   g->wbm = (unsigned char *)calloc(bytes + 1, 1);       /* which bytes of this fresh (ALLOC'ed) array have been written */
   if (nvallocs < 32) { vallocs[nvallocs].name = name; vallocs[nvallocs].n = n; nvallocs++; }
   if (!strcmp(name, "samplesOut1_tmp_storage1") && g_nChInt >= 1 && n % g_nChInt == 0) {
      /* the two rows samplesOut1_tmp[ 0 ], samplesOut1_tmp[ 1 ] as separate regions (an access one past a row shows up) */
      long row = n / g_nChInt; vreg *t;
      t = vreg_add("tmp0", blk + GUARD, row, esz, 0); t->zlo = GUARD; t->zhi = g_nChInt == 2 ? 0 : GUARD;
      if (g_nChInt == 2) { t = vreg_add("tmp1", blk + GUARD + row * esz, row, esz, 0); t->zhi = GUARD; }
   }
   if (!strcmp(name, "psDecCtrl")) {          /* ALLOC( psDecCtrl, 1, silk_decoder_control ) in silk_decode_frame: its arrays */
      silk_decoder_control *ctl = (silk_decoder_control *)(blk + GUARD);
      memset(ctl, 0, sizeof(*ctl));
      vreg_add("PredCoef_Q12", ctl->PredCoef_Q12, 2 * MAX_LPC_ORDER, sizeof(opus_int16), 0);
      vreg_add("LTPCoef_Q14", ctl->LTPCoef_Q14, LTP_ORDER * MAX_NB_SUBFR, sizeof(opus_int16), 0);
      vreg_add("Gains_Q16", ctl->Gains_Q16, MAX_NB_SUBFR, sizeof(opus_int32), 0);
      vreg_add("pitchL", ctl->pitchL, MAX_NB_SUBFR, sizeof(opus_int), 0);
   }
   return blk + GUARD;
}
static void vreg_reset(void) { int i; for (i = 0; i < nregs; i++) if (regs[i].heap) { free(regs[i].blk); free(regs[i].wbm); } nregs = 0; nvallocs = 0; }
/* initialised-before-read verdict for a fresh array: "bad" when some byte inside it was read before any write to it */
static void print_init(const char *name)
{
   int i; long u = 0, found = 0;
   for (i = 0; i < nregs; i++) if (regs[i].wbm && !strcmp(regs[i].name, name)) { u += regs[i].uninit; found = 1; }
   printf(" init{%s=%s}", name, !found ? "na" : u ? "bad" : "ok");
}
static void print_allocs(const char *const *names, int nn)
{
   int i, j, first = 1;
   printf(" alloc{");
   for (j = 0; j < nn; j++) for (i = 0; i < nvallocs; i++) if (!strcmp(vallocs[i].name, names[j])) { printf("%s%s=%ld", first ? "" : " ", names[j], vallocs[i].n); first = 0; break; }
   printf("}");
}

static void vtouch(const void *addr, long size, int wr)
{
   const char *a = (const char *)addr; int i;
   if (!recording) return;
   for (i = nregs - 1; i >= 0; i--) {
      vreg *g = &regs[i];
      if (a >= g->base - g->zlo && a < g->base + g->n * g->esz + g->zhi) {      /* attributed by its first byte */
         long off = (long)(a - g->base), lo, hi;
         lo = off >= 0 ? off / g->esz : -((-off + g->esz - 1) / g->esz);
         off += size - 1;
         hi = off >= 0 ? off / g->esz : -((-off + g->esz - 1) / g->esz);
         if (g->wbm) {
            long b0 = (long)(a - g->base), b1 = b0 + size, tot = g->n * g->esz, b; int un = 0;
            if (b0 < 0) b0 = 0; if (b1 > tot) b1 = tot;
            if (wr) for (b = b0; b < b1; b++) g->wbm[b] = 1;
            else { for (b = b0; b < b1; b++) if (!g->wbm[b]) un = 1; g->uninit += un; }
         }
         if (wr) { if (lo < g->wmin[cur_phase]) g->wmin[cur_phase] = lo; if (hi > g->wmax[cur_phase]) g->wmax[cur_phase] = hi; }
         else    { if (lo < g->rmin[cur_phase]) g->rmin[cur_phase] = lo; if (hi > g->rmax[cur_phase]) g->rmax[cur_phase] = hi; }
         return;
      }
   }
}
/* the compiler-inserted callbacks (no ThreadSanitizer runtime is linked) */
void __tsan_init(void) {}
void __tsan_func_entry(void *pc) { (void)pc; }
void __tsan_func_exit(void) {}
void __tsan_vptr_update(void **a, void *b) { (void)a; (void)b; }
void __tsan_vptr_read(void **a) { (void)a; }
#define VCB(n) void __tsan_read##n(void *a) { vtouch(a, n, 0); } void __tsan_write##n(void *a) { vtouch(a, n, 1); } \
               void __tsan_unaligned_read##n(void *a) { vtouch(a, n, 0); } void __tsan_unaligned_write##n(void *a) { vtouch(a, n, 1); }
VCB(1) VCB(2) VCB(4) VCB(8) VCB(16)
void __tsan_read_range(void *a, long n) { if (n > 0) vtouch(a, n, 0); }
void __tsan_write_range(void *a, long n) { if (n > 0) vtouch(a, n, 1); }
void *vrec_memcpy(void *d, const void *s, size_t n) { if (n) { vtouch(s, (long)n, 0); vtouch(d, (long)n, 1); } return memcpy(d, s, n); }
void *vrec_memmove(void *d, const void *s, size_t n) { if (n) { vtouch(s, (long)n, 0); vtouch(d, (long)n, 1); } return memmove(d, s, n); }
void *vrec_memset(void *d, int c, size_t n) { if (n) vtouch(d, (long)n, 1); return memset(d, c, n); }

static void pext(long lo, long hi) { if (lo > hi) printf("-"); else printf("%ld..%ld", lo, hi); }
static void get_extent(const char *name, int ph, long *rmin, long *rmax, long *wmin, long *wmax)
{
   int i;
   *rmin = *wmin = 1L << 40; *rmax = *wmax = -(1L << 40);
   for (i = 0; i < nregs; i++) if (!strcmp(regs[i].name, name)) {
      if (regs[i].rmin[ph] < *rmin) *rmin = regs[i].rmin[ph]; if (regs[i].rmax[ph] > *rmax) *rmax = regs[i].rmax[ph];
      if (regs[i].wmin[ph] < *wmin) *wmin = regs[i].wmin[ph]; if (regs[i].wmax[ph] > *wmax) *wmax = regs[i].wmax[ph];
   }
}
static void print_extents_ph(const char *const *names, int nn, int ph)
{
   int j;
   for (j = 0; j < nn; j++) {
      long rmin, rmax, wmin, wmax;
      get_extent(names[j], ph, &rmin, &rmax, &wmin, &wmax);
      printf("%s%s:r=", j ? " " : "", names[j]); pext(rmin, rmax); printf(",w="); pext(wmin, wmax);
   }
}
static void print_extents(const char *const *names, int nn) { print_extents_ph(names, nn, 0); }
void vrec_note(const void *p, long bytes, int wr) { if (bytes > 0) vtouch(p, bytes, wr); }

/* ------------------------------------------------------------------ celt_assert -> ABORT without ending the run */
static sigjmp_buf vjmp; static volatile int vjmp_armed = 0; static int last_abort = 0;
static void vabort_jump(int sig) { (void)sig; if (vjmp_armed) siglongjmp(vjmp, 1); fputs("\nO ABORT\n", stdout); fflush(stdout); _exit(3); }

/* ------------------------------------------------------------------ silk_decode_core */
typedef struct {
   int fs, nb, sig, qoff, interp, pitchL[4], lossCnt, prevSig, lagPrev;
   opus_int32 gains[4], prevGain;
} core_case;

static const char *const core_names[] = {"sLTP", "sLTP_Q15", "res_Q14", "sLPC_Q14", "exc_Q14", "outBuf", "sLPC_Q14_buf",
                                         "PredCoef_Q12", "LTPCoef_Q14", "Gains_Q16", "pitchL", "xq", "pulses"};

static const char *const alloc_names[] = {"pulses", "sLTP", "sLTP_Q15", "res_Q14", "sLPC_Q14", "sLTP_Q14", "exc_buf", "CNG_sig_Q14", "unused"};
static void do_core(vrng *r, const core_case *cc)
{
   silk_decoder_state *st = (silk_decoder_state *)calloc(1, sizeof(*st));
   silk_decoder_control *ctl = (silk_decoder_control *)calloc(1, sizeof(*ctl));
   int k, i, F, npulses, gd[4], ad[4];
   opus_int16 *xq, *pulses; opus_int32 pg;
   silk_init_decoder(st);
   st->nb_subfr = cc->nb;
   silk_decoder_set_fs(st, cc->fs, 48000);
   F = st->frame_length;
   npulses = (F + SHELL_CODEC_FRAME_LENGTH - 1) & ~(SHELL_CODEC_FRAME_LENGTH - 1);
   st->indices.signalType = (opus_int8)cc->sig; st->indices.quantOffsetType = (opus_int8)cc->qoff;
   st->indices.NLSFInterpCoef_Q2 = (opus_int8)(cc->interp ? vbelow(r, 4) : 4);
   st->indices.Seed = (opus_int8)vbelow(r, 4);
   st->lossCnt = cc->lossCnt; st->prevSignalType = cc->prevSig; st->lagPrev = cc->lagPrev;
   st->prev_gain_Q16 = cc->prevGain;
   for (i = 0; i < MAX_FRAME_LENGTH + 2 * MAX_SUB_FRAME_LENGTH; i++) st->outBuf[i] = (opus_int16)vrange(r, -3000, 3000);
   for (i = 0; i < MAX_LPC_ORDER; i++) st->sLPC_Q14_buf[i] = vrange(r, -100000, 100000);
   for (k = 0; k < 4; k++) { ctl->pitchL[k] = cc->pitchL[k]; ctl->Gains_Q16[k] = cc->gains[k]; }
   for (k = 0; k < 2; k++) for (i = 0; i < MAX_LPC_ORDER; i++) ctl->PredCoef_Q12[k][i] = (opus_int16)vrange(r, -600, 600);
   for (i = 0; i < LTP_ORDER * MAX_NB_SUBFR; i++) ctl->LTPCoef_Q14[i] = (opus_int16)vrange(r, -2000, 4000);
   ctl->LTP_scale_Q14 = 15565;
   /* the two gain predicates that steer loops (decode_core.c:116, :169), computed with the library's own inline */
   pg = cc->prevGain;
   for (k = 0; k < 4; k++) {
      gd[k] = cc->gains[k] != pg;
      ad[k] = gd[k] && silk_DIV32_varQ(pg, cc->gains[k], 16) != ((opus_int32)1 << 16);
      pg = cc->gains[k];
   }
   printf("I silkparams synthcore %d %d %d %d %d %d,%d,%d,%d %d %d %d %d%d%d%d %d%d%d%d\n", cc->fs, cc->nb, cc->sig, cc->qoff, cc->interp,
          cc->pitchL[0], cc->pitchL[1], cc->pitchL[2], cc->pitchL[3], cc->lossCnt, cc->prevSig, cc->lagPrev,
          gd[0], gd[1], gd[2], gd[3], ad[0], ad[1], ad[2], ad[3]);
   fflush(stdout);
   vreg_reset();
   xq = (opus_int16 *)vrec_alloc("xq", F, sizeof(opus_int16));
   pulses = (opus_int16 *)vrec_alloc("pulses", npulses, sizeof(opus_int16));
   for (i = 0; i < npulses; i++) pulses[i] = (opus_int16)(vchance(r, 70) ? 0 : vrange(r, -12, 12));
   vreg_add("exc_Q14", st->exc_Q14, MAX_FRAME_LENGTH, sizeof(opus_int32), 0);
   vreg_add("outBuf", st->outBuf, MAX_FRAME_LENGTH + 2 * MAX_SUB_FRAME_LENGTH, sizeof(opus_int16), 0);
   vreg_add("sLPC_Q14_buf", st->sLPC_Q14_buf, MAX_LPC_ORDER, sizeof(opus_int32), 0);
   vreg_add("PredCoef_Q12", ctl->PredCoef_Q12, 2 * MAX_LPC_ORDER, sizeof(opus_int16), 0);
   vreg_add("LTPCoef_Q14", ctl->LTPCoef_Q14, LTP_ORDER * MAX_NB_SUBFR, sizeof(opus_int16), 0);
   vreg_add("Gains_Q16", ctl->Gains_Q16, MAX_NB_SUBFR, sizeof(opus_int32), 0);
   vreg_add("pitchL", ctl->pitchL, MAX_NB_SUBFR, sizeof(opus_int), 0);
   vjmp_armed = 1;
   if (sigsetjmp(vjmp, 1) == 0) {
      recording = 1;
      verif_decode_core(st, ctl, xq, pulses, 0);
      recording = 0; vjmp_armed = 0;
      printf("O OK "); print_extents(core_names, (int)(sizeof(core_names) / sizeof(core_names[0]))); print_allocs(alloc_names + 1, 4); print_init("sLTP_Q15"); printf("\n");
   } else {
      recording = 0; vjmp_armed = 0;
      printf("O ABORT\n");
   }
   vreg_reset();
   free(st); free(ctl);
}

static void run_core(uint64_t seed, long nrand)
{
   static const int fss[3] = {8, 12, 16};
   vrng r; int f, nb, sig, interp, tr, li, gp, k; long c;
   r.s = seed * 0x2545F4914F6CDD1DULL + 77;
   for (f = 0; f < 3; f++) for (nb = 2; nb <= 4; nb += 2) {
      int fs = fss[f], order = fs == 16 ? 16 : 10, L = 20 * fs, minl = 2 * fs, maxl = 18 * fs;
      int lastok = L - order - 2 - 1;                       /* largest lag with start_idx > 0 */
      int lags[] = {minl, minl + 1, (minl + maxl) / 2, maxl - 1, maxl, maxl + 1, lastok, lastok + 1, lastok + 9, L,
                    minl - 1, 5, 3, 2, 1, 0, -1, -2, -3, -order - 2, -order - 3};
      int nl = (int)(sizeof(lags) / sizeof(lags[0]));
      for (sig = 0; sig <= 2; sig++) for (interp = 0; interp < 2; interp++) for (tr = 0; tr < 3; tr++) for (gp = 0; gp < 3; gp++)
      for (li = 0; li < nl; li++) {
         core_case cc;
         if (sig != 2 && tr != 2 && li > 0) continue;        /* lags are not used: one case is enough */
         if (sig == 2 && tr == 2 && li > 2) continue;        /* transition branch not taken for voiced frames */
         cc.fs = fs; cc.nb = nb; cc.sig = sig; cc.qoff = (li + gp) & 1; cc.interp = interp;
         for (k = 0; k < 4; k++) cc.pitchL[k] = sig == 2 ? lags[li] : 0;
         if (sig == 2 && (li % 3) == 1) { cc.pitchL[1] = lags[(li + 1) % nl]; cc.pitchL[3] = lags[(li + 2) % nl]; }
         if (sig == 2 && (li % 3) == 2) { cc.pitchL[2] = lags[(li + 5) % nl]; }
         cc.lossCnt = tr == 0 ? 0 : 1 + (li & 1); cc.prevSig = tr == 2 ? TYPE_VOICED : (tr == 1 ? TYPE_UNVOICED : TYPE_NO_VOICE_ACTIVITY);
         cc.lagPrev = tr == 2 ? lags[li] : 100;
         cc.prevGain = 65536 * 4;
         for (k = 0; k < 4; k++) cc.gains[k] = gp == 0 ? cc.prevGain : gp == 1 ? (65536 << (k & 1 ? 3 : 1)) : (k == 2 ? 65536 * 9 : 65536 * 4);
         do_core(&r, &cc);
      }
   }
   for (c = 0; c < nrand; c++) {
      core_case cc; int fs = fss[vbelow(&r, 3)], minl = 2 * fs, maxl = 18 * fs;
      cc.fs = fs; cc.nb = vchance(&r, 50) ? 2 : 4; cc.sig = (int)vbelow(&r, 3); cc.qoff = (int)vbelow(&r, 2); cc.interp = (int)vbelow(&r, 2);
      { int base = vrange(&r, minl, maxl); for (k = 0; k < 4; k++) { int v = base + vrange(&r, -12, 12); cc.pitchL[k] = cc.sig == 2 ? (v < minl ? minl : v > maxl ? maxl : v) : 0; } }
      if (vchance(&r, 10)) cc.pitchL[vbelow(&r, 4)] = vrange(&r, -30, 20 * fs + 20);          /* any lag, also illegal ones */
      cc.lossCnt = vchance(&r, 40) ? (int)vbelow(&r, 4) : 0; cc.prevSig = (int)vbelow(&r, 3);
      cc.lagPrev = vchance(&r, 85) ? vrange(&r, minl, maxl) : vrange(&r, -30, 20 * fs + 20);
      cc.prevGain = 1 << vrange(&r, 10, 24);
      for (k = 0; k < 4; k++) cc.gains[k] = vchance(&r, 40) ? (k ? cc.gains[k - 1] : cc.prevGain) : (opus_int32)(1 << vrange(&r, 10, 24)) + (opus_int32)vbelow(&r, 1000);
      do_core(&r, &cc);
   }
}


/* ------------------------------------------------------------------ silk_decode_frame over scripted histories */
opus_int verif_decode_frame(silk_decoder_state *psDec, ec_dec *psRangeDec, opus_int16 pOut[], opus_int32 *pN,
                            opus_int lostFlag, opus_int condCoding, int arch);

typedef struct { int sig, qoff, interp, pitchL[4]; opus_int16 ltp[20]; opus_int32 gains[4]; vrng *r; } frame_script;
static frame_script fscr;

void vstub_decode_indices(silk_decoder_state *psDec, ec_dec *rd, opus_int FrameIndex, opus_int decode_LBRR, opus_int condCoding)
{
   (void)rd; (void)FrameIndex; (void)decode_LBRR; (void)condCoding;
   psDec->indices.signalType = (opus_int8)fscr.sig; psDec->indices.quantOffsetType = (opus_int8)fscr.qoff;
   psDec->indices.NLSFInterpCoef_Q2 = (opus_int8)(fscr.interp ? vbelow(fscr.r, 4) : 4);
   psDec->indices.Seed = (opus_int8)vbelow(fscr.r, 4);
}
void vstub_decode_pulses(ec_dec *rd, opus_int16 pulses[], const opus_int signalType, const opus_int quantOffsetType, const opus_int frame_length)
{
   int i; (void)rd; (void)signalType; (void)quantOffsetType;
   for (i = 0; i < frame_length; i++) pulses[i] = (opus_int16)(vchance(fscr.r, 60) ? 0 : vrange(fscr.r, -20, 20));
}
void vstub_decode_parameters(silk_decoder_state *psDec, silk_decoder_control *ctl, opus_int condCoding)
{
   int i, k, v = 0; (void)condCoding;
   for (k = 0; k < 4; k++) { ctl->pitchL[k] = fscr.pitchL[k]; ctl->Gains_Q16[k] = fscr.gains[k]; }
   for (k = 0; k < 2; k++) for (i = 0; i < MAX_LPC_ORDER; i++) ctl->PredCoef_Q12[k][i] = (opus_int16)vrange(fscr.r, -500, 500);
   for (i = 0; i < LTP_ORDER * MAX_NB_SUBFR; i++) ctl->LTPCoef_Q14[i] = fscr.ltp[i];
   ctl->LTP_scale_Q14 = 15565;
   for (i = 0; i < psDec->LPC_order; i++) { v += vrange(fscr.r, 300, 32000 / 17); psDec->prevNLSF_Q15[i] = (opus_int16)v; }   /* ordered */
}

static const char *const plc_names[] = {"sLTP", "sLTP_Q14", "exc_buf", "exc_Q14", "outBuf", "sLPC_Q14_buf", "PLC_LTPCoef_Q14",
                                        "prevLPC_Q12", "prevGain_Q16", "PredCoef_Q12", "LTPCoef_Q14", "Gains_Q16", "pitchL", "xq"};
static const char *const top_names[] = {"outBuf", "xq", "pitchL"};
static const char *const cng_names[] = {"CNG_exc_buf_Q14", "CNG_smth_NLSF_Q15", "CNG_synth_state", "CNG_sig_Q14", "prevNLSF_Q15",
                                        "Gains_Q16", "exc_Q14", "prevGain_Q16", "xq"};
#define NEL(a) ((int)(sizeof(a) / sizeof((a)[0])))

static void print_state(const silk_decoder_state *st)
{
   printf("%d %d %d %d %d %d %d %d %d %d %d %d %d %d", st->fs_kHz, st->nb_subfr, st->lossCnt, st->prevSignalType, st->lagPrev,
          st->first_frame_after_reset, st->sPLC.fs_kHz, (int)st->sPLC.pitchL_Q8, st->sPLC.nb_subfr, st->sPLC.subfr_length,
          st->sPLC.last_frame_lost, (int)st->sPLC.rand_seed, st->sCNG.fs_kHz, (int)st->sCNG.rand_seed);
}

/* PLC.c:264-272: which of the last two sub-frames has the lower energy (the library's own arithmetic, recomputed
   here only to tell the model which branch the code is going to take) */
static int plc_low_first(const silk_decoder_state *st)
{
   opus_int32 g[2], e1, e2; opus_int s1, s2; int i, k, S = st->subfr_length, nb = st->nb_subfr;
   opus_int16 buf[2 * MAX_SUB_FRAME_LENGTH];
   if (st->fs_kHz != st->sPLC.fs_kHz) g[0] = g[1] = 65536 >> 6; else { g[0] = st->sPLC.prevGain_Q16[0] >> 6; g[1] = st->sPLC.prevGain_Q16[1] >> 6; }
   for (k = 0; k < 2; k++) for (i = 0; i < S; i++)
      buf[k * S + i] = (opus_int16)silk_SAT16(silk_RSHIFT(silk_SMULWW(st->exc_Q14[i + (k + nb - 2) * S], g[k]), 8));
   silk_sum_sqr_shift(&e1, &s1, buf, S); silk_sum_sqr_shift(&e2, &s2, buf + S, S);
   return silk_RSHIFT(e1, s2) < silk_RSHIFT(e2, s1);
}

static void do_frame(silk_decoder_state *st, vrng *r, int lost)
{
   int k, i, F = st->frame_length, gd[4], ad[4], lowFirst = 0; opus_int32 pg, pN = 0; opus_int16 *xq;
   pg = st->prev_gain_Q16;
   for (k = 0; k < 4; k++) { gd[k] = fscr.gains[k] != pg; ad[k] = gd[k] && silk_DIV32_varQ(pg, fscr.gains[k], 16) != ((opus_int32)1 << 16); pg = fscr.gains[k]; }
   if (lost) lowFirst = plc_low_first(st);
   printf("I silkparams synthframe "); print_state(st);
   printf(" %d %d %d %d %d,%d,%d,%d ", lost, fscr.sig, fscr.qoff, fscr.interp, fscr.pitchL[0], fscr.pitchL[1], fscr.pitchL[2], fscr.pitchL[3]);
   for (i = 0; i < 20; i++) printf("%s%d", i ? "," : "", fscr.ltp[i]);
   printf(" %d,%d,%d,%d %d%d%d%d %d%d%d%d %d\n", fscr.gains[0], fscr.gains[1], fscr.gains[2], fscr.gains[3], gd[0], gd[1], gd[2], gd[3], ad[0], ad[1], ad[2], ad[3], lowFirst);
   fflush(stdout);
   vreg_reset();
   xq = (opus_int16 *)vrec_alloc("xq", F, sizeof(opus_int16));
   vreg_add("exc_Q14", st->exc_Q14, MAX_FRAME_LENGTH, sizeof(opus_int32), 0);
   vreg_add("outBuf", st->outBuf, MAX_FRAME_LENGTH + 2 * MAX_SUB_FRAME_LENGTH, sizeof(opus_int16), 0);
   vreg_add("sLPC_Q14_buf", st->sLPC_Q14_buf, MAX_LPC_ORDER, sizeof(opus_int32), 0);
   vreg_add("prevNLSF_Q15", st->prevNLSF_Q15, MAX_LPC_ORDER, sizeof(opus_int16), 0);
   vreg_add("PLC_LTPCoef_Q14", st->sPLC.LTPCoef_Q14, LTP_ORDER, sizeof(opus_int16), 0);
   vreg_add("prevLPC_Q12", st->sPLC.prevLPC_Q12, MAX_LPC_ORDER, sizeof(opus_int16), 0);
   vreg_add("prevGain_Q16", st->sPLC.prevGain_Q16, 2, sizeof(opus_int32), 0);
   vreg_add("CNG_exc_buf_Q14", st->sCNG.CNG_exc_buf_Q14, MAX_FRAME_LENGTH, sizeof(opus_int32), 0);
   vreg_add("CNG_smth_NLSF_Q15", st->sCNG.CNG_smth_NLSF_Q15, MAX_LPC_ORDER, sizeof(opus_int16), 0);
   vreg_add("CNG_synth_state", st->sCNG.CNG_synth_state, MAX_LPC_ORDER, sizeof(opus_int32), 0);
   vjmp_armed = 1;
   if (sigsetjmp(vjmp, 1) == 0) {
      long rmin, rmax, wmin, wmax;
      cur_phase = 3; recording = 1;
      verif_decode_frame(st, NULL, xq, &pN, lost ? FLAG_PACKET_LOST : FLAG_DECODE_NORMAL, CODE_INDEPENDENTLY, 0);
      recording = 0; vjmp_armed = 0; cur_phase = 0;
      printf("O OK core{"); print_extents_ph(core_names, NEL(core_names), 1);
      printf("} plc{"); print_extents_ph(plc_names, NEL(plc_names), 2);
      printf("} top{"); print_extents_ph(top_names, NEL(top_names), 3);
      printf("} cng{"); print_extents_ph(cng_names, NEL(cng_names), 4);
      get_extent("xq", 5, &rmin, &rmax, &wmin, &wmax);
      printf("} glue{xq:r="); pext(rmin, rmax); printf(",w=%s}", (wmin > wmax || (wmin >= 0 && wmax < F)) ? "ok" : "OOB");
      print_allocs(alloc_names, 9); print_init(lost ? "sLTP_Q14" : "sLTP_Q15"); printf(" st=");
      print_state(st); printf("\n");
   } else {
      recording = 0; vjmp_armed = 0; cur_phase = 0; last_abort = 1;
      printf("O ABORT\n");
   }
   vreg_reset();
}

static void script_frame(vrng *r, const silk_decoder_state *st, int wild)
{
   int fs = st->fs_kHz, minl = 2 * fs, maxl = 18 * fs, k, i, base;
   fscr.r = r;
   fscr.sig = vchance(r, 45) ? 2 : (int)vbelow(r, 2); fscr.qoff = (int)vbelow(r, 2); fscr.interp = (int)vbelow(r, 2);
   base = vchance(r, 30) ? (vchance(r, 50) ? minl : maxl) : vrange(r, minl, maxl);
   for (k = 0; k < 4; k++) { int v = base + vrange(r, -10, 10); fscr.pitchL[k] = fscr.sig == 2 ? (v < minl ? minl : v > maxl ? maxl : v) : 0; }
   if (wild && fscr.sig == 2 && vchance(r, 50)) fscr.pitchL[vbelow(r, 4)] = vrange(r, -20, 20 * fs + 10);       /* illegal lag */
   for (i = 0; i < 20; i++) fscr.ltp[i] = (opus_int16)(vchance(r, 20) ? 0 : vrange(r, -3000, 6000));
   if (vchance(r, 15)) for (i = 0; i < 20; i++) fscr.ltp[i] = (opus_int16)(-(int)vbelow(r, 100));                     /* no positive LTP gain */
   for (k = 0; k < 4; k++) fscr.gains[k] = vchance(r, 40) ? (k ? fscr.gains[k - 1] : st->prev_gain_Q16) : (opus_int32)(1 << vrange(r, 12, 24)) + (opus_int32)vbelow(r, 999);
}

static void run_frames(uint64_t seed, long nhist)
{
   static const int fss[3] = {8, 12, 16};
   vrng r; long h; int step;
   silk_decoder_state *st = (silk_decoder_state *)calloc(1, sizeof(*st));
   r.s = seed * 0x9E3779B97F4A7C15ULL + 4242;
   for (h = 0; h < nhist; h++) {
      int len = vrange(&r, 3, 14), wild = vchance(&r, 6);
      silk_init_decoder(st);
      st->nb_subfr = vchance(&r, 50) ? 2 : 4; silk_decoder_set_fs(st, fss[vbelow(&r, 3)], 48000);
      for (step = 0; step < len; step++) {
         int e = (int)vbelow(&r, 100);
         if (e < 10) { st->nb_subfr = vchance(&r, 50) ? 2 : 4; silk_decoder_set_fs(st, fss[vbelow(&r, 3)], 48000); }      /* rate / frame-size switch */
         else if (e < 13) { st->lagPrev = 100; st->LastGainIndex = 10; st->prevSignalType = TYPE_NO_VOICE_ACTIVITY; st->first_frame_after_reset = 1;
                            memset(st->outBuf, 0, sizeof(st->outBuf)); memset(st->sLPC_Q14_buf, 0, sizeof(st->sLPC_Q14_buf)); }   /* dec_API.c:302-309 */
         else if (e < 15) { silk_init_decoder(st); st->nb_subfr = vchance(&r, 50) ? 2 : 4; silk_decoder_set_fs(st, fss[vbelow(&r, 3)], 48000); }
         script_frame(&r, st, wild);
         do_frame(st, &r, e >= 15 && vchance(&r, 40));
         if (last_abort) { last_abort = 0; break; }     /* the state is not meaningful after a fired assertion */
      }
   }
   free(st);
}

/* ------------------------------------------------------------------ silk_decode_parameters */
void verif_decode_parameters(silk_decoder_state *psDec, silk_decoder_control *psDecCtrl, opus_int condCoding);
static const char *const par_names[] = {"GainsIndices", "Gains_Q16", "NLSFIndices", "PredCoef_Q12", "prevNLSF_Q15", "pitchL", "LTPIndex",
                                        "LTP_vq_0", "LTP_vq_1", "LTP_vq_2", "LTPCoef_Q14"};
static void run_params(uint64_t seed, long n)
{
   static const int fss[3] = {8, 12, 16};
   vrng r; long c; int i, k;
   silk_decoder_state *st = (silk_decoder_state *)calloc(1, sizeof(*st));
   silk_decoder_control *ctl = (silk_decoder_control *)calloc(1, sizeof(*ctl));
   r.s = seed * 0xD1342543DE82EF95ULL + 99;
   for (c = 0; c < n; c++) {
      int fs = fss[vbelow(&r, 3)], nb = vchance(&r, 50) ? 2 : 4, sig, per, v = 0, cond = (int)vbelow(&r, 2), ncb;
      silk_init_decoder(st); st->nb_subfr = nb; silk_decoder_set_fs(st, fs, 48000);
      sig = (c % 3 == 0) ? 2 : (int)vbelow(&r, 3); per = (int)(c % 3);
      st->indices.signalType = (opus_int8)sig; st->indices.quantOffsetType = (opus_int8)vbelow(&r, 2);
      st->indices.GainsIndices[0] = (opus_int8)(cond ? vbelow(&r, 41) : vbelow(&r, 64));
      for (k = 1; k < 4; k++) st->indices.GainsIndices[k] = (opus_int8)vbelow(&r, 41);
      st->indices.NLSFIndices[0] = (opus_int8)vbelow(&r, 32);
      for (i = 1; i <= st->LPC_order; i++) st->indices.NLSFIndices[i] = (opus_int8)vrange(&r, -10, 10);
      st->indices.NLSFInterpCoef_Q2 = (opus_int8)vbelow(&r, 5);
      st->indices.lagIndex = (opus_int16)vrange(&r, -8, 16 * fs + 11);
      ncb = fs == 8 ? (nb == 4 ? PE_NB_CBKS_STAGE2_EXT : PE_NB_CBKS_STAGE2_10MS) : (nb == 4 ? PE_NB_CBKS_STAGE3_MAX : PE_NB_CBKS_STAGE3_10MS);
      st->indices.contourIndex = (opus_int8)vbelow(&r, ncb);
      st->indices.PERIndex = (opus_int8)per;
      /* every row of the selected codebook gets hit over the run, the last one most often */
      for (k = 0; k < 4; k++) st->indices.LTPIndex[k] = (opus_int8)(vchance(&r, 30) ? (8 << per) - 1 : vbelow(&r, 8 << per));
      st->indices.LTP_scaleIndex = (opus_int8)vbelow(&r, 3);
      st->first_frame_after_reset = vchance(&r, 25); st->lossCnt = vchance(&r, 30) ? 1 + (int)vbelow(&r, 3) : 0;
      st->LastGainIndex = (opus_int8)vbelow(&r, 64);
      for (i = 0; i < st->LPC_order; i++) { v += vrange(&r, 300, 32000 / 17); st->prevNLSF_Q15[i] = (opus_int16)v; }
      printf("I silkparams synthparams %d %d %d %d %d,%d,%d,%d %d %d %d %d\n", fs, nb, sig, per, st->indices.LTPIndex[0], st->indices.LTPIndex[1],
             st->indices.LTPIndex[2], st->indices.LTPIndex[3], st->indices.LTP_scaleIndex, st->indices.NLSFInterpCoef_Q2,
             st->first_frame_after_reset, st->lossCnt);
      fflush(stdout);
      vreg_reset();
      vreg_add("GainsIndices", st->indices.GainsIndices, MAX_NB_SUBFR, 1, 0);
      vreg_add("LTPIndex", st->indices.LTPIndex, MAX_NB_SUBFR, 1, 0);
      vreg_add("NLSFIndices", st->indices.NLSFIndices, MAX_LPC_ORDER + 1, 1, 0);
      vreg_add("prevNLSF_Q15", st->prevNLSF_Q15, MAX_LPC_ORDER, sizeof(opus_int16), 0);
      vreg_add("PredCoef_Q12", ctl->PredCoef_Q12, 2 * MAX_LPC_ORDER, sizeof(opus_int16), 0);
      vreg_add("LTPCoef_Q14", ctl->LTPCoef_Q14, LTP_ORDER * MAX_NB_SUBFR, sizeof(opus_int16), 0);
      vreg_add("Gains_Q16", ctl->Gains_Q16, MAX_NB_SUBFR, sizeof(opus_int32), 0);
      vreg_add("pitchL", ctl->pitchL, MAX_NB_SUBFR, sizeof(opus_int), 0);
      vreg_add("LTP_vq_0", (void *)silk_LTP_vq_ptrs_Q7[0], 8 * LTP_ORDER, 1, 0);
      vreg_add("LTP_vq_1", (void *)silk_LTP_vq_ptrs_Q7[1], 16 * LTP_ORDER, 1, 0);
      vreg_add("LTP_vq_2", (void *)silk_LTP_vq_ptrs_Q7[2], 32 * LTP_ORDER, 1, 0);
      cur_phase = 0; recording = 1;
      verif_decode_parameters(st, ctl, cond ? CODE_CONDITIONALLY : CODE_INDEPENDENTLY);
      recording = 0;
      printf("O OK "); print_extents(par_names, NEL(par_names)); printf("\n");
      vreg_reset();
   }
   free(st); free(ctl);
}

/* ------------------------------------------------------------------ output stage of silk_Decode */
#include "API.h"
#include "entdec.h"
opus_int verif_Get_Decoder_Size(opus_int *decSizeBytes);
opus_int verif_InitDecoder(void *decState);
opus_int verif_Decode(void *decState, silk_DecControlStruct *decControl, opus_int lostFlag, opus_int newPacketFlag, ec_dec *psRangeDec,
                      opus_res *samplesOut, opus_int32 *nSamplesOut, int arch);
silk_decoder_state *verif_dec_channel(void *d, int n);
stereo_dec_state *verif_dec_stereo(void *d);
int verif_dec_nch_internal(void *d);
int verif_dec_prev_dom(void *d);
int verif_dec_nch_api(void *d);

static vrng *ostub_r; static int ostub_dom_script = 0, ostub_dom_used = 0;
opus_int vstub_decode_frame(silk_decoder_state *psDec, ec_dec *rd, opus_int16 pOut[], opus_int32 *pN, opus_int lostFlag, opus_int condCoding, int arch)
{
   int i; (void)rd; (void)lostFlag; (void)condCoding; (void)arch;
   for (i = 0; i < psDec->frame_length; i++) pOut[i] = (opus_int16)vrange(ostub_r, -20000, 20000);
   vrec_note(pOut, (long)psDec->frame_length * 2, 1);
   *pN = psDec->frame_length;
   return 0;
}
void vstub_stereo_decode_pred(ec_dec *rd, opus_int32 pred_Q13[]) { (void)rd; ostub_dom_used = 0;   /* the last call is the one of dec_API.c:286; it precedes the decisive mid-only decision */
   pred_Q13[0] = vrange(ostub_r, -8000, 8000); pred_Q13[1] = vrange(ostub_r, -8000, 8000); }
void vstub_stereo_decode_mid_only(ec_dec *rd, opus_int *dom) { (void)rd; *dom = ostub_dom_script; ostub_dom_used = ostub_dom_script; }

static const char *const out_names[] = {"tmp0", "tmp1", "samplesOut2_tmp", "samplesOut", "sMid", "sSide", "pred_prev_Q13",
                                        "delayBuf0", "delayBuf1"};
static const char *const out_allocs[] = {"samplesOut1_tmp_storage1", "samplesOut2_tmp"};
static void run_out(uint64_t seed, long ninst)
{
   static const int apis[5] = {8000, 12000, 16000, 24000, 48000};
   static const int ints[3] = {8000, 12000, 16000};
   vrng r; long h; opus_int sz = 0; void *dec; unsigned char payload[64];
   r.s = seed * 0xA0761D6478BD642FULL + 31337; ostub_r = &r; fscr.r = &r;
   verif_Get_Decoder_Size(&sz);
   dec = calloc(1, sz);
   for (h = 0; h < ninst; h++) {
      int apiHz = apis[h % 5], nChAPI = 1 + (int)((h / 5) % 2), calls = vrange(&r, 4, 12), step, left = 0, nChInt = 1, intHz = 16000, pms = 20;
      silk_DecControlStruct ctl;
      verif_InitDecoder(dec);
      memset(&ctl, 0, sizeof(ctl));
      for (step = 0; step < calls; step++) {
         int lost, newPacket = left == 0, i, F, fs, stm, hasSide, prevDom, sst; opus_int32 nOut = 0; ec_dec rd; opus_res *so; long N;
         if (newPacket) {
            nChInt = nChAPI == 1 ? (vchance(&r, 85) ? 1 : 2) : (vchance(&r, 65) ? 2 : 1);
            if (vchance(&r, 30) || step == 0) intHz = ints[vbelow(&r, 3)];
            pms = vchance(&r, 70) ? (vchance(&r, 50) ? 20 : 10) : (vchance(&r, 50) ? 40 : 60);
            left = pms <= 20 ? 1 : pms / 20;
         }
         lost = vchance(&r, 25);
         ostub_dom_script = vchance(&r, 30); ostub_dom_used = 0;
         for (i = 0; i < (int)sizeof(payload); i++) payload[i] = (unsigned char)vnext(&r);
         ec_dec_init(&rd, payload, sizeof(payload));
         ctl.nChannelsAPI = nChAPI; ctl.nChannelsInternal = nChInt; ctl.API_sampleRate = apiHz; ctl.internalSampleRate = intHz;
         ctl.payloadSize_ms = lost && newPacket ? (pms > 20 ? 20 : pms) : pms;
         stm = nChInt == 1 && verif_dec_nch_internal(dec) == 2 && intHz == 1000 * verif_dec_channel(dec, 0)->fs_kHz;
         prevDom = verif_dec_prev_dom(dec);
         sst = nChAPI == 2 && nChInt == 2 && (verif_dec_nch_api(dec) == 1 || verif_dec_nch_internal(dec) == 1);
         /* the caller's buffer: frame of at most 20 ms at the API rate, per channel */
         N = (long)20 * apiHz / 1000;
         vreg_reset();
         so = (opus_res *)vrec_alloc("samplesOut", nChAPI * N, sizeof(opus_res));
         vreg_add("sMid", verif_dec_stereo(dec)->sMid, 2, sizeof(opus_int16), 0);
         vreg_add("sSide", verif_dec_stereo(dec)->sSide, 2, sizeof(opus_int16), 0);
         vreg_add("pred_prev_Q13", verif_dec_stereo(dec)->pred_prev_Q13, 2, sizeof(opus_int16), 0);
         vreg_add("delayBuf0", verif_dec_channel(dec, 0)->resampler_state.delayBuf, 48, sizeof(opus_int16), 0);
         vreg_add("delayBuf1", verif_dec_channel(dec, 1)->resampler_state.delayBuf, 48, sizeof(opus_int16), 0);
         g_nChInt = nChInt;
         vjmp_armed = 1;
         if (sigsetjmp(vjmp, 1) == 0) {
            cur_phase = 0; recording = 1;
            verif_Decode(dec, &ctl, lost ? FLAG_PACKET_LOST : FLAG_DECODE_NORMAL, newPacket, &rd, so, &nOut, 0);
            recording = 0; vjmp_armed = 0;
            fs = verif_dec_channel(dec, 0)->fs_kHz; F = verif_dec_channel(dec, 0)->frame_length;
            hasSide = lost ? !prevDom : !ostub_dom_used;
            printf("I silkparams synthout %d %d %d %d %d %d %d %d %d\n", fs, F / (5 * fs), nChInt, nChAPI, apiHz, hasSide, stm, lost, sst);
            printf("O OK n=%d top{", (int)nOut); print_extents_ph(out_names, NEL(out_names), 0);
            printf("} dec{"); print_extents_ph(out_names, 2, 1);
            printf("} ms{"); print_extents_ph(out_names, NEL(out_names), 2);
            printf("} res0{"); print_extents_ph(out_names, NEL(out_names), 3);
            printf("} res1{"); print_extents_ph(out_names, NEL(out_names), 4);
            printf("}"); print_allocs(out_allocs, 2); printf("\n");
         } else {
            recording = 0; vjmp_armed = 0;
            printf("I silkparams synthout %d %d %d %d %d %d %d %d %d\nO ABORT\n", intHz / 1000, 0, nChInt, nChAPI, apiHz, 0, stm, lost, sst);
            vreg_reset(); break;
         }
         vreg_reset();
         left--;
      }
   }
   free(dec);
}

int main(int argc, char **argv)
{
   signal(SIGABRT, vabort_jump);
   if (argc >= 4 && !strcmp(argv[1], "core")) run_core(strtoull(argv[2], 0, 10), atol(argv[3]));
   else if (argc >= 4 && !strcmp(argv[1], "out")) run_out(strtoull(argv[2], 0, 10), atol(argv[3]));
   else if (argc >= 4 && !strcmp(argv[1], "params")) run_params(strtoull(argv[2], 0, 10), atol(argv[3]));
   else if (argc >= 4 && !strcmp(argv[1], "frames")) run_frames(strtoull(argv[2], 0, 10), atol(argv[3]));
   else { fprintf(stderr, "usage: c18_synthidx core <seed> <nrand> | frames <seed> <nhist>\n"); return 64; }
   fflush(stdout);
   return 0;
}
