/* c03_budget.c — property C03, stage 2b: the bit budget of a CELT frame on the real decoder.
   Observes (GNU ld --wrap) quant_all_bands, ec_dec_uint and celt_decode_with_ec_dred while opus_decode runs on crafted
   CELT-only / hybrid packets with tight budgets, and reports
     - how many decodes returned an error (OPUS_INTERNAL_ERROR = the `ec_tell(dec) > 8*len` exit of celt_decoder.c),
     - min over all frames of  total_bits - ec_tell_frac(ec)  at the exit of quant_all_bands   (the documented slack is >= 1),
     - min over all frames of  8*len - ec_tell(dec)  at the end of the frame,
     - max over all PVQ reads of  (ec_tell_frac after - before) - ceil(8*log2(ft)).
   usage: c03_budget scan <seed> <n> <maxlen> */
#include <stdio.h>
#include <stdlib.h>
#include <string.h>
#include <stdint.h>
#include <math.h>
#include "vcommon.h"
#include "opus.h"
#include "celt/celt.h"
#include "celt/entdec.h"
#include "celt/bands.h"
#include "celt/modes.h"

static int g_on, g_len, g_offs_in, g_offs_out;
static long g_frames, g_err, g_hist[64];
static long g_reads, g_pos, g_f2, g_f3; static int g_fp, g_min_slack2 = 1 << 30;
static int g_min_slack = 1 << 30, g_min_end = 1 << 30, g_max_drift = -(1 << 30), g_cur_slack, g_cur_end;

void __real_quant_all_bands(int, const CELTMode *, int, int, celt_norm *, celt_norm *, unsigned char *, const celt_ener *, int *, int, int,
   int, int, int *, opus_int32, opus_int32, ec_ctx *, int, int, opus_uint32 *, int, int, int);
void __wrap_quant_all_bands(int encode, const CELTMode *m, int start, int end, celt_norm *X, celt_norm *Y, unsigned char *cm,
   const celt_ener *bandE, int *pulses, int shortBlocks, int spread, int dual_stereo, int intensity, int *tf_res, opus_int32 total_bits,
   opus_int32 balance, ec_ctx *ec, int LM, int codedBands, opus_uint32 *seed, int complexity, int arch, int disable_inv)
{
   int t0 = (int)ec_tell_frac(ec);
   g_on = !encode; g_fp = 0; g_offs_in = (int)ec->offs;
   __real_quant_all_bands(encode, m, start, end, X, Y, cm, bandE, pulses, shortBlocks, spread, dual_stereo, intensity, tf_res, total_bits,
      balance, ec, LM, codedBands, seed, complexity, arch, disable_inv);
   g_on = 0; g_cur_slack = 99; g_offs_out = (int)ec->offs;
   if (!encode && (int)ec_tell_frac(ec) != t0) {
      int s = (int)total_bits - (int)ec_tell_frac(ec);
      g_cur_slack = s;
      if (s < g_min_slack) g_min_slack = s;
      if (s < 32 && s > -32) g_hist[s + 32]++;
      if (g_fp >= 2) { g_f2++; if (s < g_min_slack2) g_min_slack2 = s; }
      if (g_fp >= 3) g_f3++;
   }
}
opus_uint32 __real_ec_dec_uint(ec_dec *, opus_uint32);
opus_uint32 __wrap_ec_dec_uint(ec_dec *d, opus_uint32 ft)
{
   if (g_on) {
      int t0 = (int)ec_tell_frac(d), dr; opus_uint32 v = __real_ec_dec_uint(d, ft);
      dr = (int)ec_tell_frac(d) - t0 - (int)ceill(8.0L * log2l((long double)ft) - 1e-12L);
      if (dr > g_max_drift) g_max_drift = dr;
      g_reads++; if (dr >= 1) { g_pos++; g_fp++; if (0) fprintf(stderr, "P ft=%u 8log2=%.5Lf dest=%d rng_before? t0=%d\n", (unsigned)ft, 8.0L * log2l((long double)ft), (int)ec_tell_frac(d) - t0, t0); }
      return v;
   }
   return __real_ec_dec_uint(d, ft);
}
int __real_celt_decode_with_ec_dred(CELTDecoder *, const unsigned char *, int, opus_res *, int, ec_dec *, int);
int __wrap_celt_decode_with_ec_dred(CELTDecoder *st, const unsigned char *data, int len, opus_res *pcm, int frame_size, ec_dec *dec, int accum)
{
   int ret = __real_celt_decode_with_ec_dred(st, data, len, pcm, frame_size, dec, accum);
   if (data != NULL && len > 1 && dec != NULL) {
      int e = 8 * len - ec_tell(dec);
      g_frames++; g_cur_end = e;
      if (e < g_min_end) g_min_end = e;
      if (ret < 0) g_err++;
   }
   (void)g_len;
   return ret;
}

static opus_int16 pcm[5760 * 2];
int main(int argc, char **argv)
{
   vrng r; long n, i, shown = 0, nerr = 0; int maxlen, err;
   OpusDecoder *d[2];
   if (argc < 5 || strcmp(argv[1], "scan")) { fprintf(stderr, "usage: c03_budget scan <seed> <n> <maxlen>\n"); return 64; }
   r.s = strtoull(argv[2], 0, 10) * 0xD1342543DE82EF95ULL + 0x1234567ULL; vnext(&r); r.s ^= r.s >> 29; vnext(&r); n = atol(argv[3]); maxlen = atoi(argv[4]);
   d[0] = opus_decoder_create(48000, 1, &err); d[1] = opus_decoder_create(48000, 2, &err);
   if (argc >= 6 && !strcmp(argv[5], "enc")) {
      /* encoder-generated CELT frames (hard CBR: the last coded band receives everything that is left) */
      static opus_int16 in[960 * 2]; long fired = 0; int e2; unsigned char pk[1300];
      static const int FS[4] = {120, 240, 480, 960}; static const int BW[5] = {OPUS_BANDWIDTH_NARROWBAND, OPUS_BANDWIDTH_MEDIUMBAND, OPUS_BANDWIDTH_WIDEBAND, OPUS_BANDWIDTH_SUPERWIDEBAND, OPUS_BANDWIDTH_FULLBAND};
      for (i = 0; i < n; ) {
         int ch = 1 + (int)vbelow(&r, 2), fs = FS[vbelow(&r, 4)], f, nf = 30, k; double lp = 0, a = 0.2 + 0.79 * vbelow(&r, 100) / 100.0, amp = 50 + vbelow(&r, 12000);
         OpusEncoder *e = opus_encoder_create(48000, ch, OPUS_APPLICATION_RESTRICTED_LOWDELAY, &e2);
         opus_encoder_ctl(e, OPUS_SET_VBR(vchance(&r, 30))); opus_encoder_ctl(e, OPUS_SET_BANDWIDTH(BW[vbelow(&r, 5)]));
         opus_encoder_ctl(e, OPUS_SET_COMPLEXITY((int)vbelow(&r, 11)));
         opus_encoder_ctl(e, OPUS_SET_BITRATE(6000 + (int)vbelow(&r, 1) + (int)(vbelow(&r, 1000) * vbelow(&r, 500))));
         if (maxlen == 1) {   /* targeted: mono 20 ms WB, the last band (16, N=48) splits into four N=12 leaves with K near 15 */
            opus_encoder_destroy(e); ch = 1; fs = 960; e = opus_encoder_create(48000, 1, OPUS_APPLICATION_RESTRICTED_LOWDELAY, &e2);
            opus_encoder_ctl(e, OPUS_SET_VBR(0)); opus_encoder_ctl(e, OPUS_SET_BANDWIDTH(OPUS_BANDWIDTH_WIDEBAND));
            opus_encoder_ctl(e, OPUS_SET_COMPLEXITY((int)vbelow(&r, 11))); opus_encoder_ctl(e, OPUS_SET_BITRATE(30000 + (int)vbelow(&r, 40000)));
            a = 0.0 + 0.5 * vbelow(&r, 100) / 100.0;
         }
         if (maxlen == 2) {   /* targeted: mono 20 ms SWB, band 17 (N=64) splits into four N=16 leaves with K near 5 */
            opus_encoder_destroy(e); ch = 1; fs = 960; e = opus_encoder_create(48000, 1, OPUS_APPLICATION_RESTRICTED_LOWDELAY, &e2);
            opus_encoder_ctl(e, OPUS_SET_VBR(0)); opus_encoder_ctl(e, OPUS_SET_BANDWIDTH(OPUS_BANDWIDTH_SUPERWIDEBAND));
            opus_encoder_ctl(e, OPUS_SET_COMPLEXITY((int)vbelow(&r, 11))); opus_encoder_ctl(e, OPUS_SET_BITRATE(24000 + (int)vbelow(&r, 40000)));
            a = 0.0 + 0.5 * vbelow(&r, 100) / 100.0;
         }
         opus_decoder_ctl(d[ch - 1], OPUS_RESET_STATE);
         for (f = 0; f < nf; f++, i++) {
            int ret, bytes;
            for (k = 0; k < fs * ch; k++) { double w = ((double)vbelow(&r, 65536) / 32768.0 - 1.0); lp = a * lp + (1 - a) * w; in[k] = (opus_int16)(amp * (vchance(&r, 2) ? 3 * w : lp * 3)); }
            if (vchance(&r, 10)) amp = 50 + vbelow(&r, 20000);
            bytes = opus_encode(e, in, fs, pk, 1275);
            if (bytes < 2) continue;
            ret = opus_decode(d[ch - 1], pk, bytes, pcm, 5760, 0);
            if (ret < 0 || g_cur_end < 0) { fired++; if (shown++ < 20) { printf("W ch=%d ret=%s slack=%d end=%d pkt=", ch, ret < 0 ? verr(ret) : "ok", g_cur_slack, g_cur_end); vhex(stdout, pk, bytes); printf("\n"); } }
         }
         opus_encoder_destroy(e);
      }
      printf("# pvq_reads=%ld positive_drift=%ld frames_with_2=%ld frames_with_3=%ld min_slack_among_them=%d\n", g_reads, g_pos, g_f2, g_f3, g_min_slack2);
      printf("# enc frames=%ld negative_or_error=%ld celt_errors=%ld min_slack_after_bands=%d min_bits_left_at_end=%d max_pvq_drift=%d\n# slack histogram:",
             g_frames, fired, g_err, g_min_slack, g_min_end, g_max_drift);
      for (i = 0; i < 64; i++) if (g_hist[i]) printf(" %ld:%ld", i - 32, g_hist[i]);
      printf("\n");
      return 0;
   }
   if (argc >= 6 && !strcmp(argv[5], "climb2")) {
      /* encoder-generated start frames with little slack; then mutations confined to the bytes the last band data symbols are
         decoded from (everything in front — header, allocation, earlier bands — stays as it is) */
      static opus_int16 in[960 * 2]; long fired = 0, tried = 0, best_all = 99; int e2; unsigned char pk[1300], q[1300];
      static const int BW[3] = {OPUS_BANDWIDTH_WIDEBAND, OPUS_BANDWIDTH_SUPERWIDEBAND, OPUS_BANDWIDTH_FULLBAND};
      for (i = 0; i < n; ) {
         int ch = vchance(&r, 75) ? 1 : 2, fs = vchance(&r, 70) ? 960 : 480, f, k; double lp = 0, a = 0.2 + 0.79 * vbelow(&r, 100) / 100.0, amp = 50 + vbelow(&r, 12000);
         OpusEncoder *e = opus_encoder_create(48000, ch, OPUS_APPLICATION_RESTRICTED_LOWDELAY, &e2);
         opus_encoder_ctl(e, OPUS_SET_VBR(0)); opus_encoder_ctl(e, OPUS_SET_BANDWIDTH(BW[vbelow(&r, 3)]));
         opus_encoder_ctl(e, OPUS_SET_COMPLEXITY((int)vbelow(&r, 11)));
         opus_encoder_ctl(e, OPUS_SET_BITRATE(8000 + (int)(vbelow(&r, 400) * vbelow(&r, 400))));
         for (f = 0; f < 30; f++, i++) {
            int ret, bytes, cur, curfp, it, lo, hi;
            for (k = 0; k < fs * ch; k++) { double w = ((double)vbelow(&r, 65536) / 32768.0 - 1.0); lp = a * lp + (1 - a) * w; in[k] = (opus_int16)(amp * (vchance(&r, 2) ? 3 * w : lp * 3)); }
            bytes = opus_encode(e, in, fs, pk, 1275);
            if (bytes < 4) continue;
            ret = opus_decode(d[ch - 1], pk, bytes, pcm, 5760, 0);
            if (ret < 0 || g_cur_slack > 3) continue;
            tried++; cur = g_cur_slack; curfp = g_fp;
            for (it = 0; it < 4000 && cur >= 0; it++) {
               int nv, nfp, pos;
               lo = g_offs_out - 9; if (lo < 1) lo = 1; hi = g_offs_out + 1; if (hi > bytes - 1) hi = bytes - 1; if (hi < lo) break;
               memcpy(q, pk, bytes);
               pos = vrange(&r, lo, hi);
               if (vchance(&r, 50)) q[pos] ^= (unsigned char)(1u << vbelow(&r, 8)); else q[pos] = (unsigned char)vbelow(&r, 256);
               ret = opus_decode(d[ch - 1], q, bytes, pcm, 5760, 0); nv = ret < 0 ? -99 : g_cur_slack; nfp = g_fp;
               if (nv < cur || (nv == cur && nfp >= curfp)) { cur = nv; curfp = nfp; memcpy(pk, q, bytes); }
               else { opus_decode(d[ch - 1], pk, bytes, pcm, 5760, 0); }   /* restore g_offs_out of the kept packet */
            }
            if (cur < best_all) best_all = cur;
            if (cur < 0) { fired++; if (shown++ < 20) { printf("W slack=%d end=%d pkt=", cur, g_cur_end); vhex(stdout, pk, bytes); printf("\n"); } }
         }
         opus_encoder_destroy(e);
      }
      printf("# climb2 starts=%ld best_slack=%ld negative=%ld celt_errors=%ld min_bits_left_at_end=%d\n", tried, best_all, fired, g_err, g_min_end);
      return 0;
   }
   if (argc >= 6 && !strcmp(argv[5], "climb")) {
      /* hill climbing on the slack after quant_all_bands: random start, byte/bit mutations, accept when not worse */
      long starts = n, it, best_all = 99, fired = 0;
      for (i = 0; i < starts; i++) {
         unsigned char pk[1300], q[1300]; int len = vrange(&r, 3, maxlen), k, st = vchance(&r, 60), cfg, ret, cur;
         cfg = vchance(&r, 15) ? vrange(&r, 12, 15) : vrange(&r, 16, 31);
         pk[0] = (unsigned char)((cfg << 3) | (st << 2));
         for (k = 1; k <= len; k++) pk[k] = (unsigned char)vbelow(&r, 256);
         opus_decoder_ctl(d[st], OPUS_RESET_STATE);
         ret = opus_decode(d[st], pk, len + 1, pcm, 5760, 0); cur = ret < 0 ? -99 : g_cur_slack;
         for (it = 0; it < 3000 && cur > -1; it++) {
            int pos = vrange(&r, 1, len), nv;
            memcpy(q, pk, len + 1);
            if (vchance(&r, 50)) q[pos] ^= (unsigned char)(1u << vbelow(&r, 8)); else q[pos] = (unsigned char)vbelow(&r, 256);
            if (vchance(&r, 30)) { int p2 = vrange(&r, 1, len); q[p2] = (unsigned char)vbelow(&r, 256); }
            opus_decoder_ctl(d[st], OPUS_RESET_STATE);
            ret = opus_decode(d[st], q, len + 1, pcm, 5760, 0); nv = ret < 0 ? -99 : g_cur_slack;
            if (nv <= cur) { cur = nv; memcpy(pk, q, len + 1); }
         }
         if (cur < best_all) best_all = cur;
         if (cur < 0) { fired++; if (shown++ < 20) { printf("W slack=%d end=%d pkt=", cur, g_cur_end); vhex(stdout, pk, len + 1); printf("\n"); } }
      }
      printf("# climb starts=%ld best_slack=%ld negative=%ld celt_errors=%ld min_bits_left_at_end=%d\n", starts, best_all, fired, g_err, g_min_end);
      return 0;
   }
   for (i = 0; i < n; i++) {
      unsigned char pk[1300]; int len = vrange(&r, 2, maxlen), k, st = vchance(&r, 50), cfg, ret, kind = (int)vbelow(&r, 6);
      int before_slack = g_min_slack, before_end = g_min_end;
      cfg = vchance(&r, 25) ? vrange(&r, 12, 15) : vrange(&r, 16, 31);   /* hybrid SWB/FB 10/20 ms or CELT-only */
      pk[0] = (unsigned char)((cfg << 3) | (st << 2));
      for (k = 1; k <= len; k++) {
         unsigned v = (unsigned)vbelow(&r, 256);
         switch (kind) {
         case 0: break;
         case 1: if (vchance(&r, 70)) v = 0xFF; break;
         case 2: if (vchance(&r, 70)) v = 0x00; break;
         case 3: v = (k < 4) ? v : (vchance(&r, 50) ? 0xFF : v); break;
         case 4: v = (k & 1) ? v : 0x00; break;
         default: if (vchance(&r, 40)) v &= 0x0F; break;
         }
         pk[k] = (unsigned char)v;
      }
      if (vchance(&r, 10)) opus_decoder_ctl(d[st], OPUS_RESET_STATE);
      ret = opus_decode(d[st], pk, len + 1, pcm, 5760, 0);
      if (ret < 0) nerr++;
      (void)before_slack; (void)before_end;
      if ((ret < 0 || g_cur_end < 0) && shown < 40) {
         shown++;
         printf("W ch=%d ret=%s slack=%d end=%d pkt=", st + 1, ret < 0 ? verr(ret) : "ok", g_cur_slack, g_cur_end); vhex(stdout, pk, len + 1); printf("\n");
      }
   }
   printf("# frames=%ld decode_errors=%ld celt_errors=%ld min_slack_after_bands=%d min_bits_left_at_end=%d max_pvq_drift=%d\n# slack histogram:",
          g_frames, nerr, g_err, g_min_slack, g_min_end, g_max_drift);
   for (i = 0; i < 64; i++) if (g_hist[i]) printf(" %ld:%ld", i - 32, g_hist[i]);
   printf("\n");
   return 0;
}
