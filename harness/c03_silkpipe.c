/* c03_silkpipe.c — property C03, slice SilkPipe: the Lean function `Opus.SilkPipe.silkOnlyDecode` (packet bytes -> PCM) against the
   PUBLIC `opus_decode` (int16) on SILK-only mono streams of the real encoder, without loss.
   One case = one stream: a fresh encoder (forced MODE_SILK_ONLY, one of NB / MB / WB = internal rate 8 / 12 / 16 kHz, 10 / 20 / 40 /
   60 ms frames, VBR / CBR, 6-40 kb/s, optional in-band FEC with a loss percentage so that packets CARRY LBRR data — which a
   loss-free decoder must read and drop) produces packets from a synthetic speech-like signal; some streams are repacketised
   (opus_repacketizer) into code-1/2/3 packets of up to 120 ms; a fresh mono decoder at one of the API rates 8/12/16/24/48 kHz decodes
   every packet with opus_decode( frame_size = 5760, decode_fec = 0 ).
      I silkcore pipe-stream <fs_kHz> <Fs_API> <packet> <packet> …
      O PCM <pcm of packet 0>;<pcm of packet 1>;…      (every sample, comma separated)
   usage: c03_silkpipe rand <seed> <nstreams> */
#include "vcommon.h"
#include <math.h>
#include "opus.h"
#include "opus_private.h"

static long h_fs[3], h_api[5], h_ms[4], h_code[4], h_lbrr, h_pk, h_cbr, h_fec, h_samples, h_switch, h_empty;

static void synth_signal(vrng *r, opus_int16 *x, int n, int fs)
{
   int i = 0; double y1 = 0, y2 = 0;
   while (i < n) {
      int kind = (int)vbelow(r, 10), len = vrange(r, fs / 20, fs / 2), j;
      double f0 = vrange(r, 70, 420), glide = (vrange(r, -100, 100)) / (double)fs / 4.0, amp = vrange(r, 200, 30000), ph = 0;
      double fr = vrange(r, 300, 3000), bw = 0.90 + vbelow(r, 90) / 1000.0;
      double c1 = 2 * bw * cos(2 * 3.14159265358979 * fr / fs), c2 = -bw * bw;
      for (j = 0; j < len && i < n; j++, i++) {
         double e = 0, v;
         if (kind < 5) { ph += f0 / fs; f0 += glide; if (f0 < 60) f0 = 60; if (f0 > 450) f0 = 450; if (ph >= 1) { ph -= 1; e = amp; } e += ((int)vbelow(r, 201) - 100) * amp / 4000.0; }
         else if (kind < 7) e = ((int)vbelow(r, 2001) - 1000) * amp / 3000.0;
         else if (kind < 8) e = 0;
         else if (kind < 9) e = ((int)vbelow(r, 2001) - 1000) * 40.0;
         else e = (j & 64) ? 32000 : -32000;
         v = e + c1 * y1 + c2 * y2; y2 = y1; y1 = v;
         if (kind == 7 || kind == 9) v = e;
         if (v > 32767) v = 32767; if (v < -32768) v = -32768;
         x[i] = (opus_int16)v;
      }
   }
}

static void run_stream(vrng *r, long idx)
{
   static const int BW[3] = {OPUS_BANDWIDTH_NARROWBAND, OPUS_BANDWIDTH_MEDIUMBAND, OPUS_BANDWIDTH_WIDEBAND};
   static const int MS[4] = {10, 20, 40, 60};
   static const int API[5] = {8000, 12000, 16000, 24000, 48000};
   int fsin = 16000, err, bw = (int)(idx % 3), msi = (int)((idx / 3 + vbelow(r, 2)) % 4), ms = MS[msi], api = API[(idx / 2 + vbelow(r, 3)) % 5];
   int fsz = fsin / 1000 * ms, npk = vrange(r, 4, 14), p, fec = vchance(r, 40), cbr = vchance(r, 30), repack = vchance(r, 35), nout = 0;
   OpusEncoder *enc = opus_encoder_create(fsin, 1, vchance(r, 70) ? OPUS_APPLICATION_VOIP : OPUS_APPLICATION_AUDIO, &err);
   OpusDecoder *dec = opus_decoder_create(api, 1, &err);
   opus_int16 *in = (opus_int16 *)malloc(sizeof(opus_int16) * fsz * npk), *out = (opus_int16 *)malloc(sizeof(opus_int16) * 5760);
   static unsigned char pk[16][1500], op[16][4000]; int plen[16], olen[16];
   synth_signal(r, in, fsz * npk, fsin);
   opus_encoder_ctl(enc, OPUS_SET_FORCE_MODE(MODE_SILK_ONLY));
   opus_encoder_ctl(enc, OPUS_SET_BANDWIDTH(BW[bw]));
   opus_encoder_ctl(enc, OPUS_SET_BITRATE(vrange(r, 6000, 40000)));
   opus_encoder_ctl(enc, OPUS_SET_COMPLEXITY(vrange(r, 0, 10)));
   opus_encoder_ctl(enc, OPUS_SET_INBAND_FEC(fec));
   opus_encoder_ctl(enc, OPUS_SET_PACKET_LOSS_PERC(fec ? vrange(r, 5, 30) : 0));
   opus_encoder_ctl(enc, OPUS_SET_DTX(0));
   opus_encoder_ctl(enc, OPUS_SET_VBR(!cbr));
   for (p = 0; p < npk; p++) { plen[p] = opus_encode(enc, in + (long)p * fsz, fsz, pk[p], 1500); if (plen[p] < 0) plen[p] = 0; }
   /* stay inside the class: the SILK encoder may switch its internal rate on its own (low bit-rates); the packet before such a
      switch and the first one after it carry a CELT redundancy frame (opus_encoder.c:1845-1851, 2144-2150), which opus_decode
      cross-fades into the output.  Keep the packets before the first change of the TOC configuration, without the last of them. */
   { int c = npk; for (p = 1; p < npk; p++) if (plen[p] > 0 && plen[0] > 0 && (pk[p][0] >> 3) != (pk[0][0] >> 3)) { c = p; break; }
     if (c < npk) { h_switch++; npk = c - 1; } }
   if (npk <= 0 || plen[0] <= 0) { h_empty++; free(in); free(out); opus_encoder_destroy(enc); opus_decoder_destroy(dec); return; }
   bw = (pk[0][0] >> 3) / 4;         /* TOC configurations 0-3 NB, 4-7 MB, 8-11 WB */
   /* repacketise runs of 2-3 packets (same TOC configuration, total <= 120 ms) into one code-1/2/3 packet */
   p = 0;
   while (p < npk) {
      int k = 1, j;
      if (repack && ms <= 40 && vchance(r, 60)) k = ms == 40 ? 2 : vrange(r, 2, 3);
      if (p + k > npk) k = npk - p;
      if (k > 1) {
         OpusRepacketizer *rp = opus_repacketizer_create(); int ok = 1, n;
         for (j = 0; j < k; j++) if (plen[p + j] <= 0 || opus_repacketizer_cat(rp, pk[p + j], plen[p + j]) != OPUS_OK) ok = 0;
         n = ok ? opus_repacketizer_out(rp, op[nout], 4000) : -1;
         if (n > 0 && vchance(r, 25)) { int nl = n + vrange(r, 1, 9); if (opus_packet_pad(op[nout], n, nl) == OPUS_OK) n = nl; }   /* code 3 with padding */
         opus_repacketizer_destroy(rp);
         if (n > 0) { olen[nout++] = n; p += k; continue; }
      }
      if (plen[p] > 0) { memcpy(op[nout], pk[p], plen[p]); olen[nout++] = plen[p]; }
      p++;
   }
   printf("I silkcore pipe-stream %d %d", 8 + 4 * bw, api);
   for (p = 0; p < nout; p++) { printf(" "); vhex(stdout, op[p], olen[p]); h_code[op[p][0] & 3]++; h_lbrr += opus_packet_has_lbrr(op[p], olen[p]) > 0; h_pk++; }
   printf("\n"); fflush(stdout);
   printf("O PCM ");
   for (p = 0; p < nout; p++) {
      unsigned char *q = vexact(op[p], olen[p]); int n = opus_decode(dec, q, olen[p], out, 5760, 0), i;
      free(q);
      if (p) printf(";");
      if (n < 0) { printf("ERR@%d:%s", p, verr(n)); break; }
      for (i = 0; i < n; i++) printf("%s%d", i ? "," : "", (int)out[i]);
      h_samples += n;
   }
   printf("\n"); fflush(stdout);
   h_fs[bw]++; h_api[(api == 8000) ? 0 : (api == 12000) ? 1 : (api == 16000) ? 2 : (api == 24000) ? 3 : 4]++; h_ms[msi]++; h_cbr += cbr; h_fec += fec;
   free(in); free(out); opus_encoder_destroy(enc); opus_decoder_destroy(dec);
}

int main(int argc, char **argv)
{
   vrng r; long n, i;
   if (argc < 4 || strcmp(argv[1], "rand")) { fprintf(stderr, "usage: c03_silkpipe rand <seed> <nstreams>\n"); return 64; }
   vinstall_traps();
   r.s = strtoull(argv[2], 0, 10) * 0x9E3779B97F4A7C15ULL + 0x51C0ULL; vnext(&r);
   n = atol(argv[3]);
   for (i = 0; i < n; i++) run_stream(&r, i);
   printf("# streams=%ld packets=%ld samples=%ld internal 8/12/16 kHz=%ld/%ld/%ld API 8/12/16/24/48 kHz=%ld/%ld/%ld/%ld/%ld frame 10/20/40/60 ms=%ld/%ld/%ld/%ld "
          "packet code 0/1/2/3=%ld/%ld/%ld/%ld packets_with_LBRR=%ld cbr_streams=%ld fec_streams=%ld truncated_before_encoder_bandwidth_switch=%ld dropped_empty=%ld\n", n, h_pk, h_samples, h_fs[0], h_fs[1], h_fs[2],
          h_api[0], h_api[1], h_api[2], h_api[3], h_api[4], h_ms[0], h_ms[1], h_ms[2], h_ms[3], h_code[0], h_code[1], h_code[2], h_code[3], h_lbrr, h_cbr, h_fec, h_switch, h_empty);
   return 0;
}
