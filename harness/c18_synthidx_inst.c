/* c18_synthidx_inst.c — the INSTRUMENTED translation unit of the C18 index-safety tie.

   It compiles the repo's own silk/LPC_analysis_filter.c and silk/decode_core.c (renamed verif_*, so that the
   library's originals stay untouched) with
     * `-fsanitize=thread -O0` code generation and NO ThreadSanitizer runtime: every memory access the compiler
       emits calls `__tsan_read<N>` / `__tsan_write<N>`, which harness/c18_synthidx.c defines as recorders
       (min / max element index read and written, per registered array);
     * `ALLOC` redefined to a recording allocator, so that the function's own work arrays (sLTP, sLTP_Q15,
       res_Q14, sLPC_Q14) are separate heap blocks with wide guard zones: an out-of-range index is recorded
       with its true value instead of corrupting a neighbour;
     * `silk_memcpy` / `silk_memmove` / `silk_memset` routed through recording wrappers (library calls are not
       instrumented by the compiler).
   Nothing in /repo is edited; the index expressions executed here are the repo's. */
#include <stddef.h>
#include "main.h"
#include "stack_alloc.h"

void *vrec_alloc(const char *name, long n, long esz);
void *vrec_memcpy(void *d, const void *s, size_t n);
void *vrec_memmove(void *d, const void *s, size_t n);
void *vrec_memset(void *d, int c, size_t n);

#undef ALLOC
#define ALLOC(var, size, type) type *var = (type *)vrec_alloc(#var, (long)(size), (long)sizeof(type))
#undef silk_memcpy
#undef silk_memmove
#undef silk_memset
#define silk_memcpy(d, s, n) vrec_memcpy((d), (s), (n))
#define silk_memmove(d, s, n) vrec_memmove((d), (s), (n))
#define silk_memset(d, c, n) vrec_memset((d), (c), (n))

void vrec_note(const void *p, long bytes, int wr);
void vrec_phase(int ph);

#define silk_LPC_analysis_filter verif_LPC_analysis_filter
#include "LPC_analysis_filter.c"
#define silk_decode_core verif_decode_core
#include "decode_core.c"
#undef silk_decode_core

/* ---- the rest of silk_decode_frame: PLC, CNG, the frame function itself.  Small library helpers that touch the
   recorded arrays are compiled here too (silk_sum_sqr_shift, silk_bwexpander); silk_LPC_inverse_pred_gain_c and
   silk_NLSF2A stay library calls behind shims that note the `order` coefficients they read / write. */
#define silk_sum_sqr_shift verif_sum_sqr_shift
#include "sum_sqr_shift.c"
#define silk_bwexpander verif_bwexpander
#include "bwexpander.c"
#define silk_LPC_inverse_pred_gain_c(A, o) (vrec_note((A), (long)(o) * 2, 0), (silk_LPC_inverse_pred_gain_c)((A), (o)))
#define silk_NLSF2A(a, n, d, arch) (vrec_note((n), (long)(d) * 2, 0), vrec_note((a), (long)(d) * 2, 1), (silk_NLSF2A)((a), (n), (d), (arch)))
#define silk_PLC_Reset verif_PLC_Reset
#define silk_PLC verif_PLC
#define silk_PLC_glue_frames verif_PLC_glue_frames
#include "PLC.c"
#define silk_CNG_Reset verif_CNG_Reset
#define silk_CNG verif_CNG
#include "CNG.c"
#undef silk_PLC
#undef silk_CNG
#undef silk_PLC_glue_frames
/* phase markers around the calls made by silk_decode_frame: 1 core, 2 plc, 3 top (the frame function itself), 4 cng, 5 glue */
#define silk_decode_core(a, b, c, d, e) (vrec_phase(1), verif_decode_core((a), (b), (c), (d), (e)), vrec_phase(3))
#define silk_PLC(a, b, c, d, e) (vrec_phase(2), verif_PLC((a), (b), (c), (d), (e)), vrec_phase(3))
#define silk_CNG(a, b, c, d) (vrec_phase(4), verif_CNG((a), (b), (c), (d)), vrec_phase(3))
#define silk_PLC_glue_frames(a, b, c) (vrec_phase(5), verif_PLC_glue_frames((a), (b), (c)), vrec_phase(3))
/* silk_decode_parameters itself (mode `params`): with silk_gains_dequant and silk_decode_pitch compiled here, and
   silk_NLSF_decode / silk_NLSF2A as library calls behind shims that note the argument arrays they read / fill */
#define silk_gains_quant verif_gains_quant
#define silk_gains_dequant verif_gains_dequant
#define silk_gains_ID verif_gains_ID
#include "gain_quant.c"
#undef OFFSET
#undef SCALE_Q16
#undef INV_SCALE_Q16
#define silk_decode_pitch verif_decode_pitch
#include "decode_pitch.c"
#define silk_NLSF_decode(out, idx, cb) (vrec_note((idx), (long)((cb)->order + 1), 0), (silk_NLSF_decode)((out), (idx), (cb)))
#define silk_decode_parameters verif_decode_parameters
#include "decode_parameters.c"
#undef silk_decode_parameters
#undef silk_NLSF_decode
/* the bit-stream side of a good frame is scripted by the driver */
void vstub_decode_indices(silk_decoder_state *psDec, ec_dec *psRangeDec, opus_int FrameIndex, opus_int decode_LBRR, opus_int condCoding);
void vstub_decode_pulses(ec_dec *psRangeDec, opus_int16 pulses[], const opus_int signalType, const opus_int quantOffsetType, const opus_int frame_length);
void vstub_decode_parameters(silk_decoder_state *psDec, silk_decoder_control *psDecCtrl, opus_int condCoding);
#define silk_decode_indices vstub_decode_indices
#define silk_decode_pulses vstub_decode_pulses
#define silk_decode_parameters vstub_decode_parameters
#define silk_decode_frame verif_decode_frame
#include "decode_frame.c"

/* ---- the output stage of silk_Decode (mode `out`): dec_API.c itself, silk_stereo_MS_to_LR, silk_resampler and its three
   kernels are compiled here; silk_decode_frame and the two stereo side-information decoders are scripted stubs. */
#undef silk_decode_frame
opus_int vstub_decode_frame(silk_decoder_state *psDec, ec_dec *psRangeDec, opus_int16 pOut[], opus_int32 *pN, opus_int lostFlag,
                            opus_int condCoding, int arch);
void vstub_stereo_decode_pred(ec_dec *psRangeDec, opus_int32 pred_Q13[]);
void vstub_stereo_decode_mid_only(ec_dec *psRangeDec, opus_int *decode_only_mid);
#define silk_decode_frame vstub_decode_frame
#define silk_stereo_decode_pred vstub_stereo_decode_pred
#define silk_stereo_decode_mid_only vstub_stereo_decode_mid_only
#define silk_stereo_MS_to_LR verif_stereo_MS_to_LR
#include "stereo_MS_to_LR.c"
#define silk_resampler_private_AR2 verif_resampler_private_AR2
#include "resampler_private_AR2.c"
#define silk_resampler_private_up2_HQ verif_resampler_private_up2_HQ
#define silk_resampler_private_up2_HQ_wrapper verif_resampler_private_up2_HQ_wrapper
#include "resampler_private_up2_HQ.c"
#define silk_resampler_private_IIR_FIR verif_resampler_private_IIR_FIR
#include "resampler_private_IIR_FIR.c"
#define silk_resampler_private_down_FIR verif_resampler_private_down_FIR
#include "resampler_private_down_FIR.c"
#define silk_resampler_init verif_resampler_init
#define silk_resampler verif_resampler
#include "resampler.c"
#undef silk_resampler_init            /* silk_decoder_set_fs (library) initialises the states; same code */
#define silk_LoadOSCEModels verif_LoadOSCEModels
#define silk_Get_Decoder_Size verif_Get_Decoder_Size
#define silk_ResetDecoder verif_ResetDecoder
#define silk_InitDecoder verif_InitDecoder
#define silk_Decode verif_Decode
/* phase markers for the calls made by silk_Decode: 1 silk_decode_frame, 2 silk_stereo_MS_to_LR, 3 / 4 silk_resampler on the
   state of channel 0 / 1; 0 = silk_Decode itself */
static opus_int vph_decode_frame(silk_decoder_state *p, ec_dec *rd, opus_int16 *o, opus_int32 *pN, opus_int lf, opus_int cc, int arch)
{ opus_int r; vrec_phase(1); r = vstub_decode_frame(p, rd, o, pN, lf, cc, arch); vrec_phase(0); return r; }
static void vph_ms_to_lr(stereo_dec_state *st, opus_int16 x1[], opus_int16 x2[], const opus_int32 pred[], opus_int fs, opus_int fl)
{ vrec_phase(2); verif_stereo_MS_to_LR(st, x1, x2, pred, fs, fl); vrec_phase(0); }
static opus_int vph_resampler(int ph, silk_resampler_state_struct *S, opus_int16 out[], const opus_int16 in[], opus_int32 inLen)
{ opus_int r; vrec_phase(ph); r = verif_resampler(S, out, in, inLen); vrec_phase(0); return r; }
#undef silk_decode_frame
#undef silk_stereo_MS_to_LR
#undef silk_resampler
#define silk_decode_frame vph_decode_frame
#define silk_stereo_MS_to_LR vph_ms_to_lr
#define silk_resampler(S, o, i, n) vph_resampler(3 + ((S) == &channel_state[ 1 ].resampler_state), (S), (o), (i), (n))
#include "dec_API.c"
/* accessors for the driver (silk_decoder is private to dec_API.c) */
silk_decoder_state *verif_dec_channel(void *d, int n) { return &((silk_decoder *)d)->channel_state[n]; }
stereo_dec_state *verif_dec_stereo(void *d) { return &((silk_decoder *)d)->sStereo; }
int verif_dec_nch_internal(void *d) { return ((silk_decoder *)d)->nChannelsInternal; }
int verif_dec_prev_dom(void *d) { return ((silk_decoder *)d)->prev_decode_only_middle; }
int verif_dec_nch_api(void *d) { return ((silk_decoder *)d)->nChannelsAPI; }
