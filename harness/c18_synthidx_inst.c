/* c18_synthidx_inst.c — the INSTRUMENTED translation unit of the C18 index-safety tie.

   It compiles the repo's own silk/LPC_analysis_filter.c and silk/decode_core.c (renamed verif_*, so that the
   library's originals stay untouched) with
     * `-fsanitize=thread -O0` code generation and NO ThreadSanitizer runtime: every memory access the compiler
       emits calls `__tsan_read<N>` / `__tsan_write<N>`, which harness/c18_synthidx.c defines as recorders
       (min / max element index read and written, per registered array);
     * `ALLOC` redefined to a recording allocator, so that the function's own work arrays (sLTP, sLTP_Q15,
       res_Q14, sLPC_Q14) are separate heap blocks with wide guard zones: an out-of-range index is recorded
       with its true value instead of corrupting a neighbour;
     * `silk_memcpy` / `silk_memmove` / `silk_memset` routed through recording wrappers (library calls are not
       instrumented by the compiler).
   Nothing in /repo is edited; the index expressions executed here are the repo's. */
#include <stddef.h>
#include "main.h"
#include "stack_alloc.h"

void *vrec_alloc(const char *name, long n, long esz);
void *vrec_memcpy(void *d, const void *s, size_t n);
void *vrec_memmove(void *d, const void *s, size_t n);
void *vrec_memset(void *d, int c, size_t n);

#undef ALLOC
#define ALLOC(var, size, type) type *var = (type *)vrec_alloc(#var, (long)(size), (long)sizeof(type))
#undef silk_memcpy
#undef silk_memmove
#undef silk_memset
#define silk_memcpy(d, s, n) vrec_memcpy((d), (s), (n))
#define silk_memmove(d, s, n) vrec_memmove((d), (s), (n))
#define silk_memset(d, c, n) vrec_memset((d), (c), (n))

#define silk_LPC_analysis_filter verif_LPC_analysis_filter
#include "LPC_analysis_filter.c"
#define silk_decode_core verif_decode_core
#include "decode_core.c"
