/* c09_celtloss.c — C09: the CELT concealment-state machine (celt/celt_decoder.c: `loss_duration` :957/:1354, the choice
   between pitch-based and noise-based concealment :639, `skip_plc` :691/:1098/:1552) against the model
   `Opus.SilkPlcGains.celtLost / celtGood / celtReset / celtLostKind`.  The fields are private, so the TU #includes
   celt_decoder.c and drives a CELT decoder directly: random runs of concealed frames of 2.5/5/10/20 ms with start band
   0 or 17 (incl. runs long enough to saturate), decoded frames, resets.  Which branch of celt_decode_lost ran is read
   off `prefilter_and_fold` (set by the pitch branch :953, cleared by the noise branch :689).
     run <seed> <n> [quiet]   (quiet: only the predicates on the implementation, `W` lines)   */
#ifdef HAVE_CONFIG_H
#include "config.h"
#endif
#include "celt/celt_decoder.c"
#include "vcommon.h"

int main(int argc, char **argv)
{
   vrng r; long n, i; static float pcm[2 * 960]; unsigned char silence[2] = {0xFF, 0xFF};
   static const int RATES[5] = {8000, 12000, 16000, 24000, 48000};
   long cases = 0, nw = 0, npitch = 0, nnoise = 0; int quiet;
   vinstall_traps();
   if (argc < 4 || strcmp(argv[1], "run")) { fprintf(stderr, "usage: c09_celtloss run <seed> <n> [quiet]\n"); return 64; }
   r.s = strtoull(argv[2], 0, 10) * 0xD1342543DE82EF95ULL + 0x632BE59BD9B4E019ULL; r.s ^= vnext(&r) >> 7;
   n = atol(argv[3]); quiet = argc >= 5 && !strcmp(argv[4], "quiet");
   for (i = 0; i < n; i++) {
      int Fs = RATES[vbelow(&r, 5)], ch = 1 + vbelow(&r, 2), steps = 20 + vbelow(&r, 60), s;
      CELTDecoder *st = (CELTDecoder *)malloc(celt_decoder_get_size(ch));
      if (!st || celt_decoder_init(st, Fs, ch) != OPUS_OK) return 2;
      for (s = 0; s < steps; s++) {
         int LM = vbelow(&r, 4), N = (Fs / 400) << LM, before, skip0, ret, op = vbelow(&r, 100);
         int reps = vchance(&r, 1) && i % 16 == 0 ? 1300 + vbelow(&r, 9000) : 1, k;   /* a few genuine runs to saturation */
         if (op < 3) {
            if (!quiet) { printf("I decskel celtreset\n"); fflush(stdout); }
            celt_decoder_ctl(st, OPUS_RESET_STATE);
            if (!quiet) printf("O ld=%d skip=%d\n", st->loss_duration, st->skip_plc);
            cases++;
            continue;
         }
         if (op < 12) { int sb = vchance(&r, 50) ? 17 : 0; celt_decoder_ctl(st, CELT_SET_START_BAND(sb)); }
         if (reps == 1 && vchance(&r, 8)) {
            /* most saturation cases start from a counter placed just below the cap (the field is a plain int) */
            st->loss_duration = 9900 + (int)vbelow(&r, 101); reps = 5 + vbelow(&r, 120);
         }
         before = st->loss_duration; skip0 = st->skip_plc;
         if (op >= 12 && op < 45) {
            int good = 1 + (vchance(&r, 40) ? 1 : 0);     /* single decoded frames and pairs (a pair re-enables the pitch PLC) */
            for (k = 0; k < good; k++) {
               before = st->loss_duration; skip0 = st->skip_plc;
               if (!quiet) { printf("I decskel celtgood %d %d %d\n", before, skip0, LM); fflush(stdout); }
               ret = celt_decode_with_ec(st, silence, 2, pcm, N, NULL, 0);
               if (ret != N) { if (!quiet) printf("O %s\n", verr(ret)); continue; }
               if (!quiet) printf("O ld=%d skip=%d\n", st->loss_duration, st->skip_plc);
               cases++;
               /* predicates on the implementation: a decoded frame resets the counter; two in a row re-enable the pitch PLC */
               if (st->loss_duration != 0) { nw++; printf("W lossdur | loss_duration %d after a decoded frame (was %d) | decskel celtgood %d %d %d\n", st->loss_duration, before, before, skip0, LM); }
               if (before == 0 && st->skip_plc != 0) { nw++; printf("W plckind | skip_plc still set after two consecutive decoded frames | decskel celtgood %d %d %d\n", before, skip0, LM); }
            }
            continue;
         }
         for (k = 0; k < reps; k++) {
            int show, start = st->start, noise;
            before = st->loss_duration; skip0 = st->skip_plc;
            show = !quiet && (k == 0 || k == reps - 1 || (before >= 9985 && before < 10000) || (before >= 24 && before < 56));
            if (show) { printf("I decskel celtplc %d %d %d %d\n", before, skip0, start, LM); fflush(stdout); }
            st->prefilter_and_fold = 2;                     /* neither branch leaves 2 behind */
            ret = celt_decode_with_ec(st, NULL, 0, pcm, N, NULL, 0);
            noise = st->prefilter_and_fold == 0;
            if (noise) nnoise++; else npitch++;
            if (show) { if (ret != N) printf("O %s\n", verr(ret)); else printf("O kind=%s ld=%d skip=%d\n", st->prefilter_and_fold == 0 ? "noise" : st->prefilter_and_fold == 1 ? "pitch" : "none", st->loss_duration, st->skip_plc); }
            cases++;
            if (ret != N || nw >= 40) continue;
            /* predicates on the implementation */
            if (st->loss_duration > 10000 || st->loss_duration < before) { nw++; printf("W lossdur | loss_duration %d -> %d after a concealed frame | decskel celtplc %d %d %d %d\n", before, st->loss_duration, before, skip0, start, LM); }
            if ((before >= 40 || start != 0 || skip0) && !noise) { nw++; printf("W plckind | pitch-based concealment with loss_duration %d, start band %d, skip_plc %d | decskel celtplc %d %d %d %d\n", before, start, skip0, before, skip0, start, LM); }
            if (before < 40 && start == 0 && !skip0 && noise) { nw++; printf("W plckind | noise concealment although loss_duration %d < 40, start band 0 and the pitch PLC is enabled | decskel celtplc %d %d %d %d\n", before, before, skip0, start, LM); }
            if (noise && !st->skip_plc) { nw++; printf("W plckind | skip_plc not set after a noise-concealed frame | decskel celtplc %d %d %d %d\n", before, skip0, start, LM); }
         }
      }
      free(st);
   }
   printf("# celtloss seed=%s decoders=%ld cases=%ld witnesses=%ld pitch=%ld noise=%ld\n", argv[2], n, cases, nw, npitch, nnoise);
   return 0;
}
