/* c09_celtloss.c — C09: the CELT `loss_duration` counter (celt/celt_decoder.c:957, :1354) against the
   model `Opus.SilkPlcGains.celtLossStep / celtLossGood`.  The counter is a private field, so the TU
   #includes celt_decoder.c and drives a CELT decoder directly: random runs of concealed frames of
   2.5/5/10/20 ms (incl. runs long enough to saturate) interleaved with decoded frames.
     run <seed> <n>   */
#ifdef HAVE_CONFIG_H
#include "config.h"
#endif
#include "celt/celt_decoder.c"
#include "vcommon.h"

int main(int argc, char **argv)
{
   vrng r; long n, i; static float pcm[2 * 960]; unsigned char silence[2] = {0xFF, 0xFF};
   static const int RATES[5] = {8000, 12000, 16000, 24000, 48000};
   long cases = 0;
   vinstall_traps();
   if (argc < 4 || strcmp(argv[1], "run")) { fprintf(stderr, "usage: c09_celtloss run <seed> <n>\n"); return 64; }
   r.s = strtoull(argv[2], 0, 10) * 0xD1342543DE82EF95ULL + 0x632BE59BD9B4E019ULL; r.s ^= vnext(&r) >> 7;
   n = atol(argv[3]);
   for (i = 0; i < n; i++) {
      int Fs = RATES[vbelow(&r, 5)], ch = 1 + vbelow(&r, 2), steps = 20 + vbelow(&r, 60), s;
      CELTDecoder *st = (CELTDecoder *)malloc(celt_decoder_get_size(ch));
      if (!st || celt_decoder_init(st, Fs, ch) != OPUS_OK) return 2;
      for (s = 0; s < steps; s++) {
         int LM = vbelow(&r, 4), N = (Fs / 400) << LM, before = st->loss_duration, ret;
         int reps = vchance(&r, 5) ? 1300 + vbelow(&r, 9000) : 1, k;
         if (vchance(&r, 30)) {
            printf("I decskel lossgood %d\n", LM); fflush(stdout);
            ret = celt_decode_with_ec(st, silence, 2, pcm, N, NULL, 0);
            if (ret != N) { printf("O %s\n", verr(ret)); continue; }
            printf("O ld=%d\n", st->loss_duration); cases++;
            continue;
         }
         for (k = 0; k < reps; k++) {
            before = st->loss_duration;
            if (k == 0 || k == reps - 1 || (before >= 9985 && before < 10000)) { printf("I decskel lossdur %d %d\n", before, LM); fflush(stdout); }
            ret = celt_decode_with_ec(st, NULL, 0, pcm, N, NULL, 0);
            if (k == 0 || k == reps - 1 || (before >= 9985 && before < 10000)) { if (ret != N) printf("O %s\n", verr(ret)); else printf("O ld=%d\n", st->loss_duration); cases++; }
         }
      }
      free(st);
   }
   printf("# celtloss seed=%s decoders=%ld cases=%ld\n", argv[2], n, cases);
   return 0;
}
