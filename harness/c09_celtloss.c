/* c09_celtloss.c — C09: the CELT `loss_duration` counter (celt/celt_decoder.c:957, :1354) against the
   model `Opus.SilkPlcGains.celtLossStep / celtLossGood`.  The counter is a private field, so the TU
   #includes celt_decoder.c and drives a CELT decoder directly: random runs of concealed frames of
   2.5/5/10/20 ms (incl. runs long enough to saturate) interleaved with decoded frames.
     run <seed> <n> [quiet]   (quiet: only the predicate on the implementation, `W` lines)   */
#ifdef HAVE_CONFIG_H
#include "config.h"
#endif
#include "celt/celt_decoder.c"
#include "vcommon.h"

int main(int argc, char **argv)
{
   vrng r; long n, i; static float pcm[2 * 960]; unsigned char silence[2] = {0xFF, 0xFF};
   static const int RATES[5] = {8000, 12000, 16000, 24000, 48000};
   long cases = 0, nw = 0; int quiet;
   vinstall_traps();
   if (argc < 4 || strcmp(argv[1], "run")) { fprintf(stderr, "usage: c09_celtloss run <seed> <n>\n"); return 64; }
   r.s = strtoull(argv[2], 0, 10) * 0xD1342543DE82EF95ULL + 0x632BE59BD9B4E019ULL; r.s ^= vnext(&r) >> 7;
   n = atol(argv[3]); quiet = argc >= 5 && !strcmp(argv[4], "quiet");
   for (i = 0; i < n; i++) {
      int Fs = RATES[vbelow(&r, 5)], ch = 1 + vbelow(&r, 2), steps = 20 + vbelow(&r, 60), s;
      CELTDecoder *st = (CELTDecoder *)malloc(celt_decoder_get_size(ch));
      if (!st || celt_decoder_init(st, Fs, ch) != OPUS_OK) return 2;
      for (s = 0; s < steps; s++) {
         int LM = vbelow(&r, 4), N = (Fs / 400) << LM, before = st->loss_duration, ret;
         int reps = vchance(&r, 1) && i % 16 == 0 ? 1300 + vbelow(&r, 9000) : 1, k;   /* a few genuine runs to saturation */
         if (reps == 1 && vchance(&r, 8)) {
            /* most saturation cases start from a counter placed just below the cap (the field is a plain int) */
            st->loss_duration = 9900 + (int)vbelow(&r, 101); reps = 5 + vbelow(&r, 120);
         }
         if (vchance(&r, 30)) {
            if (!quiet) { printf("I decskel lossgood %d\n", LM); fflush(stdout); }
            ret = celt_decode_with_ec(st, silence, 2, pcm, N, NULL, 0);
            if (ret != N) { if (!quiet) printf("O %s\n", verr(ret)); continue; }
            if (!quiet) printf("O ld=%d\n", st->loss_duration);
            cases++;
            /* the property predicate on the implementation: a decoded frame resets the counter */
            if (st->loss_duration != 0) { nw++; printf("W lossdur | loss_duration %d after a decoded frame (was %d) | decskel lossgood %d\n", st->loss_duration, before, LM); }
            continue;
         }
         for (k = 0; k < reps; k++) {
            int show;
            before = st->loss_duration;
            show = !quiet && (k == 0 || k == reps - 1 || (before >= 9985 && before < 10000));
            if (show) { printf("I decskel lossdur %d %d\n", before, LM); fflush(stdout); }
            ret = celt_decode_with_ec(st, NULL, 0, pcm, N, NULL, 0);
            if (show) { if (ret != N) printf("O %s\n", verr(ret)); else printf("O ld=%d\n", st->loss_duration); }
            cases++;
            /* … and a concealed frame never decreases it nor takes it above 10000 */
            if (ret == N && (st->loss_duration > 10000 || st->loss_duration < before) && nw < 20) {
               nw++; printf("W lossdur | loss_duration %d -> %d after a concealed frame | decskel lossdur %d %d\n", before, st->loss_duration, before, LM);
            }
         }
      }
      free(st);
   }
   printf("# celtloss seed=%s decoders=%ld cases=%ld witnesses=%ld\n", argv[2], n, cases, nw);
   return 0;
}
