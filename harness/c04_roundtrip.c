/* c04_roundtrip.c — harness of property C04 (encode -> decode reproduces the input at the reported delay).
 *
 * Modes (argv[1]):
 *   lookahead            OPUS_GET_LOOKAHEAD on real encoders for every (kind, Fs, application, channels), also after
 *                        OPUS_SET_APPLICATION; lines "I delay lookahead <kind> <Fs> <app> <ch>" / "O <value|ERR>".
 *   mdct <seed> <n>      clt_mdct_forward_c / clt_mdct_backward_c of the static 48 kHz mode on seeded vectors for all
 *                        shifts: "I mdct fwd <shift> <in>" / "O <out>", "I mdct bwd <shift> <coef> <outbuf>" / "O <out>"
 *                        and "I mdct fft <shift> <in>" / "O <out>" (opus_fft_c, interleaved re,im), all
 *                        (floats as IEEE single bit patterns, 8 hex digits each), compared with the Lean model by
 *                        Driver/DelayMain.lean; plus "T tdac ..." lines: forward -> backward with overlap-add over
 *                        consecutive frames on the real code vs. the input (evaluated by tools/props/C04.py).
 *   encroute <seed> <n>  the copy_channel_in calls of the stream loop of opus_multistream_encode_native (which input channel
 *                        feeds which stream side) for the surround layouts and <n> random encoder-valid layouts:
 *                        "I delay encroute <channels> <streams> <coupled> x<mapping>" / "O s<stride>o<offset>c<channel> ..."
 *   rt                   reads configuration lines on stdin, runs the real encoder and decoder, prints the measured
 *                        delay / SNR / gain / per-band energy error / channel matrix of the decoded signal:
 *       rt <kind> <Fs> <ch> <app> <bw> <bitrate> <frame> <cplx> <vbr> <fmt> <force> <family> <stereo> <sigseed> <aux>
 *         kind   single | ms<family>  (multistream surround encoder, mapping family 0/1/255) | proj (family 3)
 *         bw     0 = auto, else OPUS_BANDWIDTH_* - 1100 (1 NB .. 5 FB)       frame  samples per channel at Fs
 *         vbr    0 CBR, 1 VBR, 2 constrained VBR     fmt  0 float, 1 int16, 2 int24
 *         force  0 auto, 1 SILK only, 2 hybrid, 3 CELT only (OPUS_SET_FORCE_MODE)
 *         family 0 multitone 1 sweep 2 speech-like 3 band-limited noise 4 transients
 *         stereo 0 independent channels, 1 level difference, 2 level difference + inverted, 3 delayed copy, 4 dual mono
 *         aux    decimal digits, 0 = none:  d0 OPUS_SET_FORCE_CHANNELS (1 mono, 2 stereo)   d1 decoder channels (1, 2; 0 = as
 *                encoder; a mono decoder's output is compared with the down-mix (L+R)/2)   d2 decoder gain (1: +6 dB, 2: -6 dB
 *                via OPUS_SET_GAIN; the reference is scaled alike)   d3 in-band FEC (1: FEC + 10 % expected loss, 2: FEC + 25 %)
 *                d4 every 8 frames alternate (1: FORCE_MODE SILK/CELT, 2: bitrate / bitrate/3, 3: FORCE_CHANNELS 1/2)
 *                d5 OPUS_SET_SIGNAL (1 voice, 2 music)
 *   All randomness comes from the seeds on the command line / in the configuration lines. */
#ifdef HAVE_CONFIG_H
#include "config.h"
#endif
#include "vcommon.h"
#include <math.h>
#include "opus.h"
#include "opus_multistream.h"
#include "opus_projection.h"
#include "opus_private.h"
#include "celt.h"
#include "modes.h"
#include "mdct.h"
#include "kiss_fft.h"

#ifndef M_PI
#define M_PI 3.14159265358979323846
#endif
#define MAXCH 18

/* ------------------------------------------------------------------ PRNG helpers */
static double urand(vrng *r) { return (double)(vnext(r) >> 11) * (1.0 / 9007199254740992.0); }
static double urange(vrng *r, double lo, double hi) { return lo + (hi - lo) * urand(r); }
static double lrange(vrng *r, double lo, double hi) { return lo * pow(hi / lo, urand(r)); }
static double grand(vrng *r) { return (urand(r) + urand(r) + urand(r) + urand(r) - 2.0) * 1.7320508; }

/* ------------------------------------------------------------------ signal families */
typedef struct { double b0, b1, b2, a1, a2, z1, z2; } biquad;
static void bq_lp(biquad *q, double fc, double Fs) {
   double w = 2 * M_PI * fc / Fs, c = cos(w), al = sin(w) / (2 * 0.7071), a0 = 1 + al;
   q->b0 = (1 - c) / 2 / a0; q->b1 = (1 - c) / a0; q->b2 = q->b0; q->a1 = -2 * c / a0; q->a2 = (1 - al) / a0; q->z1 = q->z2 = 0;
}
static void bq_hp(biquad *q, double fc, double Fs) {
   double w = 2 * M_PI * fc / Fs, c = cos(w), al = sin(w) / (2 * 0.7071), a0 = 1 + al;
   q->b0 = (1 + c) / 2 / a0; q->b1 = -(1 + c) / a0; q->b2 = q->b0; q->a1 = -2 * c / a0; q->a2 = (1 - al) / a0; q->z1 = q->z2 = 0;
}
static double bq_run(biquad *q, double x) {
   double y = q->b0 * x + q->z1; q->z1 = q->b1 * x - q->a1 * y + q->z2; q->z2 = q->b2 * x - q->a2 * y; return y;
}

static void normalise(double *x, int n, double peak) {
   double m = 0; int i;
   for (i = 0; i < n; i++) if (fabs(x[i]) > m) m = fabs(x[i]);
   if (m > 0) for (i = 0; i < n; i++) x[i] *= peak / m;
}

/* fmax: highest frequency with signal content (inside the coded bandwidth) */
static void gen_signal(int family, uint64_t seed, int Fs, int n, double fmax, double *x)
{
   vrng r; int i, k;
   r.s = seed * 0x9E3779B97F4A7C15ULL + (uint64_t)family * 1000003ULL + 12345;
   for (i = 0; i < 4; i++) vnext(&r);
   for (i = 0; i < n; i++) x[i] = 0;
   if (fmax < 400) fmax = 400;
   switch (family) {
   case 0: { /* multi-tone */
      int K = 3 + (int)vbelow(&r, 5);
      for (k = 0; k < K; k++) {
         double f = lrange(&r, 80, fmax), a = urange(&r, 0.2, 1.0), ph = urange(&r, 0, 2 * M_PI);
         for (i = 0; i < n; i++) x[i] += a * sin(2 * M_PI * f * i / Fs + ph);
      }
      normalise(x, n, 0.45);
   } break;
   case 1: { /* logarithmic sweep, up or down */
      double f0 = 100, f1 = fmax, ph = 0; int down = (int)vbelow(&r, 2);
      double T = (double)n / Fs;
      for (i = 0; i < n; i++) {
         double t = (double)i / Fs, u = down ? 1 - t / T : t / T, f = f0 * pow(f1 / f0, u);
         ph += 2 * M_PI * f / Fs;
         x[i] = 0.4 * sin(ph);
      }
   } break;
   case 2: { /* harmonic, speech-like: vibrato f0, formant envelope, syllabic modulation */
      double base = urange(&r, 90, 250), vib = urange(&r, 3, 7), vph = urange(&r, 0, 6.28), syl = urange(&r, 2, 5), sph = urange(&r, 0, 6.28);
      double fc[3], fw[3], ph = 0; int H;
      fc[0] = urange(&r, 300, 900); fc[1] = urange(&r, 900, 2300); fc[2] = urange(&r, 2300, 3400);
      fw[0] = 150; fw[1] = 250; fw[2] = 350;
      H = (int)(fmax / (base * 1.06)); if (H > 60) H = 60; if (H < 1) H = 1;
      for (i = 0; i < n; i++) {
         double t = (double)i / Fs, f0 = base * (1 + 0.05 * sin(2 * M_PI * vib * t + vph));
         double env = 0.55 + 0.45 * sin(2 * M_PI * syl * t + sph), s = 0;
         ph += 2 * M_PI * f0 / Fs;
         for (k = 1; k <= H; k++) {
            double f = k * f0, g = 0.05 / k; int j;
            for (j = 0; j < 3; j++) { double d = (f - fc[j]) / fw[j]; g += exp(-0.5 * d * d) / (1 + 0.3 * j); }
            s += g * sin(k * ph);
         }
         x[i] = env * env * s;
      }
      normalise(x, n, 0.45);
   } break;
   case 3: { /* band-limited noise */
      biquad lp[3], hp[2]; double fhi = urange(&r, 0.25, 0.6) * fmax, flo = lrange(&r, 50, fhi * 0.5);
      if (fhi < 300) fhi = 300;
      for (k = 0; k < 3; k++) bq_lp(&lp[k], fhi, Fs);
      for (k = 0; k < 2; k++) bq_hp(&hp[k], flo, Fs);
      for (i = -2000; i < n; i++) {
         double v = grand(&r);
         for (k = 0; k < 3; k++) v = bq_run(&lp[k], v);
         for (k = 0; k < 2; k++) v = bq_run(&hp[k], v);
         if (i >= 0) x[i] = v;
      }
      normalise(x, n, 0.45);
   } break;
   default: { /* transients: decaying bursts over a low noise floor */
      int E = 6 + (int)vbelow(&r, 10);
      for (i = 0; i < n; i++) x[i] = 0.0005 * grand(&r);
      for (k = 0; k < E; k++) {
         int t0 = (int)vbelow(&r, (uint32_t)n); double tau = urange(&r, 0.001, 0.02) * Fs, f = lrange(&r, 200, fmax), a = urange(&r, 0.3, 1.0);
         for (i = t0; i < n && i < t0 + (int)(8 * tau); i++) x[i] += a * exp(-(i - t0) / tau) * sin(2 * M_PI * f * (i - t0) / Fs);
      }
      normalise(x, n, 0.45);
   } break;
   }
}

/* ------------------------------------------------------------------ small FFT for band energies */
static void fft_pow2(double *re, double *im, int n)
{
   int i, j = 0, len;
   for (i = 1; i < n; i++) {
      int bit = n >> 1;
      for (; j & bit; bit >>= 1) j ^= bit;
      j ^= bit;
      if (i < j) { double t = re[i]; re[i] = re[j]; re[j] = t; t = im[i]; im[i] = im[j]; im[j] = t; }
   }
   for (len = 2; len <= n; len <<= 1) {
      double ang = -2 * M_PI / len; int half = len / 2, k;
      for (i = 0; i < n; i += len) for (k = 0; k < half; k++) {
         double wr = cos(ang * k), wi = sin(ang * k);
         double ur = re[i + k], ui = im[i + k];
         double vr = re[i + k + half] * wr - im[i + k + half] * wi, vi = re[i + k + half] * wi + im[i + k + half] * wr;
         re[i + k] = ur + vr; im[i + k] = ui + vi; re[i + k + half] = ur - vr; im[i + k + half] = ui - vi;
      }
   }
}
#define NBANDS 8
static const double band_edge[NBANDS + 1] = {0, 250, 500, 1000, 2000, 4000, 8000, 12000, 24001};
static void band_energy(const double *x, int n, int Fs, double *E)
{
   int B = Fs >= 24000 ? 1024 : 512, hop = B / 2, s, i, b;
   static double re[1024], im[1024];
   for (b = 0; b < NBANDS; b++) E[b] = 0;
   for (s = 0; s + B <= n; s += hop) {
      for (i = 0; i < B; i++) { re[i] = x[s + i] * (0.5 - 0.5 * cos(2 * M_PI * (i + 0.5) / B)); im[i] = 0; }
      fft_pow2(re, im, B);
      for (i = 0; i <= B / 2; i++) {
         double f = (double)i * Fs / B, p = re[i] * re[i] + im[i] * im[i];
         for (b = 0; b < NBANDS; b++) if (f >= band_edge[b] && f < band_edge[b + 1]) { E[b] += p; break; }
      }
   }
}

/* ------------------------------------------------------------------ codec wrapper */
typedef struct {
   int kind;          /* 0 single, 1 multistream (surround encoder), 2 projection */
   int mapfam;
   int Fs, ch, app, bw, bitrate, frame, cplx, vbr, fmt, force, family, stereo, aux;
   int fc, dch, gainopt, fec, alt, sig;      /* digits of aux; dch = decoder channel count (resolved) */
   uint64_t sigseed;
} Cfg;

typedef struct {
   OpusEncoder *e; OpusDecoder *d;
   OpusMSEncoder *me; OpusMSDecoder *md;
   OpusProjectionEncoder *pe; OpusProjectionDecoder *pd;
   int streams, coupled;
} Codec;

static int codec_open(const Cfg *c, Codec *k, int *la)
{
   int err = 0; opus_int32 v = -1;
   memset(k, 0, sizeof(*k));
   if (c->kind == 0) {
      k->e = opus_encoder_create(c->Fs, c->ch, c->app, &err); if (err) return err;
      k->d = opus_decoder_create(c->Fs, c->dch, &err); if (err) return err;
   } else if (c->kind == 1) {
      unsigned char mapping[256];
      k->me = opus_multistream_surround_encoder_create(c->Fs, c->ch, c->mapfam, &k->streams, &k->coupled, mapping, c->app, &err);
      if (err) return err;
      k->md = opus_multistream_decoder_create(c->Fs, c->ch, k->streams, k->coupled, mapping, &err); if (err) return err;
   } else {
      opus_int32 msize = 0; unsigned char *m;
      k->pe = opus_projection_ambisonics_encoder_create(c->Fs, c->ch, c->mapfam, &k->streams, &k->coupled, c->app, &err);
      if (err) return err;
      err = opus_projection_encoder_ctl(k->pe, OPUS_PROJECTION_GET_DEMIXING_MATRIX_SIZE(&msize)); if (err) return err;
      m = (unsigned char *)malloc(msize > 0 ? msize : 1);
      err = opus_projection_encoder_ctl(k->pe, OPUS_PROJECTION_GET_DEMIXING_MATRIX(m, msize)); if (err) { free(m); return err; }
      k->pd = opus_projection_decoder_create(c->Fs, c->ch, k->streams, k->coupled, m, msize, &err);
      free(m); if (err) return err;
      {  /* RFC 8486 sec. 3.2: the demixing matrix gain travels in the header's output-gain field and is applied by the
            decoder (Q8 dB), as libopusenc/opusfile do */
         opus_int32 g = 0;
         err = opus_projection_encoder_ctl(k->pe, OPUS_PROJECTION_GET_DEMIXING_MATRIX_GAIN(&g)); if (err) return err;
         err = opus_projection_decoder_ctl(k->pd, OPUS_SET_GAIN(g)); if (err) return err;
      }
   }
#define ECTL(req) (c->kind == 0 ? opus_encoder_ctl(k->e, req) : c->kind == 1 ? opus_multistream_encoder_ctl(k->me, req) : opus_projection_encoder_ctl(k->pe, req))
   if ((err = ECTL(OPUS_SET_BITRATE(c->bitrate)))) return err;
   if ((err = ECTL(OPUS_SET_COMPLEXITY(c->cplx)))) return err;
   if ((err = ECTL(OPUS_SET_VBR(c->vbr != 0)))) return err;
   if ((err = ECTL(OPUS_SET_VBR_CONSTRAINT(c->vbr == 2)))) return err;
   if (c->bw) { if ((err = ECTL(OPUS_SET_BANDWIDTH(1100 + c->bw)))) return err; }
   if (c->force) { if ((err = ECTL(OPUS_SET_FORCE_MODE(999 + c->force)))) return err; }
   if (c->fmt == 1) { if ((err = ECTL(OPUS_SET_LSB_DEPTH(16)))) return err; }
   if (c->fc) { if ((err = ECTL(OPUS_SET_FORCE_CHANNELS(c->fc)))) return err; }
   if (c->sig) { if ((err = ECTL(OPUS_SET_SIGNAL(c->sig == 1 ? OPUS_SIGNAL_VOICE : OPUS_SIGNAL_MUSIC)))) return err; }
   if (c->fec) { if ((err = ECTL(OPUS_SET_INBAND_FEC(1)))) return err; if ((err = ECTL(OPUS_SET_PACKET_LOSS_PERC(c->fec == 1 ? 10 : 25)))) return err; }
   if (c->gainopt) {
      opus_int32 g = c->gainopt == 1 ? 1536 : -1536, g0 = 0;
      if (c->kind == 2) { if ((err = opus_projection_decoder_ctl(k->pd, OPUS_GET_GAIN(&g0)))) return err; }
      err = c->kind == 0 ? opus_decoder_ctl(k->d, OPUS_SET_GAIN(g)) : c->kind == 1 ? opus_multistream_decoder_ctl(k->md, OPUS_SET_GAIN(g))
                         : opus_projection_decoder_ctl(k->pd, OPUS_SET_GAIN(g0 + g));
      if (err) return err;
   }
   if ((err = ECTL(OPUS_GET_LOOKAHEAD(&v)))) return err;
   *la = (int)v;
   return 0;
}
static void codec_close(Codec *k)
{
   if (k->e) opus_encoder_destroy(k->e); if (k->d) opus_decoder_destroy(k->d);
   if (k->me) opus_multistream_encoder_destroy(k->me); if (k->md) opus_multistream_decoder_destroy(k->md);
   if (k->pe) opus_projection_encoder_destroy(k->pe); if (k->pd) opus_projection_decoder_destroy(k->pd);
}

static double fmax_of(const Cfg *c)
{
   static const double bwhz[6] = {20000, 4000, 6000, 8000, 12000, 20000};
   double f = c->Fs / 2.0, b = bwhz[c->bw];
   if (c->force == 1 && b > 8000) b = 8000;                  /* SILK-only codes at most wideband */
   if (b < f) f = b;
   return 0.85 * f;
}

/* run the real encoder and decoder over `nfr` frames; x, y are interleaved float buffers of nfr*frame*ch */
static int roundtrip(const Cfg *c, Codec *k, const float *x, float *y, int nfr, int *modes, int *maxbw, long *bytes)
{
   int f, i, ch = c->ch, fs = c->frame, n = fs * ch, nd = fs * c->dch, ret;
   unsigned char *pkt = (unsigned char *)malloc(1500 * 6 * 10 + 100);
   int maxpkt = 1500 * 6 * 10;
   opus_int16 *s16 = (opus_int16 *)malloc(sizeof(opus_int16) * (n > nd ? n : nd));
   opus_int32 *s24 = (opus_int32 *)malloc(sizeof(opus_int32) * (n > nd ? n : nd));
   *bytes = 0;
   for (f = 0; f < nfr; f++) {
      const float *xf = x + (long)f * n; float *yf = y + (long)f * nd;
      if (c->alt && c->kind == 0 && f % 8 == 0) {
         int odd = (f / 8) % 2, e2 = 0;
         if (c->alt == 1) e2 = opus_encoder_ctl(k->e, OPUS_SET_FORCE_MODE(odd ? MODE_CELT_ONLY : MODE_SILK_ONLY));
         if (c->alt == 2) e2 = opus_encoder_ctl(k->e, OPUS_SET_BITRATE(odd ? c->bitrate / 3 : c->bitrate));
         if (c->alt == 3) e2 = opus_encoder_ctl(k->e, OPUS_SET_FORCE_CHANNELS(odd ? 2 : 1));
         if (e2) { free(pkt); free(s16); free(s24); return e2; }
      }
      if (c->fmt == 1) for (i = 0; i < n; i++) s16[i] = (opus_int16)lrintf(xf[i] * 32768.f);
      if (c->fmt == 2) for (i = 0; i < n; i++) s24[i] = (opus_int32)lrintf(xf[i] * 8388608.f);
      if (c->kind == 0)
         ret = c->fmt == 0 ? opus_encode_float(k->e, xf, fs, pkt, maxpkt) : c->fmt == 1 ? opus_encode(k->e, s16, fs, pkt, maxpkt) : opus_encode24(k->e, s24, fs, pkt, maxpkt);
      else if (c->kind == 1)
         ret = c->fmt == 0 ? opus_multistream_encode_float(k->me, xf, fs, pkt, maxpkt) : c->fmt == 1 ? opus_multistream_encode(k->me, s16, fs, pkt, maxpkt) : opus_multistream_encode24(k->me, s24, fs, pkt, maxpkt);
      else
         ret = c->fmt == 0 ? opus_projection_encode_float(k->pe, xf, fs, pkt, maxpkt) : c->fmt == 1 ? opus_projection_encode(k->pe, s16, fs, pkt, maxpkt) : opus_projection_encode24(k->pe, s24, fs, pkt, maxpkt);
      if (ret < 0) { free(pkt); free(s16); free(s24); return ret; }
      *bytes += ret;
      if (c->kind == 0 && ret > 0) {
         int toc = pkt[0], bw = opus_packet_get_bandwidth(pkt) - 1100;
         modes[(toc & 0x80) ? 2 : ((toc & 0x60) == 0x60 ? 1 : 0)]++;
         if (bw > *maxbw) *maxbw = bw;
      }
      {
         unsigned char *ex = vexact(pkt, ret); int got;
         if (c->kind == 0)
            got = c->fmt == 0 ? opus_decode_float(k->d, ex, ret, yf, fs, 0) : c->fmt == 1 ? opus_decode(k->d, ex, ret, s16, fs, 0) : opus_decode24(k->d, ex, ret, s24, fs, 0);
         else if (c->kind == 1)
            got = c->fmt == 0 ? opus_multistream_decode_float(k->md, ex, ret, yf, fs, 0) : c->fmt == 1 ? opus_multistream_decode(k->md, ex, ret, s16, fs, 0) : opus_multistream_decode24(k->md, ex, ret, s24, fs, 0);
         else
            got = c->fmt == 0 ? opus_projection_decode_float(k->pd, ex, ret, yf, fs, 0) : c->fmt == 1 ? opus_projection_decode(k->pd, ex, ret, s16, fs, 0) : opus_projection_decode24(k->pd, ex, ret, s24, fs, 0);
         free(ex);
         if (got != fs) { free(pkt); free(s16); free(s24); return got < 0 ? got : -100; }
         if (c->fmt == 1) for (i = 0; i < nd; i++) yf[i] = s16[i] / 32768.f;
         if (c->fmt == 2) for (i = 0; i < nd; i++) yf[i] = s24[i] / 8388608.f;
      }
   }
   free(pkt); free(s16); free(s24);
   return 0;
}

static int parse_cfg(char *line, Cfg *c)
{
   char kind[32]; unsigned long long ss;
   int n = sscanf(line, "rt %31s %d %d %d %d %d %d %d %d %d %d %d %d %llu %d", kind, &c->Fs, &c->ch, &c->app, &c->bw, &c->bitrate,
                  &c->frame, &c->cplx, &c->vbr, &c->fmt, &c->force, &c->family, &c->stereo, &ss, &c->aux);
   if (n != 15) return 0;
   c->sigseed = ss;
   if (!strcmp(kind, "single")) { c->kind = 0; c->mapfam = 0; }
   else if (!strncmp(kind, "ms", 2)) { c->kind = 1; c->mapfam = atoi(kind + 2); }
   else if (!strcmp(kind, "proj")) { c->kind = 2; c->mapfam = 3; }
   else return 0;
   if (c->ch < 1 || c->ch > MAXCH || c->bw < 0 || c->bw > 5 || c->fmt < 0 || c->fmt > 2 || c->force < 0 || c->force > 3) return 0;
   if (c->frame < 1 || c->frame > 5760 || c->family < 0 || c->family > 4 || c->stereo < 0 || c->stereo > 4 || c->aux < 0) return 0;
   c->fc = c->aux % 10; c->dch = c->aux / 10 % 10; c->gainopt = c->aux / 100 % 10; c->fec = c->aux / 1000 % 10;
   c->alt = c->aux / 10000 % 10; c->sig = c->aux / 100000 % 10;
   if (c->fc > 2 || c->dch > 2 || c->gainopt > 2 || c->fec > 2 || c->alt > 3 || c->sig > 2 || c->aux >= 1000000) return 0;
   if (c->kind != 0 && (c->fc || c->dch || c->alt)) return 0;      /* single-stream options */
   if (c->dch == 0) c->dch = c->ch;
   return 1;
}

static void run_rt(char *line)
{
   Cfg c; Codec k; int la = 0, err, nfr, N, i, j, ch, dch, modes[3] = {0, 0, 0}, maxbw = 0; long bytes = 0;
   float *x, *y; double *mono, *xs[MAXCH], *ys[MAXCH], *rf[MAXCH];
   { char *e = line + strlen(line); while (e > line && (e[-1] == '\n' || e[-1] == '\r')) *--e = 0; }
   printf("I %s\n", line);
   if (!parse_cfg(line, &c)) { printf("O BADCFG\n"); return; }
   fflush(stdout);
   err = codec_open(&c, &k, &la);
   if (err) { printf("O ERR open %s\n", verr(err)); codec_close(&k); return; }
   ch = c.ch; dch = c.dch;
   nfr = (int)ceil(0.75 * c.Fs / c.frame); if (nfr < 4) nfr = 4;
   N = nfr * c.frame;
   x = (float *)calloc((size_t)N * ch, sizeof(float)); y = (float *)calloc((size_t)N * (dch > ch ? dch : ch), sizeof(float));
   mono = (double *)malloc(sizeof(double) * N);
   for (j = 0; j < MAXCH; j++) xs[j] = ys[j] = rf[j] = 0;
   for (j = 0; j < (ch > dch ? ch : dch); j++) { xs[j] = (double *)malloc(sizeof(double) * N); ys[j] = (double *)malloc(sizeof(double) * N); rf[j] = (double *)malloc(sizeof(double) * N); }
   /* input signals */
   {
      double fmax = fmax_of(&c);
      vrng r; r.s = c.sigseed ^ 0xC04C04C04ULL;
      for (j = 0; j < ch; j++) {
         int lfe = (c.kind == 1 && c.mapfam == 1 && ch >= 6 && j == ch - 1);   /* Vorbis order: LFE is last */
         if (j == 0 || c.stereo == 0 || ch != 2) {
            int fam = (j == 0) ? c.family : (c.family + j) % 5;
            gen_signal(fam, c.sigseed + 7919ULL * j, c.Fs, N, lfe ? 100 : fmax, mono);
            if (j > 0) { double g = 0.5 + 0.5 * urand(&r); for (i = 0; i < N; i++) mono[i] *= g; }
            for (i = 0; i < N; i++) xs[j][i] = mono[i];
         } else {
            double g = urange(&r, 0.25, 1.0); int d = c.stereo == 3 ? 1 + (int)vbelow(&r, (uint32_t)(c.Fs / 1000)) : 0;
            if (c.stereo == 2) g = -g;
            if (c.stereo == 4) g = 1.0;
            for (i = 0; i < N; i++) xs[j][i] = i >= d ? g * xs[0][i - d] : 0;
         }
      }
      for (j = 0; j < ch; j++) for (i = 0; i < N; i++) {
         float v = (float)xs[j][i];
         if (c.fmt == 1) v = (float)lrintf(v * 32768.f) / 32768.f;          /* what the integer APIs are given */
         if (c.fmt == 2) v = (float)lrintf(v * 8388608.f) / 8388608.f;
         x[(long)i * ch + j] = v; xs[j][i] = v;
      }
   }
   err = roundtrip(&c, &k, x, y, nfr, modes, &maxbw, &bytes);
   if (err) { printf("O ERR codec %s\n", err == -100 ? "SHORT_DECODE" : verr(err)); goto done; }
   for (j = 0; j < dch; j++) for (i = 0; i < N; i++) ys[j][i] = y[(long)i * dch + j];
   {  /* the reference each output channel is compared with: its own input channel; the down-mix for a mono decoder of a
         stereo stream; the single input for a stereo decoder of a mono stream; scaled by the configured decoder gain */
      double gl = c.gainopt == 1 ? 1.9952623 : c.gainopt == 2 ? 0.5011872 : 1.0;
      for (j = 0; j < dch; j++) for (i = 0; i < N; i++)
         rf[j][i] = gl * (dch == ch ? xs[j][i] : dch == 1 ? 0.5 * (xs[0][i] + xs[1][i]) : xs[0][i]);
   }
   printf("O OK la=%d modes=%d/%d/%d bw=%d kbps=%.1f", la, modes[0], modes[1], modes[2], maxbw, bytes * 8.0 * c.Fs / ((double)N * 1000.0));
   {
      int a = (int)(0.2 * c.Fs), W = 3 * c.Fs / 1000, b = N - la - W - 1, L;
      if (b - a < c.Fs / 4) a = b - c.Fs / 4;
      if (a < W) a = W;
      L = b - a;
      for (j = 0; j < dch; j++) {
         double Exx = 0, Eyy = 0, Exy = 0, Eee = 0, best = -1e300, cm = 0, cp = 0, c0 = 0, frac = 0; int bl = 0, l, lo = -W, hi = W, bnd;
         double Ex[NBANDS], Ey[NBANDS];
         const double *X = rf[j] + a, *Y = ys[j] + a + la;
         for (i = 0; i < L; i++) { double u = X[i], v = Y[i]; Exx += u * u; Eyy += v * v; Exy += u * v; Eee += (v - u) * (v - u); }
         if (lo < -(a + la)) lo = -(a + la);
         for (l = lo; l <= hi; l++) { double s = 0; for (i = 0; i < L; i++) s += X[i] * Y[i + l]; if (s > best) { best = s; bl = l; } }
         for (l = bl - 1; l <= bl + 1; l++) { double s = 0; if (l < lo || l > hi) { s = best; } else for (i = 0; i < L; i++) s += X[i] * Y[i + l];
            if (l == bl - 1) cm = s; else if (l == bl) c0 = s; else cp = s; }
         if (cm - 2 * c0 + cp < 0) frac = 0.5 * (cm - cp) / (cm - 2 * c0 + cp);
         if (frac > 0.5) frac = 0.5; if (frac < -0.5) frac = -0.5;
         printf(" | c%d snr=%.2f gain=%.4f dly=%.3f pk=%.4f lvl=%.2f bands=", j,
                10 * log10((Exx + 1e-30) / (Eee + 1e-30)), Exy / (Exx + 1e-30), la + bl + frac, best / sqrt(Exx * Eyy + 1e-30),
                10 * log10((Eyy + 1e-30) / (Exx + 1e-30)));
         band_energy(X, L, c.Fs, Ex); band_energy(Y, L, c.Fs, Ey);
         { double tot = 0; for (bnd = 0; bnd < NBANDS; bnd++) tot += Ex[bnd];
           for (bnd = 0; bnd < NBANDS; bnd++) {
              if (Ex[bnd] > 1e-3 * tot && tot > 0) printf("%s%.2f", bnd ? "," : "", 10 * log10((Ey[bnd] + 1e-30) / Ex[bnd]));
              else printf("%s-", bnd ? "," : "");
           } }
         /* channel matrix row: projection of output j on every input */
         if (ch > 1 && dch == ch) {
            int m; printf(" row=");
            for (m = 0; m < ch; m++) {
               double sxy = 0, sxx = 0; const double *Xm = xs[m] + a;
               for (i = 0; i < L; i++) { sxy += Xm[i] * Y[i]; sxx += Xm[i] * Xm[i]; }
               printf("%s%.3f", m ? "," : "", sxy / (sxx + 1e-30));
            }
            if (ch == 2) { /* least-squares y_j = p*x_j + q*x_other */
               const double *U = xs[j] + a, *V = xs[1 - j] + a; double uu = 0, vv = 0, uv = 0, yu = 0, yv = 0, det;
               for (i = 0; i < L; i++) { uu += U[i] * U[i]; vv += V[i] * V[i]; uv += U[i] * V[i]; yu += Y[i] * U[i]; yv += Y[i] * V[i]; }
               det = uu * vv - uv * uv;
               if (det > 1e-6 * uu * vv) printf(" ls=%.3f,%.3f", (yu * vv - yv * uv) / det, (yv * uu - yu * uv) / det);
               else printf(" ls=-");
            }
         }
      }
   }
   printf("\n");
done:
   codec_close(&k);
   free(x); free(y); free(mono);
   for (j = 0; j < MAXCH; j++) { free(xs[j]); free(ys[j]); free(rf[j]); }
}

/* ------------------------------------------------------------------ lookahead table */
static void mode_lookahead(void)
{
   static const int rates[5] = {8000, 12000, 16000, 24000, 48000};
   static const int apps[3] = {OPUS_APPLICATION_VOIP, OPUS_APPLICATION_AUDIO, OPUS_APPLICATION_RESTRICTED_LOWDELAY};
   int r, a, ch, err;
   for (r = 0; r < 5; r++) for (a = 0; a < 3; a++) {
      for (ch = 1; ch <= 2; ch++) {
         opus_int32 v = -1; int b;
         OpusEncoder *e;
         printf("I delay lookahead single %d %d %d\n", rates[r], apps[a], ch); fflush(stdout);
         e = opus_encoder_create(rates[r], ch, apps[a], &err);
         if (!e) { printf("O ERR %s\n", verr(err)); continue; }
         err = opus_encoder_ctl(e, OPUS_GET_LOOKAHEAD(&v));
         if (err) printf("O ERR %s\n", verr(err)); else printf("O %d\n", (int)v);
         /* the application may be changed before the first frame; the look-ahead follows it */
         for (b = 0; b < 3; b++) {
            printf("I delay setapp single %d %d %d %d\n", rates[r], apps[a], ch, apps[b]); fflush(stdout);
            err = opus_encoder_ctl(e, OPUS_SET_APPLICATION(apps[b]));
            if (!err) err = opus_encoder_ctl(e, OPUS_GET_LOOKAHEAD(&v));
            if (err) printf("O ERR %s\n", verr(err)); else printf("O %d\n", (int)v);
         }
         opus_encoder_destroy(e);
      }
      for (ch = 1; ch <= 8; ch++) {
         int fam;
         for (fam = 0; fam <= 255; fam = fam == 0 ? 1 : fam == 1 ? 255 : 256) {
            unsigned char mapping[256]; int st = 0, cp = 0; opus_int32 v = -1; OpusMSEncoder *me;
            if (fam == 0 && ch > 2) continue;
            printf("I delay lookahead ms%d %d %d %d\n", fam, rates[r], apps[a], ch); fflush(stdout);
            me = opus_multistream_surround_encoder_create(rates[r], ch, fam, &st, &cp, mapping, apps[a], &err);
            if (!me) { printf("O ERR %s\n", verr(err)); continue; }
            err = opus_multistream_encoder_ctl(me, OPUS_GET_LOOKAHEAD(&v));
            if (err) printf("O ERR %s\n", verr(err)); else printf("O %d\n", (int)v);
            opus_multistream_encoder_destroy(me);
         }
      }
      {
         static const int pch[] = {4, 6, 9, 11, 16, 18}; int i;
         for (i = 0; i < 6; i++) {
            int st = 0, cp = 0; opus_int32 v = -1; OpusProjectionEncoder *pe;
            printf("I delay lookahead proj %d %d %d\n", rates[r], apps[a], pch[i]); fflush(stdout);
            pe = opus_projection_ambisonics_encoder_create(rates[r], pch[i], 3, &st, &cp, apps[a], &err);
            if (!pe) { printf("O ERR %s\n", verr(err)); continue; }
            err = opus_projection_encoder_ctl(pe, OPUS_GET_LOOKAHEAD(&v));
            if (err) printf("O ERR %s\n", verr(err)); else printf("O %d\n", (int)v);
            opus_projection_encoder_destroy(pe);
         }
      }
   }
}

/* ------------------------------------------------------------------ MDCT of the real code */
static void putf(const float *p, int n)
{
   int i; putchar('x');
   for (i = 0; i < n; i++) { uint32_t u; memcpy(&u, &p[i], 4); printf("%08x", u); }
}
static void mode_mdct(uint64_t seed, int ncase)
{
   int err = 0, shift, cs, i, arch = opus_select_arch();
   const CELTMode *m = opus_custom_mode_create(48000, 960, &err);
   vrng r; r.s = seed * 0x2545F4914F6CDD1DULL + 99;
   if (!m) { printf("# no static mode\n"); return; }
   for (shift = 0; shift <= m->mdct.maxshift; shift++) {
      int N = m->mdct.n >> shift, N2 = N / 2, ov = m->overlap;
      float *in = (float *)malloc(sizeof(float) * (N2 + ov)), *in2 = (float *)malloc(sizeof(float) * (N2 + ov));
      float *out = (float *)malloc(sizeof(float) * (N2 + ov)), *coef = (float *)malloc(sizeof(float) * N2);
      for (cs = 0; cs < ncase; cs++) {
         int kind = (cs + shift) % 3;
         for (i = 0; i < N2 + ov; i++)
            in[i] = kind == 0 ? (float)(urand(&r) * 2 - 1) : kind == 1 ? (float)(0.7 * sin(0.05 * (1 + cs) * i + shift) + 0.2 * (urand(&r) - 0.5))
                                                                       : (float)((i % 97 == (cs * 13) % 97) ? 1.0 : 0.0);
         memcpy(in2, in, sizeof(float) * (N2 + ov));
         printf("I mdct fwd %d ", shift); putf(in, N2 + ov); printf("\n"); fflush(stdout);
         clt_mdct_forward_c(&m->mdct, in2, coef, m->window, ov, shift, 1, arch);
         printf("O "); putf(coef, N2); printf("\n");
         for (i = 0; i < N2; i++) coef[i] = kind == 2 ? (float)(i == (cs * 7 + 3) % N2) : (float)(urand(&r) * 2 - 1);
         for (i = 0; i < N2 + ov; i++) out[i] = (float)(urand(&r) - 0.5);
         memcpy(in2, coef, sizeof(float) * N2);
         printf("I mdct bwd %d ", shift); putf(coef, N2); printf(" "); putf(out, N2 + ov); printf("\n"); fflush(stdout);
         clt_mdct_backward_c(&m->mdct, in2, out, m->window, ov, shift, 1, arch);
         printf("O "); putf(out, N2 + ov); printf("\n");
      }
      /* the FFT alone: opus_fft_c of this shift's configuration (nfft = N/4; output scaled by 1/nfft) */
      for (cs = 0; cs < ncase; cs++) {
         const kiss_fft_state *cfg = m->mdct.kfft[shift]; int nf = cfg->nfft;
         kiss_fft_cpx *fin = (kiss_fft_cpx *)malloc(sizeof(kiss_fft_cpx) * nf), *fout = (kiss_fft_cpx *)malloc(sizeof(kiss_fft_cpx) * nf);
         for (i = 0; i < nf; i++) {
            fin[i].r = cs % 3 == 2 ? (float)(i == (7 * cs + 1) % nf) : (float)(urand(&r) * 2 - 1);
            fin[i].i = cs % 3 == 2 ? 0.f : (float)(urand(&r) * 2 - 1);
         }
         printf("I mdct fft %d ", shift); putf((const float *)fin, 2 * nf); printf("\n"); fflush(stdout);
         opus_fft_c(cfg, fin, fout);
         printf("O "); putf((const float *)fout, 2 * nf); printf("\n");
         free(fin); free(fout);
      }
      /* TDAC on the real code: T consecutive blocks, hop N2 */
      for (cs = 0; cs < ncase; cs++) {
         int T = 6, len = T * N2 + ov, t; double worst = 0, mx = 0; int wi = -1;
         float *x = (float *)malloc(sizeof(float) * len), *Y = (float *)calloc(len, sizeof(float));
         for (i = 0; i < len; i++) { x[i] = cs % 2 ? (float)(0.6 * sin(0.01 * (cs + 1) * i) + 0.3 * sin(0.37 * i + cs)) : (float)(urand(&r) * 2 - 1); if (fabs(x[i]) > mx) mx = fabs(x[i]); }
         for (t = 0; t < T; t++) {
            memcpy(in2, x + t * N2, sizeof(float) * (N2 + ov));
            clt_mdct_forward_c(&m->mdct, in2, coef, m->window, ov, shift, 1, arch);
            clt_mdct_backward_c(&m->mdct, coef, Y + t * N2, m->window, ov, shift, 1, arch);
         }
         for (i = N2; i < T * N2; i++) { double d = fabs((double)Y[i] - x[i]); if (!(d <= worst)) { worst = d; wi = i; } }
         printf("T tdac shift=%d case=%d frames=%d relerr=%.3e at=%d\n", shift, cs, T, worst / mx, wi);
         free(x); free(Y);
      }
      free(in); free(in2); free(out); free(coef);
   }
}

/* ------------------------------------------------------------------ encoder-side channel routing */
typedef struct { int n; opus_res *base; struct { opus_res *dst; int stride, chan; } call[600]; } RouteLog;
static void rec_copy_in(opus_res *dst, int dst_stride, const void *src, int src_stride, int src_channel, int frame_size, void *user_data)
{
   int i;
   for (i = 0; i < frame_size; i++) dst[i * dst_stride] = 0;
   if (user_data) {         /* surround_analysis passes NULL; the stream loop passes the caller's pointer */
      RouteLog *g = (RouteLog *)user_data;
      if (g->n < 600) { g->call[g->n].dst = dst; g->call[g->n].stride = dst_stride; g->call[g->n].chan = src_channel; g->n++; }
      if (!g->base || dst < g->base) g->base = dst;
   }
   (void)src; (void)src_stride;
}
static void route_case(OpusMSEncoder *me, int ch, int streams, int coupled, const unsigned char *mapping)
{
   static float pcm[960 * 255]; static unsigned char pkt[1275 * 255 + 512];
   RouteLog g; int i, ret;
   memset(&g, 0, sizeof g);
   printf("I delay encroute %d %d %d x", ch, streams, coupled);
   for (i = 0; i < ch; i++) printf("%02x", mapping[i]);
   printf("\n"); fflush(stdout);
   ret = opus_multistream_encode_native(me, rec_copy_in, pcm, 960, pkt, (opus_int32)sizeof pkt, 24, downmix_float, 1, &g);
   if (ret < 0) { printf("O ERR %s\n", verr(ret)); return; }
   printf("O");
   for (i = 0; i < g.n; i++) printf(" s%do%dc%d", g.call[i].stride, (int)(g.call[i].dst - g.base), g.call[i].chan);
   printf("\n");
}
static void mode_encroute(uint64_t seed, int ncase)
{
   int fam, ch, k, err;
   vrng r; r.s = seed * 0x9E3779B97F4A7C15ULL + 4242;
   for (fam = 0; fam <= 255; fam = fam == 0 ? 1 : fam == 1 ? 255 : 256)
      for (ch = 1; ch <= (fam == 0 ? 2 : fam == 1 ? 8 : 12); ch++) {
         unsigned char mapping[256]; int st = 0, cp = 0;
         OpusMSEncoder *me = opus_multistream_surround_encoder_create(48000, ch, fam, &st, &cp, mapping, OPUS_APPLICATION_AUDIO, &err);
         if (!me) continue;
         route_case(me, ch, st, cp, mapping);
         opus_multistream_encoder_destroy(me);
      }
   for (k = 0; k < ncase; k++) {
      /* encoder-valid layout: every byte 0 .. streams+coupled-1 occurs; extra channels repeat a byte or are muted */
      unsigned char mapping[256]; int st = 1 + (int)vbelow(&r, 5), cp = (int)vbelow(&r, (uint32_t)st + 1), need = st + cp;
      int extra = (int)vbelow(&r, 4), chn = need + extra, i;
      OpusMSEncoder *me;
      for (i = 0; i < need; i++) mapping[i] = (unsigned char)i;
      for (i = need; i < chn; i++) mapping[i] = vbelow(&r, 3) == 0 ? 255 : (unsigned char)vbelow(&r, (uint32_t)need);
      for (i = chn - 1; i > 0; i--) { int j = (int)vbelow(&r, (uint32_t)i + 1); unsigned char t = mapping[i]; mapping[i] = mapping[j]; mapping[j] = t; }
      me = opus_multistream_encoder_create(48000, chn, st, cp, mapping, OPUS_APPLICATION_AUDIO, &err);
      if (!me) { printf("I delay encroute %d %d %d x", chn, st, cp); for (i = 0; i < chn; i++) printf("%02x", mapping[i]); printf("\nO ERR %s\n", verr(err)); continue; }
      route_case(me, chn, st, cp, mapping);
      opus_multistream_encoder_destroy(me);
   }
}

int main(int argc, char **argv)
{
   vinstall_traps();
   if (argc >= 2 && !strcmp(argv[1], "lookahead")) { mode_lookahead(); return 0; }
   if (argc >= 4 && !strcmp(argv[1], "mdct")) { mode_mdct(strtoull(argv[2], 0, 10), atoi(argv[3])); return 0; }
   if (argc >= 4 && !strcmp(argv[1], "encroute")) { mode_encroute(strtoull(argv[2], 0, 10), atoi(argv[3])); return 0; }
   if (argc >= 2 && !strcmp(argv[1], "rt")) {
      static char line[4096];
      while (fgets(line, sizeof line, stdin)) { if (line[0] == 'r') run_rt(line); fflush(stdout); }
      return 0;
   }
   fprintf(stderr, "usage: c04_roundtrip lookahead | mdct <seed> <n> | encroute <seed> <n> | rt < configs\n");
   return 64;
}
