/* c01_celtidx.c — C01, index-safety bridge for the CELT decoder interior (model: lean/OpusModel/CeltIdx.lean).
   The TU #includes celt/celt_decoder.c with `comb_filter` and `OPUS_MOVE` routed through recording wrappers, and drives
   CELT decoders directly (all five rates x mono/stereo x 2.5/5/10/20 ms) with crafted frames whose post-filter header is
   chosen (period extremes 15 / 1022, octave boundaries, old != new, gain 0 / non-0, all tapsets), random frames,
   silence frames and lost frames in between.
     celtsize: where the arrays behind the struct really are (pointer differences) and celt_decoder_get_size
     pfcalls : the post-filter comb_filter calls and the decode_mem shift of one decoded frame as the decoder made them
               (offsets relative to decode_mem[c]), and the post-filter periods it left behind
     combext : which elements the COMPILED comb_filter reads and writes, measured on the function itself: reads by NaN
               propagation (a NaN planted below / above a cut shows up in the output iff something beyond the cut is
               read; the cut is bisected), writes by difference (in place) or by a sentinel pattern (y != x); synthetic
               data, a constant window and gains 0 / 0.5 / 0.3 (indices do not depend on the values)
     run <seed> <n> [quiet]    (quiet: only the predicates on the implementation, `W` lines)   */
#ifdef HAVE_CONFIG_H
#include "config.h"
#endif
#define CELT_DECODER_C
#include <stdio.h>
#include <stdlib.h>
#include <string.h>
#include <math.h>
#include "cpu_support.h"
#include "os_support.h"
#include "arch.h"
#include "mdct.h"
#include "celt.h"
#include "pitch.h"
#include "bands.h"
#include "modes.h"
#include "entcode.h"
#include "quant_bands.h"
#include "rate.h"
#include "stack_alloc.h"
#include "mathops.h"
#include "float_cast.h"
#include "celt_lpc.h"
#include "vq.h"
#include "entenc.h"

/* ------------------------------------------------------------------ recording wrappers
   Every routine of another file that celt_decoder.c calls on its audio buffers, and the OPUS_MOVE / OPUS_COPY / ALLOC
   macros, are routed through recorders (raw pointers and integer arguments; pointers are resolved to
   <array>+<element offset> afterwards).  All headers celt_decoder.c includes are included above, so that only the text
   of celt_decoder.c itself sees the replaced names. */
typedef struct { int kind; const void *p[4]; int v[6]; float g0, g1; long bytes; char a[4][28]; int aud; } rcall;
#define MAXRC 400
static struct { int on; rcall c[MAXRC]; int n; int overflow; } R;
typedef struct { const char *name; const void *p; long bytes; } ralloc;
static struct { ralloc a[64]; int n; } RA;

static void rres(rcall *c);     /* resolve the pointers to <array>+<offset> at the time of the call */
static rcall *rnew(int kind) { rcall *c; if (!R.on) return NULL; if (R.n >= MAXRC) { R.overflow = 1; return NULL; } c = &R.c[R.n++]; memset(c, 0, sizeof *c); c->kind = kind; return c; }
static void verif_alloc(const char *name, const void *p, long bytes)
{
   int i, j;
   if (!R.on) return;
   for (i = j = 0; i < RA.n; i++) {                      /* drop entries the new block overlaps (stack reuse) */
      const char *a = (const char *)RA.a[i].p, *b = a + RA.a[i].bytes, *c = (const char *)p, *d = c + bytes;
      if (!(b <= c || d <= a)) continue;
      RA.a[j++] = RA.a[i];
   }
   RA.n = j;
   if (RA.n == 64) { memmove(RA.a, RA.a + 1, 63 * sizeof(ralloc)); RA.n = 63; }
   RA.a[RA.n].name = name; RA.a[RA.n].p = p; RA.a[RA.n].bytes = bytes; RA.n++;
}
static void verif_move(int kind, const void *dst, const void *src, size_t bytes)
{ rcall *c = rnew(kind); if (c) { c->p[0] = dst; c->p[1] = src; c->bytes = (long)bytes; rres(c); } }
static void verif_comb_filter(opus_val32 *y, opus_val32 *x, int T0, int T1, int N, opus_val16 g0, opus_val16 g1,
      int tapset0, int tapset1, const celt_coef *window, int overlap, int arch);
static void verif_mdct(const mdct_lookup *l, kiss_fft_scalar *in, kiss_fft_scalar *out, const celt_coef *window, int overlap, int shift, int stride, int arch);
static void verif_denorm(const CELTMode *m, const celt_norm *X, celt_sig *freq, const celt_glog *bandE, int start, int end, int M, int downsample, int silence);
static void verif_fir(const opus_val16 *x, const opus_val16 *num, opus_val16 *y, int N, int ord, int arch);
static void verif_iir(const opus_val32 *x, const opus_val16 *den, opus_val32 *y, int N, int ord, opus_val16 *mem, int arch);
static int verif_autocorr(const opus_val16 *x, opus_val32 *ac, const celt_coef *window, int overlap, int lag, int n, int arch);
static void verif_lpc(opus_val16 *lpc, const opus_val32 *ac, int p);
static void verif_pdown(celt_sig *x[], opus_val16 *x_lp, int len, int C, int arch);
static void verif_psearch(const opus_val16 *x_lp, opus_val16 *y, int len, int max_pitch, int *pitch, int arch);

#define comb_filter verif_comb_filter
#define denormalise_bands verif_denorm
#define celt_iir verif_iir
#define _celt_autocorr verif_autocorr
#define _celt_lpc verif_lpc
#define pitch_downsample verif_pdown
#define pitch_search verif_psearch
#undef celt_fir
#define celt_fir(x, num, y, N, ord, arch) verif_fir(x, num, y, N, ord, arch)
#undef clt_mdct_backward
#define clt_mdct_backward(_l, _in, _out, _window, _overlap, _shift, _stride, _arch) verif_mdct(_l, _in, _out, _window, _overlap, _shift, _stride, _arch)
#undef OPUS_MOVE
#define OPUS_MOVE(dst, src, n) (verif_move('M', (dst), (src), (n)*sizeof(*(dst))), memmove((dst), (src), (n)*sizeof(*(dst)) + 0*((dst)-(src)) ))
#undef OPUS_COPY
#define OPUS_COPY(dst, src, n) (verif_move('Y', (dst), (src), (n)*sizeof(*(dst))), memcpy((dst), (src), (n)*sizeof(*(dst)) + 0*((dst)-(src)) ))
#undef ALLOC
#define ALLOC(var, size, type) type var[size]; verif_alloc(#var, var, (long)(size) * (long)sizeof(type))
#include "celt/celt_decoder.c"
#undef comb_filter
#undef denormalise_bands
#undef celt_iir
#undef _celt_autocorr
#undef _celt_lpc
#undef pitch_downsample
#undef pitch_search
#undef celt_fir
#define celt_fir(x, num, y, N, ord, arch) ((void)(arch), celt_fir_c(x, num, y, N, ord, arch))
#undef clt_mdct_backward
#define clt_mdct_backward(_l, _in, _out, _window, _overlap, _shift, _stride, _arch) clt_mdct_backward_c(_l, _in, _out, _window, _overlap, _shift, _stride, _arch)
#undef OPUS_COPY
#define OPUS_COPY(dst, src, n) (memcpy((dst), (src), (n)*sizeof(*(dst)) + 0*((dst)-(src)) ))
#undef ALLOC
#define ALLOC(var, size, type) type var[size]
#include "vcommon.h"

static void verif_comb_filter(opus_val32 *y, opus_val32 *x, int T0, int T1, int N, opus_val16 g0, opus_val16 g1,
      int tapset0, int tapset1, const celt_coef *window, int overlap, int arch)
{
   rcall *c = rnew('C');
   if (c) { c->p[0] = y; c->p[1] = x; c->v[0] = T0; c->v[1] = T1; c->v[2] = N; c->v[3] = overlap; c->v[4] = tapset0; c->v[5] = tapset1; c->g0 = g0; c->g1 = g1; rres(c); }
   comb_filter(y, x, T0, T1, N, g0, g1, tapset0, tapset1, window, overlap, arch);
}
static void verif_mdct(const mdct_lookup *l, kiss_fft_scalar *in, kiss_fft_scalar *out, const celt_coef *window, int overlap, int shift, int stride, int arch)
{
   rcall *c = rnew('D');
   if (c) { c->p[0] = in; c->p[1] = out; c->v[0] = stride; c->v[1] = (l->n >> shift) >> 1; c->v[2] = overlap; rres(c); }
   clt_mdct_backward(l, in, out, window, overlap, shift, stride, arch);
}
static void verif_denorm(const CELTMode *m, const celt_norm *X, celt_sig *freq, const celt_glog *bandE, int start, int end, int M, int downsample, int silence)
{
   rcall *c = rnew('N');
   if (c) { c->p[0] = X; c->p[1] = freq; c->v[0] = M * m->shortMdctSize; rres(c); }
   denormalise_bands(m, X, freq, bandE, start, end, M, downsample, silence);
}
static void verif_fir(const opus_val16 *x, const opus_val16 *num, opus_val16 *y, int N, int ord, int arch)
{
   rcall *c = rnew('F');
   if (c) { c->p[0] = x; c->p[1] = num; c->p[2] = y; c->v[0] = N; c->v[1] = ord; rres(c); }
   celt_fir(x, num, y, N, ord, arch);
}
static void verif_iir(const opus_val32 *x, const opus_val16 *den, opus_val32 *y, int N, int ord, opus_val16 *mem, int arch)
{
   rcall *c = rnew('I');
   if (c) { c->p[0] = x; c->p[1] = den; c->p[2] = y; c->p[3] = mem; c->v[0] = N; c->v[1] = ord; rres(c); }
   celt_iir(x, den, y, N, ord, mem, arch);
}
static int verif_autocorr(const opus_val16 *x, opus_val32 *ac, const celt_coef *window, int overlap, int lag, int n, int arch)
{
   rcall *c = rnew('A');
   if (c) { c->p[0] = x; c->p[1] = ac; c->v[0] = overlap; c->v[1] = lag; c->v[2] = n; rres(c); }
   return _celt_autocorr(x, ac, window, overlap, lag, n, arch);
}
static void verif_lpc(opus_val16 *lpc, const opus_val32 *ac, int p)
{
   rcall *c = rnew('L');
   if (c) { c->p[0] = lpc; c->p[1] = ac; c->v[0] = p; rres(c); }
   _celt_lpc(lpc, ac, p);
}
static void verif_pdown(celt_sig *x[], opus_val16 *x_lp, int len, int C, int arch)
{
   rcall *c = rnew('P');
   if (c) { c->p[0] = x[0]; c->p[1] = C == 2 ? x[1] : NULL; c->p[2] = x_lp; c->v[0] = len; rres(c); }
   pitch_downsample(x, x_lp, len, C, arch);
}
static void verif_psearch(const opus_val16 *x_lp, opus_val16 *y, int len, int max_pitch, int *pitch, int arch)
{
   rcall *c = rnew('S');
   if (c) { c->p[0] = x_lp; c->p[1] = y; c->v[0] = len; c->v[1] = max_pitch; rres(c); }
   pitch_search(x_lp, y, len, max_pitch, pitch, arch);
}

/* pointer -> "<array>+<element offset>" (all element types of these arrays are 4 bytes in this build) */
static const CELTDecoder *g_st; static const float *g_pcm; static long g_pcmcap;
static int g_audio;          /* set when the pointer is one of the audio arrays */
static void rptr(char *o, const void *p)
{
   const char *b = (const char *)g_st, *q = (const char *)p; int i;
   long ML = DECODE_BUFFER_SIZE + g_st->mode->overlap; int ch = g_st->channels;
   const char *m0 = (const char *)g_st->_decode_mem, *lp = m0 + (long)ch * ML * (long)sizeof(celt_sig);
   g_audio = 0;
   if (p == NULL) { strcpy(o, "-"); return; }
   if (q >= m0 && q < lp) { long e = (long)(q - m0) / (long)sizeof(celt_sig); sprintf(o, "mem%ld+%ld", e / ML, e % ML); g_audio = 1; return; }
   if (q >= lp && q < lp + (long)ch * CELT_LPC_ORDER * (long)sizeof(opus_val16)) { sprintf(o, "lpc+%ld", (long)(q - lp) / (long)sizeof(opus_val16)); return; }
   if (q >= b && q < b + celt_decoder_get_size(ch)) { sprintf(o, "state+%ld", (long)(q - b)); return; }
   if (g_pcm && q >= (const char *)g_pcm && q <= (const char *)(g_pcm + g_pcmcap)) { sprintf(o, "pcm+%ld", (long)((const float *)p - g_pcm)); return; }
   for (i = RA.n - 1; i >= 0; i--) {
      const char *a = (const char *)RA.a[i].p;
      if (q >= a && q <= a + RA.a[i].bytes) {
         const char *nm = RA.a[i].name;
         if (!strcmp(nm, "_exc")) nm = "exc"; else if (!strcmp(nm, "fir_tmp")) nm = "fir"; else if (!strcmp(nm, "lp_pitch_buf")) nm = "lpbuf";
         g_audio = !strcmp(nm, "exc") || !strcmp(nm, "fir") || !strcmp(nm, "freq") || !strcmp(nm, "etmp") || !strcmp(nm, "lpbuf") || !strcmp(nm, "scratch");
         sprintf(o, "%s+%ld", nm, (long)(q - a) / 4); return;
      }
   }
   strcpy(o, "loc+0");
}

static void rres(rcall *c)
{
   int k; c->aud = 0;
   for (k = 0; k < 4; k++) { rptr(c->a[k], c->p[k]); if (k < 2) c->aud |= g_audio; }
}

/* ------------------------------------------------------------------ measured extents of the compiled comb_filter */
typedef struct { int T0, T1, n, ovl, g0z, g1z, gsame, inplace; } cargs;
#define PX0 1200
#define PLEN (PX0 + 1100)
static float PB[PLEN], PW[PLEN], PY[PLEN], PWIN[480];
static const unsigned SENT = 0x7fc12345u;
static int g_arch;

static unsigned fbits(float f) { unsigned u; memcpy(&u, &f, 4); return u; }
static void probe_call(const cargs *a, float *x, float *y)
{
   float g0 = a->g0z ? 0.f : 0.5f, g1 = a->g1z ? 0.f : (a->gsame ? g0 : 0.3f);
   int ts0 = 2, ts1 = a->gsame ? 2 : 0;
   comb_filter(y, x, a->T0, a->T1, a->n, g0, g1, ts0, ts1, PWIN, a->ovl, g_arch);
}
/* NaN below the cut q (positions p < q relative to x): does any output become NaN? */
static int probe_below(const cargs *a, int q)
{
   int i; float *x, *y;
   memcpy(PW, PB, sizeof PB);
   for (i = 0; i < PX0 + q && i < PLEN; i++) PW[i] = NAN;
   x = PW + PX0;
   if (a->inplace) y = x; else { for (i = 0; i < PLEN; i++) memcpy(&PY[i], &SENT, 4); y = PY + PX0; }
   probe_call(a, x, y);
   for (i = 0; i < a->n; i++) if (y[i] != y[i] && fbits(y[i]) != SENT && (!a->inplace || i >= q)) return 1;
   return 0;
}
static int probe_above(const cargs *a, int q)
{
   int i; float *x, *y;
   memcpy(PW, PB, sizeof PB);
   for (i = PX0 + q + 1; i < PLEN; i++) if (i >= 0) PW[i] = NAN;
   x = PW + PX0;
   for (i = 0; i < PLEN; i++) memcpy(&PY[i], &SENT, 4);
   y = PY + PX0;
   probe_call(a, x, y);
   for (i = 0; i < a->n; i++) if (y[i] != y[i] && fbits(y[i]) != SENT) return 1;
   return 0;
}
static void measure(const cargs *a, char *out)
{
   int i, wlo = 1, whi = 0, rlo = 1, rhi = 0, lo, hi;
   char rd[48], wr[48];
   /* writes */
   if (a->inplace) {
      memcpy(PW, PB, sizeof PB);
      probe_call(a, PW + PX0, PW + PX0);
      for (i = 0; i < PLEN; i++) if (fbits(PW[i]) != fbits(PB[i])) { if (whi < wlo) wlo = whi = i - PX0; else whi = i - PX0; }
   } else {
      memcpy(PW, PB, sizeof PB);
      for (i = 0; i < PLEN; i++) memcpy(&PY[i], &SENT, 4);
      probe_call(a, PW + PX0, PY + PX0);
      for (i = 0; i < PLEN; i++) if (fbits(PY[i]) != SENT) { if (whi < wlo) wlo = whi = i - PX0; else whi = i - PX0; }
      if (memcmp(PW, PB, sizeof PB)) { strcpy(out, "x-modified"); return; }
   }
   /* reads: lowest index */
   if (a->inplace) {
      if (probe_below(a, 0)) {
         lo = -PX0; hi = 0;                               /* probe_below(lo) false (nothing planted), (hi) true */
         while (hi - lo > 1) { int mid = lo + (hi - lo) / 2; if (probe_below(a, mid)) hi = mid; else lo = mid; }
         rlo = hi - 1; rhi = whi;                         /* in place x[i] is read where y[i] is written; all other reads lie below i */
         if (whi < wlo) rhi = rlo;
      }
   } else {
      int top = a->n + 40;
      if (probe_below(a, top)) {
         lo = -PX0; hi = top;
         while (hi - lo > 1) { int mid = lo + (hi - lo) / 2; if (probe_below(a, mid)) hi = mid; else lo = mid; }
         rlo = hi - 1;
         lo = -PX0 - 1; hi = top;                         /* probe_above(lo) true (everything NaN), (hi) false */
         while (hi - lo > 1) { int mid = lo + (hi - lo) / 2; if (probe_above(a, mid)) lo = mid; else hi = mid; }
         rhi = hi;
      }
   }
   if (rhi < rlo) strcpy(rd, "-"); else sprintf(rd, "%d..%d", rlo, rhi);
   if (whi < wlo) strcpy(wr, "-"); else sprintf(wr, "%d..%d", wlo, whi);
   sprintf(out, "rd=%s wr=%s", rd, wr);
}

static long g_cases, g_w;
static int g_quiet;
static void emit_combext(const cargs *a)
{
   char out[128];
   if (g_quiet) return;
   if (a->gsame && a->g0z != a->g1z) return;                           /* g0 == g1 contradicts exactly one being zero */
   if (a->T0 > 1040 || a->T1 > 1040 || a->T0 < 0 || a->T1 < 0 || a->n < 0 || a->n > 1000 || a->ovl < 0 || a->ovl > 480) return;
   printf("I decskel combext %d %d %d %d %d %d %d %d\n", a->T0, a->T1, a->n, a->ovl, a->g0z, a->g1z, a->gsame, a->inplace);
   fflush(stdout);
   measure(a, out);
   printf("O %s\n", out);
   g_cases++;
}

/* ------------------------------------------------------------------ crafted CELT frames */
static int craft(vrng *r, unsigned char *buf, int len, int pf_on, int octave, int fine, int qg, int tapset)
{
   ec_enc enc; int budget = len * 8;
   ec_enc_init(&enc, buf, (opus_uint32)len);
   ec_enc_bit_logp(&enc, 0, 15);                          /* not silence */
   ec_enc_bit_logp(&enc, pf_on, 1);
   if (pf_on) {
      ec_enc_uint(&enc, (opus_uint32)octave, 6);
      ec_enc_bits(&enc, (opus_uint32)fine, (unsigned)(4 + octave));
      ec_enc_bits(&enc, (opus_uint32)qg, 3);
      ec_enc_icdf(&enc, tapset, tapset_icdf, 2);
   }
   while (ec_tell(&enc) + 48 < budget) {
      if (vchance(r, 70)) ec_enc_bit_logp(&enc, (int)vbelow(r, 2), 1 + vbelow(r, 3));
      else ec_enc_bits(&enc, vbelow(r, 256), 8);
   }
   ec_enc_done(&enc);
   return enc.error ? -1 : len;
}

static void witness(const char *kind, const char *what, const char *replay)
{
   g_w++;
   if (g_w <= 40) printf("W %s | %s | %s\n", kind, what, replay);
}

/* the recorded calls as text (post-filter calls and copies between non-audio arrays left out) */
static void fmt_calls(char *out, size_t cap, int *B)
{
   int i, first = 1; char t[256];
   out[0] = 0; *B = 1;
   for (i = 0; i < R.n; i++) {
      rcall *c = &R.c[i]; int aud = c->aud; char (*a)[28] = c->a;
      t[0] = 0;
      switch (c->kind) {
      case 'C': if (c->p[0] != c->p[1]) sprintf(t, "comb(%s,%s,%d,%d,%d,%d)", a[0], a[1], c->v[0], c->v[1], c->v[2], c->v[3]); break;
      case 'M': case 'Y': if (aud) sprintf(t, "copy(%s,%s,%ld)", a[0], a[1], c->bytes / 4); break;
      case 'D': sprintf(t, "mdct(%s,%d,%s,%d,%d)", a[0], c->v[0], a[1], c->v[1], c->v[2]); if (first || *B < c->v[0]) *B = c->v[0]; break;
      case 'N': sprintf(t, "denorm(%s,%s,%d)", a[0], a[1], c->v[0]); break;
      case 'F': sprintf(t, "fir(%s,%s,%s,%d,%d)", a[0], a[1], a[2], c->v[0], c->v[1]); break;
      case 'I': sprintf(t, "iir(%s,%s,%s,%d,%d,%s)", a[0], a[1], a[2], c->v[0], c->v[1], a[3]); break;
      case 'A': sprintf(t, "acorr(%s,%s,%d,%d,%d)", a[0], a[1], c->v[0], c->v[1], c->v[2]); break;
      case 'L': sprintf(t, "lpc(%s,%s,%d)", a[0], a[1], c->v[0]); break;
      case 'P': sprintf(t, "pdown(%s,%s,%s,%d)", a[0], a[1], a[2], c->v[0]); break;
      case 'S': sprintf(t, "psearch(%s,%s,%d,%d)", a[0], a[1], c->v[0], c->v[1]); break;
      }
      if (!t[0]) continue;
      if (strlen(out) + strlen(t) + 2 >= cap) { R.overflow = 1; return; }
      if (!first) strcat(out, ";");
      strcat(out, t); first = 0;
   }
}

/* one frame (decoded, or lost when pkt == NULL): record, print the `pfcalls` and `celtcalls` pairs, evaluate the predicates */
static void decode_frame(CELTDecoder *st, int ch, const unsigned char *pkt, int len, int N, int LM, float *pcm_unused)
{
   const celt_sig *base = st->_decode_mem; long ML = DECODE_BUFFER_SIZE + st->mode->overlap;
   int pOld = st->postfilter_period_old, pCur = st->postfilter_period, pNew, ret, i, first;
   int ld0 = st->loss_duration, fold0 = st->prefilter_and_fold != 0, lost = pkt == NULL || len <= 1, B = 1;
   long npcm = (long)(N / st->downsample) * ch, wr = 0; float *pcm = (float *)malloc(sizeof(float) * (size_t)npcm);
   char line[160], pf[1024], mv[256], tmp[160]; static char calls[16384]; long k;
   (void)pcm_unused;
   for (k = 0; k < npcm; k++) memcpy(&pcm[k], &SENT, 4);
   sprintf(line, "decskel pfcalls %d %d %d %d %d", N, LM, ch, pOld, pCur);
   g_st = st; g_pcm = pcm; g_pcmcap = npcm;
   R.on = 1; R.n = 0; R.overflow = 0; RA.n = 0;
   ret = celt_decode_with_ec(st, pkt, len, pcm, N / st->downsample, NULL, 0);
   R.on = 0;
   if (ret < 0) { free(pcm); return; }
   for (k = 0; k < npcm && fbits(pcm[k]) != SENT; k++) wr++;
   for (; k < npcm; k++) if (fbits(pcm[k]) != SENT) wr = -1 - k;                 /* a gap in the written samples */
   /* ---- every call on the audio buffers, and what deemphasis wrote */
   fmt_calls(calls, sizeof calls, &B);
   if (!R.overflow) {
      const char *kind = !lost ? "good" : st->prefilter_and_fold ? "pitch" : "noise"; long scratch = -1;
      for (i = 0; i < RA.n; i++) if (!strcmp(RA.a[i].name, "scratch")) scratch = RA.a[i].bytes / 4;
      sprintf(tmp, "decskel celtcalls %s %d %d %d %d %d %d %d %d %d %d %d", kind, N, LM, lost ? ch : st->stream_channels, ch, st->downsample, B,
              st->last_pitch_index, ld0 == 0, fold0, pOld, pCur);
      if (!g_quiet) {
         printf("I %s\n", tmp);
         if (scratch >= 0) printf("O %s pcm=%ld scratch=%ld\n", calls[0] ? calls : "-", wr, scratch);
         else printf("O %s pcm=%ld scratch=-\n", calls[0] ? calls : "-", wr);
      }
      g_cases++;
      if (wr != npcm) witness("deemph", "deemphasis did not write exactly frame_size*channels samples", tmp);
   }
   free(pcm);
   if (lost) return;
   pNew = st->postfilter_period;
   sprintf(line + strlen(line), " %d", pNew);
   pf[0] = mv[0] = 0;
   for (first = 1, i = 0; i < R.n; i++) {
      rcall *c = &R.c[i];
      if (c->kind == 'C' && c->p[0] == c->p[1]) {
         long off = (const celt_sig *)c->p[1] - base; int cc = (int)(off / ML); long xoff = off % ML;
         int T0 = c->v[0], T1 = c->v[1], n = c->v[2], ovl = c->v[3];
         long T = IMAX(IMAX(T0, COMBFILTER_MINPERIOD), IMAX(T1, COMBFILTER_MINPERIOD));
         if (off < 0 || cc >= ch) { witness("pfrange", "post-filter runs on memory outside _decode_mem", line); continue; }
         sprintf(tmp, "%s%d:%ld,%d,%d,%d,%d", first ? "" : ";", cc, xoff, T0, T1, n, ovl); first = 0;
         if (strlen(pf) + strlen(tmp) < sizeof pf - 1) strcat(pf, tmp);
         /* predicate on the implementation: the history the filter reaches back into and the samples it writes belong
            to the same channel's buffer */
         if (xoff - T - 2 < 0 || xoff + n > ML) {
            sprintf(tmp, "comb_filter at decode_mem[%d]+%ld with T0=%d T1=%d n=%d leaves the channel buffer of %ld", cc, xoff, T0, T1, n, ML);
            witness("pfrange", tmp, line);
         }
         if (!(c->g0 == 0 && c->g1 == 0) && (T0 >= MAX_PERIOD || T1 >= MAX_PERIOD)) witness("pfperiod", "post-filter period >= MAX_PERIOD", line);
         { cargs a; a.T0 = T0; a.T1 = T1; a.n = n; a.ovl = ovl; a.g0z = c->g0 == 0; a.g1z = c->g1 == 0;
           a.gsame = c->g0 == c->g1 && c->v[4] == c->v[5]; a.inplace = 1;
           if ((g_cases & 15) == 0) emit_combext(&a); }
      }
   }
   for (first = 1, i = 0; i < R.n; i++) {
      rcall *c = &R.c[i];
      if (c->kind == 'M') {
         long so = (const celt_sig *)c->p[1] - base, dof = (const celt_sig *)c->p[0] - base, n = c->bytes / (long)sizeof(celt_sig);
         int cc = (int)(dof / ML);
         if (dof < 0 || cc >= ch || (const char *)c->p[0] >= (const char *)(base + ch * ML)) continue;     /* not on _decode_mem (plc_pcm …) */
         sprintf(tmp, "%s%d:%ld,%ld,%ld", first ? "" : ";", cc, so - cc * ML, dof - cc * ML, n); first = 0;
         if (strlen(mv) + strlen(tmp) < sizeof mv - 1) strcat(mv, tmp);
         if (so - cc * ML < 0 || so - cc * ML + n > ML || dof - cc * ML + n > ML) witness("mvrange", "decode_mem shift leaves the channel buffer", line);
      }
   }
   if (R.overflow) return;
   if (!g_quiet) {
      printf("I %s\n", line);
      printf("O pf=%s mv=%s next=%d,%d\n", pf, mv, st->postfilter_period_old, st->postfilter_period);
   }
   g_cases++;
   k = st->postfilter_period;
   if (!(k == 0 || (k >= COMBFILTER_MINPERIOD && k < MAX_PERIOD))) witness("pfperiod", "postfilter_period outside {0} u [15, 1024) after a decoded frame", line);
}

/* ------------------------------------------------------------------ callee contracts under the sanitizer
   The model's extent contract of each routine celt_decoder.c calls (Call.accs) is what the routine may touch.  Here the
   COMPILED routine is run on heap blocks that contain exactly the contract's elements and nothing else (the sanitizer
   build reports any access outside them); the contract itself is printed and compared with the model's. */
typedef struct { int lo, hi; } cext;
static float *cblock(cext e, vrng *r, float **base)
{
   long n = e.hi - e.lo + 1, i; float *b = (float *)malloc(sizeof(float) * (size_t)(n > 0 ? n : 1));
   for (i = 0; i < n; i++) b[i] = (float)((int)vbelow(r, 2001) - 1000) / 1000.f;
   *base = b; return b - e.lo;
}
static cext cx(int lo, int hi) { cext e; e.lo = lo; e.hi = hi; return e; }
static void emit_contracts(vrng *r)
{
   const CELTMode *m = opus_custom_mode_create(48000, 960, NULL); float *b0, *b1, *b2, *b3; int i, k;
   if (g_quiet) return;
   {  static const int NF[][2] = {{380, 24}, {1024, 24}, {200, 24}, {4, 24}, {203, 24}, {7, 24}, {1022, 24}, {0, 24}, {3, 24}, {2, 24}, {1, 24}, {5, 3}};
      for (i = 0; i < 12; i++) {
         int n = NF[i][0], ord = NF[i][1]; float *x = cblock(cx(-ord, n - 1), r, &b0), *num = cblock(cx(0, ord - 1), r, &b1), *y = cblock(cx(0, n - 1), r, &b2);
         printf("I decskel contract fir %d %d\n", n, ord); fflush(stdout);
         celt_fir(x, num, y, n, ord, g_arch);
         printf("O %d..%dr,%d..%dr,%d..%dw\n", -ord, n - 1, 0, ord - 1, 0, n - 1); g_cases++;
         free(b0); free(b1); free(b2);
      } }
   {  static const int NI[] = {240, 360, 600, 1080, 242, 27};
      for (i = 0; i < 6; i++) {
         int n = NI[i], ord = 24; float *x = cblock(cx(0, n - 1), r, &b0), *den = cblock(cx(0, ord - 1), r, &b1), *mem = cblock(cx(0, ord - 1), r, &b2);
         for (k = 0; k < ord; k++) den[k] *= 0.02f;
         printf("I decskel contract iir %d %d\n", n, ord); fflush(stdout);
         celt_iir(x, den, x, n, ord, mem, g_arch);                    /* in place, as the decoder calls it */
         printf("O %d..%dr,%d..%dr,%d..%dw,%d..%dr,%d..%dw\n", 0, n - 1, 0, ord - 1, 0, n - 1, 0, ord - 1, 0, ord - 1); g_cases++;
         free(b0); free(b1); free(b2);
      } }
   {  int n = MAX_PERIOD, lag = CELT_LPC_ORDER, ovl = m->overlap; float *x = cblock(cx(0, n - 1), r, &b0), *ac = cblock(cx(0, lag), r, &b1), *lp = cblock(cx(0, lag - 1), r, &b2);
      printf("I decskel contract acorr %d %d %d\n", ovl, lag, n); fflush(stdout);
      _celt_autocorr(x, ac, m->window, ovl, lag, n, g_arch);
      printf("O %d..%dr,%d..%dw\n", 0, n - 1, 0, lag); g_cases++;
      printf("I decskel contract lpc %d\n", lag); fflush(stdout);
      _celt_lpc(lp, ac, lag);
      printf("O %d..%dw,%d..%dr\n", 0, lag - 1, 0, lag); g_cases++;
      free(b0); free(b1); free(b2); }
   for (k = 1; k <= 2; k++) {
      int len = DECODE_BUFFER_SIZE; float *x0 = cblock(cx(0, len - 1), r, &b0), *x1 = cblock(cx(0, len - 1), r, &b1), *xlp = cblock(cx(0, len / 2 - 1), r, &b2);
      celt_sig *xx[2]; xx[0] = x0; xx[1] = k == 2 ? x1 : NULL;
      printf("I decskel contract pdown %d %d\n", len, k); fflush(stdout);
      pitch_downsample(xx, xlp, len, k, g_arch);
      if (k == 2) printf("O %d..%dr,%d..%dw,%d..%dr,%d..%dr\n", 0, len - 1, 0, len / 2 - 1, 0, len / 2 - 1, 0, len - 1);
      else printf("O %d..%dr,%d..%dw,%d..%dr\n", 0, len - 1, 0, len / 2 - 1, 0, len / 2 - 1);
      g_cases++;
      free(b0); free(b1); free(b2);
   }
   {  int len = DECODE_BUFFER_SIZE - PLC_PITCH_LAG_MAX, maxp = PLC_PITCH_LAG_MAX - PLC_PITCH_LAG_MIN, pitch = 0;
      float *xlp = cblock(cx(0, len / 2 - 1), r, &b0), *y = cblock(cx(0, len / 2 + maxp / 2 - 1), r, &b1);
      printf("I decskel contract psearch %d %d\n", len, maxp); fflush(stdout);
      pitch_search(xlp, y, len, maxp, &pitch, g_arch);
      printf("O %d..%dr,%d..%dr\n", 0, len / 2 - 1, 0, len / 2 + maxp / 2 - 1); g_cases++;
      if (pitch < 0 || pitch >= maxp) witness("pitchrange", "pitch_search returned a lag outside [0, max_pitch)", "decskel contract psearch");
      free(b0); free(b1); }
   {  static const int SH[][2] = {{0, 1}, {1, 1}, {2, 1}, {3, 1}, {3, 2}, {3, 4}, {3, 8}};
      for (i = 0; i < 7; i++) {
         int shift = SH[i][0], stride = SH[i][1], n2 = (m->mdct.n >> shift) >> 1, ov = m->overlap, top = ov / 2 + n2 - 1 > ov - 1 ? ov / 2 + n2 - 1 : ov - 1;
         float *in = cblock(cx(0, stride * (n2 - 1)), r, &b0), *out = cblock(cx(0, top), r, &b1);
         printf("I decskel contract mdct %d %d %d\n", stride, n2, ov); fflush(stdout);
         clt_mdct_backward(&m->mdct, in, out, m->window, ov, shift, stride, g_arch);
         printf("O %d..%dr,%d..%dw,%d..%dr,%d..%dw\n", 0, stride * (n2 - 1), ov / 2, ov / 2 + n2 - 1, 0, ov - 1, 0, ov - 1); g_cases++;
         free(b0); free(b1);
      } }
   (void)b3;
}

static void emit_size(int ch)
{
   CELTDecoder *st = (CELTDecoder *)malloc((size_t)celt_decoder_get_size(ch));
   const CELTMode *m; const char *b = (const char *)st; char mem[64];
   celt_sig *dm0, *dm1; opus_val16 *lpc; celt_glog *oldE, *logE, *logE2, *bg;
   if (!st || celt_decoder_init(st, 48000, ch) != OPUS_OK) exit(2);
   m = st->mode;
   /* the pointer computations of celt_decode_with_ec_dred :1024-1028 / :1065, repeated on the real struct */
   dm0 = st->_decode_mem; dm1 = st->_decode_mem + (DECODE_BUFFER_SIZE + m->overlap);
   lpc = (opus_val16 *)(st->_decode_mem + (DECODE_BUFFER_SIZE + m->overlap) * ch);
   oldE = (celt_glog *)(lpc + ch * CELT_LPC_ORDER); logE = oldE + 2 * m->nbEBands; logE2 = logE + 2 * m->nbEBands; bg = logE2 + 2 * m->nbEBands;
   if (ch == 1) sprintf(mem, "%ld", (long)((const char *)dm0 - b)); else sprintf(mem, "%ld,%ld", (long)((const char *)dm0 - b), (long)((const char *)dm1 - b));
   if (!g_quiet) {
      printf("I decskel celtsize %d\n", ch);
      printf("O size=%d mem=%s lpc=%ld oldE=%ld logE=%ld logE2=%ld bg=%ld end=%ld\n", celt_decoder_get_size(ch), mem,
             (long)((const char *)lpc - b), (long)((const char *)oldE - b), (long)((const char *)logE - b),
             (long)((const char *)logE2 - b), (long)((const char *)bg - b), (long)((const char *)(bg + 2 * m->nbEBands) - b));
   }
   g_cases++;
   if ((const char *)(bg + 2 * m->nbEBands) - b > celt_decoder_get_size(ch)) witness("layout", "backgroundLogE ends behind celt_decoder_get_size", "decskel celtsize");
   free(st);
}

int main(int argc, char **argv)
{
   vrng r; long n, i; static float pcm[2 * 960]; static unsigned char pkt[1300];
   static const int RATES[5] = {8000, 12000, 16000, 24000, 48000};
   static const int TS[] = {0, 1, 14, 15, 16, 17, 300, 1021, 1022, 1023};
   vinstall_traps();
   if (argc < 4 || strcmp(argv[1], "run")) { fprintf(stderr, "usage: c01_celtidx run <seed> <n> [quiet]\n"); return 64; }
   r.s = strtoull(argv[2], 0, 10) * 0xA24BAED4963EE407ULL + 0x9FB21C651E98DF25ULL; r.s ^= vnext(&r) >> 9;
   n = atol(argv[3]); g_quiet = argc >= 5 && !strcmp(argv[4], "quiet");
   g_arch = opus_select_arch();
   for (i = 0; i < PLEN; i++) PB[i] = (float)(vrange(&r, 1, 2000) * (vchance(&r, 50) ? 1 : -1)) + 0.37f;
   for (i = 0; i < 480; i++) PWIN[i] = 0.6f;
   emit_size(1); emit_size(2);
   emit_contracts(&r);
   /* systematic sweep of the measured comb_filter extents */
   if (!g_quiet) {
      int a0, a1, ni, fl, ip; static const int NS[] = {120, 360, 840, 240, 120}, OV[] = {120, 120, 120, 120, 0};
      for (a0 = 0; a0 < 10; a0++) for (a1 = 0; a1 < 10; a1++)
         for (ni = 0; ni < 5; ni++) for (fl = 0; fl < 8; fl++) for (ip = 0; ip < 2; ip++) {
            cargs a; a.T0 = TS[a0]; a.T1 = TS[a1]; a.n = NS[ni]; a.ovl = OV[ni]; a.g0z = fl & 1; a.g1z = (fl >> 1) & 1; a.gsame = (fl >> 2) & 1; a.inplace = ip;
            if (ni >= 3 && ((a0 + a1 + (int)(r.s & 7)) % 3)) continue;
            /* overlap 0 is passed only with g0 == g1 and equal tapsets (:528, prefilter_and_fold); with g0 != 0 == g1 the four
               history loads of celt.c:221-224 are dead and cannot be measured */
            if (a.ovl == 0 && !a.gsame) continue;
            emit_combext(&a);
         }
   }
   for (i = 0; i < n; i++) {
      int Fs = RATES[vbelow(&r, 5)], ch = 1 + vbelow(&r, 2), steps = 12 + vbelow(&r, 40), s;
      CELTDecoder *st = (CELTDecoder *)malloc((size_t)celt_decoder_get_size(ch));
      if (!st || celt_decoder_init(st, Fs, ch) != OPUS_OK) return 2;
      if (vchance(&r, 40)) celt_decoder_ctl(st, CELT_SET_CHANNELS(3 - ch));     /* stream channels != decoder channels, both ways */
      for (s = 0; s < steps; s++) {
         int LM = vbelow(&r, 4), N = 120 << LM, op = vbelow(&r, 100), len;
         if (op < 16) { int reps = vchance(&r, 30) ? 1 + (int)vbelow(&r, 14) : 1, q; for (q = 0; q < reps; q++) decode_frame(st, ch, NULL, 0, N, LM, pcm); continue; }   /* lost frames (bursts reach the noise PLC) */
         if (op < 18) { celt_decoder_ctl(st, OPUS_RESET_STATE); continue; }
         if (op < 21) { int sb = vchance(&r, 50) ? 17 : 0; celt_decoder_ctl(st, CELT_SET_START_BAND(sb)); }
         if (op < 24) celt_decoder_ctl(st, CELT_SET_CHANNELS(1 + (int)vbelow(&r, 2)));
         if (op < 30) { unsigned char sil[2] = {0xFF, 0xFF}; decode_frame(st, ch, sil, 2, N, LM, pcm); continue; }
         len = vchance(&r, 20) ? 2 + (int)vbelow(&r, 12) : 16 + (int)vbelow(&r, 180);
         if (op < 40) { int j; for (j = 0; j < len; j++) pkt[j] = (unsigned char)vbelow(&r, 256); }
         else {
            int on = !vchance(&r, 15), octave = vbelow(&r, 6), fine, qg = vbelow(&r, 8), ts = vbelow(&r, 3), e = vbelow(&r, 10);
            int span = 16 << octave;
            if (e < 3) { octave = 0; fine = 0; }                    /* period 15 */
            else if (e < 6) { octave = 5; fine = span = 512; fine = 511; }   /* period 1022 */
            else if (e < 8) fine = vchance(&r, 50) ? 0 : span - 1;  /* octave boundaries */
            else fine = (int)vbelow(&r, (uint32_t)span);
            if (len < 16) len = 16;
            if (craft(&r, pkt, len, on, octave, fine, qg, ts) < 0) continue;
         }
         decode_frame(st, ch, pkt, len, N, LM, pcm);
      }
      free(st);
   }
   printf("# celtidx seed=%s decoders=%ld cases=%ld witnesses=%ld\n", argv[2], n, g_cases, g_w);
   return 0;
}
