/* c01_celtidx.c — C01, index-safety bridge for the CELT decoder interior (model: lean/OpusModel/CeltIdx.lean).
   The TU #includes celt/celt_decoder.c with `comb_filter` and `OPUS_MOVE` routed through recording wrappers, and drives
   CELT decoders directly (all five rates x mono/stereo x 2.5/5/10/20 ms) with crafted frames whose post-filter header is
   chosen (period extremes 15 / 1022, octave boundaries, old != new, gain 0 / non-0, all tapsets), random frames,
   silence frames and lost frames in between.
     celtsize: where the arrays behind the struct really are (pointer differences) and celt_decoder_get_size
     pfcalls : the post-filter comb_filter calls and the decode_mem shift of one decoded frame as the decoder made them
               (offsets relative to decode_mem[c]), and the post-filter periods it left behind
     combext : which elements the COMPILED comb_filter reads and writes, measured on the function itself: reads by NaN
               propagation (a NaN planted below / above a cut shows up in the output iff something beyond the cut is
               read; the cut is bisected), writes by difference (in place) or by a sentinel pattern (y != x); synthetic
               data, a constant window and gains 0 / 0.5 / 0.3 (indices do not depend on the values)
     run <seed> <n> [quiet]    (quiet: only the predicates on the implementation, `W` lines)   */
#ifdef HAVE_CONFIG_H
#include "config.h"
#endif
#define CELT_DECODER_C
#include <stdio.h>
#include <stdlib.h>
#include <string.h>
#include <math.h>
#include "cpu_support.h"
#include "os_support.h"
#include "arch.h"
#include "celt.h"
#include "entenc.h"

/* ------------------------------------------------------------------ recording wrappers */
typedef struct { int kind; const void *x, *y; int T0, T1, n, ovl; float g0, g1; int ts0, ts1; long bytes; } rcall;
#define MAXRC 64
static struct { int on; rcall c[MAXRC]; int n; int overflow; } R;

static void verif_comb_filter(opus_val32 *y, opus_val32 *x, int T0, int T1, int N, opus_val16 g0, opus_val16 g1,
      int tapset0, int tapset1, const celt_coef *window, int overlap, int arch);
static void verif_move(const void *dst, const void *src, size_t bytes)
{
   if (!R.on) return;
   if (R.n >= MAXRC) { R.overflow = 1; return; }
   R.c[R.n].kind = 'M'; R.c[R.n].x = src; R.c[R.n].y = dst; R.c[R.n].bytes = (long)bytes; R.n++;
}
#define comb_filter verif_comb_filter
#undef OPUS_MOVE
#define OPUS_MOVE(dst, src, n) (verif_move((dst), (src), (n)*sizeof(*(dst))), memmove((dst), (src), (n)*sizeof(*(dst)) + 0*((dst)-(src)) ))
#include "celt/celt_decoder.c"
#undef comb_filter
#include "vcommon.h"

static void verif_comb_filter(opus_val32 *y, opus_val32 *x, int T0, int T1, int N, opus_val16 g0, opus_val16 g1,
      int tapset0, int tapset1, const celt_coef *window, int overlap, int arch)
{
   if (R.on) {
      if (R.n >= MAXRC) R.overflow = 1;
      else {
         rcall *c = &R.c[R.n++];
         c->kind = 'C'; c->x = x; c->y = y; c->T0 = T0; c->T1 = T1; c->n = N; c->ovl = overlap; c->g0 = g0; c->g1 = g1;
         c->ts0 = tapset0; c->ts1 = tapset1;
      }
   }
   comb_filter(y, x, T0, T1, N, g0, g1, tapset0, tapset1, window, overlap, arch);
}

/* ------------------------------------------------------------------ measured extents of the compiled comb_filter */
typedef struct { int T0, T1, n, ovl, g0z, g1z, gsame, inplace; } cargs;
#define PX0 1200
#define PLEN (PX0 + 1100)
static float PB[PLEN], PW[PLEN], PY[PLEN], PWIN[480];
static const unsigned SENT = 0x7fc12345u;
static int g_arch;

static unsigned fbits(float f) { unsigned u; memcpy(&u, &f, 4); return u; }
static void probe_call(const cargs *a, float *x, float *y)
{
   float g0 = a->g0z ? 0.f : 0.5f, g1 = a->g1z ? 0.f : (a->gsame ? g0 : 0.3f);
   int ts0 = 2, ts1 = a->gsame ? 2 : 0;
   comb_filter(y, x, a->T0, a->T1, a->n, g0, g1, ts0, ts1, PWIN, a->ovl, g_arch);
}
/* NaN below the cut q (positions p < q relative to x): does any output become NaN? */
static int probe_below(const cargs *a, int q)
{
   int i; float *x, *y;
   memcpy(PW, PB, sizeof PB);
   for (i = 0; i < PX0 + q && i < PLEN; i++) PW[i] = NAN;
   x = PW + PX0;
   if (a->inplace) y = x; else { for (i = 0; i < PLEN; i++) memcpy(&PY[i], &SENT, 4); y = PY + PX0; }
   probe_call(a, x, y);
   for (i = 0; i < a->n; i++) if (y[i] != y[i] && fbits(y[i]) != SENT && (!a->inplace || i >= q)) return 1;
   return 0;
}
static int probe_above(const cargs *a, int q)
{
   int i; float *x, *y;
   memcpy(PW, PB, sizeof PB);
   for (i = PX0 + q + 1; i < PLEN; i++) if (i >= 0) PW[i] = NAN;
   x = PW + PX0;
   for (i = 0; i < PLEN; i++) memcpy(&PY[i], &SENT, 4);
   y = PY + PX0;
   probe_call(a, x, y);
   for (i = 0; i < a->n; i++) if (y[i] != y[i] && fbits(y[i]) != SENT) return 1;
   return 0;
}
static void measure(const cargs *a, char *out)
{
   int i, wlo = 1, whi = 0, rlo = 1, rhi = 0, lo, hi;
   char rd[48], wr[48];
   /* writes */
   if (a->inplace) {
      memcpy(PW, PB, sizeof PB);
      probe_call(a, PW + PX0, PW + PX0);
      for (i = 0; i < PLEN; i++) if (fbits(PW[i]) != fbits(PB[i])) { if (whi < wlo) wlo = whi = i - PX0; else whi = i - PX0; }
   } else {
      memcpy(PW, PB, sizeof PB);
      for (i = 0; i < PLEN; i++) memcpy(&PY[i], &SENT, 4);
      probe_call(a, PW + PX0, PY + PX0);
      for (i = 0; i < PLEN; i++) if (fbits(PY[i]) != SENT) { if (whi < wlo) wlo = whi = i - PX0; else whi = i - PX0; }
      if (memcmp(PW, PB, sizeof PB)) { strcpy(out, "x-modified"); return; }
   }
   /* reads: lowest index */
   if (a->inplace) {
      if (probe_below(a, 0)) {
         lo = -PX0; hi = 0;                               /* probe_below(lo) false (nothing planted), (hi) true */
         while (hi - lo > 1) { int mid = lo + (hi - lo) / 2; if (probe_below(a, mid)) hi = mid; else lo = mid; }
         rlo = hi - 1; rhi = whi;                         /* in place x[i] is read where y[i] is written; all other reads lie below i */
         if (whi < wlo) rhi = rlo;
      }
   } else {
      int top = a->n + 40;
      if (probe_below(a, top)) {
         lo = -PX0; hi = top;
         while (hi - lo > 1) { int mid = lo + (hi - lo) / 2; if (probe_below(a, mid)) hi = mid; else lo = mid; }
         rlo = hi - 1;
         lo = -PX0 - 1; hi = top;                         /* probe_above(lo) true (everything NaN), (hi) false */
         while (hi - lo > 1) { int mid = lo + (hi - lo) / 2; if (probe_above(a, mid)) lo = mid; else hi = mid; }
         rhi = hi;
      }
   }
   if (rhi < rlo) strcpy(rd, "-"); else sprintf(rd, "%d..%d", rlo, rhi);
   if (whi < wlo) strcpy(wr, "-"); else sprintf(wr, "%d..%d", wlo, whi);
   sprintf(out, "rd=%s wr=%s", rd, wr);
}

static long g_cases, g_w;
static int g_quiet;
static void emit_combext(const cargs *a)
{
   char out[128];
   if (g_quiet) return;
   if (a->gsame && a->g0z != a->g1z) return;                           /* g0 == g1 contradicts exactly one being zero */
   if (a->T0 > 1040 || a->T1 > 1040 || a->T0 < 0 || a->T1 < 0 || a->n < 0 || a->n > 1000 || a->ovl < 0 || a->ovl > 480) return;
   printf("I decskel combext %d %d %d %d %d %d %d %d\n", a->T0, a->T1, a->n, a->ovl, a->g0z, a->g1z, a->gsame, a->inplace);
   fflush(stdout);
   measure(a, out);
   printf("O %s\n", out);
   g_cases++;
}

/* ------------------------------------------------------------------ crafted CELT frames */
static int craft(vrng *r, unsigned char *buf, int len, int pf_on, int octave, int fine, int qg, int tapset)
{
   ec_enc enc; int budget = len * 8;
   ec_enc_init(&enc, buf, (opus_uint32)len);
   ec_enc_bit_logp(&enc, 0, 15);                          /* not silence */
   ec_enc_bit_logp(&enc, pf_on, 1);
   if (pf_on) {
      ec_enc_uint(&enc, (opus_uint32)octave, 6);
      ec_enc_bits(&enc, (opus_uint32)fine, (unsigned)(4 + octave));
      ec_enc_bits(&enc, (opus_uint32)qg, 3);
      ec_enc_icdf(&enc, tapset, tapset_icdf, 2);
   }
   while (ec_tell(&enc) + 48 < budget) {
      if (vchance(r, 70)) ec_enc_bit_logp(&enc, (int)vbelow(r, 2), 1 + vbelow(r, 3));
      else ec_enc_bits(&enc, vbelow(r, 256), 8);
   }
   ec_enc_done(&enc);
   return enc.error ? -1 : len;
}

static void witness(const char *kind, const char *what, const char *replay)
{
   g_w++;
   if (g_w <= 40) printf("W %s | %s | %s\n", kind, what, replay);
}

/* one decoded frame: record, print the `pfcalls` pair, evaluate the predicates */
static void decode_frame(CELTDecoder *st, int ch, const unsigned char *pkt, int len, int N, int LM, float *pcm)
{
   const celt_sig *base = st->_decode_mem; long ML = DECODE_BUFFER_SIZE + st->mode->overlap;
   int pOld = st->postfilter_period_old, pCur = st->postfilter_period, pNew, ret, i, first;
   char line[160], pf[1024], mv[256], tmp[96]; long k;
   sprintf(line, "decskel pfcalls %d %d %d %d %d", N, LM, ch, pOld, pCur);
   R.on = 1; R.n = 0; R.overflow = 0;
   ret = celt_decode_with_ec(st, pkt, len, pcm, N / st->downsample, NULL, 0);
   R.on = 0;
   if (ret < 0) return;
   pNew = st->postfilter_period;
   sprintf(line + strlen(line), " %d", pNew);
   pf[0] = mv[0] = 0;
   for (first = 1, i = 0; i < R.n; i++) {
      rcall *c = &R.c[i];
      if (c->kind == 'C' && c->x == c->y) {
         long off = (const celt_sig *)c->x - base; int cc = (int)(off / ML); long xoff = off % ML;
         long T = IMAX(IMAX(c->T0, COMBFILTER_MINPERIOD), IMAX(c->T1, COMBFILTER_MINPERIOD));
         if (off < 0 || cc >= ch) { witness("pfrange", "post-filter runs on memory outside _decode_mem", line); continue; }
         sprintf(tmp, "%s%d:%ld,%d,%d,%d,%d", first ? "" : ";", cc, xoff, c->T0, c->T1, c->n, c->ovl); first = 0;
         if (strlen(pf) + strlen(tmp) < sizeof pf - 1) strcat(pf, tmp);
         /* predicate on the implementation: the history the filter reaches back into and the samples it writes belong
            to the same channel's buffer */
         if (xoff - T - 2 < 0 || xoff + c->n > ML) {
            sprintf(tmp, "comb_filter at decode_mem[%d]+%ld with T0=%d T1=%d n=%d leaves the channel buffer of %ld", cc, xoff, c->T0, c->T1, c->n, ML);
            witness("pfrange", tmp, line);
         }
         if (!(c->g0 == 0 && c->g1 == 0) && (c->T0 >= MAX_PERIOD || c->T1 >= MAX_PERIOD)) witness("pfperiod", "post-filter period >= MAX_PERIOD", line);
         { cargs a; a.T0 = c->T0; a.T1 = c->T1; a.n = c->n; a.ovl = c->ovl; a.g0z = c->g0 == 0; a.g1z = c->g1 == 0;
           a.gsame = c->g0 == c->g1 && c->ts0 == c->ts1; a.inplace = 1;
           if ((g_cases & 15) == 0) emit_combext(&a); }
      }
   }
   for (first = 1, i = 0; i < R.n; i++) {
      rcall *c = &R.c[i];
      if (c->kind == 'M') {
         long so = (const celt_sig *)c->x - base, dof = (const celt_sig *)c->y - base, n = c->bytes / (long)sizeof(celt_sig);
         int cc = (int)(dof / ML);
         if (dof < 0 || cc >= ch || (const char *)c->y >= (const char *)(base + ch * ML)) continue;     /* not on _decode_mem (plc_pcm …) */
         sprintf(tmp, "%s%d:%ld,%ld,%ld", first ? "" : ";", cc, so - cc * ML, dof - cc * ML, n); first = 0;
         if (strlen(mv) + strlen(tmp) < sizeof mv - 1) strcat(mv, tmp);
         if (so - cc * ML < 0 || so - cc * ML + n > ML || dof - cc * ML + n > ML) witness("mvrange", "decode_mem shift leaves the channel buffer", line);
      }
   }
   if (R.overflow) return;
   if (!g_quiet) {
      printf("I %s\n", line);
      printf("O pf=%s mv=%s next=%d,%d\n", pf, mv, st->postfilter_period_old, st->postfilter_period);
   }
   g_cases++;
   k = st->postfilter_period;
   if (!(k == 0 || (k >= COMBFILTER_MINPERIOD && k < MAX_PERIOD))) witness("pfperiod", "postfilter_period outside {0} u [15, 1024) after a decoded frame", line);
}

static void emit_size(int ch)
{
   CELTDecoder *st = (CELTDecoder *)malloc((size_t)celt_decoder_get_size(ch));
   const CELTMode *m; const char *b = (const char *)st; char mem[64];
   celt_sig *dm0, *dm1; opus_val16 *lpc; celt_glog *oldE, *logE, *logE2, *bg;
   if (!st || celt_decoder_init(st, 48000, ch) != OPUS_OK) exit(2);
   m = st->mode;
   /* the pointer computations of celt_decode_with_ec_dred :1024-1028 / :1065, repeated on the real struct */
   dm0 = st->_decode_mem; dm1 = st->_decode_mem + (DECODE_BUFFER_SIZE + m->overlap);
   lpc = (opus_val16 *)(st->_decode_mem + (DECODE_BUFFER_SIZE + m->overlap) * ch);
   oldE = (celt_glog *)(lpc + ch * CELT_LPC_ORDER); logE = oldE + 2 * m->nbEBands; logE2 = logE + 2 * m->nbEBands; bg = logE2 + 2 * m->nbEBands;
   if (ch == 1) sprintf(mem, "%ld", (long)((const char *)dm0 - b)); else sprintf(mem, "%ld,%ld", (long)((const char *)dm0 - b), (long)((const char *)dm1 - b));
   if (!g_quiet) {
      printf("I decskel celtsize %d\n", ch);
      printf("O size=%d mem=%s lpc=%ld oldE=%ld logE=%ld logE2=%ld bg=%ld end=%ld\n", celt_decoder_get_size(ch), mem,
             (long)((const char *)lpc - b), (long)((const char *)oldE - b), (long)((const char *)logE - b),
             (long)((const char *)logE2 - b), (long)((const char *)bg - b), (long)((const char *)(bg + 2 * m->nbEBands) - b));
   }
   g_cases++;
   if ((const char *)(bg + 2 * m->nbEBands) - b > celt_decoder_get_size(ch)) witness("layout", "backgroundLogE ends behind celt_decoder_get_size", "decskel celtsize");
   free(st);
}

int main(int argc, char **argv)
{
   vrng r; long n, i; static float pcm[2 * 960]; static unsigned char pkt[1300];
   static const int RATES[5] = {8000, 12000, 16000, 24000, 48000};
   static const int TS[] = {0, 1, 14, 15, 16, 17, 300, 1021, 1022, 1023};
   vinstall_traps();
   if (argc < 4 || strcmp(argv[1], "run")) { fprintf(stderr, "usage: c01_celtidx run <seed> <n> [quiet]\n"); return 64; }
   r.s = strtoull(argv[2], 0, 10) * 0xA24BAED4963EE407ULL + 0x9FB21C651E98DF25ULL; r.s ^= vnext(&r) >> 9;
   n = atol(argv[3]); g_quiet = argc >= 5 && !strcmp(argv[4], "quiet");
   g_arch = opus_select_arch();
   for (i = 0; i < PLEN; i++) PB[i] = (float)(vrange(&r, 1, 2000) * (vchance(&r, 50) ? 1 : -1)) + 0.37f;
   for (i = 0; i < 480; i++) PWIN[i] = 0.6f;
   emit_size(1); emit_size(2);
   /* systematic sweep of the measured comb_filter extents */
   if (!g_quiet) {
      int a0, a1, ni, fl, ip; static const int NS[] = {120, 360, 840, 240, 120}, OV[] = {120, 120, 120, 120, 0};
      for (a0 = 0; a0 < 10; a0++) for (a1 = 0; a1 < 10; a1++)
         for (ni = 0; ni < 5; ni++) for (fl = 0; fl < 8; fl++) for (ip = 0; ip < 2; ip++) {
            cargs a; a.T0 = TS[a0]; a.T1 = TS[a1]; a.n = NS[ni]; a.ovl = OV[ni]; a.g0z = fl & 1; a.g1z = (fl >> 1) & 1; a.gsame = (fl >> 2) & 1; a.inplace = ip;
            if (ni >= 3 && ((a0 + a1 + (int)(r.s & 7)) % 3)) continue;
            /* overlap 0 is passed only with g0 == g1 and equal tapsets (:528, prefilter_and_fold); with g0 != 0 == g1 the four
               history loads of celt.c:221-224 are dead and cannot be measured */
            if (a.ovl == 0 && !a.gsame) continue;
            emit_combext(&a);
         }
   }
   for (i = 0; i < n; i++) {
      int Fs = RATES[vbelow(&r, 5)], ch = 1 + vbelow(&r, 2), steps = 12 + vbelow(&r, 40), s;
      CELTDecoder *st = (CELTDecoder *)malloc((size_t)celt_decoder_get_size(ch));
      if (!st || celt_decoder_init(st, Fs, ch) != OPUS_OK) return 2;
      if (ch == 2 && vchance(&r, 30)) celt_decoder_ctl(st, CELT_SET_CHANNELS(1));
      for (s = 0; s < steps; s++) {
         int LM = vbelow(&r, 4), N = 120 << LM, op = vbelow(&r, 100), len;
         if (op < 8) { celt_decode_with_ec(st, NULL, 0, pcm, N / st->downsample, NULL, 0); continue; }            /* a lost frame in between */
         if (op < 11) { celt_decoder_ctl(st, OPUS_RESET_STATE); continue; }
         if (op < 14) { int sb = vchance(&r, 50) ? 17 : 0; celt_decoder_ctl(st, CELT_SET_START_BAND(sb)); }
         if (op < 17 && ch == 2) celt_decoder_ctl(st, CELT_SET_CHANNELS(1 + (int)vbelow(&r, 2)));
         if (op < 24) { unsigned char sil[2] = {0xFF, 0xFF}; decode_frame(st, ch, sil, 2, N, LM, pcm); continue; }
         len = vchance(&r, 20) ? 2 + (int)vbelow(&r, 12) : 16 + (int)vbelow(&r, 180);
         if (op < 34) { int j; for (j = 0; j < len; j++) pkt[j] = (unsigned char)vbelow(&r, 256); }
         else {
            int on = !vchance(&r, 15), octave = vbelow(&r, 6), fine, qg = vbelow(&r, 8), ts = vbelow(&r, 3), e = vbelow(&r, 10);
            int span = 16 << octave;
            if (e < 3) { octave = 0; fine = 0; }                    /* period 15 */
            else if (e < 6) { octave = 5; fine = span = 512; fine = 511; }   /* period 1022 */
            else if (e < 8) fine = vchance(&r, 50) ? 0 : span - 1;  /* octave boundaries */
            else fine = (int)vbelow(&r, (uint32_t)span);
            if (len < 16) len = 16;
            if (craft(&r, pkt, len, on, octave, fine, qg, ts) < 0) continue;
         }
         decode_frame(st, ch, pkt, len, N, LM, pcm);
      }
      free(st);
   }
   printf("# celtidx seed=%s decoders=%ld cases=%ld witnesses=%ld\n", argv[2], n, g_cases, g_w);
   return 0;
}
