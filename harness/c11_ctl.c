/* c11_ctl.c — correspondence harness for the ctl state machines, create/init validation,
   gen_toc, frame_size_select and the "settings bind the TOC" search (property C11).

   Modes:  grid <level>          per request an exhaustive value grid on encoder/decoder/ms/projection
           rand <seed> <n>       random ctl histories interleaved with encode/decode calls
           chain <seed> <n>      forced channels/mode/bandwidth histories: exact chain prediction
           create <level>        create/init argument grids + k-th allocation fails
           funcs                 gen_toc on its whole domain, frame_size_select grid
           honour <seed> <n>     settings fixed before the first frame -> TOC of every packet
           silkbw <seed> <n>     silk_control_audio_bandwidth called directly on random states / control inputs
           silkenc <seed> <n>    SILK-heavy encoder histories; every silk_control_audio_bandwidth call made inside
                                 the real encoder is logged through ld --wrap and emitted as one `silkbwseq` line

   The TU includes the encoder/decoder sources so that static functions (gen_toc) and the
   state structs are visible; link with -Wl,--wrap=malloc -Wl,--wrap=free (allocation failure)
   -Wl,--wrap=silk_control_audio_bandwidth (SILK internal rate log). */
#define CELT_ENCODER_C
#define CELT_DECODER_C
#include "vcommon.h"
#include <limits.h>
#include "celt/celt_encoder.c"
#include "celt/celt_decoder.c"
#include "src/opus_encoder.c"
#include "src/opus_decoder.c"
#include "opus_multistream.h"
#include "opus_projection.h"

/* ------------------------------------------------------------------ allocation interposer */
void *__real_malloc(size_t n);
void __real_free(void *p);
static int v_track = 0;      /* count allocations made while set */
static long v_live = 0;      /* tracked allocations not yet freed */
static long v_failat = -1;   /* fail the allocation with this index (0-based) while tracking */
static long v_nalloc = 0;
#define V_MAXP 64
static void *v_ptrs[V_MAXP];
void *__wrap_malloc(size_t n)
{
   void *p;
   if (v_track) {
      long k = v_nalloc++;
      if (k == v_failat) return NULL;
      p = __real_malloc(n);
      if (p) { int i; for (i = 0; i < V_MAXP; i++) if (!v_ptrs[i]) { v_ptrs[i] = p; v_live++; break; } }
      return p;
   }
   return __real_malloc(n);
}
void __wrap_free(void *p)
{
   if (p) { int i; for (i = 0; i < V_MAXP; i++) if (v_ptrs[i] == p) { v_ptrs[i] = NULL; v_live--; break; } }
   __real_free(p);
}

/* ------------------------------------------------------------------ SILK internal-rate interposer */
opus_int __real_silk_control_audio_bandwidth(silk_encoder_state *psEncC, silk_EncControlStruct *encControl);
static OpusEncoder *bw_enc = NULL;      /* encoder whose calls are logged (NULL: pass through) */
typedef struct { int v[17]; } bwent;
static bwent *bwlog = NULL; static int nbw = 0, capbw = 0;
opus_int __wrap_silk_control_audio_bandwidth(silk_encoder_state *psEncC, silk_EncControlStruct *encControl)
{
   silk_encoder *se; bwent e; int old, r;
   if (!bw_enc) return __real_silk_control_audio_bandwidth(psEncC, encControl);
   se = (silk_encoder *)(void *)((char *)bw_enc + bw_enc->silk_enc_offset);
   if (psEncC == &se->state_Fxx[0].sCmn) e.v[0] = 0;
   else if (psEncC == &se->state_Fxx[1].sCmn) e.v[0] = 1;
   else return __real_silk_control_audio_bandwidth(psEncC, encControl);
   e.v[1] = psEncC->fs_kHz; e.v[2] = psEncC->sLP.saved_fs_kHz; e.v[3] = psEncC->sLP.mode; e.v[4] = psEncC->sLP.transition_frame_no;
   e.v[5] = psEncC->API_fs_Hz; e.v[6] = psEncC->desiredInternal_fs_Hz; e.v[7] = psEncC->maxInternal_fs_Hz;
   e.v[8] = psEncC->minInternal_fs_Hz; e.v[9] = psEncC->allow_bandwidth_switch != 0; e.v[10] = encControl->opusCanSwitch != 0;
   old = encControl->switchReady; encControl->switchReady = 0;     /* observe "was set by this call" without changing the outcome */
   r = __real_silk_control_audio_bandwidth(psEncC, encControl);
   e.v[11] = r; e.v[12] = psEncC->sLP.mode; e.v[13] = psEncC->sLP.transition_frame_no; e.v[14] = encControl->switchReady != 0;
   if (old) encControl->switchReady = old;
   e.v[15] = bw_enc->mode; e.v[16] = bw_enc->bandwidth;
   if (nbw == capbw) { capbw = capbw ? capbw * 2 : 1024; bwlog = (bwent *)realloc(bwlog, capbw * sizeof(bwent)); }
   bwlog[nbw++] = e;
   return r;
}

/* ------------------------------------------------------------------ request tables */
static const int ENC_GET[] = {4001, 4003, 4023, 4005, 4009, 4017, 4011, 4013, 4015, 4007, 11019, 4021, 4025,
                              4027, 4029, 4031, 4037, 4041, 4043, 4047, 4049};
#define N_ENC_GET ((int)(sizeof(ENC_GET) / sizeof(int)))
static const int ENC_SET[] = {4000, 4002, 4022, 4004, 4008, 4016, 4010, 4012, 4014, 4006, 11018, 4020, 4024,
                              4036, 4040, 4042, 4046, 11002, 10024};
#define N_ENC_SET ((int)(sizeof(ENC_SET) / sizeof(int)))
static const int DEC_GET[] = {4009, 4011, 4031, 4029, 4033, 4045, 4039, 4047};
#define N_DEC_GET ((int)(sizeof(DEC_GET) / sizeof(int)))
static const int DEC_SET[] = {4010, 4034, 4046};
#define N_DEC_SET ((int)(sizeof(DEC_SET) / sizeof(int)))
/* request numbers no object in this build implements */
static const int UNK_ALL[] = {0, 1, -1, 3999, 4018, 4019, 4026, 4030, 4032, 4035, 4038, 4044, 4048, 4050, 4051, 4053,
                              4054, 5121, 5123, 6000, 6002, 6004, 10000, 10025, 11000, 11001, 11020, 12345, INT_MAX, INT_MIN};
#define N_UNK_ALL ((int)(sizeof(UNK_ALL) / sizeof(int)))
/* decoder-only requests (unknown to encoders) and encoder-only requests (unknown to decoders);
   they take an int or an int* — the default branch never reads the argument */
static const int UNK_ENC[] = {4033, 4034, 4045, 4039, 5120, 5122};
static const int UNK_DEC[] = {4000, 4001, 4002, 4003, 4004, 4005, 4006, 4007, 4008, 4012, 4013, 4014, 4015, 4016, 4017,
                              4020, 4021, 4022, 4023, 4024, 4025, 4027, 4036, 4037, 4040, 4041, 4042, 4043, 4049,
                              11018, 11019, 11002, 10024, 10026, 10015, 5120, 5122};
static const int VGRID[] = {INT_MIN, INT_MIN + 1, -32769, -32768, -1001, -1000, -999, -2, -1, 0, 1, 2, 3, 4, 5, 6, 7, 8,
                            9, 10, 11, 23, 24, 25, 99, 100, 101, 499, 500, 501, 999, 1000, 1001, 1002, 1003, 1100, 1101,
                            1102, 1103, 1104, 1105, 1106, 2047, 2048, 2049, 2050, 2051, 2052, 3000, 3001, 3002, 3003,
                            4999, 5000, 5001, 5002, 5003, 5004, 5005, 5006, 5007, 5008, 5009, 5010, 6000, 12000, 64000,
                            299999, 300000, 300001, 599999, 600000, 600001, 32767, 32768, INT_MAX - 1, INT_MAX};
#define N_VGRID ((int)(sizeof(VGRID) / sizeof(int)))
static const int FSS[5] = {8000, 12000, 16000, 24000, 48000};
static const int APPS[3] = {2048, 2049, 2051};

static int in_list(const int *l, int n, int v) { int i; for (i = 0; i < n; i++) if (l[i] == v) return 1; return 0; }

/* ------------------------------------------------------------------ output buffer for the O line */
static char *obuf; static size_t olen, ocap;
static void oreset(void) { olen = 0; if (obuf) obuf[0] = 0; }
static void oprintf(const char *fmt, ...)
{
   va_list ap; int n;
   if (ocap - olen < 4096) { ocap = ocap ? ocap * 2 : (1 << 16); obuf = (char *)realloc(obuf, ocap); }
   va_start(ap, fmt); n = vsnprintf(obuf + olen, ocap - olen, fmt, ap); va_end(ap);
   olen += n;
}
static void oflush(void) { printf("\nO %s\n", obuf ? obuf : ""); oreset(); }
static void oret(int ret) { oprintf("%s", verr(ret)); }

/* ------------------------------------------------------------------ snapshots */
static void enc_snap(OpusEncoder *st)
{
   int i; CELTEncoder *ce = (CELTEncoder *)((char *)st + st->celt_enc_offset);
   for (i = 0; i < N_ENC_GET; i++) {
      int ret;
      if (ENC_GET[i] == 4031) { opus_uint32 u = 0xdeadbeef; ret = opus_encoder_ctl(st, ENC_GET[i], &u); if (ret == 0) oprintf("%u", u); }
      else { opus_int32 v = -777777; ret = opus_encoder_ctl(st, ENC_GET[i], &v); if (ret == 0) oprintf("%d", v); }
      if (ret != 0) oprintf("%s", verr(ret));
      oprintf(",");
   }
   oprintf("%d,%d,%d,%d,%d,%d,%d,%d,%d,%d,%d,%d,%d,%d", st->user_bitrate_bps, st->user_bandwidth, st->user_forced_mode,
           st->lfe, st->first, st->silk_mode.maxInternalSampleRate, st->silk_mode.useCBR, st->silk_mode.useInBandFEC,
           ce->complexity, ce->loss_rate, ce->disable_inv, ce->lfe, ce->energy_mask != NULL, st->energy_masking != NULL);
}
static int silk_in_dtx(OpusEncoder *st)
{  /* the expression of opus_encoder.c:3122-3127 */
   silk_encoder *se = (silk_encoder *)(void *)((char *)st + st->silk_enc_offset);
   int v = se->state_Fxx[0].sCmn.noSpeechCounter >= NB_SPEECH_FRAMES_BEFORE_DTX;
   if (v == 1 && st->silk_mode.nChannelsInternal == 2 && se->prev_decode_only_middle == 0)
      v = se->state_Fxx[1].sCmn.noSpeechCounter >= NB_SPEECH_FRAMES_BEFORE_DTX;
   return v;
}
/* fields an encode call may have changed (EncObs of the model), printed into the I line */
static void enc_obs(FILE *f, OpusEncoder *st)
{
   fprintf(f, "%d,%d,%d,%u,%d,%d,%d,%d,%d,%d,%d,%d,%d,%d,%d,%d,%d", st->first, st->bandwidth, st->prev_framesize, st->rangeFinal,
           st->voice_ratio, st->force_channels, st->silk_mode.maxInternalSampleRate, st->silk_mode.useCBR,
           st->silk_mode.useDTX, st->prev_mode, silk_in_dtx(st), st->nb_no_activity_ms_Q1, st->stream_channels, st->mode,
           st->prev_channels, st->silk_mode.toMono, ((CELTEncoder *)((char *)st + st->celt_enc_offset))->energy_mask != NULL);
}
static void dec_snap(OpusDecoder *st)
{
   int i; CELTDecoder *cd = (CELTDecoder *)((char *)st + st->celt_dec_offset);
   for (i = 0; i < N_DEC_GET; i++) {
      int ret;
      if (DEC_GET[i] == 4031) { opus_uint32 u = 0xdeadbeef; ret = opus_decoder_ctl(st, DEC_GET[i], &u); if (ret == 0) oprintf("%u", u); }
      else { opus_int32 v = -777777; ret = opus_decoder_ctl(st, DEC_GET[i], &v); if (ret == 0) oprintf("%d", v); }
      if (ret != 0) oprintf("%s", verr(ret));
      oprintf(",");
   }
   oprintf("%d", cd->complexity);
}

/* ------------------------------------------------------------------ signals */
static void gen_pcm(vrng *r, opus_int16 *pcm, int n, int ch, int kind)
{
   int i, c; double ph = (double)vbelow(r, 628) / 100.0, f0 = 0.01 + (double)vbelow(r, 300) / 1000.0;
   for (i = 0; i < n; i++) for (c = 0; c < ch; c++) {
      int v;
      switch (kind) {
      case 0: v = 0; break;
      case 1: v = (int)(vnext(r) % 20001) - 10000; break;
      case 2: v = (int)(12000.0 * sin(ph + f0 * i * (c ? 1.01 : 1.0))); break;
      case 3: v = (int)(8000.0 * sin(ph + f0 * i) * (0.5 + 0.5 * sin(0.002 * i))) + (int)(vnext(r) % 401) - 200; break;
      default: v = c ? (int)(vnext(r) % 30001) - 15000 : (int)(9000.0 * sin(f0 * i)); break;
      }
      pcm[i * ch + c] = (opus_int16)v;
   }
}

/* ------------------------------------------------------------------ single encoder histories */
typedef struct { char kind; int id; int v; int fsz; int bytes; int sig; int fmt; } vop;   /* s g n r m c u E; fmt: 0 = derive from the seed, 1/2/3 = opus_encode / opus_encode24 / opus_encode_float */

static void enc_run(int Fs, int ch, int app, const vop *ops, int nops, vrng *r)
{
   int err = 0, i; OpusEncoder *st;
   static celt_glog mask[42];
   static unsigned char out[8000];
   oreset();
   printf("I ctl enc %d %d %d", Fs, ch, app); fflush(stdout);
   st = opus_encoder_create(Fs, ch, app, &err);
   if (!st) { oret(err); oflush(); return; }
   for (i = -1; i < nops; i++) {
      static const vop first_op = {'g', 4029, 0, 0, 0, 0};   /* every history starts with a getter: its snapshot is the initial state */
      const vop *o = i < 0 ? &first_op : &ops[i]; int ret = 0; int hasval = 0; long long val = 0;
      switch (o->kind) {
      case 's': printf(" s%d:%d", o->id, o->v); fflush(stdout); ret = opus_encoder_ctl(st, o->id, (opus_int32)o->v); break;
      case 'g': printf(" g%d", o->id); fflush(stdout);
         if (o->id == 4031) { opus_uint32 u = 0; ret = opus_encoder_ctl(st, o->id, &u); val = u; }
         else { opus_int32 v = 0; ret = opus_encoder_ctl(st, o->id, &v); val = v; }
         hasval = ret == 0; break;
      case 'n': printf(" n%d", o->id); fflush(stdout); ret = opus_encoder_ctl(st, o->id, (opus_int32 *)NULL); break;
      case 'r': printf(" r"); fflush(stdout); ret = opus_encoder_ctl(st, OPUS_RESET_STATE); break;
      case 'm': printf(" m%d", o->v); fflush(stdout); ret = opus_encoder_ctl(st, OPUS_SET_ENERGY_MASK_REQUEST, o->v ? mask : (celt_glog *)NULL); break;
      case 'c': { const CELTMode *m = NULL; printf(" c%d", o->v); fflush(stdout);
                  ret = opus_encoder_ctl(st, CELT_GET_MODE_REQUEST, o->v ? &m : (const CELTMode **)NULL);
                  if (o->v && ret == 0 && m == NULL) ret = -99; } break;
      case 'u': printf(" u%d", o->id); fflush(stdout); { opus_int32 dummy = 0; ret = opus_encoder_ctl(st, o->id, &dummy); } break;
      case 'E': {
         long n = (o->fsz > 0 && o->fsz <= 200000) ? (long)o->fsz * ch : 0;   /* exact-size block: the encoder may read frame_size samples */
         opus_int16 *pcm = (opus_int16 *)malloc(n > 0 ? n * sizeof(opus_int16) : 2);
         /* the signal is a function of (sig, pseed): a history replays alone (fmt != 0 marks a replayed op; generators
            leave fmt = 0 and may leave a stale v) */
         int pseed = o->fmt ? o->v : (int)(vnext(r) % 1000000 + 1);
         int efmt = 0;
         { vrng pr; pr.s = (uint64_t)pseed * 0x9E3779B97F4A7C15ULL + (uint64_t)o->sig; if (n > 0) gen_pcm(&pr, pcm, o->fsz, ch, o->sig); }
         printf(" E%d:%d", o->fsz, o->bytes); fflush(stdout);
         {  /* all three entry points (each runs frame_size_select itself): 16-bit, 24-bit, float */
            int fmt = o->fmt ? o->fmt - 1 : pseed % 3, mb = o->bytes > 8000 ? 8000 : o->bytes; long j;
            efmt = fmt;
            if (fmt == 0) ret = opus_encode(st, pcm, o->fsz, out, mb);
            else if (fmt == 1) { opus_int32 *p24 = (opus_int32 *)malloc(n > 0 ? n * sizeof(opus_int32) : 4);
               for (j = 0; j < n; j++) p24[j] = (opus_int32)pcm[j] * 256; ret = opus_encode24(st, p24, o->fsz, out, mb); free(p24); }
            else { float *pf = (float *)malloc(n > 0 ? n * sizeof(float) : 4);
               for (j = 0; j < n; j++) pf[j] = pcm[j] * (1.f / 32768.f); ret = opus_encode_float(st, pf, o->fsz, out, mb); free(pf); }
         }
         printf(":%d:", ret < 0 ? ret : ret); enc_obs(stdout, st);
         {  /* what went on the wire: TOC, coded payload bytes (0 = DTX / TOC-only packet), frame count */
            int toc = 0, payload = 0, nfr = 0;
            if (ret > 0) { opus_int16 sz[48]; int k; unsigned char t; nfr = opus_packet_parse(out, ret, &t, NULL, sz, NULL);
                           toc = out[0]; for (k = 0; k < nfr; k++) payload += sz[k]; }
            printf(":%d:%d:%d:%d:%d:%d", toc, payload, nfr, o->sig, pseed, efmt);
         }
         fflush(stdout);
         free(pcm);
         oprintf("enc/"); enc_snap(st); oprintf(" ");
         continue; }
      }
      oret(ret); if (hasval) oprintf("=%lld", val);
      oprintf("/"); enc_snap(st); oprintf(" ");
   }
   opus_encoder_destroy(st);
   if (olen && obuf[olen - 1] == ' ') obuf[--olen] = 0;
   oflush();
}

/* ------------------------------------------------------------------ decoder histories */
static unsigned char dpk[8][1500]; static int dpklen[8]; static int ndpk = 0;
static void make_packets(void)
{  /* a few real packets (SILK, hybrid, CELT) and TOC-only ones */
   static const int cfg[4][4] = {{48000, 2, 2048, 16000}, {48000, 1, 2049, 32000}, {48000, 2, 2051, 96000}, {16000, 1, 2048, 12000}};
   int k; vrng r; r.s = 12345;
   for (k = 0; k < 4; k++) {
      int err, j; static opus_int16 pcm[960 * 2];
      OpusEncoder *e = opus_encoder_create(cfg[k][0], cfg[k][1], cfg[k][2], &err);
      opus_encoder_ctl(e, OPUS_SET_BITRATE(cfg[k][3]));
      if (k == 0) opus_encoder_ctl(e, OPUS_SET_SIGNAL(OPUS_SIGNAL_VOICE));
      for (j = 0; j < 4; j++) { gen_pcm(&r, pcm, cfg[k][0] / 50, cfg[k][1], 3); dpklen[ndpk] = opus_encode(e, pcm, cfg[k][0] / 50, dpk[ndpk], 1500); }
      ndpk++; opus_encoder_destroy(e);
   }
   dpk[ndpk][0] = 0x08; dpklen[ndpk++] = 1;      /* SILK NB 20 ms, empty frame */
   dpk[ndpk][0] = 0xfc; dpklen[ndpk++] = 1;      /* CELT FB 20 ms stereo, empty frame */
   dpk[ndpk][0] = 0x78; dpklen[ndpk++] = 1;      /* hybrid FB 20 ms */
}

static void dec_run(int Fs, int ch, const vop *ops, int nops)
{
   int err = 0, i; OpusDecoder *st; static opus_int16 pcm[5760 * 2];
   oreset();
   printf("I ctl dec %d %d", Fs, ch); fflush(stdout);
   st = opus_decoder_create(Fs, ch, &err);
   if (!st) { oret(err); oflush(); return; }
   for (i = -1; i < nops; i++) {
      static const vop first_op = {'g', 4029, 0, 0, 0, 0};
      const vop *o = i < 0 ? &first_op : &ops[i]; int ret = 0; int hasval = 0; long long val = 0;
      switch (o->kind) {
      case 's': printf(" s%d:%d", o->id, o->v); fflush(stdout); ret = opus_decoder_ctl(st, o->id, (opus_int32)o->v); break;
      case 'g': printf(" g%d", o->id); fflush(stdout);
         if (o->id == 4031) { opus_uint32 u = 0; ret = opus_decoder_ctl(st, o->id, &u); val = u; }
         else { opus_int32 v = 0; ret = opus_decoder_ctl(st, o->id, &v); val = v; }
         hasval = ret == 0; break;
      case 'n': printf(" n%d", o->id); fflush(stdout); ret = opus_decoder_ctl(st, o->id, (opus_int32 *)NULL); break;
      case 'r': printf(" r"); fflush(stdout); ret = opus_decoder_ctl(st, OPUS_RESET_STATE); break;
      case 'u': printf(" u%d", o->id); fflush(stdout); { opus_int32 dummy = 0; ret = opus_decoder_ctl(st, o->id, &dummy); } break;
      case 'D': {
         CELTDecoder *cd = (CELTDecoder *)((char *)st + st->celt_dec_offset);
         int k = o->v; unsigned char *p = k < 0 ? NULL : vexact(dpk[k], dpklen[k]);
         printf(" D%d:", o->fsz); fflush(stdout);
         ret = opus_decode(st, p, k < 0 ? 0 : dpklen[k], pcm, o->fsz, 0);
         printf("%d:%d,%d,%d,%u,%d,%d", ret, st->bandwidth, st->prev_mode, st->last_packet_duration, st->rangeFinal,
                cd->postfilter_period, st->DecControl.prevPitchLag); fflush(stdout);
         free(p);
         oprintf("dec/"); dec_snap(st); oprintf(" ");
         continue; }
      }
      oret(ret); if (hasval) oprintf("=%lld", val);
      oprintf("/"); dec_snap(st); oprintf(" ");
   }
   opus_decoder_destroy(st);
   if (olen && obuf[olen - 1] == ' ') obuf[--olen] = 0;
   oflush();
}

/* ------------------------------------------------------------------ multistream / projection objects */
typedef struct { int kind; /* 0 msenc, 1 surround, 2 projection */ void *obj; int nstreams; int nch; } msobj;
static int ms_i(msobj *m, int req, int v)
{ return m->kind == 2 ? opus_projection_encoder_ctl((OpusProjectionEncoder *)m->obj, req, (opus_int32)v)
                      : opus_multistream_encoder_ctl((OpusMSEncoder *)m->obj, req, (opus_int32)v); }
static int ms_p(msobj *m, int req, void *p)
{ return m->kind == 2 ? opus_projection_encoder_ctl((OpusProjectionEncoder *)m->obj, req, p)
                      : opus_multistream_encoder_ctl((OpusMSEncoder *)m->obj, req, p); }
static int ms_ip(msobj *m, int req, int v, void *p)
{ return m->kind == 2 ? opus_projection_encoder_ctl((OpusProjectionEncoder *)m->obj, req, (opus_int32)v, p)
                      : opus_multistream_encoder_ctl((OpusMSEncoder *)m->obj, req, (opus_int32)v, p); }
static int ms_pi(msobj *m, int req, void *p, int v)
{ return opus_projection_encoder_ctl((OpusProjectionEncoder *)m->obj, req, p, (opus_int32)v); }
static int ms_0(msobj *m, int req)
{ return m->kind == 2 ? opus_projection_encoder_ctl((OpusProjectionEncoder *)m->obj, req)
                      : opus_multistream_encoder_ctl((OpusMSEncoder *)m->obj, req); }
static OpusEncoder *ms_stream(msobj *m, int i) { OpusEncoder *e = NULL; ms_ip(m, OPUS_MULTISTREAM_GET_ENCODER_STATE_REQUEST, i, &e); return e; }
static OpusMSEncoder *ms_inner(msobj *m)
{  /* the OpusMSEncoder sits align(sizeof) bytes before its first stream encoder */
   return m->kind == 2 ? (OpusMSEncoder *)((char *)ms_stream(m, 0) - align(sizeof(OpusMSEncoder))) : (OpusMSEncoder *)m->obj;
}
static void ms_snap(msobj *m)
{
   int i;
   for (i = 0; i < N_ENC_GET; i++) {
      int ret;
      if (ENC_GET[i] == 4031) { opus_uint32 u = 0xdeadbeef; ret = ms_p(m, ENC_GET[i], &u); if (ret == 0) oprintf("%u", u); }
      else { opus_int32 v = -777777; ret = ms_p(m, ENC_GET[i], &v); if (ret == 0) oprintf("%d", v); }
      if (ret != 0) oprintf("%s", verr(ret));
      oprintf(",");
   }
   oprintf("%d", ms_inner(m)->bitrate_bps);
   for (i = 0; i < m->nstreams; i++) { oprintf(";"); enc_snap(ms_stream(m, i)); }
}
static void ms_destroy(msobj *m)
{ if (m->kind == 2) opus_projection_encoder_destroy((OpusProjectionEncoder *)m->obj); else opus_multistream_encoder_destroy((OpusMSEncoder *)m->obj); }

typedef struct { char kind; int id; int v; int p; int fsz; int bytes; int sig; } msop;   /* s g n r x u q a t E */

/* header: the text after "I ctl " that identifies the object; obj already created */
static void ms_run(msobj *m, const msop *ops, int nops, vrng *r)
{
   int i; static unsigned char out[20000]; static unsigned char mat[38 * 38 * 2 + 16];
   for (i = -1; i < nops; i++) {
      static const msop first_op = {'g', 4029, 0, 0, 0, 0, 0};
      const msop *o = i < 0 ? &first_op : &ops[i]; int ret = 0; int hasval = 0; long long val = 0;
      switch (o->kind) {
      case 's': printf(" s%d:%d", o->id, o->v); fflush(stdout); ret = ms_i(m, o->id, o->v); break;
      case 'g': printf(" g%d", o->id); fflush(stdout);
         if (o->id == 4031) { opus_uint32 u = 0; ret = ms_p(m, o->id, &u); val = u; }
         else { opus_int32 v = 0; ret = ms_p(m, o->id, &v); val = v; }
         hasval = ret == 0; break;
      case 'n': printf(" n%d", o->id); fflush(stdout); ret = ms_p(m, o->id, NULL); break;
      case 'r': printf(" r"); fflush(stdout); ret = ms_0(m, OPUS_RESET_STATE); break;
      case 'u': printf(" u%d", o->id); fflush(stdout); { opus_int32 dummy = 0; ret = ms_p(m, o->id, &dummy); } break;
      case 'x': { OpusEncoder *e = NULL; int k;
         printf(" x%d:%d", o->v, o->p); fflush(stdout);
         ret = ms_ip(m, OPUS_MULTISTREAM_GET_ENCODER_STATE_REQUEST, o->v, o->p ? &e : NULL);
         if (ret == 0) { hasval = 1; val = -1; for (k = 0; k < m->nstreams; k++) if (ms_stream(m, k) == e) val = k; }
         } break;
      case 'q': { opus_int32 v = 0; printf(" q%d", o->p); fflush(stdout); ret = ms_p(m, OPUS_PROJECTION_GET_DEMIXING_MATRIX_SIZE_REQUEST, o->p ? &v : NULL); hasval = ret == 0; val = v; } break;
      case 'a': { opus_int32 v = 0; printf(" a%d", o->p); fflush(stdout); ret = ms_p(m, OPUS_PROJECTION_GET_DEMIXING_MATRIX_GAIN_REQUEST, o->p ? &v : NULL); hasval = ret == 0; val = v; } break;
      case 't': printf(" t%d:%d", o->p, o->v); fflush(stdout); ret = ms_pi(m, OPUS_PROJECTION_GET_DEMIXING_MATRIX_REQUEST, o->p ? mat : NULL, o->v); break;
      case 'E': {
         long n = (o->fsz > 0 && o->fsz <= 200000) ? (long)o->fsz * m->nch : 0; int k;
         opus_int16 *pcm = (opus_int16 *)malloc(n > 0 ? n * sizeof(opus_int16) : 2);
         int pseed = o->v ? o->v : (int)(vnext(r) % 1000000 + 1);
         { vrng pr; pr.s = (uint64_t)pseed * 0x9E3779B97F4A7C15ULL + (uint64_t)o->sig; if (n > 0) gen_pcm(&pr, pcm, o->fsz, m->nch, o->sig); }
         printf(" E%d:%d", o->fsz, o->bytes); fflush(stdout);
         if (m->kind == 2) ret = opus_projection_encode((OpusProjectionEncoder *)m->obj, pcm, o->fsz, out, o->bytes);
         else ret = opus_multistream_encode((OpusMSEncoder *)m->obj, pcm, o->fsz, out, o->bytes);
         printf(":%d:", ret);
         for (k = 0; k < m->nstreams; k++) { OpusEncoder *e = ms_stream(m, k);
            if (k) printf(";");
            enc_obs(stdout, e);
            printf(",%d,%d,%d,%d", e->user_bitrate_bps, e->user_bandwidth, e->user_forced_mode, e->energy_masking != NULL); }
         printf(":%d:%d", o->sig, pseed);
         fflush(stdout); free(pcm);
         oprintf("enc/"); ms_snap(m); oprintf(" ");
         continue; }
      }
      oret(ret); if (hasval) oprintf("=%lld", val);
      oprintf("/"); ms_snap(m); oprintf(" ");
   }
   if (olen && obuf[olen - 1] == ' ') obuf[--olen] = 0;
}

static void msenc_run(int Fs, int nch, int streams, int coupled, const unsigned char *mapping, int app, const msop *ops, int nops, vrng *r)
{
   int err = 0; msobj m; unsigned char *mp = vexact(mapping, nch > 0 ? nch : 0);
   oreset();
   printf("I ctl msenc %d %d %d %d ", Fs, nch, streams, coupled); vhex(stdout, mapping, nch > 0 ? nch : 0); printf(" %d", app); fflush(stdout);
   m.kind = 0; m.nstreams = streams; m.nch = nch;
   m.obj = opus_multistream_encoder_create(Fs, nch, streams, coupled, mp, app, &err);
   free(mp);
   if (!m.obj) { oret(err); oflush(); return; }
   ms_run(&m, ops, nops, r); ms_destroy(&m); oflush();
}
static void mssur_run(int Fs, int nch, int family, int app, const msop *ops, int nops, vrng *r)
{
   int err = 0, st = 0, cp = 0; msobj m; unsigned char mapping[256];
   oreset();
   printf("I ctl mssur %d %d %d %d", Fs, nch, family, app); fflush(stdout);
   m.kind = 1; m.nch = nch;
   m.obj = opus_multistream_surround_encoder_create(Fs, nch, family, &st, &cp, mapping, app, &err);
   m.nstreams = st;
   if (!m.obj) { oret(err); oflush(); return; }
   ms_run(&m, ops, nops, r); ms_destroy(&m); oflush();
}
static void proj_run(int Fs, int nch, int app, const msop *ops, int nops, vrng *r)
{
   int err = 0, st = 0, cp = 0; msobj m;
   oreset();
   printf("I ctl projenc %d %d %d", Fs, nch, app); fflush(stdout);
   m.kind = 2; m.nch = nch;
   m.obj = opus_projection_ambisonics_encoder_create(Fs, nch, 3, &st, &cp, app, &err);
   m.nstreams = st;
   if (!m.obj) { oret(err); oflush(); return; }
   ms_run(&m, ops, nops, r); ms_destroy(&m); oflush();
}

/* multistream / projection decoder: ctl-only histories */
static void msdec_run(int Fs, int nch, int streams, int coupled, const unsigned char *mapping, int proj, const msop *ops, int nops)
{
   int err = 0, i, k; void *obj; unsigned char *mp = vexact(mapping, nch > 0 ? nch : 0);
   OpusDecoder *sd[256];
#define MD_I(req, v) (proj ? opus_projection_decoder_ctl((OpusProjectionDecoder *)obj, req, (opus_int32)(v)) : opus_multistream_decoder_ctl((OpusMSDecoder *)obj, req, (opus_int32)(v)))
#define MD_P(req, p) (proj ? opus_projection_decoder_ctl((OpusProjectionDecoder *)obj, req, p) : opus_multistream_decoder_ctl((OpusMSDecoder *)obj, req, p))
#define MD_IP(req, v, p) (proj ? opus_projection_decoder_ctl((OpusProjectionDecoder *)obj, req, (opus_int32)(v), p) : opus_multistream_decoder_ctl((OpusMSDecoder *)obj, req, (opus_int32)(v), p))
#define MD_0(req) (proj ? opus_projection_decoder_ctl((OpusProjectionDecoder *)obj, req) : opus_multistream_decoder_ctl((OpusMSDecoder *)obj, req))
   oreset();
   printf("I ctl msdec %d %d %d %d ", Fs, nch, streams, coupled); vhex(stdout, mapping, nch > 0 ? nch : 0); fflush(stdout);
   if (proj) {
      long msz = (long)(streams + coupled) * nch * 2; unsigned char *mat = (unsigned char *)calloc(msz > 0 ? msz : 1, 1);
      obj = opus_projection_decoder_create(Fs, nch, streams, coupled, mat, (opus_int32)msz, &err); free(mat);
   } else obj = opus_multistream_decoder_create(Fs, nch, streams, coupled, mp, &err);
   free(mp);
   if (!obj) { oret(err); oflush(); return; }
   for (k = 0; k < streams; k++) { sd[k] = NULL; MD_IP(OPUS_MULTISTREAM_GET_DECODER_STATE_REQUEST, k, &sd[k]); }
   for (i = -1; i <= nops; i++) {
      int ret = 0, hasval = 0, j; long long val = 0;
      if (i < nops) {
         static const msop first_op = {'g', 4029, 0, 0, 0, 0, 0};
         const msop *o = i < 0 ? &first_op : &ops[i];
         switch (o->kind) {
         case 's': printf(" s%d:%d", o->id, o->v); fflush(stdout); ret = MD_I(o->id, o->v); break;
         case 'g': printf(" g%d", o->id); fflush(stdout);
            if (o->id == 4031) { opus_uint32 u = 0; ret = MD_P(o->id, &u); val = u; }
            else { opus_int32 v = 0; ret = MD_P(o->id, &v); val = v; }
            hasval = ret == 0; break;
         case 'n': printf(" n%d", o->id); fflush(stdout); ret = MD_P(o->id, NULL); break;
         case 'r': printf(" r"); fflush(stdout); ret = MD_0(OPUS_RESET_STATE); break;
         case 'u': printf(" u%d", o->id); fflush(stdout); { opus_int32 dummy = 0; ret = MD_P(o->id, &dummy); } break;
         case 'x': { OpusDecoder *e = NULL;
            printf(" x%d:%d", o->v, o->p); fflush(stdout);
            ret = MD_IP(OPUS_MULTISTREAM_GET_DECODER_STATE_REQUEST, o->v, o->p ? &e : NULL);
            if (ret == 0) { hasval = 1; val = -1; for (k = 0; k < streams; k++) if (sd[k] == e) val = k; } } break;
         }
         oret(ret); if (hasval) oprintf("=%lld", val);
         oprintf("/");
      } else break;
      for (j = 0; j < N_DEC_GET; j++) {
         int rr;
         if (DEC_GET[j] == 4031) { opus_uint32 u = 0xdeadbeef; rr = MD_P(DEC_GET[j], &u); if (rr == 0) oprintf("%u", u); }
         else { opus_int32 v = -777777; rr = MD_P(DEC_GET[j], &v); if (rr == 0) oprintf("%d", v); }
         if (rr != 0) oprintf("%s", verr(rr));
         if (j + 1 < N_DEC_GET) oprintf(",");
      }
      for (k = 0; k < streams; k++) { oprintf(";"); dec_snap(sd[k]); }
      oprintf(" ");
   }
   if (proj) opus_projection_decoder_destroy((OpusProjectionDecoder *)obj); else opus_multistream_decoder_destroy((OpusMSDecoder *)obj);
   if (olen && obuf[olen - 1] == ' ') obuf[--olen] = 0;
   oflush();
}

/* ------------------------------------------------------------------ grids */
static void run_grid(int level)
{
   int f, c, a, k, i; vrng r; r.s = 99;
   static vop ops[4096]; static msop mops[4096];
   for (f = 0; f < 5; f++) for (c = 1; c <= 2; c++) for (a = 0; a < 3; a++) {
      int n;
      if (!level && ((f * 7 + c * 3 + a) % 4) != 0) continue;
      for (k = 0; k < N_ENC_SET; k++) {
         n = 0;
         for (i = 0; i < N_VGRID; i++) { ops[n].kind = 's'; ops[n].id = ENC_SET[k]; ops[n].v = VGRID[i]; n++; }
         enc_run(FSS[f], c, APPS[a], ops, n, &r);
      }
      n = 0;
      for (i = 0; i < N_ENC_GET; i++) { ops[n].kind = 'n'; ops[n].id = ENC_GET[i]; n++; ops[n].kind = 'g'; ops[n].id = ENC_GET[i]; n++; }
      for (i = 0; i < N_UNK_ALL; i++) { ops[n].kind = 'u'; ops[n].id = UNK_ALL[i]; n++; }
      for (i = 0; i < (int)(sizeof(UNK_ENC) / sizeof(int)); i++) { ops[n].kind = 'u'; ops[n].id = UNK_ENC[i]; n++; }
      ops[n].kind = 'm'; ops[n].v = 1; n++; ops[n].kind = 'c'; ops[n].v = 0; n++; ops[n].kind = 'c'; ops[n].v = 1; n++;
      ops[n].kind = 'r'; n++; ops[n].kind = 'm'; ops[n].v = 1; n++; ops[n].kind = 'm'; ops[n].v = 0; n++;
      enc_run(FSS[f], c, APPS[a], ops, n, &r);
   }
   for (f = 0; f < 5; f++) for (c = 1; c <= 2; c++) {
      int n;
      for (k = 0; k < N_DEC_SET; k++) {
         n = 0;
         for (i = 0; i < N_VGRID; i++) { ops[n].kind = 's'; ops[n].id = DEC_SET[k]; ops[n].v = VGRID[i]; n++; }
         dec_run(FSS[f], c, ops, n);
      }
      n = 0;
      for (i = 0; i < N_DEC_GET; i++) { ops[n].kind = 'n'; ops[n].id = DEC_GET[i]; n++; ops[n].kind = 'g'; ops[n].id = DEC_GET[i]; n++; }
      for (i = 0; i < N_UNK_ALL; i++) { ops[n].kind = 'u'; ops[n].id = UNK_ALL[i]; n++; }
      for (i = 0; i < (int)(sizeof(UNK_DEC) / sizeof(int)); i++) { ops[n].kind = 'u'; ops[n].id = UNK_DEC[i]; n++; }
      ops[n].kind = 'r'; n++;
      dec_run(FSS[f], c, ops, n);
   }
   {  /* multistream encoder: three layouts x every setter */
      static const struct { int nch, st, cp; unsigned char map[8]; } L[3] = {{2, 1, 1, {0, 1}}, {3, 2, 1, {0, 1, 2}}, {4, 3, 1, {2, 0, 1, 3}}};
      int l, n;
      for (l = 0; l < 3; l++) {
         int Fs = FSS[(l * 2 + 1) % 5], app = APPS[l % 3];
         for (k = 0; k < N_ENC_SET; k++) {
            n = 0;
            for (i = 0; i < N_VGRID; i++) { if (!level && l == 2 && (i % 2)) continue; mops[n].kind = 's'; mops[n].id = ENC_SET[k]; mops[n].v = VGRID[i]; n++; }
            msenc_run(Fs, L[l].nch, L[l].st, L[l].cp, L[l].map, app, mops, n, &r);
         }
         n = 0;
         for (i = 0; i < N_ENC_GET; i++) { mops[n].kind = 'n'; mops[n].id = ENC_GET[i]; n++; mops[n].kind = 'g'; mops[n].id = ENC_GET[i]; n++; }
         for (i = 0; i < N_UNK_ALL; i++) { mops[n].kind = 'u'; mops[n].id = UNK_ALL[i]; n++; }
         { static const int more[] = {4033, 4034, 4045, 4039, 5122, 10026, 10015}; for (i = 0; i < 7; i++) { mops[n].kind = 'u'; mops[n].id = more[i]; n++; } }
         for (i = -2; i <= L[l].st + 1; i++) { mops[n].kind = 'x'; mops[n].v = i; mops[n].p = 1; n++; mops[n].kind = 'x'; mops[n].v = i; mops[n].p = 0; n++; }
         mops[n].kind = 'x'; mops[n].v = INT_MAX; mops[n].p = 1; n++; mops[n].kind = 'x'; mops[n].v = INT_MIN; mops[n].p = 1; n++;
         mops[n].kind = 'r'; n++;
         msenc_run(Fs, L[l].nch, L[l].st, L[l].cp, L[l].map, app, mops, n, &r);
      }
      /* surround (family 1, 6 channels: LFE stream) and projection (4 and 11 channels) */
      for (k = 0; k < N_ENC_SET; k++) {
         n = 0;
         for (i = 0; i < N_VGRID; i += (level ? 1 : 3)) { mops[n].kind = 's'; mops[n].id = ENC_SET[k]; mops[n].v = VGRID[i]; n++; }
         mssur_run(48000, 6, 1, 2049, mops, n, &r);
         proj_run(48000, 4, 2049, mops, n, &r);
      }
      n = 0;
      for (i = 0; i < 2; i++) { mops[n].kind = 'q'; mops[n].p = i; n++; mops[n].kind = 'a'; mops[n].p = i; n++; }
      { static const int sz[] = {0, -1, 31, 32, 33, 64, 242, 288, INT_MAX, INT_MIN}; for (i = 0; i < 10; i++) { mops[n].kind = 't'; mops[n].p = 1; mops[n].v = sz[i]; n++; } }
      mops[n].kind = 't'; mops[n].p = 0; mops[n].v = 32; n++;
      for (i = 0; i < N_ENC_GET; i++) { mops[n].kind = 'g'; mops[n].id = ENC_GET[i]; n++; }
      mops[n].kind = 'u'; mops[n].id = 6000; n++; mops[n].kind = 'u'; mops[n].id = 4033; n++;
      proj_run(48000, 4, 2049, mops, n, &r);
      proj_run(24000, 11, 2048, mops, n, &r);
      proj_run(48000, 6, 2051, mops, n, &r);
   }
   {  /* multistream / projection decoder */
      static const struct { int nch, st, cp; unsigned char map[8]; } L[3] = {{2, 1, 1, {0, 1}}, {3, 2, 1, {0, 1, 2}}, {4, 2, 2, {0, 1, 2, 3}}};
      int l, n, proj;
      for (l = 0; l < 3; l++) for (proj = 0; proj < 2; proj++) {
         int Fs = FSS[(l + 2) % 5];
         for (k = 0; k < N_DEC_SET; k++) {
            n = 0;
            for (i = 0; i < N_VGRID; i++) { mops[n].kind = 's'; mops[n].id = DEC_SET[k]; mops[n].v = VGRID[i]; n++; }
            msdec_run(Fs, L[l].nch, L[l].st, L[l].cp, L[l].map, proj, mops, n);
         }
         n = 0;
         for (i = 0; i < N_DEC_GET; i++) { mops[n].kind = 'n'; mops[n].id = DEC_GET[i]; n++; mops[n].kind = 'g'; mops[n].id = DEC_GET[i]; n++; }
         for (i = 0; i < N_UNK_ALL; i++) { mops[n].kind = 'u'; mops[n].id = UNK_ALL[i]; n++; }
         { static const int more[] = {4000, 4002, 4010, 4016, 4036, 5120, 10024}; for (i = 0; i < 7; i++) { mops[n].kind = 'u'; mops[n].id = more[i]; n++; } }
         for (i = -2; i <= L[l].st + 1; i++) { mops[n].kind = 'x'; mops[n].v = i; mops[n].p = 1; n++; mops[n].kind = 'x'; mops[n].v = i; mops[n].p = 0; n++; }
         mops[n].kind = 'r'; n++;
         msdec_run(Fs, L[l].nch, L[l].st, L[l].cp, L[l].map, proj, mops, n);
      }
   }
}

/* ------------------------------------------------------------------ random histories */
static int rand_value(vrng *r, int id)
{
   if (vchance(r, 35)) return VGRID[vbelow(r, N_VGRID)];
   switch (id) {
   case 4000: return APPS[vbelow(r, 3)];
   case 4002: return vchance(r, 20) ? (vchance(r, 50) ? -1000 : -1) : vrange(r, 1, 700000);
   case 4022: return vchance(r, 30) ? -1000 : vrange(r, 0, 3);
   case 4004: case 4008: return vchance(r, 20) ? -1000 : vrange(r, 1100, 1106);
   case 4010: return vrange(r, -1, 11);
   case 4012: return vrange(r, -1, 3);
   case 4014: case 11018: return vrange(r, -2, 101);
   case 4024: return vchance(r, 30) ? -1000 : vrange(r, 3000, 3003);
   case 4036: return vrange(r, 7, 25);
   case 4040: return vrange(r, 4999, 5010);
   case 11002: return vchance(r, 30) ? -1000 : vrange(r, 999, 1003);
   case 4034: return vrange(r, -33000, 33000);
   default: return vrange(r, -1, 2);
   }
}
static int rand_fsz(vrng *r, int Fs)
{
   static const int num[9] = {1, 2, 4, 8, 16, 24, 32, 40, 48};
   if (vchance(r, 85)) return Fs / 400 * num[vchance(r, 70) ? vbelow(r, 5) : vbelow(r, 9)];
   switch (vbelow(r, 7)) { case 0: return 0; case 1: return -1; case 2: return Fs / 400 - 1; case 3: return Fs / 50 + 1;
      case 4: return 7 * Fs / 50; case 5: return Fs / 400 * 3; default: return 100000; }
}
static int rand_bytes(vrng *r)
{
   static const int b[] = {0, -1, 1, 2, 3, 4, 10, 40, 100, 500, 1275, 1276, 1277, 4000};
   return vchance(r, 60) ? 1276 : b[vbelow(r, sizeof(b) / sizeof(int))];
}
static void run_rand(uint64_t seed, long cases)
{
   vrng r; long cidx; static vop ops[256]; static msop mops[256];
   r.s = seed * 0x9E3779B97F4A7C15ULL + 11;
   for (cidx = 0; cidx < cases; cidx++) {
      int which = vbelow(&r, 100), n = 0, len = vrange(&r, 4, 36), i;
      int Fs = FSS[vbelow(&r, 5)], ch = vrange(&r, 1, 2), app = APPS[vbelow(&r, 3)];
      if (which < 55) {
         for (i = 0; i < len; i++) {
            int d = vbelow(&r, 100);
            if (d < 55) { ops[n].kind = 's'; ops[n].id = ENC_SET[vbelow(&r, N_ENC_SET)]; ops[n].v = rand_value(&r, ops[n].id); }
            else if (d < 62) { ops[n].kind = vchance(&r, 70) ? 'g' : 'n'; ops[n].id = ENC_GET[vbelow(&r, N_ENC_GET)]; }
            else if (d < 66) { ops[n].kind = 'u'; ops[n].id = vchance(&r, 70) ? UNK_ALL[vbelow(&r, N_UNK_ALL)] : UNK_ENC[vbelow(&r, 6)]; }
            else if (d < 71) ops[n].kind = 'r';
            else if (d < 74) { ops[n].kind = 'm'; ops[n].v = vbelow(&r, 2); }
            else if (d < 76) { ops[n].kind = 'c'; ops[n].v = vbelow(&r, 2); }
            else { ops[n].kind = 'E'; ops[n].fsz = rand_fsz(&r, Fs); ops[n].bytes = rand_bytes(&r); ops[n].sig = vbelow(&r, 5); }
            n++;
         }
         enc_run(Fs, ch, app, ops, n, &r);
      } else if (which < 70) {
         for (i = 0; i < len; i++) {
            int d = vbelow(&r, 100);
            if (d < 40) { ops[n].kind = 's'; ops[n].id = DEC_SET[vbelow(&r, N_DEC_SET)]; ops[n].v = rand_value(&r, ops[n].id); }
            else if (d < 55) { ops[n].kind = vchance(&r, 70) ? 'g' : 'n'; ops[n].id = DEC_GET[vbelow(&r, N_DEC_GET)]; }
            else if (d < 62) { ops[n].kind = 'u'; ops[n].id = vchance(&r, 50) ? UNK_ALL[vbelow(&r, N_UNK_ALL)] : UNK_DEC[vbelow(&r, sizeof(UNK_DEC) / sizeof(int))]; }
            else if (d < 70) ops[n].kind = 'r';
            else { ops[n].kind = 'D'; ops[n].v = (int)vbelow(&r, ndpk + 1) - 1; ops[n].fsz = vchance(&r, 80) ? Fs / 50 * 6 : Fs / 400 * (int)vbelow(&r, 5); }
            n++;
         }
         dec_run(Fs, ch, ops, n);
      } else {
         static const struct { int nch, st, cp; unsigned char map[8]; } L[5] = {{2, 1, 1, {0, 1}}, {3, 2, 1, {0, 1, 2}}, {2, 2, 0, {1, 0}},
                                                                              {4, 3, 1, {2, 0, 1, 3}}, {1, 1, 0, {0}}};
         int l = vbelow(&r, 5); len = vrange(&r, 3, 16);
         for (i = 0; i < len; i++) {
            int d = vbelow(&r, 100);
            if (d < 55) { mops[n].kind = 's'; mops[n].id = ENC_SET[vbelow(&r, N_ENC_SET)]; mops[n].v = rand_value(&r, mops[n].id); }
            else if (d < 65) { mops[n].kind = vchance(&r, 70) ? 'g' : 'n'; mops[n].id = ENC_GET[vbelow(&r, N_ENC_GET)]; }
            else if (d < 70) { mops[n].kind = 'u'; mops[n].id = UNK_ALL[vbelow(&r, N_UNK_ALL)]; }
            else if (d < 76) mops[n].kind = 'r';
            else if (d < 82) { mops[n].kind = 'x'; mops[n].v = vrange(&r, -1, 4); mops[n].p = vchance(&r, 80); }
            else { mops[n].kind = 'E'; mops[n].fsz = vchance(&r, 85) ? Fs / 400 * (1 << vbelow(&r, 4)) : rand_fsz(&r, Fs); mops[n].bytes = vchance(&r, 70) ? 4000 : rand_bytes(&r); mops[n].sig = vbelow(&r, 5); }
            n++;
         }
         if (which < 88) msenc_run(Fs, L[l].nch, L[l].st, L[l].cp, L[l].map, app, mops, n, &r);
         else if (which < 94) { static const int chs[] = {1, 2, 3, 6, 8}; int fam = vchance(&r, 70) ? 1 : 255; int nc = chs[vbelow(&r, 5)];
                                if (fam == 255) nc = vrange(&r, 1, 3); mssur_run(Fs, nc, fam, app, mops, n, &r); }
         else proj_run(Fs, vchance(&r, 70) ? 4 : 6, app, mops, n, &r);
      }
   }
}

/* histories with forced channels / mode / bandwidth: the decision chain needs no DSP input there, so the
   model predicts mode, bandwidth, stream_channels and toMono after every frame (contract `chain-*`) */
static void run_chain(uint64_t seed, long cases)
{
   vrng r; long cidx; static vop ops[256];
   r.s = seed * 0xA24BAED4963EE407ULL + 3;
   for (cidx = 0; cidx < cases; cidx++) {
      int Fs = FSS[vbelow(&r, 5)], ch = vrange(&r, 1, 2), app = APPS[vbelow(&r, 3)], n = 0, i, len = vrange(&r, 6, 24);
      int fsz = Fs / 400 * (1 << vbelow(&r, 5));
#define OP_S(i_, v_) do { ops[n].kind = 's'; ops[n].id = (i_); ops[n].v = (v_); n++; } while (0)
      OP_S(4008, vrange(&r, 1101, 1105));
      if (ch == 2) OP_S(4022, vrange(&r, 1, 2));
      if (app != 2051 || vchance(&r, 50)) OP_S(11002, vrange(&r, 1000, 1002));
      if (vchance(&r, 50)) OP_S(4004, vrange(&r, 1101, 1105));
      if (vchance(&r, 40)) OP_S(4002, vchance(&r, 50) ? vrange(&r, 6000, 30000) : vrange(&r, 6000, 200000));
      if (vchance(&r, 30)) OP_S(4006, vbelow(&r, 2));
      if (vchance(&r, 30)) OP_S(4010, vrange(&r, 0, 10));
      if (vchance(&r, 10)) OP_S(4016, 1);
      if (vchance(&r, 20)) OP_S(4040, vrange(&r, 5000, 5009));
      for (i = 0; i < len; i++) {
         int d = vbelow(&r, 100);
         if (d < 60) { ops[n].kind = 'E'; ops[n].fsz = vchance(&r, 80) ? fsz : rand_fsz(&r, Fs);
                       ops[n].bytes = vchance(&r, 70) ? 1276 : vchance(&r, 50) ? vrange(&r, 10, 80) : rand_bytes(&r); ops[n].sig = vbelow(&r, 5); n++; }
         else if (d < 72 && ch == 2) OP_S(4022, vrange(&r, 1, 2));
         else if (d < 82) OP_S(11002, vrange(&r, 1000, 1002));
         else if (d < 90) OP_S(4008, vrange(&r, 1101, 1105));
         else if (d < 93) OP_S(10024, vbelow(&r, 2));
         else if (d < 96) { ops[n].kind = 'r'; n++; }
         else OP_S(4004, vrange(&r, 1101, 1105));
      }
      enc_run(Fs, ch, app, ops, n, &r);
   }
}

/* histories in which the application is (re)selected after OPUS_RESET_STATE: [settings, encode x k, RESET_STATE,
   SET_APPLICATION, encode x m].  After a reset the encoder is before its first frame again, so the new application must
   bind every following packet (a stale run-time field surviving the reset shows up in the first packet). */
static void run_reapp(uint64_t seed, long cases)
{
   vrng r; long cidx; static vop ops[256];
   r.s = seed * 0xC2B2AE3D27D4EB4FULL + 17;
   for (cidx = 0; cidx < cases; cidx++) {
      int Fs = FSS[vbelow(&r, 5)], ch = vrange(&r, 1, 2), app = APPS[vbelow(&r, 3)], n = 0, i, k, m;
      static const int num[6] = {4, 8, 8, 8, 16, 24};
      int fsz = Fs / 400 * num[vbelow(&r, 6)];
      /* push the first phase towards the LP / hybrid layers most of the time */
      if (vchance(&r, 75)) { if (app == 2051) app = 2048; OP_S(4002, ch * vrange(&r, 8000, vchance(&r, 60) ? 16000 : 40000)); OP_S(4024, 3001); }
      else if (vchance(&r, 50)) OP_S(4002, vrange(&r, 6000, 200000));
      if (vchance(&r, 25)) OP_S(11002, vrange(&r, 1000, 1002));
      if (vchance(&r, 25)) OP_S(4008, vrange(&r, 1101, 1105));
      if (vchance(&r, 20)) OP_S(4004, vrange(&r, 1101, 1105));
      if (ch == 2 && vchance(&r, 30)) OP_S(4022, vrange(&r, 1, 2));
      if (vchance(&r, 20)) OP_S(4010, vrange(&r, 0, 10));
      if (vchance(&r, 15)) OP_S(4016, 1);
      k = vrange(&r, 1, 6);
      for (i = 0; i < k; i++) { ops[n].kind = 'E'; ops[n].fsz = fsz; ops[n].bytes = 1276; ops[n].sig = vchance(&r, 70) ? 3 : (int)vbelow(&r, 5); n++; }
      if (vchance(&r, 85)) { ops[n].kind = 'r'; n++; }
      OP_S(4000, vchance(&r, 70) ? 2051 : APPS[vbelow(&r, 3)]);
      if (vchance(&r, 20)) OP_S(11002, vchance(&r, 50) ? -1000 : vrange(&r, 1000, 1002));
      if (vchance(&r, 30)) fsz = Fs / 400 * num[vbelow(&r, 6)];
      if (vchance(&r, 10)) fsz = Fs / 400 * (1 << vbelow(&r, 2));
      m = vrange(&r, 1, 4);
      for (i = 0; i < m; i++) { ops[n].kind = 'E'; ops[n].fsz = fsz; ops[n].bytes = vchance(&r, 85) ? 1276 : vrange(&r, 20, 200); ops[n].sig = vchance(&r, 70) ? 3 : (int)vbelow(&r, 5); n++; }
      enc_run(Fs, ch, app, ops, n, &r);
   }
}

/* Deterministic corpus case (defect D3): the rate-based stereo->mono decision on a multi-frame SILK packet; the encode
   call used to overwrite the user's force_channels (OPUS_AUTO) with 1 for good. */
static void run_forceauto(void)
{
   static vop ops[32]; int n = 0, i; vrng r; r.s = 4242;
   OP_S(4024, 3001); OP_S(4002, 40000);
   for (i = 0; i < 4; i++) { ops[n].kind = 'E'; ops[n].fsz = 1280; ops[n].bytes = 1276; ops[n].sig = 3; n++; }
   OP_S(4002, 10000);
   for (i = 0; i < 3; i++) { ops[n].kind = 'E'; ops[n].fsz = 1280; ops[n].bytes = 1276; ops[n].sig = 3; n++; }
   OP_S(4002, 64000);
   for (i = 0; i < 3; i++) { ops[n].kind = 'E'; ops[n].fsz = 1280; ops[n].bytes = 1276; ops[n].sig = 3; n++; }
   ops[n].kind = 'g'; ops[n].id = 4023; n++;
   enc_run(16000, 2, 2048, ops, n, &r);
}

/* Deterministic corpus case (defect D5, fixed by 9ffbe457): CBR at a low rate with 60 ms frames leaves only the LAST stream
   past its first frame; OPUS_SET_APPLICATION is then refused by that stream and must leave the earlier ones unchanged. */
static void run_msapp(void)
{
   static msop mops[8]; static const unsigned char map[3] = {0, 1, 2}; int n = 0; vrng r; r.s = 99;
   memset(mops, 0, sizeof mops);
   mops[n].kind = 's'; mops[n].id = 4006; mops[n].v = 0; n++;
   mops[n].kind = 's'; mops[n].id = 4002; mops[n].v = 7203; n++;
   mops[n].kind = 'E'; mops[n].fsz = 480; mops[n].bytes = 37; mops[n].sig = 1; mops[n].v = 80694; n++;
   mops[n].kind = 's'; mops[n].id = 4000; mops[n].v = 2051; n++;
   mops[n].kind = 'g'; mops[n].id = 4001; n++;
   msenc_run(8000, 3, 3, 0, map, 2049, mops, n, &r);
}

/* starvation histories for multistream / surround / ambisonics / projection encoders: tiny bit-rates and buffers, CBR and
   VBR, all frame sizes, then OPUS_SET_APPLICATION attempts — looking for a stream that codes a frame before stream 0 does
   (CONTRACT(ms-first)) and for a partially applied SET_APPLICATION (S4 predicate ctl-reject) */
static void run_msstarve(uint64_t seed, long cases)
{
   vrng r; long cidx; static msop mops[64];
   r.s = seed * 0x9FB21C651E98DF25ULL + 29;
   for (cidx = 0; cidx < cases; cidx++) {
      static const struct { int nch, st, cp; unsigned char map[8]; } L[6] = {{2, 1, 1, {0, 1}}, {3, 2, 1, {0, 1, 2}}, {2, 2, 0, {1, 0}},
                                                                           {4, 3, 1, {2, 0, 1, 3}}, {3, 3, 0, {0, 1, 2}}, {4, 2, 2, {0, 1, 2, 3}}};
      static const int num[9] = {1, 2, 4, 8, 16, 24, 32, 40, 48};
      int Fs = FSS[vbelow(&r, 5)], app = APPS[vbelow(&r, 3)], n = 0, i, k, which = vbelow(&r, 10);
      int fsz = Fs / 400 * num[vbelow(&r, 9)], nch = 1 + vbelow(&r, 8);
#define MOP_S(i_, v_) do { mops[n].kind = 's'; mops[n].id = (i_); mops[n].v = (v_); mops[n].p = 0; mops[n].fsz = 0; mops[n].bytes = 0; mops[n].sig = 0; n++; } while (0)
      MOP_S(4006, vchance(&r, 65) ? 0 : 1);
      MOP_S(4002, vchance(&r, 10) ? -1 : vchance(&r, 10) ? -1000 : 500 * nch + (int)vbelow(&r, vchance(&r, 70) ? 6000 : 60000));
      if (vchance(&r, 30)) MOP_S(4040, 5000 + (int)vbelow(&r, 10));
      if (vchance(&r, 20)) MOP_S(4016, 1);
      if (vchance(&r, 20)) MOP_S(4010, vrange(&r, 0, 10));
      k = vrange(&r, 1, 4);
      for (i = 0; i < k; i++) { memset(&mops[n], 0, sizeof mops[n]); mops[n].kind = 'E'; mops[n].fsz = fsz; mops[n].sig = vbelow(&r, 5);
         mops[n].bytes = vchance(&r, 50) ? 4000 : vchance(&r, 50) ? vrange(&r, 1, 40) : vrange(&r, 20, 400); n++;
         if (vchance(&r, 20)) MOP_S(4002, 500 * nch + (int)vbelow(&r, 8000)); }
      MOP_S(4000, APPS[vbelow(&r, 3)]);
      memset(&mops[n], 0, sizeof mops[n]); mops[n].kind = 'g'; mops[n].id = 4001; n++;
      if (which < 3) { int l = vbelow(&r, 6); msenc_run(Fs, L[l].nch, L[l].st, L[l].cp, L[l].map, app, mops, n, &r); }
      else if (which < 6) mssur_run(Fs, nch, 1, app, mops, n, &r);
      else if (which < 8) { static const int amb[] = {1, 3, 4, 6, 9, 11, 16, 18}; mssur_run(Fs, amb[vbelow(&r, 8)], 2, app, mops, n, &r); }
      else if (which < 9) mssur_run(Fs, 1 + vbelow(&r, 6), 255, app, mops, n, &r);
      else { static const int pj[] = {4, 6, 9, 11}; proj_run(Fs, pj[vbelow(&r, 4)], app, mops, n, &r); }
   }
}

/* ------------------------------------------------------------------ create / allocation failure */
static void create_one(const char *kind, int Fs, int nch, int a, int b, const unsigned char *map, int app, int failk)
{
   int err = 12345; void *obj = NULL; int st = -1, cp = -1; unsigned char mapping[256];
   unsigned char *mp = map ? vexact(map, nch > 0 && nch < 256 ? nch : 0) : NULL;
   oreset();
   if (!strcmp(kind, "enc")) printf("I ctl create enc %d %d %d %d", Fs, nch, app, failk);
   else if (!strcmp(kind, "dec")) printf("I ctl create dec %d %d %d", Fs, nch, failk);
   else if (!strcmp(kind, "msenc")) { printf("I ctl create msenc %d %d %d %d ", Fs, nch, a, b); vhex(stdout, map, nch > 0 && nch < 256 ? nch : 0); printf(" %d %d", app, failk); }
   else if (!strcmp(kind, "mssur")) printf("I ctl create mssur %d %d %d %d %d", Fs, nch, a, app, failk);
   else if (!strcmp(kind, "msdec")) { printf("I ctl create msdec %d %d %d %d ", Fs, nch, a, b); vhex(stdout, map, nch > 0 && nch < 256 ? nch : 0); printf(" %d", failk); }
   else printf("I ctl create projenc %d %d %d %d %d", Fs, nch, a, app, failk);
   fflush(stdout);
   memset(v_ptrs, 0, sizeof v_ptrs); v_live = 0; v_nalloc = 0; v_failat = failk; v_track = 1;
   if (!strcmp(kind, "enc")) obj = opus_encoder_create(Fs, nch, app, &err);
   else if (!strcmp(kind, "dec")) obj = opus_decoder_create(Fs, nch, &err);
   else if (!strcmp(kind, "msenc")) obj = opus_multistream_encoder_create(Fs, nch, a, b, mp, app, &err);
   else if (!strcmp(kind, "mssur")) obj = opus_multistream_surround_encoder_create(Fs, nch, a, &st, &cp, mapping, app, &err);
   else if (!strcmp(kind, "msdec")) obj = opus_multistream_decoder_create(Fs, nch, a, b, mp, &err);
   else obj = opus_projection_ambisonics_encoder_create(Fs, nch, a, &st, &cp, app, &err);
   v_track = 0;
   if ((obj == NULL) != (err != OPUS_OK)) { oprintf("INCONSISTENT obj=%d err=%d", obj != NULL, err); }
   else if (!obj) { oret(err); oprintf(" live=%ld", v_live); }
   else {
      long live_after;
      oprintf("OK live=");
      /* snapshot first (uses the object), then destroy and report what is still allocated */
      { size_t mark = olen; (void)mark; }
      {  /* build snapshot into a temporary */
         char *save; size_t pos = olen; oprintf("?");
         if (!strcmp(kind, "enc")) { oprintf(" "); enc_snap((OpusEncoder *)obj); }
         else if (!strcmp(kind, "dec")) { oprintf(" "); dec_snap((OpusDecoder *)obj); }
         else if (!strcmp(kind, "msenc") || !strcmp(kind, "mssur") || !strcmp(kind, "projenc")) {
            msobj m; m.kind = !strcmp(kind, "msenc") ? 0 : !strcmp(kind, "mssur") ? 1 : 2; m.obj = obj; m.nch = nch;
            m.nstreams = !strcmp(kind, "msenc") ? a : st;
            if (m.kind == 1) { oprintf(" %d %d ", st, cp); { int i; oprintf("x"); for (i = 0; i < nch; i++) oprintf("%02x", mapping[i]); } }
            if (m.kind == 2) oprintf(" %d %d", st, cp);
            oprintf(" "); ms_snap(&m);
         } else {
            int k, j; OpusDecoder *d;
            oprintf(" ");
            for (j = 0; j < N_DEC_GET; j++) {
               int rr;
               if (DEC_GET[j] == 4031) { opus_uint32 u = 0; rr = opus_multistream_decoder_ctl((OpusMSDecoder *)obj, DEC_GET[j], &u); if (rr == 0) oprintf("%u", u); }
               else { opus_int32 v = 0; rr = opus_multistream_decoder_ctl((OpusMSDecoder *)obj, DEC_GET[j], &v); if (rr == 0) oprintf("%d", v); }
               if (rr != 0) oprintf("%s", verr(rr));
               if (j + 1 < N_DEC_GET) oprintf(",");
            }
            for (k = 0; k < a; k++) { d = NULL; opus_multistream_decoder_ctl((OpusMSDecoder *)obj, OPUS_MULTISTREAM_GET_DECODER_STATE(k, &d)); oprintf(";"); dec_snap(d); }
         }
         v_track = 1;
         if (!strcmp(kind, "enc")) opus_encoder_destroy((OpusEncoder *)obj);
         else if (!strcmp(kind, "dec")) opus_decoder_destroy((OpusDecoder *)obj);
         else if (!strcmp(kind, "msdec")) opus_multistream_decoder_destroy((OpusMSDecoder *)obj);
         else if (!strcmp(kind, "projenc")) opus_projection_encoder_destroy((OpusProjectionEncoder *)obj);
         else opus_multistream_encoder_destroy((OpusMSEncoder *)obj);
         v_track = 0;
         live_after = v_live;
         save = obuf + pos; save[0] = (char)('0' + (live_after > 9 ? 9 : live_after));
      }
   }
   free(mp);
   oflush();
}

/* opus_encoder_init / opus_decoder_init on caller-provided memory (create repeats the argument check, so a check dropped
   from init alone is only visible here) */
static void init_one(int enc, int Fs, int nch, int app)
{
   int ret; void *mem = malloc(opus_encoder_get_size(2) + opus_decoder_get_size(2));
   if (enc) printf("I ctl create encinit %d %d %d\n", Fs, nch, app); else printf("I ctl create decinit %d %d\n", Fs, nch);
   fflush(stdout);
   ret = enc ? opus_encoder_init((OpusEncoder *)mem, Fs, nch, app) : opus_decoder_init((OpusDecoder *)mem, Fs, nch);
   printf("O %s\n", verr(ret));
   free(mem);
}

static void run_create(int level)
{
   static const int fsv[] = {8000, 12000, 16000, 24000, 48000, 0, -1, 7999, 8001, 11025, 22050, 32000, 44100, 47999, 48001, 96000, 192000, INT_MAX, INT_MIN};
   static const int chv[] = {1, 2, 0, -1, 3, 4, 255, 256, INT_MAX, INT_MIN};
   static const int appv[] = {2048, 2049, 2051, 2047, 2050, 2052, 0, -1, -1000, 2053, INT_MAX, INT_MIN};
   int i, j, k, f;
   for (i = 0; i < (int)(sizeof(fsv) / sizeof(int)); i++) for (j = 0; j < (int)(sizeof(chv) / sizeof(int)); j++) {
      for (k = 0; k < (int)(sizeof(appv) / sizeof(int)); k++) for (f = -1; f <= 1; f++) create_one("enc", fsv[i], chv[j], 0, 0, NULL, appv[k], f);
      for (f = -1; f <= 1; f++) create_one("dec", fsv[i], chv[j], 0, 0, NULL, 0, f);
      for (k = 0; k < (int)(sizeof(appv) / sizeof(int)); k++) init_one(1, fsv[i], chv[j], appv[k]);
      init_one(0, fsv[i], chv[j], 0);
   }
   {  /* multistream: argument grid x a few mappings */
      static const int nchv[] = {1, 2, 3, 4, 0, -1, 255, 256};
      static const int stv[] = {1, 2, 3, 0, -1, 128, 255, 256};
      static const int cpv[] = {0, 1, 2, -1, 127, 128, 255};
      static const unsigned char maps[6][256] = {{0, 1, 2, 3}, {0, 0, 0, 0}, {255, 255, 255, 255}, {3, 2, 1, 0}, {0, 1, 1, 5}, {1, 0, 254, 255}};
      unsigned char big[256]; int a, b, c, m;
      for (a = 0; a < 256; a++) big[a] = (unsigned char)(a % 3);
      for (a = 0; a < 8; a++) for (b = 0; b < 8; b++) for (c = 0; c < 7; c++) for (m = 0; m < 6; m++) {
         const unsigned char *mp = nchv[a] > 8 ? big : maps[m];
         if (nchv[a] > 8 && m > 0) continue;
         if (!level && ((a + b * 3 + c * 5 + m) % 3)) continue;
         for (f = -1; f <= 1; f++) {
            create_one("msenc", (m & 1) ? 48000 : 16000, nchv[a], stv[b], cpv[c], mp, 2049, f);
            create_one("msdec", (m & 1) ? 48000 : 16000, nchv[a], stv[b], cpv[c], mp, 0, f);
         }
      }
      create_one("msenc", 44100, 2, 1, 1, maps[0], 2049, -1);
      create_one("msenc", 48000, 2, 1, 1, maps[0], 2050, -1);
      create_one("msdec", 44100, 2, 1, 1, maps[0], 0, -1);
   }
   {  /* surround families and projection */
      static const int fam[] = {0, 1, 2, 3, 255, 254, -1};
      int nc;
      for (i = 0; i < 7; i++) for (nc = -1; nc <= 40; nc++) for (f = -1; f <= 1; f++) {
         if (!level && f == 1 && (nc % 3)) continue;
         create_one("mssur", 48000, nc, fam[i], 0, NULL, 2049, f);
         if (fam[i] == 3 || fam[i] == 2 || nc < 3) create_one("projenc", 48000, nc, fam[i], 0, NULL, 2049, f);
      }
      /* every channel count up to 255 (and just beyond) for every family: the acceptance tables of
         create_rejects_surround / create_rejects_projection on the implementation */
      for (i = 0; i < 7; i++) for (nc = 41; nc <= 257; nc++) {
         if (!level && !(nc % 8 == 0 || nc == 49 || nc == 51 || nc == 64 || nc == 66 || nc == 225 || nc == 227 || nc == 255)) continue;
         if (fam[i] == 3 || level || nc >= 225) create_one("projenc", 48000, nc, fam[i], 0, NULL, 2049, -1);
         if (fam[i] != 255 || level || nc % 32 == 0 || nc >= 255) create_one("mssur", 48000, nc, fam[i], 0, NULL, 2049, -1);
      }
      create_one("mssur", 48000, 255, 255, 0, NULL, 2049, -1);
      create_one("mssur", 48000, 256, 255, 0, NULL, 2049, -1);
      create_one("mssur", 48000, 227, 2, 0, NULL, 2049, -1);
      create_one("mssur", 8000, 6, 1, 0, NULL, 2048, -1);
      create_one("mssur", 8001, 6, 1, 0, NULL, 2048, -1);
      create_one("mssur", 48000, 6, 1, 0, NULL, 7, -1);
      create_one("projenc", 44100, 4, 3, 0, NULL, 2049, -1);
      create_one("projenc", 48000, 4, 3, 0, NULL, 2050, -1);
      create_one("projenc", 48000, 227, 3, 0, NULL, 2049, -1);
   }
}

/* ------------------------------------------------------------------ gen_toc / frame_size_select */
static int toc_period(int fr) { int p = 0; while (fr < 400) { fr <<= 1; p++; } return p; }
static void run_funcs(void)
{
   int mode, fr, bw, ch, i, j, k;
   for (mode = 1000; mode <= 1002; mode++) for (fr = 1; fr <= 500; fr++) for (bw = 1101; bw <= 1105; bw++) for (ch = 0; ch <= 3; ch++) {
      int p = toc_period(fr), dom;
      if (mode == 1000) dom = bw <= 1103 && p >= 2 && p <= 5;
      else if (mode == 1002) dom = p <= 3;
      else dom = bw >= 1104 && p >= 2 && p <= 3;
      if (!dom) continue;
      printf("I ctl toc %d %d %d %d\n", mode, fr, bw, ch);
      printf("O %d\n", gen_toc(mode, fr, bw, ch));
   }
   {
      static const int vd[] = {5000, 5001, 5002, 5003, 5004, 5005, 5006, 5007, 5008, 5009, 4999, 5010, 0, -1000, -1, INT_MAX, INT_MIN};
      for (i = 0; i < 5; i++) for (j = 0; j < 17; j++) {
         int Fs = FSS[i];
         for (k = -2; k <= 7 * Fs / 50 + 2; k++) {
            /* every multiple of 2.5 ms with neighbours, plus a sparse sweep */
            int near = 0, m; for (m = 0; m <= 56; m++) if (abs(k - m * Fs / 400) <= 1) near = 1;
            if (!near && (k % 97)) continue;
            printf("I ctl fss %d %d %d\n", k, vd[j], Fs);
            printf("O %d\n", frame_size_select(k, vd[j], Fs));
         }
         /* (frame sizes above INT_MAX/400 are the corpus cases of mode fssbig) */
         printf("I ctl fss %d %d %d\n", 5000000, vd[j], Fs); printf("O %d\n", frame_size_select(5000000, vd[j], Fs));
         printf("I ctl fss %d %d %d\n", INT_MIN, vd[j], Fs); printf("O %d\n", frame_size_select(INT_MIN, vd[j], Fs));
      }
   }
}

/* corpus (defect D4, fixed by 212cbc41): frame sizes around INT_MAX/400 and the values for which 400*frame_size wraps
   onto Fs; each case is flushed before the call so that a sanitizer report becomes the answer of that case */
static void run_fssbig(void)
{
   int i, j, k;
   static const int vd[] = {5000, 5001, 5005, 5009};
   for (i = 0; i < 5; i++) for (j = 0; j < 4; j++) {
      int Fs = FSS[i];
      int big[10]; int nb = 0;
      big[nb++] = 5368709; big[nb++] = 5368710; big[nb++] = Fs / 400 + (1 << 28); big[nb++] = Fs / 50 + (1 << 28);
      big[nb++] = 10737418; big[nb++] = 42949673; big[nb++] = 85899346; big[nb++] = INT_MAX - 1; big[nb++] = INT_MAX;
      big[nb++] = 6 * Fs / 50 + 1;
      for (k = 0; k < nb; k++) {
         printf("I ctl fss %d %d %d\n", big[k], vd[j], Fs); fflush(stdout);
         printf("O %d\n", frame_size_select(big[k], vd[j], Fs)); fflush(stdout);
      }
   }
}

/* ------------------------------------------------------------------ honour */
static void run_honour(uint64_t seed, long cases)
{
   vrng r; long cidx; static unsigned char out[8000]; static opus_int16 pcm[5770 * 2]; static opus_int32 p24[5770 * 2]; static float pf[5770 * 2];
   r.s = seed * 0xD1342543DE82EF95ULL + 5;
   for (cidx = 0; cidx < cases; cidx++) {
      int Fs = FSS[vbelow(&r, 5)], ch = vrange(&r, 1, 2), app = APPS[vbelow(&r, 3)];
      int err, i, nframes, k = 0, f2 = 0, fsz, bytes, nsets = 0, sig, efmt;
      int sid[24], sval[24];
      OpusEncoder *st;
#define ADD(id, v) do { sid[nsets] = (id); sval[nsets] = (v); nsets++; } while (0)
      if (vchance(&r, 75)) { int br = vbelow(&r, 10); ADD(4002, br == 0 ? -1 : br == 1 ? 500 : br == 2 ? 510000 : br < 6 ? vrange(&r, 5000, 40000) : vrange(&r, 6000, 200000)); }
      if (vchance(&r, 30)) ADD(4006, vbelow(&r, 2));
      if (vchance(&r, 20)) ADD(4020, vbelow(&r, 2));
      if (vchance(&r, 50)) ADD(4010, vrange(&r, 0, 10));
      if (vchance(&r, 55)) ADD(4008, vchance(&r, 10) ? -1000 : vrange(&r, 1101, 1105));
      if (vchance(&r, 55)) ADD(4004, vrange(&r, 1101, 1105));
      if (ch == 2 && vchance(&r, 55)) ADD(4022, vchance(&r, 10) ? -1000 : vrange(&r, 1, 2));
      if (vchance(&r, 40)) ADD(4024, vchance(&r, 50) ? 3001 : 3002);
      if (vchance(&r, 25)) ADD(4012, vrange(&r, 0, 2));
      if (vchance(&r, 25)) ADD(4014, vchance(&r, 50) ? vrange(&r, 0, 30) : vrange(&r, 0, 100));
      if (vchance(&r, 25)) ADD(4016, vbelow(&r, 2));
      if (vchance(&r, 15)) ADD(4036, vrange(&r, 8, 24));
      if (vchance(&r, 10)) ADD(4042, vbelow(&r, 2));
      if (vchance(&r, 25)) ADD(11002, vrange(&r, 1000, 1002));
      if (vchance(&r, 5)) ADD(10024, 1);
      if (vchance(&r, 10)) ADD(11018, vrange(&r, -1, 100));
      if (vchance(&r, 35)) ADD(4040, vrange(&r, 5000, 5009));
      {  static const int num[9] = {1, 2, 4, 8, 16, 24, 32, 40, 48};
         fsz = Fs / 400 * num[vchance(&r, 60) ? vbelow(&r, 5) : vbelow(&r, 9)];
         if (vchance(&r, 3)) fsz += 1;
         /* a fixed OPUS_SET_EXPERT_FRAME_DURATION with MORE samples supplied than it needs: the packet must last the
            fixed duration, not the buffer */
         if (nsets && sid[nsets - 1] == 4040 && sval[nsets - 1] != 5000 && vchance(&r, 60)) {
            int d = Fs / 400 * num[sval[nsets - 1] - 5001];
            fsz = vchance(&r, 50) ? d * (1 + (int)vbelow(&r, 3)) : d + (int)vbelow(&r, 2 * Fs / 100);
            if (fsz > 5760) fsz = 5760; } }
      { static const int b[] = {1, 2, 3, 4, 8, 20, 40, 100, 300, 1275, 1276, 4000}; bytes = vchance(&r, 55) ? 1276 : b[vbelow(&r, 12)]; }
      nframes = vrange(&r, 3, fsz > Fs / 25 ? 5 : 9);
      sig = vbelow(&r, 5); efmt = vbelow(&r, 3);
      if (ch == 2 && vchance(&r, 35)) { k = vrange(&r, 1, nframes - 1); f2 = vchance(&r, 70) ? 1 : vchance(&r, 70) ? 2 : -1000; }
      printf("I ctl honour %d %d %d ", Fs, ch, app);
      if (!nsets) printf("-"); for (i = 0; i < nsets; i++) printf("%s%d:%d", i ? "," : "", sid[i], sval[i]);
      printf(" %d %d %d ", fsz, bytes, k);
      if (f2) printf("4022:%d", f2); else printf("-");
      fflush(stdout);
      st = opus_encoder_create(Fs, ch, app, &err);
      for (i = 0; i < nsets; i++) if (opus_encoder_ctl(st, sid[i], (opus_int32)sval[i]) != OPUS_OK) { printf(" SETFAIL%d", sid[i]); }
      for (i = 0; i < nframes; i++) {
         int ret; int s = (sig == 4) ? (int)vbelow(&r, 4) : sig;
         if (f2 && i == k) opus_encoder_ctl(st, OPUS_SET_FORCE_CHANNELS(f2));
         if (i >= 2 && sig == 3 && vchance(&r, 50)) s = 0;    /* speech-like bursts with pauses */
         gen_pcm(&r, pcm, fsz <= 5760 ? fsz : 5760, ch, s);
         {  /* entry point by case: 16-bit, 24-bit, float */
            int n = (fsz <= 5760 ? fsz : 5760) * ch, j;
            if (efmt == 0) ret = opus_encode(st, pcm, fsz, out, bytes);
            else if (efmt == 1) { for (j = 0; j < n; j++) p24[j] = (opus_int32)pcm[j] * 256; ret = opus_encode24(st, p24, fsz, out, bytes); }
            else { for (j = 0; j < n; j++) pf[j] = pcm[j] * (1.f / 32768.f); ret = opus_encode_float(st, pf, fsz, out, bytes); }
         }
         if (ret < 0) printf(" e%d:0:0", ret);
         else printf(" %d:%d:%d", ret, out[0], ret > 1 ? out[1] : -1);
         fflush(stdout);
      }
      opus_encoder_destroy(st);
      printf("\nO OK\n");
   }
}

/* Deterministic corpus case (defect repaired by 88264869): OPUS_SET_FORCE_CHANNELS(1) in the middle of a
   SILK-DTX silence run on a stereo encoder; before the repair every other packet stayed a coded stereo packet. */
static void run_honourdtx(void)
{
   int sw;
   for (sw = 41; sw <= 59; sw += 6) {
      int err, i, j, Fs = 16000, N = 320; unsigned s = 1; static opus_int16 pcm[320 * 2]; static unsigned char out[1500];
      OpusEncoder *e = opus_encoder_create(Fs, 2, OPUS_APPLICATION_VOIP, &err);
      printf("I ctl honour %d 2 2048 4016:1,4010:5,4002:24000,4008:1103,4022:2 %d 1500 %d 4022:1", Fs, N, sw); fflush(stdout);
      opus_encoder_ctl(e, OPUS_SET_DTX(1)); opus_encoder_ctl(e, OPUS_SET_COMPLEXITY(5)); opus_encoder_ctl(e, OPUS_SET_BITRATE(24000));
      opus_encoder_ctl(e, OPUS_SET_BANDWIDTH(OPUS_BANDWIDTH_WIDEBAND)); opus_encoder_ctl(e, OPUS_SET_FORCE_CHANNELS(2));
      for (i = 0; i < 110; i++) {
         int loud = i < 30 || i >= 100, ret;
         for (j = 0; j < N; j++) {
            int nz; double v;
            s = s * 1103515245u + 12345u; nz = (int)((s >> 16) % 7) - 3;
            v = loud ? 9000 * sin(0.05 * j * (1 + 0.3 * sin(i * 0.7))) * (0.5 + 0.5 * sin(0.01 * j)) : 0;
            pcm[2 * j] = (opus_int16)(v + nz); pcm[2 * j + 1] = (opus_int16)(0.7 * v - nz);
         }
         if (i == sw) opus_encoder_ctl(e, OPUS_SET_FORCE_CHANNELS(1));
         ret = opus_encode(e, pcm, N, out, 1500);
         if (ret < 0) printf(" e%d:0:0", ret); else printf(" %d:%d:%d", ret, out[0], ret > 1 ? out[1] : -1);
      }
      opus_encoder_destroy(e);
      printf("\nO OK\n");
   }
}

/* ------------------------------------------------------------------ replay of history lines (stdin), used to shrink witnesses */
/* ------------------------------------------------------------------ SILK internal rate */
/* silk_control_audio_bandwidth on constructed states: every field it reads is set, everything else zero */
static void run_silkbw(uint64_t seed, long cases)
{
   static const int KHZ[4] = {0, 8, 12, 16}; static const int HZ[3] = {8000, 12000, 16000};
   vrng r; long c; r.s = seed * 0x9E3779B97F4A7C15ULL + 77;
   for (c = 0; c < cases; c++) {
      static silk_encoder_state S; silk_EncControlStruct C; int ret;
      memset(&S, 0, sizeof(S)); memset(&C, 0, sizeof(C));
      S.fs_kHz = KHZ[vbelow(&r, 4)];
      S.sLP.saved_fs_kHz = vchance(&r, 60) ? 0 : KHZ[vbelow(&r, 4)];
      S.sLP.mode = vchance(&r, 80) ? vrange(&r, -2, 1) : vrange(&r, -4, 4);
      S.sLP.transition_frame_no = vchance(&r, 40) ? (vchance(&r, 50) ? 0 : TRANSITION_FRAMES) : vrange(&r, -3, TRANSITION_FRAMES + 3);
      S.API_fs_Hz = FSS[vbelow(&r, 5)];
      S.desiredInternal_fs_Hz = HZ[vbelow(&r, 3)]; S.maxInternal_fs_Hz = HZ[vbelow(&r, 3)]; S.minInternal_fs_Hz = HZ[vbelow(&r, 3)];
      if (vchance(&r, 70) && S.minInternal_fs_Hz > S.maxInternal_fs_Hz) S.minInternal_fs_Hz = 8000;
      S.allow_bandwidth_switch = vchance(&r, 50); C.opusCanSwitch = vchance(&r, 40);
      C.maxBits = 1000 + (int)vbelow(&r, 9000); C.payloadSize_ms = 20; C.switchReady = 0;
      printf("I ctl silkbw %d %d %d %d %d %d %d %d %d %d\n", S.fs_kHz, S.sLP.saved_fs_kHz, S.sLP.mode, S.sLP.transition_frame_no,
             S.API_fs_Hz, S.desiredInternal_fs_Hz, S.maxInternal_fs_Hz, S.minInternal_fs_Hz, S.allow_bandwidth_switch, C.opusCanSwitch);
      fflush(stdout);
      ret = __real_silk_control_audio_bandwidth(&S, &C);
      printf("O %d %d %d %d\n", ret, S.sLP.mode, S.sLP.transition_frame_no, C.switchReady != 0);
   }
}

static void silk_emit(int Fs)
{
   int i, k;
   if (nbw == 0) return;
   printf("I ctl silkbwseq %d", Fs);
   for (i = 0; i < nbw; i++) { printf(" "); for (k = 0; k < 17; k++) printf(k ? ",%d" : "%d", bwlog[i].v[k]); }
   printf("\nO ok %d\n", nbw); fflush(stdout);
}

/* SILK-heavy histories on the real encoder: SILK-only / hybrid forced or chosen by rate, bandwidth limits moved up and
   down mid-stream, long quiet stretches (bandwidth switches need low speech activity and up to 128 frames), tiny byte
   budgets (effective_max_rate < 8000 / 7000), mode switches through CELT (prefill), resets, mono <-> stereo */
static void run_silkenc(uint64_t seed, long cases)
{
   vrng r; long c; static unsigned char out[1500]; r.s = seed * 0x9E3779B97F4A7C15ULL + 99;
   for (c = 0; c < cases; c++) {
      int Fs = FSS[vbelow(&r, 5)], ch = 1 + (int)vbelow(&r, 2), app = vchance(&r, 70) ? 2048 : 2049, err = 0;
      int nops = 30 + (int)vbelow(&r, vchance(&r, 30) ? 400 : 80), i, sig = (int)vbelow(&r, 5), ms = vchance(&r, 75) ? 20 : (vchance(&r, 50) ? 10 : (vchance(&r, 50) ? 40 : 60));
      int small = 0;
      OpusEncoder *st = opus_encoder_create(Fs, ch, app, &err);
      opus_int16 *pcm;
      if (!st) continue;
      pcm = (opus_int16 *)calloc((size_t)Fs * 3 / 50 * ch + 16, sizeof(opus_int16));
      opus_encoder_ctl(st, OPUS_SET_COMPLEXITY(vchance(&r, 80) ? 0 : (int)vbelow(&r, 11)));
      if (vchance(&r, 80)) opus_encoder_ctl(st, OPUS_SET_FORCE_MODE(vchance(&r, 80) ? MODE_SILK_ONLY : MODE_HYBRID));
      opus_encoder_ctl(st, OPUS_SET_BITRATE(vchance(&r, 50) ? vrange(&r, 5000, 16000) : vrange(&r, 16000, 64000)));
      if (vchance(&r, 30)) opus_encoder_ctl(st, OPUS_SET_VBR(0));
      if (vchance(&r, 50)) opus_encoder_ctl(st, OPUS_SET_BANDWIDTH(vrange(&r, 1101, 1105)));
      nbw = 0; bw_enc = st;
      for (i = 0; i < nops; i++) {
         if (vchance(&r, 90)) {
            int fsz = Fs / 1000 * ms, bytes = small ? vrange(&r, 8, 24) : 1276;
            vrng pr; pr.s = vnext(&r);
            gen_pcm(&pr, pcm, fsz, ch, sig);
            opus_encode(st, pcm, fsz, out, bytes);
            continue;
         }
         switch (vbelow(&r, 12)) {
         case 0: case 1: opus_encoder_ctl(st, OPUS_SET_BANDWIDTH(vchance(&r, 15) ? OPUS_AUTO : vrange(&r, 1101, 1105))); break;
         case 2: opus_encoder_ctl(st, OPUS_SET_MAX_BANDWIDTH(vrange(&r, 1101, 1105))); break;
         case 3: opus_encoder_ctl(st, OPUS_SET_BITRATE(vchance(&r, 50) ? vrange(&r, 5000, 14000) : vrange(&r, 14000, 80000))); break;
         case 4: sig = vchance(&r, 60) ? 0 : (int)vbelow(&r, 5); break;
         case 5: small = !small; break;
         case 6: opus_encoder_ctl(st, OPUS_SET_FORCE_CHANNELS(vchance(&r, 40) ? OPUS_AUTO : vrange(&r, 1, ch))); break;
         case 7: if (vchance(&r, 40)) { static const int M[4] = {MODE_SILK_ONLY, MODE_HYBRID, MODE_CELT_ONLY, OPUS_AUTO};
                                         opus_encoder_ctl(st, OPUS_SET_FORCE_MODE(M[vbelow(&r, 4)])); } break;
         case 8: if (vchance(&r, 25)) opus_encoder_ctl(st, OPUS_RESET_STATE); break;
         case 9: opus_encoder_ctl(st, OPUS_SET_DTX(vchance(&r, 50))); break;
         case 10: if (vchance(&r, 30)) ms = vchance(&r, 60) ? 20 : (vchance(&r, 50) ? 10 : (vchance(&r, 50) ? 40 : 60)); break;
         default: opus_encoder_ctl(st, OPUS_SET_INBAND_FEC(vrange(&r, 0, 2))); opus_encoder_ctl(st, OPUS_SET_PACKET_LOSS_PERC(vrange(&r, 0, 30))); break;
         }
      }
      bw_enc = NULL;
      silk_emit(Fs);
      free(pcm);
      opus_encoder_destroy(st);
   }
}

static int hexmap(const char *h, unsigned char *out)
{ int n = 0; if (*h == 'x') h++; while (h[0] && h[1]) { unsigned v; sscanf(h, "%2x", &v); out[n++] = (unsigned char)v; h += 2; } return n; }
static void run_lines(void)
{
   static char line[1 << 20]; static vop ops[4096]; static msop mops[4096];
   while (fgets(line, sizeof line, stdin)) {
      char *tok[4200]; int nt = 0, i, n = 0, first, ms; char *p = strtok(line, " \r\n"); vrng r; r.s = 1;
      while (p && nt < 4200) { tok[nt++] = p; p = strtok(NULL, " \r\n"); }
      i = (nt && !strcmp(tok[0], "I")) ? 1 : 0;
      if (nt - i < 3 || strcmp(tok[i], "ctl")) continue;
      ms = !strcmp(tok[i + 1], "msenc") || !strcmp(tok[i + 1], "mssur") || !strcmp(tok[i + 1], "projenc");
      if (!ms && strcmp(tok[i + 1], "enc")) continue;
      first = i + (!strcmp(tok[i + 1], "enc") ? 5 : !strcmp(tok[i + 1], "msenc") ? 8 : !strcmp(tok[i + 1], "mssur") ? 6 : 5);
      if (first > nt) continue;
      for (int k = first; k < nt && n < 4000; k++) {
         char *t = tok[k]; char kind = t[0]; long a = 0, b = 0; char *c = strchr(t, ':');
         if (k == first && !strcmp(t, "g4029")) continue;          /* every history prints its initial getter itself */
         a = strtol(t + 1, NULL, 10); if (c) b = strtol(c + 1, NULL, 10);
         memset(&ops[n], 0, sizeof ops[n]); memset(&mops[n], 0, sizeof mops[n]);
         ops[n].kind = mops[n].kind = kind;
         if (kind == 's') { ops[n].id = mops[n].id = (int)a; ops[n].v = mops[n].v = (int)b; }
         else if (kind == 'g' || kind == 'n' || kind == 'u') ops[n].id = mops[n].id = (int)a;
         else if (kind == 'm' || kind == 'c') ops[n].v = (int)a;
         else if (kind == 'x') { mops[n].v = (int)a; mops[n].p = (int)b; }
         else if (kind == 'q' || kind == 'a') mops[n].p = (int)a;
         else if (kind == 't') { mops[n].p = (int)a; mops[n].v = (int)b; }
         else if (kind == 'E') {
            /* E<fsz>:<bytes>:…:<sig>:<pseed> (the last two fields); a bare E<fsz>:<bytes> uses signal 3, seed 1 */
            char *f[64]; int nf = 0; char *q = t + 1; f[nf++] = q; while ((q = strchr(q, ':')) && nf < 64) { *q++ = 0; f[nf++] = q; }
            ops[n].fsz = mops[n].fsz = atoi(f[0]); ops[n].bytes = mops[n].bytes = nf > 1 ? atoi(f[1]) : 1276;
            if (ms) { ops[n].sig = mops[n].sig = nf > 3 ? atoi(f[nf - 2]) : 3; ops[n].v = mops[n].v = nf > 3 ? atoi(f[nf - 1]) : 1; }
            else { ops[n].sig = nf > 4 ? atoi(f[nf - 3]) : 3; ops[n].v = nf > 4 ? atoi(f[nf - 2]) : 1; ops[n].fmt = nf > 4 ? atoi(f[nf - 1]) + 1 : 1; }
         } else if (kind != 'r') continue;
         n++;
      }
      if (!ms) enc_run(atoi(tok[i + 2]), atoi(tok[i + 3]), atoi(tok[i + 4]), ops, n, &r);
      else if (!strcmp(tok[i + 1], "msenc")) { unsigned char map[256]; hexmap(tok[i + 6], map);
         msenc_run(atoi(tok[i + 2]), atoi(tok[i + 3]), atoi(tok[i + 4]), atoi(tok[i + 5]), map, atoi(tok[i + 7]), mops, n, &r); }
      else if (!strcmp(tok[i + 1], "mssur")) mssur_run(atoi(tok[i + 2]), atoi(tok[i + 3]), atoi(tok[i + 4]), atoi(tok[i + 5]), mops, n, &r);
      else proj_run(atoi(tok[i + 2]), atoi(tok[i + 3]), atoi(tok[i + 4]), mops, n, &r);
      fflush(stdout);
   }
}

int main(int argc, char **argv)
{
   vinstall_traps();
   make_packets();
   if (argc >= 3 && !strcmp(argv[1], "grid")) run_grid(atoi(argv[2]));
   else if (argc >= 4 && !strcmp(argv[1], "rand")) run_rand(strtoull(argv[2], 0, 10), atol(argv[3]));
   else if (argc >= 2 && !strcmp(argv[1], "forceauto")) run_forceauto();
   else if (argc >= 2 && !strcmp(argv[1], "fssbig")) run_fssbig();
   else if (argc >= 2 && !strcmp(argv[1], "msapp")) run_msapp();
   else if (argc >= 2 && !strcmp(argv[1], "stdin")) run_lines();
   else if (argc >= 4 && !strcmp(argv[1], "msstarve")) run_msstarve(strtoull(argv[2], 0, 10), atol(argv[3]));
   else if (argc >= 4 && !strcmp(argv[1], "reapp")) run_reapp(strtoull(argv[2], 0, 10), atol(argv[3]));
   else if (argc >= 4 && !strcmp(argv[1], "chain")) run_chain(strtoull(argv[2], 0, 10), atol(argv[3]));
   else if (argc >= 3 && !strcmp(argv[1], "create")) run_create(atoi(argv[2]));
   else if (argc >= 2 && !strcmp(argv[1], "funcs")) run_funcs();
   else if (argc >= 2 && !strcmp(argv[1], "honourdtx")) run_honourdtx();
   else if (argc >= 3 && !strcmp(argv[1], "probe")) {
      /* the two recorded read-back deviations (known findings), one history each */
      vrng r; r.s = 7;
      if (!strcmp(argv[2], "enc")) { static vop o[1]; o[0].kind = 's'; o[0].id = 4008; o[0].v = 1101; enc_run(48000, 2, 2049, o, 1, &r); }
      else { static msop o[1]; static const unsigned char map[3] = {0, 1, 2}; o[0].kind = 's'; o[0].id = 4002; o[0].v = 64000;
             msenc_run(48000, 3, 2, 1, map, 2049, o, 1, &r); }
   }
   else if (argc >= 4 && !strcmp(argv[1], "silkbw")) run_silkbw(strtoull(argv[2], 0, 10), atol(argv[3]));
   else if (argc >= 4 && !strcmp(argv[1], "silkenc")) run_silkenc(strtoull(argv[2], 0, 10), atol(argv[3]));
   else if (argc >= 4 && !strcmp(argv[1], "honour")) run_honour(strtoull(argv[2], 0, 10), atol(argv[3]));
   else { fprintf(stderr, "usage: c11_ctl grid <level> | rand <seed> <n> | create <level> | funcs | honour <seed> <n>\n"); return 64; }
   fflush(stdout);
   return 0;
}
