/* c18_stereoenc.c — property C18, slice Stereo, encoder side: the integer code that PRODUCES the pair handed to
   silk_stereo_quant_pred (silk/stereo_find_predictor.c, silk/stereo_LR_to_MS.c) and silk_stereo_encode_mid_only, against
   OpusModel/SilkStereoEnc.lean (driver suite `silkparams`).  silk/stereo_LR_to_MS.c is compiled INTO this harness with
   its two callees renamed to recording wrappers, so that the values flowing inside the real function are observed.

      find <seed> <n>     direct calls of the library's silk_stereo_find_predictor on random / extreme / correlated int16
                          vectors; the results of its sample loops are obtained with the library's silk_sum_sqr_shift and
                          silk_inner_prod_aligned_scale:
                          I silkparams stereo-findpred <nrgx> <scale1> <nrgy> <scale2> <corr> <amp0> <amp1> <smooth_coef>
                          O OK <pred_Q13> <ratio_Q14> <mid_res_amp_Q0[0]> <mid_res_amp_Q0[1]>
      lr <seed> <n>       <n> sequences of consecutive silk_stereo_LR_to_MS calls on synthetic stereo signals (panning,
                          phase inversion, silence, one silent channel, clipping, independent noise), fs 8/12/16 kHz,
                          10/20 ms, total rate 6..64 kb/s, random speech activity, occasional toMono; per call
                          I silkparams stereo-lrpreds <smth> <width_prev> <rate> <fs> <is10> <act> <toMono> <p0> <LP_ratio> <p1> <HP_ratio>
                          O OK <pair handed to silk_stereo_quant_pred> <smth_width_Q14 after> <width_prev_Q14 after>
                          (the line is printed after the call: four of its fields are produced inside it).
                          `W bound …` when a recorded value leaves the proved range [-32768, 32768]; `S …` statistics.
      midonly             silk_stereo_encode_mid_only -> ec_enc_done -> silk_stereo_decode_mid_only, flags 0/1, sizes 2..9:
                          I silkparams stereo-midonly <flag> <size>      O OK x<bytes> <enc error> <decoded flag> */
#include "vcommon.h"
#define silk_stereo_quant_pred      vrec_quant_pred
#define silk_stereo_find_predictor  vrec_find_predictor
#define silk_stereo_LR_to_MS        vlocal_stereo_LR_to_MS
#include "stereo_LR_to_MS.c"
#undef silk_stereo_quant_pred
#undef silk_stereo_find_predictor
#undef silk_stereo_LR_to_MS

void silk_stereo_quant_pred(opus_int32 pred_Q13[], opus_int8 ix[2][3]);
opus_int32 silk_stereo_find_predictor(opus_int32 *ratio_Q14, const opus_int16 x[], const opus_int16 y[],
                                      opus_int32 mid_res_amp_Q0[], opus_int length, opus_int smooth_coef_Q16);

static int lr_search = 0;   /* `lr <seed> <n> search`: only the W / S lines (implementation-only search) */
static opus_int32 rec_find[2][2], rec_q[2];
static int n_find = 0, n_q = 0;

void vrec_quant_pred(opus_int32 pred_Q13[], opus_int8 ix[2][3])
{
   rec_q[0] = pred_Q13[0]; rec_q[1] = pred_Q13[1]; n_q++;
   silk_stereo_quant_pred(pred_Q13, ix);
}
opus_int32 vrec_find_predictor(opus_int32 *ratio_Q14, const opus_int16 x[], const opus_int16 y[],
                               opus_int32 mid_res_amp_Q0[], opus_int length, opus_int smooth_coef_Q16)
{
   opus_int32 p = silk_stereo_find_predictor(ratio_Q14, x, y, mid_res_amp_Q0, length, smooth_coef_Q16);
   if (n_find < 2) { rec_find[n_find][0] = p; rec_find[n_find][1] = *ratio_Q14; }
   n_find++;
   return p;
}

static opus_int16 sat16(int v) { return (opus_int16)(v > 32767 ? 32767 : v < -32768 ? -32768 : v); }

static void fill_vec(vrng *r, opus_int16 *x, opus_int16 *y, int len, int cls)
{
   int i, a = vrange(r, -40000, 40000), amp = 1 << vrange(r, 0, 15);
   for (i = 0; i < len; i++) {
      int xv = vrange(r, -amp, amp), nz = vrange(r, -(amp >> vrange(r, 0, 8)), amp >> vrange(r, 0, 8));
      switch (cls) {
      case 0: x[i] = sat16(xv); y[i] = sat16(vrange(r, -amp, amp)); break;                  /* independent */
      case 1: x[i] = sat16(xv); y[i] = sat16((int)(((int64_t)a * xv) >> 14) + nz); break;   /* y = a*x + noise */
      case 2: x[i] = (opus_int16)((i & 1) ? 32767 : -32768); y[i] = (opus_int16)((i & 2) ? -32768 : 32767); break;
      case 3: x[i] = 32767; y[i] = -32768; break;
      case 4: x[i] = 0; y[i] = sat16(xv); break;                                             /* zero basis */
      case 5: x[i] = sat16(vrange(r, -1, 1)); y[i] = sat16(xv); break;                       /* tiny basis, large target */
      case 6: x[i] = -32768; y[i] = -32768; break;
      default: x[i] = sat16(xv); y[i] = x[i]; break;
      }
   }
}

static void do_find(uint64_t seed, long n)
{
   vrng r; long t; long hist[3] = { 0, 0, 0 };
   r.s = seed * 0x9E3779B97F4A7C15ULL + 71;
   for (t = 0; t < n; t++) {
      static const int lens[] = { 80, 120, 160, 240, 320, 1, 2, 7, 33 };
      int len = lens[vbelow(&r, 9)], cls = (int)vbelow(&r, 8), scale1, scale2, scale, coef;
      opus_int16 *x = (opus_int16 *)malloc(len * sizeof(opus_int16)), *y = (opus_int16 *)malloc(len * sizeof(opus_int16));
      opus_int32 nrgx, nrgy, corr, amp[2], ratio, p;
      fill_vec(&r, x, y, len, cls);
      amp[0] = vchance(&r, 20) ? 0 : (opus_int32)vbelow(&r, 1u << vrange(&r, 1, 22));
      amp[1] = vchance(&r, 20) ? 0 : (opus_int32)vbelow(&r, 1u << vrange(&r, 1, 22));
      coef = vchance(&r, 30) ? vrange(&r, 0, 655) : vchance(&r, 50) ? 0 : 655;
      silk_sum_sqr_shift(&nrgx, &scale1, x, len);
      silk_sum_sqr_shift(&nrgy, &scale2, y, len);
      scale = silk_max_int(scale1, scale2); scale = scale + (scale & 1);
      corr = silk_inner_prod_aligned_scale(x, y, scale, len);
      printf("I silkparams stereo-findpred %d %d %d %d %d %d %d %d\n", nrgx, scale1, nrgy, scale2, corr, amp[0], amp[1], coef);
      fflush(stdout);
      p = silk_stereo_find_predictor(&ratio, x, y, amp, len, coef);
      printf("O OK %d %d %d %d\n", p, ratio, amp[0], amp[1]);
      hist[p == 16384 || p == -16384 ? 2 : p == 0 ? 0 : 1]++;
      free(x); free(y);
   }
   printf("# dist find: cases=%ld pred==0:%ld limited(+-16384):%ld other:%ld\n", n, hist[0], hist[2], hist[1]);
}

static void do_lr(uint64_t seed, long nseq)
{
   vrng r; long s, calls = 0, nw = 0, scaled = 0, full = 0, zero = 0; opus_int32 maxabs = 0; int minsm = 32767, maxsm = -32768;
   r.s = seed * 0x9E3779B97F4A7C15ULL + 97;
   for (s = 0; s < nseq; s++) {
      static const int fss[] = { 8, 12, 16 };
      int fs = fss[vbelow(&r, 3)], is10 = vchance(&r, 25), len = (is10 ? 10 : 20) * fs, cls = (int)vbelow(&r, 8), k, i;
      int nfr = vrange(&r, 2, 8), rate = vrange(&r, 6000, 64000), pan = vrange(&r, 0, 16384), amp = 1 << vrange(&r, 4, 15);
      stereo_enc_state st; memset(&st, 0, sizeof(st));
      /* half of the sequences start from the reset state, the others from a state as a longer run leaves it (smoothed
         width anywhere in [0, 2^14]); one in ten from an ARBITRARY opus_int16 width (the bound is proved for any state) */
      if (vchance(&r, 50)) {
         st.smth_width_Q14 = (opus_int16)(vchance(&r, 20) ? vrange(&r, -32768, 32767) : vchance(&r, 30) ? 16384 : vrange(&r, 0, 16384));
         st.width_prev_Q14 = (opus_int16)(vchance(&r, 30) ? 0 : vchance(&r, 50) ? 16384 : vrange(&r, 0, 16384));
         st.pred_prev_Q13[0] = (opus_int16)vrange(&r, -13364, 13362); st.pred_prev_Q13[1] = (opus_int16)vrange(&r, -13364, 13362);
      }
      for (k = 0; k < nfr; k++) {
         opus_int16 *b1 = (opus_int16 *)calloc(len + 2, sizeof(opus_int16)), *b2 = (opus_int16 *)calloc(len + 2, sizeof(opus_int16));
         opus_int8 ix[2][3], mid_only = 0; opus_int32 rates[2]; int act = vchance(&r, 15) ? 0 : vrange(&r, 0, 255), toMono = vchance(&r, 6);
         int smth0 = st.smth_width_Q14, wprev0 = st.width_prev_Q14;
         if (vchance(&r, 30)) rate = vrange(&r, 6000, 64000);
         for (i = 0; i < len + 2; i++) {
            int m = vrange(&r, -amp, amp), sd = vrange(&r, -amp, amp);
            switch (cls) {
            case 0: b1[i] = sat16(m); b2[i] = sat16(sd); break;                                    /* independent */
            case 1: b1[i] = sat16((m * pan) >> 14); b2[i] = sat16((m * (16384 - pan)) >> 14); break; /* amplitude panned */
            case 2: b1[i] = sat16(m); b2[i] = sat16(-m); break;                                    /* phase inverted */
            case 3: b1[i] = 0; b2[i] = 0; break;                                                   /* silence */
            case 4: b1[i] = sat16(m); b2[i] = 0; break;                                            /* one silent channel */
            case 5: b1[i] = (opus_int16)(m > 0 ? 32767 : -32768); b2[i] = (opus_int16)(sd > 0 ? 32767 : -32768); break; /* clipping */
            case 6: b1[i] = sat16(m); b2[i] = sat16(m + (sd >> 6)); break;                         /* nearly mono */
            default: b1[i] = sat16(m); b2[i] = sat16((k & 1) ? m : sd); break;                     /* changing */
            }
         }
         n_find = 0; n_q = 0;
         vlocal_stereo_LR_to_MS(&st, b1 + 2, b2 + 2, ix, &mid_only, rates, rate, act, toMono, fs, len);
         if (!lr_search) {
            printf("I silkparams stereo-lrpreds %d %d %d %d %d %d %d %d %d %d %d\n", smth0, wprev0, rate, fs, is10, act, toMono,
                   rec_find[0][0], rec_find[0][1], rec_find[1][0], rec_find[1][1]);
            printf("O OK %d %d %d %d\n", rec_q[0], rec_q[1], st.smth_width_Q14, st.width_prev_Q14);
         }
         if (lr_search && (n_find != 2 || n_q != 1)) { printf("W calls silk_stereo_LR_to_MS frame %d of sequence %ld => find_predictor calls %d, quant_pred calls %d\n", k, s, n_find, n_q); nw++; }
         for (i = 0; i < 2; i++) {
            opus_int32 a = rec_q[i] < 0 ? -rec_q[i] : rec_q[i];
            if (a > maxabs) maxabs = a;
            if (lr_search && a > 32768) { printf("W bound silk_stereo_LR_to_MS seed %llu sequence %ld frame %d (fs %d rate %d act %d class %d) => pred_Q13[%d] = %d handed to silk_stereo_quant_pred\n", (unsigned long long)seed, s, k, fs, rate, act, cls, i, rec_q[i]); nw++; }
         }
         if (rec_q[0] == rec_find[0][0] && rec_q[1] == rec_find[1][0]) full++; else if (rec_q[0] == 0 && rec_q[1] == 0) zero++; else scaled++;
         if (st.smth_width_Q14 < minsm) minsm = st.smth_width_Q14;
         if (st.smth_width_Q14 > maxsm) maxsm = st.smth_width_Q14;
         calls++;
         free(b1); free(b2);
      }
   }
   printf("# dist lr: calls=%ld unscaled=%ld scaled=%ld zero=%ld max|pred|=%d\n", calls, full, scaled, zero, maxabs);
   if (lr_search) printf("S cases=%ld max|pred|=%d smth_width range=[%d,%d] witnesses=%ld\n", calls, maxabs, minsm, maxsm, nw);
}

static void do_midonly(void)
{
   int flag, size;
   for (flag = 0; flag < 2; flag++) for (size = 2; size < 10; size++) {
      unsigned char *buf = (unsigned char *)calloc(size, 1); ec_enc e; ec_dec d; opus_int got = -1;
      printf("I silkparams stereo-midonly %d %d\n", flag, size); fflush(stdout);
      ec_enc_init(&e, buf, size);
      silk_stereo_encode_mid_only(&e, (opus_int8)flag);
      ec_enc_done(&e);
      ec_dec_init(&d, buf, size);
      silk_stereo_decode_mid_only(&d, &got);
      printf("O OK "); vhex(stdout, buf, size); printf(" %d %d\n", e.error, got);
      free(buf);
   }
}

int main(int argc, char **argv)
{
   vinstall_traps();
   if (argc >= 4 && !strcmp(argv[1], "find")) do_find(strtoull(argv[2], 0, 10), atol(argv[3]));
   else if (argc >= 4 && !strcmp(argv[1], "lr")) { lr_search = argc >= 5 && !strcmp(argv[4], "search"); do_lr(strtoull(argv[2], 0, 10), atol(argv[3])); }
   else if (argc >= 2 && !strcmp(argv[1], "midonly")) do_midonly();
   else { fprintf(stderr, "usage: c18_stereoenc find <seed> <n> | lr <seed> <n> | midonly\n"); return 2; }
   return 0;
}
