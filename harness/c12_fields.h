/* c12_fields.h — field lists of the codec state structs, shared by tools/extract/StructFields.c (which
   prints them, with offsets/sizes taken from the compiler, into lean/OpusModel/Gen/StructFields.lean)
   and harness/c12_state.c (which reads the fields of live objects).  Must be included after
   src/opus_encoder.c and src/opus_decoder.c.

   X(name, kind): kind I integer, F float, P pointer, A array, R record.  The annotation is verified by the
   compiler (C12_CHECK: __builtin_classify_type and the array/pointer distinction), completeness of a list
   by the extractor (the listed members must tile the struct: each starts where the previous one ends,
   rounded up to its own alignment, and the last one ends at sizeof rounded down to the struct alignment)
   and by the debug information (`gdb ptype/o`, tools/props/C12.py pre_build). */
#ifndef C12_FIELDS_H
#define C12_FIELDS_H

#define ENC_FIELDS(X) \
   X(celt_enc_offset, I) X(silk_enc_offset, I) X(silk_mode, R) X(application, I) X(channels, I) \
   X(delay_compensation, I) X(force_channels, I) X(signal_type, I) X(user_bandwidth, I) X(max_bandwidth, I) \
   X(user_forced_mode, I) X(voice_ratio, I) X(Fs, I) X(use_vbr, I) X(vbr_constraint, I) X(variable_duration, I) \
   X(bitrate_bps, I) X(user_bitrate_bps, I) X(lsb_depth, I) X(encoder_buffer, I) X(lfe, I) X(arch, I) \
   X(use_dtx, I) X(fec_config, I) X(analysis, R) \
   X(stream_channels, I) X(hybrid_stereo_width_Q14, I) X(variable_HP_smth2_Q15, I) X(prev_HB_gain, F) \
   X(hp_mem, A) X(mode, I) X(prev_mode, I) X(prev_channels, I) X(prev_framesize, I) X(bandwidth, I) \
   X(auto_bandwidth, I) X(silk_bw_switch, I) X(first, I) X(energy_masking, P) X(width_mem, R) \
   X(delay_buffer, A) X(detected_bandwidth, I) X(nb_no_activity_ms_Q1, I) X(peak_signal_energy, F) \
   X(nonfinal_frame, I) X(rangeFinal, I)

#define SILKENC_FIELDS(X) \
   X(nChannelsAPI, I) X(nChannelsInternal, I) X(API_sampleRate, I) X(maxInternalSampleRate, I) \
   X(minInternalSampleRate, I) X(desiredInternalSampleRate, I) X(payloadSize_ms, I) X(bitRate, I) \
   X(packetLossPercentage, I) X(complexity, I) X(useInBandFEC, I) X(useDRED, I) X(LBRR_coded, I) X(useDTX, I) \
   X(useCBR, I) X(maxBits, I) X(toMono, I) X(opusCanSwitch, I) X(reducedDependency, I) \
   X(internalSampleRate, I) X(allowBandwidthSwitch, I) X(inWBmodeWithoutVariableLP, I) X(stereoWidth_Q14, I) \
   X(switchReady, I) X(signalType, I) X(offset, I)

#define DEC_FIELDS(X) \
   X(celt_dec_offset, I) X(silk_dec_offset, I) X(channels, I) X(Fs, I) X(DecControl, R) X(decode_gain, I) \
   X(complexity, I) X(arch, I) \
   X(stream_channels, I) X(bandwidth, I) X(mode, I) X(prev_mode, I) X(frame_size, I) X(prev_redundancy, I) \
   X(last_packet_duration, I) X(softclip_mem, A) X(rangeFinal, I)

#define SILKDEC_FIELDS(X) \
   X(nChannelsAPI, I) X(nChannelsInternal, I) X(API_sampleRate, I) X(internalSampleRate, I) \
   X(payloadSize_ms, I) X(prevPitchLag, I) X(enable_deep_plc, I)

/* CELT encoder members that lie before its own reset marker `rng` (they survive every reset) */
#define CELTENC_CFG_FIELDS(X) \
   X(mode, P) X(channels, I) X(stream_channels, I) X(force_intra, I) X(clip, I) X(disable_pf, I) \
   X(complexity, I) X(upsample, I) X(start, I) X(end, I) X(bitrate, I) X(vbr, I) X(signalling, I) \
   X(constrained_vbr, I) X(loss_rate, I) X(lsb_depth, I) X(lfe, I) X(disable_inv, I) X(arch, I)

#define C12_CLS(T, f) __builtin_classify_type(((T *)0)->f)
#define C12_CHECK_I(T, f) _Static_assert(C12_CLS(T, f) == 1, #f " is not an integer member");
#define C12_CHECK_F(T, f) _Static_assert(C12_CLS(T, f) == 8, #f " is not a floating-point member");
#define C12_CHECK_R(T, f) _Static_assert(C12_CLS(T, f) == 12, #f " is not a record member");
#define C12_CHECK_P(T, f) _Static_assert(C12_CLS(T, f) == 5 && \
   __builtin_types_compatible_p(__typeof__(((T *)0)->f), __typeof__(&((T *)0)->f[0])), #f " is not a pointer member");
#define C12_CHECK_A(T, f) _Static_assert(C12_CLS(T, f) == 5 && \
   !__builtin_types_compatible_p(__typeof__(((T *)0)->f), __typeof__(&((T *)0)->f[0])), #f " is not an array member");

#endif
