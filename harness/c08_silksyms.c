/* c08_silksyms.c — correspondence harness for the composition C08 ∘ C03: the SILK symbol layer, encoder side.
   CHOSEN side-information indices and excitation pulses are handed to the real silk_encode_indices /
   silk_encode_pulses (encoder state configured by the real silk_InitEncoder + silk_control_encoder), written
   through the real range coder, finished with ec_enc_done, and read back with the real silk_decode_indices /
   silk_decode_pulses (decoder configured by the real silk_decoder_set_fs).  No signal processing runs.
   Line protocol (lean/Driver/SuiteRangeCoder.lean, op `sframe`):
     rangecoder sframe <size> <fill> <fs_kHz> <nb_subfr> <lbrr> <cc> <prevSig> <prevLag> <ix> <pulses>
        ix      sig,qoff,<gains>,nlsf0,<residuals>,interp,lag,contour,per,<ltp>,scale,seed   (lists `/`-separated; `-` = empty)
        pulses  `,`-separated, frame_length values
     answer: <ok|err> E <st after the frame> D <st after ec_enc_done> B <hex size+16> X <ix as decoded> P <pulses as decoded> Y <dec st>
             (X - P - Y - on err);  st as in `seq`
   Modes: rand <seed> <n> | stdin */
#ifdef HAVE_CONFIG_H
#include "config.h"
#endif
#include "vcommon.h"
#include "opus.h"
#include "silk/main.h"
#include "silk/API.h"
#include "silk/control.h"
#include "silk/tables.h"
#ifdef FIXED_POINT
#include "silk/fixed/main_FIX.h"
#else
#include "silk/float/main_FLP.h"
#endif
#include "celt/entenc.h"
#include "celt/entdec.h"

#define GUARD 16
typedef struct {
   int fs, nb, lbrr, cc, prevSig, prevLag;
   int sig, qoff, ng, gains[8], nlsf0, nr, res[32], interp, lag, contour, per, nl, ltp[8], scale, seed;
   int np, pulses[MAX_FRAME_LENGTH + 32];
} frame_t;
static long n_ok, n_err, n_voiced, n_lbrr, n_delta, n_shift, n_blocks, n_ext;

static void st_print(ec_ctx *c)
{
   printf("%u,%u,%u,%u,%u,%d,%d,%d,%u,%d,%d,%u", c->rng, c->val, c->offs, c->end_offs, (unsigned)c->end_window,
      c->nend_bits, c->nbits_total, c->rem, c->ext, c->error, ec_tell(c), ec_tell_frac(c));
}

static int parse_list(const char **pp, int *out, int cap, char sep)
{
   const char *p = *pp; int n = 0; char *e;
   if (*p == '-' && (p[1] == ',' || p[1] == 0 || p[1] == ' ' || p[1] == '\n')) { *pp = p + 1; return 0; }
   for (;;) {
      long v = strtol(p, &e, 10); if (e == p || n >= cap) return -1;
      out[n++] = (int)v; p = e;
      if (*p == sep) { p++; continue; }
      break;
   }
   *pp = p; return n;
}
static int parse_int(const char **pp, int *out)
{
   char *e; long v = strtol(*pp, &e, 10); if (e == *pp) return 0; *out = (int)v; *pp = e; return 1;
}
#define COMMA do { if (*p++ != ',') return 0; } while (0)
static int parse_ix(const char *p, frame_t *f)
{
   if (!parse_int(&p, &f->sig)) return 0; COMMA;
   if (!parse_int(&p, &f->qoff)) return 0; COMMA;
   if ((f->ng = parse_list(&p, f->gains, 8, '/')) < 0) return 0; COMMA;
   if (!parse_int(&p, &f->nlsf0)) return 0; COMMA;
   if ((f->nr = parse_list(&p, f->res, 32, '/')) < 0) return 0; COMMA;
   if (!parse_int(&p, &f->interp)) return 0; COMMA;
   if (!parse_int(&p, &f->lag)) return 0; COMMA;
   if (!parse_int(&p, &f->contour)) return 0; COMMA;
   if (!parse_int(&p, &f->per)) return 0; COMMA;
   if ((f->nl = parse_list(&p, f->ltp, 8, '/')) < 0) return 0; COMMA;
   if (!parse_int(&p, &f->scale)) return 0; COMMA;
   if (!parse_int(&p, &f->seed)) return 0;
   return *p == 0;
}

static int contour_syms(int fs, int nb) { return fs == 8 ? (nb == 4 ? 11 : 3) : (nb == 4 ? 34 : 12); }

/* the encoder's domain: the silk_asserts of encode_indices.c, the C types, and what the decoder reports for members it does not read */
static int legal(const frame_t *f)
{
   int i, order = f->fs == 16 ? 16 : 10;
   if (!(f->fs == 8 || f->fs == 12 || f->fs == 16) || !(f->nb == 2 || f->nb == 4)) return 0;
   if (f->lbrr < 0 || f->lbrr > 1 || f->cc < 0 || f->cc > 2 || f->prevSig < 0 || f->prevSig > 2) return 0;
   if (f->prevLag < -32768 || f->prevLag > 32767) return 0;
   if (f->sig < 0 || f->sig > 2 || f->qoff < 0 || f->qoff > 1) return 0;
   if (f->lbrr && f->sig == 0) return 0;
   if (f->ng != f->nb) return 0;
   if (f->gains[0] < 0 || f->gains[0] >= (f->cc == 2 ? 41 : 64)) return 0;
   for (i = 1; i < f->ng; i++) if (f->gains[i] < 0 || f->gains[i] >= 41) return 0;
   if (f->nlsf0 < 0 || f->nlsf0 >= 32 || f->nr != order) return 0;
   for (i = 0; i < f->nr; i++) if (f->res[i] < -10 || f->res[i] > 10) return 0;
   if (f->nb == 4 ? (f->interp < 0 || f->interp > 4) : f->interp != 4) return 0;
   if (f->sig == 2) {
      if (f->lag < 0 || f->lag >= 16 * f->fs) return 0;
      if (f->contour < 0 || f->contour >= contour_syms(f->fs, f->nb)) return 0;
      if (f->per < 0 || f->per > 2 || f->nl != f->nb) return 0;
      for (i = 0; i < f->nl; i++) if (f->ltp[i] < 0 || f->ltp[i] >= (8 << f->per)) return 0;
      if (f->cc == 0 ? (f->scale < 0 || f->scale > 2) : f->scale != 0) return 0;
   } else if (f->lag || f->contour || f->per || f->nl || f->scale) return 0;
   if (f->seed < 0 || f->seed > 3) return 0;
   if (f->np != f->nb * 5 * f->fs) return 0;
   for (i = 0; i < f->np; i++) if (f->pulses[i] < -127 || f->pulses[i] > 127) return 0;
   return 1;
}

static void fill_indices(SideInfoIndices *ix, const frame_t *f)
{
   int i;
   memset(ix, 0, sizeof *ix);
   ix->signalType = (opus_int8)f->sig; ix->quantOffsetType = (opus_int8)f->qoff;
   for (i = 0; i < f->ng; i++) ix->GainsIndices[i] = (opus_int8)f->gains[i];
   ix->NLSFIndices[0] = (opus_int8)f->nlsf0;
   for (i = 0; i < f->nr; i++) ix->NLSFIndices[i + 1] = (opus_int8)f->res[i];
   ix->NLSFInterpCoef_Q2 = (opus_int8)f->interp;
   ix->lagIndex = (opus_int16)f->lag; ix->contourIndex = (opus_int8)f->contour; ix->PERIndex = (opus_int8)f->per;
   for (i = 0; i < f->nl; i++) ix->LTPIndex[i] = (opus_int8)f->ltp[i];
   ix->LTP_scaleIndex = (opus_int8)f->scale; ix->Seed = (opus_int8)f->seed;
}

static void print_list8(const opus_int8 *p, int n) { int i; if (!n) printf("-"); for (i = 0; i < n; i++) printf("%s%d", i ? "/" : "", (int)p[i]); }

static void run_line(const char *line)
{
   static frame_t f; long size; unsigned fill; int i, iter; static char ixs[1024], ps[8192]; const char *pp;
   unsigned char *phys, *buf, *copy; ec_enc enc; ec_dec dec;
   silk_encoder *psEnc; silk_EncControlStruct ctl; silk_decoder_state *psDec; opus_int encSize = 0;
   opus_int8 pulses8[MAX_FRAME_LENGTH + 32]; opus_int16 pulses16[MAX_FRAME_LENGTH + 32];
   memset(&f, 0, sizeof f);
   if (sscanf(line, "rangecoder sframe %ld %u %d %d %d %d %d %d %1023s %8191s", &size, &fill, &f.fs, &f.nb, &f.lbrr, &f.cc, &f.prevSig,
         &f.prevLag, ixs, ps) != 10 || size < 1 || size > 1275) { printf("# skipped\n"); return; }
   pp = ps;
   if (!parse_ix(ixs, &f) || (f.np = parse_list(&pp, f.pulses, MAX_FRAME_LENGTH, ',')) < 0) { printf("# skipped unparsable\n"); return; }
   if (!legal(&f)) { printf("# skipped outside the encoder's domain\n"); return; }
   printf("I rangecoder sframe %ld %u %d %d %d %d %d %d %s %s\n", size, fill, f.fs, f.nb, f.lbrr, f.cc, f.prevSig, f.prevLag, ixs, ps);
   fflush(stdout);

   /* encoder state as the real encoder configures it */
   silk_Get_Encoder_Size(&encSize);
   psEnc = (silk_encoder *)calloc(1, (size_t)encSize);
   memset(&ctl, 0, sizeof ctl);
   if (silk_InitEncoder(psEnc, 0, &ctl)) { printf("O INIT-FAILED\n"); free(psEnc); return; }
   ctl.nChannelsAPI = 1; ctl.nChannelsInternal = 1; ctl.API_sampleRate = 48000;
   ctl.maxInternalSampleRate = 16000; ctl.minInternalSampleRate = 8000; ctl.desiredInternalSampleRate = f.fs * 1000;
   ctl.payloadSize_ms = f.nb * 5; ctl.bitRate = 25000; ctl.complexity = 5;
   if (silk_control_encoder(&psEnc->state_Fxx[0], &ctl, 0, 0, f.fs)) { printf("O CONTROL-FAILED\n"); free(psEnc); return; }
   {
      silk_encoder_state *c = &psEnc->state_Fxx[0].sCmn;
      if (c->fs_kHz != f.fs || c->nb_subfr != f.nb || c->frame_length != f.np) { printf("O CONFIG-MISMATCH\n"); free(psEnc); return; }
      fill_indices(f.lbrr ? &c->indices_LBRR[0] : &c->indices, &f);
      c->ec_prevSignalType = f.prevSig; c->ec_prevLagIndex = (opus_int16)f.prevLag;
   }
   memset(pulses8, 0x55, sizeof pulses8);   /* the encoder zeroes the tail of the last shell block itself */
   for (i = 0; i < f.np; i++) pulses8[i] = (opus_int8)f.pulses[i];

   phys = (unsigned char *)malloc(GUARD + size + GUARD); buf = phys + GUARD;
   for (i = 0; i < GUARD; i++) phys[i] = 0xA5;
   for (i = 0; i < size + GUARD; i++) buf[i] = (unsigned char)((fill + 37u * (unsigned)i) % 256u);
   memset(&enc, 0, sizeof enc); memset(&dec, 0, sizeof dec);
   ec_enc_init(&enc, buf, (opus_uint32)size);
   silk_encode_indices(&psEnc->state_Fxx[0].sCmn, &enc, 0, f.lbrr, f.cc);
   silk_encode_pulses(&enc, f.sig, f.qoff, pulses8, f.np);
   printf("O "); { ec_enc snap = enc; ec_enc_done(&enc); printf("%s E ", enc.error ? "err" : "ok"); st_print(&snap); }
   printf(" D "); st_print(&enc); printf(" B "); vhex(stdout, buf, size + GUARD);
   for (i = 0; i < GUARD; i++) if (phys[i] != 0xA5) { printf(" GUARD-BEFORE-CLOBBERED"); break; }
   if (f.sig == 2) n_voiced++;
   if (f.lbrr) n_lbrr++;
   if (f.sig == 2 && f.cc == 2 && f.prevSig == 2 && f.lag - f.prevLag >= -8 && f.lag - f.prevLag <= 11) n_delta++;
   for (i = 0; i < f.nr; i++) if (f.res[i] >= 4 || f.res[i] <= -4) n_ext++;
   if (enc.error) { n_err++; printf(" X - P - Y -\n"); free(phys); free(psEnc); fflush(stdout); return; }
   n_ok++;

   /* decoder */
   psDec = (silk_decoder_state *)calloc(1, sizeof *psDec);
   psDec->nb_subfr = f.nb;
   silk_decoder_set_fs(psDec, f.fs, 48000);
   psDec->ec_prevSignalType = f.prevSig; psDec->ec_prevLagIndex = (opus_int16)f.prevLag;
   psDec->VAD_flags[0] = f.sig != 0;
   copy = vexact(buf, size);
   ec_dec_init(&dec, copy, (opus_uint32)size);
   silk_decode_indices(psDec, &dec, 0, f.lbrr, f.cc);
   memset(pulses16, 0x55, sizeof pulses16);
   silk_decode_pulses(&dec, pulses16, psDec->indices.signalType, psDec->indices.quantOffsetType, psDec->frame_length);
   {
      SideInfoIndices *x = &psDec->indices; int voiced = x->signalType == 2;
      printf(" X %d,%d,", x->signalType, x->quantOffsetType); print_list8(x->GainsIndices, f.nb);
      printf(",%d,", x->NLSFIndices[0]); print_list8(x->NLSFIndices + 1, psDec->LPC_order);
      printf(",%d,%d,%d,%d,", x->NLSFInterpCoef_Q2, voiced ? x->lagIndex : 0, voiced ? x->contourIndex : 0, voiced ? x->PERIndex : 0);
      print_list8(x->LTPIndex, voiced ? f.nb : 0);
      printf(",%d,%d", x->LTP_scaleIndex, x->Seed);
   }
   iter = (psDec->frame_length + 15) / 16; n_blocks += iter;
   printf(" P ");
   for (i = 0; i < iter * 16; i++) { printf("%s%d", i ? "," : "", (int)pulses16[i]); if (pulses16[i] > 16 || pulses16[i] < -16) n_shift++; }
   printf(" Y "); st_print(&dec); printf("\n");
   free(copy); free(psDec); free(phys); free(psEnc); fflush(stdout);
}

static void gen_line(vrng *r, char *out, size_t cap)
{
   static const int FS[] = {8, 12, 16};
   int fs = FS[vbelow(r, 3)], nb = vchance(r, 60) ? 4 : 2, lbrr = vchance(r, 25), cc = vchance(r, 45) ? 0 : vchance(r, 75) ? 2 : 1;
   int prevSig = vchance(r, 60) ? 2 : (int)vbelow(r, 2), prevLag = vrange(r, 0, 16 * fs - 1);
   int sig = lbrr ? vrange(r, 1, 2) : vrange(r, 0, 2), order = fs == 16 ? 16 : 10, np = nb * 5 * fs, i, b;
   size_t n = 0; long size; int p = (int)vbelow(r, 100);
   size = p < 8 ? vrange(r, 1, 30) : p < 20 ? vrange(r, 31, 120) : vrange(r, 121, 1275);
   n += (size_t)snprintf(out + n, cap - n, "rangecoder sframe %ld %u %d %d %d %d %d %d ", size, (unsigned)vbelow(r, 256), fs, nb, lbrr, cc, prevSig, prevLag);
   n += (size_t)snprintf(out + n, cap - n, "%d,%d,", sig, (int)vbelow(r, 2));
   for (i = 0; i < nb; i++) {
      int lim = (i == 0 && cc != 2) ? 64 : 41, g = vchance(r, 15) ? (vchance(r, 50) ? 0 : lim - 1) : (int)vbelow(r, (uint32_t)lim);
      n += (size_t)snprintf(out + n, cap - n, "%s%d", i ? "/" : "", g);
   }
   n += (size_t)snprintf(out + n, cap - n, ",%d,", vchance(r, 10) ? 31 : (int)vbelow(r, 32));
   for (i = 0; i < order; i++) {
      int v = vchance(r, 70) ? vrange(r, -3, 3) : vchance(r, 50) ? vrange(r, -10, 10) : (vchance(r, 50) ? 4 : -4) * (vchance(r, 50) ? 1 : 0) + (vchance(r, 30) ? (vchance(r, 50) ? 10 : -10) : 0);
      if (v > 10) v = 10; if (v < -10) v = -10;
      n += (size_t)snprintf(out + n, cap - n, "%s%d", i ? "/" : "", v);
   }
   n += (size_t)snprintf(out + n, cap - n, ",%d,", nb == 4 ? (int)vbelow(r, 5) : 4);
   if (sig == 2) {
      int lag = vchance(r, 55) ? prevLag + vrange(r, -10, 13) : vrange(r, 0, 16 * fs - 1), per = (int)vbelow(r, 3);
      if (vchance(r, 10)) lag = vchance(r, 50) ? 0 : 16 * fs - 1;
      if (lag < 0) lag = 0; if (lag > 16 * fs - 1) lag = 16 * fs - 1;
      n += (size_t)snprintf(out + n, cap - n, "%d,%d,%d,", lag, vchance(r, 10) ? contour_syms(fs, nb) - 1 : (int)vbelow(r, (uint32_t)contour_syms(fs, nb)), per);
      for (i = 0; i < nb; i++) n += (size_t)snprintf(out + n, cap - n, "%s%d", i ? "/" : "", vchance(r, 10) ? (8 << per) - 1 : (int)vbelow(r, 8u << per));
      n += (size_t)snprintf(out + n, cap - n, ",%d,", cc == 0 ? (int)vbelow(r, 3) : 0);
   } else n += (size_t)snprintf(out + n, cap - n, "0,0,0,-,0,");
   n += (size_t)snprintf(out + n, cap - n, "%d ", (int)vbelow(r, 4));
   for (b = 0; b * 16 < np; b++) {
      int prof = (int)vbelow(r, 100);
      for (i = 0; i < 16 && b * 16 + i < np; i++) {
         int v = 0;
         if (prof < 20) v = 0;
         else if (prof < 45) v = vchance(r, 20) ? (vchance(r, 50) ? 1 : -1) : 0;
         else if (prof < 65) v = vrange(r, -2, 2);
         else if (prof < 75) v = vchance(r, 50) ? 1 : vchance(r, 50) ? -1 : 0;          /* sums around the limits 8/10/12/16 */
         else if (prof < 85) v = vchance(r, 12) ? vrange(r, -40, 40) : vrange(r, -1, 1);
         else if (prof < 93) v = vrange(r, -127, 127);
         else if (prof < 97) v = vchance(r, 50) ? 127 : -127;
         else v = (i == (int)vbelow(r, 16)) ? vrange(r, 9, 17) * (vchance(r, 50) ? 1 : -1) : 0;
         n += (size_t)snprintf(out + n, cap - n, "%s%d", (b || i) ? "," : "", v);
      }
   }
}

int main(int argc, char **argv)
{
   static char line[1 << 16];
   vinstall_traps();
   if (argc >= 4 && !strcmp(argv[1], "rand")) {
      vrng m; long i, n = atol(argv[3]); m.s = strtoull(argv[2], 0, 10) * 0x9E3779B97F4A7C15ULL + 0xC0851115ULL; m.s = vnext(&m);
      for (i = 0; i < n; i++) { vrng r; r.s = vnext(&m); gen_line(&r, line, sizeof line); run_line(line); }
      printf("# sframe cases=%ld ok=%ld err=%ld voiced=%ld lbrr=%ld delta-lag=%ld nlsf-extension-symbols=%ld blocks=%ld pulses-beyond-16=%ld\n",
         n, n_ok, n_err, n_voiced, n_lbrr, n_delta, n_ext, n_blocks, n_shift);
   } else if (argc >= 2 && !strcmp(argv[1], "stdin")) {
      while (fgets(line, sizeof line, stdin)) { const char *p = line; if (!strncmp(p, "I ", 2)) p += 2; if (!strncmp(p, "rangecoder sframe", 17)) run_line(p); }
   } else { fprintf(stderr, "usage: c08_silksyms rand <seed> <n> | stdin\n"); return 64; }
   return 0;
}
