/* c09_silkplc.c — tie + search harness of the C09 extension `SilkPlc` (SILK concealment / comfort noise value model).

   This TU *is* silk/decode_frame.c (it #includes the repo's file, so the library's own decode_frame.o is not
   linked) with its three calls silk_PLC / silk_CNG / silk_PLC_glue_frames routed through recording wrappers.
   The wrappers snapshot the live decoder state, print
      I silkplc conceal|upd|cng|glue <state…>
   call the real function of the library, and print the complete state afterwards
      O OK <frame, every member of the PLC / CNG state …>
   The decoder states are the ones a real opus decoder reaches: opus_encode (SILK-only / hybrid, 8/12/16 kHz
   internal rate, 10/20/40/60 ms, mono/stereo, DTX, in-band FEC, speech-like / noise / silence / clipping input,
   bandwidth switches) -> packets -> opus_decode under loss bursts of 1..20 packets, loss right after creation /
   OPUS_RESET_STATE, FEC decodes, plus a malformed stream (random payload behind a SILK TOC).

   Modes:   tie <seed> <sessions>            I/O stream for `opusmodel check`
            search <seed> <sessions>         no I/O lines; the C09 predicates evaluated on the implementation's own
                                             values, one `W kind | what | input` line per violation
            glue1 <lossCnt> <lastLost> <concE> <concSh> <csv frame>     one direct call of silk_PLC_glue_frames */
#include "vcommon.h"
#include "opus.h"
#include "opus_private.h"
#include "main.h"
#include "PLC.h"

static int g_mode = 0;              /* 0 tie, 1 search */
static long g_n[4], g_w = 0;
static long g_stat[16];
enum { ST_VOICED, ST_UNVOICED, ST_FIRSTLOST, ST_LONGBURST, ST_AFTERRESET, ST_RESETRATE, ST_GLUERAMP, ST_CNGUPD, ST_CNGGEN, ST_NB2, ST_FS8, ST_FS12, ST_FS16, ST_GAINGT1 };

static void pcsv32(const opus_int32 *p, int n) { int i; if (n <= 0) { putchar('-'); return; } for (i = 0; i < n; i++) printf(i ? ",%d" : "%d", (int)p[i]); }
static void pcsv16(const opus_int16 *p, int n) { int i; if (n <= 0) { putchar('-'); return; } for (i = 0; i < n; i++) printf(i ? ",%d" : "%d", (int)p[i]); }
static void pcsvi(const opus_int *p, int n) { int i; if (n <= 0) { putchar('-'); return; } for (i = 0; i < n; i++) printf(i ? ",%d" : "%d", (int)p[i]); }

static void print_plc(const silk_PLC_struct *p)
{
   printf(" %d ", (int)p->pitchL_Q8); pcsv16(p->LTPCoef_Q14, LTP_ORDER); putchar(' '); pcsv16(p->prevLPC_Q12, MAX_LPC_ORDER);
   printf(" %d %d %d %d %d %d ", (int)p->last_frame_lost, (int)p->rand_seed, (int)p->randScale_Q14, (int)p->conc_energy,
          (int)p->conc_energy_shift, (int)p->prevLTP_scale_Q14);
   pcsv32(p->prevGain_Q16, 2);
   printf(" %d %d %d", (int)p->fs_kHz, (int)p->nb_subfr, (int)p->subfr_length);
}

static void witness(const char *kind, const char *what, const char *inp)
{
   g_w++;
   printf("W %s | %s | %s\n", kind, what, inp);
}

/* ------------------------------------------------------------------ wrappers */
static void hook_PLC(silk_decoder_state *d, silk_decoder_control *c, opus_int16 frame[], opus_int lost, int arch)
{
   silk_PLC_struct p0 = d->sPLC;
   int lossCnt0 = d->lossCnt, i;
   char inp[256];
   if (lost) {
      g_n[0]++;
      g_stat[d->prevSignalType == TYPE_VOICED ? ST_VOICED : ST_UNVOICED]++;
      if (d->lossCnt == 0) g_stat[ST_FIRSTLOST]++;
      if (d->lossCnt >= 5) g_stat[ST_LONGBURST]++;
      if (d->first_frame_after_reset) g_stat[ST_AFTERRESET]++;
      if (d->fs_kHz != d->sPLC.fs_kHz) g_stat[ST_RESETRATE]++;
      if (d->nb_subfr == 2) g_stat[ST_NB2]++;
      g_stat[d->fs_kHz == 8 ? ST_FS8 : d->fs_kHz == 12 ? ST_FS12 : ST_FS16]++;
      if (!g_mode) {
         printf("I silkplc conceal %d %d %d %d %d %d %d %d %d ", d->fs_kHz, d->nb_subfr, d->frame_length, d->subfr_length,
                d->ltp_mem_length, d->LPC_order, d->lossCnt, d->prevSignalType, d->first_frame_after_reset);
         pcsv32(d->exc_Q14, MAX_FRAME_LENGTH); putchar(' ');
         pcsv32(d->sLPC_Q14_buf, MAX_LPC_ORDER); putchar(' ');
         pcsv16(d->outBuf, MAX_FRAME_LENGTH + 2 * MAX_SUB_FRAME_LENGTH);
         print_plc(&d->sPLC); putchar('\n'); fflush(stdout);
      }
      silk_PLC(d, c, frame, 1, arch);
      if (!g_mode) {
         printf("O OK f="); pcsv16(frame, d->frame_length); printf(" sLPC="); pcsv32(d->sLPC_Q14_buf, MAX_LPC_ORDER);
         printf(" lossCnt=%d prevSig=%d pitchL=", d->lossCnt, d->prevSignalType); pcsvi(c->pitchL, MAX_NB_SUBFR);
         printf(" plc="); print_plc(&d->sPLC); putchar('\n');
      } else {
         /* C09 clauses on the implementation's own values */
         const silk_PLC_struct *p1 = &d->sPLC;
         int bad = 0; char what[256];
         int sumB0 = 0;
         for (i = 0; i < LTP_ORDER; i++) sumB0 += p0.LTPCoef_Q14[i];
         /* tag of the known root cause (silk_PLC_update's int16-truncated scale_Q10 leaves a NEGATIVE centre tap): first lost frame
            after a voiced frame with a negative tap sum */
         snprintf(inp, sizeof inp, "conceal %s fs=%d nb=%d lossCnt=%d prevSig=%d rs0=%d rs1=%d pq8=%d->%d",
                  (lossCnt0 == 0 && d->prevSignalType == TYPE_VOICED && sumB0 < 0) ? "first-lost-voiced-negtap" : "-", d->fs_kHz, d->nb_subfr, lossCnt0,
                  d->prevSignalType, p0.randScale_Q14, p1->randScale_Q14, (int)p0.pitchL_Q8, (int)p1->pitchL_Q8);
         /* (rand_scale_Q14 <= 2^14 is NOT true of the code on the first lost voiced frame after a negative centre tap — see
            OpusProps.C09SilkPlc.ltp_limit_counterexample; the bound that holds is the opus_int16 range) */
         if (p1->randScale_Q14 < 0) { snprintf(what, sizeof what, "rand_scale_Q14 %d negative", p1->randScale_Q14); witness("rand-scale-range", what, inp); bad = 1; }
         if (p1->randScale_Q14 > 16384) g_stat[ST_GAINGT1]++;
         if (lossCnt0 >= 1 && (p1->randScale_Q14 > p0.randScale_Q14 || (p0.randScale_Q14 > 0 && p1->randScale_Q14 >= p0.randScale_Q14))) {
            snprintf(what, sizeof what, "rand_scale_Q14 %d -> %d does not decrease on lost frame #%d of a burst", p0.randScale_Q14, p1->randScale_Q14, lossCnt0 + 1);
            witness("rand-scale-grows", what, inp); bad = 1;
         }
         for (i = 0; i < LTP_ORDER; i++) {
            int a0 = abs(p0.LTPCoef_Q14[i]), a1 = abs(p1->LTPCoef_Q14[i]);
            if (p0.fs_kHz == d->fs_kHz && (a1 > a0 || (a0 > 1 && a1 >= a0))) { snprintf(what, sizeof what, "harmonic tap %d: %d -> %d does not shrink", i, p0.LTPCoef_Q14[i], p1->LTPCoef_Q14[i]); witness("ltp-tap-grows", what, inp); bad = 1; }
         }
         if (p1->pitchL_Q8 <= 0 || p1->pitchL_Q8 > ((18 * d->fs_kHz) << 8)) { snprintf(what, sizeof what, "pitchL_Q8 %d outside (0, 18 ms]", (int)p1->pitchL_Q8); witness("pitch-range", what, inp); bad = 1; }
         if (d->lossCnt != lossCnt0 + 1) { witness("losscnt", "lossCnt not incremented", inp); bad = 1; }
         (void)bad;
      }
   } else {
      g_n[1]++;
      if (!g_mode) {
         static const opus_int z4[4] = {0, 0, 0, 0};
         printf("I silkplc upd %d %d %d %d %d %d ", d->fs_kHz, d->nb_subfr, d->frame_length, d->subfr_length, d->LPC_order, d->indices.signalType);
         pcsvi(d->indices.signalType == TYPE_VOICED ? c->pitchL : z4, MAX_NB_SUBFR); putchar(' ');
         pcsv32(c->Gains_Q16, MAX_NB_SUBFR); putchar(' ');
         pcsv16(c->PredCoef_Q12[1], MAX_LPC_ORDER); putchar(' ');
         pcsv16(c->LTPCoef_Q14, LTP_ORDER * MAX_NB_SUBFR);
         printf(" %d", c->LTP_scale_Q14);
         print_plc(&d->sPLC); putchar('\n'); fflush(stdout);
      }
      silk_PLC(d, c, frame, 0, arch);
      if (!g_mode) {
         printf("O OK prevSig=%d plc=", d->prevSignalType); print_plc(&d->sPLC); putchar('\n');
      } else {
         const silk_PLC_struct *p1 = &d->sPLC; char what[200];
         snprintf(inp, sizeof inp, "upd fs=%d nb=%d sig=%d pq8=%d", d->fs_kHz, d->nb_subfr, d->indices.signalType, (int)p1->pitchL_Q8);
         if (p1->pitchL_Q8 <= 0 || p1->pitchL_Q8 > ((18 * d->fs_kHz) << 8)) { snprintf(what, sizeof what, "pitchL_Q8 %d outside (0, 18 ms] after a received frame", (int)p1->pitchL_Q8); witness("pitch-range", what, inp); }
         for (i = 0; i < LTP_ORDER; i++) if (i != LTP_ORDER / 2 && p1->LTPCoef_Q14[i] != 0) witness("ltp-shape", "side tap not zero after update", inp);
         (void)what;
      }
   }
}

static void hook_CNG(silk_decoder_state *d, silk_decoder_control *c, opus_int16 frame[], opus_int length)
{
   int upd = d->lossCnt == 0 && d->prevSignalType == TYPE_NO_VOICE_ACTIVITY;
   static const opus_int32 z4[4] = {0, 0, 0, 0};
   g_n[2]++;
   if (upd) g_stat[ST_CNGUPD]++;
   if (d->lossCnt) g_stat[ST_CNGGEN]++;
   if (!g_mode) {
      printf("I silkplc cng %d %d %d %d %d %d ", d->fs_kHz, d->nb_subfr, d->subfr_length, d->LPC_order, d->lossCnt, d->prevSignalType);
      pcsv16(d->prevNLSF_Q15, MAX_LPC_ORDER); putchar(' ');
      pcsv32(d->exc_Q14, upd ? MAX_FRAME_LENGTH : 0); putchar(' ');
      pcsv32(upd ? c->Gains_Q16 : z4, MAX_NB_SUBFR);
      printf(" %d %d ", d->sPLC.randScale_Q14, (int)d->sPLC.prevGain_Q16[1]);
      pcsv32(d->sCNG.CNG_exc_buf_Q14, MAX_FRAME_LENGTH); putchar(' ');
      pcsv16(d->sCNG.CNG_smth_NLSF_Q15, MAX_LPC_ORDER); putchar(' ');
      pcsv32(d->sCNG.CNG_synth_state, MAX_LPC_ORDER);
      printf(" %d %d %d ", (int)d->sCNG.CNG_smth_Gain_Q16, (int)d->sCNG.rand_seed, d->sCNG.fs_kHz);
      pcsv16(frame, length); putchar('\n'); fflush(stdout);
   }
   silk_CNG(d, c, frame, length);
   if (!g_mode) {
      printf("O OK f="); pcsv16(frame, length); printf(" exc="); pcsv32(d->sCNG.CNG_exc_buf_Q14, MAX_FRAME_LENGTH);
      printf(" nlsf="); pcsv16(d->sCNG.CNG_smth_NLSF_Q15, MAX_LPC_ORDER); printf(" st="); pcsv32(d->sCNG.CNG_synth_state, MAX_LPC_ORDER);
      printf(" g=%d seed=%d fs=%d\n", (int)d->sCNG.CNG_smth_Gain_Q16, (int)d->sCNG.rand_seed, d->sCNG.fs_kHz);
   }
}

static void hook_glue(silk_decoder_state *d, opus_int16 frame[], opus_int length)
{
   opus_int16 in[MAX_FRAME_LENGTH];
   silk_PLC_struct p0 = d->sPLC;
   int i;
   g_n[3]++;
   memcpy(in, frame, length * sizeof(opus_int16));
   if (d->lossCnt == 0 && d->sPLC.last_frame_lost) g_stat[ST_GLUERAMP]++;
   if (!g_mode) {
      printf("I silkplc glue %d %d %d %d ", d->lossCnt, d->sPLC.last_frame_lost, (int)d->sPLC.conc_energy, d->sPLC.conc_energy_shift);
      pcsv16(frame, length); putchar('\n'); fflush(stdout);
   }
   silk_PLC_glue_frames(d, frame, length);
   if (!g_mode) {
      printf("O OK f="); pcsv16(frame, length);
      printf(" lfl=%d ce=%d cs=%d\n", d->sPLC.last_frame_lost, (int)d->sPLC.conc_energy, d->sPLC.conc_energy_shift);
   } else {
      char inp[200], what[200];
      int changed = 0, amp = -1;
      for (i = 0; i < length; i++) {
         if (frame[i] != in[i]) changed++;
         if (abs((int)frame[i]) > abs((int)in[i]) || (int)frame[i] * (int)in[i] < 0) { if (amp < 0) amp = i; }
      }
      /* tag of the known root cause (gain_Q16 > 1.0 => slope < 0 => the ramp stops after sample 0): only sample 0 changed */
      snprintf(inp, sizeof inp, "glue %s lossCnt=%d lastLost=%d concE=%d concSh=%d len=%d in0=%d", (changed == 1 && frame[0] != in[0]) ? "first-sample-only" : "-",
               d->lossCnt, p0.last_frame_lost, (int)p0.conc_energy, p0.conc_energy_shift, length, in[0]);
      if ((d->lossCnt != 0 || !p0.last_frame_lost) && changed) { snprintf(what, sizeof what, "%d samples changed although no fade-in applies", changed); witness("glue-not-identity", what, inp); }
      /* (an amplified first sample is NOT a C09 violation: gain_Q16 can exceed 1.0, OpusProps.C09SilkPlc.glue_gain_above_one_counterexample;
         counted only) */
      if (amp >= 0) g_stat[15]++;
      if (amp > 0) { snprintf(what, sizeof what, "sample %d (not the first) amplified: %d -> %d", amp, in[amp], frame[amp]); witness("glue-amplifies-inside-ramp", what, inp); }
      if (d->lossCnt != 0 && d->sPLC.last_frame_lost != 1) witness("glue-flag", "last_frame_lost not set after a lost frame", inp);
      if (d->lossCnt == 0 && d->sPLC.last_frame_lost != 0) witness("glue-flag", "last_frame_lost not cleared after a received frame", inp);
   }
}

#define silk_PLC hook_PLC
#define silk_CNG hook_CNG
#define silk_PLC_glue_frames hook_glue
#include "silk/decode_frame.c"
#undef silk_PLC
#undef silk_CNG
#undef silk_PLC_glue_frames

/* ------------------------------------------------------------------ signal + sessions */
typedef struct { int type; double amp, f0, ph, env; int left; double lp; } vsig_t;
static void sig_next(vrng *r, vsig_t *s, int Fs, int loud)
{
   int t = vbelow(r, 100);
   s->type = t < 45 ? 0 : t < 70 ? 1 : t < 90 ? 2 : 3;      /* voiced, noise, silence, low-level noise */
   s->amp = loud ? 40000.0 : 2000.0 + vbelow(r, 12000);
   s->f0 = 80 + vbelow(r, 240);
   s->left = Fs / 1000 * vrange(r, 30, 400);
}
static void sig_fill(vrng *r, vsig_t *s, opus_int16 *pcm, int n, int ch, int Fs, int loud)
{
   int i, c, h;
   for (i = 0; i < n; i++) {
      double v = 0;
      if (s->left <= 0) sig_next(r, s, Fs, loud);
      s->left--;
      if (s->type == 0) {
         s->ph += s->f0 / Fs; if (s->ph >= 1) s->ph -= 1;
         s->f0 *= 1.0 + 0.00001 * ((int)vbelow(r, 21) - 10);
         for (h = 1; h <= 8; h++) v += __builtin_sin(6.283185307179586 * h * s->ph) / h;
         v *= s->amp * 0.5;
         v += ((int)vbelow(r, 2001) - 1000) * 0.02;
      } else if (s->type == 1) {
         double w = ((int)vbelow(r, 2001) - 1000) / 1000.0;
         s->lp = 0.5 * s->lp + w; v = s->lp * s->amp * 0.4;
      } else if (s->type == 2) {
         v = 0;
      } else {
         v = ((int)vbelow(r, 2001) - 1000) * 0.03;
      }
      if (v > 32767) v = 32767; if (v < -32768) v = -32768;
      for (c = 0; c < ch; c++) pcm[i * ch + c] = (opus_int16)(c ? v * 0.7 : v);
   }
}

static void session(vrng *r, int idx)
{
   static const int bws[3] = {OPUS_BANDWIDTH_NARROWBAND, OPUS_BANDWIDTH_MEDIUMBAND, OPUS_BANDWIDTH_WIDEBAND};
   static const int encFs[4] = {8000, 12000, 16000, 48000};
   static const int decFs[5] = {8000, 12000, 16000, 24000, 48000};
   static const int durs[4] = {10, 20, 40, 60};
   int ch = vchance(r, 20) ? 2 : 1;
   int bwi = idx % 3;
   int hybrid = idx % 11 == 10;
   int efs = hybrid ? 48000 : encFs[bwi + (vchance(r, 30) ? (3 - bwi) : 0)];
   int dfs = decFs[vbelow(r, 5)];
   int dur = (idx % 5 == 0) ? 10 : (idx % 7 == 0) ? durs[2 + vbelow(r, 2)] : 20;
   int malformed = idx % 13 == 12;
   int loud = idx % 9 == 8;
   int npk = malformed ? 40 : vrange(r, 40, 90);
   int err, k, n = efs / 1000 * dur, fsz = dfs / 1000 * dur;
   OpusEncoder *enc = opus_encoder_create(efs, ch, OPUS_APPLICATION_VOIP, &err);
   OpusDecoder *dec = opus_decoder_create(dfs, ch, &err);
   opus_int16 *pcm = (opus_int16 *)malloc(sizeof(opus_int16) * n * ch);
   opus_int16 *out = (opus_int16 *)malloc(sizeof(opus_int16) * 5760 * ch);
   unsigned char pkt[1500]; int plen = 0, prevlen = 0;
   vsig_t s; int burst = 0, gap;
   memset(&s, 0, sizeof s);
   if (hybrid) {
      opus_encoder_ctl(enc, OPUS_SET_FORCE_MODE(MODE_HYBRID));
      opus_encoder_ctl(enc, OPUS_SET_BANDWIDTH(vchance(r, 50) ? OPUS_BANDWIDTH_SUPERWIDEBAND : OPUS_BANDWIDTH_FULLBAND));
      if (dur > 20) dur = 20, n = efs / 1000 * dur, fsz = dfs / 1000 * dur;
   } else {
      opus_encoder_ctl(enc, OPUS_SET_FORCE_MODE(MODE_SILK_ONLY));
      opus_encoder_ctl(enc, OPUS_SET_BANDWIDTH(bws[bwi]));
   }
   opus_encoder_ctl(enc, OPUS_SET_BITRATE(vrange(r, 6000, hybrid ? 40000 : 30000) * ch));
   opus_encoder_ctl(enc, OPUS_SET_DTX(vchance(r, 40)));
   opus_encoder_ctl(enc, OPUS_SET_INBAND_FEC(vchance(r, 40)));
   opus_encoder_ctl(enc, OPUS_SET_PACKET_LOSS_PERC(vrange(r, 0, 30)));
   opus_encoder_ctl(enc, OPUS_SET_COMPLEXITY(vrange(r, 0, 4)));
   /* loss schedule: first burst may start at packet 0 (loss right after creation) */
   gap = vchance(r, 25) ? 0 : vrange(r, 2, 12);
   for (k = 0; k < npk; k++) {
      int lost;
      sig_fill(r, &s, pcm, n, ch, efs, loud);
      plen = opus_encode(enc, pcm, n, pkt, sizeof pkt);
      if (plen < 1) break;
      if (malformed && k > 2) { int j; for (j = 1; j < plen; j++) pkt[j] = (unsigned char)vbelow(r, 256); }
      if (!hybrid && !malformed && efs >= 16000 && vchance(r, 6)) { bwi = vbelow(r, efs >= 16000 ? 3 : efs >= 12000 ? 2 : 1); opus_encoder_ctl(enc, OPUS_SET_BANDWIDTH(bws[bwi])); }
      if (gap > 0) { gap--; lost = 0; if (gap == 0) burst = vchance(r, 15) ? vrange(r, 8, 20) : vrange(r, 1, 5); }
      else if (burst > 0) { burst--; lost = 1; if (burst == 0) gap = vrange(r, 1, 10); }
      else { burst = vchance(r, 15) ? vrange(r, 8, 20) : vrange(r, 1, 5); burst--; lost = 1; if (burst == 0) gap = vrange(r, 1, 10); }
      if (lost) {
         opus_decode(dec, NULL, 0, out, fsz, 0);
      } else {
         unsigned char *q = vexact(pkt, plen);
         if (prevlen == -1 && vchance(r, 50)) opus_decode(dec, q, plen, out, fsz, 1);       /* FEC decode of the packet before */
         opus_decode(dec, q, plen, out, 5760, 0);
         free(q);
      }
      prevlen = lost ? -1 : plen;
      if (vchance(r, 3)) { opus_decoder_ctl(dec, OPUS_RESET_STATE); if (vchance(r, 60)) { burst = vrange(r, 1, 4); gap = 0; } }
   }
   free(pcm); free(out); opus_encoder_destroy(enc); opus_decoder_destroy(dec);
}

int main(int argc, char **argv)
{
   vrng r; int i, ns;
   vinstall_traps();
   if (argc >= 7 && !strcmp(argv[1], "glue1")) {
      static silk_decoder_state st; opus_int16 fr[MAX_FRAME_LENGTH]; int n = 0; char *tok;
      memset(&st, 0, sizeof st);
      st.lossCnt = atoi(argv[2]); st.sPLC.last_frame_lost = atoi(argv[3]); st.sPLC.conc_energy = atoi(argv[4]); st.sPLC.conc_energy_shift = atoi(argv[5]);
      for (tok = strtok(argv[6], ","); tok && n < MAX_FRAME_LENGTH; tok = strtok(NULL, ",")) fr[n++] = (opus_int16)atoi(tok);
      g_mode = 0;
      hook_glue(&st, fr, n);
      return 0;
   }
   if (argc < 4) { fprintf(stderr, "usage: %s tie|search <seed> <sessions>\n", argv[0]); return 2; }
   g_mode = !strcmp(argv[1], "search");
   r.s = (uint64_t)strtoull(argv[2], NULL, 10) * 0x9E3779B97F4A7C15ULL + 0xC09511;
   ns = atoi(argv[3]);
   for (i = 0; i < ns; i++) session(&r, i);
   printf("# silkplc %s seed=%s sessions=%d conceal=%ld upd=%ld cng=%ld glue=%ld witnesses=%ld\n", argv[1], argv[2], ns, g_n[0], g_n[1], g_n[2], g_n[3], g_w);
   printf("# stats voiced=%ld unvoiced=%ld firstlost=%ld burst>=6=%ld after-reset=%ld rate-reset=%ld nb_subfr2=%ld fs8=%ld fs12=%ld fs16=%ld glue-ramp=%ld cng-update=%ld cng-generate=%ld rand_scale>1.0=%ld glue-gain>1.0=%ld\n",
          g_stat[ST_VOICED], g_stat[ST_UNVOICED], g_stat[ST_FIRSTLOST], g_stat[ST_LONGBURST], g_stat[ST_AFTERRESET], g_stat[ST_RESETRATE], g_stat[ST_NB2],
          g_stat[ST_FS8], g_stat[ST_FS12], g_stat[ST_FS16], g_stat[ST_GLUERAMP], g_stat[ST_CNGUPD], g_stat[ST_CNGGEN], g_stat[ST_GAINGT1], g_stat[15]);
   return 0;
}
