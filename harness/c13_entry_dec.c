/* c13_entry_dec.c — decoder half of the C13 entry-point tie: src/opus_decoder.c included with every CALL of
   opus_decode_native(st, ...) redirected to a stub that records the flags and writes a prescribed float block
   into the buffer it is given; the real opus_decode / opus_decode24 / opus_decode_float then post-process it. */
#include "vcommon.h"
#ifdef HAVE_CONFIG_H
#include "config.h"
#endif
#define C13_CAT_(a, b) a##b
#define C13_CAT(a, b) C13_CAT_(a, b)
#define opus_decode_native(a, ...) C13_CAT(c13_dec_sel_, a), __VA_ARGS__)
#define c13_dec_sel_st c13_capture_dec(st
#define c13_dec_sel_OpusDecoder c13_real_dec(OpusDecoder
#include "opus.h"
#include "arch.h"
#include "opus_private.h"
static int c13_capture_dec(OpusDecoder *st, const unsigned char *data, opus_int32 len, opus_res *pcm, int frame_size,
      int decode_fec, int self_delimited, opus_int32 *packet_offset, int soft_clip, const OpusDRED *dred, opus_int32 dred_offset);
#include "opus_decoder.c"

static struct { int called, frame_size, soft_clip, fec, sd, po_null, dred_null; opus_int32 len, dred_offset; const unsigned char *data; void *pcm; } dc;
static const float *g_block; static int g_ret;

static int c13_capture_dec(OpusDecoder *st, const unsigned char *data, opus_int32 len, opus_res *pcm, int frame_size,
      int decode_fec, int self_delimited, opus_int32 *packet_offset, int soft_clip, const OpusDRED *dred, opus_int32 dred_offset)
{
   int n = g_ret < frame_size ? g_ret : frame_size;
   dc.called = 1; dc.frame_size = frame_size; dc.soft_clip = soft_clip; dc.fec = decode_fec; dc.sd = self_delimited;
   dc.po_null = packet_offset == NULL; dc.dred_null = dred == NULL; dc.dred_offset = dred_offset; dc.len = len; dc.data = data; dc.pcm = pcm;
   if (n > 0) memcpy(pcm, g_block, sizeof(float) * (size_t)n * st->channels);
   return n;
}

static uint32_t f2u(float f) { uint32_t u; memcpy(&u, &f, 4); return u; }
static const uint32_t dsp[] = {0, 0x80000000u, 0x3f800000u, 0xbf800000u, 0x3f7fffffu, 0x3f7fff00u, 0x37000000u, 0x37c00000u, 0x34400000u, 0x34a00000u,
                               0x40000000u, 0xc0000000u, 0x43800000u, 0x7f800000u, 0xff800000u, 0x00000001u, 0x4b000000u};

void c13_run_dec(uint64_t seed, long n)
{
   static const int rates[] = {8000, 12000, 16000, 24000, 48000};
   vrng r; long k; r.s = seed ^ 0xDEC0;
   for (k = 0; k < n; k++) {
      int Fs = rates[vbelow(&r, 5)], ch = vrange(&r, 1, 2), err, fmt = vbelow(&r, 3), i, ret, nb, fs, fec, uses, nout;
      unsigned char pkt[8]; const unsigned char *data; opus_int32 len;
      OpusDecoder *d = opus_decoder_create(Fs, ch, &err);
      float *block; const char *op = fmt == 0 ? "dec16" : fmt == 1 ? "dec24" : "decf";
      /* a code-0 packet: TOC config picks the duration (SILK NB 10/20 ms, CELT NB 2.5/5/10/20 ms) */
      { static const int tocs[] = {0x00, 0x08, 0x80, 0x88, 0x90, 0x98}; pkt[0] = (unsigned char)tocs[vbelow(&r, 6)]; pkt[1] = 0; pkt[2] = 0; }
      len = 3; data = vchance(&r, 20) ? NULL : pkt; fec = data && vchance(&r, 20);
      nb = opus_packet_get_nb_samples(pkt, len, Fs);
      fs = vchance(&r, 50) ? nb : vchance(&r, 50) ? nb * vrange(&r, 2, 3) : vrange(&r, 1, nb);
      if (!data) fs = Fs / 400 * (1 << vbelow(&r, 4));
      uses = data != NULL && !fec;
      { int fsd = (uses && fmt != 2 && nb < fs) ? nb : fs; g_ret = vchance(&r, 80) ? fsd : vrange(&r, 1, fsd); nout = g_ret; }
      if (nout > 200) { g_ret = nout = 200; }
      block = (float *)malloc(4 * (size_t)(nout * ch + 1));
      for (i = 0; i < nout * ch; i++) { uint32_t u = vchance(&r, 20) ? dsp[vbelow(&r, sizeof dsp / sizeof dsp[0])] : vchance(&r, 30) ? (uint32_t)vnext(&r) : f2u((float)(1.2 * ((double)(vnext(&r) >> 11) / 4503599627370496.0 - 1.0)));
         if (((u >> 23) & 255) == 255 && (u & 0x7fffff)) u = 0x7f800000u;   /* NaN is outside the property */
         memcpy(&block[i], &u, 4); }
      g_block = block; memset(&dc, 0, sizeof dc);
      printf("I pcm %s %d %d %d ", op, fs, nb, uses); vhex(stdout, (unsigned char *)block, 4L * nout * ch); printf("\n"); fflush(stdout);
      if (fmt == 0) {
         opus_int16 *o = (opus_int16 *)malloc(2 * (size_t)(fs * ch + 1));
         ret = opus_decode(d, data, data ? len : 0, o, fs, fec);
         printf("O clip=%d fs=%d out=", dc.soft_clip, dc.frame_size);
         for (i = 0; i < ret * ch; i++) printf("%s%d", i ? "," : "", o[i]);
         free(o);
      } else if (fmt == 1) {
         opus_int32 *o = (opus_int32 *)malloc(4 * (size_t)(fs * ch + 1));
         ret = opus_decode24(d, data, data ? len : 0, o, fs, fec);
         printf("O clip=%d fs=%d out=", dc.soft_clip, dc.frame_size);
         for (i = 0; i < ret * ch; i++) printf("%s%d", i ? "," : "", o[i]);
         free(o);
      } else {
         float *o = (float *)malloc(4 * (size_t)(fs * ch + 1));
         ret = opus_decode_float(d, data, data ? len : 0, o, fs, fec);
         printf("O clip=%d fs=%d out=", dc.soft_clip, dc.frame_size);
         for (i = 0; i < ret * ch; i++) printf("%s%u", i ? "," : "", f2u(o[i]));
         if (dc.pcm != (void *)o) printf(" buffer=COPIED");
         free(o);
      }
      if (ret * ch == 0) printf("-");
      if (!dc.called || ret != nout || dc.fec != fec || dc.sd != 0 || !dc.po_null || !dc.dred_null || dc.dred_offset != 0 || dc.data != data || dc.len != (data ? len : 0))
         printf(" args=MISMATCH(called=%d ret=%d fec=%d sd=%d)", dc.called, ret, dc.fec, dc.sd);
      printf("\n");
      free(block); opus_decoder_destroy(d);
   }
}
