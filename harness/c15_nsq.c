/* c15_nsq.c — correspondence harness for the integer pieces of the SILK noise-shaping quantiser kernels that have a Lean
   model (property C15, extension round).  The TU #includes silk/NSQ.c, silk/x86/NSQ_sse4_1.c and
   silk/x86/NSQ_del_dec_avx2.c from /repo's working tree to reach the static functions; it is compiled with the
   library's flags plus -msse4.1 -mavx2 -mfma.  The library's own NSQ objects are not linked (this TU defines their symbols).

      scale <seed> <n>     silk_nsq_scale_states (NSQ.c) and silk_nsq_scale_states_sse4_1 (NSQ_sse4_1.c) on the same
                           arguments and state: 8/12/16 kHz geometry and odd sub-frame / memory lengths (vector tails),
                           gains over the whole positive 32-bit range, equal / changed gain, voiced / unvoiced,
                           re-whitening on / off, state values over the whole 32-bit range
                           I kernels nsqscale c,sse4_1 <args…>      O c=<state> sse4_1=<state>
      helpers <seed> <n>   silk_INVERSE32_varQ, silk_DIV32_varQ (silk/Inlines.h), silk_sar_round_smulww
                           (NSQ_del_dec_avx2.c) against the C expression RSHIFT_ROUND(SMULWW)
      lanes <seed> <n>     the 4-lane helpers of NSQ_del_dec_avx2.c (silk_mm_add_sat_epi32, _sub_sat_, _limit_, _smulww_, _smulwb_,
                           _srai_round_ over the whole range, silk_mm256_rand_epi32) against the C macros, lane by lane
      stdin                re-run recorded `kernels nsqscale|invvarq|divvarq|sarround|lane` lines */
#include "vcommon.h"
#include "silk/NSQ.c"
#include "silk/x86/NSQ_sse4_1.c"
#include "silk/x86/NSQ_del_dec_avx2.c"

static long g_cases = 0;
static void pl32(const opus_int32 *p, int n) { int i; if (!n) printf("-"); for (i = 0; i < n; i++) printf("%s%d", i ? "," : "", (int)p[i]); }
static void pl16(const opus_int16 *p, int n) { int i; if (!n) printf("-"); for (i = 0; i < n; i++) printf("%s%d", i ? "," : "", (int)p[i]); }

typedef struct {
   int subfr_length, ltp_mem_length, lag, subfr, ltp_scale, gain, signal_type, rewhite, ltp_buf_idx, shp_buf_idx;
   int nltp;                                  /* entries of sLTP / sLTP_Q15 */
   opus_int16 x16[512]; opus_int16 sLTP[1024];
   opus_int32 shp[2 * MAX_FRAME_LENGTH], ltpQ15[1024], lpc[16], ar2[MAX_SHAPE_LPC_ORDER], lfAr, diff, prev_gain;
} sc_case;

static void print_state(const char *name, const sc_case *c, const silk_nsq_state *N, const opus_int32 *xsc, const opus_int32 *ltp)
{
   printf(" %s=xsc:", name); pl32(xsc, c->subfr_length);
   printf(";shp:"); pl32(N->sLTP_shp_Q14, 2 * MAX_FRAME_LENGTH);
   printf(";ltp:"); pl32(ltp, c->nltp);
   printf(";lf:%d;diff:%d;lpc:", (int)N->sLF_AR_shp_Q14, (int)N->sDiff_shp_Q14); pl32(N->sLPC_Q14, 16);
   printf(";ar2:"); pl32(N->sAR2_Q14, MAX_SHAPE_LPC_ORDER);
   printf(";prev:%d", (int)N->prev_gain_Q16);
}

static void emit_scale(const sc_case *c)
{
   int v;
   printf("I kernels nsqscale c,sse4_1 %d %d ", c->subfr_length, c->ltp_mem_length);
   pl16(c->x16, c->subfr_length); printf(" "); pl16(c->sLTP, c->nltp);
   printf(" %d %d %d %d %d %d %d %d ", c->lag, c->subfr, c->ltp_scale, c->gain, c->signal_type, c->rewhite, c->ltp_buf_idx, c->shp_buf_idx);
   pl32(c->shp, 2 * MAX_FRAME_LENGTH); printf(" "); pl32(c->ltpQ15, c->nltp);
   printf(" %d %d ", (int)c->lfAr, (int)c->diff); pl32(c->lpc, 16); printf(" "); pl32(c->ar2, MAX_SHAPE_LPC_ORDER);
   printf(" %d\n", (int)c->prev_gain); fflush(stdout);
   printf("O");
   for (v = 0; v < 2; v++) {
      static silk_encoder_state enc; static silk_nsq_state N;
      opus_int32 gains[MAX_NB_SUBFR]; opus_int pitchL[MAX_NB_SUBFR]; int k;
      /* exact-size heap copies so that ASan sees a vector loop running past its range */
      opus_int16 *x16 = (opus_int16 *)vexact((const unsigned char *)c->x16, c->subfr_length * sizeof(opus_int16));
      opus_int16 *sLTP = (opus_int16 *)vexact((const unsigned char *)c->sLTP, c->nltp * sizeof(opus_int16));
      opus_int32 *ltp = (opus_int32 *)vexact((const unsigned char *)c->ltpQ15, c->nltp * sizeof(opus_int32));
      opus_int32 *xsc = (opus_int32 *)malloc((c->subfr_length ? c->subfr_length : 1) * sizeof(opus_int32));
      memset(&enc, 0, sizeof enc); memset(&N, 0, sizeof N);
      enc.subfr_length = c->subfr_length; enc.ltp_mem_length = c->ltp_mem_length;
      memcpy(N.sLTP_shp_Q14, c->shp, sizeof N.sLTP_shp_Q14);
      memcpy(N.sLPC_Q14, c->lpc, 16 * sizeof(opus_int32)); memcpy(N.sAR2_Q14, c->ar2, sizeof N.sAR2_Q14);
      N.sLF_AR_shp_Q14 = c->lfAr; N.sDiff_shp_Q14 = c->diff; N.prev_gain_Q16 = c->prev_gain;
      N.rewhite_flag = c->rewhite; N.sLTP_buf_idx = c->ltp_buf_idx; N.sLTP_shp_buf_idx = c->shp_buf_idx;
      for (k = 0; k < MAX_NB_SUBFR; k++) { gains[k] = 65536; pitchL[k] = 100; }
      gains[c->subfr] = c->gain; pitchL[c->subfr] = c->lag;
      for (k = 0; k < c->subfr_length; k++) xsc[k] = 0x55555555;
      if (v == 0) silk_nsq_scale_states(&enc, &N, x16, xsc, sLTP, ltp, c->subfr, c->ltp_scale, gains, pitchL, c->signal_type);
      else silk_nsq_scale_states_sse4_1(&enc, &N, x16, xsc, sLTP, ltp, c->subfr, c->ltp_scale, gains, pitchL, c->signal_type);
      print_state(v ? "sse4_1" : "c", c, &N, xsc, ltp);
      free(x16); free(sLTP); free(ltp); free(xsc);
   }
   printf("\n"); g_cases++;
}

static opus_int32 r32(vrng *r)
{
   int m = vbelow(r, 10);
   if (m < 4) return (opus_int32)vnext(r);
   if (m < 7) return vrange(r, -(1 << 20), 1 << 20);
   if (m < 8) return vchance(r, 50) ? 2147483647 : (-2147483647 - 1);
   if (m < 9) return vrange(r, -3, 3);
   return (opus_int32)(vnext(r) & 0xFFFF0000u);
}
static opus_int32 rgain(vrng *r)
{
   int m = vbelow(r, 10);
   if (m < 5) { double lg = log(81920.0) + (log(1686110208.0) - log(81920.0)) * (double)vbelow(r, 100001) / 100000.0; return (opus_int32)exp(lg); }
   if (m < 7) return 1 + (opus_int32)vbelow(r, 2147483646u);
   if (m < 8) return vchance(r, 50) ? 1 : 2147483647;
   if (m < 9) return 1 << vrange(r, 0, 30);
   return (1 << vrange(r, 1, 30)) + vrange(r, -1, 1);
}

static void gen_scale(vrng *r, sc_case *c)
{
   int fs = 8 + 4 * (int)vbelow(r, 3), frame, i;
   memset(c, 0, sizeof *c);
   c->subfr_length = vchance(r, 70) ? 5 * fs : vrange(r, 0, 80);
   c->ltp_mem_length = vchance(r, 70) ? 20 * fs : vrange(r, 0, 320);
   frame = 4 * c->subfr_length;
   c->subfr = vbelow(r, 4);
   c->nltp = c->ltp_mem_length + frame; if (c->nltp < 8) c->nltp = 8;
   c->ltp_buf_idx = c->ltp_mem_length + c->subfr * c->subfr_length;
   c->shp_buf_idx = c->ltp_mem_length + c->subfr * c->subfr_length;
   if (c->ltp_buf_idx > c->nltp) c->ltp_buf_idx = c->nltp;
   /* lag: ltp_buf_idx - lag - 2 >= 0 (the caller asserts start_idx > 0) */
   { int maxlag = c->ltp_buf_idx - 2; if (maxlag > 18 * fs) maxlag = 18 * fs; c->lag = maxlag < 1 ? 0 : vrange(r, maxlag < 2 * fs ? 0 : 2 * fs, maxlag); if (maxlag < 0) { c->ltp_buf_idx = 2; c->lag = 0; } }
   c->ltp_scale = vchance(r, 60) ? silk_LTPScales_table_Q14[vbelow(r, 3)] : vrange(r, -32768, 32767);
   c->signal_type = vbelow(r, 3);
   c->rewhite = vchance(r, 40);
   c->prev_gain = rgain(r);
   c->gain = vchance(r, 20) ? c->prev_gain : rgain(r);
   { int st = vbelow(r, 4);
     for (i = 0; i < c->subfr_length; i++) c->x16[i] = (opus_int16)(st == 0 ? vrange(r, -32768, 32767) : st == 1 ? ((i & 1) ? 32767 : -32768) : st == 2 ? vrange(r, -100, 100) : (i * 811) % 65536 - 32768); }
   for (i = 0; i < c->nltp; i++) { c->sLTP[i] = (opus_int16)vrange(r, -32768, 32767); c->ltpQ15[i] = r32(r); }
   for (i = 0; i < 2 * MAX_FRAME_LENGTH; i++) c->shp[i] = r32(r);
   for (i = 0; i < 16; i++) c->lpc[i] = r32(r);
   for (i = 0; i < MAX_SHAPE_LPC_ORDER; i++) c->ar2[i] = r32(r);
   c->lfAr = r32(r); c->diff = r32(r);
}

static void run_scale(uint64_t seed, long n)
{
   vrng r; long i; static sc_case c;
   r.s = seed ^ 0x5CA1E5C15ULL; r.s = vnext(&r) + 77;
   for (i = 0; i < n; i++) { gen_scale(&r, &c); emit_scale(&c); }
   printf("# nsqscale cases=%ld\n", g_cases);
}

static void emit_inv(opus_int32 b, int q) { printf("I kernels invvarq %d %d\n", (int)b, q); fflush(stdout); printf("O v=%d\n", (int)silk_INVERSE32_varQ(b, q)); g_cases++; }
static void emit_div(opus_int32 a, opus_int32 b, int q) { printf("I kernels divvarq %d %d %d\n", (int)a, (int)b, q); fflush(stdout); printf("O v=%d\n", (int)silk_DIV32_varQ(a, b, q)); g_cases++; }
static void emit_sar(opus_int32 a, opus_int32 b, int bits)
{
   printf("I kernels sarround avx2,c %d %d %d\n", (int)a, (int)b, bits); fflush(stdout);
   printf("O avx2=%lld c=%lld\n", (long long)silk_sar_round_smulww(a, b, bits), (long long)silk_RSHIFT_ROUND(silk_SMULWW(a, b), bits)); g_cases++;
}
static void run_helpers(uint64_t seed, long n)
{
   vrng r; long i;
   r.s = seed ^ 0x4E1BE25ULL; r.s = vnext(&r) + 78;
   for (i = 0; i < n; i++) {
      opus_int32 g = rgain(&r), p = rgain(&r);
      emit_inv(g, 47);
      if (vchance(&r, 30)) emit_inv(vchance(&r, 50) ? g : -g, vrange(&r, 1, 47));     /* shift counts stay below 32 */
      emit_div(p, g, 16);
      if (vchance(&r, 30)) { opus_int32 a = r32(&r); if (a == -2147483647 - 1) a++;     /* silk_abs(INT_MIN) is undefined */
         emit_div(a, vchance(&r, 50) ? g : -g, 16); }
      emit_sar(r32(&r), vchance(&r, 50) ? r32(&r) : rgain(&r) >> 6, vchance(&r, 70) ? (vchance(&r, 50) ? 8 : 14) : vrange(&r, 2, 30));
   }
   /* the overflowing pair of the fixed defect */
   emit_sar(2147483647, 2147483647, 8); emit_sar(-2147483647 - 1, 26345472, 8); emit_sar(1500000000, 1000000, 14);
   printf("# helpers cases=%ld\n", g_cases);
}

static opus_int32 lane_of(__m128i v, int k) { opus_int32 t[4]; _mm_storeu_si128((__m128i *)(void *)t, v); return t[k]; }
static void emit_lane(const char *op, opus_int32 a, opus_int32 b, opus_int32 c, int k)
{
   /* the operand under test sits in lane k, the other lanes hold unrelated values */
   opus_int32 va[4] = {11, -22, 33, -44}, vb[4] = {5, 6, -7, -8}; __m128i A, B, R; opus_int32 simd = 0, ref = 0;
   va[k] = a; vb[k] = b;
   A = _mm_loadu_si128((__m128i *)(void *)va); B = _mm_loadu_si128((__m128i *)(void *)vb);
   printf("I kernels lane %s avx2,c %d %d %d\n", op, (int)a, (int)b, (int)c); fflush(stdout);
   if (!strcmp(op, "addsat")) { R = silk_mm_add_sat_epi32(A, B); ref = silk_ADD_SAT32(a, b); }
   else if (!strcmp(op, "subsat")) { R = silk_mm_sub_sat_epi32(A, B); ref = silk_SUB_SAT32(a, b); }
   else if (!strcmp(op, "limit")) { R = silk_mm_limit_epi32(A, b, c); ref = silk_LIMIT_32(a, b, c); }
   else if (!strcmp(op, "smulww")) { R = silk_mm_smulww_epi32(A, b); ref = silk_SMULWW(a, b); }
   else if (!strcmp(op, "smulwb")) { R = silk_mm_smulwb_epi32(A, b); ref = silk_SMULWB(a, b); }
   else if (!strcmp(op, "srairound")) { R = silk_mm_srai_round_epi32(A, b); ref = silk_RSHIFT_ROUND(a, b); }
   else { R = silk_mm256_rand_epi32(A); ref = silk_RAND(a); }
   simd = lane_of(R, k);
   printf("O avx2=%d c=%d\n", (int)simd, (int)ref); g_cases++;
}
static void run_lanes(uint64_t seed, long n)
{
   vrng r; long i;
   r.s = seed ^ 0x1A9E5ULL; r.s = vnext(&r) + 80;
   /* corpus: the saturated value silk_mm_sub_sat_epi32 delivers, at the shift counts the kernel uses (/repo b1d58384) */
   emit_lane("srairound", 2147483647, 4, 0, 0); emit_lane("srairound", 2147483647, 10, 0, 3);
   emit_lane("srairound", 2147483640, 4, 0, 1); emit_lane("srairound", -2147483647 - 1, 4, 0, 2);
   for (i = 0; i < n; i++) {
      opus_int32 a = r32(&r), b = r32(&r); int k = vbelow(&r, 4);
      if (vchance(&r, 30)) b = vchance(&r, 50) ? a : -a - (a == -2147483647 - 1 ? 0 : 0) ;
      emit_lane("addsat", a, b, 0, k);
      emit_lane("subsat", a, b, 0, k);
      emit_lane("smulww", a, b, 0, k);
      emit_lane("smulwb", a, b, 0, k);
      emit_lane("rand", a, 0, 0, k);
      { opus_int32 l1 = vchance(&r, 70) ? -(31 << 10) : r32(&r), l2 = vchance(&r, 70) ? 30 << 10 : r32(&r);
        if (vchance(&r, 20)) { opus_int32 t = l1; l1 = l2; l2 = t; }
        emit_lane("limit", vchance(&r, 50) ? a : vrange(&r, -40000, 40000), l1, l2, k); }
      { int bits = vchance(&r, 50) ? 4 : (vchance(&r, 50) ? 10 : vrange(&r, 2, 30));
        /* the whole 32-bit range, weighted towards the top where `a + 2^(bits-1)` would wrap */
        opus_int32 x = vchance(&r, 30) ? 2147483647 - (opus_int32)vbelow(&r, 1 << (bits > 12 ? 12 : bits)) : a;
        emit_lane("srairound", x, bits, 0, k); }
   }
   printf("# lanes cases=%ld\n", g_cases);
}

static int parse_list(const char *s, long *v, int cap)
{
   int n = 0;
   if (!strcmp(s, "-")) return 0;
   while (*s && n < cap) { char *e; v[n++] = strtol(s, &e, 10); if (e == s) return -1; s = e; if (*s == ',') s++; }
   return n;
}
static void run_stdin(void)
{
   static char line[1 << 20]; static long v[2048];
   while (fgets(line, sizeof line, stdin)) {
      char *tok[32]; int nt = 0, i; char *p = strtok(line, " \r\n");
      while (p && nt < 32) { tok[nt++] = p; p = strtok(NULL, " \r\n"); }
      if (nt >= 1 && !strcmp(tok[0], "I")) { memmove(tok, tok + 1, (nt - 1) * sizeof(char *)); nt--; }
      if (nt < 2 || strcmp(tok[0], "kernels")) { printf("O bad-line\n"); continue; }
      if (!strcmp(tok[1], "invvarq") && nt == 4) emit_inv(atoi(tok[2]), atoi(tok[3]));
      else if (!strcmp(tok[1], "divvarq") && nt == 5) emit_div(atoi(tok[2]), atoi(tok[3]), atoi(tok[4]));
      else if (!strcmp(tok[1], "sarround") && nt == 6) emit_sar(atoi(tok[3]), atoi(tok[4]), atoi(tok[5]));
      else if (!strcmp(tok[1], "lane") && nt == 7) emit_lane(tok[2], atoi(tok[4]), atoi(tok[5]), atoi(tok[6]), 2);
      else if (!strcmp(tok[1], "nsqscale") && nt == 22) {
         static sc_case c; int n;
         memset(&c, 0, sizeof c);
         c.subfr_length = atoi(tok[3]); c.ltp_mem_length = atoi(tok[4]);
         n = parse_list(tok[5], v, 512); for (i = 0; i < n; i++) c.x16[i] = (opus_int16)v[i];
         c.nltp = parse_list(tok[6], v, 1024); for (i = 0; i < c.nltp; i++) c.sLTP[i] = (opus_int16)v[i];
         c.lag = atoi(tok[7]); c.subfr = atoi(tok[8]); c.ltp_scale = atoi(tok[9]); c.gain = atoi(tok[10]); c.signal_type = atoi(tok[11]);
         c.rewhite = atoi(tok[12]); c.ltp_buf_idx = atoi(tok[13]); c.shp_buf_idx = atoi(tok[14]);
         n = parse_list(tok[15], v, 2 * MAX_FRAME_LENGTH); for (i = 0; i < n; i++) c.shp[i] = (opus_int32)v[i];
         n = parse_list(tok[16], v, 1024); for (i = 0; i < n; i++) c.ltpQ15[i] = (opus_int32)v[i];
         c.lfAr = atoi(tok[17]); c.diff = atoi(tok[18]);
         n = parse_list(tok[19], v, 16); for (i = 0; i < n; i++) c.lpc[i] = (opus_int32)v[i];
         n = parse_list(tok[20], v, MAX_SHAPE_LPC_ORDER); for (i = 0; i < n; i++) c.ar2[i] = (opus_int32)v[i];
         c.prev_gain = atoi(tok[21]);
         if (c.subfr < 0 || c.subfr > 3 || c.subfr_length > 512 || c.nltp > 1024) printf("O bad-line\n"); else emit_scale(&c);
      } else printf("O bad-line\n");
      fflush(stdout);
   }
}

int main(int argc, char **argv)
{
   vinstall_traps();
   if (argc >= 4 && !strcmp(argv[1], "scale")) run_scale(strtoull(argv[2], 0, 10), atol(argv[3]));
   else if (argc >= 4 && !strcmp(argv[1], "helpers")) run_helpers(strtoull(argv[2], 0, 10), atol(argv[3]));
   else if (argc >= 4 && !strcmp(argv[1], "lanes")) run_lanes(strtoull(argv[2], 0, 10), atol(argv[3]));
   else if (argc >= 2 && !strcmp(argv[1], "stdin")) run_stdin();
   else { fprintf(stderr, "usage: c15_nsq lanes <seed> <n> | scale <seed> <n> | helpers <seed> <n> | stdin\n"); return 64; }
   fflush(stdout);
   return 0;
}
