/* c03_silksyms.c — harness for property C03 (decoder conforms to the reference decoder; bit-stream half).

   Correspondence (suite `silksyms`): the real opus_decode() runs on a packet while link-time wrappers
   (-Wl,--wrap=…) around silk_Decode, silk_decode_indices, silk_decode_pulses, silk_stereo_decode_pred,
   silk_stereo_decode_mid_only, celt_decode_with_ec and celt_decode_with_ec_dred record, in call order,
   every decoded index, pulse array, header flag, the range-decoder state after each silk_Decode call,
   the redundancy frame handed to CELT and the state with which the main CELT decode is entered.  The
   Lean model (lean/OpusModel/SilkSyms.lean) must print the identical record from the packet bytes alone.

   Modes:  rand <seed> <n>      arbitrary / low-entropy bytes behind every SILK and hybrid TOC, all packet codes
           real <seed> <n>      n encoder streams: real packets (FEC/LBRR, DTX, stereo, transitions), FEC decodes
                                after a simulated loss, mutated packets, repacketised + padded multi-frame packets
           stdin                answer `silksyms packet …` lines (fresh decoder per line)
           search <seed> <n>    S4: decoder final range == encoder final range on n streams (no model involved)
           corpusgen <dir>      write the self-reference corpus (packets + 48 kHz PCM of the tree being built)
           corpusdec <packets> <rate> <channels> <out.s16>   decode one corpus stream (compared by src/opus_compare.c) */
#include "vcommon.h"
#include <stdarg.h>
#include <math.h>
#include "opus.h"
#include "opus_private.h"
#include "silk/main.h"
#include "silk/API.h"
#include "celt/celt.h"
#include "celt/entdec.h"
#include "celt/entenc.h"
#include "celt/rate.h"
#include "celt/modes.h"
#include "silk/tables.h"

/* ------------------------------------------------------------------ recording */
static unsigned char *g_pkt; static long g_pktlen;
static int g_recording, g_hybrid;
static void *g_silk;
static char *g_rec; static size_t g_reclen, g_reccap;
static char *g_ev; static size_t g_evlen, g_evcap;
static opus_uint32 g_red; static long g_e_off;
static long g_dist[32];

static void app(char **b, size_t *len, size_t *cap, const char *fmt, va_list ap)
{
   va_list ap2; int k;
   if (*cap - *len < 64) { *cap = *cap ? *cap * 2 : 1 << 16; *b = (char *)realloc(*b, *cap); }
   va_copy(ap2, ap);
   k = vsnprintf(*b + *len, *cap - *len, fmt, ap);
   if ((size_t)k >= *cap - *len) {
      while (*cap - *len <= (size_t)k) *cap *= 2;
      *b = (char *)realloc(*b, *cap);
      vsnprintf(*b + *len, *cap - *len, fmt, ap2);
   }
   va_end(ap2);
   *len += k;
}
static void rec(const char *fmt, ...) { va_list ap; va_start(ap, fmt); app(&g_rec, &g_reclen, &g_reccap, fmt, ap); va_end(ap); }
static void ev(const char *fmt, ...) { va_list ap; va_start(ap, fmt); app(&g_ev, &g_evlen, &g_evcap, fmt, ap); va_end(ap); }

opus_int __real_silk_Decode(void *, silk_DecControlStruct *, opus_int, opus_int, ec_dec *, opus_res *, opus_int32 *,
#ifdef ENABLE_DEEP_PLC
   LPCNetPLCState *,
#endif
   int);
opus_int __wrap_silk_Decode(void *decState, silk_DecControlStruct *ctl, opus_int lostFlag, opus_int newPacketFlag,
   ec_dec *dec, opus_res *out, opus_int32 *nOut,
#ifdef ENABLE_DEEP_PLC
   LPCNetPLCState *lpcnet,
#endif
   int arch)
{
   opus_int ret; int n, i;
   int on = g_recording && lostFlag != FLAG_PACKET_LOST;
   if (on) {
      if (newPacketFlag)
         rec(" silk@%ld fs=%d ms=%d nch=%d lost=%d", (long)(dec->buf - g_pkt), (int)ctl->internalSampleRate,
             ctl->payloadSize_ms, ctl->nChannelsInternal, lostFlag);
      g_silk = decState; g_evlen = 0; if (g_ev) g_ev[0] = 0;
   }
   ret = __real_silk_Decode(decState, ctl, lostFlag, newPacketFlag, dec, out, nOut,
#ifdef ENABLE_DEEP_PLC
      lpcnet,
#endif
      arch);
   if (on) {
      silk_decoder_state *cs = (silk_decoder_state *)decState;
      if (newPacketFlag)
         for (n = 0; n < ctl->nChannelsInternal; n++) {
            rec(" H%d:", n);
            for (i = 0; i < cs[n].nFramesPerPacket; i++) rec("%d", cs[n].VAD_flags[i]);
            rec("/%d/", cs[n].LBRR_flag);
            for (i = 0; i < MAX_FRAMES_PER_PACKET; i++) rec("%d", cs[n].LBRR_flags[i]);
         }
      if (g_evlen) rec("%s", g_ev);
      rec(" D%u,%d", (unsigned)dec->rng, ec_tell(dec));
   }
   return ret;
}

void __real_silk_decode_indices(silk_decoder_state *, ec_dec *, opus_int, opus_int, opus_int);
void __wrap_silk_decode_indices(silk_decoder_state *ps, ec_dec *dec, opus_int FrameIndex, opus_int decode_LBRR, opus_int condCoding)
{
   int i;
   __real_silk_decode_indices(ps, dec, FrameIndex, decode_LBRR, condCoding);
   if (!g_recording) return;
   {
      const SideInfoIndices *x = &ps->indices;
      ev(" X%d,%d,%d,%d:s%d,q%d,g", (int)(ps - (silk_decoder_state *)g_silk), FrameIndex, decode_LBRR, condCoding,
         x->signalType, x->quantOffsetType);
      for (i = 0; i < ps->nb_subfr; i++) ev("%s%d", i ? "." : "", x->GainsIndices[i]);
      ev(",n");
      for (i = 0; i <= ps->LPC_order; i++) ev("%s%d", i ? "." : "", x->NLSFIndices[i]);
      ev(",i%d", x->NLSFInterpCoef_Q2);
      if (x->signalType == TYPE_VOICED) {
         ev(",l%d,c%d,p%d,t", x->lagIndex, x->contourIndex, x->PERIndex);
         for (i = 0; i < ps->nb_subfr; i++) ev("%s%d", i ? "." : "", x->LTPIndex[i]);
         ev(",k%d", x->LTP_scaleIndex);
      }
      ev(",d%d", x->Seed);
      g_dist[x->signalType & 3]++;
      if (decode_LBRR) g_dist[4]++;
      if (condCoding == CODE_CONDITIONALLY) g_dist[5]++;
      if (condCoding == CODE_INDEPENDENTLY_NO_LTP_SCALING) g_dist[6]++;
   }
}

void __real_silk_decode_pulses(ec_dec *, opus_int16 *, const opus_int, const opus_int, const opus_int);
void __wrap_silk_decode_pulses(ec_dec *dec, opus_int16 *pulses, const opus_int signalType, const opus_int quantOffsetType,
   const opus_int frame_length)
{
   int i, n = (frame_length + SHELL_CODEC_FRAME_LENGTH - 1) & ~(SHELL_CODEC_FRAME_LENGTH - 1), big = 0;
   __real_silk_decode_pulses(dec, pulses, signalType, quantOffsetType, frame_length);
   if (!g_recording) return;
   ev(" Q%d,%d,%d:", signalType, quantOffsetType, frame_length);
   for (i = 0; i < n; i++) { ev("%s%d", i ? "." : "", pulses[i]); if (pulses[i] > 16 || pulses[i] < -16) big = 1; }
   if (big) g_dist[7]++;
   { int mx = 0; for (i = 0; i < n; i++) { int a = pulses[i] < 0 ? -pulses[i] : pulses[i]; if (a > mx) mx = a; } if (mx >= 8192) g_dist[15]++; }
}

void __real_silk_stereo_decode_pred(ec_dec *, opus_int32 *);
void __wrap_silk_stereo_decode_pred(ec_dec *dec, opus_int32 *pred_Q13)
{
   __real_silk_stereo_decode_pred(dec, pred_Q13);
   if (g_recording) { ev(" P%d,%d", pred_Q13[0], pred_Q13[1]); g_dist[8]++; }
}
void __real_silk_stereo_decode_mid_only(ec_dec *, opus_int *);
void __wrap_silk_stereo_decode_mid_only(ec_dec *dec, opus_int *flag)
{
   __real_silk_stereo_decode_mid_only(dec, flag);
   if (g_recording) { ev(" M%d", *flag); if (*flag) g_dist[9]++; }
}

/* ---- stage 2: the CELT header.  While g_celt_on is set (from the entry of a CELT decode of packet data to the
   entry of clt_compute_allocation) every entropy-decoder call is recorded with its parameters and result. */
static int g_celt_on;
int __real_ec_dec_bit_logp(ec_dec *, unsigned);
int __wrap_ec_dec_bit_logp(ec_dec *d, unsigned logp)
{ int v = __real_ec_dec_bit_logp(d, logp); if (g_celt_on) { rec(" b%u=%d", logp, v); if (g_celt_on == 2 && logp == 2) g_dist[25]++; } return v; }
opus_uint32 __real_ec_dec_uint(ec_dec *, opus_uint32);
opus_uint32 __wrap_ec_dec_uint(ec_dec *d, opus_uint32 ft)
{ opus_uint32 v = __real_ec_dec_uint(d, ft); if (g_celt_on) { rec(" u%u=%u", (unsigned)ft, (unsigned)v); if (g_celt_on == 2) { g_dist[28]++; if (ft >= (1u << 24)) g_dist[24]++; } } return v; }
opus_uint32 __real_ec_dec_bits(ec_dec *, unsigned);
opus_uint32 __wrap_ec_dec_bits(ec_dec *d, unsigned n)
{ opus_uint32 v = __real_ec_dec_bits(d, n); if (g_celt_on) rec(" r%u=%u", n, (unsigned)v); return v; }
int __real_ec_dec_icdf(ec_dec *, const unsigned char *, unsigned);
int __wrap_ec_dec_icdf(ec_dec *d, const unsigned char *icdf, unsigned ftb)
{
   int v = __real_ec_dec_icdf(d, icdf, ftb);
   if (g_celt_on) { int k = 0; rec(" i%u:", ftb); do { rec("%s%u", k ? "." : "", icdf[k]); } while (icdf[k++] != 0 && k < 64); rec("=%d", v); }
   return v;
}
unsigned __real_ec_decode_bin(ec_dec *, unsigned);
unsigned __wrap_ec_decode_bin(ec_dec *d, unsigned bits)
{ unsigned v = __real_ec_decode_bin(d, bits); if (g_celt_on) rec(" d%u=%u", bits, v); return v; }
unsigned __real_ec_decode(ec_dec *, unsigned);
unsigned __wrap_ec_decode(ec_dec *d, unsigned ft)
{ unsigned v = __real_ec_decode(d, ft); if (g_celt_on) { rec(" e%u=%u", ft, v); g_dist[23]++; } return v; }
void __real_ec_dec_update(ec_dec *, unsigned, unsigned, unsigned);
void __wrap_ec_dec_update(ec_dec *d, unsigned fl, unsigned fh, unsigned ft)
{ if (g_celt_on) rec(" p%u,%u,%u", fl, fh, ft); __real_ec_dec_update(d, fl, fh, ft); }
int __real_clt_compute_allocation(const CELTMode *, int, int, const int *, const int *, int, int *, int *, opus_int32,
      opus_int32 *, int *, int *, int *, int, int, ec_ctx *, int, int, int);
int __wrap_clt_compute_allocation(const CELTMode *m, int start, int end, const int *offsets, const int *cap, int alloc_trim,
      int *intensity, int *dual_stereo, opus_int32 total, opus_int32 *balance, int *pulses, int *ebits, int *fine_priority,
      int C, int LM, ec_ctx *ec, int encode, int prev, int signalBandwidth)
{
   int on = g_celt_on && !encode, ret;
   if (on) {
      int i;
      rec(" A%d,%d,%d,%d,%d,%d:", start, end, C, LM, alloc_trim, (int)total);
      for (i = start; i < end; i++) rec("%s%d", i > start ? "." : "", offsets[i]);
      rec(":");
      for (i = 0; i < 21; i++) rec("%s%d", i ? "." : "", cap[i]);
      rec(":%u,%u", (unsigned)ec->rng, (unsigned)ec_tell_frac(ec));
      g_dist[3]++;
   }
   ret = __real_clt_compute_allocation(m, start, end, offsets, cap, alloc_trim, intensity, dual_stereo, total, balance,
      pulses, ebits, fine_priority, C, LM, ec, encode, prev, signalBandwidth);
   if (on) {      /* the calls made inside were recorded; now the results */
      int i;
      rec(" L%d,%d,%d,%d:", ret, *intensity, *dual_stereo, (int)*balance);
      for (i = start; i < end; i++) rec("%s%d", i > start ? "." : "", pulses[i]);
      rec(":");
      for (i = start; i < end; i++) rec("%s%d", i > start ? "." : "", ebits[i]);
      rec(":");
      for (i = start; i < end; i++) rec("%s%d", i > start ? "." : "", fine_priority[i]);
      g_celt_on = 2;
      g_dist[16 + (LM & 3)]++; g_dist[20] += C == 2; g_dist[21] += *dual_stereo != 0; g_dist[22] += C == 2 && *intensity < ret;
      g_dist[26] += start == 17; g_dist[27] += ret < end;
   }
   return ret;
}

int __real_celt_decode_with_ec(CELTDecoder *, const unsigned char *, int, opus_res *, int, ec_dec *, int);
int __wrap_celt_decode_with_ec(CELTDecoder *st, const unsigned char *data, int len, opus_res *pcm, int frame_size, ec_dec *dec, int accum)
{
   int inpkt = g_recording && data != NULL && data >= g_pkt && data <= g_pkt + g_pktlen, ret;
   if (inpkt && len > 1) g_celt_on = 1;      /* redundancy frame: its header precedes the E token */
   ret = __real_celt_decode_with_ec(st, data, len, pcm, frame_size, dec, accum);
   g_celt_on = 0;
   if (inpkt) {
      opus_uint32 r = 0;
      celt_decoder_ctl(st, OPUS_GET_FINAL_RANGE(&r));
      g_red = r; g_e_off = (long)(data - g_pkt);
      if (len > 1) rec(" Z%u", (unsigned)r);
      rec(" E%ld,%d", g_e_off, len);
      g_dist[10]++;
   }
   return ret;
}
int __real_celt_decode_with_ec_dred(CELTDecoder *, const unsigned char *, int, opus_res *, int, ec_dec *, int
#ifdef ENABLE_DEEP_PLC
   , LPCNetPLCState *
#endif
   );
int __wrap_celt_decode_with_ec_dred(CELTDecoder *st, const unsigned char *data, int len, opus_res *pcm, int frame_size, ec_dec *dec, int accum
#ifdef ENABLE_DEEP_PLC
   , LPCNetPLCState *lpcnet
#endif
   )
{
   int ret, on = 0;
   if (g_recording && data != NULL && dec != NULL && data >= g_pkt && data <= g_pkt + g_pktlen) {
      on = len > 1;
      if (g_hybrid) { rec(" C%d,%u,%u,%d", len, (unsigned)dec->storage, (unsigned)dec->rng, ec_tell(dec)); g_dist[11]++; }
      else if (len > 1) rec(" celt@%ld", (long)(data - g_pkt));
      if (len > 1) g_celt_on = 1;
   }
   ret = __real_celt_decode_with_ec_dred(st, data, len, pcm, frame_size, dec, accum
#ifdef ENABLE_DEEP_PLC
      , lpcnet
#endif
      );
   g_celt_on = 0;
   if (on) { if (ret < 0) rec(" %s", verr(ret)); else rec(" Z%u", (unsigned)dec->rng); }
   return ret;
}

/* ------------------------------------------------------------------ one case */
typedef struct { OpusDecoder *d; int Fs, ch, stmode_celt; } vdec;
static const int RATES[5] = {8000, 12000, 16000, 24000, 48000};
static opus_int16 g_pcm[5760 * 2];

static void vdec_open(vdec *D, int Fs, int ch)
{
   int err;
   D->d = opus_decoder_create(Fs, ch, &err); D->Fs = Fs; D->ch = ch; D->stmode_celt = 0;
   if (!D->d) { fprintf(stderr, "decoder create failed %d\n", err); exit(9); }
}
static void vdec_close(vdec *D) { if (D->d) opus_decoder_destroy(D->d); D->d = NULL; }

static void do_packet(vdec *D, int fec, const unsigned char *pkt, long n)
{
   int frame_size, ret;
   printf("I silksyms packet %d %d %d %d ", D->Fs, D->ch, fec, D->stmode_celt); vhex(stdout, pkt, n); printf("\n");
   g_pkt = vexact(pkt, n); g_pktlen = n; g_reclen = 0; if (g_rec) g_rec[0] = 0;
   g_red = 0; g_e_off = -1; g_hybrid = (pkt[0] & 0xE0) == 0x60;
   frame_size = fec ? opus_packet_get_samples_per_frame(g_pkt, D->Fs) : D->Fs / 25 * 3;
   g_recording = 1;
   ret = opus_decode(D->d, g_pkt, (opus_int32)n, g_pcm, frame_size, fec);
   g_recording = 0;
   if (ret < 0) printf("O %s\n", verr(ret));
   else {
      opus_uint32 fin = 0; unsigned char toc; const unsigned char *fr[48]; opus_int16 sz[48]; int poff, cnt;
      int celt = (pkt[0] & 0x80) != 0;
      opus_decoder_ctl(D->d, OPUS_GET_FINAL_RANGE(&fin));
      printf("O OK ret=%d%s ", ret, g_reclen ? g_rec : "");
      cnt = opus_packet_parse(g_pkt, (opus_int32)n, &toc, fr, sz, &poff);
      (void)cnt; printf("F%u\n", (unsigned)fin);
      if (!fec || !(celt || D->stmode_celt)) D->stmode_celt = celt;
      g_dist[12] += fec; g_dist[13] += celt; g_dist[14] += g_hybrid;
   }
   free(g_pkt); g_pkt = NULL;
}

/* ------------------------------------------------------------------ synthetic packets */
static long put_size(unsigned char *o, int s) { if (s < 252) { o[0] = s; return 1; } o[0] = 252 + (s & 3); o[1] = (s - o[0]) >> 2; return 2; }

static void fill_bytes(vrng *r, unsigned char *o, int n)
{
   int style = vbelow(r, 10), i;
   static const unsigned char pal[6] = {0x00, 0xff, 0x80, 0x7f, 0x01, 0xfe};
   if (style < 5) for (i = 0; i < n; i++) o[i] = (unsigned char)vnext(r);
   else if (style < 8) for (i = 0; i < n; i++) o[i] = vchance(r, 70) ? pal[vbelow(r, 6)] : (unsigned char)vnext(r);
   else { unsigned char b = pal[vbelow(r, 6)]; for (i = 0; i < n; i++) o[i] = vchance(r, 90) ? b : (unsigned char)vnext(r); }
}
static int frame_len(vrng *r)
{
   int k = vbelow(r, 100);
   if (k < 4) return vbelow(r, 2);
   if (k < 18) return vrange(r, 2, 12);
   if (k < 65) return vrange(r, 13, 60);
   if (k < 93) return vrange(r, 61, 200);
   return vrange(r, 201, 700);
}
static long gen_synth(vrng *r, unsigned char *o)
{
   int config = vchance(r, 72) ? (int)vbelow(r, 16) : 16 + (int)vbelow(r, 16);
   int stereo = vbelow(r, 2), code = vchance(r, 72) ? 0 : 1 + (int)vbelow(r, 3);
   long n = 0; int i, count, sizes[8], vbr = 0, pad = 0;
   o[n++] = config * 8 + stereo * 4 + code;
   if (code == 0) count = 1; else if (code < 3) count = 2; else { count = vrange(r, 1, 3); vbr = vbelow(r, 2); pad = vchance(r, 40) ? vrange(r, 1, 20) : 0; }
   sizes[0] = frame_len(r);
   for (i = 1; i < count; i++) sizes[i] = (code == 1 || (code == 3 && !vbr)) ? sizes[0] : frame_len(r);
   if (code == 3) {
      /* 60 ms x 3 > 120 ms is rejected by the decoder: keep the count legal most of the time */
      if ((config & 3) == 3 && config < 12 && count > 2 && vchance(r, 90)) count = 2;
      if ((config & 3) == 2 && config < 12 && count > 3) count = 3;
      o[n++] = count | (pad ? 64 : 0) | (vbr ? 128 : 0);
      if (pad) o[n++] = pad;
   }
   if (code == 2 || (code == 3 && vbr)) for (i = 0; i < count - 1; i++) n += put_size(o + n, sizes[i]);
   for (i = 0; i < count; i++) { fill_bytes(r, o + n, sizes[i]); n += sizes[i]; }
   for (i = 0; i < pad; i++) o[n++] = 0;
   return n;
}


/* ------------------------------------------------------------------ structured packets
   A rough SILK payload serialiser (generator only: whatever it emits is a legal input, its job is to
   steer the decoder into rare paths — deep LSB chains, NLSF extension symbols, delta-coded lags that
   drift, LBRR frames in every flag pattern, every rate level).  Indices go through the library's own
   silk_encode_indices; pulses are emitted symbol by symbol. */
static void emit_split(ec_enc *enc, vrng *r, int p, const opus_uint8 *tbl, int *c1, int *c2)
{
   if (p > 0) { int a = vbelow(r, (uint32_t)p + 1); if (vchance(r, 15)) a = vchance(r, 50) ? 0 : p;
      ec_enc_icdf(enc, a, &tbl[silk_shell_code_table_offsets[p]], 8); *c1 = a; *c2 = p - a; }
   else { *c1 = 0; *c2 = 0; }
}
static void emit_shell(ec_enc *enc, vrng *r, int p4, int *q)
{
   int p3[2], p2[4], p1[8], a, b;
   emit_split(enc, r, p4, silk_shell_code_table3, &p3[0], &p3[1]);
   for (a = 0; a < 2; a++) {
      emit_split(enc, r, p3[a], silk_shell_code_table2, &p2[2 * a], &p2[2 * a + 1]);
      for (b = 2 * a; b < 2 * a + 2; b++) {
         emit_split(enc, r, p2[b], silk_shell_code_table1, &p1[2 * b], &p1[2 * b + 1]);
         emit_split(enc, r, p1[2 * b], silk_shell_code_table0, &q[4 * b], &q[4 * b + 1]);
         emit_split(enc, r, p1[2 * b + 1], silk_shell_code_table0, &q[4 * b + 2], &q[4 * b + 3]);
      }
   }
}
static void emit_pulses(ec_enc *enc, vrng *r, int sig, int qoff, int frame_length, int deep)
{
   int iter = (frame_length + 15) >> 4, i, j, k, rl = vbelow(r, 9), sp[20], nls[20], q[20][16];
   ec_enc_icdf(enc, rl, silk_rate_levels_iCDF[sig >> 1], 8);
   for (i = 0; i < iter; i++) {
      int t = vbelow(r, 100);
      nls[i] = t < (deep ? 40 : 88) ? 0 : t < (deep ? 60 : 96) ? vrange(r, 1, 3) : t < 92 ? vrange(r, 4, 9) : 10;
      sp[i] = vchance(r, 60) ? (int)vbelow(r, 5) : (int)vbelow(r, 17);
      if (nls[i] == 0) ec_enc_icdf(enc, sp[i], silk_pulses_per_block_iCDF[rl], 8);
      else {
         ec_enc_icdf(enc, 17, silk_pulses_per_block_iCDF[rl], 8);
         for (k = 1; k <= nls[i]; k++)
            ec_enc_icdf(enc, k < nls[i] ? 17 : sp[i], silk_pulses_per_block_iCDF[N_RATE_LEVELS - 1] + (k == 10), 8);
      }
   }
   for (i = 0; i < iter; i++) { if (sp[i] > 0) emit_shell(enc, r, sp[i], q[i]); else memset(q[i], 0, sizeof q[i]); }
   for (i = 0; i < iter; i++) if (nls[i] > 0)
      for (k = 0; k < 16; k++) for (j = 0; j < nls[i]; j++) { int b = vchance(r, 50); ec_enc_icdf(enc, b, silk_lsb_iCDF, 8); q[i][k] = (q[i][k] << 1) | b; }
   for (i = 0; i < iter; i++) {
      int p = sp[i] | (nls[i] << 5);
      if (p > 0) {
         opus_uint8 ic[2]; ic[1] = 0; ic[0] = silk_sign_iCDF[7 * (qoff + 2 * sig) + ((p & 31) < 6 ? (p & 31) : 6)];
         for (k = 0; k < 16; k++) if (q[i][k] != 0) ec_enc_icdf(enc, vbelow(r, 2), ic, 8);
      }
   }
}
static void emit_frame(ec_enc *enc, vrng *r, silk_encoder_state *E, int fi, int lbrr, int cc, int vad, int frame_length, int deep)
{
   SideInfoIndices *x = lbrr ? &E->indices_LBRR[fi] : &E->indices;
   int i, nvec = E->psNLSF_CB->nVectors;
   memset(x, 0, sizeof *x);
   x->signalType = (lbrr || vad) ? 1 + (int)vbelow(r, 2) : 0;
   x->quantOffsetType = vbelow(r, 2);
   x->GainsIndices[0] = cc == CODE_CONDITIONALLY ? (int)vbelow(r, 41) : (int)vbelow(r, 64);
   for (i = 1; i < E->nb_subfr; i++) x->GainsIndices[i] = vchance(r, 20) ? (vchance(r, 50) ? 0 : 40) : (int)vbelow(r, 41);
   x->NLSFIndices[0] = vbelow(r, (uint32_t)nvec);
   for (i = 1; i <= E->predictLPCOrder; i++) {
      int t = vbelow(r, 100);
      x->NLSFIndices[i] = t < 60 ? vrange(r, -3, 3) : t < 80 ? vrange(r, -10, 10) : (vchance(r, 50) ? -1 : 1) * vrange(r, 4, 10);
   }
   x->NLSFInterpCoef_Q2 = vbelow(r, 5);
   if (x->signalType == TYPE_VOICED) {
      int maxlag = 32 * (E->fs_kHz >> 1) - 1;
      if (cc == CODE_CONDITIONALLY && E->ec_prevSignalType == TYPE_VOICED && vchance(r, 75)) {
         x->lagIndex = E->ec_prevLagIndex + (vchance(r, 40) ? (vchance(r, 50) ? -8 : 11) : vrange(r, -8, 11));
         if (x->lagIndex == E->ec_prevLagIndex - 9) x->lagIndex++;
      } else x->lagIndex = vchance(r, 20) ? (vchance(r, 50) ? 0 : maxlag) : vbelow(r, (uint32_t)maxlag + 1);
      if (!(cc == CODE_CONDITIONALLY && E->ec_prevSignalType == TYPE_VOICED) && x->lagIndex < 0) x->lagIndex = 0;
      if (!(cc == CODE_CONDITIONALLY && E->ec_prevSignalType == TYPE_VOICED) && x->lagIndex > maxlag) x->lagIndex = maxlag;
      /* the encoder falls back to absolute coding when the delta is out of range: keep absolute values legal */
      if (x->lagIndex < 0 || x->lagIndex > maxlag) {
         int d = x->lagIndex - E->ec_prevLagIndex;
         if (d < -8 || d > 11) x->lagIndex = x->lagIndex < 0 ? 0 : maxlag;
      }
      x->contourIndex = vbelow(r, E->fs_kHz == 8 ? (E->nb_subfr == 4 ? 11 : 3) : (E->nb_subfr == 4 ? 34 : 12));
      x->PERIndex = vbelow(r, 3);
      for (i = 0; i < E->nb_subfr; i++) x->LTPIndex[i] = vbelow(r, 8u << x->PERIndex);
      x->LTP_scaleIndex = cc == CODE_INDEPENDENTLY ? (int)vbelow(r, 3) : 0;
   }
   x->Seed = vbelow(r, 4);
   silk_encode_indices(E, enc, fi, lbrr, cc);
   emit_pulses(enc, r, x->signalType, x->quantOffsetType, frame_length, deep);
}
static void emit_stereo(ec_enc *enc, vrng *r)
{
   ec_enc_icdf(enc, vbelow(r, 25), silk_stereo_pred_joint_iCDF, 8);
   ec_enc_icdf(enc, vbelow(r, 3), silk_uniform3_iCDF, 8); ec_enc_icdf(enc, vbelow(r, 5), silk_uniform5_iCDF, 8);
   ec_enc_icdf(enc, vbelow(r, 3), silk_uniform3_iCDF, 8); ec_enc_icdf(enc, vbelow(r, 5), silk_uniform5_iCDF, 8);
}
static long gen_struct(vrng *r, unsigned char *o)
{
   static silk_encoder_state E[2];
   static unsigned char body[4096];
   static const int khz[3] = {8, 12, 16};
   int hybrid = vchance(r, 15), bwi = hybrid ? 2 : (int)vbelow(r, 3), fs = khz[bwi], nch = 1 + vbelow(r, 2);
   int duri = hybrid ? (int)vbelow(r, 2) : (int)vbelow(r, 4);          /* 10, 20, 40, 60 ms */
   int nfpp = duri < 2 ? 1 : duri, nb_subfr = duri == 0 ? 2 : 4, frame_length = nb_subfr * 5 * fs;
   int config = hybrid ? 12 + 2 * (int)vbelow(r, 2) + duri : 4 * bwi + duri;
   int vad[2][3], lflag[2], lf[2][3], n, i, deep = vchance(r, 25), cap = vrange(r, 40, 1200), prev_mid = 0;
   long nbytes, total; ec_enc enc;
   memset(E, 0, sizeof E);
   for (n = 0; n < 2; n++) {
      E[n].nb_subfr = nb_subfr; E[n].fs_kHz = fs; E[n].predictLPCOrder = fs == 16 ? 16 : 10;
      E[n].psNLSF_CB = fs == 16 ? &silk_NLSF_CB_WB : &silk_NLSF_CB_NB_MB;
      E[n].pitch_lag_low_bits_iCDF = fs == 16 ? silk_uniform8_iCDF : fs == 12 ? silk_uniform6_iCDF : silk_uniform4_iCDF;
      E[n].pitch_contour_iCDF = fs == 8 ? (nb_subfr == 4 ? silk_pitch_contour_NB_iCDF : silk_pitch_contour_10_ms_NB_iCDF)
                                        : (nb_subfr == 4 ? silk_pitch_contour_iCDF : silk_pitch_contour_10_ms_iCDF);
   }
   ec_enc_init(&enc, body, cap);
   for (n = 0; n < nch; n++) {
      for (i = 0; i < nfpp; i++) { vad[n][i] = vchance(r, 70); ec_enc_bit_logp(&enc, vad[n][i], 1); }
      lflag[n] = vchance(r, 35); ec_enc_bit_logp(&enc, lflag[n], 1);
   }
   for (n = 0; n < nch; n++) {
      lf[n][0] = lf[n][1] = lf[n][2] = 0;
      if (lflag[n]) {
         if (nfpp == 1) lf[n][0] = 1;
         else { int s = 1 + vbelow(r, (1u << nfpp) - 1); ec_enc_icdf(&enc, s - 1, silk_LBRR_flags_iCDF_ptr[nfpp - 2], 8);
                for (i = 0; i < nfpp; i++) lf[n][i] = (s >> i) & 1; }
      }
   }
   for (i = 0; i < nfpp; i++) for (n = 0; n < nch; n++) if (lf[n][i]) {
      if (nch == 2 && n == 0) { emit_stereo(&enc, r); if (!lf[1][i]) ec_enc_icdf(&enc, vbelow(r, 2), silk_stereo_only_code_mid_iCDF, 8); }
      emit_frame(&enc, r, &E[n], i, 1, (i > 0 && lf[n][i - 1]) ? CODE_CONDITIONALLY : CODE_INDEPENDENTLY, 1, frame_length, deep);
   }
   for (i = 0; i < nfpp; i++) {
      int mid = 0;
      if (nch == 2) { emit_stereo(&enc, r); if (!vad[1][i]) { mid = vchance(r, 50); ec_enc_icdf(&enc, mid, silk_stereo_only_code_mid_iCDF, 8); } }
      emit_frame(&enc, r, &E[0], i, 0, i == 0 ? CODE_INDEPENDENTLY : CODE_CONDITIONALLY, vad[0][i], frame_length, deep);
      if (nch == 2 && !mid)
         emit_frame(&enc, r, &E[1], i, 0, i == 0 ? CODE_INDEPENDENTLY : prev_mid ? CODE_INDEPENDENTLY_NO_LTP_SCALING : CODE_CONDITIONALLY,
                    vad[1][i], frame_length, deep);
      prev_mid = mid;
   }
   if (hybrid && vchance(r, 60)) {   /* redundancy header of a hybrid frame */
      int red = vchance(r, 60); ec_enc_bit_logp(&enc, red, 12);
      if (red) { ec_enc_bit_logp(&enc, vbelow(r, 2), 1); ec_enc_uint(&enc, vchance(r, 70) ? vbelow(r, 12) : vbelow(r, 256), 256); }
   }
   nbytes = (ec_tell(&enc) + 7) >> 3;
   if (nbytes > cap) nbytes = cap;
   if (vchance(r, 50)) { ec_enc_shrink(&enc, (opus_uint32)nbytes); ec_enc_done(&enc); total = nbytes; }
   else { ec_enc_done(&enc); total = cap; if (vchance(r, 50)) { long k; for (k = nbytes + 1; k < cap; k++) body[k] = (unsigned char)vnext(r); } }
   if (vchance(r, 8) && total > 3) total = 1 + vbelow(r, (uint32_t)total);      /* truncated */
   if (total > 1275) total = 1275;
   o[0] = config * 8 + (nch == 2 ? 4 : 0);
   memcpy(o + 1, body, total);
   if (vchance(r, 6) && total > 2) o[1 + vbelow(r, (uint32_t)total)] ^= 1 << vbelow(r, 8);
   return total + 1;
}

static void print_dist(void)
{
   static const char *nm[32] = {"sig0", "sig1", "sig2", "celt_headers", "lbrr_indices", "cond_coded", "indep_no_ltp_scaling", "pulses_gt16",
      "stereo_pred", "mid_only", "redundancy_frames", "hybrid_celt_entries", "fec_decodes", "celt_packets", "hybrid_packets", "pulses_ge8192",
      "celt_lm0", "celt_lm1", "celt_lm2", "celt_lm3", "celt_stereo", "dual_stereo", "intensity_stereo", "theta_pdf_reads", "pvq_ft_ge_2p24",
      "inv_flag_reads", "celt_start17", "bands_skipped", "celt_uint_reads", "-", "-", "-"};
   int i;
   printf("#");
   for (i = 0; i < 29; i++) printf(" %s=%ld", nm[i], g_dist[i]);
   printf("\n");
}

static void run_rand(uint64_t seed, long cases)
{
   static unsigned char buf[8192];
   vrng r; long c; vdec S; int have = 0;
   r.s = seed * 0x9E3779B97F4A7C15ULL + 3;
   for (c = 0; c < cases; c++) {
      long n = vchance(&r, 40) ? gen_struct(&r, buf) : gen_synth(&r, buf);
      if (!have || vchance(&r, 20)) { if (have) vdec_close(&S); vdec_open(&S, RATES[vbelow(&r, 5)], 1 + vbelow(&r, 2)); have = 1; }
      do_packet(&S, vchance(&r, 12), buf, n);
   }
   if (have) vdec_close(&S);
   print_dist();
}

/* ------------------------------------------------------------------ real encoder streams */
static void gen_audio(vrng *r, int Fs, int ch, long n, opus_int16 *x)
{
   /* speech-like: harmonic source with gliding pitch and syllabic envelope, noisy bursts, pauses */
   long i; double ph = 0, f0 = 90 + vbelow(r, 160), env = 0, tgt = 0, pan = vbelow(r, 100) / 100.0;
   int seg = 0, kind = 0; uint64_t ns = vnext(r);
   for (i = 0; i < n; i++) {
      double s = 0, nz; int h;
      if (seg <= 0) { seg = Fs / 1000 * vrange(r, 40, 400); kind = vbelow(r, 10); tgt = kind < 2 ? 0 : (0.05 + vbelow(r, 60) / 100.0); f0 = 80 + vbelow(r, 220); }
      seg--;
      env += (tgt - env) * (40.0 / Fs);
      ns = ns * 6364136223846793005ULL + 1442695040888963407ULL;
      nz = ((double)(ns >> 40) / (double)(1 << 24)) - 0.5;
      f0 += (nz) * 0.02;
      ph += 2 * M_PI * f0 / Fs;
      if (kind < 7) for (h = 1; h <= 12 && h * f0 < Fs * 0.45; h++) s += sin(h * ph) / (h * (1 + 0.15 * ((h * 7 + kind) % 5)));
      else s = nz * 2.5;
      s = s * env * 9000 + nz * 30;
      if (ch == 1) x[i] = (opus_int16)s;
      else { x[2 * i] = (opus_int16)(s * (0.4 + 0.6 * pan) + nz * 200 * (kind == 5)); x[2 * i + 1] = (opus_int16)(s * (1.0 - 0.6 * pan)); }
   }
}

typedef struct { int Fs, ch, app, bitrate, vbr, fec, loss, dtx, dur10, force_mode, maxbw, cx; } enccfg;
static const int DUR10[6] = {100, 200, 400, 600, 25, 50};   /* frame durations in 0.1 ms */

static void rand_cfg(vrng *r, enccfg *c)
{
   static const int bws[5] = {OPUS_BANDWIDTH_NARROWBAND, OPUS_BANDWIDTH_MEDIUMBAND, OPUS_BANDWIDTH_WIDEBAND, OPUS_BANDWIDTH_SUPERWIDEBAND, OPUS_BANDWIDTH_FULLBAND};
   c->Fs = RATES[vbelow(r, 5)]; c->ch = 1 + vbelow(r, 2);
   c->app = vchance(r, 70) ? OPUS_APPLICATION_VOIP : OPUS_APPLICATION_AUDIO;
   c->bitrate = vchance(r, 60) ? vrange(r, 6000, 40000) : vrange(r, 6000, 96000);
   c->vbr = vbelow(r, 2); c->fec = vchance(r, 55); c->loss = c->fec ? vrange(r, 5, 40) : vbelow(r, 10);
   c->dtx = vchance(r, 25); c->dur10 = DUR10[vchance(r, 90) ? vbelow(r, 4) : 4 + vbelow(r, 2)];
   c->force_mode = vchance(r, 45) ? OPUS_AUTO : (vchance(r, 55) ? MODE_SILK_ONLY : vchance(r, 75) ? MODE_HYBRID : MODE_CELT_ONLY);
   c->maxbw = bws[vbelow(r, 5)]; c->cx = vbelow(r, 11);
}
static void apply_cfg(OpusEncoder *e, const enccfg *c)
{
   opus_encoder_ctl(e, OPUS_SET_BITRATE(c->bitrate)); opus_encoder_ctl(e, OPUS_SET_VBR(c->vbr));
   opus_encoder_ctl(e, OPUS_SET_INBAND_FEC(c->fec)); opus_encoder_ctl(e, OPUS_SET_PACKET_LOSS_PERC(c->loss));
   opus_encoder_ctl(e, OPUS_SET_DTX(c->dtx)); opus_encoder_ctl(e, OPUS_SET_FORCE_MODE(c->force_mode));
   opus_encoder_ctl(e, OPUS_SET_MAX_BANDWIDTH(c->maxbw)); opus_encoder_ctl(e, OPUS_SET_COMPLEXITY(c->cx));
}

static void mutate(vrng *r, unsigned char *p, long *n)
{
   int k = vbelow(r, 6), j;
   if (*n < 2) return;
   if (k == 0) { j = vrange(r, 1, 4); while (j--) p[1 + vbelow(r, (uint32_t)(*n - 1))] ^= 1 << vbelow(r, 8); }
   else if (k == 1) *n = 1 + vbelow(r, (uint32_t)*n);
   else if (k == 2) { long a = 1 + vbelow(r, (uint32_t)(*n - 1)); for (; a < *n; a++) p[a] = (unsigned char)vnext(r); }
   else if (k == 3) p[0] ^= 4;                               /* mono <-> stereo */
   else if (k == 4) p[0] = (p[0] & 7) | (vbelow(r, 16) << 3);  /* other SILK/hybrid config */
   else p[1 + vbelow(r, (uint32_t)(*n - 1))] = (unsigned char)vnext(r);
}

static void run_real(uint64_t seed, long streams)
{
   vrng r; long s;
   static opus_int16 audio[48000 * 2 * 4];
   static unsigned char pk[4][1500], mut[1600], merged[6000];
   r.s = seed * 0xD1342543DE82EF95ULL + 11;
   for (s = 0; s < streams; s++) {
      enccfg c; OpusEncoder *e; OpusRepacketizer *rp; vdec A, B, C; int err, f, nframes, fsz, npk = 0; long plen[4];
      int lose_next = 0;
      rand_cfg(&r, &c);
      e = opus_encoder_create(c.Fs, c.ch, c.app, &err);
      if (!e) { fprintf(stderr, "encoder create failed\n"); exit(9); }
      apply_cfg(e, &c);
      rp = opus_repacketizer_create();
      vdec_open(&A, RATES[vbelow(&r, 5)], 1 + vbelow(&r, 2));
      vdec_open(&B, RATES[vbelow(&r, 5)], 1 + vbelow(&r, 2));
      vdec_open(&C, RATES[vbelow(&r, 5)], 1 + vbelow(&r, 2));
      fsz = c.Fs / 100 * c.dur10 / 100;
      if (c.dur10 == 25) fsz = c.Fs / 400;
      nframes = vrange(&r, 8, 24);
      if ((long)nframes * fsz * c.ch > (long)(sizeof(audio) / sizeof(audio[0]))) nframes = (int)(sizeof(audio) / sizeof(audio[0]) / ((long)fsz * c.ch));
      gen_audio(&r, c.Fs, c.ch, (long)nframes * fsz, audio);
      for (f = 0; f < nframes; f++) {
         long n;
         if (vchance(&r, 12)) {   /* mid-stream change: mode / bandwidth / bitrate / channel transitions */
            switch (vbelow(&r, 4)) {
            case 0: c.bitrate = vrange(&r, 6000, 64000); break;
            case 1: c.force_mode = vchance(&r, 30) ? OPUS_AUTO : (vchance(&r, 50) ? MODE_SILK_ONLY : vchance(&r, 60) ? MODE_HYBRID : MODE_CELT_ONLY); break;
            case 2: { static const int bws[5] = {1101, 1102, 1103, 1104, 1105}; c.maxbw = bws[vbelow(&r, 5)]; } break;
            default: opus_encoder_ctl(e, OPUS_SET_FORCE_CHANNELS(vchance(&r, 40) ? OPUS_AUTO : 1 + (int)vbelow(&r, 2))); break;
            }
            apply_cfg(e, &c);
         }
         n = opus_encode(e, audio + (long)f * fsz * c.ch, fsz, pk[npk], 1500);
         if (n < 1) continue;
         /* decoder A: the stream itself, with simulated losses followed by an FEC decode */
         if (lose_next) {
            opus_decode(A.d, NULL, 0, g_pcm, opus_packet_get_samples_per_frame(pk[npk], A.Fs), 0);
            if (vchance(&r, 80)) do_packet(&A, 1, pk[npk], n);
            lose_next = 0;
         }
         if (vchance(&r, 15) && f + 1 < nframes) lose_next = 1;   /* this packet is lost for A */
         else do_packet(&A, 0, pk[npk], n);
         /* decoder B: mutated packets on a running decoder */
         if (vchance(&r, 60)) {
            long m = n; memcpy(mut, pk[npk], n); mutate(&r, mut, &m);
            do_packet(&B, vchance(&r, 10), mut, m);
         } else do_packet(&B, 0, pk[npk], n);
         /* decoder C: repacketised multi-frame packets, padded now and then */
         plen[npk] = n; npk++;
         if (npk == 2 + (int)vbelow(&r, 2) || npk == 3 || f == nframes - 1) {
            int k, ok = 1; opus_int32 m;
            opus_repacketizer_init(rp);
            for (k = 0; k < npk && ok; k++) ok = opus_repacketizer_cat(rp, pk[k], (opus_int32)plen[k]) == OPUS_OK;
            if (ok) {
               m = opus_repacketizer_out(rp, merged, 4000);
               if (m > 0) {
                  if (vchance(&r, 40)) { opus_int32 np = m + vrange(&r, 1, 300); if (opus_packet_pad(merged, m, np) == OPUS_OK) m = np; }
                  do_packet(&C, 0, merged, m);
               }
            } else for (k = 0; k < npk; k++) do_packet(&C, 0, pk[k], plen[k]);
            npk = 0;
         }
      }
      opus_encoder_destroy(e); opus_repacketizer_destroy(rp);
      vdec_close(&A); vdec_close(&B); vdec_close(&C);
   }
   print_dist();
}

/* ------------------------------------------------------------------ stdin */
static void run_stdin(void)
{
   static char line[400000]; static unsigned char buf[100000];
   while (fgets(line, sizeof line, stdin)) {
      int Fs, ch, fec, pc, off = 0; long n; vdec D;
      char *p = line;
      if (!strncmp(p, "I ", 2)) p += 2;
      if (sscanf(p, "silksyms packet %d %d %d %d %n", &Fs, &ch, &fec, &pc, &off) < 4 || !off) { printf("O bad-op\n"); continue; }
      n = vunhex(p + off, buf, sizeof buf);
      if (n < 1) { printf("O bad-op\n"); continue; }
      vdec_open(&D, Fs, ch); D.stmode_celt = pc;
      if (pc) {  /* bring st->mode to CELT-only with a minimal CELT packet */
         static const unsigned char cp[3] = {0x80, 0xff, 0xfe};
         opus_decode(D.d, cp, 3, g_pcm, 5760, 0);
      }
      do_packet(&D, fec, buf, n);
      vdec_close(&D);
   }
}

/* ------------------------------------------------------------------ S4 search: final range enc == dec */
static void run_search(uint64_t seed, long streams)
{
   vrng r; long s, cases = 0, viol = 0, modes[3] = {0, 0, 0}, multi = 0, padded = 0;
   static opus_int16 audio[48000 * 2 * 4];
   static unsigned char pk[4][1500], merged[6000];
   r.s = seed * 0xA24BAED4963EE407ULL + 5;
   for (s = 0; s < streams; s++) {
      enccfg c; OpusEncoder *e; OpusRepacketizer *rp; vdec A, C; int err, f, nframes, fsz, npk = 0; long plen[4]; opus_uint32 erng[4];
      rand_cfg(&r, &c);
      e = opus_encoder_create(c.Fs, c.ch, c.app, &err);
      apply_cfg(e, &c);
      rp = opus_repacketizer_create();
      vdec_open(&A, RATES[vbelow(&r, 5)], 1 + vbelow(&r, 2));
      vdec_open(&C, RATES[vbelow(&r, 5)], 1 + vbelow(&r, 2));
      fsz = c.dur10 == 25 ? c.Fs / 400 : c.Fs / 100 * c.dur10 / 100;
      nframes = vrange(&r, 10, 40);
      if ((long)nframes * fsz * c.ch > (long)(sizeof(audio) / sizeof(audio[0]))) nframes = (int)(sizeof(audio) / sizeof(audio[0]) / ((long)fsz * c.ch));
      gen_audio(&r, c.Fs, c.ch, (long)nframes * fsz, audio);
      for (f = 0; f < nframes; f++) {
         long n; int ret; opus_uint32 er = 0, dr = 0;
         if (vchance(&r, 12)) {
            switch (vbelow(&r, 4)) {
            case 0: c.bitrate = vrange(&r, 6000, 96000); break;
            case 1: c.force_mode = vchance(&r, 30) ? OPUS_AUTO : (vchance(&r, 40) ? MODE_SILK_ONLY : vchance(&r, 50) ? MODE_HYBRID : MODE_CELT_ONLY); break;
            case 2: { static const int bws[5] = {1101, 1102, 1103, 1104, 1105}; c.maxbw = bws[vbelow(&r, 5)]; } break;
            default: opus_encoder_ctl(e, OPUS_SET_FORCE_CHANNELS(vchance(&r, 40) ? OPUS_AUTO : 1 + (int)vbelow(&r, 2))); break;
            }
            apply_cfg(e, &c);
         }
         n = opus_encode(e, audio + (long)f * fsz * c.ch, fsz, pk[npk], 1500);
         if (n < 1) continue;
         opus_encoder_ctl(e, OPUS_GET_FINAL_RANGE(&er));
         ret = opus_decode(A.d, pk[npk], (opus_int32)n, g_pcm, 5760, 0);
         opus_decoder_ctl(A.d, OPUS_GET_FINAL_RANGE(&dr));
         cases++;
         modes[(pk[npk][0] & 0x80) ? 2 : ((pk[npk][0] & 0x60) == 0x60 ? 1 : 0)]++;
         if (ret < 0 || er != dr) {
            viol++;
            printf("V silksyms packet %d %d 0 0 ", A.Fs, A.ch); vhex(stdout, pk[npk], n);
            printf(" | decoder final range == encoder final range %u (stream %ld frame %d) | ret=%d final=%u\n", (unsigned)er, s, f, ret, (unsigned)dr);
         }
         plen[npk] = n; erng[npk] = er; npk++;
         if (npk == 2 + (int)vbelow(&r, 2) || npk == 3 || f == nframes - 1) {
            int k, ok = 1; opus_int32 m;
            opus_repacketizer_init(rp);
            for (k = 0; k < npk && ok; k++) ok = opus_repacketizer_cat(rp, pk[k], (opus_int32)plen[k]) == OPUS_OK;
            if (ok && (m = opus_repacketizer_out(rp, merged, 4000)) > 0) {
               int pd = vchance(&r, 40);
               if (pd) { opus_int32 np = m + vrange(&r, 1, 300); if (opus_packet_pad(merged, m, np) == OPUS_OK) m = np; else pd = 0; }
               ret = opus_decode(C.d, merged, m, g_pcm, 5760, 0);
               opus_decoder_ctl(C.d, OPUS_GET_FINAL_RANGE(&dr));
               cases++; multi++; padded += pd;
               if (ret < 0 || dr != erng[npk - 1]) {
                  viol++;
                  printf("V silksyms packet %d %d 0 0 ", C.Fs, C.ch); vhex(stdout, merged, m);
                  printf(" | repacketised packet: decoder final range == encoder final range of its last frame %u | ret=%d final=%u\n",
                         (unsigned)erng[npk - 1], ret, (unsigned)dr);
               }
            } else for (k = 0; k < npk; k++) opus_decode(C.d, pk[k], (opus_int32)plen[k], g_pcm, 5760, 0);
            npk = 0;
         }
      }
      opus_encoder_destroy(e); opus_repacketizer_destroy(rp); vdec_close(&A); vdec_close(&C);
   }
   printf("# search cases=%ld violations=%ld silk=%ld hybrid=%ld celt=%ld multiframe=%ld padded=%ld\n", cases, viol, modes[0], modes[1], modes[2], multi, padded);
}


/* ------------------------------------------------------------------ self-reference corpus (regression oracle)
   A transition / edge-case matrix of short streams rather than steady-state material: every ordered triple of
   {SILK-only, Hybrid, CELT-only} (all ordered pairs included), bandwidth-driven switches, 10 ms stereo variants,
   low-rate switches, CELT/hybrid onsets after digital silence from low-complexity encoders (inter-coded onsets),
   plus a few steady-state streams and a loss + FEC decode. */
typedef struct { int mode, bw, bitrate, nframes; } cseg;   /* mode 0 = OPUS_AUTO with OPUS_SET_BANDWIDTH(bw) */
typedef struct { const char *name; int Fs, ch, app, dur10, cx, fec, lose_at, sig; cseg seg[8]; } cstream;
#define SEG_S(n) {MODE_SILK_ONLY, OPUS_BANDWIDTH_WIDEBAND, 20000, n}
#define SEG_H(n) {MODE_HYBRID, OPUS_BANDWIDTH_FULLBAND, 32000, n}
#define SEG_C(n) {MODE_CELT_ONLY, OPUS_BANDWIDTH_FULLBAND, 48000, n}
#define TRIPLE(nm, A, B, C) {nm, 48000, 1, OPUS_APPLICATION_VOIP, 200, 9, 0, -1, 1, {A(3), B(3), C(3), {0, 0, 0, 0}}}
#define TRIPLE10S(nm, A, B, C) {nm, 48000, 2, OPUS_APPLICATION_VOIP, 100, 9, 0, -1, 1, {A(3), B(3), C(3), {0, 0, 0, 0}}}
#define ONSET(nm, Fs, ch, dur10, cx, mode, bw, rate, nfr) {nm, Fs, ch, OPUS_APPLICATION_AUDIO, dur10, cx, 0, -1, 2, {{mode, bw, rate, nfr}, {0, 0, 0, 0}}}
static const cstream CORPUS[] = {
   /* steady state */
   {"silk_nb_20_m",  8000, 1, OPUS_APPLICATION_VOIP, 200, 9, 0, -1, 0, {{MODE_SILK_ONLY, OPUS_BANDWIDTH_NARROWBAND, 10000, 6}}},
   {"silk_mb_10_m", 12000, 1, OPUS_APPLICATION_VOIP, 100, 9, 0, -1, 0, {{MODE_SILK_ONLY, OPUS_BANDWIDTH_MEDIUMBAND, 14000, 10}}},
   {"silk_wb_20_s", 16000, 2, OPUS_APPLICATION_VOIP, 200, 9, 1,  4, 0, {{MODE_SILK_ONLY, OPUS_BANDWIDTH_WIDEBAND, 26000, 8}}},
   {"silk_wb_60_m", 16000, 1, OPUS_APPLICATION_VOIP, 600, 9, 0, -1, 0, {{MODE_SILK_ONLY, OPUS_BANDWIDTH_WIDEBAND, 16000, 3}}},
   {"hyb_swb_20_m", 24000, 1, OPUS_APPLICATION_VOIP, 200, 9, 0, -1, 0, {{MODE_HYBRID, OPUS_BANDWIDTH_SUPERWIDEBAND, 28000, 5}}},
   {"hyb_fb_10_s",  48000, 2, OPUS_APPLICATION_AUDIO, 100, 9, 0, -1, 0, {{MODE_HYBRID, OPUS_BANDWIDTH_FULLBAND, 44000, 8}}},
   {"celt_fb_20_s", 48000, 2, OPUS_APPLICATION_AUDIO, 200, 9, 0, -1, 0, {{MODE_CELT_ONLY, OPUS_BANDWIDTH_FULLBAND, 64000, 4}}},
   {"celt_wb_5_m",  16000, 1, OPUS_APPLICATION_AUDIO,  50, 9, 0, -1, 0, {{MODE_CELT_ONLY, OPUS_BANDWIDTH_WIDEBAND, 36000, 12}}},
   /* every ordered triple of modes, 20 ms mono, forced modes */
   TRIPLE("t_SHS", SEG_S, SEG_H, SEG_S), TRIPLE("t_SHC", SEG_S, SEG_H, SEG_C), TRIPLE("t_SCS", SEG_S, SEG_C, SEG_S),
   TRIPLE("t_SCH", SEG_S, SEG_C, SEG_H), TRIPLE("t_HSH", SEG_H, SEG_S, SEG_H), TRIPLE("t_HSC", SEG_H, SEG_S, SEG_C),
   TRIPLE("t_HCH", SEG_H, SEG_C, SEG_H), TRIPLE("t_HCS", SEG_H, SEG_C, SEG_S), TRIPLE("t_CSC", SEG_C, SEG_S, SEG_C),
   TRIPLE("t_CSH", SEG_C, SEG_S, SEG_H), TRIPLE("t_CHC", SEG_C, SEG_H, SEG_C), TRIPLE("t_CHS", SEG_C, SEG_H, SEG_S),
   /* 10 ms stereo round trips */
   TRIPLE10S("t10s_HSH", SEG_H, SEG_S, SEG_H), TRIPLE10S("t10s_CSC", SEG_C, SEG_S, SEG_C),
   TRIPLE10S("t10s_HCH", SEG_H, SEG_C, SEG_H),
   /* switches driven by OPUS_SET_BANDWIDTH with the mode left to the encoder (what a VoIP sender does) */
   {"bw_fb_wb_fb_m",   48000, 1, OPUS_APPLICATION_VOIP, 200, 10, 0, -1, 1, {{0, OPUS_BANDWIDTH_FULLBAND, 32000, 4}, {0, OPUS_BANDWIDTH_WIDEBAND, 32000, 3}, {0, OPUS_BANDWIDTH_FULLBAND, 32000, 4}}},
   {"bw_swb_nb_swb_s", 48000, 2, OPUS_APPLICATION_VOIP, 200, 10, 0, -1, 1, {{0, OPUS_BANDWIDTH_SUPERWIDEBAND, 40000, 3}, {0, OPUS_BANDWIDTH_NARROWBAND, 24000, 3}, {0, OPUS_BANDWIDTH_SUPERWIDEBAND, 40000, 3}}},
   {"bw_fb_mb_fb_m_60", 48000, 1, OPUS_APPLICATION_VOIP, 600, 10, 0, -1, 1, {{0, OPUS_BANDWIDTH_FULLBAND, 28000, 1}, {0, OPUS_BANDWIDTH_MEDIUMBAND, 18000, 1}, {0, OPUS_BANDWIDTH_FULLBAND, 28000, 2}}},
   /* low-rate SILK <-> CELT switches (little or no room for redundancy frames) */
   {"lo_SCS_nb", 16000, 1, OPUS_APPLICATION_VOIP, 200, 5, 0, -1, 1, {{MODE_SILK_ONLY, OPUS_BANDWIDTH_NARROWBAND, 7000, 3}, {MODE_CELT_ONLY, OPUS_BANDWIDTH_NARROWBAND, 9000, 3}, {MODE_SILK_ONLY, OPUS_BANDWIDTH_NARROWBAND, 7000, 3}}},
   {"lo_CSC_wb", 16000, 1, OPUS_APPLICATION_VOIP, 200, 5, 0, -1, 1, {{MODE_CELT_ONLY, OPUS_BANDWIDTH_WIDEBAND, 12000, 3}, {MODE_SILK_ONLY, OPUS_BANDWIDTH_WIDEBAND, 9000, 3}, {MODE_CELT_ONLY, OPUS_BANDWIDTH_WIDEBAND, 12000, 3}}},
   /* onsets after digital silence, low-complexity encoders (inter-coded onsets) */
   ONSET("on_celt_fb_10_m_c2",  48000, 1, 100, 2, MODE_CELT_ONLY, OPUS_BANDWIDTH_FULLBAND, 64000, 22),
   ONSET("on_celt_fb_20_s_c0",  48000, 2, 200, 0, MODE_CELT_ONLY, OPUS_BANDWIDTH_FULLBAND, 96000, 11),
   ONSET("on_celt_fb_20_m_c3",  48000, 1, 200, 3, MODE_CELT_ONLY, OPUS_BANDWIDTH_FULLBAND, 48000, 11),
   ONSET("on_celt_swb_5_m_c1",  24000, 1,  50, 1, MODE_CELT_ONLY, OPUS_BANDWIDTH_SUPERWIDEBAND, 56000, 44),
   ONSET("on_celt_wb_2p5_m_c3", 16000, 1,  25, 3, MODE_CELT_ONLY, OPUS_BANDWIDTH_WIDEBAND, 64000, 88),
   ONSET("on_celt_nb_10_s_c1",   8000, 2, 100, 1, MODE_CELT_ONLY, OPUS_BANDWIDTH_NARROWBAND, 40000, 22),
   ONSET("on_celt_fb_5_m_c0",   48000, 1,  50, 0, MODE_CELT_ONLY, OPUS_BANDWIDTH_FULLBAND, 80000, 44),
   ONSET("on_hyb_fb_20_m_c2",   48000, 1, 200, 2, MODE_HYBRID,    OPUS_BANDWIDTH_FULLBAND, 36000, 11),
   ONSET("on_hyb_swb_10_m_c1",  48000, 1, 100, 1, MODE_HYBRID,    OPUS_BANDWIDTH_SUPERWIDEBAND, 32000, 22),
   /* ---- boundary-exciting streams: one short stream per decoder-side clamp / saturation / state-clearing path ----
      bandwidth ladders inside one continuous CELT / hybrid / SILK run, mono and stereo separately (band-state clearing
      "in case start or end were to change", celt_decoder.c; decoder_set_fs / resampler re-init on the SILK side), with a
      stationary tonal signal so that the frame after widening is inter-coded */
#define CB(bw, n) {MODE_CELT_ONLY, bw, 64000, n}
#define HB(bw, n) {MODE_HYBRID, bw, 40000, n}
#define SB(bw, r, n) {MODE_SILK_ONLY, bw, r, n}
   {"bwl_celt_m",    48000, 1, OPUS_APPLICATION_RESTRICTED_LOWDELAY, 200, 10, 0, -1, 3, {CB(OPUS_BANDWIDTH_FULLBAND, 3), CB(OPUS_BANDWIDTH_SUPERWIDEBAND, 2), CB(OPUS_BANDWIDTH_FULLBAND, 3), CB(OPUS_BANDWIDTH_WIDEBAND, 2), CB(OPUS_BANDWIDTH_FULLBAND, 3)}},
   {"bwl_celt_m_c3", 48000, 1, OPUS_APPLICATION_AUDIO, 100, 3, 0, -1, 3, {CB(OPUS_BANDWIDTH_FULLBAND, 4), CB(OPUS_BANDWIDTH_NARROWBAND, 3), CB(OPUS_BANDWIDTH_SUPERWIDEBAND, 4), CB(OPUS_BANDWIDTH_WIDEBAND, 3), CB(OPUS_BANDWIDTH_FULLBAND, 5)}},
   {"bwl_celt_s",    48000, 2, OPUS_APPLICATION_RESTRICTED_LOWDELAY, 200, 10, 0, -1, 3, {CB(OPUS_BANDWIDTH_FULLBAND, 2), CB(OPUS_BANDWIDTH_SUPERWIDEBAND, 1), CB(OPUS_BANDWIDTH_FULLBAND, 2), CB(OPUS_BANDWIDTH_NARROWBAND, 1), CB(OPUS_BANDWIDTH_FULLBAND, 2)}},
   {"bwl_hyb_m",     48000, 1, OPUS_APPLICATION_VOIP, 200, 10, 0, -1, 3, {HB(OPUS_BANDWIDTH_FULLBAND, 2), HB(OPUS_BANDWIDTH_SUPERWIDEBAND, 2), HB(OPUS_BANDWIDTH_FULLBAND, 2), HB(OPUS_BANDWIDTH_SUPERWIDEBAND, 1), HB(OPUS_BANDWIDTH_FULLBAND, 2)}},
   {"bwl_hyb_s",     48000, 2, OPUS_APPLICATION_VOIP, 100, 5, 0, -1, 3, {HB(OPUS_BANDWIDTH_FULLBAND, 4), HB(OPUS_BANDWIDTH_SUPERWIDEBAND, 3), HB(OPUS_BANDWIDTH_FULLBAND, 4)}},
   {"bwl_silk_m",    16000, 1, OPUS_APPLICATION_VOIP, 200, 10, 0, -1, 1, {SB(OPUS_BANDWIDTH_NARROWBAND, 12000, 2), SB(OPUS_BANDWIDTH_MEDIUMBAND, 16000, 1), SB(OPUS_BANDWIDTH_WIDEBAND, 20000, 2), SB(OPUS_BANDWIDTH_MEDIUMBAND, 16000, 1), SB(OPUS_BANDWIDTH_NARROWBAND, 12000, 2)}},
   {"bwl_silk_s",    16000, 2, OPUS_APPLICATION_VOIP, 200, 10, 0, -1, 1, {SB(OPUS_BANDWIDTH_WIDEBAND, 30000, 2), SB(OPUS_BANDWIDTH_NARROWBAND, 20000, 2), SB(OPUS_BANDWIDTH_WIDEBAND, 30000, 2)}},
   /* pitch extremes: lags at the 18 ms maximum (clamp in silk_decode_pitch) and at the 2 ms minimum; LTP at its strongest */
   {"pitch_lo_nb",    8000, 1, OPUS_APPLICATION_VOIP, 200, 10, 0, -1, 4, {SB(OPUS_BANDWIDTH_NARROWBAND, 14000, 12)}},
   {"pitch_lo_wb",   16000, 1, OPUS_APPLICATION_VOIP, 200, 10, 0, -1, 4, {SB(OPUS_BANDWIDTH_WIDEBAND, 24000, 9)}},
   {"pitch_lo_mb_10", 12000, 1, OPUS_APPLICATION_VOIP, 100, 10, 0, -1, 4, {SB(OPUS_BANDWIDTH_MEDIUMBAND, 18000, 16)}},
   {"pitch_hi_wb",   16000, 1, OPUS_APPLICATION_VOIP, 200, 10, 0, -1, 5, {SB(OPUS_BANDWIDTH_WIDEBAND, 24000, 6)}},
   {"pf_celt_10_m",  48000, 1, OPUS_APPLICATION_AUDIO, 100, 10, 0, -1, 5, {CB(OPUS_BANDWIDTH_FULLBAND, 10)}},
   /* hard-panned full-scale stereo: SAT16 of mid +/- side in silk_stereo_MS_to_LR, stereo prediction at its extremes */
   {"pan_r_silk_s",  16000, 2, OPUS_APPLICATION_VOIP, 200, 10, 0, -1, 6, {SB(OPUS_BANDWIDTH_WIDEBAND, 40000, 6)}},
   {"pan_l_silk_s",   8000, 2, OPUS_APPLICATION_VOIP, 200, 10, 0, -1, 7, {SB(OPUS_BANDWIDTH_NARROWBAND, 24000, 5)}},
   {"pan_r_hyb_s",   48000, 2, OPUS_APPLICATION_VOIP, 200, 10, 0, -1, 6, {HB(OPUS_BANDWIDTH_FULLBAND, 5)}},
   {"pan_l_celt_s",  48000, 2, OPUS_APPLICATION_AUDIO, 100, 10, 0, -1, 7, {CB(OPUS_BANDWIDTH_FULLBAND, 6)}},
   /* energy extremes: full-scale clipped material (energy ceilings, SILK gain maximum, de-emphasis / output saturation)
      and +/-1 LSB material with digital silence (energy floors, -28 dB clamp, SILK gain minimum) */
   {"fs_celt_m",     48000, 1, OPUS_APPLICATION_AUDIO, 200, 10, 0, -1, 8, {CB(OPUS_BANDWIDTH_FULLBAND, 4)}},
   {"fs_celt_s_5",   48000, 2, OPUS_APPLICATION_AUDIO,  50, 10, 0, -1, 8, {CB(OPUS_BANDWIDTH_FULLBAND, 10)}},
   {"fs_silk_m",     16000, 1, OPUS_APPLICATION_VOIP, 200, 10, 0, -1, 8, {SB(OPUS_BANDWIDTH_WIDEBAND, 30000, 4)}},
   {"fs_hyb_m",      48000, 1, OPUS_APPLICATION_VOIP, 200, 10, 0, -1, 8, {HB(OPUS_BANDWIDTH_FULLBAND, 4)}},
   {"quiet_celt_m",  48000, 1, OPUS_APPLICATION_AUDIO, 200, 10, 0, -1, 9, {CB(OPUS_BANDWIDTH_FULLBAND, 8)}},
   {"quiet_silk_s",  16000, 2, OPUS_APPLICATION_VOIP, 200, 10, 0, -1, 9, {SB(OPUS_BANDWIDTH_WIDEBAND, 20000, 8)}},
};
static void gen_corpus_audio(int kind, uint64_t seed, int Fs, int ch, long n, opus_int16 *x)
{
   vrng r; long i; double ph = 0, f0 = 140; uint64_t ns = seed * 2654435761ULL + 12345;
   r.s = seed;
   if (kind == 0) { gen_audio(&r, Fs, ch, n, x); return; }
   if (kind >= 3) {     /* boundary-exciting signals */
      double p1 = 0;
      for (i = 0; i < n; i++) {
         double s = 0, nz, l, rr, t = (double)i / n; int h;
         ns = ns * 6364136223846793005ULL + 1442695040888963407ULL;
         nz = ((double)(ns >> 40) / (double)(1 << 24)) - 0.5;
         switch (kind) {
         case 3:   /* stationary harmonic complex on 440 Hz with a flat spectrum up to 0.45 Fs */
            p1 += 2 * M_PI * 440.0 / Fs;
            for (h = 1; h * 440.0 < Fs * 0.45 && h <= 48; h++) s += sin(h * p1 + 0.7 * h * h);
            s = 1500 * s + 40 * nz; break;
         case 4:   /* voiced, pitch gliding 75 -> 50 Hz -> 62 Hz: lags up to and beyond the 18 ms maximum */
            f0 = t < 0.6 ? 75 - 25 * (t / 0.6) : 50 + 12 * ((t - 0.6) / 0.4);
            p1 += 2 * M_PI * f0 / Fs;
            for (h = 1; h * f0 < Fs * 0.42 && h <= 60; h++) s += sin(h * p1) / sqrt((double)h);
            s = 5200 * s + 60 * nz; break;
         case 5:   /* voiced, pitch gliding 380 -> 560 Hz: lags down to the 2 ms minimum; strongly periodic */
            f0 = 380 + 180 * t;
            p1 += 2 * M_PI * f0 / Fs;
            for (h = 1; h * f0 < Fs * 0.42 && h <= 20; h++) s += sin(h * p1) / h;
            s = 9000 * s + 30 * nz; break;
         case 6: case 7: case 8:   /* full scale, clipped */
            f0 = 150 + 50 * sin(2 * M_PI * t * 3);
            p1 += 2 * M_PI * f0 / Fs;
            for (h = 1; h * f0 < Fs * 0.4 && h <= 40; h++) s += sin(h * p1 + h) / sqrt((double)h);
            s = 16000 * s + 3000 * nz; break;
         default:  /* 9: +/-1..2 LSB, with digital silence in the middle */
            p1 += 2 * M_PI * 300.0 / Fs;
            s = (t > 0.4 && t < 0.6) ? 0 : 1.6 * sin(p1) + 1.2 * nz; break;
         }
         if (s > 32767) s = 32767;
         if (s < -32768) s = -32768;
         l = rr = s;
         if (kind == 6) { l = 0; rr = 0.97 * s; }
         if (kind == 7) { l = 0.97 * s; rr = 0; }
         if (kind == 8 && ch == 2) rr = -s > 32767 ? 32767 : -s;
         if (ch == 1) x[i] = (opus_int16)floor(s + 0.5);
         else { x[2 * i] = (opus_int16)floor(l + 0.5); x[2 * i + 1] = (opus_int16)floor(rr + 0.5); }
      }
      return;
   }
   for (i = 0; i < n; i++) {
      double s = 0, nz, t_ms = 1000.0 * i / Fs; int h, on = 1;
      if (kind == 2) on = (t_ms >= 20.0 && t_ms < 100.0) || t_ms >= 160.0;
      ns = ns * 6364136223846793005ULL + 1442695040888963407ULL;
      nz = ((double)(ns >> 40) / (double)(1 << 24)) - 0.5;
      f0 = 140 + 40 * sin(2 * M_PI * i / (0.35 * Fs));
      ph += 2 * M_PI * f0 / Fs;
      for (h = 1; h * f0 < Fs * 0.45 && h <= 120; h++) s += sin(h * ph + h) / sqrt((double)h);
      s = 2200 * s + 700 * nz;
      if (!on) s = 0;
      if (ch == 1) x[i] = (opus_int16)s;
      else { x[2 * i] = (opus_int16)(0.9 * s); x[2 * i + 1] = (opus_int16)(on ? 0.6 * s + 500 * nz : 0); }
   }
}
static void run_corpusgen(const char *dir)
{
   char path[1024]; FILE *fi, *fr; unsigned k;
   static opus_int16 audio[48000 * 2], out[5760 * 2];
   static unsigned char pk[1500];
   snprintf(path, sizeof path, "%s/streams.txt", dir); fi = fopen(path, "w");
   snprintf(path, sizeof path, "%s/ref48.s16", dir); fr = fopen(path, "wb");
   if (!fi || !fr) { fprintf(stderr, "cannot write corpus to %s\n", dir); exit(9); }
   for (k = 0; k < sizeof(CORPUS) / sizeof(CORPUS[0]); k++) {
      const cstream *c = &CORPUS[k]; int err, f = 0, g, sg, fsz = (int)((long)c->Fs * c->dur10 / 10000), nframes = 0; long total = 0;
      int nm[3] = {0, 0, 0}, nred = 0;
      OpusEncoder *e = opus_encoder_create(c->Fs, c->ch, c->app, &err);
      OpusDecoder *d = opus_decoder_create(48000, c->ch, &err);
      for (sg = 0; sg < 8; sg++) nframes += c->seg[sg].nframes;
      if ((long)nframes * fsz * c->ch > (long)(sizeof(audio) / sizeof(audio[0]))) { fprintf(stderr, "corpus stream %s too long\n", c->name); exit(9); }
      gen_corpus_audio(c->sig, 0xC03C03ULL + k * 7919, c->Fs, c->ch, (long)nframes * fsz, audio);
      opus_encoder_ctl(e, OPUS_SET_COMPLEXITY(c->cx)); opus_encoder_ctl(e, OPUS_SET_VBR(1));
      opus_encoder_ctl(e, OPUS_SET_INBAND_FEC(c->fec)); opus_encoder_ctl(e, OPUS_SET_PACKET_LOSS_PERC(c->fec ? 25 : 0));
      fprintf(fi, "S %s %d\n", c->name, c->ch);
      for (sg = 0; sg < 8; sg++) {
         const cseg *q = &c->seg[sg];
         if (!q->nframes) continue;
         opus_encoder_ctl(e, OPUS_SET_BITRATE(q->bitrate));
         if (q->mode) { opus_encoder_ctl(e, OPUS_SET_FORCE_MODE(q->mode)); opus_encoder_ctl(e, OPUS_SET_MAX_BANDWIDTH(OPUS_BANDWIDTH_FULLBAND)); opus_encoder_ctl(e, OPUS_SET_BANDWIDTH(q->bw)); }
         else { opus_encoder_ctl(e, OPUS_SET_FORCE_MODE(OPUS_AUTO)); opus_encoder_ctl(e, OPUS_SET_MAX_BANDWIDTH(OPUS_BANDWIDTH_FULLBAND)); opus_encoder_ctl(e, OPUS_SET_BANDWIDTH(q->bw)); }
         for (g = 0; g < q->nframes; g++, f++) {
            long n; int ret;
            n = opus_encode(e, audio + (long)f * fsz * c->ch, fsz, pk, 1500);
            if (n < 1) { fprintf(stderr, "encode failed\n"); exit(9); }
            nm[(pk[0] & 0x80) ? 2 : ((pk[0] & 0x60) == 0x60 ? 1 : 0)]++;
            if (f == c->lose_at) {
               int spf48 = opus_packet_get_samples_per_frame(pk, 48000);
               fprintf(fi, "L %d\n", spf48);
               ret = opus_decode(d, NULL, 0, out, spf48, 0);
               if (ret > 0) { fwrite(out, 2 * c->ch, ret, fr); total += ret; }
               continue;
            }
            if (f == c->lose_at + 1 && c->lose_at >= 0) {   /* the LBRR decode path on the PCM side, as an extra frame */
               int spf48 = opus_packet_get_samples_per_frame(pk, 48000);
               fprintf(fi, "P 1 "); vhex(fi, pk, n); fprintf(fi, "\n");
               ret = opus_decode(d, pk, (opus_int32)n, out, spf48, 1);
               if (ret > 0) { fwrite(out, 2 * c->ch, ret, fr); total += ret; }
            }
            fprintf(fi, "P 0 "); vhex(fi, pk, n); fprintf(fi, "\n");
            g_pkt = pk; g_pktlen = n; g_recording = 1; g_reclen = 0; g_hybrid = 0; { long before = g_dist[10];
            ret = opus_decode(d, pk, (opus_int32)n, out, 5760, 0);
            g_recording = 0; g_pkt = NULL; nred += (int)(g_dist[10] - before); }
            if (ret > 0) { fwrite(out, 2 * c->ch, ret, fr); total += ret; }
         }
      }
      fprintf(fi, "N %ld\n", total);
      fprintf(stderr, "%-20s silk=%d hybrid=%d celt=%d redundancy_frames=%d samples48=%ld\n", c->name, nm[0], nm[1], nm[2], nred, total);
      opus_encoder_destroy(e); opus_decoder_destroy(d);
   }
   fclose(fi); fclose(fr);
}
static void run_corpusdec(const char *pkfile, int rate, int ch, const char *outfile)
{
   static char line[8000]; static unsigned char buf[2000]; static opus_int16 out[5760 * 2];
   FILE *fi = fopen(pkfile, "r"), *fo = fopen(outfile, "wb"); int err;
   OpusDecoder *d = opus_decoder_create(rate, ch, &err);
   if (!fi || !fo || !d) { fprintf(stderr, "corpusdec: cannot open\n"); exit(9); }
   while (fgets(line, sizeof line, fi)) {
      int ret = 0;
      if (line[0] == 'L') { int n48 = atoi(line + 2); ret = opus_decode(d, NULL, 0, out, (int)((long)n48 * rate / 48000), 0); }
      else if (line[0] == 'P') {
         int fec = line[2] == '1'; long n = vunhex(line + 4, buf, sizeof buf);
         if (n < 1) { fprintf(stderr, "corpusdec: bad packet line\n"); exit(9); }
         ret = opus_decode(d, buf, (opus_int32)n, out, fec ? opus_packet_get_samples_per_frame(buf, rate) : rate / 25 * 3, fec);
      } else continue;
      if (ret < 0) { fprintf(stderr, "corpusdec: decode error %s\n", verr(ret)); exit(8); }
      fwrite(out, 2 * ch, ret, fo);
   }
   fclose(fi); fclose(fo); opus_decoder_destroy(d);
}

int main(int argc, char **argv)
{
   vinstall_traps();
   if (argc >= 4 && !strcmp(argv[1], "rand")) run_rand(strtoull(argv[2], 0, 10), atol(argv[3]));
   else if (argc >= 4 && !strcmp(argv[1], "real")) run_real(strtoull(argv[2], 0, 10), atol(argv[3]));
   else if (argc >= 2 && !strcmp(argv[1], "stdin")) run_stdin();
   else if (argc >= 4 && !strcmp(argv[1], "search")) run_search(strtoull(argv[2], 0, 10), atol(argv[3]));
   else if (argc >= 3 && !strcmp(argv[1], "corpusgen")) run_corpusgen(argv[2]);
   else if (argc >= 6 && !strcmp(argv[1], "corpusdec")) run_corpusdec(argv[2], atoi(argv[3]), atoi(argv[4]), argv[5]);
   else { fprintf(stderr, "usage: c03_silksyms rand|real|search <seed> <n> | stdin | corpusgen <dir> | corpusdec <pk> <rate> <ch> <out>\n"); return 64; }
   return 0;
}
