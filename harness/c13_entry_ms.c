/* c13_entry_ms.c — multistream half of the C13 entry-point tie: src/opus_multistream_encoder.c included with the per-stream
   CALL opus_encode_native(enc, buf, ...) redirected to a recorder; the real opus_multistream_encode / _encode24 /
   _encode_float and opus_multistream_encode_native (layout look-up, copy_channel_in, c1/c2) run unchanged.  Printed per
   stream: c1, c2, analysis channels, IMIN(lsb_depth, enc's lsb_depth), float_api, down-mix identity, the gathered stream
   samples (opus_res bits) and the down-mix callback applied with (c1, c2) to the caller's buffer. */
#include "vcommon.h"
#ifdef HAVE_CONFIG_H
#include "config.h"
#endif
#define C13_CAT_(a, b) a##b
#define C13_CAT(a, b) C13_CAT_(a, b)
/* the call site passes `enc`; the prototype in opus_private.h starts with `OpusEncoder *st` */
#define opus_encode_native(a, ...) C13_CAT(c13ms_sel_, a), __VA_ARGS__)
#define c13ms_sel_enc c13_capture_ms(enc
#define c13ms_sel_OpusEncoder c13ms_unused_proto(OpusEncoder
#include "opus.h"
#include "opus_multistream.h"
#include "arch.h"
#include "opus_private.h"
static opus_int32 c13_capture_ms(OpusEncoder *enc, const opus_res *pcm, int frame_size, unsigned char *data,
      opus_int32 out_data_bytes, int lsb_depth, const void *analysis_pcm, opus_int32 analysis_size, int c1, int c2,
      int analysis_channels, downmix_func downmix, int float_api);
#include "opus_multistream_encoder.c"

#define MAXS 8
static struct msrec { int c1, c2, ach, depth, fapi, fs, chs; opus_int32 as; downmix_func dm; float *res; float *sig; } rec[MAXS];
static int nrec; static OpusMSEncoder *g_ms;

static opus_int32 c13_capture_ms(OpusEncoder *enc, const opus_res *pcm, int frame_size, unsigned char *data,
      opus_int32 out_data_bytes, int lsb_depth, const void *analysis_pcm, opus_int32 analysis_size, int c1, int c2,
      int analysis_channels, downmix_func downmix, int float_api)
{
   struct msrec *q; opus_int32 d = 0;
   if (nrec >= MAXS || frame_size <= 0 || out_data_bytes < 1) return OPUS_BAD_ARG;
   q = &rec[nrec];
   q->chs = nrec < g_ms->layout.nb_coupled_streams ? 2 : 1;
   opus_encoder_ctl(enc, OPUS_GET_LSB_DEPTH(&d));
   q->c1 = c1; q->c2 = c2; q->ach = analysis_channels; q->depth = IMIN(lsb_depth, d); q->fapi = float_api; q->fs = frame_size;
   q->as = analysis_size; q->dm = downmix;
   q->res = (float *)malloc(sizeof(float) * (size_t)frame_size * q->chs); memcpy(q->res, pcm, sizeof(float) * (size_t)frame_size * q->chs);
   q->sig = (float *)malloc(sizeof(float) * (size_t)(analysis_size + 1));
   downmix(analysis_pcm, q->sig, analysis_size, 0, c1, c2, analysis_channels);
   nrec++;
   /* a one-byte CELT fullband packet of the right duration (an empty frame) for the repacketizer */
   { opus_int32 Fs = 0; int durk = 0; opus_encoder_ctl(enc, OPUS_GET_SAMPLE_RATE(&Fs));
     while (durk < 3 && frame_size * 400 != Fs * (1 << durk)) durk++;
     data[0] = (unsigned char)(((28 + durk) << 3) | ((q->chs == 2) << 2)); }
   return 1;
}

void c13_run_ms(uint64_t seed, long n)
{
   static const int rates[] = {8000, 12000, 16000, 24000, 48000};
   vrng r; long k; r.s = seed ^ 0x3157E;
   for (k = 0; k < n; k++) {
      int Fs = rates[vbelow(&r, 4)], streams, coupled, K, ch, i, s, err, fmt = vbelow(&r, 3), depth = vrange(&r, 8, 24), fsz, ret; long ns;
      unsigned char mapping[8], perm[8]; OpusMSEncoder *e; unsigned char *buf = (unsigned char *)malloc(4000);
      do { streams = vrange(&r, 1, 3); coupled = vrange(&r, 0, streams); K = streams + coupled; ch = K + (int)vbelow(&r, 3); } while (ch > 8);
      for (i = 0; i < ch; i++) perm[i] = (unsigned char)i;
      for (i = ch - 1; i > 0; i--) { int j = vbelow(&r, i + 1); unsigned char t = perm[i]; perm[i] = perm[j]; perm[j] = t; }
      for (i = 0; i < ch; i++) mapping[i] = vchance(&r, 40) ? 255 : (unsigned char)vbelow(&r, K);
      for (i = 0; i < K; i++) mapping[perm[i]] = (unsigned char)i;
      e = opus_multistream_encoder_create(Fs, ch, streams, coupled, mapping, OPUS_APPLICATION_AUDIO, &err);
      if (!e) { free(buf); continue; }
      opus_multistream_encoder_ctl(e, OPUS_SET_LSB_DEPTH(depth));
      fsz = Fs / 400 * (1 << vbelow(&r, 4)); if (fsz > 120) fsz = Fs / 400 * (1 << vbelow(&r, 2));
      ns = (long)fsz * ch; g_ms = e; nrec = 0;
      printf("I pcm %s %d %d %d %d ", fmt == 0 ? "ms16" : fmt == 1 ? "ms24" : "msf", depth, ch, streams, coupled);
      for (i = 0; i < ch; i++) printf("%s%d", i ? "," : "", mapping[i]);
      if (fmt == 0) {
         opus_int16 *p = (opus_int16 *)malloc(2 * ns);
         for (i = 0; i < ns; i++) p[i] = (opus_int16)(vchance(&r, 8) ? (vchance(&r, 50) ? 32767 : -32768) : (int)(vnext(&r) & 0xffff));
         printf(" "); vhex(stdout, (unsigned char *)p, 2 * ns); printf("\n"); fflush(stdout);
         ret = opus_multistream_encode(e, p, fsz, buf, 4000); free(p);
      } else if (fmt == 1) {
         opus_int32 *p = (opus_int32 *)malloc(4 * ns);
         for (i = 0; i < ns; i++) { opus_int32 a = (opus_int32)vnext(&r); p[i] = vchance(&r, 60) ? 256 * (opus_int32)(short)(a & 0xffff) : (a >> vrange(&r, 0, 20)); }
         printf(" "); vhex(stdout, (unsigned char *)p, 4 * ns); printf("\n"); fflush(stdout);
         ret = opus_multistream_encode24(e, p, fsz, buf, 4000); free(p);
      } else {
         float *p = (float *)malloc(4 * ns);
         for (i = 0; i < ns; i++) p[i] = vchance(&r, 60) ? (float)((int)(vnext(&r) & 0xffff) - 32768) / 32768.f : (float)(3.0 * ((double)(vnext(&r) >> 11) / 4503599627370496.0 - 1.0));
         printf(" "); vhex(stdout, (unsigned char *)p, 4 * ns); printf("\n"); fflush(stdout);
         ret = opus_multistream_encode_float(e, p, fsz, buf, 4000); free(p);
      }
      if (ret <= 0 || nrec != streams) printf("O unexpected ret=%d streams_seen=%d", ret, nrec);
      else {
         printf("O ok n=%d ", nrec);
         for (s = 0; s < nrec; s++) { struct msrec *q = &rec[s];
            printf("%sc1=%d c2=%d ach=%d depth=%d fapi=%d dm=%s fs=%d as=%d res=", s ? " | " : "", q->c1, q->c2, q->ach, q->depth, q->fapi,
                   q->dm == downmix_int ? "int" : q->dm == downmix_int24 ? "int24" : q->dm == downmix_float ? "float" : "UNKNOWN", q->fs, q->as);
            vhex(stdout, (unsigned char *)q->res, 4L * q->fs * q->chs); printf(" sig="); vhex(stdout, (unsigned char *)q->sig, 4L * q->as); }
      }
      printf("\n");
      for (s = 0; s < nrec; s++) { free(rec[s].res); free(rec[s].sig); }
      free(buf); opus_multistream_encoder_destroy(e);
   }
}
