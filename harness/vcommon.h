/* vcommon.h — shared by all /verif harnesses: PRNG, hex output, error names. */
#ifndef VCOMMON_H
#define VCOMMON_H
#include <stdio.h>
#include <stdlib.h>
#include <string.h>
#include <stdint.h>

typedef struct { uint64_t s; } vrng;
static uint64_t vnext(vrng *r) {
   uint64_t z = (r->s += 0x9E3779B97F4A7C15ULL);
   z = (z ^ (z >> 30)) * 0xBF58476D1CE4E5B9ULL;
   z = (z ^ (z >> 27)) * 0x94D049BB133111EBULL;
   return z ^ (z >> 31);
}
static uint32_t vbelow(vrng *r, uint32_t n) { return n ? (uint32_t)(vnext(r) % n) : 0; }
static int vrange(vrng *r, int lo, int hi) { return lo + (int)vbelow(r, (uint32_t)(hi - lo + 1)); }
static int vchance(vrng *r, int pct) { return (int)vbelow(r, 100) < pct; }

static void vhex(FILE *f, const unsigned char *p, long n) {
   static const char d[] = "0123456789abcdef";
   long i; fputc('x', f);
   for (i = 0; i < n; i++) { fputc(d[p[i] >> 4], f); fputc(d[p[i] & 15], f); }
}
static const char *verr(int e) {
   switch (e) {
   case 0: return "OK"; case -1: return "BAD_ARG"; case -2: return "BUFFER_TOO_SMALL";
   case -3: return "INTERNAL_ERROR"; case -4: return "INVALID_PACKET"; case -5: return "UNIMPLEMENTED";
   case -6: return "INVALID_STATE"; case -7: return "ALLOC_FAIL"; default: return "UNKNOWN_ERR";
   }
}
/* exact-size heap copy so that ASan sees any read past the packet */
static unsigned char *vexact(const unsigned char *p, long n) {
   unsigned char *q = (unsigned char *)malloc(n > 0 ? n : 1);
   if (n > 0) memcpy(q, p, n);
   return q;
}
static int vhexval(int c) {
   if (c >= '0' && c <= '9') return c - '0';
   if (c >= 'a' && c <= 'f') return c - 'a' + 10;
   if (c >= 'A' && c <= 'F') return c - 'A' + 10;
   return -1;
}
/* parse "x0a0b" into buf; returns length or -1 */
static long vunhex(const char *s, unsigned char *buf, long cap) {
   long n = 0;
   if (*s != 'x') return -1;
   s++;
   while (s[0] && s[1] && vhexval(s[0]) >= 0 && vhexval(s[1]) >= 0) {
      if (n >= cap) return -1;
      buf[n++] = (unsigned char)(vhexval(s[0]) * 16 + vhexval(s[1]));
      s += 2;
   }
   return n;
}

/* Traps: a sanitizer report or a hardening assert (celt_fatal -> abort) becomes the answer
   of the case in flight ("O SANITIZER" / "O ABORT"), then the process ends. */
#include <signal.h>
#include <unistd.h>
#if defined(__SANITIZE_ADDRESS__)
void __sanitizer_set_death_callback(void (*cb)(void));
static void vdeath(void) { fputs("\nO SANITIZER\n", stdout); fflush(stdout); }
#endif
static void vabort_handler(int sig) { (void)sig; fputs("\nO ABORT\n", stdout); fflush(stdout); _exit(3); }
static void vsegv_handler(int sig) { (void)sig; fputs("\nO SIGSEGV\n", stdout); fflush(stdout); _exit(4); }
static void vinstall_traps(void) {
#if defined(__SANITIZE_ADDRESS__)
   __sanitizer_set_death_callback(vdeath);
#else
   signal(SIGSEGV, vsegv_handler);
#endif
   signal(SIGABRT, vabort_handler);
}
#endif
