/* c01_celtcallees2_inst.c — the INSTRUMENTED translation unit of the C01 / CeltCallees2 tie.

   It compiles the repo's own celt/kiss_fft.c, celt/mdct.c, celt/pitch.c and celt/bands.c (C reference paths: the
   x86 / RTCD defines are dropped on the command line) with `-fsanitize=thread -O0` code generation and NO
   ThreadSanitizer runtime: every memory access the compiler emits calls `__tsan_read<N>` / `__tsan_write<N>`, which
   harness/c01_celtcallees2.c defines as recorders (min / max element index per registered array).  `ALLOC` is a
   recording allocator (x_lp4, y_lp4, xcorr of pitch_search become separate heap blocks with guard zones), OPUS_CLEAR
   goes through a recording memset.  All symbols of this object except the three entry points are made local with
   objcopy, so the library's originals stay untouched.  Nothing in /repo is edited; the index expressions executed
   here are the repo's. */
#ifdef HAVE_CONFIG_H
#include "config.h"
#endif
#include <stddef.h>
#include <string.h>
#include "arch.h"
#include "os_support.h"
#include "stack_alloc.h"

void *vrec_alloc(const char *name, long n, long esz);
void *vrec_memset(void *d, int c, size_t n);

#undef ALLOC
#define ALLOC(var, size, type) type *var = (type *)vrec_alloc(#var, (long)(size), (long)sizeof(type))
#undef OPUS_CLEAR
#define OPUS_CLEAR(dst, n) (vrec_memset((dst), 0, (n)*sizeof(*(dst))))

#include "kiss_fft.c"
#include "mdct.c"
#include "pitch.c"
#include "bands.c"

void vinst_mdct(const mdct_lookup *l, kiss_fft_scalar *in, kiss_fft_scalar *out, const celt_coef *window, int overlap, int shift, int stride)
{
   clt_mdct_backward_c(l, in, out, window, overlap, shift, stride, 0);
}
void vinst_denorm(const CELTMode *m, const celt_norm *X, celt_sig *freq, const celt_glog *bandLogE, int start, int end, int M, int downsample, int silence)
{
   denormalise_bands(m, X, freq, bandLogE, start, end, M, downsample, silence);
}
void vinst_psearch(const opus_val16 *x_lp, opus_val16 *y, int len, int max_pitch, int *pitch)
{
   pitch_search(x_lp, y, len, max_pitch, pitch, 0);
}
