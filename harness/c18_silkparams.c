/* c18_silkparams.c — correspondence + witness-search harness for property C18
   (SILK side information dequantises to stable, in-range parameters).

   Correspondence modes (print `I silkparams <op> <args>` then `O <answer>`):
      nlsfdec <seed> <nrand>   all CB1 indices x residual extremes (+-10/+-4) + random residual grid, both codebooks,
                               plus silk_NLSF_unpack for every CB1 index
      stab <seed> <n>          silk_NLSF_stabilize on random / reversed / clustered / boundary int16 vectors
      nlsf2a <seed> <n>        silk_NLSF2A (+ inverse prediction gain) on stabilised, interpolated and raw sorted inputs,
                               silk_LPC_fit, silk_bwexpander_32, silk_LPC_inverse_pred_gain_c on random filters,
                               silk_decode_parameters (NLSF part, incl. interpolation), silk_interpolate
      gains <seed> <n>         all 64 x (64+41) (prev, index, conditional) single steps, random chains, quantiser,
                               silk_log2lin / silk_lin2log sweeps
      pitch <level>            lag indices x contour indices x {8,12,16} kHz x {2,4} sub-frames
   Witness search (property predicates evaluated on the implementation only; prints `V ...` per violation):
      search <seed> <n>
   Every randomly drawn case is derived from the seed argument only. */
#include "vcommon.h"
#include "main.h"
#include "pitch_est_defines.h"

/* ------------------------------------------------------------------ instrumented silk_NLSF2A
   silk_NLSF2A and silk_LPC_fit are compiled HERE from the repo's own silk/NLSF2A.c and silk/LPC_fit.c (so every other caller inside the library,
   e.g. silk_decode_parameters, links against this copy) with its calls of silk_LPC_fit, silk_bwexpander_32 and
   silk_LPC_inverse_pred_gain_c routed through wrappers.  The wrappers call the real library functions and
   count every `(opus_int16)` cast whose operand did not fit (re-computing the operand in 64 bits):
   the casts of LPC_fit.c:74/79 and of the re-quantisation NLSF2A.c:136.  The count is printed as `tr=`
   and compared with the model's count (theorem lpc_fit_int16: always 0). */
static long verif_trunc = 0;
static opus_int32 verif_snap[SILK_MAX_ORDER_LPC];
static int verif_snap_n = -1;
static opus_int32 verif_fit_snap[SILK_MAX_ORDER_LPC];      /* a_QIN as the final casts of silk_LPC_fit see it */
static int verif_fit_calls = 0;                            /* bandwidth expansions done by the current silk_LPC_fit */
static long long vrr64(long long a, int s) { return s == 1 ? (a >> 1) + (a & 1) : ((a >> (s - 1)) + 1) >> 1; }
static void verif_LPC_fit(opus_int16 *a_QOUT, opus_int32 *a_QIN, const opus_int QOUT, const opus_int QIN, const opus_int d);
static void verif_bwexpander_32(opus_int32 *ar, const opus_int d, opus_int32 chirp_Q16);
static void verif_bwexp_fit(opus_int32 *ar, const opus_int d, opus_int32 chirp_Q16);
static opus_int32 verif_inv_pred_gain(const opus_int16 *A_Q12, const opus_int order);
/* silk_LPC_fit itself is compiled here too, so that its silk_bwexpander_32 calls can be observed */
#define silk_bwexpander_32 verif_bwexp_fit
#include "LPC_fit.c"
#undef silk_bwexpander_32
#define silk_LPC_fit verif_LPC_fit
#define silk_bwexpander_32 verif_bwexpander_32
#define silk_LPC_inverse_pred_gain_c verif_inv_pred_gain
#include "NLSF2A.c"
#undef silk_LPC_fit
#undef silk_bwexpander_32
#undef silk_LPC_inverse_pred_gain_c
#undef QA
static void verif_bwexp_fit(opus_int32 *ar, const opus_int d, opus_int32 chirp_Q16)
{
   silk_bwexpander_32(ar, d, chirp_Q16);
   if (d <= SILK_MAX_ORDER_LPC) memcpy(verif_fit_snap, ar, d * sizeof(opus_int32));
   verif_fit_calls++;
}
static void verif_LPC_fit(opus_int16 *a_QOUT, opus_int32 *a_QIN, const opus_int QOUT, const opus_int QIN, const opus_int d)
{
   int k;
   verif_snap_n = -1;
   verif_fit_calls = 0;
   if (d <= SILK_MAX_ORDER_LPC) memcpy(verif_fit_snap, a_QIN, d * sizeof(opus_int32));
   silk_LPC_fit(a_QOUT, a_QIN, QOUT, QIN, d);
   /* the cast operands, recomputed in 64 bits from the coefficients the final loop read: after 10 expansions
      the code clips (silk_SAT16) before the cast, otherwise it casts silk_RSHIFT_ROUND directly */
   for (k = 0; k < d && d <= SILK_MAX_ORDER_LPC; k++) {
      long long op = vrr64(verif_fit_snap[k], QIN - QOUT);
      if (verif_fit_calls >= 10) op = op > 32767 ? 32767 : op < -32768 ? -32768 : op;
      if ((long long)a_QOUT[k] != op) verif_trunc++;
   }
}
static void verif_bwexpander_32(opus_int32 *ar, const opus_int d, opus_int32 chirp_Q16)
{
   silk_bwexpander_32(ar, d, chirp_Q16);
   if (d <= SILK_MAX_ORDER_LPC) { memcpy(verif_snap, ar, d * sizeof(opus_int32)); verif_snap_n = d; }
}
static opus_int32 verif_inv_pred_gain(const opus_int16 *A_Q12, const opus_int order)
{
   if (verif_snap_n == order) {          /* A_Q12 was just re-quantised from verif_snap (NLSF2A.c:135-137) */
      int k;
      for (k = 0; k < order; k++) if ((long long)A_Q12[k] != vrr64(verif_snap[k], 17 - 12)) verif_trunc++;
      verif_snap_n = -1;
   }
   return silk_LPC_inverse_pred_gain_c(A_Q12, order);
}

static void plist16(const opus_int16 *p, int n) { int i; if (!n) printf("-"); for (i = 0; i < n; i++) printf("%s%d", i ? "," : "", (int)p[i]); }
static void plist8(const opus_int8 *p, int n) { int i; if (!n) printf("-"); for (i = 0; i < n; i++) printf("%s%d", i ? "," : "", (int)p[i]); }
static void plist32(const opus_int32 *p, int n) { int i; if (!n) printf("-"); for (i = 0; i < n; i++) printf("%s%d", i ? "," : "", (int)p[i]); }
static void plisti(const int *p, int n) { int i; if (!n) printf("-"); for (i = 0; i < n; i++) printf("%s%d", i ? "," : "", p[i]); }

static void *xdup(const void *p, size_t n) { void *q = malloc(n ? n : 1); if (n) memcpy(q, p, n); return q; }

static const silk_NLSF_CB_struct *cb_of(int wb) { return wb ? &silk_NLSF_CB_WB : &silk_NLSF_CB_NB_MB; }
static const char *cb_name(int wb) { return wb ? "wb" : "nbmb"; }

/* ------------------------------------------------------------------ single operations */
static void do_unpack(int wb, int cb1)
{
   const silk_NLSF_CB_struct *cb = cb_of(wb);
   int L = cb->order;
   opus_int16 *ec = (opus_int16 *)malloc(L * sizeof(opus_int16));
   opus_uint8 *pr = (opus_uint8 *)malloc(L);
   int i;
   printf("I silkparams unpack %s %d\n", cb_name(wb), cb1); fflush(stdout);
   silk_NLSF_unpack(ec, pr, cb, cb1);
   printf("O OK ec="); plist16(ec, L); printf(" pred=");
   for (i = 0; i < L; i++) printf("%s%d", i ? "," : "", (int)pr[i]);
   printf("\n");
   free(ec); free(pr);
}

static void do_nlsfdec(int wb, const opus_int8 *idx, opus_int16 *out_opt)
{
   const silk_NLSF_CB_struct *cb = cb_of(wb);
   int L = cb->order;
   opus_int8 *ix = (opus_int8 *)xdup(idx, L + 1);
   opus_int16 *out = (opus_int16 *)malloc(L * sizeof(opus_int16));
   printf("I silkparams nlsfdec %s ", cb_name(wb)); plist8(ix, L + 1); printf("\n"); fflush(stdout);
   silk_NLSF_decode(out, ix, cb);
   printf("O OK "); plist16(out, L); printf("\n");
   if (out_opt) memcpy(out_opt, out, L * sizeof(opus_int16));
   free(ix); free(out);
}

static void do_stab(const opus_int16 *x, const opus_int16 *d, int L)
{
   opus_int16 *xx = (opus_int16 *)xdup(x, L * sizeof(opus_int16));
   opus_int16 *dd = (opus_int16 *)xdup(d, (L + 1) * sizeof(opus_int16));
   printf("I silkparams stab "); plist16(xx, L); printf(" "); plist16(dd, L + 1); printf("\n"); fflush(stdout);
   silk_NLSF_stabilize(xx, dd, L);
   printf("O OK "); plist16(xx, L); printf("\n");
   free(xx); free(dd);
}

static void do_nlsf2a(const opus_int16 *nlsf, int d)
{
   opus_int16 *in = (opus_int16 *)xdup(nlsf, d * sizeof(opus_int16));
   opus_int16 *a = (opus_int16 *)malloc(d * sizeof(opus_int16));
   printf("I silkparams nlsf2a "); plist16(in, d); printf("\n"); fflush(stdout);
   verif_trunc = 0;
   silk_NLSF2A(a, in, d, 0);
   printf("O OK a="); plist16(a, d); printf(" ig=%d tr=%ld\n", (int)silk_LPC_inverse_pred_gain(a, d, 0), verif_trunc);
   free(in); free(a);
}

static void do_invgain(const opus_int16 *a, int d)
{
   opus_int16 *in = (opus_int16 *)xdup(a, d * sizeof(opus_int16));
   printf("I silkparams invgain "); plist16(in, d); printf("\n"); fflush(stdout);
   printf("O OK %d\n", (int)silk_LPC_inverse_pred_gain_c(in, d));
   free(in);
}

static void do_lpcfit(const opus_int32 *a32, int d)
{
   opus_int32 *in = (opus_int32 *)xdup(a32, d * sizeof(opus_int32));
   opus_int16 *q = (opus_int16 *)malloc(d * sizeof(opus_int16));
   printf("I silkparams lpcfit "); plist32(in, d); printf("\n"); fflush(stdout);
   verif_trunc = 0;
   verif_LPC_fit(q, in, 12, 17, d);
   printf("O OK q="); plist16(q, d); printf(" a="); plist32(in, d); printf(" tr=%ld\n", verif_trunc);
   free(in); free(q);
}

static void do_bwexp32(const opus_int32 *a32, int d, opus_int32 chirp)
{
   opus_int32 *in = (opus_int32 *)xdup(a32, d * sizeof(opus_int32));
   printf("I silkparams bwexp32 "); plist32(in, d); printf(" %d\n", (int)chirp); fflush(stdout);
   silk_bwexpander_32(in, d, chirp);
   printf("O OK "); plist32(in, d); printf("\n");
   free(in);
}

static void do_gdeq(int prev, int cond, const opus_int8 *ind, int n)
{
   opus_int8 *ix = (opus_int8 *)xdup(ind, n);
   opus_int32 *g = (opus_int32 *)malloc(n * sizeof(opus_int32));
   opus_int8 *p = (opus_int8 *)malloc(1);
   *p = (opus_int8)prev;
   printf("I silkparams gdeq %d %d ", prev, cond); plist8(ix, n); printf("\n"); fflush(stdout);
   silk_gains_dequant(g, ix, p, cond, n);
   printf("O OK g="); plist32(g, n); printf(" prev=%d\n", (int)*p);
   free(ix); free(g); free(p);
}

static void do_gq(int prev, int cond, const opus_int32 *gains, int n)
{
   opus_int32 *g = (opus_int32 *)xdup(gains, n * sizeof(opus_int32));
   opus_int8 *ix = (opus_int8 *)malloc(n);
   opus_int8 *p = (opus_int8 *)malloc(1);
   *p = (opus_int8)prev;
   printf("I silkparams gq %d %d ", prev, cond); plist32(g, n); printf("\n"); fflush(stdout);
   silk_gains_quant(ix, g, p, cond, n);
   printf("O OK ind="); plist8(ix, n); printf(" g="); plist32(g, n); printf(" prev=%d\n", (int)*p);
   free(ix); free(g); free(p);
}

static void do_pitch(int lagIndex, int contour, int fs, int nb)
{
   int *lags = (int *)malloc(nb * sizeof(int));
   printf("I silkparams pitch %d %d %d %d\n", lagIndex, contour, fs, nb); fflush(stdout);
   silk_decode_pitch((opus_int16)lagIndex, (opus_int8)contour, lags, fs, nb);
   printf("O OK "); plisti(lags, nb); printf("\n");
   free(lags);
}

static void do_interp(int coef, const opus_int16 *prev, const opus_int16 *cur, int d)
{
   opus_int16 xi[MAX_LPC_ORDER], x0[MAX_LPC_ORDER], x1[MAX_LPC_ORDER];
   memset(x0, 0, sizeof(x0)); memset(x1, 0, sizeof(x1));
   memcpy(x0, prev, d * sizeof(opus_int16)); memcpy(x1, cur, d * sizeof(opus_int16));
   printf("I silkparams interp %d ", coef); plist16(prev, d); printf(" "); plist16(cur, d); printf("\n"); fflush(stdout);
   silk_interpolate(xi, x0, x1, coef, d);
   printf("O OK "); plist16(xi, d); printf("\n");
}

/* silk_decode_parameters with an otherwise zeroed decoder state (unvoiced, no loss). */
static void run_decparams(int wb, const opus_int8 *idx, const opus_int16 *prev, int coef, int ffar,
                          opus_int16 *a0, opus_int16 *a1, opus_int16 *nlsf)
{
   const silk_NLSF_CB_struct *cb = cb_of(wb);
   int L = cb->order;
   silk_decoder_state *st = (silk_decoder_state *)calloc(1, sizeof(silk_decoder_state));
   silk_decoder_control *ctl = (silk_decoder_control *)calloc(1, sizeof(silk_decoder_control));
   st->LPC_order = L; st->psNLSF_CB = cb; st->nb_subfr = 4; st->fs_kHz = wb ? 16 : 8;
   st->first_frame_after_reset = ffar; st->lossCnt = 0; st->LastGainIndex = 10; st->arch = 0;
   st->indices.signalType = TYPE_UNVOICED; st->indices.NLSFInterpCoef_Q2 = (opus_int8)coef;
   memcpy(st->indices.NLSFIndices, idx, L + 1);
   memcpy(st->prevNLSF_Q15, prev, L * sizeof(opus_int16));
   silk_decode_parameters(st, ctl, CODE_INDEPENDENTLY);
   memcpy(a0, ctl->PredCoef_Q12[0], L * sizeof(opus_int16));
   memcpy(a1, ctl->PredCoef_Q12[1], L * sizeof(opus_int16));
   memcpy(nlsf, st->prevNLSF_Q15, L * sizeof(opus_int16));
   free(st); free(ctl);
}

static void do_decparams(int wb, const opus_int8 *idx, const opus_int16 *prev, int coef, int ffar)
{
   int L = cb_of(wb)->order;
   opus_int16 a0[MAX_LPC_ORDER], a1[MAX_LPC_ORDER], nl[MAX_LPC_ORDER];
   printf("I silkparams decparams %s ", cb_name(wb)); plist8(idx, L + 1); printf(" "); plist16(prev, L);
   printf(" %d %d\n", coef, ffar); fflush(stdout);
   run_decparams(wb, idx, prev, coef, ffar, a0, a1, nl);
   printf("O OK a0="); plist16(a0, L); printf(" a1="); plist16(a1, L); printf(" nlsf="); plist16(nl, L); printf("\n");
}

/* ------------------------------------------------------------------ generators */
static void rand_indices(vrng *r, int wb, opus_int8 *idx, int mode)
{
   int L = cb_of(wb)->order, i;
   idx[0] = (opus_int8)vbelow(r, cb_of(wb)->nVectors);
   for (i = 1; i <= L; i++) {
      switch (mode) {
      case 0: idx[i] = (opus_int8)vrange(r, -10, 10); break;                  /* full extended grid */
      case 1: idx[i] = (opus_int8)vrange(r, -4, 4); break;                    /* un-extended grid */
      case 2: idx[i] = (opus_int8)(vchance(r, 50) ? -10 : 10); break;         /* corners */
      case 3: idx[i] = (opus_int8)(vchance(r, 70) ? vrange(r, -2, 2) : vrange(r, -10, 10)); break;
      default: idx[i] = (opus_int8)vrange(r, -128, 127); break;              /* any int8 (not producible by a bitstream) */
      }
   }
}

static void gen_stab_vec(vrng *r, opus_int16 *x, int L, int kind)
{
   int i;
   switch (kind) {
   case 0: for (i = 0; i < L; i++) x[i] = (opus_int16)vrange(r, -32768, 32767); break;         /* any int16 */
   case 1: for (i = 0; i < L; i++) x[i] = (opus_int16)vrange(r, 0, 32767); break;              /* NLSF range, unsorted */
   case 2: { int v = vrange(r, 20000, 32767); for (i = 0; i < L; i++) { x[i] = (opus_int16)v; v -= vrange(r, 0, 2500); if (v < -32768) v = -32768; } break; } /* reversed */
   case 3: { int c = vrange(r, 0, 32767); for (i = 0; i < L; i++) { int v = c + vrange(r, -6, 6); x[i] = (opus_int16)(v < -32768 ? -32768 : v > 32767 ? 32767 : v); } break; } /* clustered */
   case 4: { static const int b[] = {-32768, -32767, -1, 0, 1, 2, 3, 250, 32000, 32300, 32766, 32767};
             for (i = 0; i < L; i++) x[i] = (opus_int16)b[vbelow(r, sizeof(b) / sizeof(b[0]))]; break; }   /* boundary */
   case 5: { int v = vrange(r, 0, 3000); for (i = 0; i < L; i++) { x[i] = (opus_int16)(v > 32767 ? 32767 : v); v += vrange(r, 0, 5000); } break; } /* almost sorted, tight spots */
   case 6: { int c = vchance(r, 50) ? 32767 : 0; for (i = 0; i < L; i++) x[i] = (opus_int16)(c ? c - (int)vbelow(r, 40) : (int)vbelow(r, 40)); break; } /* crowded at a border */
   default: { int v = 0; for (i = 0; i < L; i++) { v += vrange(r, 1, 2 * 32768 / (L + 1)); x[i] = (opus_int16)(v > 32767 ? 32767 : v); } break; } /* plausible */
   }
}

/* A deltaMin vector satisfying the table facts (entries >= 0, last >= 1, sum <= 32768) but otherwise arbitrary. */
static void gen_delta(vrng *r, opus_int16 *d, int L, int kind)
{
   int i, budget = 32768, v;
   if (kind == 0) { memcpy(d, silk_NLSF_CB_NB_MB.deltaMin_Q15, 11 * sizeof(opus_int16)); return; }
   if (kind == 1) { memcpy(d, silk_NLSF_CB_WB.deltaMin_Q15, 17 * sizeof(opus_int16)); return; }
   d[L] = (opus_int16)(1 + (int)vbelow(r, kind == 2 ? 600 : 3)); budget -= d[L];
   for (i = 0; i < L; i++) {
      int cap = budget / (L - i);
      if (kind == 3) cap = budget;                          /* greedy: uses the whole budget early */
      if (cap > 32767) cap = 32767;
      v = vchance(r, 30) ? 0 : (int)vbelow(r, (uint32_t)cap + 1);
      if (kind == 2 && v > 700) v = (int)vbelow(r, 700);
      d[i] = (opus_int16)v; budget -= v;
   }
}

static void run_nlsfdec(uint64_t seed, long nrand)
{
   vrng r; int wb, cb1, i, s; long c;
   opus_int8 idx[MAX_LPC_ORDER + 1];
   r.s = seed;
   for (wb = 0; wb < 2; wb++) {
      int L = cb_of(wb)->order;
      for (cb1 = 0; cb1 < cb_of(wb)->nVectors; cb1++) {
         static const int ext[] = {-10, 10, -4, 4, -1, 1};
         do_unpack(wb, cb1);
         idx[0] = (opus_int8)cb1;
         for (s = 0; s < 6; s++) {
            /* all coefficients at the extreme */
            for (i = 1; i <= L; i++) idx[i] = (opus_int8)ext[s];
            do_nlsfdec(wb, idx, NULL);
            /* one coefficient at the extreme, the others 0 */
            for (i = 1; i <= L; i++) { int k; for (k = 1; k <= L; k++) idx[k] = 0; idx[i] = (opus_int8)ext[s]; do_nlsfdec(wb, idx, NULL); }
         }
         for (i = 1; i <= L; i++) idx[i] = 0;
         do_nlsfdec(wb, idx, NULL);
         for (i = 1; i <= L; i++) idx[i] = (opus_int8)((i & 1) ? 10 : -10);
         do_nlsfdec(wb, idx, NULL);
         for (i = 1; i <= L; i++) idx[i] = (opus_int8)((i & 1) ? -10 : 10);
         do_nlsfdec(wb, idx, NULL);
      }
   }
   for (c = 0; c < nrand; c++) {
      wb = vbelow(&r, 2);
      rand_indices(&r, wb, idx, (int)vbelow(&r, 5));
      do_nlsfdec(wb, idx, NULL);
   }
}

static void run_stab(uint64_t seed, long n)
{
   vrng r; long c; opus_int16 x[MAX_LPC_ORDER], d[MAX_LPC_ORDER + 1];
   r.s = seed;
   for (c = 0; c < n; c++) {
      int dk = (int)vbelow(&r, 10); int L;
      if (dk >= 4) dk = dk & 1;                      /* mostly the two real tables */
      L = dk == 0 ? 10 : dk == 1 ? 16 : (vchance(&r, 50) ? 10 : 16);
      if (dk >= 2 && vchance(&r, 20)) L = vrange(&r, 1, 16);
      gen_delta(&r, d, L, dk);
      gen_stab_vec(&r, x, L, (int)vbelow(&r, 8));
      do_stab(x, d, L);
   }
}

static void sorted_nlsf(vrng *r, opus_int16 *x, int d)
{
   int i, j;
   for (i = 0; i < d; i++) x[i] = (opus_int16)vrange(r, 0, 32767);
   for (i = 1; i < d; i++) { opus_int16 v = x[i]; for (j = i - 1; j >= 0 && v < x[j]; j--) x[j + 1] = x[j]; x[j + 1] = v; }
}

static void run_nlsf2a(uint64_t seed, long n)
{
   vrng r; long c; int i;
   opus_int8 idx[MAX_LPC_ORDER + 1];
   opus_int16 x[MAX_LPC_ORDER], y[MAX_LPC_ORDER], z[MAX_LPC_ORDER];
   opus_int32 a32[MAX_LPC_ORDER];
   r.s = seed;
   for (c = 0; c < n; c++) {
      int wb = vbelow(&r, 2), d = wb ? 16 : 10, kind = (int)vbelow(&r, 12);
      if (kind < 4) {                                   /* stabilised decoder outputs */
         rand_indices(&r, wb, idx, kind);
         silk_NLSF_decode(x, idx, cb_of(wb));
         do_nlsf2a(x, d);
      } else if (kind < 7) {                            /* interpolated between two decoder outputs, via silk_decode_parameters */
         rand_indices(&r, wb, idx, kind - 4);
         silk_NLSF_decode(x, idx, cb_of(wb));
         rand_indices(&r, wb, idx, (int)vbelow(&r, 4));
         do_decparams(wb, idx, x, (int)vbelow(&r, 5), vchance(&r, 10));
         if (vchance(&r, 30)) { silk_NLSF_decode(y, idx, cb_of(wb)); do_interp((int)vbelow(&r, 5), x, y, d); }
      } else if (kind == 7) {                           /* any previous vector in NLSF range (e.g. after a bandwidth switch) */
         for (i = 0; i < d; i++) x[i] = (opus_int16)vrange(&r, 0, 32767);
         rand_indices(&r, wb, idx, 0);
         do_decparams(wb, idx, x, (int)vbelow(&r, 4), 0);
      } else if (kind == 8) {                           /* raw sorted / unsorted vectors in range: hard cases for the stability loop */
         if (vchance(&r, 60)) sorted_nlsf(&r, x, d); else for (i = 0; i < d; i++) x[i] = (opus_int16)vrange(&r, 0, 32767);
         do_nlsf2a(x, d);
      } else if (kind == 9) {                           /* clustered: near-unstable filters */
         int cc = vrange(&r, 0, 32767);
         for (i = 0; i < d; i++) { int v = cc + vrange(&r, -300, 300); x[i] = (opus_int16)(v < 0 ? 0 : v > 32767 ? 32767 : v); }
         if (vchance(&r, 50)) { opus_int16 dm[MAX_LPC_ORDER + 1]; gen_delta(&r, dm, d, wb); silk_NLSF_stabilize(x, dm, d); }
         do_nlsf2a(x, d);
      } else if (kind == 10) {                          /* LPC_fit / bwexpander_32 on random QA+1 filters */
         /* magnitudes over the whole domain of theorem lpc_fit_int16 (|a| <= 2^31 - 1), with the edges of the
            limiter (32767.5 and 163838 in Q12, i.e. *32 in Q17) and of opus_int32 */
         static const long long edges[] = {1048559, 1048560, 1048575, 1048576, 1048592, 5242816, 5242848, 1073741824LL, 2147483647LL};
         long long mag = vchance(&r, 70) ? (1LL << vrange(&r, 10, 31)) - 1 : edges[vbelow(&r, sizeof(edges) / sizeof(edges[0]))];
         int dense = vchance(&r, 50);
         for (i = 0; i < d; i++) {
            long long v = (long long)(vnext(&r) % (uint64_t)(2 * mag + 1)) - mag;
            if (!dense && vchance(&r, 60)) v /= 1 + (long long)vbelow(&r, 1000);   /* a few dominant coefficients */
            if (vchance(&r, 10)) v = vchance(&r, 50) ? mag : -mag;
            a32[i] = (opus_int32)v;
         }
         do_lpcfit(a32, d);
         for (i = 0; i < d; i++) a32[i] = (opus_int32)vrange(&r, -(1 << 28), 1 << 28);
         do_bwexp32(a32, d, vchance(&r, 70) ? 65536 - (2 << vbelow(&r, 16)) : vrange(&r, 0, 65536));
      } else {                                          /* inverse prediction gain on random Q12 filters */
         int mag = (1 << vrange(&r, 4, 15)) - 1, ord = vchance(&r, 80) ? d : vrange(&r, 1, 24);
         opus_int16 q[24];
         for (i = 0; i < ord; i++) q[i] = (opus_int16)vrange(&r, -mag - 1, mag);     /* up to the whole opus_int16 range */
         if (vchance(&r, 30)) { sorted_nlsf(&r, z, d); silk_NLSF2A(q, z, d, 0); ord = d; if (vchance(&r, 50)) q[vbelow(&r, d)] += (opus_int16)vrange(&r, -64, 64); }
         do_invgain(q, ord);
      }
   }
}

static void run_gains(uint64_t seed, long n)
{
   vrng r; long c; int prev, ind, i;
   opus_int8 ix[MAX_NB_SUBFR]; opus_int32 g[MAX_NB_SUBFR];
   r.s = seed;
   for (prev = 0; prev < N_LEVELS_QGAIN; prev++) {
      for (ind = 0; ind < N_LEVELS_QGAIN; ind++) { ix[0] = (opus_int8)ind; do_gdeq(prev, 0, ix, 1); }
      for (ind = 0; ind <= MAX_DELTA_GAIN_QUANT - MIN_DELTA_GAIN_QUANT; ind++) { ix[0] = (opus_int8)ind; do_gdeq(prev, 1, ix, 1); }
   }
   for (i = -200; i < 4200; i += 1) { printf("I silkparams log2lin %d\nO OK %d\n", i, (int)silk_log2lin(i)); }
   for (i = 0; i < 31; i++) { int k; for (k = -2; k <= 2; k++) { opus_int32 v = (opus_int32)((1u << i) + k); if (v > 0) printf("I silkparams lin2log %d\nO OK %d\n", (int)v, (int)silk_lin2log(v)); } }
   for (c = 0; c < n; c++) {
      int nb = vchance(&r, 50) ? 4 : 2, cond = vbelow(&r, 2), kind = (int)vbelow(&r, 4);
      prev = (int)vbelow(&r, N_LEVELS_QGAIN);
      if (kind == 0) {                                  /* chains of coded indices */
         ix[0] = (opus_int8)(cond ? vbelow(&r, 41) : vbelow(&r, 64));
         for (i = 1; i < nb; i++) ix[i] = (opus_int8)(vchance(&r, 50) ? vbelow(&r, 41) : (vchance(&r, 50) ? 40 - (int)vbelow(&r, 4) : (int)vbelow(&r, 4)));
         do_gdeq(prev, cond, ix, nb);
      } else if (kind == 1) {                           /* quantiser on random gains (log-uniform) */
         for (i = 0; i < nb; i++) { int sh = vrange(&r, 0, 30); g[i] = (opus_int32)((1u << sh) + vbelow(&r, 1u << sh)); if (g[i] <= 0) g[i] = 1; }
         do_gq(prev, cond, g, nb);
      } else if (kind == 2) {                           /* quantiser on gains near a level */
         for (i = 0; i < nb; i++) { opus_int32 base = silk_log2lin(silk_min_32(silk_SMULWB(1907825, (int)vbelow(&r, 64)) + 2090, 3967)); g[i] = base + vrange(&r, -3, 3); if (g[i] <= 0) g[i] = 1; }
         do_gq(prev, cond, g, nb);
      } else {
         i = vrange(&r, -1000, 5000);
         printf("I silkparams log2lin %d\nO OK %d\n", i, (int)silk_log2lin(i));
         { opus_int32 v = (opus_int32)(vnext(&r) & 0x7fffffff); if (v == 0) v = 1; printf("I silkparams lin2log %d\nO OK %d\n", (int)v, (int)silk_lin2log(v)); }
      }
   }
}

static const int lag_cbk_size(int fs, int nb) { return fs == 8 ? (nb == 4 ? PE_NB_CBKS_STAGE2_EXT : PE_NB_CBKS_STAGE2_10MS) : (nb == 4 ? PE_NB_CBKS_STAGE3_MAX : PE_NB_CBKS_STAGE3_10MS); }

static void run_pitch(int level)
{
   static const int fss[3] = {8, 12, 16};
   static const int far[] = {-32768, -32767, -20000, -1000, 1000, 20000, 32766, 32767};
   int f, nb, lag, c, k;
   for (f = 0; f < 3; f++) for (nb = 2; nb <= 4; nb += 2) {
      int fs = fss[f], ncb = lag_cbk_size(fs, nb), span = (PE_MAX_LAG_MS - PE_MIN_LAG_MS) * fs;
      int step = level ? 1 : 3;
      for (c = 0; c < ncb; c++) {
         /* every index a bitstream can produce: absolute 0..span+, delta-coded up to +-(8..11) outside */
         for (lag = -24; lag <= span + 24; lag += (lag < 6 || lag > span - 6) ? 1 : step) do_pitch(lag, c, fs, nb);
         for (k = 0; k < (int)(sizeof(far) / sizeof(far[0])); k++) do_pitch(far[k], c, fs, nb);
      }
   }
}

/* ------------------------------------------------------------------ witness search */
static long n_viol = 0, n_search = 0;

static int spaced_ok(const opus_int16 *x, const opus_int16 *d, int L)
{
   int i;
   if (x[0] < d[0]) return 0;
   for (i = 1; i < L; i++) if ((int)x[i] - (int)x[i - 1] < d[i]) return 0;
   if ((int)x[L - 1] > 32768 - d[L]) return 0;
   return 1;
}

static int fits_ok(const opus_int16 *a, int d)
{
   /* stable by the codec's own criterion, with the bounded gain that criterion enforces */
   opus_int32 ig = silk_LPC_inverse_pred_gain(a, d, 0);
   return ig >= SILK_FIX_CONST(1.0f / MAX_PREDICTION_POWER_GAIN, 30) && ig <= (1 << 30);
}

static void search_nlsf(vrng *r, int wb, const opus_int8 *idx, const opus_int16 *prev_opt)
{
   const silk_NLSF_CB_struct *cb = cb_of(wb);
   int L = cb->order, i;
   opus_int16 x[MAX_LPC_ORDER], a[MAX_LPC_ORDER], a0[MAX_LPC_ORDER], a1[MAX_LPC_ORDER], nl[MAX_LPC_ORDER];
   opus_int8 ix[MAX_LPC_ORDER + 1];
   memcpy(ix, idx, L + 1);
   silk_NLSF_decode(x, ix, cb);
   n_search++;
   {
      int strict = x[0] > 0 && x[L - 1] < 32767 + 1;
      for (i = 1; i < L; i++) if (x[i] <= x[i - 1]) strict = 0;
      if (!spaced_ok(x, cb->deltaMin_Q15, L) || !strict) {
         n_viol++; printf("V silkparams nlsfdec %s ", cb_name(wb)); plist8(idx, L + 1);
         printf(" | NLSFs strictly increasing inside (0, 2^15) with the codebook's minimum spacing | "); plist16(x, L); printf("\n");
      }
   }
   silk_NLSF2A(a, x, L, 0);
   if (!fits_ok(a, L)) {
      n_viol++; printf("V silkparams nlsf2a "); plist16(x, L);
      printf(" | silk_LPC_inverse_pred_gain(a_Q12) != 0 | a="); plist16(a, L); printf(" ig=%d\n", (int)silk_LPC_inverse_pred_gain(a, L, 0));
   }
   if (prev_opt) {
      int coef = (int)vbelow(r, 4);
      run_decparams(wb, idx, prev_opt, coef, 0, a0, a1, nl);
      n_search++;
      if (!fits_ok(a0, L) || !fits_ok(a1, L) || memcmp(nl, x, L * sizeof(opus_int16)) || memcmp(a1, a, L * sizeof(opus_int16))) {
         n_viol++; printf("V silkparams decparams %s ", cb_name(wb)); plist8(idx, L + 1); printf(" "); plist16(prev_opt, L); printf(" %d 0", coef);
         printf(" | interpolated and final filters pass the stability test | a0="); plist16(a0, L); printf(" a1="); plist16(a1, L); printf("\n");
      }
      /* encoder-side interpolation (silk_interpolate) equals the decoder's */
      {
         opus_int16 xi[MAX_LPC_ORDER], p0[MAX_LPC_ORDER], ai[MAX_LPC_ORDER];
         memset(p0, 0, sizeof(p0)); memcpy(p0, prev_opt, L * sizeof(opus_int16));
         silk_interpolate(xi, p0, x, coef, L);
         silk_NLSF2A(ai, xi, L, 0);
         if (memcmp(ai, a0, L * sizeof(opus_int16))) {
            n_viol++; printf("V silkparams interp %d ", coef); plist16(prev_opt, L); printf(" "); plist16(x, L);
            printf(" | encoder-side interpolated filter equals the decoder's | enc="); plist16(ai, L); printf(" dec="); plist16(a0, L); printf("\n");
         }
      }
   }
   (void)i;
}


/* a32_QA1 of silk_NLSF2A recomputed in 64 bits (no wrap): returns max |a32_QA1[k]|; *pq gets max |P[k]|,|Q[k]|. */
static long long a32_max64(const opus_int16 *nlsf, int d, long long *pq)
{
   static const unsigned char o16[16] = {0, 15, 8, 7, 4, 11, 12, 3, 2, 13, 10, 5, 6, 9, 14, 1};
   static const unsigned char o10[10] = {0, 9, 6, 3, 4, 5, 8, 1, 2, 7};
   const unsigned char *ord = d == 16 ? o16 : o10;
   long long c[16], P[9], Q[9], m = 0, t;
   int k, n, pass, dd = d / 2;
   for (k = 0; k < d; k++) {
      int fi = nlsf[k] >> 8, ff = nlsf[k] - (fi << 8);
      long long cv = silk_LSFCosTab_FIX_Q12[fi], dl = silk_LSFCosTab_FIX_Q12[fi + 1] - cv;
      c[ord[k]] = vrr64(cv * 256 + dl * ff, 4);
   }
   for (pass = 0; pass < 2; pass++) {
      long long *out = pass ? Q : P; const long long *cl = c + pass;
      out[0] = 65536; out[1] = -cl[0];
      for (k = 1; k < dd; k++) {
         long long f = cl[2 * k];
         out[k + 1] = 2 * out[k - 1] - vrr64(f * out[k], 16);
         for (n = k; n > 1; n--) out[n] += out[n - 2] - vrr64(f * out[n - 1], 16);
         out[1] -= f;
      }
      for (k = 0; k <= dd; k++) { t = out[k] < 0 ? -out[k] : out[k]; if (pq && t > *pq) *pq = t; }
   }
   for (k = 0; k < dd; k++) {
      long long Pt = P[k + 1] + P[k], Qt = Q[k + 1] - Q[k], a = -Qt - Pt, b = Qt - Pt;
      if (a < 0) a = -a; if (b < 0) b = -b;
      if (a > m) m = a; if (b > m) m = b;
   }
   return m;
}

static void sort16(opus_int16 *x, int d)
{
   int i, j;
   for (i = 1; i < d; i++) { opus_int16 v = x[i]; for (j = i - 1; j >= 0 && v < x[j]; j--) x[j + 1] = x[j]; x[j + 1] = v; }
}

/* Range predicate of silk_NLSF2A on ORDERED inputs (the decoder's domain): a32_QA1 fits 32 bits (64-bit
   recomputation; the open obligation of theorem nlsf2a_nowrap_d16_partial), then the real function under UBSan
   with no truncating (opus_int16) cast. */
static long long a32_worst = 0, pq_worst = 0;
static void search_ordered(const opus_int16 *x, int d)
{
   opus_int16 a[MAX_LPC_ORDER];
   long long m = a32_max64(x, d, &pq_worst);
   n_search++;
   if (m > a32_worst) a32_worst = m;
   if (m > 2147483647LL) {
      n_viol++; printf("V silkparams nlsf2a "); plist16(x, d);
      printf(" | a32_QA1 of an ordered NLSF vector fits opus_int32 (no signed overflow at NLSF2A.c:125-126) | max|a32_QA1|=%lld\n", m);
      return;                             /* the real call would trap under UBSan */
   }
   verif_trunc = 0;
   silk_NLSF2A(a, x, d, 0);
   if (verif_trunc != 0) {
      n_viol++; printf("V silkparams nlsf2a "); plist16(x, d);
      printf(" | no (opus_int16) cast in silk_LPC_fit / silk_NLSF2A truncates | %ld truncating casts, a=", verif_trunc); plist16(a, d); printf("\n");
   }
}

static void run_search(uint64_t seed, long n)
{
   vrng r; long c; int wb, cb1, i, s, prev, ind;
   opus_int8 idx[MAX_LPC_ORDER + 1];
   opus_int16 x[MAX_LPC_ORDER], d[MAX_LPC_ORDER + 1], prevv[MAX_LPC_ORDER];
   r.s = seed ^ 0x5eac18ULL;
   /* (1) NLSF decode: all first-stage vectors x per-coefficient extremes, then random grid */
   for (wb = 0; wb < 2; wb++) {
      int L = cb_of(wb)->order;
      for (cb1 = 0; cb1 < cb_of(wb)->nVectors; cb1++) {
         static const int ext[] = {-10, 10};
         idx[0] = (opus_int8)cb1;
         for (s = 0; s < 2; s++) {
            for (i = 1; i <= L; i++) idx[i] = (opus_int8)ext[s];
            search_nlsf(&r, wb, idx, NULL);
            for (i = 1; i <= L; i++) { int k; for (k = 1; k <= L; k++) idx[k] = 0; idx[i] = (opus_int8)ext[s]; search_nlsf(&r, wb, idx, NULL); }
         }
      }
   }
   for (c = 0; c < n; c++) {
      wb = vbelow(&r, 2);
      rand_indices(&r, wb, idx, (int)vbelow(&r, 4));
      silk_NLSF_decode(prevv, idx, cb_of(wb));
      if (vchance(&r, 20)) for (i = 0; i < cb_of(wb)->order; i++) prevv[i] = (opus_int16)vrange(&r, 0, 32767);
      rand_indices(&r, wb, idx, (int)vbelow(&r, 4));
      search_nlsf(&r, wb, idx, prevv);
   }
   /* (2) stabiliser on arbitrary int16 vectors with the real tables and with arbitrary admissible tables */
   for (c = 0; c < n; c++) {
      int dk = (int)vbelow(&r, 4), L = dk == 0 ? 10 : dk == 1 ? 16 : (vchance(&r, 50) ? 10 : 16);
      opus_int16 in[MAX_LPC_ORDER];
      gen_delta(&r, d, L, dk);
      gen_stab_vec(&r, x, L, (int)vbelow(&r, 8));
      memcpy(in, x, sizeof(in));
      silk_NLSF_stabilize(x, d, L);
      n_search++;
      if (!spaced_ok(x, d, L)) {
         n_viol++; printf("V silkparams stab "); plist16(in, L); printf(" "); plist16(d, L + 1);
         printf(" | output ordered with minimum spacing | "); plist16(x, L); printf("\n");
      }
   }
   /* (3) gains: all 64 x (64+41) single steps, chains, quantiser/dequantiser agreement */
   {
      opus_int32 gmin = silk_log2lin(silk_min_32(silk_SMULWB(1907825, 0) + 2090, 3967));
      opus_int32 gmax = silk_log2lin(silk_min_32(silk_SMULWB(1907825, N_LEVELS_QGAIN - 1) + 2090, 3967));
      for (prev = 0; prev < N_LEVELS_QGAIN; prev++) for (s = 0; s < 2; s++) {
         int top = s ? MAX_DELTA_GAIN_QUANT - MIN_DELTA_GAIN_QUANT : N_LEVELS_QGAIN - 1;
         for (ind = 0; ind <= top; ind++) {
            opus_int8 ix = (opus_int8)ind, p = (opus_int8)prev; opus_int32 g;
            silk_gains_dequant(&g, &ix, &p, s, 1);
            n_search++;
            if (p < 0 || p > N_LEVELS_QGAIN - 1 || g < gmin || g > gmax) {
               n_viol++; printf("V silkparams gdeq %d %d %d | 0 <= prev_ind <= 63 and gain within the quantiser range [%d,%d] | g=%d prev=%d\n",
                                prev, s, ind, (int)gmin, (int)gmax, (int)g, (int)p);
            }
         }
      }
      for (c = 0; c < n; c++) {
         int nb = vchance(&r, 50) ? 4 : 2, cond = vbelow(&r, 2), bad = 0, steps = vrange(&r, 1, 6), st;
         opus_int8 p = (opus_int8)vbelow(&r, 64), p2, ixs[MAX_NB_SUBFR]; opus_int32 g[MAX_NB_SUBFR], g2[MAX_NB_SUBFR], gin[MAX_NB_SUBFR];
         int p_in = p;
         /* chain of frames through the dequantiser */
         for (st = 0; st < steps && !bad; st++) {
            ixs[0] = (opus_int8)(cond ? vbelow(&r, 41) : vbelow(&r, 64));
            for (i = 1; i < nb; i++) ixs[i] = (opus_int8)(vchance(&r, 60) ? vbelow(&r, 41) : (vchance(&r, 50) ? 40 : 0));
            silk_gains_dequant(g, ixs, &p, cond, nb);
            n_search++;
            for (i = 0; i < nb; i++) if (g[i] < gmin || g[i] > gmax) bad = 1;
            if (p < 0 || p > 63) bad = 1;
            cond = vbelow(&r, 2);
         }
         if (bad) { n_viol++; printf("V silkparams gdeq %d %d ", p_in, cond); plist8(ixs, nb); printf(" | chain keeps prev_ind in [0,63] and gains in range | g="); plist32(g, nb); printf(" prev=%d\n", (int)p); }
         /* encoder reconstruction == decoder reconstruction */
         p = p2 = (opus_int8)vbelow(&r, 64); cond = vbelow(&r, 2);
         for (i = 0; i < nb; i++) { int sh = vrange(&r, 0, 30); gin[i] = (opus_int32)((1u << sh) + vbelow(&r, 1u << sh)); if (gin[i] <= 0) gin[i] = 1; }
         memcpy(g, gin, sizeof(g));
         p_in = p;
         silk_gains_quant(ixs, g, &p, cond, nb);
         silk_gains_dequant(g2, ixs, &p2, cond, nb);
         n_search++;
         bad = (p != p2) || memcmp(g, g2, nb * sizeof(opus_int32));
         for (i = 0; i < nb; i++) if (ixs[i] < 0 || ixs[i] > ((i == 0 && !cond) ? 63 : 40)) bad = 1;
         if (bad) { n_viol++; printf("V silkparams gq %d %d ", p_in, cond); plist32(gin, nb); printf(" | indices in coded range and silk_gains_dequant reproduces the encoder's gains | ind="); plist8(ixs, nb); printf(" enc="); plist32(g, nb); printf(" dec="); plist32(g2, nb); printf(" prev=%d/%d\n", (int)p, (int)p2); }
      }
   }
   /* (4) pitch lags */
   {
      static const int fss[3] = {8, 12, 16}; int f, nb, lag, cc, k;
      for (f = 0; f < 3; f++) for (nb = 2; nb <= 4; nb += 2) {
         int fs = fss[f], ncb = lag_cbk_size(fs, nb), lags[4];
         for (cc = 0; cc < ncb; cc++) for (lag = -32768; lag <= 32767; lag += (lag >= -64 && lag <= 400) ? 1 : 97) {
            silk_decode_pitch((opus_int16)lag, (opus_int8)cc, lags, fs, nb);
            n_search++;
            for (k = 0; k < nb; k++) if (lags[k] < PE_MIN_LAG_MS * fs || lags[k] > PE_MAX_LAG_MS * fs) {
               n_viol++; printf("V silkparams pitch %d %d %d %d | %d <= lag <= %d | ", lag, cc, fs, nb, PE_MIN_LAG_MS * fs, PE_MAX_LAG_MS * fs); plisti(lags, nb); printf("\n"); break;
            }
         }
      }
   }
   /* (5) silk_NLSF2A on ordered vectors, pushed towards the largest a32_QA1 by hill climbing */
   {
      int d, v, t;
      for (d = 10; d <= 16; d += 6) for (v = 0; v <= 32767; v += 37) { for (i = 0; i < d; i++) x[i] = (opus_int16)v; search_ordered(x, d); }
      for (c = 0; c < n / 4; c++) {
         int mode = (int)vbelow(&r, 4); long long m, m2; opus_int16 y[MAX_LPC_ORDER];
         d = vchance(&r, 75) ? 16 : 10;
         if (mode == 0) for (i = 0; i < d; i++) x[i] = (opus_int16)vrange(&r, 0, 32767);
         else if (mode == 1) { int cc = vrange(&r, 0, 32767), w = vrange(&r, 1, 2000); for (i = 0; i < d; i++) { v = cc + vrange(&r, -w, w); x[i] = (opus_int16)(v < 0 ? 0 : v > 32767 ? 32767 : v); } }
         else if (mode == 2) { int top = vchance(&r, 50), w = vrange(&r, 1, 300); for (i = 0; i < d; i++) x[i] = (opus_int16)(top ? 32767 - (int)vbelow(&r, w) : (int)vbelow(&r, w)); }
         else { int c1 = vrange(&r, 0, 32767), c2 = vrange(&r, 0, 32767), sp = (int)vbelow(&r, d + 1), w = vrange(&r, 1, 500); for (i = 0; i < d; i++) { v = (i < sp ? c1 : c2) + (int)vbelow(&r, w); x[i] = (opus_int16)(v > 32767 ? 32767 : v); } }
         sort16(x, d);
         m = a32_max64(x, d, NULL);
         for (t = 0; t < 60; t++) {
            int j = (int)vbelow(&r, d);
            memcpy(y, x, sizeof(y));
            v = y[j] + vrange(&r, -1000, 1000); y[j] = (opus_int16)(v < 0 ? 0 : v > 32767 ? 32767 : v);
            sort16(y, d);
            m2 = a32_max64(y, d, NULL);
            if (m2 >= m) { m = m2; memcpy(x, y, sizeof(y)); }
         }
         search_ordered(x, d);
      }
      printf("# ordered-NLSF2A worst max|a32_QA1|=%lld (%.4f of 2^31) worst max|P|,|Q|=%lld\n", a32_worst, a32_worst / 2147483648.0, pq_worst);
   }
   printf("# search cases=%ld violations=%ld\n", n_search, n_viol);
}

static void run_stdin(void)
{
   /* replay: the recognised `silkparams` lines (as printed after `I `) are re-run on the implementation */
   static char line[1 << 16];
   while (fgets(line, sizeof(line), stdin)) {
      char op[32], a1[20000], a2[20000], a3[2000]; int v[8];
      char *s = line; if (!strncmp(s, "I ", 2)) s += 2;
      if (sscanf(s, "silkparams %31s", op) != 1) continue;
#define PARSE16(str, arr, n) do { char *q = (str); n = 0; if (strcmp(q, "-")) while (*q) { arr[n++] = (opus_int16)strtol(q, &q, 10); if (*q == ',') q++; } } while (0)
      if (!strcmp(op, "stab") && sscanf(s, "silkparams stab %19999s %19999s", a1, a2) == 2) {
         opus_int16 x[64], d[65]; int n, m; PARSE16(a1, x, n); PARSE16(a2, d, m); if (m == n + 1 && n > 0) do_stab(x, d, n);
      } else if (!strcmp(op, "nlsfdec") && sscanf(s, "silkparams nlsfdec %19s %19999s", a3, a1) == 2) {
         opus_int16 t[64]; opus_int8 ix[64]; int n, i, wb = !strcmp(a3, "wb"); PARSE16(a1, t, n);
         if (n == cb_of(wb)->order + 1) { for (i = 0; i < n; i++) ix[i] = (opus_int8)t[i]; do_nlsfdec(wb, ix, NULL); }
      } else if (!strcmp(op, "nlsf2a") && sscanf(s, "silkparams nlsf2a %19999s", a1) == 1) {
         opus_int16 x[64]; int n; PARSE16(a1, x, n); if (n == 10 || n == 16) do_nlsf2a(x, n);
      } else if (!strcmp(op, "gdeq") && sscanf(s, "silkparams gdeq %d %d %19999s", &v[0], &v[1], a1) == 3) {
         opus_int16 t[64]; opus_int8 ix[64]; int n, i; PARSE16(a1, t, n); for (i = 0; i < n; i++) ix[i] = (opus_int8)t[i]; if (n > 0 && n <= 4) do_gdeq(v[0], v[1], ix, n);
      } else if (!strcmp(op, "pitch") && sscanf(s, "silkparams pitch %d %d %d %d", &v[0], &v[1], &v[2], &v[3]) == 4) {
         if ((v[3] == 2 || v[3] == 4)) do_pitch(v[0], v[1], v[2], v[3]);
      }
   }
}

int main(int argc, char **argv)
{
   vinstall_traps();
   if (argc >= 4 && !strcmp(argv[1], "nlsfdec")) run_nlsfdec(strtoull(argv[2], 0, 10), atol(argv[3]));
   else if (argc >= 4 && !strcmp(argv[1], "stab")) run_stab(strtoull(argv[2], 0, 10), atol(argv[3]));
   else if (argc >= 4 && !strcmp(argv[1], "nlsf2a")) run_nlsf2a(strtoull(argv[2], 0, 10), atol(argv[3]));
   else if (argc >= 4 && !strcmp(argv[1], "gains")) run_gains(strtoull(argv[2], 0, 10), atol(argv[3]));
   else if (argc >= 3 && !strcmp(argv[1], "pitch")) run_pitch(atoi(argv[2]));
   else if (argc >= 4 && !strcmp(argv[1], "search")) run_search(strtoull(argv[2], 0, 10), atol(argv[3]));
   else if (argc >= 2 && !strcmp(argv[1], "stdin")) run_stdin();
   else { fprintf(stderr, "usage: c18_silkparams nlsfdec|stab|nlsf2a|gains <seed> <n> | pitch <level> | search <seed> <n> | stdin\n"); return 64; }
   fflush(stdout);
   return 0;
}
