/* c08_codes.c — correspondence harness for the composition C08 ∘ C17: ec_laplace_encode/decode and
   encode_pulses/decode_pulses driven through the REAL range coder, mixed with plain range-coder calls.
   Line protocol (lean/Driver/SuiteRangeCoder.lean, op `cseq`):
     rangecoder cseq <size> <fill> <codes>
        codes  `;`-separated:  L:<value>:<fs>:<decay>   ec_laplace_encode / ec_laplace_decode
                               P:<K>:<y0,y1,...>        encode_pulses / decode_pulses (N = number of y)
                               e:fl:fh:ft  b:fl:fh:bits  l:v:logp  u:v:ft  r:v:n   plain calls
     answer: <ok|err> W <written-back Laplace values|-> D <st> B <hex size+16> X <decoded|-> Y <dec st|->
        decoded = `|`-separated  L<int>  P<y0,y1,..>  S<n>;   st as in `seq`
   Modes: rand <seed> <n> | stdin */
#ifdef HAVE_CONFIG_H
#include "config.h"
#endif
#include "vcommon.h"
#include "entenc.h"
#include "entdec.h"
#include "entcode.h"
#include "laplace.h"
#include "cwrs.h"

#define GUARD 16
#define MAXN 64
#define MAXC 64
typedef struct { char k; long a, b, c; int n; int y[MAXN]; } code_t;
static long n_ok, n_err, n_lap, n_pvq, n_op, n_clamped;

static void st_print(ec_ctx *c)
{
   printf("%u,%u,%u,%u,%u,%d,%d,%d,%u,%d,%d,%u", c->rng, c->val, c->offs, c->end_offs, (unsigned)c->end_window,
      c->nend_bits, c->nbits_total, c->rem, c->ext, c->error, ec_tell(c), ec_tell_frac(c));
}

static int parse_codes(const char *p, code_t *cs, int *nc)
{
   *nc = 0;
   while (*p && *p != '\n' && *p != ' ') {
      code_t *c; char *e;
      if (*nc >= MAXC) return 0;
      c = &cs[(*nc)++]; memset(c, 0, sizeof *c);
      c->k = *p++; if (*p++ != ':') return 0;
      c->a = strtol(p, &e, 10); if (e == p) return 0; p = e;
      if (*p++ != ':') return 0;
      if (c->k == 'P') {
         for (;;) {
            if (c->n >= MAXN) return 0;
            c->y[c->n++] = (int)strtol(p, &e, 10); if (e == p) return 0; p = e;
            if (*p == ',') { p++; continue; }
            break;
         }
      } else {
         c->b = strtol(p, &e, 10); if (e == p) return 0; p = e;
         if (c->k == 'L' || c->k == 'e' || c->k == 'b') {
            if (*p++ != ':') return 0;
            c->c = strtol(p, &e, 10); if (e == p) return 0; p = e;
         }
      }
      if (*p == ';') p++;
   }
   return *nc > 0;
}

static int legal(const code_t *c)
{
   int i; long s = 0;
   switch (c->k) {
   case 'L': return c->b >= 128 && c->b <= 32736 && c->c >= 64 && c->c <= 11456 && c->a > -100000 && c->a < 100000;
   case 'P': for (i = 0; i < c->n; i++) s += labs((long)c->y[i]); return c->n >= 2 && c->n <= 22 && c->a >= 1 && c->a <= 5 && s == c->a;
   case 'e': return c->a >= 0 && c->a < c->b && c->b <= c->c && c->c <= 65536;
   case 'b': return c->c >= 1 && c->c <= 16 && c->a >= 0 && c->a < c->b && c->b <= (1L << c->c);
   case 'l': return c->b >= 1 && c->b <= 15 && (c->a == 0 || c->a == 1);
   case 'u': return c->b >= 2 && c->b <= 4294967295L && c->a >= 0 && c->a < c->b;
   case 'r': return c->b >= 1 && c->b <= 25 && c->a >= 0 && c->a < (1L << c->b);
   default: return 0;
   }
}

static void run_line(const char *line)
{
   long size; unsigned fill; int nc, i, j, first = 1; static code_t cs[MAXC]; char codes[8192];
   unsigned char *phys, *buf, *copy; ec_enc enc; ec_dec dec;
   if (sscanf(line, "rangecoder cseq %ld %u %8191s", &size, &fill, codes) != 3 || size < 1 || size > 1275) { printf("# skipped\n"); return; }
   if (!parse_codes(codes, cs, &nc)) { printf("# skipped unparsable\n"); return; }
   for (i = 0; i < nc; i++) if (!legal(&cs[i])) { printf("# skipped illegal code %d\n", i); return; }
   printf("I rangecoder cseq %ld %u %s\n", size, fill, codes); fflush(stdout);
   phys = (unsigned char *)malloc(GUARD + size + GUARD); buf = phys + GUARD;
   for (i = 0; i < GUARD; i++) phys[i] = 0xA5;
   for (i = 0; i < size + GUARD; i++) buf[i] = (unsigned char)((fill + 37u * (unsigned)i) % 256u);
   memset(&enc, 0, sizeof enc); memset(&dec, 0, sizeof dec);   /* ec_dec_init leaves `ext` unset; it is printed */
   ec_enc_init(&enc, buf, (opus_uint32)size);
   printf("O ");
   {  /* encoder */
      char wb[4096]; size_t wn = 0; wb[0] = 0;
      for (i = 0; i < nc; i++) {
         code_t *c = &cs[i];
         switch (c->k) {
         case 'L': { int v = (int)c->a; ec_laplace_encode(&enc, &v, (unsigned)c->b, (int)c->c); n_lap++; if (v != (int)c->a) n_clamped++;
                     wn += (size_t)snprintf(wb + wn, sizeof wb - wn, "%s%d", first ? "" : ",", v); first = 0; break; }
         case 'P': encode_pulses(c->y, c->n, (int)c->a, &enc); n_pvq++; break;
         case 'e': ec_encode(&enc, (unsigned)c->a, (unsigned)c->b, (unsigned)c->c); break;
         case 'b': ec_encode_bin(&enc, (unsigned)c->a, (unsigned)c->b, (unsigned)c->c); break;
         case 'l': ec_enc_bit_logp(&enc, (int)c->a, (unsigned)c->b); break;
         case 'u': ec_enc_uint(&enc, (opus_uint32)c->a, (opus_uint32)c->b); break;
         case 'r': ec_enc_bits(&enc, (opus_uint32)c->a, (unsigned)c->b); break;
         }
      }
      ec_enc_done(&enc);
      if (enc.error) n_err++; else n_ok++;
      printf("%s W %s D ", enc.error ? "err" : "ok", first ? "-" : wb);
      st_print(&enc); printf(" B "); vhex(stdout, buf, size + GUARD);
   }
   for (i = 0; i < GUARD; i++) if (phys[i] != 0xA5) { printf(" GUARD-BEFORE-CLOBBERED"); break; }
   if (enc.error) { printf(" X - Y -\n"); free(phys); fflush(stdout); return; }
   copy = vexact(buf, size);
   ec_dec_init(&dec, copy, (opus_uint32)size);
   printf(" X ");
   for (i = 0; i < nc; i++) {
      code_t *c = &cs[i];
      if (i) printf("|");
      switch (c->k) {
      case 'L': printf("L%d", ec_laplace_decode(&dec, (unsigned)c->b, (int)c->c)); break;
      case 'P': { int yy[MAXN]; decode_pulses(yy, c->n, (int)c->a, &dec); printf("P"); for (j = 0; j < c->n; j++) printf("%s%d", j ? "," : "", yy[j]); break; }
      case 'e': { unsigned fs = ec_decode(&dec, (unsigned)c->c); ec_dec_update(&dec, (unsigned)c->a, (unsigned)c->b, (unsigned)c->c); printf("S%u", fs); break; }
      case 'b': { unsigned fs = ec_decode_bin(&dec, (unsigned)c->c); ec_dec_update(&dec, (unsigned)c->a, (unsigned)c->b, 1u << c->c); printf("S%u", fs); break; }
      case 'l': printf("S%d", ec_dec_bit_logp(&dec, (unsigned)c->b)); break;
      case 'u': printf("S%u", ec_dec_uint(&dec, (opus_uint32)c->b)); break;
      case 'r': printf("S%u", ec_dec_bits(&dec, (unsigned)c->b)); break;
      }
   }
   printf(" Y "); st_print(&dec); printf("\n");
   free(copy); free(phys); fflush(stdout);
}

static void gen_line(vrng *r, char *out, size_t cap)
{
   static const int NS[] = {2, 2, 3, 4, 4, 5, 6, 8, 8, 11, 16, 22};
   int nc = vrange(r, 1, 30), i, j; size_t n = 0; long size;
   int p = (int)vbelow(r, 100);
   size = p < 50 ? vrange(r, 1, 24) : p < 90 ? vrange(r, 25, 120) : vrange(r, 121, 1275);
   n += (size_t)snprintf(out + n, cap - n, "rangecoder cseq %ld %u ", size, (unsigned)vbelow(r, 256));
   for (i = 0; i < nc; i++) {
      int t = (int)vbelow(r, 100);
      if (i) n += (size_t)snprintf(out + n, cap - n, ";");
      if (t < 35) {
         int v = vchance(r, 8) ? vrange(r, -60000, 60000) : vchance(r, 30) ? vrange(r, -40, 40) : vrange(r, -4, 4);
         n += (size_t)snprintf(out + n, cap - n, "L:%d:%d:%d", v, 128 * vrange(r, 1, 255), 64 * vrange(r, 1, 179));
      } else if (t < 60) {
         int N = NS[vbelow(r, sizeof NS / sizeof NS[0])], K = vrange(r, 1, 5), y[MAXN];
         memset(y, 0, sizeof y);
         for (j = 0; j < K; j++) { int k = (int)vbelow(r, (uint32_t)N); if (y[k] > 0) y[k]++; else if (y[k] < 0) y[k]--; else y[k] = vchance(r, 50) ? 1 : -1; }
         n += (size_t)snprintf(out + n, cap - n, "P:%d:", K);
         for (j = 0; j < N; j++) n += (size_t)snprintf(out + n, cap - n, "%s%d", j ? "," : "", y[j]);
      } else if (t < 70) {
         unsigned ft = (unsigned)vrange(r, 1, 65536), fl = vbelow(r, ft), fh = fl + 1 + vbelow(r, ft - fl);
         n += (size_t)snprintf(out + n, cap - n, "e:%u:%u:%u", fl, fh, ft);
      } else if (t < 80) n += (size_t)snprintf(out + n, cap - n, "l:%d:%d", (int)vbelow(r, 2), vrange(r, 1, 15));
      else if (t < 90) { unsigned ft = vchance(r, 50) ? (unsigned)vrange(r, 2, 300) : 2u + (unsigned)(vnext(r) % 4294967294ULL); n += (size_t)snprintf(out + n, cap - n, "u:%u:%u", (unsigned)(vnext(r) % ft), ft); }
      else { int nb = vrange(r, 1, 25); n += (size_t)snprintf(out + n, cap - n, "r:%u:%d", (unsigned)(vnext(r) & ((1u << nb) - 1)), nb); }
   }
}

int main(int argc, char **argv)
{
   static char line[1 << 16];
   vinstall_traps();
   if (argc >= 4 && !strcmp(argv[1], "rand")) {
      vrng m; long i, n = atol(argv[3]); m.s = strtoull(argv[2], 0, 10) * 0x9E3779B97F4A7C15ULL + 0xC08C0DE5ULL; m.s = vnext(&m);
      for (i = 0; i < n; i++) { vrng r; r.s = vnext(&m); gen_line(&r, line, sizeof line); run_line(line); }
      printf("# cseq cases=%ld ok=%ld err=%ld laplace=%ld (clamped %ld) pulses=%ld\n", n, n_ok, n_err, n_lap, n_clamped, n_pvq);
   } else if (argc >= 2 && !strcmp(argv[1], "stdin")) {
      while (fgets(line, sizeof line, stdin)) { const char *p = line; if (!strncmp(p, "I ", 2)) p += 2; if (!strncmp(p, "rangecoder cseq", 15)) run_line(p); }
   } else { fprintf(stderr, "usage: c08_codes rand <seed> <n> | stdin\n"); return 64; }
   return 0;
}
