/* c01_silkapi.c — correspondence harness for the control layer of the SILK decoder (C01 extension, slice SilkApi).

   The translation unit #includes silk/dec_API.c with silk_decode_frame, silk_resampler, silk_decoder_set_fs,
   silk_init_decoder, silk_stereo_MS_to_LR, the stereo / LBRR symbol reads and the entropy-decoder calls renamed to
   recording wrappers, and with silk_Decode / silk_InitDecoder / silk_ResetDecoder themselves wrapped, so that every call
   the real opus_decode* makes into the SILK decoder is observed on a REACHABLE state.  Everything else comes from
   libopus.a (the archive member dec_API.o is never pulled in because this TU defines all of its symbols).

   Per silk_Decode call:
     I silkapi dec <pre-state> <args> <oracle ints> <frame0 ints> <frame0 samples> <frame1 ints> <frame1 samples>
                   <#resampler calls> <ret0> <out0> <ret1> <out1>
     O <ret> <nSamplesOut> <prevPitchLag> st=<post-state> ev=<inner calls> out=<hash of samplesOut> hi=<highest slot written+1>
   The oracle answers are only known after the call; `P ...` is printed (and flushed) before it, and if the call dies the
   handler prints `I silkapi dec <pre-state> <args> CRASH` + `O SANITIZER|ABORT`.
   Per silk_InitDecoder / silk_ResetDecoder call:  I silkapi init <pre-state> / O <post-state>.

   Modes:  rand <seed> <sessions> [quiet]      histories through opus_decode*; every silk_stereo_MS_to_LR call inside is also a
                                               per-sample case (`silkapi mstolr`)
           ms <seed> <n>                       boundary inputs for silk_stereo_MS_to_LR, per-sample */
#ifdef HAVE_CONFIG_H
#include "config.h"
#endif
#include <stdarg.h>
#include <math.h>
#include "opus.h"
#include "opus_private.h"
#include "entdec.h"
#include "API.h"
#include "stack_alloc.h"
#include "os_support.h"
#include "structs.h"
#include "define.h"
#include "main.h"
#include "tables.h"
#include "SigProc_FIX.h"
#include "vcommon.h"

#define VMAX (1 << 18)
static struct {
   int in_decode;
   const char *ch1;              /* address of channel_state[1] of the decoder in flight */
   char ev[VMAX]; long evn;
   char pend[VMAX];
   int nbits; int bits[16];
   int nsym; int syms[4];
   int npred; opus_int32 pred[2];
   int nmid; int mid;
   int nfr; int frn[2]; int frret[2]; int frpost[2][4]; int frN[2]; opus_int16 frs[2][MAX_FRAME_LENGTH];
   int nrs; int rsret[3]; int rsn[3]; opus_int16 rso[3][960 + 8];
   const opus_int16 *tmp1; long tmp1n; const opus_int16 *tmp2; long tmp2n;
   char contract[256];
   int quiet;
   long n_calls, n_w;
   long dist[64];
} G;

static void vapp(const char *fmt, ...)
{
   va_list ap; long room = VMAX - 64 - G.evn; int k;
   if (room <= 0) return;
   va_start(ap, fmt); k = vsnprintf(G.ev + G.evn, (size_t)room, fmt, ap); va_end(ap);
   if (k > 0) G.evn += (k < room ? k : room - 1);
}
static int bits_open;     /* consecutive ec_dec_bit_logp calls are reported as one event */
static void close_bits(void) { if (bits_open) { vapp("bits:%d;", bits_open); bits_open = 0; } }
static void vcontract(const char *fmt, ...)
{
   va_list ap; if (G.contract[0]) return;
   va_start(ap, fmt); vsnprintf(G.contract, sizeof G.contract, fmt, ap); va_end(ap);
}
static uint32_t vhash16(const opus_int16 *p, long n)
{
   uint32_t h = 7; long i;
   for (i = 0; i < n; i++) h = h * 31u + (uint32_t)((int)p[i] + 65536);
   return h;
}
static long tmpoff(const opus_int16 *p)
{
   if (G.tmp1 && p >= G.tmp1 && p <= G.tmp1 + G.tmp1n) return (long)(p - G.tmp1);
   return -99999;
}

static void rec_alloc(const char *name, const void *p, long n)
{
   if (!G.in_decode) return;
   close_bits();
   if (!strcmp(name, "samplesOut1_tmp_storage1")) { G.tmp1 = (const opus_int16 *)p; G.tmp1n = n; vapp("alloc1:%ld;", n); }
   else if (!strcmp(name, "samplesOut2_tmp")) { G.tmp2 = (const opus_int16 *)p; G.tmp2n = n; vapp("alloc2:%ld;", n); }
}
#undef ALLOC
#define ALLOC(var, size, type) type var[size]; rec_alloc(#var, var, (long)(size))

/* ------------------------------------------------------------------ recording wrappers */
static int chan_of(const void *p)
{
   if (!G.ch1) return -1;
   if ((const char *)p >= G.ch1) return 1;
   return 0;
}
static int rec_ec_dec_bit_logp(ec_dec *d, unsigned logp)
{
   int b = ec_dec_bit_logp(d, logp);
   if (G.in_decode) { bits_open++; if (G.nbits < 16) G.bits[G.nbits++] = b; if (logp != 1) vcontract("bit_logp logp=%u", logp); }
   return b;
}
static int rec_ec_dec_icdf(ec_dec *d, const unsigned char *icdf, unsigned ftb)
{
   int s = ec_dec_icdf(d, icdf, ftb);
   if (G.in_decode) {
      int t = icdf == silk_LBRR_flags_iCDF_ptr[0] ? 0 : icdf == silk_LBRR_flags_iCDF_ptr[1] ? 1 : -1;
      close_bits(); vapp("lbrrsym:%d;", t);
      if (G.nsym < 4) G.syms[G.nsym++] = s;
   }
   return s;
}
static void rec_stereo_decode_pred(ec_dec *d, opus_int32 pred[])
{
   silk_stereo_decode_pred(d, pred);
   if (G.in_decode) { close_bits(); vapp("pred:;"); G.npred++; G.pred[0] = pred[0]; G.pred[1] = pred[1]; }
}
static void rec_stereo_decode_mid_only(ec_dec *d, opus_int *m)
{
   silk_stereo_decode_mid_only(d, m);
   if (G.in_decode) { close_bits(); vapp("mid:;"); G.nmid++; G.mid = *m; }
}
static void rec_decode_indices(silk_decoder_state *ps, ec_dec *d, opus_int fi, opus_int lbrr, opus_int cc)
{
   if (G.in_decode) { close_bits(); vapp("indices:%d,%d,%d,%d;", chan_of(ps), fi, lbrr, cc); }
   silk_decode_indices(ps, d, fi, lbrr, cc);
}
static void rec_decode_pulses(ec_dec *d, opus_int16 pulses[], const opus_int st, const opus_int qo, const opus_int fl)
{
   if (G.in_decode) { close_bits(); vapp("pulses:%d;", fl); }
   silk_decode_pulses(d, pulses, st, qo, fl);
}
static opus_int rec_init_decoder(silk_decoder_state *ps)
{
   if (G.in_decode) { close_bits(); vapp("initch%d:;", chan_of(ps)); }
   return silk_init_decoder(ps);
}
static opus_int rec_decoder_set_fs(silk_decoder_state *ps, opus_int k, opus_int32 api)
{
   if (G.in_decode) { close_bits(); vapp("setfs:%d,%d,%d;", chan_of(ps), k, api); }
   return silk_decoder_set_fs(ps, k, api);
}
static opus_int rec_decode_frame(silk_decoder_state *ps, ec_dec *d, opus_int16 pOut[], opus_int32 *pN, opus_int lost,
                                 opus_int cc, int arch)
{
   int n = chan_of(ps), r, k = G.nfr;
   if (G.in_decode) {
      close_bits();
      vapp("frame:%d,%ld,%d,%d,%d,%d,%d,%d;", n, tmpoff(pOut), lost, cc, ps->lagPrev, (int)ps->LastGainIndex, ps->prevSignalType,
           ps->first_frame_after_reset);
   }
   r = silk_decode_frame(ps, d, pOut, pN, lost, cc, arch);
   if (G.in_decode && k < 2) {
      G.frn[k] = n; G.frret[k] = r; G.frN[k] = *pN;
      if (*pN != ps->frame_length) vcontract("silk_decode_frame *pN=%d frame_length=%d", (int)*pN, ps->frame_length);
      if (*pN >= 0 && *pN <= MAX_FRAME_LENGTH) memcpy(G.frs[k], pOut, (size_t)*pN * sizeof(opus_int16));
      G.frpost[k][0] = ps->lagPrev; G.frpost[k][1] = ps->LastGainIndex; G.frpost[k][2] = ps->prevSignalType;
      G.frpost[k][3] = ps->first_frame_after_reset;
      G.nfr++;
   }
   return r;
}
static void pr_hex16(FILE *f, const opus_int16 *p, long n);
/* per-sample tie of silk_stereo_MS_to_LR: `I silkapi mstolr <state> <p0,p1,fs_kHz,N> <x1> <x2>` / `O ms <state> <x1> <x2>`
   (x1 / x2 = N+2 samples; the two history slots, not yet written by the caller, are printed as 0) */
static void ms_case(stereo_dec_state *st, opus_int16 x1[], opus_int16 x2[], const opus_int32 pred[], opus_int fs, opus_int fl)
{
   static opus_int16 t[MAX_FRAME_LENGTH + 2];
   int print = !G.quiet && fl >= 0 && fl <= MAX_FRAME_LENGTH;
   if (print) {
      printf("I silkapi mstolr %d,%d,%d,%d,%d,%d %d,%d,%d,%d ", st->pred_prev_Q13[0], st->pred_prev_Q13[1], st->sMid[0], st->sMid[1],
             st->sSide[0], st->sSide[1], (int)pred[0], (int)pred[1], fs, fl);
      t[0] = t[1] = 0; memcpy(t + 2, x1 + 2, (size_t)fl * sizeof(opus_int16)); pr_hex16(stdout, t, fl + 2); fputc(' ', stdout);
      memcpy(t + 2, x2 + 2, (size_t)fl * sizeof(opus_int16)); pr_hex16(stdout, t, fl + 2); fputc('\n', stdout);
   }
   silk_stereo_MS_to_LR(st, x1, x2, pred, fs, fl);
   if (print) {
      printf("O ms %d,%d,%d,%d,%d,%d ", st->pred_prev_Q13[0], st->pred_prev_Q13[1], st->sMid[0], st->sMid[1], st->sSide[0], st->sSide[1]);
      pr_hex16(stdout, x1, fl + 2); fputc(' ', stdout); pr_hex16(stdout, x2, fl + 2); fputc('\n', stdout);
   }
}
static void rec_MS_to_LR(stereo_dec_state *st, opus_int16 x1[], opus_int16 x2[], const opus_int32 pred[], opus_int fs, opus_int fl)
{
   if (G.in_decode) { close_bits(); vapp("mstolr:%ld,%ld,%d,%d;", tmpoff(x1), tmpoff(x2), fs, fl); }
   ms_case(st, x1, x2, pred, fs, fl);
}
static opus_int rec_resampler(silk_resampler_state_struct *S, opus_int16 out[], const opus_int16 in[], opus_int32 inLen)
{
   int r, k = G.nrs; long nout = S->Fs_in_kHz ? (long)inLen * S->Fs_out_kHz / S->Fs_in_kHz : 0;
   if (G.in_decode) {
      close_bits();
      vapp("resample:%d,%ld,%d,%u;", chan_of(S), tmpoff(in), inLen, (unsigned)vhash16(in, inLen));
      if (out != G.tmp2) vcontract("resampler out is not samplesOut2_tmp");
   }
   r = silk_resampler(S, out, in, inLen);
   if (G.in_decode && k < 3) {
      G.rsret[k] = r; G.rsn[k] = (int)(nout > 960 ? 960 : nout);
      memcpy(G.rso[k], out, (size_t)G.rsn[k] * sizeof(opus_int16));
      G.nrs++;
   }
   return r;
}

#define silk_decode_frame rec_decode_frame
#define silk_resampler rec_resampler
#define silk_decoder_set_fs rec_decoder_set_fs
#define silk_init_decoder rec_init_decoder
#define silk_stereo_MS_to_LR rec_MS_to_LR
#define silk_stereo_decode_pred rec_stereo_decode_pred
#define silk_stereo_decode_mid_only rec_stereo_decode_mid_only
#define silk_decode_indices rec_decode_indices
#define silk_decode_pulses rec_decode_pulses
#define ec_dec_bit_logp rec_ec_dec_bit_logp
#define ec_dec_icdf rec_ec_dec_icdf
#define silk_Decode real_silk_Decode
#define silk_InitDecoder real_silk_InitDecoder
#define silk_ResetDecoder real_silk_ResetDecoder
#include "silk/dec_API.c"
#undef silk_Decode
#undef silk_InitDecoder
#undef silk_ResetDecoder
#undef silk_decode_frame
#undef silk_resampler
#undef silk_decoder_set_fs
#undef silk_init_decoder
#undef silk_stereo_MS_to_LR
#undef silk_stereo_decode_pred
#undef silk_stereo_decode_mid_only
#undef silk_decode_indices
#undef silk_decode_pulses
#undef ec_dec_bit_logp
#undef ec_dec_icdf

/* ------------------------------------------------------------------ state printing */
static int tag_lag(const opus_uint8 *p) { return !p ? 0 : p == silk_uniform4_iCDF ? 4 : p == silk_uniform6_iCDF ? 6 : p == silk_uniform8_iCDF ? 8 : -1; }
static int tag_contour(const opus_uint8 *p)
{
   return !p ? 0 : p == silk_pitch_contour_NB_iCDF ? 1 : p == silk_pitch_contour_10_ms_NB_iCDF ? 2 :
          p == silk_pitch_contour_iCDF ? 3 : p == silk_pitch_contour_10_ms_iCDF ? 4 : -1;
}
static int tag_cb(const silk_NLSF_CB_struct *p) { return !p ? 0 : p == &silk_NLSF_CB_NB_MB ? 1 : p == &silk_NLSF_CB_WB ? 2 : -1; }
static int pr_chan(char *o, const silk_decoder_state *c)
{
   return sprintf(o, "%d,%d,%d,%d,%d,%d,%d,%d,%d,%d,%d,%d,%d,%d,%d,%d,%d,%d,%d,%d,%d,%d,%d,%d,%d",
      c->fs_kHz, (int)c->fs_API_hz, c->nb_subfr, c->frame_length, c->subfr_length, c->ltp_mem_length, c->LPC_order,
      c->first_frame_after_reset, c->lagPrev, (int)c->LastGainIndex, c->prevSignalType, tag_lag(c->pitch_lag_low_bits_iCDF),
      tag_contour(c->pitch_contour_iCDF), tag_cb(c->psNLSF_CB), c->nFramesDecoded, c->nFramesPerPacket,
      c->VAD_flags[0], c->VAD_flags[1], c->VAD_flags[2], c->LBRR_flag, c->LBRR_flags[0], c->LBRR_flags[1], c->LBRR_flags[2],
      c->resampler_state.Fs_in_kHz, c->resampler_state.Fs_out_kHz);
}
static void pr_state(char *o, const silk_decoder *d)
{
   o += pr_chan(o, &d->channel_state[0]); *o++ = ';';
   o += pr_chan(o, &d->channel_state[1]); *o++ = ';';
   o += sprintf(o, "%d,%d,%d,%d,%d,%d;", d->sStereo.pred_prev_Q13[0], d->sStereo.pred_prev_Q13[1], d->sStereo.sMid[0],
                d->sStereo.sMid[1], d->sStereo.sSide[0], d->sStereo.sSide[1]);
   sprintf(o, "%d,%d,%d", d->nChannelsAPI, d->nChannelsInternal, d->prev_decode_only_middle);
}
static void pr_hex16(FILE *f, const opus_int16 *p, long n)
{
   static const char dg[] = "0123456789abcdef"; long i;
   fputc('x', f);
   for (i = 0; i < n; i++) { unsigned v = (unsigned short)p[i]; fputc(dg[v >> 12], f); fputc(dg[(v >> 8) & 15], f); fputc(dg[(v >> 4) & 15], f); fputc(dg[v & 15], f); }
}

static void die_with(const char *what)
{
   if (G.pend[0]) { fputs("\n", stdout); fputs(G.pend, stdout); fputs(" CRASH\n", stdout); }
   fputs("O ", stdout); fputs(what, stdout); fputs("\n", stdout); fflush(stdout);
}
#if defined(__SANITIZE_ADDRESS__)
static void my_death(void) { die_with("SANITIZER"); }
#endif
static void my_abort(int sig) { (void)sig; die_with("ABORT"); _exit(3); }
static void my_segv(int sig) { (void)sig; die_with("SIGSEGV"); _exit(4); }

static void witness(const char *kind, const char *what)
{
   G.n_w++;
   printf("W %s | %s | %s\n", kind, what, G.pend);
}

/* ------------------------------------------------------------------ the wrapped entry points */
#define OUTCAP (960 * 2 + 64)
#define SENT 7.0f
opus_int silk_Decode(void *decState, silk_DecControlStruct *dc, opus_int lostFlag, opus_int newPacketFlag, ec_dec *psRangeDec,
                     opus_res *samplesOut, opus_int32 *nSamplesOut, int arch)
{
   static char pre[2048], post[2048];
   static opus_res mine[OUTCAP];
   silk_decoder *d = (silk_decoder *)decState;
   int ret, i, k, hi = 0, total;
   int vad[2][3] = {{0}}, lf[2] = {0, 0}, ls[2] = {0, 0};
   uint32_t h = 7;
   pr_state(pre, d);
   sprintf(G.pend, "I silkapi dec %s %d,%d,%d,%d,%d,%d,%d", pre, dc->nChannelsAPI, dc->nChannelsInternal, (int)dc->API_sampleRate,
           (int)dc->internalSampleRate, dc->payloadSize_ms, lostFlag, newPacketFlag);
   if (!G.quiet) { printf("P%s\n", G.pend + 1); fflush(stdout); }
   G.in_decode = 1; G.ch1 = (const char *)&d->channel_state[1]; G.evn = 0; G.ev[0] = 0; G.nbits = G.nsym = G.npred = G.nmid = G.nfr = G.nrs = 0; bits_open = 0;
   G.tmp1 = G.tmp2 = NULL; G.contract[0] = 0;
   for (i = 0; i < OUTCAP; i++) mine[i] = SENT;
   *nSamplesOut = 0;
   ret = real_silk_Decode(decState, dc, lostFlag, newPacketFlag, psRangeDec, mine, nSamplesOut, arch);
   close_bits();
   G.in_decode = 0; G.n_calls++;
   pr_state(post, d);
   /* split the recorded bits / symbols into the oracle answers (:229-:247) */
   k = 0;
   for (i = 0; i < dc->nChannelsInternal && i < 2; i++) {
      int j, nf = d->channel_state[i].nFramesPerPacket;
      for (j = 0; j < nf && j < 3 && k < G.nbits; j++) vad[i][j] = G.bits[k++];
      if (k < G.nbits) lf[i] = G.bits[k++];
   }
   k = 0;
   for (i = 0; i < dc->nChannelsInternal && i < 2; i++)
      if (G.nbits && lf[i] && d->channel_state[i].nFramesPerPacket != 1 && k < G.nsym) ls[i] = G.syms[k++];
   total = *nSamplesOut * dc->nChannelsAPI;
   for (i = 0; i < OUTCAP; i++) if (mine[i] != SENT) hi = i + 1;
   for (i = 0; i < total && i < OUTCAP; i++) {
      int v = mine[i] == SENT ? 99999 : (int)lrintf(mine[i] * 32768.f);
      h = h * 31u + (uint32_t)(v + 65536);
   }
   if (!G.quiet) {
      printf("%s %d,%d,%d,%d,%d,%d,%d,%d,%d,%d,%d,%d,%d", G.pend, vad[0][0], vad[0][1], vad[0][2], vad[1][0], vad[1][1], vad[1][2],
             lf[0], lf[1], ls[0], ls[1], G.npred ? G.pred[0] : 0, G.npred ? G.pred[1] : 0, G.nmid ? G.mid : 0);
      for (i = 0; i < 2; i++) {
         if (i < G.nfr) {
            printf(" %d,%d,%d,%d,%d ", G.frret[i], G.frpost[i][0], G.frpost[i][1], G.frpost[i][2], G.frpost[i][3]);
            pr_hex16(stdout, G.frs[i], G.frN[i] >= 0 && G.frN[i] <= MAX_FRAME_LENGTH ? G.frN[i] : 0);
         } else printf(" 0,0,0,0,0 x");
      }
      printf(" %d", G.nrs);
      for (i = 0; i < 2; i++) {
         if (i < G.nrs) { printf(" %d ", G.rsret[i]); pr_hex16(stdout, G.rso[i], G.rsn[i]); }
         else printf(" 0 x");
      }
      printf("\n");
      if (G.contract[0]) printf("O CONTRACT %s\n", G.contract);
      else printf("O %d %d %d st=%s ev=%s out=%u hi=%d\n", ret, (int)*nSamplesOut, dc->prevPitchLag, post, G.evn ? G.ev : "-", (unsigned)h, hi);
   }
   G.dist[(lostFlag & 3) * 4 + (dc->nChannelsInternal & 1) * 2 + (dc->nChannelsAPI & 1)]++;
   /* C01 predicate on the implementation itself */
   {
      char w[256];
      int fl = d->channel_state[0].frame_length, fk = d->channel_state[0].fs_kHz;
      if (ret != 0) { sprintf(w, "silk_Decode returned %d for legal arguments", ret); witness("silkret", w); }
      else if (fk && *nSamplesOut != (opus_int32)((long)fl * dc->API_sampleRate / (fk * 1000))) { sprintf(w, "nSamplesOut=%d", (int)*nSamplesOut); witness("nsamples", w); }
      else if (hi != total) { sprintf(w, "wrote up to slot %d of samplesOut, nSamplesOut*nChannelsAPI=%d", hi, total); witness("extent", w); }
      if (G.contract[0]) witness("contract", G.contract);
   }
   G.pend[0] = 0;
   for (i = 0; i < total && i < OUTCAP; i++) samplesOut[i] = mine[i];
   return ret;
}

static opus_int init_like(void *decState, int reset)
{
   static char pre[2048], post[2048];
   opus_int r;
   pr_state(pre, (silk_decoder *)decState);
   sprintf(G.pend, "I silkapi init %s", pre);
   r = reset ? real_silk_ResetDecoder(decState) : real_silk_InitDecoder(decState);
   pr_state(post, (silk_decoder *)decState);
   if (!G.quiet) printf("%s\nO %d %s\n", G.pend, r, post);
   G.pend[0] = 0;
   return r;
}
opus_int silk_InitDecoder(void *decState) { return init_like(decState, 0); }
opus_int silk_ResetDecoder(void *decState) { return init_like(decState, 1); }

/* ------------------------------------------------------------------ driver: histories through the real opus_decode* */
static void gen_audio(vrng *r, opus_int16 *pcm, int n, int ch, int kind, double *ph)
{
   int i; double f1 = 180 + 40 * (kind & 3), amp = (kind & 4) ? 9000 : 300;
   if ((kind & 24) == 24) amp = 0;
   for (i = 0; i < n; i++) {
      double s = amp * sin(*ph) + 0.3 * amp * sin(2.7 * *ph) + (double)((int)vbelow(r, 400) - 200);
      double s2 = (kind & 32) ? s : 0.5 * amp * sin(1.31 * *ph + 1) + (double)((int)vbelow(r, 2000) - 1000) * (amp / 9000.0);
      *ph += 2 * 3.14159265358979 * f1 / 48000.0;
      pcm[i * ch] = (opus_int16)s;
      if (ch == 2) pcm[i * ch + 1] = (opus_int16)s2;
   }
}

static void configure(vrng *r, OpusEncoder *e)
{
   static const int bw[5] = { OPUS_BANDWIDTH_NARROWBAND, OPUS_BANDWIDTH_MEDIUMBAND, OPUS_BANDWIDTH_WIDEBAND,
                              OPUS_BANDWIDTH_SUPERWIDEBAND, OPUS_BANDWIDTH_FULLBAND };
   static const int fd[4] = { OPUS_FRAMESIZE_10_MS, OPUS_FRAMESIZE_20_MS, OPUS_FRAMESIZE_40_MS, OPUS_FRAMESIZE_60_MS };
   int b = (int)vbelow(r, 100) < 85 ? (int)vbelow(r, 3) : 3 + (int)vbelow(r, 2);
   int m = (int)vbelow(r, 100);
   opus_encoder_ctl(e, OPUS_SET_BANDWIDTH(bw[b]));
   opus_encoder_ctl(e, OPUS_SET_FORCE_MODE(m < 6 ? MODE_CELT_ONLY : b >= 3 ? MODE_HYBRID : MODE_SILK_ONLY));
   opus_encoder_ctl(e, OPUS_SET_FORCE_CHANNELS(vchance(r, 50) ? 1 : 2));
   opus_encoder_ctl(e, OPUS_SET_EXPERT_FRAME_DURATION(fd[vbelow(r, 4)]));
   opus_encoder_ctl(e, OPUS_SET_INBAND_FEC(vchance(r, 70) ? 1 : 0));
   opus_encoder_ctl(e, OPUS_SET_PACKET_LOSS_PERC(vchance(r, 70) ? 25 : 0));
   opus_encoder_ctl(e, OPUS_SET_BITRATE(8000 + (int)vbelow(r, 56000)));
   opus_encoder_ctl(e, OPUS_SET_DTX(vchance(r, 20)));
}

static int frame_samples_48k(OpusEncoder *e)
{
   opus_int32 v = OPUS_FRAMESIZE_20_MS;
   opus_encoder_ctl(e, OPUS_GET_EXPERT_FRAME_DURATION(&v));
   return v == OPUS_FRAMESIZE_10_MS ? 480 : v == OPUS_FRAMESIZE_40_MS ? 1920 : v == OPUS_FRAMESIZE_60_MS ? 2880 : 960;
}

static int encode_one(vrng *r, OpusEncoder *e, unsigned char *pkt, int *kind, double *ph)
{
   static opus_int16 pcm[2880 * 2];
   int n = frame_samples_48k(e), len;
   if (vchance(r, 15)) *kind = (int)vbelow(r, 64);
   gen_audio(r, pcm, n, 2, *kind, ph);
   len = opus_encode(e, pcm, n, pkt, 1275);
   return len;
}

static void do_decode(vrng *r, OpusDecoder *d, int Fs, int ch, const unsigned char *pkt, int len, int fsz, int fec)
{
   static opus_int16 o16[5760 * 2]; static float of[5760 * 2];
   unsigned char *ex = pkt ? vexact(pkt, len) : NULL;
   (void)Fs; (void)ch;
   if (vchance(r, 50)) opus_decode(d, ex, len, o16, fsz, fec); else opus_decode_float(d, ex, len, of, fsz, fec);
   free(ex);
}

static void session(vrng *r)
{
   static const int rates[5] = { 8000, 12000, 16000, 24000, 48000 };
   int Fs = rates[vbelow(r, 5)], ch = 1 + (int)vbelow(r, 2), err, steps = 12 + (int)vbelow(r, 30), s, kind = (int)vbelow(r, 64);
   double ph = 0;
   unsigned char pkt[1500], nxt[1500];
   OpusDecoder *d = opus_decoder_create(Fs, ch, &err);
   OpusEncoder *e = opus_encoder_create(48000, 2, OPUS_APPLICATION_VOIP, &err);
   configure(r, e);
   for (s = 0; s < steps; s++) {
      int a = (int)vbelow(r, 100), len;
      if (vchance(r, 25)) configure(r, e);
      if (a < 55) {
         len = encode_one(r, e, pkt, &kind, &ph);
         if (len > 0) do_decode(r, d, Fs, ch, pkt, len, 5760 * Fs / 48000, 0);
      } else if (a < 67) {
         static const int ms8[6] = { 20, 40, 80, 160, 320, 480 };       /* eighths of a ms */
         do_decode(r, d, Fs, ch, NULL, 0, ms8[vbelow(r, 6)] * Fs / 8000, 0);
      } else if (a < 80) {
         int dur;
         len = encode_one(r, e, pkt, &kind, &ph);
         len = encode_one(r, e, nxt, &kind, &ph);
         if (len > 0) {
            dur = opus_packet_get_nb_samples(nxt, len, Fs);
            do_decode(r, d, Fs, ch, nxt, len, dur, 1);
            do_decode(r, d, Fs, ch, nxt, len, 5760 * Fs / 48000, 0);
         }
      } else if (a < 85) {
         opus_decoder_ctl(d, OPUS_RESET_STATE);
      } else if (a < 95) {
         int k, nf;
         len = encode_one(r, e, pkt, &kind, &ph);
         if (len > 1) {
            nf = 1 + (int)vbelow(r, 6);
            for (k = 0; k < nf; k++) pkt[1 + vbelow(r, (uint32_t)(len - 1))] ^= (unsigned char)(1u << vbelow(r, 8));
            if (vchance(r, 30)) len = 1 + (int)vbelow(r, (uint32_t)len);
            do_decode(r, d, Fs, ch, pkt, len, 5760 * Fs / 48000, vchance(r, 20));
         }
      } else {
         int k;
         len = 2 + (int)vbelow(r, 120);
         for (k = 0; k < len; k++) pkt[k] = (unsigned char)vbelow(r, 256);
         pkt[0] = (unsigned char)((vbelow(r, 16) << 3) | (vbelow(r, 2) << 2) | (vchance(r, 80) ? 0 : vbelow(r, 3)));
         do_decode(r, d, Fs, ch, pkt, len, 5760 * Fs / 48000, vchance(r, 20));
      }
   }
   opus_encoder_destroy(e);
   opus_decoder_destroy(d);
}

/* boundary inputs for silk_stereo_MS_to_LR: saturating sums, predictors at the extremes of the dequantiser
   (silk_stereo_pred_quant_Q13 ends +-13732; pred0 = difference of two), interpolation boundary at 8 ms for 8/12/16 kHz */
static opus_int16 edge16(vrng *r)
{
   static const int e[8] = { 32767, -32768, 32766, -32767, 0, 1, -1, 16384 };
   int k = (int)vbelow(r, 100);
   return (opus_int16)(k < 45 ? e[vbelow(r, 8)] : k < 70 ? (int)vbelow(r, 65536) - 32768 : (int)vbelow(r, 2001) - 1000);
}
static opus_int32 edgepred(vrng *r)
{
   static const int e[8] = { 13732, -13732, 27464, -27464, 0, 1, -1, 10050 };
   int k = (int)vbelow(r, 100);
   return k < 50 ? e[vbelow(r, 8)] : (int)vbelow(r, 54929) - 27464;
}
static void ms_mode(vrng *r, long n)
{
   long i; int j;
   for (i = 0; i < n; i++) {
      stereo_dec_state st; opus_int32 pred[2];
      int fs = 8 + 4 * (int)vbelow(r, 3), fl = fs * (vchance(r, 50) ? 10 : 20), uni = vchance(r, 25);
      opus_int16 *x1 = (opus_int16 *)malloc((size_t)(fl + 2) * sizeof(opus_int16)), *x2 = (opus_int16 *)malloc((size_t)(fl + 2) * sizeof(opus_int16));
      opus_int16 c1 = edge16(r), c2 = edge16(r);
      memset(&st, 0, sizeof st);
      st.pred_prev_Q13[0] = (opus_int16)edgepred(r); st.pred_prev_Q13[1] = (opus_int16)edgepred(r);
      st.sMid[0] = edge16(r); st.sMid[1] = edge16(r); st.sSide[0] = edge16(r); st.sSide[1] = edge16(r);
      pred[0] = edgepred(r); pred[1] = edgepred(r);
      x1[0] = x1[1] = x2[0] = x2[1] = 0;
      for (j = 2; j < fl + 2; j++) { x1[j] = uni ? c1 : edge16(r); x2[j] = uni ? c2 : edge16(r); }
      ms_case(&st, x1, x2, pred, fs, fl);
      G.n_calls++;
      free(x1); free(x2);
   }
   printf("# silkapi-ms cases=%ld\n", n);
}

int main(int argc, char **argv)
{
   vrng r; long n, i;
   if (argc >= 4 && !strcmp(argv[1], "ms")) {
      r.s = strtoull(argv[2], NULL, 10) * 0x9E3779B97F4A7C15ULL + 0x77;
      ms_mode(&r, atol(argv[3]));
      return 0;
   }
   if (argc < 4 || strcmp(argv[1], "rand")) { fprintf(stderr, "usage: c01_silkapi rand <seed> <sessions> [quiet]\n"); return 64; }
   r.s = strtoull(argv[2], NULL, 10) * 0x9E3779B97F4A7C15ULL + 0x51A9;
   n = atol(argv[3]);
   G.quiet = argc > 4 && !strcmp(argv[4], "quiet");
#if defined(__SANITIZE_ADDRESS__)
   __sanitizer_set_death_callback(my_death);
#else
   signal(SIGSEGV, my_segv);
#endif
   signal(SIGABRT, my_abort);
   for (i = 0; i < n; i++) session(&r);
   printf("# silkapi seed=%s sessions=%ld calls=%ld witnesses=%ld dist(lost*4+monoInt*2+monoAPI):", argv[2], n, G.n_calls, G.n_w);
   for (i = 0; i < 12; i++) printf(" %ld", G.dist[i]);
   printf("\n");
   return 0;
}
