/* c12_state.c — white-box companion of c12_twin.c for C12: this TU *is* src/opus_encoder.c and
   src/opus_decoder.c (they are #included), so the state structs are visible.

   Usage:
     c12_state tie <seed> <n>      correspondence lines for the Lean model OpusModel.ResetState (suite `misc`):
                                   I misc encinit <Fs> <ch> <app>              O <fields after opus_encoder_init>
                                   I misc encreset <fields before>             O <fields after OPUS_RESET_STATE>
                                   I misc decinit / decreset                    likewise for the decoder
                                   the states before a reset are reached by random histories (c12_twin's
                                   generator) and, in a second stream, poisoned field by field
     c12_state diag <kind> <seed> <index>   fields in which a reset object differs from a fresh one
                                   carrying the same settings (case numbering of `c12_twin run reset`)
     c12_state poke <seed> <n>     sensitivity: after a reset, overwrite ONE surviving status field in a copy
                                   and report whether any later output changes (read-before-written) */
#define CELT_ENCODER_C
#define CELT_DECODER_C
#ifdef HAVE_CONFIG_H
#include "config.h"
#endif
#include "celt/celt_encoder.c"
#include "celt/celt_decoder.c"
#include "src/opus_encoder.c"
#include "src/opus_decoder.c"
#include "c12_fields.h"
#include "opus_multistream.h"
#include "opus_projection.h"
struct OpusProjectionEncoder { opus_int32 mixing_matrix_size_in_bytes; opus_int32 demixing_matrix_size_in_bytes; };   /* src/opus_projection_encoder.c:41-46 */
#define main twin_main
#include "c12_twin.c"
#undef main

typedef struct { const char *name; int off, size, kind; } FieldD;
#define FD(T, f, k) {#f, (int)offsetof(T, f), (int)sizeof(((T *)0)->f), #k[0]},
#define XE(f, k) FD(OpusEncoder, f, k)
#define XS(f, k) FD(silk_EncControlStruct, f, k)
#define XD(f, k) FD(OpusDecoder, f, k)
#define XDS(f, k) FD(silk_DecControlStruct, f, k)
#define XC(f, k) FD(CELTEncoder, f, k)
static const FieldD ENCF[] = { ENC_FIELDS(XE) };
static const FieldD SILKF[] = { SILKENC_FIELDS(XS) };
static const FieldD DECF[] = { DEC_FIELDS(XD) };
static const FieldD SILKDF[] = { SILKDEC_FIELDS(XDS) };
static const FieldD CELTF[] = { CELTENC_CFG_FIELDS(XC) };
#define NF(a) ((int)(sizeof(a) / sizeof((a)[0])))

static long long fget(const void *base, const FieldD *f)
{
   const unsigned char *p = (const unsigned char *)base + f->off;
   if (f->kind == 'I') { if (f->size == 2) { opus_int16 v; memcpy(&v, p, 2); return v; } else { opus_int32 v; memcpy(&v, p, 4); return v; } }
   if (f->kind == 'F') { opus_uint32 v; memcpy(&v, p, 4); return v; }
   if (f->kind == 'P') { void *v; memcpy(&v, p, sizeof v); return v != NULL; }
   return (long long)(fnv(p, f->size) & 0x7fffffff);
}
static int fzero(const void *base, const FieldD *f)
{
   const unsigned char *p = (const unsigned char *)base + f->off; int i;
   for (i = 0; i < f->size; i++) if (p[i]) return 0;
   return 1;
}

/* ---- diag: which fields differ between reset and fresh+settings ---- */
static void diff_fields(const char *tag, const void *a, const void *b, const FieldD *fs, int n)
{
   int i;
   for (i = 0; i < n; i++) if (memcmp((const char *)a + fs[i].off, (const char *)b + fs[i].off, fs[i].size))
      printf("  %s.%s: reset=%lld fresh=%lld\n", tag, fs[i].name, fget(a, &fs[i]), fget(b, &fs[i]));
}
static void build_reset_pair(Case *c, Obj *a, Obj *b)
{
   int i, err;
   g_fill = 0xA5; *a = obj_new(c);
   for (i = 0; i < c->cut; i++) run_op(c, a, &c->ops[i], &g_ra[i]);
   err = IS_ENC(c->kind) ? ECTL(a, OPUS_RESET_STATE) : DCTL(a, OPUS_RESET_STATE);
   if (err) exit(70);
   g_fill = 0x5A; *b = obj_new(c);
   for (i = 0; i < c->cut; i++)
      if (c->ops[i].type == OP_SET && g_ra[i].ret == OPUS_OK) { Rec t; run_op(c, b, &c->ops[i], &t); }
   sync_force_channels(c, a, b);
   g_fill = -1;
}
static int diag(int kind, uint64_t seed, int index)
{
   static Case c; Obj a, b;
   gen_case(&c, 1, kind, seed, index);
   build_reset_pair(&c, &a, &b);
   printf("D %s %llu %d %s cut=%d\n", KNAME[kind], (unsigned long long)seed, index, c.cls, c.cut);
   if (kind == K_ENC) {
      OpusEncoder *ea = (OpusEncoder *)a.p, *eb = (OpusEncoder *)b.p;
      int so = ea->silk_enc_offset, co = ea->celt_enc_offset;
      diff_fields("enc", ea, eb, ENCF, NF(ENCF));
      diff_fields("silk_mode", &ea->silk_mode, &eb->silk_mode, SILKF, NF(SILKF));
      diff_fields("celt", (char *)ea + co, (char *)eb + co, CELTF, NF(CELTF));
      printf("  silk state equal: %d\n", !memcmp((char *)ea + so, (char *)eb + so, co - so));
      printf("  celt state after cfg equal: %d\n", !memcmp((char *)ea + co + offsetof(CELTEncoder, rng), (char *)eb + co + offsetof(CELTEncoder, rng), a.size - co - (int)offsetof(CELTEncoder, rng)));
   } else if (kind == K_DEC) {
      OpusDecoder *da = (OpusDecoder *)a.p, *db = (OpusDecoder *)b.p;
      int so = da->silk_dec_offset, co = da->celt_dec_offset;
      diff_fields("dec", da, db, DECF, NF(DECF));
      diff_fields("DecControl", &da->DecControl, &db->DecControl, SILKDF, NF(SILKDF));
      printf("  silk state equal: %d\n", !memcmp((char *)da + so, (char *)db + so, co - so));
      printf("  celt state equal: %d\n", !memcmp((char *)da + co, (char *)db + co, a.size - co));
   }
   obj_free(&a); obj_free(&b); free_case(&c);
   return 0;
}


/* ---- attrib: which surviving field makes a reset object differ from a fresh one ---- */
typedef struct { const char *tag; int base; const FieldD *f; } FRef;   /* base: byte offset of the containing struct */
static Rec g_rf[MAXOPS], g_rr[MAXOPS], g_rt[MAXOPS];
static void run_suffix(Case *c, const Obj *src, Rec *out)
{
   Obj t; int i;
   t = *src; t.p = malloc(src->size); memcpy(t.p, src->p, src->size);
   for (i = c->cut; i < c->nops; i++) run_op(c, &t, &c->ops[i], &out[i]);
   obj_free(&t);
}
static int first_diff(const Case *c, const Rec *x, const Rec *y)
{
   int i; for (i = c->cut; i < c->nops; i++) if (!rec_eq(&x[i], &y[i])) return i;
   return -1;
}
static int attrib(int kind, uint64_t seed, int index)
{
   static Case c; Obj a, b; FRef refs[128]; int nref = 0, i, d, found = 0, ndiff = 0; int dl[128];
   gen_case(&c, 1, kind, seed, index);
   build_reset_pair(&c, &a, &b);
   run_suffix(&c, &b, g_rf); run_suffix(&c, &a, g_rr);
   d = first_diff(&c, g_rf, g_rr);
   if (d < 0) { obj_free(&a); obj_free(&b); free_case(&c); return 0; }
   if (kind == K_ENC) {
      OpusEncoder *e = (OpusEncoder *)a.p;
      for (i = 0; i < NF(ENCF); i++) if (ENCF[i].kind == 'I' || ENCF[i].kind == 'F') { refs[nref].tag = "enc"; refs[nref].base = 0; refs[nref++].f = &ENCF[i]; }
      for (i = 0; i < NF(SILKF); i++) { refs[nref].tag = "silk_mode"; refs[nref].base = offsetof(OpusEncoder, silk_mode); refs[nref++].f = &SILKF[i]; }
      for (i = 0; i < NF(CELTF); i++) if (CELTF[i].kind == 'I') { refs[nref].tag = "celt"; refs[nref].base = e->celt_enc_offset; refs[nref++].f = &CELTF[i]; }
   } else {
      for (i = 0; i < NF(DECF); i++) if (DECF[i].kind == 'I' || DECF[i].kind == 'A') { refs[nref].tag = "dec"; refs[nref].base = 0; refs[nref++].f = &DECF[i]; }
      for (i = 0; i < NF(SILKDF); i++) { refs[nref].tag = "DecControl"; refs[nref].base = offsetof(OpusDecoder, DecControl); refs[nref++].f = &SILKDF[i]; }
   }
   printf("A %s %llu %d %s cut=%d op=%d ", KNAME[kind], (unsigned long long)seed, index, c.cls, c.cut, d); op_print(stdout, &c, &c.ops[d]);
   for (i = 0; i < nref; i++) {
      int off = refs[i].base + refs[i].f->off, sz = refs[i].f->size;
      if (memcmp((char *)a.p + off, (char *)b.p + off, sz)) dl[ndiff++] = i;
   }
   for (i = 0; i < ndiff; i++) {
      Obj t = a; int off = refs[dl[i]].base + refs[dl[i]].f->off, sz = refs[dl[i]].f->size;
      t.p = malloc(a.size); memcpy(t.p, a.p, a.size);
      memcpy((char *)t.p + off, (char *)b.p + off, sz);
      run_suffix(&c, &t, g_rt);
      if (first_diff(&c, g_rf, g_rt) < 0) {
         printf(" cause=%s.%s(reset=%lld,fresh=%lld)", refs[dl[i]].tag, refs[dl[i]].f->name,
                fget((char *)a.p + refs[dl[i]].base, refs[dl[i]].f), fget((char *)b.p + refs[dl[i]].base, refs[dl[i]].f));
         found++;
      }
      obj_free(&t);
   }
   if (!found) {
      Obj t = a; t.p = malloc(a.size); memcpy(t.p, a.p, a.size);
      for (i = 0; i < ndiff; i++) { int off = refs[dl[i]].base + refs[dl[i]].f->off; memcpy((char *)t.p + off, (char *)b.p + off, refs[dl[i]].f->size); }
      run_suffix(&c, &t, g_rt);
      if (first_diff(&c, g_rf, g_rt) < 0) {
         printf(" cause=several:");
         for (i = 0; i < ndiff; i++) {          /* fields whose single repair moves or changes the first difference */
            Obj u = a; int off = refs[dl[i]].base + refs[dl[i]].f->off, k;
            u.p = malloc(a.size); memcpy(u.p, a.p, a.size);
            memcpy((char *)u.p + off, (char *)b.p + off, refs[dl[i]].f->size);
            run_suffix(&c, &u, g_rt);
            for (k = c.cut; k < c.nops; k++) if (!rec_eq(&g_rt[k], &g_rr[k])) break;
            if (k < c.nops) printf("%s.%s,", refs[dl[i]].tag, refs[dl[i]].f->name);
            obj_free(&u);
         }
      } else printf(" cause=substate(silk/celt/analysis/arrays)");
      obj_free(&t);
   }
   printf("\n");
   obj_free(&a); obj_free(&b); free_case(&c);
   return 1;
}

/* ---- tie: correspondence lines for OpusModel.ResetState (suite misc) ---- */
typedef struct { silk_decoder_state channel_state[DECODER_NUM_CHANNELS]; stereo_dec_state sStereo;
                 opus_int nChannelsAPI, nChannelsInternal, prev_decode_only_middle; } c12_silk_decoder;   /* silk/dec_API.c:44-53 */

static int region_zero(const void *p, long n) { const unsigned char *b = (const unsigned char *)p; long i; for (i = 0; i < n; i++) if (b[i]) return 0; return 1; }

static void print_enc(FILE *f, const OpusEncoder *e, const OpusEncoder *ref, int size)
{
   int i, first = 1; const char *ce = (const char *)e + e->celt_enc_offset, *cr = (const char *)ref + ref->celt_enc_offset;
   int so = e->silk_enc_offset, co = e->celt_enc_offset, rs = (int)offsetof(CELTEncoder, rng);
   for (i = 0; i < NF(ENCF); i++) if (ENCF[i].kind == 'I' || ENCF[i].kind == 'F' || ENCF[i].kind == 'P') { fprintf(f, "%s%lld", first ? "" : ",", fget(e, &ENCF[i])); first = 0; }
   for (i = 0; i < NF(SILKF); i++) fprintf(f, ",%lld", fget(&e->silk_mode, &SILKF[i]));
   for (i = 0; i < NF(CELTF); i++) if (CELTF[i].kind == 'I') fprintf(f, ",%lld", fget(ce, &CELTF[i]));
   fprintf(f, ",%d", e->analysis.application);
   fprintf(f, ",%d", !memcmp((const char *)&e->analysis + offsetof(TonalityAnalysisState, TONALITY_ANALYSIS_RESET_START),
                             (const char *)&ref->analysis + offsetof(TonalityAnalysisState, TONALITY_ANALYSIS_RESET_START),
                             sizeof(TonalityAnalysisState) - offsetof(TonalityAnalysisState, TONALITY_ANALYSIS_RESET_START))
                     && e->analysis.arch == ref->analysis.arch && e->analysis.Fs == ref->analysis.Fs);
   fprintf(f, ",%d,%d,%d", region_zero(e->hp_mem, sizeof e->hp_mem), region_zero(&e->width_mem, sizeof e->width_mem), region_zero(e->delay_buffer, sizeof e->delay_buffer));
   fprintf(f, ",%d", !memcmp((const char *)e + so, (const char *)ref + so, co - so));
   fprintf(f, ",%d", !memcmp(ce + rs, cr + rs, size - co - rs));
}
static void print_dec(FILE *f, const OpusDecoder *d, const OpusDecoder *ref, int size)
{
   const CELTDecoder *cd = (const CELTDecoder *)((const char *)d + d->celt_dec_offset);
   const c12_silk_decoder *sd = (const c12_silk_decoder *)((const char *)d + d->silk_dec_offset), *sr = (const c12_silk_decoder *)((const char *)ref + ref->silk_dec_offset);
   int co = d->celt_dec_offset, rs = (int)offsetof(CELTDecoder, DECODER_RESET_START);
   int silk_fresh = !memcmp(sd->channel_state, sr->channel_state, sizeof sd->channel_state) && !memcmp(&sd->sStereo, &sr->sStereo, sizeof sd->sStereo)
                    && sd->prev_decode_only_middle == sr->prev_decode_only_middle;
   fprintf(f, "%d,%d,%d,%d,%d,%d,%d,%d,%d,%d,%d,%d,%d,%d,%d,%d,%d,%d,%d,%d,%d,%d,%u,%d,%d,%d,%d,%d,%d",
           d->celt_dec_offset, d->silk_dec_offset, d->channels, d->Fs, d->DecControl.nChannelsAPI, d->DecControl.nChannelsInternal,
           d->DecControl.API_sampleRate, d->DecControl.internalSampleRate, d->DecControl.payloadSize_ms, d->DecControl.prevPitchLag,
           d->DecControl.enable_deep_plc, d->decode_gain, d->complexity, d->arch, d->stream_channels, d->bandwidth, d->mode, d->prev_mode,
           d->frame_size, d->prev_redundancy, d->last_packet_duration, region_zero(d->softclip_mem, sizeof d->softclip_mem), d->rangeFinal,
           silk_fresh, !memcmp((const char *)d + co + rs, (const char *)ref + co + rs, size - co - rs), cd->complexity, cd->disable_inv,
           sd->nChannelsAPI, sd->nChannelsInternal);
}
static int is_structural(const char *n)
{
   static const char *S[] = {"celt_enc_offset", "silk_enc_offset", "channels", "Fs", "arch", "encoder_buffer", "delay_compensation",
                             "celt_dec_offset", "silk_dec_offset", "mode_ptr", "upsample", "clip", "signalling", NULL};
   int i; for (i = 0; S[i]; i++) if (!strcmp(S[i], n)) return 1;
   return 0;
}
static void poison_enc(OpusEncoder *e, vrng *r)
{
   int i; char *ce = (char *)e + e->celt_enc_offset;
   for (i = 0; i < NF(ENCF); i++) if (ENCF[i].kind == 'I' && !is_structural(ENCF[i].name) && vchance(r, 60)) {
      opus_int32 v = (opus_int32)vnext(r) >> vbelow(r, 24); if (ENCF[i].size == 2) { opus_int16 t = (opus_int16)v; memcpy((char *)e + ENCF[i].off, &t, 2); } else memcpy((char *)e + ENCF[i].off, &v, 4); }
   for (i = 0; i < NF(SILKF); i++) if (strcmp(SILKF[i].name, "API_sampleRate") && vchance(r, 60)) { opus_int32 v = (opus_int32)vnext(r) >> vbelow(r, 24); memcpy((char *)&e->silk_mode + SILKF[i].off, &v, 4); }
   for (i = 0; i < NF(CELTF); i++) if (CELTF[i].kind == 'I' && !is_structural(CELTF[i].name) && strcmp(CELTF[i].name, "channels") && strcmp(CELTF[i].name, "arch") && vchance(r, 60)) {
      opus_int32 v = (opus_int32)vnext(r) >> vbelow(r, 24); memcpy(ce + CELTF[i].off, &v, 4); }
}
static int tie(uint64_t seed, int n)
{
   static const int SETREQ[] = {4000, 4002, 4022, 4004, 4008, 4016, 4010, 4012, 4014, 4006, 4020, 4024, 4036, 4040, 4042, 4046, 11002, 10024};
   int i, a, c, k; vrng r; static Case cs;
   c12_silk_decoder *probe = NULL; int silksz = 0;
   silk_Get_Decoder_Size(&silksz);
   if (silksz != (int)sizeof(c12_silk_decoder)) { printf("# silk_decoder layout changed: %d != %d\n", silksz, (int)sizeof(c12_silk_decoder)); return 3; }
   (void)probe;
   r.s = seed * 0x9E3779B97F4A7C15ULL + 99; (void)vnext(&r);
   /* init: all rates x channels x applications */
   for (i = 0; i < 5; i++) for (c = 1; c <= 2; c++) for (a = 0; a < 3; a++) {
      int sz = opus_encoder_get_size(c); OpusEncoder *e = (OpusEncoder *)malloc(sz), *ref = (OpusEncoder *)malloc(sz);
      memset(e, 0x5A, sz); opus_encoder_init(e, RATES[i], c, APPS[a]); memset(ref, 0xA5, sz); opus_encoder_init(ref, RATES[i], c, APPS[a]);
      printf("I misc encinit %d %d %d %d %d %d\nO ", RATES[i], c, APPS[a], e->arch, e->silk_enc_offset, e->celt_enc_offset); printf("INIT ");
      print_enc(stdout, e, ref, sz); printf("\n"); free(e); free(ref);
   }
   for (i = 0; i < 5; i++) for (c = 1; c <= 2; c++) {
      int sz = opus_decoder_get_size(c); OpusDecoder *d = (OpusDecoder *)malloc(sz), *ref = (OpusDecoder *)malloc(sz);
      memset(d, 0x5A, sz); opus_decoder_init(d, RATES[i], c); memset(ref, 0xA5, sz); opus_decoder_init(ref, RATES[i], c);
      printf("I misc decinit %d %d %d %d %d\nO ", RATES[i], c, d->arch, d->silk_dec_offset, d->celt_dec_offset); printf("INIT ");
      print_dec(stdout, d, ref, sz); printf("\n"); free(d); free(ref);
   }
   /* reset / set on states reached by random histories (and on poisoned ones) */
   for (k = 0; k < n; k++) {
      Obj o, ref; int j, upto;
      gen_case(&cs, 1, (k % 3 == 2) ? K_DEC : K_ENC, seed, 100000 + k);
      o = obj_new(&cs); ref = obj_new(&cs);
      upto = cs.cut;
      for (j = 0; j < upto; j++) { Rec t; run_op(&cs, &o, &cs.ops[j], &t); }
      if (cs.kind == K_ENC) {
         OpusEncoder *e = (OpusEncoder *)o.p;
         if (k % 6 == 0) poison_enc(e, &r);
         if (k % 2 == 0) {
            printf("I misc encreset "); print_enc(stdout, e, (OpusEncoder *)ref.p, o.size); printf("\n");
            opus_encoder_ctl(e, OPUS_RESET_STATE);
            printf("O RESET "); print_enc(stdout, e, (OpusEncoder *)ref.p, o.size); printf("\n");
         } else {
            int req = SETREQ[vbelow(&r, sizeof SETREQ / sizeof SETREQ[0])], v, ret;
            switch (vbelow(&r, 5)) {
            case 0: v = (int)vbelow(&r, 12) - 1; break;
            case 1: v = 1099 + (int)vbelow(&r, 9); break;
            case 2: v = (int)vnext(&r); break;
            case 3: { static const int sp[] = {OPUS_AUTO, -1, 0, 1, 2, 3, 8, 24, 25, 100, 101, 500, 501, 2048, 2049, 2050, 2051, 3001, 3002, 4999, 5000, 5009, 5010, 999, 1000, 1002, 1003, 300000, 300001, 600000, 600001};
                      v = sp[vbelow(&r, sizeof sp / sizeof sp[0])]; break; }
            default: v = (int)vbelow(&r, 700000); break;
            }
            printf("I misc encset "); print_enc(stdout, e, (OpusEncoder *)ref.p, o.size); printf(" %d %d\n", req, v);
            ret = opus_encoder_ctl(e, req, (opus_int32)v);
            if (ret == OPUS_OK) { printf("O SET "); print_enc(stdout, e, (OpusEncoder *)ref.p, o.size); printf("\n"); }
            else printf("O %s\n", verr(ret));
         }
      } else {
         OpusDecoder *d = (OpusDecoder *)o.p; int nstep = 0;
         /* decode-call footprint: members before / after each of the next decode calls of the history */
         for (j = cs.cut; j < cs.nops && nstep < 5; j++) {
            Rec t;
            if (cs.ops[j].type == OP_DEC) {
               int null_data = cs.ops[j].a < 0 || cs.pklen[cs.ops[j].a] == 0;
               printf("I misc decstep "); print_dec(stdout, d, (OpusDecoder *)ref.p, o.size); printf(" ");
               run_op(&cs, &o, &cs.ops[j], &t);
               print_dec(stdout, d, (OpusDecoder *)ref.p, o.size); printf(" %d\nO ok\n", null_data);
               nstep++;
            } else run_op(&cs, &o, &cs.ops[j], &t);
         }
         printf("I misc decreset "); print_dec(stdout, d, (OpusDecoder *)ref.p, o.size); printf("\n");
         opus_decoder_ctl(d, OPUS_RESET_STATE);
         printf("O RESET "); print_dec(stdout, d, (OpusDecoder *)ref.p, o.size); printf("\n");
      }
      obj_free(&o); obj_free(&ref); free_case(&cs);
   }
   /* multistream / projection reset = fan-out of the per-stream reset (+ surround memories) */
   for (k = 0; k < n / 8 + 4; k++) {
      Obj o; int j, sidx, kind = (k % 4 == 3) ? K_MSDEC : (k % 4 == 2) ? K_PROJENC : K_MSENC;
      gen_case(&cs, 1, kind, seed, 200000 + k);
      o = obj_new(&cs);
      for (j = 0; j < cs.cut; j++) { Rec t; run_op(&cs, &o, &cs.ops[j], &t); }
      for (a = 0; a < 2; a++) {                       /* a = 0: before (input line), a = 1: after (output line) */
         if (kind == K_MSDEC) {
            OpusMSDecoder *m = (OpusMSDecoder *)o.p;
            if (a == 0) printf("I misc msdecreset %d,%d,%d ", m->layout.nb_channels, m->layout.nb_streams, m->layout.nb_coupled_streams);
            else printf("O MSRESET %d %d,%d,%d ", opus_multistream_decoder_ctl(m, OPUS_RESET_STATE), m->layout.nb_channels, m->layout.nb_streams, m->layout.nb_coupled_streams);
            for (sidx = 0; sidx < m->layout.nb_streams; sidx++) {
               OpusDecoder *d = NULL, *rf; int sz;
               opus_multistream_decoder_ctl(m, OPUS_MULTISTREAM_GET_DECODER_STATE(sidx, &d));
               sz = opus_decoder_get_size(d->channels); rf = (OpusDecoder *)malloc(sz); opus_decoder_init(rf, d->Fs, d->channels);
               if (sidx) printf(";");
               print_dec(stdout, d, rf, sz); free(rf);
            }
         } else {
            OpusMSEncoder *m = kind == K_PROJENC ? (OpusMSEncoder *)((char *)o.p + align((int)sizeof(OpusProjectionEncoder) +
                                   ((OpusProjectionEncoder *)o.p)->mixing_matrix_size_in_bytes + ((OpusProjectionEncoder *)o.p)->demixing_matrix_size_in_bytes))
                                                 : (OpusMSEncoder *)o.p;
            int mono = align(opus_encoder_get_size(1)), coup = align(opus_encoder_get_size(2)), code = 0, mz, total;
            long off = align(sizeof(OpusMSEncoder)) + (long)m->layout.nb_coupled_streams * coup + (long)(m->layout.nb_streams - m->layout.nb_coupled_streams) * mono;
            if (a == 1) code = kind == K_PROJENC ? opus_projection_encoder_ctl((OpusProjectionEncoder *)o.p, OPUS_RESET_STATE) : opus_multistream_encoder_ctl(m, OPUS_RESET_STATE);
            total = m->mapping_type == MAPPING_TYPE_SURROUND ? (int)(off + (long)m->layout.nb_channels * 121 * sizeof(opus_val32)) : (int)off;
            mz = region_zero((char *)m + off, total - off);
            if (a == 0) printf("I misc msreset "); else printf("O MSRESET %d ", code);
            printf("%d,%d,%d,%d,%d,%d,%d,%d,%d,%d ", m->layout.nb_channels, m->layout.nb_streams, m->layout.nb_coupled_streams, m->arch,
                   m->lfe_stream, m->application, m->variable_duration, (int)m->mapping_type, m->bitrate_bps, mz);
            for (sidx = 0; sidx < m->layout.nb_streams; sidx++) {
               OpusEncoder *e = NULL, *rf; int sz;
               opus_multistream_encoder_ctl(m, OPUS_MULTISTREAM_GET_ENCODER_STATE(sidx, &e));
               sz = opus_encoder_get_size(e->channels); rf = (OpusEncoder *)malloc(sz); opus_encoder_init(rf, e->Fs, e->channels, e->application);
               if (sidx) printf(";");
               print_enc(stdout, e, rf, sz); free(rf);
            }
         }
         printf("\n");
      }
      obj_free(&o); free_case(&cs);
   }
   return 0;
}

/* ---- poke: which members does a later call read before writing?  One member of a copy is overwritten
   (with the value the same member holds in a freshly initialised object, then in an earlier state of the same
   history: always a value the member can legitimately hold) either right after OPUS_RESET_STATE (when = 0) or in the middle of a history
   (when = 1); the suffix of the history is run on both; the member is SENSITIVE if any later output differs or
   the call crashes (each experiment runs in a forked child). ---- */
#include <sys/wait.h>
#define MAXREF 160
static int build_refs(int kind, const void *obj, FRef *refs)
{
   int i, n = 0;
   if (kind == K_ENC) {
      const OpusEncoder *e = (const OpusEncoder *)obj;
      for (i = 0; i < NF(ENCF); i++) if ((ENCF[i].kind == 'I' || ENCF[i].kind == 'F') && !is_structural(ENCF[i].name)) { refs[n].tag = "enc"; refs[n].base = 0; refs[n++].f = &ENCF[i]; }
      for (i = 0; i < NF(SILKF); i++) if (strcmp(SILKF[i].name, "API_sampleRate")) { refs[n].tag = "silk_mode"; refs[n].base = offsetof(OpusEncoder, silk_mode); refs[n++].f = &SILKF[i]; }
      for (i = 0; i < NF(CELTF); i++) if (CELTF[i].kind == 'I' && !is_structural(CELTF[i].name) && strcmp(CELTF[i].name, "channels") && strcmp(CELTF[i].name, "arch")) {
         refs[n].tag = "celt"; refs[n].base = e->celt_enc_offset; refs[n++].f = &CELTF[i]; }
   } else {
      for (i = 0; i < NF(DECF); i++) if (DECF[i].kind == 'I' && !is_structural(DECF[i].name)) { refs[n].tag = "dec"; refs[n].base = 0; refs[n++].f = &DECF[i]; }
      for (i = 0; i < NF(SILKDF); i++) if (strcmp(SILKDF[i].name, "API_sampleRate") && strcmp(SILKDF[i].name, "nChannelsAPI")) { refs[n].tag = "DecControl"; refs[n].base = offsetof(OpusDecoder, DecControl); refs[n++].f = &SILKDF[i]; }
   }
   return n;
}
static int poke(int kind, uint64_t seed, int first, int count, int when)
{
   static Case c; static FRef refs[MAXREF]; static long trials[MAXREF], sens[MAXREF], crash[MAXREF];
   int nref = 0, idx, i, v;
   for (idx = first; idx < first + count; idx++) {
      Obj a, donor[2]; int err, half;
      gen_case(&c, 1, kind, seed, idx);
      g_fill = 0xA5; a = obj_new(&c); donor[0] = obj_new(&c); g_fill = -1;      /* donor 0: freshly initialised */
      donor[1].kind = a.kind; donor[1].size = a.size; donor[1].p = malloc(a.size);
      half = when == 0 ? c.cut : c.cut / 2;                                       /* donor 1: an earlier state of the same history */
      memcpy(donor[1].p, a.p, a.size);
      for (i = 0; i < c.cut; i++) { run_op(&c, &a, &c.ops[i], &g_ra[i]); if (i + 1 == half) memcpy(donor[1].p, a.p, a.size); }
      if (when == 0) { err = kind == K_ENC ? ECTL(&a, OPUS_RESET_STATE) : DCTL(&a, OPUS_RESET_STATE); if (err) exit(70); }
      nref = build_refs(kind, a.p, refs);
      run_suffix(&c, &a, g_rf);
      fflush(stdout);
      for (i = 0; i < nref; i++) {
         int hit = 0, died = 0, tried = 0, off = refs[i].base + refs[i].f->off, sz = refs[i].f->size;
         for (v = 0; v < 2 && !hit; v++) {
            pid_t pid;
            if (!memcmp((char *)a.p + off, (char *)donor[v].p + off, sz)) continue;     /* the donor holds the same value */
            tried = 1;
            pid = fork();
            if (pid == 0) {
               Obj t = a;
               signal(SIGABRT, SIG_DFL); signal(SIGSEGV, SIG_DFL); if (!freopen("/dev/null", "w", stderr)) _exit(3);
               t.p = malloc(a.size); memcpy(t.p, a.p, a.size);
               memcpy((char *)t.p + off, (char *)donor[v].p + off, sz);
               run_suffix(&c, &t, g_rt);
               _exit(first_diff(&c, g_rf, g_rt) < 0 ? 0 : 1);
            } else {
               int st = 0; waitpid(pid, &st, 0);
               if (WIFEXITED(st)) { if (WEXITSTATUS(st) == 1) hit = 1; else if (WEXITSTATUS(st) != 0) { hit = 1; died = 1; } }
               else { hit = 1; died = 1; }
            }
         }
         trials[i] += tried; sens[i] += hit; crash[i] += died;
      }
      obj_free(&a); obj_free(&donor[0]); obj_free(&donor[1]); free_case(&c);
   }
   for (i = 0; i < nref; i++)
      printf("K %s %d %s.%s trials=%ld sens=%ld crash=%ld\n", KNAME[kind], when, refs[i].tag, refs[i].f->name, trials[i], sens[i], crash[i]);
   return 0;
}

int main(int argc, char **argv)
{
   vinstall_traps();
   if (argc >= 7 && !strcmp(argv[1], "poke")) {
      int kind; for (kind = 0; kind < NKIND && strcmp(argv[2], KNAME[kind]); kind++);
      if (kind != K_ENC && kind != K_DEC) return 64;
      return poke(kind, strtoull(argv[3], NULL, 10), atoi(argv[4]), atoi(argv[5]), atoi(argv[6]));
   }
   if (argc >= 4 && !strcmp(argv[1], "tie")) return tie(strtoull(argv[2], NULL, 10), atoi(argv[3]));
   if (argc >= 6 && !strcmp(argv[1], "attrib")) {
      int kind, i, first = atoi(argv[4]), n = atoi(argv[5]), hits = 0;
      for (kind = 0; kind < NKIND && strcmp(argv[2], KNAME[kind]); kind++);
      if (kind != K_ENC && kind != K_DEC) return 64;
      for (i = first; i < first + n; i++) hits += attrib(kind, strtoull(argv[3], NULL, 10), i);
      printf("# attrib %s cases=%d differing=%d\n", KNAME[kind], n, hits);
      return 0;
   }
   if (argc >= 5 && !strcmp(argv[1], "diag")) {
      int kind;
      for (kind = 0; kind < NKIND && strcmp(argv[2], KNAME[kind]); kind++);
      if (kind == NKIND) return 64;
      return diag(kind, strtoull(argv[3], NULL, 10), atoi(argv[4]));
   }
   fprintf(stderr, "usage: c12_state tie|diag|poke ...\n");
   return 64;
}
