/* c02_wf.c — tie of slice C02wf: well-formedness of every packet the real encoder emits.

   Re-uses the recording harness c05_encsize.c unchanged (it `#include`s src/opus_encoder.c, records the
   oracles of every opus_encode_native call and prints the `encskel native` line pair).  The one call of
   opus_packet_parse_impl with self_delimited = 0 in that TU sits in emit_O(), which is reached for every
   call that returned ret >= 1 with the emitted packet (data, ret).  That call is redirected to wf_parse(),
   a pass-through hook that returns the real parser's answer unchanged and additionally writes one line
   pair of the op `wf-native` to a private stream:

     I encskel wf-native <the kv tokens of the `encskel native` line> pkt=x<hex of data[0..ret)>
     O parse=<count | error name> toc=<toc> sizes=<s0,s1,..> poff=<payload_offset> off=<packet_offset>
       nbs=<opus_packet_get_nb_samples(data, ret, Fs)> skel=1 dur=1

   Everything in the O line comes from the real library; `skel=1 dur=1` are constants (the model prints 0
   when its own check of the skeleton prediction / of the duration clause fails, which makes the pair a
   mismatch).  The output of c05_encsize itself is discarded (stdout -> /dev/null); the exit code is kept.
   A trap (abort / sanitizer / SIGSEGV) inside an encode call yields `I encskel wf-native <kv> pkt=x`,
   `O ABORT|SANITIZER|SIGSEGV` and a non-zero exit.

   Modes: those of c05_encsize (rand, sweep, bound, fill, redsw, ms, mssweep; argv is passed through). */
#include "vcommon.h"
#ifdef HAVE_CONFIG_H
#include "config.h"
#endif
#include "opus.h"
#include "opus_private.h"

static int wf_parse(const unsigned char *data, opus_int32 len, int sd, unsigned char *toc,
   const unsigned char *frames[48], opus_int16 size[48], int *payload_offset, opus_int32 *packet_offset,
   const unsigned char **padding, opus_int32 *padding_len);
static void wf_signal(int sig, void (*h)(int));
static void wf_set_death(void (*cb)(void));

#define opus_packet_parse_impl(a, b, c, d, e, f, g, h, i, j) wf_parse(a, b, c, d, e, f, g, h, i, j)
#define signal(s, h) wf_signal(s, h)
#define __sanitizer_set_death_callback(cb) wf_set_death(cb)
#define main c05_main
#include "c05_encsize.c"
#undef main
#undef __sanitizer_set_death_callback
#undef signal
#undef opus_packet_parse_impl

static FILE *wf_fp;
static long wf_cases;

/* the text emit_I() prints, without the leading "I encskel native " and the trailing newline */
static char *wf_kv(void)
{
   char *buf = NULL, *kv; size_t n = 0; FILE *m, *saved = stdout;
   static const char pfx[] = "I encskel native ";
   m = open_memstream(&buf, &n);
   if (!m) return NULL;
   stdout = m; emit_I(); fflush(m); stdout = saved;
   fclose(m);
   if (!buf) return NULL;
   while (n && (buf[n - 1] == '\n' || buf[n - 1] == '\r')) buf[--n] = 0;
   if (strncmp(buf, pfx, sizeof pfx - 1)) { free(buf); return NULL; }
   kv = strdup(buf + sizeof pfx - 1);
   free(buf);
   return kv;
}

static int wf_parse(const unsigned char *data, opus_int32 len, int sd, unsigned char *toc,
   const unsigned char *frames[48], opus_int16 size[48], int *payload_offset, opus_int32 *packet_offset,
   const unsigned char **padding, opus_int32 *padding_len)
{
   int ret = opus_packet_parse_impl(data, len, sd, toc, frames, size, payload_offset, packet_offset, padding, padding_len);
   /* emit_O's call: the packet opus_encode_native just returned (emit_mscurr's calls are self-delimited) */
   if (!sd && wf_fp && G.st && len >= 1) {
      unsigned char t = 0; opus_int16 sz[48]; int poff = 0, cnt, i, nbs; opus_int32 off = 0;
      char *kv = wf_kv();
      cnt = opus_packet_parse_impl(data, len, 0, &t, NULL, sz, &poff, &off, NULL, NULL);
      nbs = opus_packet_get_nb_samples(data, len, G.st->Fs);
      fprintf(wf_fp, "I encskel wf-native %s pkt=", kv ? kv : "kv-unavailable"); vhex(wf_fp, data, len);
      if (cnt >= 1) {
         fprintf(wf_fp, "\nO parse=%d toc=%d sizes=", cnt, t);
         for (i = 0; i < cnt; i++) fprintf(wf_fp, "%s%d", i ? "," : "", sz[i]);
         fprintf(wf_fp, " poff=%d off=%d", poff, (int)off);
      } else fprintf(wf_fp, "\nO parse=%s toc=0 sizes=- poff=0 off=0", verr(cnt));
      if (nbs >= 0) fprintf(wf_fp, " nbs=%d skel=1 dur=1\n", nbs); else fprintf(wf_fp, " nbs=%s skel=1 dur=1\n", verr(nbs));
      fflush(wf_fp);
      free(kv);
      wf_cases++;
   }
   return ret;
}

/* traps: the case in flight becomes the answer on the private stream */
static void wf_trap(const char *what)
{
   if (!wf_fp) return;
   if (G.live) {
      char *kv; G.live = 0; kv = wf_kv();
      fprintf(wf_fp, "I encskel wf-native %s pkt=x\nO %s\n", kv ? kv : "kv-unavailable", what);
   } else fprintf(wf_fp, "\nO %s\n", what);
   fflush(wf_fp);
}
static void wf_abort_handler(int sig) { (void)sig; wf_trap("ABORT"); _exit(3); }
#if defined(__SANITIZE_ADDRESS__)
static void wf_death(void) { wf_trap("SANITIZER"); }
#else
static void wf_segv_handler(int sig) { (void)sig; wf_trap("SIGSEGV"); _exit(4); }
#endif
/* c05_main's `signal(SIGABRT, my_abort_handler)` / `__sanitizer_set_death_callback(my_death)` land here */
static void wf_signal(int sig, void (*h)(int))
{
   (void)h;
   if (sig == SIGABRT) signal(SIGABRT, wf_abort_handler); else signal(sig, h);
#if !defined(__SANITIZE_ADDRESS__)
   signal(SIGSEGV, wf_segv_handler);
#endif
}
static void wf_set_death(void (*cb)(void))
{
   (void)cb;
#if defined(__SANITIZE_ADDRESS__)
   __sanitizer_set_death_callback(wf_death);
#endif
}

int main(int argc, char **argv)
{
   int rc, fd = dup(1);
   if (fd < 0 || !(wf_fp = fdopen(fd, "w"))) { fprintf(stderr, "c02_wf: cannot dup stdout\n"); return 70; }
   setvbuf(wf_fp, NULL, _IOFBF, 1 << 16);
   if (!freopen("/dev/null", "w", stdout)) { fprintf(stderr, "c02_wf: cannot redirect stdout\n"); return 70; }
   rc = c05_main(argc, argv);
   fprintf(wf_fp, "# wf cases=%ld\n", wf_cases);
   fflush(wf_fp);
   return rc;
}
