"""C01, slice CeltCallees2 — index-safety bridge into the CELT decoder interior, fourth part: the extent contracts of
clt_mdct_backward_c (+ opus_fft_impl, kf_bfly2/3/4/5, bit-reversal tables), denormalise_bands and pitch_search
(+ find_best_pitch, celt_pitch_xcorr_c, xcorr_kernel_c, celt_inner_prod_c) discharged from index models of the C code."""
import os, re, subprocess
import common

LEAN_MODULES = ['OpusProps.C01CeltCallees2']
GEN = ['CeltFft']
SOURCES = ['celt/mdct.c', 'celt/mdct.h', 'celt/kiss_fft.c', 'celt/kiss_fft.h', 'celt/bands.c', 'celt/pitch.c', 'celt/pitch.h',
           'celt/modes.c', 'celt/static_modes_float.h', 'celt/quant_bands.c', 'celt/celt_decoder.c']
REQUIRED_THEOREMS = [
    'OpusProps.C01CeltCallees2.fft_bitrev_permutation', 'OpusProps.C01CeltCallees2.fft_butterflies_in_bounds',
    'OpusProps.C01CeltCallees2.fft_butterfly_strides_general',
    'OpusProps.C01CeltCallees2.mdct_backward_in_contract', 'OpusProps.C01CeltCallees2.denormalise_in_contract',
    'OpusProps.C01CeltCallees2.pitch_search_in_contract', 'OpusProps.C01CeltCallees2.contracts_at_decoder_args',
]
UNPROVED = []
RULE = ('clt_mdct_backward for every shift 0..3 x stride {1,2,4,8} at overlap 120 plus random shifts / strides 0..9 / even overlaps; '
        'denormalise_bands for start x end x M in {1,2,4,8} x downsample in {1,2,3,4,6,100000} x silence (quick: start in '
        '{0,1,17,20,21}; thorough: every 0 <= start <= end <= 21); pitch_search at the decoder\'s (1328, 620), the encoder\'s (960, 979), '
        'the smallest legal sizes and random (len, max_pitch), random and all-zero signals.  Per case the LIBRARY routine (run-time '
        'selected SIMD variant) runs on heap blocks holding exactly the contract\'s elements under ASan+UBSan, and an instrumented '
        'build of the repo\'s C reference code (every compiler-emitted load / store recorded, ALLOC and OPUS_CLEAR recorded) yields the '
        'smallest / largest element index touched per array — and, for the FFT, per kf_bfly call (function entry / exit hooks) — which must '
        'equal the Lean index model\'s extents exactly; the ALLOC sizes of pitch_search are compared too')
NOT_COVERED = [
    'the SIMD variants of xcorr_kernel / celt_inner_prod / celt_pitch_xcorr selected at run time (sanitizer probes on exact-size '
    'blocks only; the index model transcribes the C reference code)',
    'local scalar arrays fstride[MAXFACTORS], best_pitch[2] and the constant global eMeans[25] (same index as bandLogE) are proved in bounds in the model but not observed by the tie (the compiler does not instrument them)',
    'sample VALUES (float DSP) of the three routines; CUSTOM_MODES / FIXED_POINT variants of the code',
]
ASSUMPTIONS = [
    'the index model (lean/OpusModel/CeltCallees2.lean) is a hand transcription of the index expressions of the C reference code; '
    'the tie compares its extents with the instrumented code, not every single access',
    'the static 48 kHz / 960 mode (regenerated: FFT factors, bit-reversal tables, eBands, table sizes); float build',
]
TRUSTED = ['hand transcription of index expressions (supported by the instrumented-extent tie)']
LEVEL_TEXT = ('kernel-checked in-bounds theorems for the index models of clt_mdct_backward_c / opus_fft_impl / denormalise_bands / '
              'pitch_search on the regenerated tables, for all legal arguments; extents tied to the instrumented C code')
LEVEL_NOTE = ('every array access of the three routines lies inside the extent contract Call.accs assumes (read off literally in the '
              'examples), the mode tables and the local arrays; bit-reversal tables are permutations; butterflies tile [0, nfft)')
TECHNIQUE = ('loop-by-loop hit lists; structural proofs (omega + multiplication monotonicity) for all arguments; decide +kernel over the '
             'complete bit-reversal tables and the complete butterfly hit lists of the four FFT states; tie: compiler-instrumented '
             '(-fsanitize=thread code generation without runtime) copy of the repo sources + ASan exact-size blocks on the library')


def _lib(ctx, variant):
    for attempt in (0, 1):
        lib = ctx.lib(variant)
        if os.path.exists(lib.a):
            return lib
        ctx._libs.pop(variant, None)
    return ctx.lib(variant)


def _harness(ctx, variant):
    """Instrumented TU (repo sources, C reference paths, -fsanitize=thread code generation at -O0, no runtime; all symbols but
    the entry points localised) + recorder/driver TU + the library of the given variant."""
    lib = _lib(ctx, variant)
    out = os.path.join(common.scratch(), 'c01_celtcallees2_%s' % variant)
    src_i = os.path.join(common.HARNESS, 'c01_celtcallees2_inst.c')
    src_m = os.path.join(common.HARNESS, 'c01_celtcallees2.c')
    if os.path.exists(out) and all(os.path.getmtime(out) >= os.path.getmtime(s) for s in (src_i, src_m, lib.a)):
        return out
    obj = os.path.join(common.scratch(), 'c01_celtcallees2_inst_%s.o' % variant)
    flags = [f for f in lib.flags if not f.startswith('-W') and f != '-O2' and not f.startswith('-fsanitize')
             and not f.startswith('-fno-sanitize') and '_FORTIFY_SOURCE' not in f]
    defines = [d for d in lib.defines if not re.match(r'-DOPUS_X86_|-DOPUS_HAVE_RTCD|-DCPU_INFO_BY', d)]
    cmd = [lib.compiler] + flags + ['-O0', '-w', '-U_FORTIFY_SOURCE', '-fsanitize=thread', '-c'] + defines + lib.includes + \
        ['-I' + os.path.join(common.REPO, 'celt'), '-I' + common.HARNESS, src_i, '-o', obj]
    rc, outp = common.sh(cmd)
    if rc != 0:
        raise RuntimeError('instrumented TU failed to compile: %s\n%s' % (' '.join(cmd), outp[-3000:]))
    rc, outp = common.sh(['objcopy', '-G', 'vinst_mdct', '-G', 'vinst_denorm', '-G', 'vinst_psearch', obj])
    if rc != 0:
        raise RuntimeError('objcopy failed: %s' % outp[-1000:])
    common.cc_harness(lib, [src_m], out, extra=['-I' + os.path.join(common.REPO, 'celt'), obj])
    return out


def ties(ctx):
    h = _harness(ctx, 'san')
    return [common.run_tie('celtcallees2', [h, 'run', str(ctx.seed), '0' if ctx.quick else '1'])]


def _promised(inp):
    """Promised extents (inclusive upper bounds, lower bound 0) per printed array, from the `decskel ext2 …` line: the bridge's
    contract for the argument arrays, the mode's table sizes, the ALLOC sizes."""
    t = inp.split(' ')
    try:
        v = [int(x) for x in t[3:]]
    except ValueError:
        return None
    if len(t) < 3 or t[1] != 'ext2':
        return None
    if t[2] == 'mdct' and len(v) == 3:
        shift, stride, ov = v
        n2 = (1920 >> shift) // 2
        return {'in': stride * (n2 - 1), 'out': ov // 2 + n2 - 1, 'win': ov - 1, 'trig': 1799, 'bitrev': n2 // 2 - 1, 'tw': 479, 'factors': 15}
    if t[2] == 'denorm' and len(v) == 5:
        N = v[2] * 120
        return {'X': N - 1, 'freq': N - 1, 'bandE': 20, 'eBands': 21}
    if t[2] == 'psearch' and len(v) == 5:
        ln, mp = v[0], v[1]
        return {'xlp': ln // 2 - 1, 'y': ln // 2 + mp // 2 - 1, 'xlp4': ln // 4 - 1, 'ylp4': (ln + mp) // 4 - 1, 'xcorr': mp // 2 - 1}
    return None


def classify(ctx, tie, mm):
    impl = mm.get('impl', '') or ''
    inp = mm.get('input', '')
    first = impl.split(' ')[0]
    if first in ('SANITIZER', 'ABORT', 'TIMEOUT', 'SIGSEGV'):
        why = {'SANITIZER': 'AddressSanitizer/UBSan report: the library routine left the exact-size blocks of its extent contract',
               'ABORT': 'a hardening assertion (celt_assert) fired inside the routine for arguments the decoder can pass',
               'TIMEOUT': 'the call did not terminate within the watchdog', 'SIGSEGV': 'the call crashed'}[first]
        return {'suite': tie.name, 'input': inp, 'expected': mm.get('model'), 'observed': impl, 'why': why,
                'sanitizer_report': mm.get('sanitizer_report', getattr(tie, 'sanitizer', []))}
    t = inp.split(' ')
    if len(t) == 4 and t[1] == 'ext2' and t[2] == 'fft' and t[3] in ('0', '1', '2', '3'):
        nfft = (1920 >> int(t[3])) // 4
        for k, item in enumerate(impl.split(' ')):
            m = re.match(r'(\d+):fout=(-?\d+)\.\.(-?\d+),tw=(?:(-?\d+)\.\.(-?\d+)|-)$', item)
            if m and (int(m.group(2)) < 0 or int(m.group(3)) >= nfft or (m.group(4) and (int(m.group(4)) < 0 or int(m.group(5)) > 479))):
                return {'suite': tie.name, 'input': inp, 'expected': mm.get('model'), 'observed': impl,
                        'why': 'butterfly call %d (radix %s) of the instrumented opus_fft_impl touches %s, outside fout[0..%d] / '
                               'twiddles[0..479]' % (k + 1, m.group(1), item, nfft - 1)}
    prom = _promised(inp)
    if prom:
        for item in impl.split(' '):
            m = re.match(r'(\w+)=(-?\d+)\.\.(-?\d+)$', item)
            if m and m.group(1) in prom and (int(m.group(2)) < 0 or int(m.group(3)) > prom[m.group(1)]):
                return {'suite': tie.name, 'input': inp, 'expected': mm.get('model'), 'observed': impl,
                        'why': 'the instrumented C code touches %s[%s..%s], outside the promised extent [0..%d] (contract of the '
                               'CELT index bridge / table size / ALLOC size)' % (m.group(1), m.group(2), m.group(3), prom[m.group(1)])}
    return None


def search(ctx):
    """No model: the library's clt_mdct_backward / denormalise_bands / pitch_search (run-time selected variants) on heap blocks
    holding exactly the elements of the bridge's extent contract (plain build: must complete; san build: ASan+UBSan), and the
    instrumented C reference code's recorded extents must stay inside the contract, the mode's table sizes and the ALLOC sizes;
    pitch_search must return a lag in [0, max_pitch); celt_assert on."""
    cases, wit, samples, kinds = 0, [], [], {}
    for variant, off in (('san', 5000), ('plain', 6000)):
        h = _harness(ctx, variant)
        args = ['search', str(ctx.seed + off), '0' if ctx.quick else '1']
        env = dict(os.environ)
        env.setdefault('ASAN_OPTIONS', 'detect_leaks=0:abort_on_error=0')
        p = subprocess.run([h] + args, stdout=subprocess.PIPE, stderr=subprocess.PIPE, text=True, timeout=3000, env=env, errors='replace')
        m = re.search(r'# celtcallees2 seed=\d+ level=\d+ cases=(\d+) witnesses=(\d+)', p.stdout)
        if m:
            cases += int(m.group(1))
        for line in p.stdout.split('\n'):
            if line.startswith('W '):
                inp, what = (line[2:].split(' | ') + [''])[:2]
                kinds[inp.split(' ')[2] if len(inp.split(' ')) > 2 else '?'] = 1
                wit.append({'suite': 'celtcallees2-search-%s' % variant, 'input': inp, 'expected': 'accesses inside the promised extents',
                            'observed': what, 'why': 'C01: access outside the extent contract (reproduce: %s %s)' % (os.path.basename(h), ' '.join(args))})
        if p.returncode != 0 or not m:
            rep = [l for l in p.stderr.split('\n') if 'ERROR: AddressSanitizer' in l or 'runtime error' in l or l.startswith('SUMMARY:')][:6]
            last = [l for l in p.stdout.split('\n') if l.startswith('I ')]
            wit.append({'suite': 'celtcallees2-search-%s' % variant, 'input': last[-1][2:] if last else ' '.join(args), 'expected': 'harness completes',
                        'observed': 'exit %d: %s' % (p.returncode, (p.stdout[-300:] + p.stderr[-400:])), 'sanitizer_report': rep,
                        'why': 'run ended abnormally (sanitizer / assertion / crash) in a routine called with contract-size blocks '
                               '(reproduce: %s %s)' % (os.path.basename(h), ' '.join(args))})
        samples.append('%s %s: %s' % (variant, ' '.join(args), m.group(0) if m else 'no summary'))
    return {'cases': cases, 'distinct': 3, 'oracle': search.__doc__, 'samples': samples, 'witnesses': wit[:20], 'witness_kinds': kinds}
