"""C09 extension `CeltBg` — the weight a received CELT frame gets in the background-noise floor after a loss burst is capped
(celt/celt_decoder.c: max_background_increase = IMIN(160, loss_duration+M)*GCONST(0.001f)); tools/EXT_BRIEF.md."""
import os, re
import common
from props import C01 as c01

LEAN_MODULES = ['OpusProps.C09CeltBg']
GEN = ['CeltBgConsts', 'PlcConsts']
SOURCES = ['celt/celt_decoder.c']
REQUIRED_THEOREMS = ['OpusProps.C09CeltBg.background_increase_capped']
UNPROVED = ['that the concealed SIGNAL decays to the floor and the floor stays below the signal (float DSP): searched by C09 '
            '(rebound sessions of harness/c09_loss.c), not proved']
RULE = ('no differential run of its own: the cap, the per-frame step and 76 probes (loss_duration 0..10000 on both sides of the cap x '
        '2.5/5/10/20 ms frames) are REGENERATED on every run by driving the compiled celt_decode_with_ec with a chosen loss_duration '
        'and reading the rise of backgroundLogE (tools/extract/CeltBgConsts.c); the theorem states model = probe on all of them, so a '
        'changed cap or step breaks the Lean build (S1)')
NOT_COVERED = ['fixed-point builds (GCONST is a Q24 constant there; the extractor refuses)',
               'MING(…, oldBandE[i]) and the use of backgroundLogE as concealment floor (celt_decode_lost): float DSP, searched by C09']
ASSUMPTIONS = c01.ASSUMPTIONS
TRUSTED = c01.TRUSTED
LEVEL_TEXT = ('proof over the regenerated constants: for every loss history and every size of the frame received next the background '
              'increase factor min(160, loss_duration + M) is <= 160, monotone in the loss duration and equal to loss_duration + 2^LM '
              'below the cap; the model agrees with the compiled decoder on every regenerated probe')
LEVEL_NOTE = c01.LEVEL_NOTE
TECHNIQUE = 'Lean 4 theorem over behaviourally regenerated constants (extractor TU #includes celt/celt_decoder.c and drives the decoder)'


def ties(ctx):
    return []


def classify(ctx, tie, mm):
    return None


def search(ctx):
    """The factor observed on the compiled decoder (rise of backgroundLogE[0] caused by one decoded frame, in units of 0.001) is
    <= 160 for loss_duration in {0 .. 10000} x four frame sizes: read from the regenerated probe table."""
    src = open(os.path.join(common.LEAN, 'OpusModel', 'Gen', 'CeltBgConsts.lean')).read()
    probes = [(int(a), int(b), int(c)) for a, b, c in re.findall(r'\((-?\d+), (\d+), (-?\d+)\)', src)]
    wit = [{'suite': 'celtbg-probes', 'input': 'decskel celtbg ld=%d LM=%d' % (ld, lm), 'expected': 'rise <= 160 (x 0.001)', 'observed': str(f),
            'why': 'one received frame of %g ms after loss_duration=%d raised backgroundLogE by %d x 0.001 (reproduce: tools/regen.py CeltBgConsts)'
                   % (2.5 * (1 << lm), ld, f)} for ld, lm, f in probes if f > 160 or f != min(160, ld + (1 << lm))]
    return {'cases': len(probes), 'distinct': len(set(p[2] for p in probes)), 'oracle': search.__doc__,
            'samples': ['%d probes, max rise %d' % (len(probes), max([p[2] for p in probes] or [0]))], 'witnesses': wit[:10]}
