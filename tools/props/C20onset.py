"""C20onset — extension of C20 (DTX): activity resuming ends the DTX run at once, whatever the position of the onset inside
the frame and whichever input channel carries it (witness search on the real encoder/decoder only; no Lean files of its own).

Written after seeded change C20-m8 (is_digital_silence sized by stream_channels instead of channels: for stereo input coded
as mono only the first half of the interleaved frame is examined) went unnoticed: the families of tools/props/C20.py resume
activity at frame boundaries only."""
import json, os
import common

LEAN_MODULES = ['OpusProps.C20']              # no theorems of its own: the clause searched here is OpusProps.C20.dtx_resume's premise
GEN = []
SOURCES = ['src/opus_encoder.c', 'src/analysis.c', 'silk/enc_API.c', 'silk/float/encode_frame_FLP.c', 'silk/VAD.c',
           'src/opus_decoder.c', 'include/opus_defines.h']
REQUIRED_THEOREMS = ['OpusProps.C20.dtx_resume', 'OpusProps.C20.dtx_resume_silk']
UNPROVED = []
RULE = ('deterministic grid Fs {8,12,16,24,48 kHz} x channel configuration {mono/mono, stereo coded as stereo (forced, 48-96 kb/s), '
        'stereo at <= 16 kb/s (stream_channels 1), stereo with OPUS_SET_FORCE_CHANNELS(1)} x complexity 0..10 x frame '
        '{2.5,5,10,20,40,60 ms}; bitrate, application, history lengths and noise from the seed. Per history: >= 1 s loud tone+noise '
        '(-10 dBFS), >= 600 ms all-zero samples, then from one snapshot of encoder+decoder 5 onset positions (0, 1/4, 1/2, 3/4, last '
        'sample) x {left, right, both} channels; quick tier = every 7th history starting at seed mod 7.')
NOT_COVERED = [
    'onsets shorter than half a frame: the position 3/4 was always coded on the unchanged tree (tools/c20_onset_calib.json) but is '
    'only counted, not enforced; a last-sample onset is legitimately below both detectors',
    'faint onsets (the resumed signal is at -10 dBFS); multi-frame packets of 80..120 ms; the fixed-point build']
ASSUMPTIONS = ['cases inside the code\'s low-budget class (bitrate < 3*8*frame_rate, src/opus_encoder.c:1267) are exempt, as in C20']
TRUSTED = ['harness/c20_onset.c snapshots the encoder/decoder by memcpy of opus_encoder_get_size/opus_decoder_get_size bytes '
           '(the states are position independent); public API only']
LEVEL_TEXT = ('search only: on the real encoder/decoder the first frame that contains the onset of a loud signal after a '
              'digital-silence DTX run is coded normally and decodes to non-silence, for onsets anywhere in the first half of the '
              'frame, in either or both input channels, for stream_channels != channels as well.')
LEVEL_NOTE = ''
TECHNIQUE = 'witness search on the real codec (state snapshot + onset sweep), calibrated thresholds'

CALIB = os.path.join(common.VERIF, 'tools', 'c20_onset_calib.json')
STRIDE_QUICK = 7
CHCFG = {(1, 0): 'mono/mono', (2, 2): 'stereo/stereo', (2, 0): 'stereo@lowrate', (2, 1): 'stereo/forced-mono'}


def _harness(ctx, variant='plain'):
    for attempt in (0, 1):
        try:
            if not os.path.exists(ctx.lib(variant).a):
                ctx._libs.pop(variant, None)
            return ctx.harness('c20_onset', ['c20_onset.c'], variant=variant)
        except RuntimeError:
            if attempt:
                raise
            ctx._libs.pop(variant, None)


def _judge(line, cal):
    """-> (key for the distribution, stats increments, witness or None) for one `R` line of the harness."""
    cfg, _, res = line[2:].partition(' | ')
    c = cfg.split(' ')
    d = dict(kv.split('=', 1) for kv in res.split(' ') if '=' in kv)
    fs, ch, chmode, br, cx, fr25 = (int(x) for x in c[:6])
    posk, mask = int(c[10]), int(c[11])
    ln, loud_us, frame_us = int(d['len']), int(d['loud_us']), int(d['frame_us'])
    rms = float(d['rms'])
    in_run = int(d['prevlen']) <= cal['dtx_len_max']
    low_budget = br * frame_us < 3 * 8 * 1000000            # bitrate < 3*8*frame_rate
    hi = cx >= 7 and fs >= 16000
    key = (CHCFG.get((ch, chmode), '?'), 'analysis' if hi else 'silk-vad', posk, 'dtx-run' if in_run else 'no-run')
    st = {'cases': 1, 'in_dtx_run': int(in_run), 'low_budget_exempt': int(low_budget),
          'tiny_last_sample': int(ln <= 2 and posk == 4), 'tiny_quarter_not_enforced': 0, 'enforced_coded': 0, 'enforced_dec': 0}
    if low_budget:
        return key, st, None
    frac = loud_us / float(frame_us)
    why = []
    if frac >= cal['min_loud_fraction']:
        st['enforced_coded'] = 1
        if ln <= cal['dtx_len_max']:
            why.append('the frame that contains the onset (%.3f ms of -10 dBFS signal from sample %s on, %s channel%s) was sent as a '
                       '%d-byte DTX packet (OPUS_GET_IN_DTX=%s)' % (loud_us / 1000.0, d['pos'],
                                                                     {1: 'left', 2: 'right', 3: 'both'}[mask] if ch == 2 else 'the',
                                                                     's' if mask == 3 and ch == 2 else '', ln, d['indtx']))
        if loud_us >= cal['dec_min_loud_us']:
            st['enforced_dec'] = 1
            if int(d['dec']) * 1000000 != frame_us * fs:
                why.append('the decoder returned %s samples for the onset frame' % d['dec'])
            elif rms < cal['dec_rms_min']:
                why.append('the decoder output of the onset frame is silent (rms %.2f < %.0f, int16 units)' % (rms, cal['dec_rms_min']))
    elif ln <= 2 and posk == 3:
        st['tiny_quarter_not_enforced'] = 1
    if not why:
        return key, st, None
    w = {'suite': 'dtx-onset-sweep', 'input': 'one ' + cfg,
         'expected': 'C20 resume clause: packet of the first frame containing renewed activity > %d bytes%s'
                     % (cal['dtx_len_max'], ' and decoder output rms >= %.0f' % cal['dec_rms_min'] if st['enforced_dec'] else ''),
         'observed': res.strip(),
         'why': 'activity resuming must end the DTX run at once (first frame of renewed activity coded normally): ' + '; '.join(why)
                + ' [Fs %d, %s, bitrate %d, complexity %d (%s detector), frame %.1f ms]'
                % (fs, key[0], br, cx, 'analysis' if hi else 'SILK VAD', frame_us / 1000.0),
         'clause': 'dtx_resume_onset', 'harness_args': ['one'] + c,
         'replay': 'harness c20_onset one %s 1' % cfg}
    return key, st, w


def search(ctx):
    cal = json.load(open(CALIB))
    h = _harness(ctx, 'plain')
    stride = STRIDE_QUICK if ctx.quick else 1
    args = ['grid', str(ctx.seed), str(ctx.seed % stride), str(stride)]
    rc, out = common.sh([h] + args, timeout=3000)
    stats, dist, wit = {}, {}, []
    for line in out.split('\n'):
        if line.startswith('R '):
            try:
                key, st, w = _judge(line, cal)
            except (ValueError, KeyError, IndexError):
                wit.append({'suite': 'dtx-onset-sweep', 'input': ' '.join(args), 'expected': 'a well-formed result line',
                            'observed': line[:300], 'why': 'the harness answer could not be parsed'})
                continue
            for k, v in st.items():
                stats[k] = stats.get(k, 0) + v
            dist[key] = dist.get(key, 0) + 1
            if w:
                wit.append(w)
        elif line.startswith('# stats '):
            for kv in line[8:].split(' '):
                k, _, v = kv.partition('=')
                if v.isdigit() and k in ('histories', 'errors'):
                    stats[k] = stats.get(k, 0) + int(v)
        elif line.startswith('# encode error') or line.startswith('# decode returned') or line.startswith('# create failed'):
            wit.append({'suite': 'dtx-onset-sweep', 'input': ' '.join(args), 'expected': 'encoder/decoder run without error',
                        'observed': line[2:], 'why': 'opus_encode / opus_decode failed on a valid configuration during the onset sweep'})
    if rc != 0:
        wit.append({'suite': 'dtx-onset-sweep', 'input': ' '.join(args), 'expected': 'harness exit 0',
                    'observed': 'exit code %d: %s' % (rc, out[-300:]), 'why': 'the implementation trapped during the onset sweep'})
    # one witness per history configuration first (so that the list shows different configurations), then the rest
    seen, first, rest = set(), [], []
    for w in wit:
        k = ' '.join(w['input'].split(' ')[:11])
        (rest if k in seen else first).append(w)
        seen.add(k)
    return {'cases': stats.get('cases', 0), 'distinct': len(dist),
            'oracle': 'the packet of the first frame with a non-zero sample after >= 600 ms of digital silence is > 2 bytes when '
                      '>= 1/2 frame of the loud signal lies inside it, and its decoder output has rms >= %.0f when >= %d ms lie '
                      'inside it (tools/c20_onset_calib.json)' % (cal['dec_rms_min'], cal['dec_min_loud_us'] // 1000),
            'stats': stats,
            'samples': ['onset sweep seed %d stride %d: %s' % (ctx.seed, stride, ' '.join('%s=%d' % kv for kv in sorted(stats.items())))],
            'witnesses': (first + rest)[:10]}


def replay(ctx, obj):
    """Re-run the recorded onset case alone through the harness and judge it again."""
    cal = json.load(open(CALIB))
    h = _harness(ctx, 'plain')
    args = obj.get('harness_args') or obj.get('input', '').split(' ')
    rc, out = common.sh([h] + args + ['1'])
    print(out)
    for line in out.split('\n'):
        if line.startswith('R '):
            _, _, w = _judge(line, cal)
            if w:
                print('VIOLATION property=C20 replay reproduced: ' + w['why'])
                return 1
    print('replay: the onset frame is coded normally now')
    return 0
