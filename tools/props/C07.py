"""C07 — repacketizer, pad and unpad preserve frames and always emit valid packets (DESIGN.md §7.C07)."""
import os, re, subprocess
import common

LEAN_MODULES = ['OpusProps.C07']
GEN = []
SOURCES = ['src/repacketizer.c', 'src/opus.c', 'src/extensions.c', 'src/opus_private.h', 'src/opus_decoder.c']
RULE = ('random op sequences on one repacketizer (init / cat / out / out_range / out_range_impl with self-delimited, pad and '
        'extension arguments) over serialiser-built packets of every code, CBR/VBR, 1..48 frames, frame sizes around '
        '0/1/251/252/255/256/1275, padding none / zeros / random / extension list / malformed extension list, 12% mutated; '
        'every sequence is replayed with maxlen at the exact size, -1, -2, +1, +2, random smaller and 1277*48; enumerated '
        'one- and two-packet sequences over code x CBR/VBR x padding kind x all [begin,end) x maxlen exact/-1(/+1); '
        'pad / unpad / multistream pad / unpad (1..8 streams, in place) for new_len = len-1, len, len+1..3, +250..260, up to '
        '+1500; a case is distinct by its (op, outcome kind) class')
NOT_COVERED = [
    'pad_spec, unpad_pad, pad_same_packet_inputs, pad_same_decode, ms_pad_spec, ms_pad_bytes (OK branch) and ms_pad_same_decode require the '
    'padding of the (last) packet to be extension-free (extension count 0: no padding, zero padding, anything the library itself pads); '
    'opus_packet_pad / unpad on packets WITH extensions are covered through out_range_impl (out_roundtrip_ext, out_nothing_gathered), the tie '
    'and the search only',
    'extension carriage (out_roundtrip_ext) is proved for out_range_impl; the exact SIZE clauses (BUFFER_TOO_SMALL iff ...) with extensions are '
    'proved only as the equation outRangeImpl_ext_eq_gen in OpusProofs (not restated as a property theorem), and opus_packet_pad_impl / '
    'unpad on packets WITH extensions are covered through out_range_impl only (pad_spec / unpad_spec assume extension-free padding)',
    'in-place operation is proved for opus_packet_unpad / opus_multistream_packet_unpad on valid packets (single-array model with the '
    'header-then-memmove order, tied byte for byte including the stale bytes after ret); the header bytes of that model are taken from the '
    'pure emit (they depend on TOC and frame lengths only); pad / multistream pad copy the packet first, so no overlap exists there',
    'pad_same_decode is proved on C01\'s decoder skeleton, where the SILK/CELT/range-decoder DSP is an oracle: the theorem assumes the DSP '
    'answers the same when it is handed the same frame bytes at a shifted address (OracleShift); the frame bytes are proved identical. '
    'The DSP itself is not modelled: S4 decodes x and pad x with the real decoder on a quarter of the pad cases and compares PCM and final range',
    'opus_int32 wrap of the extension-path size arithmetic is excluded only for maxlen <= 2139062142 or ext_len <= 2^30 (int_ranges_ext; the '
    'bound is tight, int_ranges_ext_tight); beyond it the C code computes a signed overflow (UB) — needs > 2 GB of extension payload',
]
ASSUMPTIONS = ['pad_same_decode: the DSP oracles depend on the packet only through the frame bytes they are pointed at (OracleShift o1 o2 d)',
               'len / maxlen arguments equal the sizes of the supplied buffers (exact-size heap blocks and guard bytes under ASan)',
               'packets given to cat stay alive and unmodified until the last out call (API contract: the repacketizer borrows pointers)']

REQUIRED_THEOREMS = [
    'OpusProps.C07.cat_accepts_iff', 'OpusProps.C07.cat_reject_unchanged', 'OpusProps.C07.cat_ok_state',
    'OpusProps.C07.repack_inv', 'OpusProps.C07.out_bad_arg', 'OpusProps.C07.out_no_other_failure',
    'OpusProps.C07.out_roundtrip', 'OpusProps.C07.out_size', 'OpusProps.C07.out_min_size_minimal',
    'OpusProps.C07.out_1277_suffices',
    'OpusProps.C07.pad_spec', 'OpusProps.C07.pad_rejects', 'OpusProps.C07.unpad_spec', 'OpusProps.C07.unpad_canonical',
    'OpusProps.C07.unpad_idempotent', 'OpusProps.C07.unpad_pad', 'OpusProps.C07.emitted_padding_ext_free', 'OpusProps.C07.ms_unpad_spec', 'OpusProps.C07.ms_pad_spec',
    'OpusProps.C07.out_roundtrip_ext', 'OpusProps.C07.out_roundtrip_ext_nopad', 'OpusProps.C07.out_roundtrip_ext_norepeat', 'OpusProps.C07.out_malformed_padding_dropped', 'OpusProps.C07.out_nothing_gathered',
    'OpusProps.C07.unpad_in_place', 'OpusProps.C07.ms_unpad_in_place', 'OpusProps.C07.move_frames_safe',
    'OpusProps.C07.pad_same_packet_inputs', 'OpusProps.C07.pad_same_decode', 'OpusProps.C07.int_ranges_noext',
    'OpusProps.C07.int_ranges_ext', 'OpusProps.C07.int_ranges_ext_tight', 'OpusProps.C07.ms_unpad_bytes', 'OpusProps.C07.ms_pad_bytes',
    'OpusProps.C07.ms_unpad_validated', 'OpusProps.C07.ms_unpad_stream_same_decode', 'OpusProps.C07.ms_unpad_same_decode', 'OpusProps.C07.ms_pad_same_decode',
]
UNPROVED = [
    'rejecting calls of opus_multistream_packet_unpad in place: the C function has already rewritten the streams before the offending one when '
    'it returns OPUS_INVALID_PACKET (e.g. 03 41 01 01 AA 00 | 01 55, 2 streams -> buffer starts 00 01 AA); the in-place model returns no '
    'buffer on error, so what exactly is modified is not a theorem (ms_unpad_bytes states the return values only)',
]


def _n(ctx, quick, thorough):
    return str(quick if ctx.quick else thorough)


def ties(ctx):
    h = ctx.harness('c07_repack', ['c07_repack.c'], variant='san')
    out = []
    out.append(common.run_tie('repack-enum', [h, 'enum', '0' if ctx.quick else '1']))
    out.append(common.run_tie('repack-rand', [h, 'rand', str(ctx.seed), _n(ctx, 6000, 150000)]))
    return out


_BAD = ('SANITIZER', 'ABORT', 'SIGSEGV')


def classify(ctx, tie, mm):
    """A model/implementation disagreement on an *extension-free* input is a property violation: on those inputs the
    model's answer is proved to be the property's answer (valid packet with exactly the selected frames / exact sizes /
    error kinds).  Memory-safety failures are violations on any input."""
    impl = str(mm.get('impl', ''))
    if impl in _BAD or 'GUARD_OVERWRITTEN' in impl:
        return {'suite': tie.name, 'input': mm.get('input', ''), 'expected': mm.get('model'), 'observed': impl,
                'why': 'memory-safety failure (sanitizer report, hardening assert or guard bytes overwritten) on this input'}
    w = _recheck(ctx, mm.get('input', ''))
    if w:
        w['suite'] = tie.name
        return w
    return None


def _recheck(ctx, line):
    """Evaluate the property predicate on the implementation for one disagreeing line (harness mode `judge`)."""
    if not line:
        return None
    h = ctx.harness('c07_repack', ['c07_repack.c'], variant='san')
    env = dict(os.environ)
    env.setdefault('ASAN_OPTIONS', 'detect_leaks=0:abort_on_error=0')
    p = subprocess.run([h, 'judge'], input=line + '\n', stdout=subprocess.PIPE, stderr=subprocess.PIPE, text=True, env=env)
    for l in p.stdout.split('\n'):
        if l.startswith('J '):
            continue
        if l.startswith('W '):
            parts = [x.strip() for x in l[2:].split(' | ')]
            if len(parts) >= 4:
                return {'input': parts[1][:200000], 'expected': parts[2], 'observed': parts[3],
                        'why': 'property clause "%s" fails on the implementation' % parts[0]}
        if l.startswith('O SANITIZER') or l.startswith('O ABORT'):
            return {'input': line[:200000], 'expected': 'no sanitizer report / assert', 'observed': l[2:],
                    'why': 'memory-safety failure on this input'}
    return None


def search(ctx):
    """Property predicates evaluated on the implementation only (harness mode `prop`)."""
    h = ctx.harness('c07_repack', ['c07_repack.c'], variant='san')
    n = 6000 if ctx.quick else 120000
    env = dict(os.environ)
    env.setdefault('ASAN_OPTIONS', 'detect_leaks=0:abort_on_error=0')
    wit, cases, distinct, samples = [], 0, 0, []
    runs = [('prop', str(ctx.seed + 11), str(n)), ('propenum', '0' if ctx.quick else '1')]
    for args in runs:
        p = subprocess.run([h] + list(args), stdout=subprocess.PIPE, stderr=subprocess.PIPE, text=True, env=env)
        last = ' '.join(args)
        for line in p.stdout.split('\n'):
            if line.startswith('J '):
                last = line[2:]
            elif line.startswith('W '):
                parts = [x.strip() for x in line[2:].split(' | ')]
                if len(parts) >= 4:
                    wit.append({'suite': 'repack-prop', 'input': parts[1][:200000], 'expected': parts[2], 'observed': parts[3],
                                'why': 'property clause "%s" fails on the implementation' % parts[0]})
            elif line.startswith('P '):
                m = re.search(r'cases=(\d+) distinct=(\d+)', line)
                cases += int(m.group(1)); distinct = max(distinct, int(m.group(2)))
                samples.append(line[2:])
            elif line.startswith('O SANITIZER') or line.startswith('O ABORT'):
                wit.append({'suite': 'repack-prop', 'input': last[:200000], 'expected': 'no sanitizer report / assert',
                            'observed': line[2:] + ' ' + p.stderr[-1500:],
                            'why': 'memory-safety failure (sanitizer report or hardening assert) on this input (%s)' % ' '.join(args)})
        if p.returncode != 0 and not wit:
            wit.append({'suite': 'repack-prop', 'input': ' '.join(args), 'expected': 'harness exits 0',
                        'observed': 'exit %d: %s' % (p.returncode, p.stderr[-1500:]), 'why': 'property harness crashed'})
    return {'cases': cases, 'distinct': distinct,
            'oracle': 'cat accepted iff parse ok, TOC-compatible and <= 120 ms; rejected cat leaves nb_frames and out() unchanged; '
                      'out/out_range output parses back to the selected frames byte for byte with the same config bits; exact size '
                      'suffices and reproduces the packet, exact size - 1 gives BUFFER_TOO_SMALL, no write past maxlen, <= 1277 per '
                      'frame; invalid ranges give BAD_ARG; the extensions read from the output padding are, per frame and in order, the caller\'s plus those of the selected frames renumbered, payloads identical; pad gives exactly new_len with the same frames (and same decode / final '
                      'range on a subsample); unpad <= len, same frames, idempotent, unpad(pad x) = unpad x; multistream per stream',
            'samples': samples, 'witnesses': wit}


LEVEL_TEXT = ('proof of the Lean transcription of src/repacketizer.c for the extension-free case: cat accepts exactly the valid, '
              'configuration-compatible packets within 120 ms and leaves the contents unchanged otherwise; the invariant holds over '
              'all op sequences; every emitted packet is the RFC serialisation of a valid packet holding exactly the selected '
              'frames and configuration bits (hence parses back, by the C06 completeness theorem), with exact size accounting '
              '(BUFFER_TOO_SMALL iff minimal size > maxlen, minimal among all valid packets with these frames, <= 1277 per frame); '
              'pad/unpad specs (exact new_len, canonical, idempotent, never longer); extension carriage at full strength (padding reads back, frame by frame, to the renumbered extension lists; repeats and pad flag included), malformed padding dropped; unpad / multistream unpad in place equal the pure model; integer ranges of the extension-free paths.  Tied to the code by differential op '
              'sequences under ASan/UBSan with exact byte comparison; built on C16\'s generate/parse round trip')
LEVEL_NOTE = ('trusted: Lean kernel; the correspondence harness and line protocol; bytes as naturals < 256; C int as unbounded Int; '
              'borrowed pointers modelled as owned copies (in-place overlap not modelled, compared by the tie)')
TECHNIQUE = 'Lean 4 theorems (emitted bytes = RFC serialiser spec of a valid packet, composed with C06) + differential correspondence + property search'
