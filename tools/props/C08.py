"""C08 — range coder: decode(encode(ops)) = ops, consistent bit accounting, no writes outside the buffer,
finishing within budget cannot fail (DESIGN.md §7.C08).

S3 ties (harness/c08_rangecoder.c vs. OpusModel.RangeCoder through Driver.SuiteRangeCoder):
  rangecoder-seq       generated op sequences: the complete coder state (rng,val,offs,end_offs,end_window,nend_bits,
                       nbits_total,rem,ext,error,ec_tell,ec_tell_frac) after ec_enc_init and after every op, after
                       ec_enc_done, the buffer with 16 trailing guard bytes, the final storage, and the same for the
                       decoder run on an exact-size copy of the first `storage` bytes (returned value + state per op)
  rangecoder-tellfrac  ec_tell / ec_tell_frac for l=24..32 x every 16-bit mantissa r x {low bits 0, all ones} x nbits_total
  rangecoder-ilog      EC_ILOG on 2^k-1, 2^k, 2^k+1, 1, 2^32-1 and random values
  rangecoder-codes     harness/c08_codes.c: ec_laplace_encode/decode and encode_pulses/decode_pulses through the real
                       range coder, mixed with plain calls (model: OpusModel.RangeCoderCodes): written-back Laplace
                       values, final encoder state, buffer, every decoded value, final decoder state
  rangecoder-silkframe harness/c08_silksyms.c: CHOSEN indices / pulses through the real silk_encode_indices + silk_encode_pulses
                       (state set up by the real silk_InitEncoder + silk_control_encoder) and the real range coder, read back
                       by the real silk_decode_indices + silk_decode_pulses; model: OpusModel.SilkSymsEnc (encoder side, C08)
                       against OpusModel.SilkSyms (C03's decoder model): coder state after the frame and after ec_enc_done,
                       buffer, every decoded index and pulse, final decoder state
  rangecoder-silkpacket harness/c08_silkpacket.c: the REAL silk_Encode on synthetic audio (mono/stereo, NB/MB/WB, 10-60 ms payloads,
                       LBRR on); link-time wrappers record what it decided to write (indices, pulses, predictors, mid-only flags,
                       patched flag word) in semantic form; model: OpusModel.SilkSymsEnc.packetOps (the order of enc_API.c) must
                       reproduce the exact bytes and final coder state; plus, model-free, the real silk_Decode run on those bytes
                       must read back exactly the recorded frames and end with the encoder's rng / ec_tell
  rangecoder-opusframe harness/c08_silkpacket.c mode `oframe`: the REAL opus_encode forced to SILK-only mode (VBR, FEC on in 60% of the
                       streams, mono/stereo, NB/MB/WB with bandwidth switches, 10-60 ms), same recording wrappers; model:
                       OpusModel.OpusFrameEnc.silkOnlyFrame (SILK payload, ret=(ec_tell+7)>>3, ec_enc_done, trailing-zero strip)
                       must reproduce the packet's payload bytes and OPUS_GET_FINAL_RANGE; packets to which the encoder appended
                       a 5 ms redundancy frame (bandwidth switch; both celt_to_silk values) are lines `oframer`: a wrapper around
                       celt_encode_with_ec records the frame's bytes R and the CELT encoder's final range, and the model
                       silkRedFrame (celt_to_silk bit, cut at (ec_tell+7)>>3 without strip, R behind, rangeFinal = rng ^ redundant_rng)
                       must reproduce payload and final range; plus, model-free, the real opus_decode on each packet must end
                       with the encoder's final range
S4 search: the property predicates evaluated on the implementation alone (harness modes `search` / `prop`):
  P1 round trip when the encoder reports no error, P2 tell/tell_frac bounds, monotonicity, range invariant and
  encoder/decoder agreement, P3 guard bytes and bytes beyond the current storage untouched, P4 tell <= 8*storage
  implies ec_enc_done succeeds."""
import glob, os, re, subprocess
import common

LEAN_MODULES = ['OpusProps.C08']
EXTENSIONS = ['C08hybrid']   # extension slices merged into this property's check (tools/EXT_BRIEF.md)
GEN = ['CeltTables', 'SilkEncBits']   # SilkEncBits: encoder-only SILK tables (rate-level bit costs, shell limits); the PVQ table and LAPLACE_* constants used by laplace_pvq_roundtrip (extractor shared with C17)
SOURCES = ['celt/entenc.c', 'celt/entdec.c', 'celt/entcode.c', 'celt/entcode.h', 'celt/entenc.h', 'celt/entdec.h',
           'celt/mfrngcod.h', 'celt/ecintrin.h', 'celt/arch.h', 'celt/laplace.c', 'celt/laplace.h', 'celt/cwrs.c', 'celt/cwrs.h',
           'celt/quant_bands.c', 'celt/rate.c', 'celt/rate.h', 'celt/modes.c', 'celt/static_modes_float.h',
           'silk/enc_API.c', 'silk/dec_API.c', 'silk/encode_indices.c', 'silk/encode_pulses.c', 'silk/shell_coder.c',
           'silk/code_signs.c', 'silk/stereo_encode_pred.c', 'silk/NLSF_unpack.c', 'silk/decode_indices.c', 'silk/decode_pulses.c',
           'silk/tables_pulses_per_block.c', 'silk/tables_other.c', 'silk/tables_gain.c', 'silk/tables_pitch_lag.c', 'silk/tables_LTP.c',
           'silk/tables_NLSF_CB_NB_MB.c', 'silk/tables_NLSF_CB_WB.c', 'silk/control_codec.c', 'silk/decoder_set_fs.c', 'silk/define.h',
           'src/opus_encoder.c', 'src/opus_decoder.c', 'silk/stereo_decode_pred.c', 'silk/decode_frame.c', 'silk/float/encode_frame_FLP.c', 'silk/fixed/encode_frame_FIX.c', 'silk/stereo_LR_to_MS.c',
           'celt/celt_encoder.c', 'celt/celt_decoder.c', 'celt/bands.c']   # the last three: through C17's / C03's CELT models in opus_frame_lockstep_silk_red_celt
REQUIRED_THEOREMS = ['OpusProps.C08.rng_normalised', 'OpusProps.C08.tell_frac_bounds', 'OpusProps.C08.tell_frac_formula',
                     'OpusProps.C08.tell_monotone', 'OpusProps.C08.decode_encode', 'OpusProps.C08.lockstep_rng',
                     'OpusProps.C08.decode_encode_patched', 'OpusProps.C08.done_within_budget',
                     'OpusProps.C08.outside_untouched', 'OpusProps.C08.lockstep_symbols', 'OpusProps.C08.silk_flags_roundtrip', 'OpusProps.C08.laplace_pvq_roundtrip',
                     'OpusProps.C08.tell_contracts', 'OpusProps.C08.bytes_below_tell', 'OpusProps.C08.silk_syms_roundtrip_frame', 'OpusProps.C08.silk_syms_roundtrip', 'OpusProps.C08.opus_frame_lockstep_silk', 'OpusProps.C08.opus_frame_lockstep_silk_red',
                     'OpusProps.C08.opus_frame_lockstep_silk_red_celt', 'OpusProps.C08.opus_frame_lockstep_hybrid',
                     'OpusProps.C08.patched_equals_true_bits', 'OpusProps.C08.opus_frame_lockstep_hybrid_celt',
                     'OpusProps.C08.opus_frame_lockstep_celt', 'OpusProps.C08.opus_frame_lockstep']
UNPROVED = []
RULE = ('op sequences of length 1..4000 over all nine operation kinds (ec_encode, ec_encode_bin, ec_enc_bit_logp, ec_enc_icdf, '
        'ec_enc_icdf16, ec_enc_uint, ec_enc_bits, ec_enc_patch_initial_bits, ec_enc_shrink) drawn from the seed by a '
        'profile-driven generator (all-kinds mix, mostly raw bits, mostly symbols, mostly uint, top-of-range symbols with '
        'tiny probabilities forcing 0xFF runs and carry propagation, logp=15 bits, patch-style streams, near-certain symbols) '
        'with boundary emphasis on every parameter (ft 1,2,255,256,257,65535,65536; bits 1,8,16; logp 1,15; uint ft 2..2^32-1 '
        'and v=0,ft-1; raw 1,8,24,25 bits; buffer sizes 1..1275 with emphasis on 1,2,3,4,5,8,16,1274,1275); the generator '
        'dry-runs the real encoder so that about a third of the sequences fill the buffer exactly up to the budget, a third '
        'overflow it and the rest are length-driven; every sequence is legal (parameters in the documented domain). '
        'A case is one sequence (tie: every intermediate state compared; search: predicates P1..P4); classes counted as '
        'distinct: tie = (generator profile, encoder outcome ok/err) plus the tell_frac/ilog tables, search = (profile, '
        'buffer-size class, outcome, length class) combinations actually observed. '
        'SILK symbol layer (rangecoder-silkframe): one frame per case, generated in the encoder\'s domain — all three rates, 10/20 ms, LBRR '
        'flag, all three condCoding values, previous signal type / lag, every signal type, gains / NLSF / LTP / contour indices with '
        'boundary emphasis (0, max), NLSF residuals with extension symbols at both ends, lags near the previous lag (delta coding, both '
        'edges -8 / +11) and absolute, pulses per 16-sample block from profiles (empty, sparse +-1, dense small, sums at the shell limits '
        '8/10/12/16, isolated large values, full-range +-127), buffer sizes from too small (error path) to 1275. '
        'SILK payloads (rangecoder-silkpacket): streams of 3..14 packets from the real silk_Encode on generated audio segments (silence, '
        'noise, harmonic, chirp; stereo identical / scaled / independent / inverted channels), mono and stereo, NB/MB/WB, 10/20/40/60 ms, '
        'bitrates 6..40 kb/s per channel, complexity 0..10, LBRR on in 70% of the streams; a case is one packet. '
        'Opus frames (rangecoder-opusframe): streams of 3..12 packets from the real opus_encode forced to SILK-only (16 kHz input, VBR, '
        'mono / stereo, NB/MB/WB with a bandwidth change before 20% of the packets — these bring the 5 ms redundancy frames, both '
        'celt_to_silk values —, 10/20/40/60 ms, FEC on in 60% of the streams, max_data_bytes 1276 or 150..400, caller buffer '
        'pre-filled); a case is one packet; classes: without / with redundancy frame')
NOT_COVERED = [
    'ec_enc_patch_initial_bits in the round-trip clause is proved (decode_encode_patched) and searched for patch-style '
    'streams only (first op ec_encode_bin(fl,fl+1,n) with 1<=n<=8, patches of the same n): a patch of bits that were not '
    'coded with a power-of-two probability has no defined decoded meaning (entenc.h); other sequences containing a patch are '
    'still compared state by state against the model, checked for P2..P4 and covered by outside_untouched; the SILK usage '
    '(placeholder ec_enc_icdf symbol + patch, decoder reads k single bits) is proved (silk_flags_roundtrip) but has no '
    'correspondence run of its own (its calls are covered op by op by rangecoder-seq)',
    'composition with C17 (laplace_pvq_roundtrip): proved for the calls ec_laplace_encode/decode and encode_pulses/decode_pulses; '
    'the surrounding CELT band loops (quant_coarse_energy, quant_band) are not modelled; the correspondence run rangecoder-codes '
    'uses N <= 22, K <= 5 and Laplace pairs on the 128/64 grid, the theorem covers every reachable (N,K) and every LaplaceOk pair',
    'composition with C03 (silk_syms_roundtrip): proved for normal decoding (lostFlag = 0: the LBRR data is read and dropped); the FEC '
    'path of silk_Decode (lostFlag = 2, which reads only the LBRR frames and stops in the middle of the payload) has no round-trip '
    'theorem; the rate-control loop of silk_encode_frame (re-coding a frame from a saved coder state) is outside the model — the '
    'model describes the operations that end up in the stream, and rangecoder-silkpacket skips (and counts) packets in which a frame '
    'was coded more than once; DTX / zero-length payloads and the redundancy / hybrid hand-over behind the SILK data are not modelled '
    'on the encoder side; pulses of value -128 (opus_int8 minimum, which (opus_int8)silk_abs mangles) are outside PulsesOk',
    'frame-level lock step (opus_frame_lockstep_silk / _silk_red / _hybrid): theorems about the op-level models of '
    'opus_encode_frame_native (OpusModel/OpusFrameEnc.lean) and C03\'s decodeOpusFrame; the SILK-only models (silkOnlyFrame, and '
    'silkRedFrame with the redundancy frame\'s bytes and final range as inputs) have a correspondence run (rangecoder-opusframe: real '
    'opus_encode payload bytes and final range); '
    'hybridFrame has none (the implementation side of "decoder final range = encoder final range" is C02\'s lock-step search and '
    'C03\'s ties); the CELT '
    'symbol layer enters the _silk_red and _hybrid theorems only through the hypothesis CeltFrameRT; C17\'s celt_frame_roundtrip '
    'discharges it (non-silent CELT frames only; a silent redundancy frame — the `ff fe` packets — is not covered) for the redundancy frame '
    'of a SILK-only packet (opus_frame_lockstep_silk_red_celt), for the CELT part of a hybrid frame WITHOUT redundancy '
    '(opus_frame_lockstep_hybrid_celt: C17\'s `World` is a legal run, the patched SILK prefix is replaced by the patch-free run '
    'with the same output, patched_equals_true_bits) and for CELT-only frames (opus_frame_lockstep_celt); opus_frame_lockstep is the '
    'statement over these four frame kinds. For a hybrid frame WITH redundancy the CELT main part remains the hypothesis CeltFrameRT: '
    'C03\'s decoder is initialised on main part ++ redundancy bytes and may have read into the latter before `storage -= redundancy_bytes`, '
    'a state C17\'s World (initialised on the main part alone) does not start from. In the discharged theorems the CELT decisions are '
    'inputs of C17\'s encoder model (its hypotheses are bundled as OwnCoderFrame / HybridCelt), nbits_total < 2^29 where a World is built; '
    'in opus_frame_lockstep_hybrid the CELT encoder\'s operations on the shared coder are an input (`celtOps`); the decoder-side length '
    'tests (hgate, hsane) are hypotheses — the contracts C02\'s redundancy_mirror theorems derive from the encoder skeleton; '
    'the "SILK busted its target" fallback, DTX, DRED and the CELT-only mode are outside these theorems',
    'the non-table `#else` variant of ec_tell_frac and USE_SMALL_DIV_TABLE (not compiled on this target)',
    'streams longer than 4000 operations and buffers larger than 1275 bytes (the Lean theorems are not length-bounded; '
    'the correspondence run is)',
]
ASSUMPTIONS = [
    'operations are called with legal parameters (the Op.Legal domain: ft<=2^16, bits<=16, logp<=15, icdf tables strictly '
    'decreasing and 0-terminated with first entry < 2^ftb, 1..25 raw bits, uint ft in 2..2^32-1, shrink sizes in '
    '[offs+end_offs, storage]); illegal parameters hit celt_assert and are outside the property',
    'the decoder is given exactly the first `storage` bytes the encoder finished (exact-size heap block under ASan) and '
    'mirrors the encoder call sequence with the same tables and parameters',
    'the number of carry-pending 0xFF bytes stays below 2^32 (ext counter), guaranteed by buffer sizes <= 1275',
    'frame-level theorems: ec_enc_done leaves error = 0 and ec_tell <= 8*(max_data_bytes-1) (the encoder\'s normal path); for '
    'patch-free runs the former follows from the latter (done_within_budget), for the patched SILK run it is kept as a hypothesis',
    'theorem hypothesis nbits_total < 2^32 (decode_encode, lockstep_rng, decode_encode_patched and the theorems built on them): '
    'nbits_total is a C int, an execution reaching 2^31 is signed overflow (undefined behaviour), so the hypothesis only '
    'says the C type range was respected; it is derived from size <= 5*10^8 in done_within_budget; the caller buffer '
    'holds bytes (values < 256) and is at least `size` long',
]
LEVEL_TEXT = ('proof about an executable Lean transcription of entenc.c / entdec.c / entcode.c (struct ec_ctx field by field, '
              'opus_uint32 arithmetic modulo 2^32 made explicit), tied to the code by a differential run that compares the '
              'complete coder state after every operation, the output buffer with guard bytes, and every decoded value, '
              'under ASan/UBSan; plus a model-free search of the property predicates on the implementation')
LEVEL_NOTE = ('trusted: Lean kernel; the correspondence harness, the line protocol and the Lean driver; C int fields '
              'nbits_total / nend_bits modelled as Nat (they never go negative on legal inputs), rem / error as Int')
TECHNIQUE = 'Lean 4 theorems on an executable range-coder model + state-by-state differential correspondence + predicate search'

QUICK_SEQ, THOROUGH_SEQ = 20000, 300000
QUICK_SEARCH, THOROUGH_SEARCH = 60000, 1000000
QUICK_CODES, THOROUGH_CODES = 6000, 120000
QUICK_SFRAME, THOROUGH_SFRAME = 3000, 60000
QUICK_SPACKET, THOROUGH_SPACKET = 300, 5000     # streams of 3..14 packets
QUICK_OFRAME, THOROUGH_OFRAME = 200, 2000       # streams of 3..12 packets
SPACKET_WRAP = ['-Wl,' + ','.join('--wrap=' + f for f in ('silk_encode_indices', 'silk_encode_pulses', 'silk_stereo_encode_pred',
                                                            'silk_stereo_encode_mid_only', 'ec_enc_patch_initial_bits',
                                                            'silk_decode_indices', 'silk_decode_pulses', 'celt_encode_with_ec'))]
PENDING_FF = 'carry-pending 0xFF'


def _harness(ctx):
    return ctx.harness('c08_rangecoder', ['c08_rangecoder.c'], variant='san')


def _env():
    e = dict(os.environ)
    e.setdefault('ASAN_OPTIONS', 'detect_leaks=0:abort_on_error=0')
    e.setdefault('UBSAN_OPTIONS', 'print_stacktrace=1')
    return e


def _short(s, n=400):
    return s if len(s) <= n else s[:n] + ' ...[%d chars]' % len(s)


def _tidy(tr, collapse=None):
    """Keep the evidence file small: whole answers are used as distribution keys by the driver for
    answers without a space (tf / ilog), and SAMPLE lines carry complete state traces."""
    tr.samples = [_short(s) for s in tr.samples]
    if collapse:
        tr.dist = {collapse: sum(tr.dist.values())} if tr.dist else {}
    for note in tr.notes:
        m = re.match(r'profiles \(cases/ok\) (.*)', note)
        if m:   # measured (profile, outcome) classes of the generated sequences
            for name, n, ok in re.findall(r'(\w+):(\d+)/(\d+)', m.group(1)):
                if int(ok):
                    tr.dist['profile:%s:ok' % name] = int(ok)
                if int(n) - int(ok):
                    tr.dist['profile:%s:err' % name] = int(n) - int(ok)
    return tr


def ties(ctx):
    h = _harness(ctx)
    out = []
    n = QUICK_SEQ if ctx.quick else THOROUGH_SEQ
    out.append(_tidy(common.run_tie('rangecoder-seq', [h, 'rand', str(ctx.seed), str(n)])))
    out.append(_tidy(common.run_tie('rangecoder-tellfrac', [h, 'tf', '0' if ctx.quick else '1']), 'rangecoder:tf:table-line'))
    out.append(_tidy(common.run_tie('rangecoder-ilog', [h, 'ilog', str(ctx.seed)]), 'rangecoder:ilog:line'))
    hc = ctx.harness('c08_codes', ['c08_codes.c'], variant='san')
    out.append(_tidy(common.run_tie('rangecoder-codes', [hc, 'rand', str(ctx.seed), str(QUICK_CODES if ctx.quick else THOROUGH_CODES)]),
                     'rangecoder:cseq:line'))
    hs = ctx.harness('c08_silksyms', ['c08_silksyms.c'], variant='san')
    out.append(_tidy(common.run_tie('rangecoder-silkframe', [hs, 'rand', str(ctx.seed), str(QUICK_SFRAME if ctx.quick else THOROUGH_SFRAME)]),
                     'rangecoder:sframe:line'))
    hp = ctx.harness('c08_silkpacket', ['c08_silkpacket.c'], variant='san', extra=SPACKET_WRAP)
    out.append(_tidy(common.run_tie('rangecoder-silkpacket', [hp, 'rand', str(ctx.seed), str(QUICK_SPACKET if ctx.quick else THOROUGH_SPACKET)]),
                     'rangecoder:spacket:line'))
    out.append(_tidy(common.run_tie('rangecoder-opusframe', [hp, 'oframe', str(ctx.seed), str(QUICK_OFRAME if ctx.quick else THOROUGH_OFRAME)]),
                     None))
    return out


def _prop(ctx, lines):
    """Evaluate the property predicates on the implementation for `rangecoder seq` lines."""
    p = subprocess.run([_harness(ctx), 'prop'], input='\n'.join(lines) + '\n', stdout=subprocess.PIPE,
                       stderr=subprocess.PIPE, text=True, env=_env())
    res = [l for l in p.stdout.split('\n') if l.startswith('P ')]
    return res, p.stderr


def _split_detail(detail):
    m = re.search(r'expected (.*?) observed (.*?)(?:\]| \{note|$)', detail)
    return (m.group(1), m.group(2)) if m else ('the property predicate holds', detail)


def _suite_of(details, default):
    """Failures caused by a patch applied while the first byte is a buffered 0xFF get their own suite name
    (so that a recorded finding can be matched without masking anything else)."""
    if isinstance(details, str):
        note = PENDING_FF in details
        details = re.findall(r'\[([^\]]*)\]', details)
    else:
        note = any(PENDING_FF in d for d in details)
    if note and details and all(d.startswith('P1 roundtrip') or d.startswith('P2 enc/dec agree') for d in details):
        return 'rangecoder-patch-pending-ff'
    return default


def _tf_witness(tie, mm):
    """ec_tell_frac predicates that need no model: 8*tell-7 <= tell_frac <= 8*tell, and tell_frac does not
    increase when rng grows (the impl column lists ascending rng at fixed nbits_total)."""
    prev = None
    try:
        vals = [tuple(int(x) for x in e.split(':')) for e in mm.get('impl', '').split(',')]
    except ValueError:
        return None
    for i, (t, tf) in enumerate(vals):
        if not (8 * t - 7 <= tf <= 8 * t):
            return {'suite': tie.name, 'input': mm.get('input', ''), 'expected': '8*tell-7 <= tell_frac <= 8*tell',
                    'observed': 'entry %d: tell=%d tell_frac=%d' % (i, t, tf),
                    'why': 'ec_tell_frac is not within one bit below 8*ec_tell for this (rng, nbits_total)'}
        if prev is not None and tf > prev:
            return {'suite': tie.name, 'input': mm.get('input', ''), 'expected': 'tell_frac non-increasing in rng',
                    'observed': 'entry %d: tell_frac=%d after %d' % (i, tf, prev),
                    'why': 'a smaller range must never report fewer fractional bits (the fractional count would decrease '
                           'after coding a symbol)'}
        prev = tf
    return None


def _codes_witness(tie, mm):
    """Round-trip predicate on the implementation's own answer for a `cseq` line: every decoded value is the encoded one
    (Laplace: the value ec_laplace_encode wrote back; pulses: the vector; ec_decode*: inside [fl, fh))."""
    inp, impl = mm.get('input', ''), mm.get('impl', '')
    m = re.match(r'rangecoder cseq (\d+) (\d+) (\S+)', inp)
    a = re.match(r'ok W (\S+) D \S+ B \S+ X (\S+) Y (\S+)', impl)
    if impl in ('SANITIZER', 'ABORT', 'SIGSEGV'):
        return {'suite': tie.name, 'input': inp, 'expected': 'legal coding steps run to completion', 'observed': impl,
                'why': 'sanitizer report / celt_assert while coding or decoding legal Laplace / PVQ steps: '
                + ' | '.join(mm.get('sanitizer_report', [])[:6])}
    if m and impl.startswith('ok W') and ' Y ' not in impl:
        return {'suite': tie.name, 'input': inp, 'expected': 'the decoder side runs to completion on a stream ec_enc_done finished without error',
                'observed': 'answer ends at: ...' + impl[-120:],
                'why': 'the decoder side stopped (celt_assert / sanitizer) while decoding legal Laplace / PVQ steps'}
    if not m or not a:
        return None
    codes, wb, dec = m.group(3).split(';'), ([] if a.group(1) == '-' else a.group(1).split(',')), a.group(2).split('|')
    if len(dec) != len(codes):
        return None
    wi = 0
    for k, (c, d) in enumerate(zip(codes, dec)):
        f = c.split(':')
        exp = None
        if f[0] == 'L':
            exp = 'L' + wb[wi] if wi < len(wb) else None; wi += 1
        elif f[0] == 'P':
            exp = 'P' + f[2]
        elif f[0] in 'lur':
            exp = 'S' + f[1]
        elif f[0] in 'eb':
            if not (d.startswith('S') and int(f[1]) <= int(d[1:]) < int(f[2])):
                exp = 'S in [%s,%s)' % (f[1], f[2])
            else:
                continue
        if exp is not None and d != exp:
            return {'suite': tie.name, 'input': inp, 'expected': 'step #%d %s decodes to %s' % (k, c, exp), 'observed': d,
                    'why': 'ec_enc_done reported no error but the decoder side returned a different value'}
    return None


def _silk_witness(tie, mm):
    """Round-trip predicates on the implementation's own answers for the SILK symbol-layer ties."""
    inp, impl = mm.get('input', ''), mm.get('impl', '')
    if impl in ('SANITIZER', 'ABORT', 'SIGSEGV'):
        return {'suite': tie.name, 'input': _short(inp, 3000), 'expected': 'inputs in the encoder\'s domain are coded and decoded to completion',
                'observed': impl, 'why': 'sanitizer report / celt_assert in the SILK symbol layer on legal indices / pulses: '
                + ' | '.join(mm.get('sanitizer_report', [])[:6])}
    if tie.name == 'rangecoder-opusframe':
        m = re.search(r' F (\d+) R diff:(\S+)', impl)
        if m:
            return {'suite': tie.name, 'input': _short(inp, 3000), 'expected': 'the real opus_decode decodes the packet and ends with the final range '
                    'the real opus_encode reports: ' + m.group(1), 'observed': m.group(2),
                    'why': 'encoder and decoder final range differ on a SILK-only packet (no model involved; opus_decode = its return value)'}
        return None
    if tie.name == 'rangecoder-silkpacket':
        m = re.search(r' R (diff\S*)(.*)$', impl)
        if m:
            return {'suite': tie.name, 'input': _short(inp, 3000), 'expected': 'the real silk_Decode reads back, frame by frame, the indices and pulses '
                    'the real silk_Encode wrote, and ends with its rng / ec_tell', 'observed': _short(m.group(1) + m.group(2), 1500),
                    'why': 'real encoder and real decoder disagree on a SILK payload (no model involved): diff@<k> = first differing frame in '
                           'call order, 1000+c = silk_Decode call c failed, 2000+n = n frames read instead of the number written, 3000 = final range / tell'}
        return None
    f = inp.split(' ')
    a = re.match(r'ok E \S+ D \S+ B \S+ X (\S+) P (\S+) Y \S+', impl)
    if len(f) != 12 or not a:
        if impl.startswith('ok E') and ' Y ' not in impl:
            return {'suite': tie.name, 'input': _short(inp, 3000), 'expected': 'the decoder side runs to completion on a stream ec_enc_done finished without error',
                    'observed': 'answer ends at: ...' + impl[-120:], 'why': 'the real silk_decode_indices / silk_decode_pulses stopped on legal input'}
        return None
    ix, pulses = f[10], [int(x) for x in f[11].split(',')]
    dec = [int(x) for x in a.group(2).split(',')]
    if a.group(1) != ix:
        return {'suite': tie.name, 'input': _short(inp, 3000), 'expected': 'silk_decode_indices returns the indices silk_encode_indices wrote: ' + ix,
                'observed': a.group(1), 'why': 'ec_enc_done reported no error but the real decoder returned different side-information indices'}
    if dec[:len(pulses)] != pulses or any(dec[len(pulses):]):
        k = next((i for i, (x, y) in enumerate(zip(dec, pulses + [0] * len(dec))) if x != y), -1)
        return {'suite': tie.name, 'input': _short(inp, 3000), 'expected': 'silk_decode_pulses returns the pulses silk_encode_pulses wrote',
                'observed': 'first difference at sample %d: decoded %s, encoded %s' % (k, dec[k] if 0 <= k < len(dec) else '?', (pulses + [0] * len(dec))[k] if k >= 0 else '?'),
                'why': 'ec_enc_done reported no error but the real decoder returned different excitation pulses'}
    return None


def classify(ctx, tie, mm):
    inp = mm.get('input', '')
    if tie.name in ('rangecoder-silkframe', 'rangecoder-silkpacket', 'rangecoder-opusframe'):
        return _silk_witness(tie, mm)
    if tie.name == 'rangecoder-tellfrac':
        return _tf_witness(tie, mm)
    if tie.name == 'rangecoder-codes':
        return _codes_witness(tie, mm)
    if tie.name != 'rangecoder-seq' or not inp.startswith('rangecoder seq'):
        return None
    if mm.get('impl') in ('SANITIZER', 'ABORT', 'SIGSEGV'):
        return {'suite': tie.name, 'input': inp, 'expected': 'legal operations run to completion inside the buffer',
                'observed': mm.get('impl'), 'why': 'sanitizer report / hardening assertion while coding a legal op sequence: '
                + ' | '.join(mm.get('sanitizer_report', [])[:6])}
    res, err = _prop(ctx, [inp])
    if res and res[0].startswith('P FAIL'):
        d = res[0][7:]
        exp, obs = _split_detail(d)
        return {'suite': _suite_of(d, tie.name), 'input': inp, 'expected': exp, 'observed': obs,
                'why': 'the implementation violates the property on this input (model-free predicates): ' + _short(d, 1500)}
    return None


def _parse_w(lines, default_suite):
    by_input = {}
    for l in lines:
        if not l.startswith('W '):
            continue
        inp, _, detail = l[2:].partition(' :: ')
        by_input.setdefault(inp, []).append(detail.strip())
    out = []
    for inp, ds in by_input.items():
        joined = ' ; '.join(ds)
        exp, obs = _split_detail(ds[0])
        out.append({'suite': _suite_of(ds, default_suite), 'input': inp, 'expected': exp,
                    'observed': obs, 'why': _short(joined, 2000)})
    return out


def search(ctx):
    h = _harness(ctx)
    n = QUICK_SEARCH if ctx.quick else THOROUGH_SEARCH
    witnesses, cases, distinct, samples, notes = [], 0, 0, [], []
    # recorded inputs first
    cdir = os.path.join(common.VERIF, 'corpus', 'C08')
    if os.path.isdir(cdir):
        lines = []
        for f in sorted(glob.glob(os.path.join(cdir, '*.txt'))):
            lines += [l.strip() for l in open(f) if l.strip().startswith(('rangecoder seq', 'I rangecoder seq'))]
        if lines:
            res, err = _prop(ctx, lines)
            cases += len(res)
            for l, r in zip(lines, res):
                if r.startswith('P FAIL'):
                    exp, obs = _split_detail(r[7:])
                    witnesses.append({'suite': _suite_of(r[7:], 'rangecoder-corpus'), 'input': l[2:] if l.startswith('I ') else l,
                                      'expected': exp, 'observed': obs, 'why': _short(r[7:], 2000)})
            notes.append('corpus: %d recorded sequences replayed' % len(res))
    seed = (ctx.seed * 1000003 + 0xC08) & ((1 << 63) - 1)
    p = subprocess.run([h, 'search', str(seed), str(n)], stdout=subprocess.PIPE, stderr=subprocess.PIPE, text=True, env=_env())
    out = p.stdout.split('\n')
    summ = None
    for l in out:
        if l.startswith('# search '):
            summ = l
        elif l.startswith('# '):
            notes.append(l[2:])
    ws = _parse_w(out, 'rangecoder-search')
    witnesses += ws
    if summ:
        m = re.search(r'cases=(\d+) ok_roundtrips=(\d+) errors=(\d+) ops=(\d+) distinct=(\d+)', summ)
        cases += int(m.group(1)); distinct = int(m.group(5))
        notes.append(summ[2:])
    elif not any('TRAP' in w['why'] for w in ws):
        raise RuntimeError('search harness ended without a summary (rc=%d): %s' % (p.returncode, p.stderr[-1500:]))
    for w in ws:
        if 'TRAP' in w['why']:
            w['why'] += ' | ' + ' | '.join(l for l in p.stderr.split('\n') if 'ERROR' in l or 'runtime error' in l or l.startswith('SUMMARY'))[:1200]
    witnesses.sort(key=lambda w: w['suite'] == 'rangecoder-patch-pending-ff')   # anything else first
    # a few generated inputs, written out
    q = subprocess.run([h, 'rand', str(seed), '3'], stdout=subprocess.PIPE, stderr=subprocess.DEVNULL, text=True, env=_env())
    samples = [_short(l[2:]) for l in q.stdout.split('\n') if l.startswith('I ')]
    return {'cases': cases, 'distinct': distinct,
            'oracle': 'implementation only: P1 decoded values = encoded values and decoder error 0 whenever ec_enc_done leaves '
                      'error 0 (patch-style streams: first symbol = last patched value); P2 8*tell-7 <= tell_frac <= 8*tell, tell and '
                      'tell_frac non-decreasing, 2^23 < rng <= 2^31 after every op on both sides, encoder and decoder rng/tell/'
                      'tell_frac equal after every op; P3 16+16 guard bytes and all bytes at index >= current storage unchanged by '
                      'every op and by ec_enc_done, decoder does not write; P4 ec_tell <= 8*storage before ec_enc_done implies error 0 after',
            'seed': seed, 'notes': notes[:12], 'samples': samples, 'witnesses': witnesses}


def replay(ctx, obj):
    """Re-run the recorded input: property predicates on the implementation, and implementation vs. model."""
    inputs = [obj.get('input', '')] + [w.get('input', '') for w in obj.get('other_witnesses', [])]
    inputs = [i for i in inputs if i.startswith('rangecoder ')]
    if not inputs:
        print('replay: no recorded input (kind=%s); re-run: python3 tools/check.py C08 --tier %s' % (obj.get('kind'), obj.get('tier', 'quick')))
        for pb in obj.get('no_longer_checks', [])[:5]:
            print('  ' + _short(str(pb), 600))
        return 1
    common.lake_build(['opusmodel'])
    h = _harness(ctx)
    rc = 0
    for inp in inputs:
        print('input: ' + _short(inp, 300))
        if inp.startswith('rangecoder seq'):
            res, err = _prop(ctx, [inp])
            verdict = res[0] if res else 'P ? (no answer) ' + err[-300:]
            print('  property predicates on the implementation: ' + _short(verdict, 1200))
            if not verdict.startswith('P OK'):
                rc = 1
        op = inp.split(' ')[1] if ' ' in inp else ''
        if op in ('spacket', 'oframe', 'oframer'):
            print('  a `spacket` / `oframe` record is what the real encoder decided to write for generated audio; it cannot be fed back into the '
                  'encoder. Re-run: python3 tools/check.py C08 --tier %s (VERIF_SEED=%s)' % (obj.get('tier', 'quick'), obj.get('seed', 1)))
            rc = 1
            continue
        hx = (ctx.harness('c08_silksyms', ['c08_silksyms.c'], variant='san') if op == 'sframe' else
              ctx.harness('c08_codes', ['c08_codes.c'], variant='san') if op == 'cseq' else h)
        hp = subprocess.run([hx, 'stdin'], input=inp + '\n', stdout=subprocess.PIPE, stderr=subprocess.PIPE, text=True, env=_env())
        if op == 'sframe':
            w = None
            for l in hp.stdout.split('\n'):
                if l.startswith('O '):
                    class _T: name = 'rangecoder-silkframe'
                    w = _silk_witness(_T, {'input': inp, 'impl': l[2:]})
            print('  round trip on the implementation (real encoder -> real decoder): ' + ('DIFFERS: %s / %s' % (w['expected'][:160], w['observed'][:160]) if w else 'ok'))
            if w:
                rc = 1
        dp = subprocess.run([common.driver_path(), 'check'], input=hp.stdout, stdout=subprocess.PIPE, text=True)
        m = re.search(r'SUMMARY cases=(\d+) mismatches=(\d+)', dp.stdout)
        if not m or int(m.group(1)) == 0:
            print('  model vs implementation: not compared (%s)' % _short(hp.stdout + hp.stderr, 300))
            rc = 1
        else:
            print('  model vs implementation: %s' % ('agree' if m.group(2) == '0' else 'DIFFER'))
            if m.group(2) != '0':
                rc = 1
                for l in dp.stdout.split('\n'):
                    if l.startswith('  impl:') or l.startswith('  model:'):
                        print('  ' + _short(l, 400))
    print('VIOLATION property=C08 (replayed)' if rc else 'OK property=C08 (replayed input no longer fails)')
    return rc
