"""C03 extension, slice SilkCore — the SILK frame synthesis at the internal rate (silk_decode_parameters, silk_decode_core and
the good-frame path of silk_decode_frame) as a frozen bit-exact Lean reference, tied integer-for-integer to the library on decoder
states reached by decoding real streams and on random in-range parameter sets."""
import os, re, subprocess
import common

LEAN_MODULES = ['OpusProps.C03SilkCore']
GEN = ['SilkCoreTabs', 'SilkNlsf']
SOURCES = ['silk/decode_core.c', 'silk/decode_parameters.c', 'silk/decode_frame.c', 'silk/LPC_analysis_filter.c',
           'silk/bwexpander.c', 'silk/gain_quant.c', 'silk/NLSF_decode.c', 'silk/NLSF2A.c', 'silk/NLSF_stabilize.c',
           'silk/decode_pitch.c', 'silk/tables_LTP.c', 'silk/tables_other.c', 'silk/decoder_set_fs.c', 'silk/init_decoder.c',
           'silk/macros.h', 'silk/SigProc_FIX.h', 'silk/Inlines.h', 'silk/define.h', 'silk/structs.h', 'silk/main.h']
RULE = ('(stream) every good SILK frame the real decoder decodes from packets of the real encoder (SILK-only, internal rate 8 / 12 / '
        '16 kHz, 10 / 20 / 40 / 60 ms packets, mono / stereo, VBR / CBR, DTX, in-band FEC decoded after a simulated loss, lost '
        'packets concealed, mid-stream bandwidth switches = decoder resets) and from packets whose payload is random bytes: the '
        'complete input of the frame (state members, indices, pulses) is recorded before silk_decode_parameters, and the decoder '
        'control block, LastGainIndex, prevNLSF_Q15, NLSFInterpCoef_Q2, PERIndex after silk_decode_parameters, xq[], sLPC_Q14_buf, '
        'outBuf, exc_Q14, prev_gain_Q16, LTPCoef_Q14, pitchL after silk_decode_core, outBuf after the buffer update and lagPrev at '
        'the return of silk_decode_frame are compared exactly; (rand) random states (full-scale and saturating histories, any '
        'loss / reset / previous-type status) with random in-range index sets and pulses up to +/-17000 through '
        'silk_decode_parameters + silk_decode_core called directly; both under ASan+UBSan and in the plain build. The harness '
        'prints how many cases fall in each class (rate, 10/20 ms, signal type, after loss, first after reset, voiced-PLC-to-unvoiced '
        'transition, NLSF interpolation, k=2 re-whitening, conditional coding, saturated output)')
NOT_COVERED = ['silk_PLC (concealment and the PLC state update on good frames), silk_CNG and silk_PLC_glue_frames, which post-process '
               'pOut after the frame synthesis (slice SilkPlc / property C18 index safety); stereo un-mixing and resampling '
               '(slices SilkApi / SilkResamp)',
               'the symbol layer that delivers indices and pulses (C03 stage 1) and the dequantiser internals re-used from C18\'s '
               'model (NLSF decode, NLSF2A, gains, pitch): their theorems live in OpusProps.C03 / OpusProps.C18',
               'silk_ADD_LSHIFT32( pexc_Q14[i], LTP_pred_Q13, 1 ) (decode_core.c:193) is a plain signed addition: the model '
               'reduces it mod 2^32 and counts the events; that it cannot overflow on decodable streams is not proved (the tie runs '
               'under UBSan)']
ASSUMPTIONS = ['the decoder state handed to a frame satisfies the invariant StateOk (buffer lengths, fs_kHz in {8,12,16}, nb_subfr in '
               '{2,4}, prev_gain_Q16 != 0, lagPrev in the legal lag range when a loss preceded); the state after reset / after a '
               'lost frame is produced by code outside this slice and is checked by the tie on real histories only',
               'x86-64 gcc: casts to narrower integers truncate, >> on negative values is arithmetic']
LEVEL_TEXT = ('bit-exact executable Lean model of silk_decode_parameters, silk_decode_core (incl. silk_LPC_analysis_filter, '
              'silk_bwexpander, silk_DIV32_varQ, silk_INVERSE32_varQ, 32-bit wrap-around and saturation made explicit) and of the '
              'good-frame path of silk_decode_frame; the LTP codebooks / offsets / constants the model reads are FROZEN copies '
              '(OpusModel/SilkCoreFrozen.lean), proved equal to the values regenerated from the source on every run; '
              'theorems for all states and inputs about the model (see REQUIRED_THEOREMS); tied by exact comparison of every '
              'output sample and every state member on frames of real encoder streams and random in-range parameter sets under '
              'ASan/UBSan')
LEVEL_NOTE = ('trusted: Lean kernel; harness hooks (the repo\'s decode_frame.c compiled in the harness with its four callees renamed to '
              'recording wrappers that call the library) and line protocol; the reading of the OPUS_FAST_INT64 macro variants')
TECHNIQUE = 'Lean 4 theorems over an executable bit-exact model + differential correspondence (outputs and post-state) + implementation-only search'

REQUIRED_THEOREMS = ['OpusProps.C03SilkCore.' + t for t in (
    'core_output_int16', 'tables_frozen_eq_repo', 'parameters_total', 'symbol_layer_delivers_frame_ok', 'core_total', 'frame_total_preserves_invariant',
    'history_total_invariant', 'frame_independent_of_stale_excitation', 'excitation_no_wrap')]
UNPROVED = [
    'core_ltp_add_no_overflow: silk_ADD_LSHIFT32( pexc_Q14[i], LTP_pred_Q13, 1 ) (decode_core.c:193, a plain signed +) cannot overflow on '
    'states reachable from decodable streams. Not proved (it needs a bound on sLTP_Q15 through the re-whitening and gain scaling); the '
    'model reduces mod 2^32 and counts the events (op `ub`): 0 events on 6000 tie inputs incl. saturating random states; UBSan in the tie',
    'state_ok_after_reset_and_loss: silk_decoder_set_fs / silk_init_decoder and silk_PLC establish StateOk (in particular lagPrev in '
    '[2 ms, 18 ms] after a concealed voiced frame). These functions belong to other slices (SilkPlc / SilkApi); here StateOk is a '
    'hypothesis for the first frame of a history of good frames and is preserved by every good frame (proved)',
    'no_wrap lemmas for the remaining expressions (silk_SMLAWB accumulations of the LTP / LPC predictors wrap by design in the macros; '
    'silk_DIV32_varQ / silk_INVERSE32_varQ internals): modelled with explicit wrap32, no range lemma',
]


def _wait_driver(secs=120):
    import time
    t0 = time.time()
    while not os.path.exists(common.driver_path()) and time.time() - t0 < secs:
        time.sleep(2)
    if not os.path.exists(common.driver_path()):
        common.lake_build(['opusmodel'])


def _h(ctx, variant):
    return ctx.harness('c03_silkcore' + ('' if variant == 'plain' else '_' + variant), ['c03_silkcore.c'], variant=variant)


def ties(ctx):
    hs = _h(ctx, 'san')
    hp = _h(ctx, 'plain')
    _wait_driver()
    s = ctx.seed
    ns, nr = (1500, 1000) if ctx.quick else (25000, 15000)
    specs = [('silkcore-stream-san', [hs, 'stream', str(s), str(ns)]),
             ('silkcore-rand-san', [hs, 'rand', str(s), str(nr)]),
             ('silkcore-stream-plain', [hp, 'stream', str(s + 7919), str(ns)]),
             ('silkcore-rand-plain', [hp, 'rand', str(s + 7919), str(nr)])]
    if not ctx.quick:
        specs += [('silkcore-stream-san-%d' % k, [hs, 'stream', str(s * 1000 + k), str(ns)]) for k in range(2)]
    return common.run_ties_parallel(specs, workers=4)


def classify(ctx, tie, mm):
    # The Lean model is the frozen reference of the frame synthesis (C03: the decoded signal at the internal rate is THIS
    # function of indices, pulses and previous state): an input on which the library computes anything else is a failing input.
    impl = mm.get('impl', '')
    model = mm.get('model') or ''
    why = ('silk_decode_parameters / silk_decode_core / the frame glue differ from the frozen bit-exact reference: first differing '
           'field ' + _first_diff(impl, model))
    if impl in ('SANITIZER', 'ABORT', 'SIGSEGV'):
        why = 'the frame synthesis trapped (%s) on an input the reference processes: %s' % (
            impl, '; '.join(mm.get('sanitizer_report', [])[:3]))
    return {'suite': tie.name, 'input': mm.get('input', ''), 'expected': model[:800], 'observed': impl[:800], 'why': why}


def _first_diff(a, b):
    fa, fb = a.split(' '), b.split(' ')
    sec = ''
    for x, y in zip(fa, fb):
        if x in ('P', 'C', 'F'):
            sec = x
        if x != y:
            k = x.split('=')[0]
            xa, ya = x.split('=')[-1].split(','), y.split('=')[-1].split(',')
            idx = next((i for i, (p, q) in enumerate(zip(xa, ya)) if p != q), min(len(xa), len(ya)))
            return '%s.%s[%d]: implementation %s, reference %s' % (sec, k, idx, xa[idx] if idx < len(xa) else '-',
                                                               ya[idx] if idx < len(ya) else '-')
    return 'length (implementation %d fields, reference %d)' % (len(fa), len(fb))


def search(ctx):
    """Predicate on the implementation alone (no model): the frame is a function of (indices, pulses, modelled state members)."""
    n = 3000 if ctx.quick else 60000
    wit, cases, samples = [], 0, []
    for variant in ('san', 'plain'):
        h = _h(ctx, variant)
        cmd = [h, 'search', str(ctx.seed + (0 if variant == 'san' else 104729)), str(n)]
        env = dict(os.environ)
        env.setdefault('ASAN_OPTIONS', 'detect_leaks=0:abort_on_error=0')
        p = subprocess.run(cmd, stdout=subprocess.PIPE, stderr=subprocess.STDOUT, text=True, env=env, timeout=3000)
        got, pend = False, None
        for line in p.stdout.split('\n'):
            if line.startswith('W '):
                pend = line[2:]
            elif line.startswith('I ') and pend is not None:
                wit.append({'suite': 'silkcore-search-determinism', 'input': line[2:][:6000],
                            'expected': 'same xq[], post-state and decoder control when only stale storage differs (exc_Q14, the '
                                        'control block, xq, unused tail of outBuf, stack)',
                            'observed': pend, 'why': 'the frame output is not a function of (indices, pulses, previous state) only'})
                pend = None
            elif line.startswith('S '):
                got = True
                samples.append('%s seed %d: %s' % (variant, ctx.seed, line[2:]))
                mm = re.search(r'cases=(\d+)', line)
                cases += int(mm.group(1)) if mm else 0
        if p.returncode != 0 or not got:
            tail = [l for l in p.stdout.split('\n') if 'runtime error' in l or 'ERROR: AddressSanitizer' in l
                    or l.startswith('SUMMARY') or l.startswith('O ABORT')]
            wit.append({'suite': 'silkcore-search', 'input': 'c03_silkcore ' + ' '.join(cmd[1:]),
                        'expected': 'the search runs to completion without sanitizer report / abort',
                        'observed': '; '.join(tail[:4]) or ('exit code %s: %s' % (p.returncode, p.stdout[-400:])),
                        'why': 'the frame synthesis trapped (out-of-bounds access, undefined behaviour or assertion)'})
    return {'cases': cases, 'distinct': 1,
            'oracle': 'on the real library (ASan+UBSan and plain build), random states and in-range index sets: '
                      'silk_decode_parameters + silk_decode_core run twice from the same modelled state, the second time with '
                      'different stale storage (exc_Q14, control block, xq, unused outBuf tail, dirtied stack), must give the same '
                      'xq[] (nothing written beyond frame_length), post-state and control block',
            'samples': samples, 'witnesses': wit[:10]}
