"""C01 — decoding is total and memory-safe for arbitrary packets and call histories (DESIGN.md §7.C01)."""
import os, re, subprocess
import common

LEAN_MODULES = ['OpusProps.C01', 'OpusProps.EndToEndMs']
EXTENSIONS = ['C01celtcallees2', 'C01silkapi']   # extension slices merged into this property's check (tools/EXT_BRIEF.md)
GEN = ['CeltIdxConsts']
SOURCES = ['celt/celt_lpc.c', 'celt/pitch.c', 'celt/pitch.h', 'celt/mdct.c', 'src/opus_decoder.c', 'src/opus.c', 'src/opus_multistream_decoder.c', 'src/opus_projection_decoder.c',
           'src/opus_private.h', 'include/opus.h', 'celt/celt_decoder.c', 'celt/entdec.c', 'celt/stack_alloc.h',
           'silk/dec_API.c', 'silk/control.h', 'celt/celt.c', 'celt/celt.h']
REQUIRED_THEOREMS = [
    'OpusProps.C01.DecInv_init', 'OpusProps.C01.DecInv_step', 'OpusProps.C01.decodeNative_history',
    'OpusProps.C01.decodeNative_ret', 'OpusProps.C01.decodeNative_ret_pure', 'OpusProps.C01.decodeNative_oracle_args',
    'OpusProps.C01.decodeNative_writes', 'OpusProps.C01.decodeNative_duration', 'OpusProps.C01.decodeNative_plc_duration',
    'OpusProps.C01.decodeNative_error_leaves_state', 'OpusProps.C01.decodeApi_ret',
    'OpusProps.C01.plc_chunk_recursion_depth', 'OpusProps.C01.msDecode_ret', 'OpusProps.C01.msDecodeFull_ret',
    'OpusProps.C01.msDecode_writes', 'OpusProps.C01.msDecode_refines', 'OpusProps.C01.int_ranges',
    'OpusProps.C01.nativeRet_depends_on_parse', 'OpusProps.C01.decodeNative_depends_on_parse',
    'OpusProps.C01.celt_state_layout', 'OpusProps.C01.celt_postfilter_indices_in_bounds',
    'OpusProps.C01.celt_decode_mem_shift_in_bounds', 'OpusProps.C01.celt_postfilter_period_invariant',
    'OpusProps.C01.celt_synthesis_indices_in_bounds', 'OpusProps.C01.celt_deemphasis_indices_in_bounds',
    'OpusProps.C01.celt_prefilter_fold_indices_in_bounds', 'OpusProps.C01.celt_plc_indices_in_bounds',
    'OpusProps.C01.msDecodeFull_duration', 'OpusProps.EndToEndMs.ms_encode_decode_duration',
    'OpusProps.C01.celt_callee_contracts', 'OpusProps.C01.celt_callee_contracts_at_decoder_args',
    'OpusProps.C01.decodeApi_duration', 'OpusProps.C01.decodeNative_writes_tight',
    'OpusProps.EndToEndMs.ms_encode_decode_duration_contract',
]
RULE = ('random call histories on one decoder state (decode of real-encoder packets of all modes/bandwidths/durations, '
        'bit-flipped / truncated / extended / random packets, synthetic framing of every code incl. self-delimited, NULL and '
        'zero-length concealment with frame sizes from negative to one second, FEC calls, reset, set-gain, undersized and '
        'zero buffers) at all five rates x {1,2} channels through the 16-bit / 24-bit / float entry points and '
        'opus_decode_native(self_delimited); every inner call of the real control code is recorded and the Lean skeleton '
        'must reproduce return value, post-state and the inner call sequence with arguments and buffer extents, incl. the '
        'gain pass (once per frame, last, over audiosize*channels samples of the frame buffer; none inside the gain-cleared '
        'transition call) and the cross-fades, observed through the arithmetic macros of their inline loops; '
        'the packet-inspection functions are run on exact-size heap copies and with varying guard bytes behind the packet for every 1- and '
        '2-byte packet, structured 3/4-byte packets and generated / corrupted packets (opus_packet_has_lbrr also against the model); '
        'a fixed corpus of packets that once produced an undocumented error (C03\'s 168-byte budget packet) is decoded through every '
        'entry point at every rate; a case is distinct by (operation, outcome class)')
NOT_COVERED = [
    'index arithmetic INSIDE silk_Decode / resamplers, and of the CELT decoder everything below celt_decoder.c: the entropy / '
    'band decoding (unquant_*, quant_all_bands, anti_collapse: C03 / C17), the interior of the routines celt_decoder.c calls '
    '(their extent contracts are transcribed and checked under the sanitizer, not proved) and the deep-PLC / DRED paths '
    '(not compiled in the baseline build)',
    'finiteness of produced samples (float DSP): searched on the implementation only',
    'range decoder reads (C08) and the symbol layers (C03)',
    'projection decoder matrix multiply VALUES (C10); its index ranges are covered by msDecode_writes',
]
ASSUMPTIONS = [
    'len argument does not exceed the supplied buffer (the harness uses exact-size heap blocks under ASan)',
    'oracle contracts (monitored at run time by the wrapping harness): silk_Decode with payloadSize_ms in {10,20,40,60}, '
    'internalSampleRate in {8000,12000,16000}, nChannelsInternal in {1,2} returns 0 and nSamplesOut = (10|20) ms at the API rate; '
    'celt_decode_with_ec(_dred) with a legal frame size and 0 <= len <= 1275 returns frame_size — since /repo 59715713 this is true '
    'of the code for EVERY byte string: its only error returns are the argument checks (celt_decoder.c:1061 / :1066), which '
    'decodeNative_oracle_args excludes; before that fix the `ec_tell(dec) > 8*len` exit returned OPUS_INTERNAL_ERROR for a frame '
    'ending an eighth-bit past its budget (found by C03; packet 1 of the fixed corpus); symbol-level support: C03 celtFrame_total '
    '(the whole frame decodes from any decoder state, no assertion) and celtFrame_preserves_J; ec_dec_bit_logp returns a bit '
    'and advances ec_tell by at most logp; ec_dec_uint(ft) returns a value < ft; ec_tell >= 1',
    'float build with VAR_ARRAYS, no DRED / deep PLC / OSCE (the configuration of the baseline build)',
]
TRUSTED = ['oracle contracts for silk_Decode / celt_decode_with_ec_dred / ec_dec_bit_logp / ec_dec_uint listed under assumptions',
           'OpusModel/CeltIdx.lean is a hand transcription of index expressions (celt/celt_decoder.c:1024-1028, :1064-1067, '
           ':1258-1260, :1295-1319, celt/celt.c:163-258); supported by the celtidx tie: call arguments recorded inside the real '
           'decoder, comb_filter extents measured on the compiled function by NaN propagation (dead loads are not measurable)',
           'OpusModel/CeltIdxCalls.lean likewise (celt_decoder.c:277-369, :371-460, :491-541, :596-962; callee contracts from celt/mdct.c, '
           'celt/celt_lpc.c, celt/pitch.c, celt/bands.c): every call on an audio buffer is recorded inside the real decoder with pointers '
           'resolved to array+offset (ALLOC is recorded too) and compared; the inline loops of celt_decode_lost / deemphasis are a reading '
           'only (deemphasis: the number of pcm samples written and the scratch size are observed)',
           'OpusModel/CeltCallees.lean: loop-by-loop index models of celt_fir_c, celt_iir, _celt_autocorr (+ celt_pitch_xcorr_c, '
           'xcorr_kernel_c, celt_inner_prod_c), _celt_lpc, pitch_downsample (+ celt_fir5) — hand transcription of celt/celt_lpc.c, '
           'celt/pitch.c, celt/pitch.h (float / non-SMALL_FOOTPRINT paths); the compiled routines run under the sanitizer on blocks of '
           'exactly the contract size (tie lines `contract`)']
UNPROVED = ['decodeNative_writes is tight (extent inside [pcm.off, pcm.off + frame_size*channels)) only for pcm.off = 0 and pcm.cap = '
            'frame_size*channels (decodeNative_writes_tight: the shape of every call the entry points make); for other pointers only '
            '0 <= off and off + n <= pcm.cap is proved',
            'EndToEndMs: the equation encodeNative = .ok out is not instantiated inside Lean (C10\'s executable encoder model does not '
            'reduce in the kernel; #eval and the msenc suite only), and SkelOk is not instantiated for all curr_max',
            'CELT interior index bridge: the call lists and inline-loop extents of celt_decoder.c are proved in bounds under the '
            'callee contracts (Call.accs); those of comb_filter, celt_fir_c, celt_iir, _celt_autocorr, _celt_lpc and pitch_downsample are '
            'discharged from index models of the C reference code (celt_callee_contracts; SIMD variants: sanitizer probes only), those of '
            'clt_mdct_backward (FFT interior), denormalise_bands and pitch_search are transcribed and validated by sanitizer probes on '
            'exact-size blocks, not proved from the callee code; isTransient / LM / channel parameters are covered for all legal values, the oldBandE '
            '/ oldLogE band-energy arrays only by the state layout theorem',
            'projection matrix multiply values (C10 proves matrix_short_saturates; here only its index ranges: msDecode_writes)',
            'int_ranges is a list of range lemmas for the expressions the C code forms, stated over the guaranteed operand ranges; '
            'the model itself computes with unbounded Int (no wrap32 instrumentation), and ec_tell < 2^30 is a hypothesis',
            'decodeNative_depends_on_parse relates two runs whose DSP oracles agree up to the frame-offset shift (OracleShift); '
            'that the real SILK / CELT decoders satisfy this (they read the frame bytes only through data+offset) is an oracle '
            'assumption, not proved here']
LEVEL_TEXT = ('proof of the control skeleton, partial for the property ("never OPUS_INTERNAL_ERROR" rests on the oracle contract '
              'OracleOk.celt = "celt_decode_with_ec returns frame_size for legal arguments": refuted by the code before /repo 59715713 '
              '(budget-overrun exit), true of the code since — its only error returns are the argument checks excluded by '
              'decodeNative_oracle_args; symbol-level support C03 celtFrame_total / celtFrame_preserves_J; monitored on every explored '
              'call): for every state satisfying the decoder invariant (hence, by '
              'induction, after every history of decode / loss / FEC / reset / gain calls), every packet / NULL, len, frame_size, '
              'decode_fec, self_delimited and every oracle behaviour within the contracts, opus_decode_native returns exactly '
              'nativeRet(args) — a pure function of the arguments that is BAD_ARG | BUFFER_TOO_SMALL | INVALID_PACKET or 0 < n <= '
              'frame_size, never INTERNAL_ERROR —, reaches no celt_assert of the skeleton, terminates (all loops by well-founded '
              'recursion, recursion depth of opus_decode_frame <= 2), passes only legal arguments to SILK and CELT, keeps every '
              'recorded read/write extent inside the caller buffer or the scratch buffer allocated for it, returns the announced '
              'duration = last_packet_duration, leaves the state untouched on error, and preserves the invariant; likewise the '
              'three format wrappers; the multistream / projection decoder with its REAL per-stream calls (composition with the '
              'single-stream skeleton, the validation pass and C10 routing): documented results, never INTERNAL_ERROR, all stream '
              'states keep the invariant, every per-stream access inside buf / its scratch buffer, every copy-out index inside '
              'the caller buffer; 32-bit range lemmas for the skeleton arithmetic; CELT interior (index bridge, first part): the arrays behind '
              'the decoder struct tile opus_custom_decoder_get_size, and for every legal frame size, post-filter period in {0} u [15,1024) '
              'and gain every index the post-filter comb_filter calls and the decode_mem shift touch lies inside its channel buffer; likewise '
              'every access of celt_synthesis, deemphasis (all down-sampling factors), prefilter_and_fold and celt_decode_lost (pitch search, '
              'pitch-based concealment for every lag 100..720, noise-based concealment) lies inside its array, under the extent contracts of '
              'the routines they call, of which celt_fir_c, celt_iir, _celt_autocorr, _celt_lpc and pitch_downsample are proved to keep '
              'their contracts for all arguments within their preconditions; multistream duration: a validated packet of k <= frame_size '
              'samples without FEC decodes to exactly k in every stream (msDecodeFull_duration), and composed with C10 the multistream '
              'encoder skeleton output decodes to its frame size (EndToEndMs.ms_encode_decode_duration). The SILK/CELT synthesis interior and sample '
              'finiteness are not modelled (sanitizer-instrumented search only)')
LEVEL_NOTE = ('trusted: Lean kernel; oracle contracts (monitored by the harness wrappers on every explored call); the '
              'correspondence harness (#include of src/opus_decoder.c with the DSP entry points renamed to recording wrappers) '
              'and line protocol; C int modelled as unbounded Int')
TECHNIQUE = 'Lean 4 theorems over an executable control skeleton with contract-bound oracles + differential replay of recorded calls'


def harness(ctx, name, variant):
    """Compile a harness; the shared library cache may be pruned by a concurrent run of another property, so retry once with a
    fresh library build."""
    for attempt in (0, 1):
        try:
            if not os.path.exists(ctx.lib(variant).a):
                ctx._libs.pop(variant, None)
            return ctx.harness(name, [name + '.c'], variant=variant)
        except RuntimeError:
            if attempt:
                raise
            ctx._libs.pop(variant, None)


def parallel(fn, argtuples, workers=4):
    """Run fn(*args) for every tuple on a small thread pool (each call spawns one harness process); results in order."""
    from concurrent.futures import ThreadPoolExecutor
    with ThreadPoolExecutor(max_workers=workers) as ex:
        return list(ex.map(lambda a: fn(*a), argtuples))


def _sizes(ctx):
    return (500, 150) if ctx.quick else (9000, 2500)


def _insp_size(ctx):
    return 40 if ctx.quick else 800


def _idx_size(ctx):
    return 150 if ctx.quick else 2500


def ties(ctx):
    h = harness(ctx, 'c01_decskel', 'san')
    nr, nm = _sizes(ctx)
    hi = harness(ctx, 'c01_celtidx', 'san')
    return parallel(common.run_tie, [('decskel-rand', [h, 'rand', str(ctx.seed), str(nr)]),
                                     ('decskel-ms', [h, 'ms', str(ctx.seed), str(nm)]),
                                     ('decskel-insp', [h, 'insp', str(ctx.seed), str(_insp_size(ctx))]),
                                     ('celtidx', [hi, 'run', str(ctx.seed), str(_idx_size(ctx))])])


def _pred_line(inp, impl):
    """`decskel dec <fmt> <st> <data> <len> <fs> <fec> <orc>` + impl answer -> `decskel pred …` line."""
    t = inp.split(' ')
    if len(t) < 9 or t[1] != 'dec':
        return None
    ret = impl.split(' ')[0]
    m = re.search(r'st=([-\d,]+)', impl)
    lpd = m.group(1).split(',')[14] if m and len(m.group(1).split(',')) == 15 else '0'
    return 'decskel pred %s %s %s %s %s %s %s %s' % (t[2], t[3], t[4], t[5], t[6], t[7], ret, lpd)


def _idx_witness(inp, impl):
    """CELT index bridge: the implementation's own recorded / measured extents leave the channel buffer
    decode_mem[c][0 .. DECODE_BUFFER_SIZE+overlap) (geometry from the regenerated constants)."""
    t = inp.split(' ')
    try:
        gen = open(os.path.join(common.LEAN, 'OpusModel', 'Gen', 'CeltIdxConsts.lean')).read()
        ML = int(re.search(r'def DECODE_BUFFER_SIZE : Int := (\d+)', gen).group(1)) + int(re.search(r'def overlap : Int := (\d+)', gen).group(1))
    except (OSError, AttributeError):
        ML = 2048 + 120
    if len(t) >= 2 and t[1] == 'pfcalls':
        m = re.search(r'pf=(\S*) mv=(\S*)', impl)
        if not m:
            return None
        for call in filter(None, m.group(1).split(';')):
            try:
                xoff, T0, T1, n, ovl = [int(v) for v in call.split(':')[1].split(',')]
            except ValueError:
                continue
            reach = max(T0, T1, 15) + 2
            if xoff - reach < 0 or xoff + n > ML:
                return 'post-filter call %s reads back %d samples / writes %d samples from offset %d of a %d-sample channel buffer' % (call, reach, n, xoff, ML)
        for mv in filter(None, m.group(2).split(';')):
            try:
                src, dst, n = [int(v) for v in mv.split(':')[1].split(',')]
            except ValueError:
                continue
            if src < 0 or dst < 0 or src + n > ML or dst + n > ML:
                return 'decode_mem shift %s leaves the %d-sample channel buffer' % (mv, ML)
    if len(t) >= 2 and t[1] == 'celtcalls':
        def memoff(ptr):
            m = re.match(r'mem\d\+(-?\d+)$', ptr)
            return int(m.group(1)) if m else None
        for call in filter(None, impl.split(' ')[0].split(';')):
            m = re.match(r'(\w+)\((.*)\)$', call)
            if not m:
                continue
            fn, a = m.group(1), m.group(2).split(',')
            spans = []          # (pointer, lowest element, one past the highest element) relative to the pointer
            try:
                if fn == 'copy':
                    spans = [(a[0], 0, int(a[2])), (a[1], 0, int(a[2]))]
                elif fn == 'iir':
                    spans = [(a[0], 0, int(a[3])), (a[2], 0, int(a[3]))]
                elif fn == 'mdct':
                    spans = [(a[2], 0, int(a[4]) // 2 + int(a[3])), (a[0], 0, int(a[1]) * (int(a[3]) - 1) + 1)]
                elif fn == 'comb':
                    spans = [(a[1], -(max(int(a[2]), int(a[3]), 15) + 2), int(a[4]))]
                elif fn == 'denorm':
                    spans = [(a[1], 0, int(a[2]))]
                elif fn == 'fir':
                    spans = [(a[0], -int(a[4]), int(a[3]))]
                elif fn == 'pdown':
                    spans = [(a[0], 0, int(a[3]))] + ([(a[1], 0, int(a[3]))] if a[1] != '-' else [])
            except (ValueError, IndexError):
                continue
            for ptr, lo, hi in spans:
                off = memoff(ptr)
                cap = ML
                if off is None:
                    m2 = re.match(r'exc\+(-?\d+)$', ptr)
                    if not m2:
                        continue
                    off, cap = int(m2.group(1)), 1024 + 24
                if off + lo < 0 or off + hi > cap:
                    return 'recorded call %s touches elements %d..%d of a %d-element array' % (call, off + lo, off + hi - 1, cap)
    return None


def classify(ctx, tie, mm):
    impl = mm.get('impl', '') or ''
    inp = mm.get('input', '')
    first = impl.split(' ')[0]
    if first in ('SANITIZER', 'ABORT', 'TIMEOUT', 'SIGSEGV'):
        why = {'SANITIZER': 'AddressSanitizer/UBSan report during the call (memory safety)',
               'ABORT': 'a hardening assertion (celt_assert) fired during the call',
               'TIMEOUT': 'the call did not terminate within the watchdog',
               'SIGSEGV': 'the call crashed'}[first]
        return {'suite': tie.name, 'input': inp, 'expected': mm.get('model'), 'observed': impl, 'why': why,
                'sanitizer_report': mm.get('sanitizer_report', getattr(tie, 'sanitizer', []))}
    if first == 'INTERNAL_ERROR':
        return {'suite': tie.name, 'input': inp, 'expected': mm.get('model'), 'observed': impl,
                'why': 'a decode entry point returned OPUS_INTERNAL_ERROR'}
    if first == 'CONTRACT':
        return None
    w = _idx_witness(inp, impl)
    if w:
        return {'suite': tie.name, 'input': inp, 'expected': mm.get('model'), 'observed': impl, 'why': w}
    pl = _pred_line(inp, impl)
    if pl:
        ans = common.model_eval([pl])[0]
        if ans.startswith('VIOLATES'):
            return {'suite': tie.name, 'input': inp, 'expected': mm.get('model'), 'observed': impl,
                    'why': 'property predicate on the implementation\'s own answer: ' + ans[9:]}
    return None


def _run_search(exe, args, timeout):
    env = dict(os.environ)
    env.setdefault('ASAN_OPTIONS', 'detect_leaks=0:abort_on_error=0')
    p = subprocess.run([exe] + args, stdout=subprocess.PIPE, stderr=subprocess.PIPE, text=True, timeout=timeout, env=env,
                       errors='replace')
    return p.returncode, p.stdout, p.stderr


def search(ctx):
    """The C01 predicate evaluated on the implementation (no model): return-value range, documented errors, canaries
    (plain build) / ASan+UBSan (san build); NO decode entry point (opus_decode / decode24 / decode_float / opus_decode_native,
    multistream, projection) ever returns a code other than a sample count, OPUS_BAD_ARG, OPUS_BUFFER_TOO_SMALL or
    OPUS_INVALID_PACKET — in particular never OPUS_INTERNAL_ERROR / UNIMPLEMENTED / INVALID_STATE / ALLOC_FAIL (witness kind
    `reterr`), and an oracle-contract violation such as celt_decode_with_ec returning an error for legal arguments is a witness
    too (kind `contract`); finiteness of every produced sample, announced duration and
    OPUS_GET_LAST_PACKET_DURATION, exact concealment durations, 20 s watchdog per call; single-stream, multistream and
    projection decoders with random layouts.  Packet-inspection functions (get_bandwidth / nb_channels / samples_per_frame /
    nb_frames / nb_samples, opus_decoder_get_nb_samples, has_lbrr, parse, parse_impl(self-delimited), multistream validate) on
    exact-size heap copies and with three different guard-byte fills behind the packet (result must not depend on them), for
    every 1- and 2-byte packet, structured 3/4-byte packets, synthetic / encoder / truncated / bit-flipped packets.  CELT interior: bare CELT decoders driven with crafted post-filter headers
    (period extremes), random and lost frames; every recorded comb_filter / decode_mem shift stays inside its channel
    buffer, periods stay in {0} u [15, 1024), ASan + celt_assert on."""
    nr, nm = _sizes(ctx)
    cases, wit, kinds, samples = 0, [], {}, []
    hs = {v: harness(ctx, 'c01_decskel', v) for v in ('plain', 'san')}

    def one(variant, off, mode, n):
        args = [mode, str(ctx.seed + off), str(n), 'quiet']
        rc, out, err = _run_search(hs[variant], args, 3000)
        return variant, mode, args, rc, out, err

    jobs = [(variant, off, mode, n) for variant, off in (('plain', 1000), ('san', 2000))
            for mode, n in (('rand', nr), ('ms', nm), ('insp', _insp_size(ctx) * 2))]
    for variant, mode, args, rc, out, err in parallel(one, jobs):
        h = hs[variant]
        m = re.search(r'# \w+ seed=\d+ sessions=\d+ calls=(\d+) witnesses=(\d+)', out)
        if m:
            cases += int(m.group(1))
        for line in out.split('\n'):
            if line.startswith('W '):
                kind, what, inp = (line[2:].split(' | ') + ['', ''])[:3]
                kinds[kind] = kinds.get(kind, 0) + 1
                wit.append({'suite': 'decskel-search-%s-%s' % (mode, variant), 'input': inp, 'expected': 'C01 predicate holds',
                            'observed': what, 'why': '%s (reproduce: %s %s)' % (kind, os.path.basename(h), ' '.join(args))})
            elif line.startswith('O ') and line[2:].split(' ')[0] in ('SANITIZER', 'ABORT', 'TIMEOUT', 'SIGSEGV'):
                prev = [l for l in out.split('\n') if l.startswith('I ')]
                rep = [l for l in err.split('\n') if 'ERROR: AddressSanitizer' in l or 'runtime error' in l or l.startswith('SUMMARY:')][:6]
                wit.append({'suite': 'decskel-search-%s-%s' % (mode, variant), 'input': prev[-1][2:] if prev else '',
                            'expected': 'call returns', 'observed': line[2:], 'sanitizer_report': rep,
                            'why': 'the call ended with %s (reproduce: %s %s)' % (line[2:], os.path.basename(h), ' '.join(args))})
        if rc != 0 and not m and not any(w['suite'].endswith('%s-%s' % (mode, variant)) for w in wit):
            wit.append({'suite': 'decskel-search-%s-%s' % (mode, variant), 'input': ' '.join(args), 'expected': 'harness completes',
                        'observed': 'exit %d: %s' % (rc, err[-600:]), 'why': 'search harness died'})
        samples.append('%s %s: %s' % (variant, ' '.join(args), (m.group(0) if m else 'no summary')))
    # CELT interior: recorded post-filter / buffer-shift extents stay inside the channel buffer, periods stay legal
    hidx = {v: harness(ctx, 'c01_celtidx', v) for v in ('plain', 'san')}

    def idx(variant, off):
        args = ['run', str(ctx.seed + off), str(_idx_size(ctx) * 4), 'quiet']
        rc, out, err = _run_search(hidx[variant], args, 3000)
        return variant, args, rc, out, err

    for variant, args, rc, out, err in parallel(idx, [('plain', 3000), ('san', 4000)]):
        m = re.search(r'# celtidx seed=\d+ decoders=\d+ cases=(\d+) witnesses=(\d+)', out)
        if m:
            cases += int(m.group(1))
        for line in out.split('\n'):
            if line.startswith('W '):
                kind, what, inp = (line[2:].split(' | ') + ['', ''])[:3]
                kinds[kind] = kinds.get(kind, 0) + 1
                wit.append({'suite': 'celtidx-search-%s' % variant, 'input': inp, 'expected': 'C01 predicate holds', 'observed': what,
                            'why': '%s (reproduce: %s %s)' % (kind, os.path.basename(hidx[variant]), ' '.join(args))})
        if rc != 0 or not m:
            rep = [l for l in err.split('\n') if 'ERROR: AddressSanitizer' in l or 'runtime error' in l or l.startswith('SUMMARY:')][:6]
            wit.append({'suite': 'celtidx-search-%s' % variant, 'input': ' '.join(args), 'expected': 'harness completes',
                        'observed': 'exit %d: %s' % (rc, (out[-200:] + err[-400:])), 'sanitizer_report': rep,
                        'why': 'CELT decoder run ended abnormally (sanitizer / assertion)'})
        samples.append('celtidx %s %s: %s' % (variant, ' '.join(args), (m.group(0) if m else 'no summary')))
    return {'cases': cases, 'distinct': len(kinds), 'oracle': search.__doc__, 'samples': samples, 'witnesses': wit[:20],
            'witness_kinds': kinds}
