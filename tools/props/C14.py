"""C14 — independent codec instances do not interfere when used concurrently (DESIGN.md §7.C14).

Regenerated input (S0, `pre_build`): the section / data-symbol / import table of the libopus.a freshly
built from the working tree (readelf -SsW per archive member) and the build-configuration macros the
compiler sees, written to lean/OpusModel/Gen/Globals.lean.  The theorems of OpusProps.C14 about that
table (`no_writable_globals`, `config_threadsafe`, `imports_reentrant`) are therefore re-checked against
what the build produces *now*; together with `interleave_eq_serial` (any schedule = serial run, generic
in the step function) they are the proof part.  S4 runs N threads x own objects (encoder, decoder,
multistream, projection, repacketiser) against a serial run of the same scripts, plain and under
ThreadSanitizer; a TSan report or an output difference is a witness."""
import hashlib, os, re, subprocess
import common

LEAN_MODULES = ['OpusProps.C14']
GEN = []          # Gen/Globals.lean is produced by pre_build (not a C extractor)
SOURCES = ['include/opus.h', 'celt/modes.c', 'celt/x86/x86cpu.c', 'celt/cpu_support.h', 'src/opus_encoder.c',
           'celt/stack_alloc.h', 'src/opus_decoder.c', 'src/opus_multistream_encoder.c',
           'src/opus_multistream_decoder.c', 'src/repacketizer.c', 'celt/x86/x86_celt_map.c',
           'silk/x86/x86_silk_map.c', 'celt/celt.c', 'celt/arch.h']
REQUIRED_THEOREMS = ['OpusProps.C14.interleave_eq_serial', 'OpusProps.C14.interleave_eq_serial_of_footprint',
                     'OpusProps.C14.no_writable_globals', 'OpusProps.C14.config_threadsafe',
                     'OpusProps.C14.imports_reentrant']
RULE = ('per-thread scripts (object kind, configuration, ctl sequence, signal) drawn from the seed; a case is one '
        '(thread, iteration) script = create + ctls + frames + destroy; distinct by (object kind, Fs, channels, '
        'application) class; each script is run once concurrently with all others (threads released together at a '
        'barrier so that first use races) and once alone in a separate serial process, outputs compared by hash of '
        'every return code, packet byte, final range and PCM bit pattern')
NOT_COVERED = [
    'the step from the three table theorems (no_writable_globals, config_threadsafe, imports_reentrant) to the footprint '
    'premise `Local` of interleave_eq_serial_of_footprint is an informal argument, not a Lean theorem: no codec model is '
    'shown to be an instance of `Local`; the general theorem interleave_eq_serial holds for every step function of the '
    'typed shape Ro -> St -> In -> St x Out, so the real content of the check is the three table checks on the built '
    'library plus the TSan / output-equality threads harness',
    'objects cloned by memcpy (the clone twin is the C12 check: a state that caches an absolute pointer into itself '
    'interferes with its clone; seeded change C14-m6 is caught there, not here)',
    'data-race freedom in the C11 memory-model sense is not a Lean theorem: the Lean part proves logical '
    'non-interference of any step function with the stated footprint, and the footprint premise is checked on the '
    'binary (no writable static storage, re-entrant imports, stack scratch) and explored under ThreadSanitizer',
    'interior pointer discipline (a call writing through a pointer into another object) is explored (TSan, output '
    'equality), not proved',
    'sharing ONE object between threads is outside the property (one thread per object)',
    'the verification hook getenv("OPUS_VERIF_ARCH_CAP") is read-only; concurrent setenv by the application is excluded',
]
ASSUMPTIONS = [
    'the library is linked as built (a static table placed in .data.rel.ro* is read-only after relocation: RELRO)',
    'libc functions in the regenerated import list behave as POSIX specifies for concurrent calls '
    '(malloc/free, memcpy, math functions are thread-safe)',
    'scratch memory is VAR_ARRAYS/alloca, i.e. on the calling thread\'s stack (regenerated config fact)',
]
TRUSTED = ['readelf (binutils) and the parser in tools/props/C14.py that turn the archive into Gen/Globals.lean',
           'ThreadSanitizer (gcc -fsanitize=thread) for the witness search']
LEVEL_TEXT = ('partial: kernel-checked theorem that every interleaving of per-object call sequences equals the serial '
              'runs (generic in the step function, with and without an explicit footprint premise), plus decide-checked '
              'facts on the section/symbol/import table and configuration macros regenerated from the fresh build '
              '(no writable static storage; scratch on the caller\'s stack; only re-entrant imports); the C memory '
              'model is not formalised')
LEVEL_NOTE = ('the footprint premise of the interleaving theorem is tied to the code by the regenerated symbol table and by '
              'a ThreadSanitizer + output-equality run; it is not itself proved from the C source')
TECHNIQUE = 'Lean 4 theorem (schedule induction) + regenerated ELF symbol table (decide) + TSan/differential threads harness'

WATCH_MACROS = ['VAR_ARRAYS', 'USE_ALLOCA', 'NONTHREADSAFE_PSEUDOSTACK', 'FUZZING', 'CUSTOM_MODES',
                'OPUS_HAVE_RTCD', 'FIXED_POINT', 'ENABLE_HARDENING', 'XIPH_OPUS_VERIF', 'HAVE_CONFIG_H',
                'OPUS_CHECK_ASM', 'ENABLE_ASSERTIONS']

SEC_RE = re.compile(r'^\s*\[\s*(\d+)\]\s+(\S+)\s+(\S+)\s+([0-9a-f]+)\s+([0-9a-f]+)\s+([0-9a-f]+)\s+([0-9a-f]+)\s+'
                    r'([A-Za-z]*)\s+(\d+)\s+(\d+)\s+(\d+)\s*$')
SYM_RE = re.compile(r'^\s*(\d+):\s+([0-9a-f]+)\s+(\d+|0x[0-9a-f]+)\s+(\S+)\s+(\S+)\s+(\S+)\s+(\S+)(?:\s+(\S.*))?$')


def lstr(s):
    return '"' + s.replace('\\', '\\\\').replace('"', '\\"') + '"'


def read_archive(path):
    """Parse `readelf -SsW` of an archive: returns (sections, datasyms, imports)."""
    rc, out = common.sh(['readelf', '-SsW', path])
    if rc != 0:
        raise RuntimeError('readelf failed: ' + out[-800:])
    members = []   # (name, {idx: (name, flags, size, type)}, [symbols])
    cur = None
    for line in out.split('\n'):
        m = re.match(r'^File: .*\((.+)\)\s*$', line)
        if m:
            cur = (m.group(1), {}, [])
            members.append(cur)
            continue
        if cur is None:
            continue
        m = SEC_RE.match(line)
        if m:
            cur[1][int(m.group(1))] = (m.group(2), m.group(8), int(m.group(6), 16), m.group(3))
            continue
        m = SYM_RE.match(line)
        if m and m.group(4) != 'Type':
            size = int(m.group(3), 0)
            cur[2].append({'size': size, 'type': m.group(4), 'bind': m.group(5), 'ndx': m.group(7),
                           'name': (m.group(8) or '').strip()})
    if not members:
        raise RuntimeError('readelf printed no archive members for ' + path)
    sections, datasyms, und, defined = [], [], set(), set()
    for name, secs, syms in members:
        if not secs:
            raise RuntimeError('no section headers parsed for member ' + name)
        for idx in sorted(secs):
            sname, flags, size, stype = secs[idx]
            if 'A' in flags and size > 0:
                sections.append((name, sname, flags, size))
        for s in syms:
            if s['ndx'] == 'UND':
                if s['name']:
                    und.add(s['name'])
                continue
            if s['bind'] in ('GLOBAL', 'WEAK'):
                defined.add(s['name'])
            if s['type'] in ('OBJECT', 'TLS', 'COMMON') or s['ndx'] == 'COM':
                if s['ndx'] == 'COM':
                    sec = 'COMMON'
                elif s['ndx'].isdigit() and int(s['ndx']) in secs:
                    sec = secs[int(s['ndx'])][0]
                else:
                    sec = s['ndx']
                datasyms.append((name, s['name'], s['type'], s['bind'], sec, s['size']))
    imports = sorted(und - defined)
    return sections, datasyms, imports, [m[0] for m in members]


def config_macros(lib):
    """The configuration macros as the compiler sees them in a library TU (cc -dM -E)."""
    tu = os.path.join(common.scratch(), 'c14_cfg.c')
    open(tu, 'w').write('#ifdef HAVE_CONFIG_H\n#include "config.h"\n#endif\n#include "arch.h"\n'
                        '#include "stack_alloc.h"\n#include "cpu_support.h"\n')
    flags = [f for f in lib.flags if not f.startswith('-W')]
    rc, out = common.sh(['cc'] + flags + lib.defines + lib.includes + ['-dM', '-E', tu])
    if rc != 0:
        raise RuntimeError('cc -dM -E failed: ' + out[-1500:])
    macros = {}
    for line in out.split('\n'):
        m = re.match(r'#define (\w+)(?:\(.*?\))?\s*(.*)', line)
        if m:
            macros[m.group(1)] = m.group(2).strip()
    return macros


def render(sections, datasyms, imports, members, macros):
    o = []
    o.append('/- GENERATED by tools/props/C14.py (pre_build) from `readelf -SsW libopus.a` of the library freshly')
    o.append('   built from the working tree and `cc -dM -E` of its configuration.  Do not edit. -/')
    o.append('namespace Opus.Gen.Globals')
    o.append('')
    o.append('/-- number of archive members (object files) -/')
    o.append('def memberCount : Nat := %d' % len(members))
    o.append('')
    o.append('/-- (member, section name, flags, size in bytes) of every non-empty SHF_ALLOC section -/')
    o.append('def sections : List (String × String × String × Nat) := [')
    o.append(',\n'.join('  (%s, %s, %s, %d)' % (lstr(a), lstr(b), lstr(c), d) for a, b, c, d in sections))
    o.append(']')
    o.append('')
    o.append('/-- (member, symbol, ELF type, binding, section, size) of every OBJECT / TLS / COMMON symbol -/')
    o.append('def dataSymbols : List (String × String × String × String × String × Nat) := [')
    o.append(',\n'.join('  (%s, %s, %s, %s, %s, %d)' % (lstr(a), lstr(b), lstr(c), lstr(d), lstr(e), f)
                        for a, b, c, d, e, f in datasyms))
    o.append(']')
    o.append('')
    o.append('/-- undefined symbols not defined by any member: what the library imports from libc/libm -/')
    o.append('def imports : List String := [' + ', '.join(lstr(s) for s in imports) + ']')
    o.append('')
    o.append('/-- which of the watched configuration macros are defined in a library translation unit -/')
    o.append('def configDefined : List String := [' +
             ', '.join(lstr(m) for m in WATCH_MACROS if m in macros) + ']')
    o.append('def configWatched : List String := [' + ', '.join(lstr(m) for m in WATCH_MACROS) + ']')
    am = macros.get('OPUS_ARCHMASK', '0')
    o.append('/-- OPUS_ARCHMASK (celt/cpu_support.h) -/')
    o.append('def opusArchMask : Nat := %d' % int(am, 0))
    o.append('')
    o.append('end Opus.Gen.Globals')
    return '\n'.join(o) + '\n'


def pre_build(ctx):
    lib = ctx.lib('plain')
    sections, datasyms, imports, members = read_archive(lib.a)
    macros = config_macros(lib)
    text = render(sections, datasyms, imports, members, macros)
    gdir = os.path.join(common.LEAN, 'OpusModel', 'Gen')
    os.makedirs(gdir, exist_ok=True)
    dst = os.path.join(gdir, 'Globals.lean')
    with common.Lock('lake'):
        old = open(dst).read() if os.path.exists(dst) else None
        if old != text:
            open(dst, 'w').write(text)
    ctx._c14_table = (sections, datasyms, imports)
    return {'Globals': {'sha256': hashlib.sha256(text.encode()).hexdigest()[:16], 'changed': old != text,
                        'bytes': len(text), 'members': len(members), 'sections': len(sections),
                        'data_symbols': len(datasyms), 'imports': len(imports)}}


# ------------------------------------------------------------------ S3: tie = the regenerated table
def ties(ctx):
    """The tie of C14 is regeneration, not a model/implementation line comparison: re-run it (idempotent) and
    report the table as one correspondence record whose `cases` are the entries handed to the Lean theorems."""
    info = pre_build(ctx)['Globals']
    tr = common.TieResult('globals-regenerated')
    tr.cases = info['sections'] + info['data_symbols'] + info['imports']
    sections, datasyms, imports = ctx._c14_table
    for _, sname, flags, _ in sections:
        k = 'section:%s:%s' % (sname, flags)
        tr.dist[k] = tr.dist.get(k, 0) + 1
    for e in datasyms:
        k = 'symbol:%s:%s' % (e[2], e[4])
        tr.dist[k] = tr.dist.get(k, 0) + 1
    tr.samples = ['%s %s %s %d' % s for s in sections[:2]] + ['%s %s %s %s %s %d' % d for d in datasyms[:2]]
    tr.notes = ['imports: ' + ' '.join(imports)]
    if info['changed']:
        tr.error = ('Gen/Globals.lean changed between S0 and S3 (the build is not reproducible or pre_build was not '
                    'run before lake build)')
    return [tr]


def classify(ctx, tie, mm):
    return None


# ------------------------------------------------------------------ S4: threads harness
def _run(cmd, env=None, timeout=1500):
    e = dict(os.environ)
    e.update(env or {})
    p = subprocess.run(cmd, stdout=subprocess.PIPE, stderr=subprocess.PIPE, text=True, env=e, timeout=timeout)
    return p.returncode, p.stdout, p.stderr


def _parse(out):
    res, meta = {}, {}
    for line in out.split('\n'):
        f = line.split()
        if len(f) >= 6 and f[0] == 'T':
            # T <tid> <iter> <kind-desc> <hash> calls=<n>
            res[(int(f[1]), int(f[2]))] = (f[3], f[4], int(f[5].split('=')[1]))
        elif len(f) >= 2 and f[0] == 'ARCH':
            meta['arch'] = f[1]
    return res, meta


def _tsan_reports(err):
    reps = []
    blocks = re.split(r'={18,}', err)
    for b in blocks:
        if 'WARNING: ThreadSanitizer' in b:
            head = re.search(r'WARNING: ThreadSanitizer: ([^\n]*)', b).group(1)
            frames = re.findall(r'#\d+ (\S+) ([^\s]+:\d+)', b)[:6]
            loc = re.search(r'Location is ([^\n]*)', b)
            reps.append({'kind': head.strip(), 'frames': ['%s %s' % f for f in frames],
                         'location': loc.group(1).strip() if loc else ''})
    return reps


def search(ctx):
    seed = ctx.seed
    threads = 8 if ctx.quick else 16
    iters = 3 if ctx.quick else 8
    rounds = 2 if ctx.quick else 6
    witnesses, samples = [], []
    cases, classes = 0, set()
    notes = []
    for variant in ('plain', 'tsan'):
        extra = ['-lpthread'] + (['-fsanitize=thread'] if variant == 'tsan' else [])
        h = ctx.harness('c14_threads', ['c14_threads.c'], variant=variant, extra=extra)
        env = {'TSAN_OPTIONS': 'halt_on_error=0 report_signal_unsafe=0 exitcode=0 history_size=4'}
        for rnd in range(rounds if variant == 'plain' else max(1, rounds // 2)):
            sd = seed * 1000 + rnd
            nthr = threads if variant == 'plain' else max(4, threads // 2)
            rc_s, out_s, err_s = _run([h, 'ser', str(sd), str(nthr), str(iters)], env)
            rc_p, out_p, err_p = _run([h, 'par', str(sd), str(nthr), str(iters)], env)
            ser, _ = _parse(out_s)
            par, meta = _parse(out_p)
            if rc_s != 0 or rc_p != 0 or not ser or set(ser) != set(par):
                raise RuntimeError('c14_threads (%s) failed: rc=%d/%d ser=%d par=%d\n%s\n%s' % (
                    variant, rc_s, rc_p, len(ser), len(par), err_s[-1500:], err_p[-1500:]))
            for key in sorted(ser):
                cases += ser[key][2]
                classes.add(ser[key][0])
                if ser[key][1] != par[key][1]:
                    witnesses.append({
                        'suite': 'threads-' + variant,
                        'input': 'c14_threads par %d %d %d  (thread %d iteration %d: %s)' % (
                            sd, nthr, iters, key[0], key[1], ser[key][0]),
                        'expected': 'output hash %s (same script run alone: c14_threads ser %d %d %d)' % (
                            ser[key][1], sd, nthr, iters),
                        'observed': 'output hash %s when run concurrently with %d other threads' % (par[key][1], nthr - 1),
                        'why': 'an object driven by its own thread produced different packets/PCM/return codes than '
                               'when run alone: another instance interfered'})
            if len(samples) < 3:
                k0 = sorted(ser)[0]
                samples.append('threads-%s seed=%d T%d.%d %s hash=%s calls=%d' % (
                    variant, sd, k0[0], k0[1], ser[k0][0], ser[k0][1], ser[k0][2]))
            if variant == 'tsan':
                for rep in _tsan_reports(err_p)[:5]:
                    witnesses.append({
                        'suite': 'threads-tsan',
                        'input': 'c14_threads par %d %d %d  (ThreadSanitizer build)' % (sd, nthr, iters),
                        'expected': 'no data race between threads that each drive their own codec objects',
                        'observed': 'ThreadSanitizer: %s; %s; frames: %s' % (rep['kind'], rep['location'],
                                                                               ' <- '.join(rep['frames'])),
                        'why': 'two threads using different codec objects touched the same memory without '
                               'synchronisation, at least one access being a write'})
                if _tsan_reports(err_s):
                    raise RuntimeError('ThreadSanitizer report in the serial run: ' + err_s[-1500:])
            notes.append('%s seed=%d threads=%d iters=%d arch=%s' % (variant, sd, nthr, iters, meta.get('arch', '?')))
    return {'cases': cases, 'distinct': len(classes),
            'oracle': 'every (thread, iteration) script hashed over all return codes, packet bytes, final ranges and '
                      'PCM bit patterns must equal the hash of the same script run alone in a serial process; '
                      'ThreadSanitizer build must report nothing',
            'samples': samples, 'witnesses': witnesses, 'runs': notes}
