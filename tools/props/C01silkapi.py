"""C01 extension `SilkApi` — the control layer of the SILK decoder (silk_Decode, silk_decoder_set_fs, silk_stereo_MS_to_LR)
inside the model: C01's oracle contract for silk_Decode becomes a theorem over oracles for silk_decode_frame / silk_resampler."""
import os, re, subprocess
import common

LEAN_MODULES = ['OpusProps.C01SilkApi']
GEN = []
SOURCES = ['silk/dec_API.c', 'silk/decoder_set_fs.c', 'silk/init_decoder.c', 'silk/stereo_MS_to_LR.c', 'silk/stereo_decode_pred.c',
           'silk/resampler.c', 'silk/structs.h', 'silk/control.h', 'silk/define.h', 'silk/macros.h', 'silk/SigProc_FIX.h',
           'silk/decode_frame.c', 'src/opus_decoder.c']
REQUIRED_THEOREMS = [
    'OpusProps.C01SilkApi.initDecoder_inv', 'OpusProps.C01SilkApi.setFs_establishes_cfg',
    'OpusProps.C01SilkApi.msToLR_outputs_int16', 'OpusProps.C01SilkApi.cfgChan_configures',
    'OpusProps.C01SilkApi.nSamplesOut_is_duration', 'OpusProps.C01SilkApi.tmp_extents_in_bounds',
    'OpusProps.C01SilkApi.silkDecode_contract', 'OpusProps.C01SilkApi.silkDecode_history',
    'OpusProps.C01SilkApi.silkDecode_accesses_in_bounds',
]
RULE = ('random call histories through the real opus_decode / opus_decode_float at all five API rates x {1,2} output channels on '
        'packets of a real encoder whose bandwidth (NB/MB/WB = 8/12/16 kHz internal, SWB/FB hybrid), channel count, frame duration '
        '(10/20/40/60 ms), in-band FEC, DTX, mode (SILK / hybrid / occasionally CELT) and bitrate are re-drawn at random, with losses '
        '(NULL, 2.5..60 ms), FEC decodes (decode_fec=1), OPUS_RESET_STATE, bit-flipped / truncated packets and random bytes behind a '
        'SILK TOC; every silk_Decode / silk_InitDecoder / silk_ResetDecoder call the real decoder makes is one case '
        '(pre-state, arguments, oracle answers) -> (return value, nSamplesOut, prevPitchLag, post-state, inner call sequence with '
        'arguments and buffer offsets, hash of resampler inputs = MS->LR output, hash of samplesOut, highest slot written); '
        'every silk_stereo_MS_to_LR call inside those histories plus generated boundary inputs (saturating sums, predictors at the '
        'dequantiser extremes, constant and random int16 frames, 10/20 ms at 8/12/16 kHz so that the 8 ms interpolation boundary '
        'falls inside the frame) is compared SAMPLE BY SAMPLE (both output buffers incl. history slots, and the stereo state); '
        'a case is distinct by (lostFlag, internal channels, API channels)')
NOT_COVERED = [
    'the interior of silk_decode_frame (C03 / other C01 extension slices) and of silk_resampler (slice SilkResamp): oracles with '
    'contracts monitored by the harness (frame_length int16 samples; inLen*Fs_out/Fs_in samples)',
    'values of the symbol reads (VAD / LBRR flags, stereo predictor, mid-only flag): oracle answers; which reads happen is modelled',
    'outBuf / sLPC_Q14_buf clearing in silk_decoder_set_fs and the side-channel reset (memory of the synthesis, not control)',
    'OSCE / deep-PLC variants of the code (not compiled in the baseline build)',
]
ASSUMPTIONS = [
    'silk_decode_frame writes frame_length int16 samples from pOut[0], sets *pN = frame_length and returns 0; silk_resampler '
    'writes inLen*Fs_out_kHz/Fs_in_kHz samples and returns 0 (monitored on every explored call: a deviation is reported as CONTRACT)',
    'the API rate of a decoder does not change after creation and the caller follows the packet protocol of opus_decode_frame '
    '(newPacketFlag on the first call of a packet, at most nFramesPerPacket calls per packet, channel count constant inside a packet)',
    'float build with VAR_ARRAYS, ENABLE_HARDENING, no OSCE / deep PLC',
]
TRUSTED = ['OpusModel/SilkApi.lean is a hand transcription of silk/dec_API.c:89-431, silk/decoder_set_fs.c:35-107, '
           'silk/stereo_MS_to_LR.c:35-85, silk/init_decoder.c:43-83; supported by the silkapi tie on reachable states']
UNPROVED = ['`samplesOut written exactly on [0, nSamplesOut*nChannelsAPI)`: proved are that every strided samplesOut write record lies inside '
            '[0, nSamplesOut*nChannelsAPI) (silkDecode_accesses_in_bounds) and that the model output has exactly that many elements '
            '(silkDecode_contract); that no slot keeps the sentinel (every slot IS written) is checked by the tie (hash over a '
            'sentinel-filled buffer + highest slot written), not proved',
            'DecSkel OracleOk.silk third field (ec_tell >= 1 after a non-lost call) is a range-decoder fact, not discharged here',
            'tail_accs (OpusProofs/SilkApiAccs2.lean) is one large case analysis elaborated with maxHeartbeats 1000000']
LEVEL_TEXT = ('proof over an executable model of the SILK decoder control layer with contract-bound oracles for silk_decode_frame, '
              'silk_resampler and the symbol reads: silk_decoder_set_fs establishes the rate configuration for every legal '
              '(fs_kHz, API rate, nb_subfr) from a fresh or previously configured channel; silk_InitDecoder / silk_ResetDecoder '
              'establish the invariant; the per-channel configuration of silk_Decode (:179-:209) never takes the '
              'SILK_DEC_INVALID_FRAME_SIZE / SILK_DEC_INVALID_SAMPLING_FREQUENCY exits for the arguments the Opus layer passes, returns 0 '
              'with every celt_assert of silk_decoder_set_fs satisfied and leaves frame_length = nb_subfr*5*fs_kHz in (0,320]; for a '
              'configured channel nSamplesOut = nb_subfr*5 ms*Fs_API in (0,960] without wrap or division by zero and every '
              'samplesOut1_tmp extent (frame output +2, resampler input +1, history copies, MS->LR) is inside the allocated '
              'nChannelsInternal*(frame_length+2) elements; silk_stereo_MS_to_LR keeps buffer lengths and produces int16 samples for '
              'every input. WHOLE CALL (silkDecode_contract): for every state satisfying the invariant, every argument tuple the Opus '
              'layer passes (incl. the packet protocol) and oracles within contract, silk_Decode reaches no assertion, takes no error '
              'exit, returns 0, sets nSamplesOut = nb_subfr*5 ms*Fs_API (nb_subfr in {2,4}), produces exactly nSamplesOut*nChannelsAPI '
              'output samples and preserves the invariant — i.e. C01\'s oracle contract OracleOk.silk (fields 1, 2) and the EvOk extent '
              'as a theorem; lifted by list induction to every history of decode / init / reset calls (silkDecode_history); and every array '
              'access the call records (flag arrays, iCDF pointer table, mult_tab, samplesOut1_tmp, samplesOut2_tmp, resampler 1 ms '
              'precondition, strided samplesOut writes) is in bounds (silkDecode_accesses_in_bounds)')
LEVEL_NOTE = ('trusted: Lean kernel; oracle contracts (monitored by the harness wrappers); the correspondence harness (#include of '
              'silk/dec_API.c with the callees renamed to recording wrappers, driven through the real opus_decode*) and line protocol; '
              'C int modelled as unbounded Int with explicit wrap32 / sext16 / sat16 in the MS->LR arithmetic')
TECHNIQUE = 'Lean 4 theorems over an executable control model with contract-bound oracles + differential replay of recorded calls'


def harness(ctx, name, variant):
    for attempt in (0, 1):
        try:
            if not os.path.exists(ctx.lib(variant).a):
                ctx._libs.pop(variant, None)
            return ctx.harness(name, [name + '.c'], variant=variant)
        except RuntimeError:
            if attempt:
                raise
            ctx._libs.pop(variant, None)


def _sizes(ctx):
    return (40, 120) if ctx.quick else (500, 1500)      # (tie sessions, search sessions)


def ties(ctx):
    h = harness(ctx, 'c01_silkapi', 'san')
    n, _ = _sizes(ctx)
    return [common.run_tie('silkapi-rand', [h, 'rand', str(ctx.seed), str(n)]),
            common.run_tie('silkapi-mstolr', [h, 'ms', str(ctx.seed), str(600 if ctx.quick else 12000)])]


def classify(ctx, tie, mm):
    impl = mm.get('impl', '') or ''
    inp = mm.get('input', '')
    model = mm.get('model', '') or ''
    first = impl.split(' ')[0]
    if first in ('SANITIZER', 'ABORT', 'TIMEOUT', 'SIGSEGV'):
        why = {'SANITIZER': 'AddressSanitizer/UBSan report inside silk_Decode (memory safety)',
               'ABORT': 'a hardening assertion (celt_assert) fired inside silk_Decode',
               'TIMEOUT': 'the call did not terminate', 'SIGSEGV': 'the call crashed'}[first]
        return {'suite': tie.name, 'input': inp, 'expected': model, 'observed': impl, 'why': why,
                'sanitizer_report': mm.get('sanitizer_report', getattr(tie, 'sanitizer', []))}
    if first == 'CONTRACT':
        return None
    t = impl.split(' ')
    it = inp.split(' ')
    if len(it) >= 4 and it[1] == 'dec' and len(t) >= 2:
        try:
            ret, nout = int(t[0]), int(t[1])
            a = [int(v) for v in it[3].split(',')]
        except ValueError:
            return None
        if ret != 0:
            return {'suite': tie.name, 'input': inp, 'expected': model, 'observed': impl,
                    'why': 'silk_Decode returned %d for arguments the Opus layer passes (C01 contract: 0)' % ret}
        m = re.search(r'hi=(-?\d+)', impl)
        if m and len(a) == 7 and int(m.group(1)) > nout * a[0]:
            return {'suite': tie.name, 'input': inp, 'expected': model, 'observed': impl,
                    'why': 'silk_Decode wrote samplesOut up to slot %s, beyond nSamplesOut*nChannelsAPI = %d' % (m.group(1), nout * a[0])}
        m = re.search(r'st=(\S+)', impl)
        if m and len(a) == 7:
            try:
                c0 = [int(v) for v in m.group(1).split(';')[0].split(',')]
                if c0[0] and nout != c0[3] * a[2] // (c0[0] * 1000):
                    return {'suite': tie.name, 'input': inp, 'expected': model, 'observed': impl,
                            'why': 'nSamplesOut = %d is not frame_length*Fs_API/(fs_kHz*1000)' % nout}
            except (ValueError, IndexError):
                pass
    return None


def _run(exe, args, timeout):
    env = dict(os.environ)
    env.setdefault('ASAN_OPTIONS', 'detect_leaks=0:abort_on_error=0')
    p = subprocess.run([exe] + args, stdout=subprocess.PIPE, stderr=subprocess.PIPE, text=True, timeout=timeout, env=env,
                       errors='replace')
    return p.returncode, p.stdout, p.stderr


def search(ctx):
    """C01's silk_Decode contract evaluated on the implementation (no model): for every silk_Decode call the real decoder makes
    on random histories (plain and ASan+UBSan builds, hardening assertions on) the return value is 0, nSamplesOut =
    frame_length*Fs_API/(fs_kHz*1000), samplesOut is written exactly up to slot nSamplesOut*nChannelsAPI of a sentinel-filled
    buffer, silk_decode_frame / silk_resampler keep their contracts, no sanitizer report / assertion."""
    _, n = _sizes(ctx)
    cases, wit, kinds, samples = 0, [], {}, []
    for variant, off in (('plain', 1000), ('san', 2000)):
        h = harness(ctx, 'c01_silkapi', variant)
        args = ['rand', str(ctx.seed + off), str(n), 'quiet']
        rc, out, err = _run(h, args, 3000)
        m = re.search(r'# silkapi seed=\d+ sessions=\d+ calls=(\d+) witnesses=(\d+)', out)
        if m:
            cases += int(m.group(1))
        for line in out.split('\n'):
            if line.startswith('W '):
                kind, what, inp = (line[2:].split(' | ') + ['', ''])[:3]
                if kind == 'contract':
                    continue
                kinds[kind] = kinds.get(kind, 0) + 1
                wit.append({'suite': 'silkapi-search-' + variant, 'input': inp[2:] if inp.startswith('I ') else inp,
                            'expected': 'silk_Decode contract holds', 'observed': what,
                            'why': '%s (reproduce: %s %s)' % (kind, os.path.basename(h), ' '.join(args))})
        if rc != 0 or not m:
            rep = [l for l in err.split('\n') if 'ERROR: AddressSanitizer' in l or 'runtime error' in l or l.startswith('SUMMARY:')][:6]
            last = [l for l in out.split('\n') if l.startswith('I ')]
            wit.append({'suite': 'silkapi-search-' + variant, 'input': (last[-1][2:] if last else ' '.join(args)),
                        'expected': 'harness completes', 'observed': 'exit %d: %s' % (rc, (out[-200:] + err[-400:])),
                        'sanitizer_report': rep, 'why': 'decoder run ended abnormally (sanitizer / assertion) (reproduce: %s %s)'
                        % (os.path.basename(h), ' '.join(args))})
        samples.append('%s %s: %s' % (variant, ' '.join(args), (re.search(r'# silkapi.*', out).group(0) if m else 'no summary')))
    return {'cases': cases, 'distinct': 12, 'oracle': search.__doc__, 'samples': samples, 'witnesses': wit[:20], 'witness_kinds': kinds}
