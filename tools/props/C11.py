"""C11 — settings are validated, read back, and honoured in the bitstream (DESIGN.md §7.C11)."""
import os, re, subprocess, time
import common

LEAN_MODULES = ['OpusProps.C11']
GEN = ['CtlConsts']
SOURCES = ['src/opus_encoder.c', 'src/opus_decoder.c', 'src/opus_multistream_encoder.c',
           'src/opus_multistream_decoder.c', 'src/opus_multistream.c', 'src/opus_projection_encoder.c',
           'src/opus_projection_decoder.c', 'celt/celt_encoder.c', 'celt/celt_decoder.c',
           'include/opus_defines.h', 'src/opus_private.h', 'celt/celt.h', 'src/mapping_matrix.c']
RULE = ('per object kind and request an exhaustive value grid (all in-range values of small domains, boundaries +-1, '
        'INT_MIN/INT_MAX, sentinels) with every getter and the hidden state fields compared after EVERY call; random '
        'ctl histories interleaved with encode/decode calls, where after every opus_encode the state left behind must be '
        'what the Lean step function computes for SOME value of the DSP-dependent inputs (720-point oracle grid) and inside '
        'the invariant ranges; forced-settings histories with exact prediction of mode/bandwidth/channels/toMono; '
        'create/init argument grids incl. k-th allocation failure and init on caller memory, surround and projection '
        'constructors for every channel count 1..257 x family; gen_toc on its whole domain; '
        'frame_size_select grid; random settings fixed before the first frame (plus a mid-stream FORCE_CHANNELS change) -> '
        'TOC of every packet, through all three entry points (opus_encode / opus_encode24 / opus_encode_float) and with more '
        'samples supplied than a fixed frame duration needs; histories that re-select the application after OPUS_RESET_STATE (suite ctl-reapp); a '
        'deterministic corpus case (forced mono during a SILK-DTX run); silk_control_audio_bandwidth called directly on '
        'random states and control inputs (return value, sLP.mode, sLP.transition_frame_no, switchReady compared), and, '
        'through ld --wrap, every call it receives inside SILK-heavy real encoder histories (bandwidth limits moved '
        'mid-stream, quiet stretches, tiny budgets, prefill, reset, stereo): per call the same four outputs, the control '
        'inputs against opusSilkIn of the encoder\'s mode/bandwidth, and channel 0\'s state between calls against the '
        'modelled gaps. S4 evaluates reject-unchanged / read-back / '
        'documented-legality / create predicates AND the honour predicates (duration, MDCT-only, channels, bandwidth) on '
        'every packet of every history against the settings the implementation itself reported before the call. '
        'A case is distinct by (suite, op, outcome kind)')
NOT_COVERED = [
    'the DSP-dependent decisions inside opus_encode_native (rate-dependent stereo/mode/bandwidth thresholds, detected '
    'bandwidth, decide_fec, whether SILK turns a frame into DTX) are oracle parameters of the model: the theorems hold '
    'for all their values within the C types (OracleOk), the implementation side of them is only searched (suites '
    'ctl-honour, ctl-rand). ONE oracle field is not free: silkBandwidth, the bandwidth a SILK-only packet signals for '
    'SILK\'s internal rate. honour_bandwidth assumes SilkBwContract of it; honour_bandwidth_silk replaces the assumption '
    'by the model of silk_control_audio_bandwidth (OpusModel/SilkBw.lean, tied by suites ctl-silkbw / ctl-silkbw-enc) '
    'with these residuals: (R1) that opus_encode_native hands SILK the control inputs opusSilkIn computes from the '
    'chain\'s mode/bandwidth (tied on the real encoder, not proved from a model of :2013-2045 inside step); (R2) the '
    'history hypothesis that every SILK/hybrid frame since silk_InitEncoder had a chain bandwidth within the limit '
    '(honour_bandwidth proves it per frame for the settings then in force; after a mid-stream lowering of the limit '
    'SILK follows only when allow_bandwidth_switch/opusCanSwitch permit: silk_rate_down_switch); '
    '(R3) allow_bandwidth_switch, opusCanSwitch and the number of frames between calls are universally quantified',
    'ctl_inv takes encode calls as observed (encodeContract = none is a hypothesis, monitored by suite ctl-rand); the '
    'assumption-free forms are ctl_inv_model (encode = EncDecide.step, any OracleOk oracle) and ctl_inv_skeleton (encode '
    '= the C05 skeleton); their residual is FreeRange / FreeOk: voice_ratio in [-1,100], silk_mode.maxInternalSampleRate '
    'in {8000,12000,16000}, useCBR in {0,1} after an encode call (fields written by analysis/SILK glue code not modelled)',
    'TOC-only packets emitted when the byte budget is below 3 bytes (opus_encoder.c:1267-1333) carry the mode/bandwidth/'
    'channel bits of the PREVIOUS frame state; only their duration is proved (honour_duration); they hold no coded audio '
    'and are treated like DTX packets by the honour clauses',
    'multistream/projection encode: the settings the multistream layer writes into the streams are modelled (msPrep/msPre2) '
    'and tied; the rate allocation itself and each stream\'s encode are oracles / adopted; the honour clauses are proved and '
    'searched on single-stream encoders only',
    'OPUS_SET_DNN_BLOB / DRED / OSCE requests (not compiled in this configuration); opus_custom_* API; '
    'OPUS_PROJECTION_GET_DEMIXING_MATRIX payload bytes (only size/pointer validation is modelled)',
    'projection decoder creation arguments (its ctl is covered: identical to the multistream decoder ctl)',
    'an opus_encode call that fails after the entry checks (negative return from the DSP layers) may leave a partially '
    'updated decision state: only the invariant ranges are monitored for it',
]
ASSUMPTIONS = [
    'a request number is always passed with the argument type its macro prescribes (anything else is undefined behaviour of '
    'the varargs protocol)',
    'honour_bandwidth (not honour_bandwidth_silk): SILK reports an internal sampling rate not above the desired one '
    '(contract SilkBwContract for SILK-only packets; the resulting TOC bandwidth is checked on every packet by suite '
    'ctl-honour)',
    'opus_alloc is plain malloc (allocation failure is injected with ld --wrap=malloc)',
    'ctl_inv, ms_encode_keeps_inv: encode calls inside a history satisfy the monitored contract Opus.Ctl.encodeContract / '
    'msEncodeContract (checked after every call); not assumed by ctl_inv_model / ctl_inv_skeleton',
    'the streams of a multistream / projection encoder are driven through the multistream object only: a caller who takes a '
    'stream with OPUS_MULTISTREAM_GET_ENCODER_STATE and sends it requests directly (e.g. OPUS_RESET_STATE on one stream) owns '
    'the consistency of the streams; such histories are outside MsInv and outside the check',
]
REQUIRED_THEOREMS = ['OpusProps.C11.' + n for n in (
    'set_get', 'set_get_decoder', 'set_get_multistream', 'set_get_ms_decoder', 'bandwidth_reported_after_frame',
    'reject_unchanged', 'application_locked_after_first_frame', 'reject_unchanged_decoder',
    'reject_unchanged_multistream', 'reject_unchanged_ms_decoder',
    'constants_agree', 'ctl_inv', 'ctl_inv_model', 'ctl_inv_skeleton', 'encode_never_changes_settings', 'ctl_inv_decoder', 'ctl_inv_multistream', 'ms_encode_keeps_inv', 'create_rejects', 'create_rejects_multistream', 'create_rejects_surround',
    'create_rejects_projection', 'set_get_projection', 'reject_unchanged_projection',
    'frame_size_select_spec', 'int_ranges', 'honour_duration', 'honour_channels', 'honour_channels_midstream',
    'honour_bandwidth', 'silk_rate_inv', 'silk_rate_constant', 'silk_rate_down_switch',
    'honour_bandwidth_silk', 'lowdelay_celt_only', 'short_frames_celt_only', 'encode_keeps_inv')]
UNPROVED = [
    'int ranges of the decision chain proper need no lemma (comparisons only); the SILK/CELT rate computations that '
    'follow the chain (compute_equiv_rate etc.) are DSP oracles, outside this model',
    'the multistream rate / byte allocation (which streams are starved) is an oracle of ms_encode_keeps_inv; no theorem '
    'depends on it any more since the OPUS_SET_APPLICATION fan-out rolls back (9ffbe457)',
    'projection DEcoder creation arguments: modelled through the multistream decoder only',
]
LEVEL_TEXT = ('proof of the modelled chain: every ctl request of encoder/decoder/multistream/projection objects as a state '
              'machine, proved against documented legal-value tables: set/get read-back, rejection-leaves-state-unchanged (also '
              'for fanned-out multistream setters), a range invariant over all request and encode histories, create/init '
              'validation; frame_size_select, gen_toc and the channels/mode/bandwidth chain of opus_encode_native with its '
              'state update proved to bind the TOC (duration, channel count incl. the mid-stream mono switch, bandwidth limit, '
              'CELT-only cases) for ALL values of the DSP-dependent inputs; constants regenerated from the headers; tied to '
              'the code by exact differential comparison of return codes, all getters and hidden state after every call and '
              'by an oracle-existence check of the state left by every encode call')
LEVEL_NOTE = ('trusted: Lean kernel; harness + line protocol; DSP-dependent decisions are universally quantified oracles '
              '(their implementation is searched, not proved); C int as unbounded Int (all products < 2^31 on the legal domain, '
              'not a theorem); two read-back deviations are recorded known findings (GET_BANDWIDTH, multistream GET_BITRATE)')
TECHNIQUE = 'Lean 4 theorems over an executable ctl/decision-chain model + differential correspondence + witness search'

_EXTRA = ['-Wl,--wrap=malloc', '-Wl,--wrap=free', '-Wl,--wrap=silk_control_audio_bandwidth']
_ENV = {'ASAN_OPTIONS': 'detect_leaks=1:abort_on_error=0', 'UBSAN_OPTIONS': 'print_stacktrace=1'}

ENC_GET = [4001, 4003, 4023, 4005, 4009, 4017, 4011, 4013, 4015, 4007, 11019, 4021, 4025, 4027, 4029, 4031, 4037, 4041,
           4043, 4047, 4049]
DEC_GET = [4009, 4011, 4031, 4029, 4033, 4045, 4039, 4047]
# setter -> getter that must read it back (opus_defines.h); 4008/4009 and the multistream 4002/4003 pair are the two
# recorded read-back deviations and are probed separately under suite `ctl-readback`
ENC_PAIR = {4000: 4001, 4002: 4003, 4022: 4023, 4004: 4005, 4016: 4017, 4010: 4011, 4012: 4013, 4014: 4015, 4006: 4007,
            11018: 11019, 4020: 4021, 4024: 4025, 4036: 4037, 4040: 4041, 4042: 4043, 4046: 4047}
DEC_PAIR = {4010: 4011, 4034: 4045, 4046: 4047}
MS_FWD_GET = {4037, 4007, 4001, 4009, 4011, 4015, 4017, 11019, 4021, 4025, 4027, 4029, 4013, 4023, 4043, 4047}


def _harness(ctx):
    return ctx.harness('c11_ctl', ['c11_ctl.c'], variant='san', extra=_EXTRA)


def ties(ctx):
    h = _harness(ctx)
    q = ctx.quick
    out = []
    out.append(common.run_tie('ctl-honour-dtx', [h, 'honourdtx'], env=_ENV))     # corpus of past failures first
    out.append(common.run_tie('ctl-forceauto', [h, 'forceauto'], env=_ENV))
    out.append(common.run_tie('ctl-fss-range', [h, 'fssbig'], env=_ENV))
    out.append(common.run_tie('ctl-msapp', [h, 'msapp'], env=_ENV))
    out.append(common.run_tie('ctl-funcs', [h, 'funcs'], env=_ENV))
    out.append(common.run_tie('ctl-create', [h, 'create', '0' if q else '1'], env=_ENV))
    out.append(common.run_tie('ctl-grid', [h, 'grid', '0' if q else '1'], env=_ENV))
    out.append(common.run_tie('ctl-rand', [h, 'rand', str(ctx.seed), '3000' if q else '40000'], env=_ENV))
    out.append(common.run_tie('ctl-chain', [h, 'chain', str(ctx.seed), '2000' if q else '25000'], env=_ENV))
    out.append(common.run_tie('ctl-msstarve', [h, 'msstarve', str(ctx.seed), '1500' if q else '25000'], env=_ENV))
    out.append(common.run_tie('ctl-reapp', [h, 'reapp', str(ctx.seed), '1500' if q else '20000'], env=_ENV))
    out.append(common.run_tie('ctl-honour', [h, 'honour', str(ctx.seed), '6000' if q else '80000'], env=_ENV))
    # SILK's internal rate: silk_control_audio_bandwidth called directly, and every call made inside real encoder histories
    out.append(common.run_tie('ctl-silkbw', [h, 'silkbw', str(ctx.seed), '20000' if q else '400000'], env=_ENV))
    out.append(common.run_tie('ctl-silkbw-enc', [h, 'silkenc', str(ctx.seed), '300' if q else '5000'], env=_ENV))
    return out


# ------------------------------------------------------------------ property predicates on the implementation's own output

def _rng(lo, hi, *extra):
    return lambda v, nch: lo <= v <= hi or v in extra


# documented legal arguments (include/opus_defines.h, src/opus_private.h); independent of the Lean model
ENC_LEGAL = {4000: lambda v, n: v in (2048, 2049, 2051), 4002: lambda v, n: v in (-1000, -1) or v > 0,
             4022: lambda v, n: v == -1000 or 1 <= v <= n, 4004: _rng(1101, 1105), 4008: _rng(1101, 1105, -1000),
             4016: _rng(0, 1), 4010: _rng(0, 10), 4012: _rng(0, 2), 4014: _rng(0, 100), 4006: _rng(0, 1),
             11018: _rng(-1, 100), 4020: _rng(0, 1), 4024: lambda v, n: v in (-1000, 3001, 3002), 4036: _rng(8, 24),
             4040: _rng(5000, 5009), 4042: _rng(0, 1), 4046: _rng(0, 1), 11002: _rng(1000, 1002, -1000)}
DEC_LEGAL = {4010: _rng(0, 10), 4034: _rng(-32768, 32767), 4046: _rng(0, 1)}
MS_FWD_SET = {4036, 4010, 4006, 4020, 4004, 4008, 4024, 4000, 4012, 4014, 4016, 11002, 4022, 4042, 4046}
MSDEC_FWD_SET = {4034, 4046}


def _fss_spec(frame_size, vd, fs):
    """frame_size_select as documented (OPUS_SET_EXPERT_FRAME_DURATION): -1 = refused."""
    num = {5001: 1, 5002: 2, 5003: 4, 5004: 8, 5005: 16, 5006: 24, 5007: 32, 5008: 40, 5009: 48}
    if frame_size < fs // 400:
        return -1
    if vd == 5000:
        new = frame_size
    elif vd in num:
        new = fs * num[vd] // 400
    else:
        return -1
    if new > frame_size or new not in [fs * n // 400 for n in num.values()]:
        return -1
    return new


def _toc(toc, fs):
    """(mode, bandwidth, channels, samples per frame) of a TOC byte (RFC 6716 table 2)."""
    if toc & 0x80:
        mode, bw, spf = 1002, (1101, 1103, 1104, 1105)[(toc >> 5) & 3], (fs // 400) << ((toc >> 3) & 3)
    elif (toc & 0x60) == 0x60:
        mode, bw, spf = 1001, 1105 if toc & 0x10 else 1104, fs // 50 if toc & 8 else fs // 100
    else:
        mode, bw = 1000, 1101 + ((toc >> 5) & 3)
        spf = (fs // 100, fs // 50, fs // 25, 3 * fs // 50)[(toc >> 3) & 3]
    return mode, bw, 2 if toc & 4 else 1, spf


def _packet_violation(fs, nch, prevcols, fsz, ret, toc, payload, nfr, since_mono, bw_stable):
    """honour_* evaluated on one packet of the implementation against the settings the implementation itself
    reported (getters + hidden fields) right before the call.  None = honoured."""
    H = len(ENC_GET)
    app, force, maxbw, vd = int(prevcols[0]), int(prevcols[2]), int(prevcols[3]), int(prevcols[17])
    userbw, lfe = int(prevcols[H + 1]), int(prevcols[H + 3])
    fsel = _fss_spec(fsz, vd, fs)
    if fsel <= 0 or ret <= 0:
        return None
    mode, bw, ch, spf = _toc(toc, fs)
    if nfr * spf != fsel:
        return 'duration: %d frame(s) of %d samples for a request of %d' % (nfr, spf, fsel)
    if payload == 0:
        return None                      # DTX / TOC-only packet: no coded audio
    if (app == 2051 or fsel < fs // 100) and mode != 1002:
        return ('the low-delay application' if app == 2051 else 'a frame below 10 ms') + \
               ' must use the MDCT layer only, packet is %s (toc 0x%02x)' % ('LP-only' if mode == 1000 else 'hybrid', toc)
    if nch == 1 and ch != 1:
        return 'stereo packet from a mono encoder'
    if nch == 2 and force == 2 and ch != 2:
        return 'forced stereo, packet is mono'
    if nch == 2 and force == 1 and since_mono >= 3 and ch != 1:
        return 'forced mono for %d packets, packet is still stereo' % since_mono
    if mode != 1000 or bw_stable:
        nyq = 1101 if fs <= 8000 else 1102 if fs <= 12000 else 1103 if fs <= 16000 else 1104 if fs <= 24000 else 1105
        lim = min(userbw if userbw != -1000 else maxbw, nyq)
        if mode == 1002 and lim == 1102:
            lim = 1103
        if bw > lim and not lfe:
            return 'bandwidth %d above the limit %d (forced %d, max %d, Fs %d)' % (bw, lim, userbw, maxbw, fs)
    return None


def _split_snap(kind, snap):
    """-> (object-level getter columns, [per-stream column lists])"""
    parts = snap.split(';')
    return parts[0].split(','), [p.split(',') for p in parts[1:]]


def _history_violations(inp, outp):
    """Evaluate reject_unchanged and set_get on one `ctl <obj> … ops` history as answered by the implementation.
    Returns a list of (suite, minimal input, expected, observed, why)."""
    tok = inp.split()
    if len(tok) < 3 or tok[0] != 'ctl' or tok[1] not in ('enc', 'dec', 'msenc', 'mssur', 'projenc', 'msdec'):
        return []
    kind = tok[1]
    nhdr = {'enc': 5, 'dec': 4, 'msenc': 8, 'mssur': 6, 'projenc': 5, 'msdec': 7}[kind]
    hdr, ops = tok[:nhdr], tok[nhdr:]
    ans = outp.split()
    if len(ans) != len(ops):           # create failed (single error token) or a trap
        return []
    res = []
    nch = int(hdr[3])
    getl = DEC_GET if kind in ('dec', 'msdec') else ENC_GET
    pair = DEC_PAIR if kind in ('dec', 'msdec') else ENC_PAIR
    prev = None                        # (every history starts with a getter: its snapshot is the initial state)
    since_mono, bw_stable = 0, True
    for i, op in enumerate(ops):
        a = ans[i]
        if '/' not in a:
            return res
        ret, snap = a.split('/', 1)
        prefix = ' '.join(hdr + ops[:i + 1])
        if kind == 'enc' and prev is not None:
            pc, H = prev.split(','), len(ENC_GET)
            if op == 'r':
                bw_stable = True
            if op[0] == 'E':
                f = op[1:].split(':')
                if len(f) == 10:
                    why = _packet_violation(int(hdr[2]), nch, pc, int(f[0]), int(f[2]), int(f[4]), int(f[5]), int(f[6]),
                                            since_mono, bw_stable)
                    if why:
                        res.append(('ctl-honour-history', prefix, 'every packet honours the settings in force', 'toc=%s' % f[4],
                                    'a packet produced by opus_encode contradicts the settings the encoder reported before '
                                    'the call (entry point %s): ' % ('opus_encode', 'opus_encode24', 'opus_encode_float')[int(f[9]) % 3] + why))
                    # an encode call must not change a user setting (getters of the settings + the stored
                    # user_bitrate / user_bandwidth / user_forced_mode / lfe); voice_ratio is an analysis slot
                    nc = snap.split(',')
                    setcols = [0, 2, 3, 5, 6, 7, 8, 9, 11, 12, 16, 17, 18, 19, H, H + 1, H + 2, H + 3]
                    chg = [c for c in setcols if c < len(nc) and nc[c] != pc[c]]
                    if chg:
                        names = (ENC_GET + ['user_bitrate_bps', 'user_bandwidth', 'user_forced_mode', 'lfe'])
                        c = chg[0]
                        res.append(('ctl-encode-settings', prefix, '%s stays %s' % (names[c] if c < len(names) else c, pc[c]),
                                    nc[c], 'an opus_encode call changed a user setting (request/field %s: %s -> %s); only a '
                                    'ctl may change settings' % (names[c] if c < len(names) else c, pc[c], nc[c])))
                    if pc[2] != '1':
                        since_mono = 0
                    elif int(f[2]) > 0:          # only calls that produced a packet count towards 'within three packets'
                        since_mono += 1
            else:
                nc = snap.split(',')
                if pc[2] != '1' and nc[2] == '1':
                    since_mono = 0
                if (pc[3], pc[H + 1]) != (nc[3], nc[H + 1]) and pc[H + 4] == '0':
                    bw_stable = False      # bandwidth settings changed mid-stream: SILK's internal rate follows with a delay
        if op[0] != 'E' and op[0] != 'D' and not ret.startswith('OK') and prev is not None and snap != prev:
            res.append(('ctl-reject', prefix, 'state unchanged after %s' % ret, snap,
                        'a ctl call that returned %s changed the observable state (getters / hidden fields)' % ret))
        if op[0] == 's':
            rid, v = op[1:].split(':'); rid = int(rid); v = int(v)
            legal_tab = DEC_LEGAL if kind in ('dec', 'msdec') else ENC_LEGAL
            fwd = {'enc': None, 'dec': None, 'msdec': MSDEC_FWD_SET}.get(kind, MS_FWD_SET | {4002, 4040})
            if rid in legal_tab and (fwd is None or rid in fwd) and ret in ('OK', 'BAD_ARG'):
                ok = legal_tab[rid](v, nch if kind == 'enc' else 2)
                if kind not in ('enc', 'dec') and rid == 4022 and v in (1, 2):
                    ok = None          # depends on the stream layout (forced stereo is refused when a mono stream exists)
                if rid == 4000 and ok and prev is not None:
                    # OPUS_SET_APPLICATION: refused after the first coded frame unless it restates the application
                    sts = [prev.split(',')] if kind == 'enc' else [x.split(',') for x in prev.split(';')[1:]]
                    if any(c[len(ENC_GET) + 4] == '0' and str(v) != c[0] for c in sts):
                        ok = False
                if ok is True and ret != 'OK':
                    res.append(('ctl-legal', prefix, 'OK', ret, 'a documented-legal value (%d) of request %d was refused' % (v, rid)))
                if ok is False and ret == 'OK':
                    res.append(('ctl-legal', prefix, 'BAD_ARG', ret, 'an illegal value (%d) of request %d was accepted' % (v, rid)))
        if op[0] == 'n' and ret != 'BAD_ARG' and ret != 'UNIMPLEMENTED':
            res.append(('ctl-legal', prefix, 'BAD_ARG', ret, 'a getter called with a NULL pointer must return OPUS_BAD_ARG'))
        if op[0] == 'u' and ret != 'UNIMPLEMENTED':
            res.append(('ctl-legal', prefix, 'UNIMPLEMENTED', ret, 'an unknown request number must return OPUS_UNIMPLEMENTED'))
        if op[0] == 's' and ret.startswith('OK'):
            top, streams = _split_snap(kind, snap)
            if rid in pair:
                g = pair[rid]; col = getl.index(g)
                exp = v
                if rid == 4002:
                    if v in (-1000, -1):
                        exp = None
                    elif kind == 'enc':
                        exp = min(max(v, 500), 300000 * nch)
                    else:
                        exp = None     # multistream GET_BITRATE: recorded deviation, probed in _readback_probes
                if exp is not None:
                    cols = []
                    if kind in ('enc', 'dec'):
                        cols = [top[col]]
                    elif kind == 'msdec':
                        cols = [st[col] for st in streams]
                    elif rid == 4040:
                        cols = [top[col]]          # a multistream-level setting (not fanned out)
                    else:
                        cols = [st[col] for st in streams] + ([top[col]] if g in MS_FWD_GET else [])
                    for c in cols:
                        if c != str(exp):
                            res.append(('ctl-readback', prefix + ' g%d' % g, str(exp), c,
                                        'setter %d(%d) returned OK but getter %d reports %s' % (rid, v, g, c)))
                            break
        prev = snap
    return res


def _create_violation(inp, outp):
    tok = inp.split()
    if tok[:2] != ['ctl', 'create']:
        return None
    if 'INCONSISTENT' in outp:
        return ('ctl-create', inp, 'object XOR error', outp, 'create returned an object together with an error code (or neither)')
    m = re.search(r'live=(\d+)', outp)
    if m and m.group(1) != '0':
        return ('ctl-create', inp, 'live=0', outp, 'memory still allocated after a failed create / after destroy (leak)')
    if tok[2] in ('encinit', 'decinit'):
        fs, ch = int(tok[3]), int(tok[4])
        legal = fs in (8000, 12000, 16000, 24000, 48000) and ch in (1, 2) and (tok[2] == 'decinit' or int(tok[5]) in (2048, 2049, 2051))
        exp = 'OK' if legal else 'BAD_ARG'
        if outp.split()[0] != exp:
            return ('ctl-create', inp, exp, outp, 'init must accept exactly the documented rates/channels/applications')
        return None
    if tok[2] in ('projenc', 'mssur'):
        # acceptance tables of the surround / projection constructors (RFC 7845 5.1.1, RFC 8486 3.1/3.2), independent
        # of the Lean model: which (family, channels) define a layout, and the documented error kinds
        fs, ch, fam, app, failk = int(tok[3]), int(tok[4]), int(tok[5]), int(tok[6]), int(tok[7])
        okargs = fs in (8000, 12000, 16000, 24000, 48000) and app in (2048, 2049, 2051)
        ambi = any(ch in (n * n, n * n + 2) for n in range(1, 16)) and ch <= 227
        if tok[2] == 'projenc':
            legal = fam == 3 and ch in (4, 6, 9, 11, 16, 18, 25, 27, 36, 38)
            exp = 'ALLOC_FAIL' if (not legal or failk == 0) else ('OK' if okargs else 'BAD_ARG')
        else:
            legal = (fam == 0 and ch in (1, 2)) or (fam == 1 and 1 <= ch <= 8) or (fam == 255 and 1 <= ch <= 255) or \
                    (fam == 2 and ambi)
            exp = 'BAD_ARG' if not 1 <= ch <= 255 else 'UNIMPLEMENTED' if not legal else 'ALLOC_FAIL' if failk == 0 else \
                  ('OK' if okargs else 'BAD_ARG')
        if outp.split()[0] != exp:
            return ('ctl-create', inp, exp, outp[:200], '%s encoder creation must succeed exactly for the channel counts its '
                    'mapping family defines (and report the documented error otherwise)' %
                    ('projection (family 3)' if tok[2] == 'projenc' else 'surround'))
        return None
    if tok[2] in ('enc', 'dec'):
        fs, ch = int(tok[3]), int(tok[4])
        legal = fs in (8000, 12000, 16000, 24000, 48000) and ch in (1, 2)
        if tok[2] == 'enc':
            legal = legal and int(tok[5]) in (2048, 2049, 2051)
        failk = int(tok[-1])
        exp = 'BAD_ARG' if not legal else ('ALLOC_FAIL' if failk == 0 else 'OK')
        if outp.split()[0] != exp:
            return ('ctl-create', inp, exp, outp, 'create must accept exactly the documented rates/channels/applications '
                    'and report a failed allocation as OPUS_ALLOC_FAIL')
    return None


def _run_lines(cmd, stdin=None):
    e = dict(os.environ); e.update(_ENV)
    p = subprocess.run(cmd, stdout=subprocess.PIPE, stderr=subprocess.DEVNULL, text=True, env=e, input=stdin)
    cur = None
    for line in p.stdout.split('\n'):
        if line.startswith('I '):
            cur = line[2:]
        elif line.startswith('O ') and cur is not None:
            yield cur, line[2:]
            cur = None


def _replay_history(h, line):
    for inp, outp in _run_lines([h, 'stdin'], stdin=line + '\n'):
        return inp, outp
    return None, None


def _shrink(ctx, v):
    """Delta debugging on the op list of a history witness: re-run candidate histories on the implementation (harness mode
    `stdin`; every E op carries its signal kind and seed) and keep a candidate when the same predicate still fails.
    Returns the witness tuple with a minimal `input`."""
    suite, inp, exp, obs, why = v
    tok = inp.split()
    if len(tok) < 3 or tok[1] not in ('enc', 'msenc', 'mssur', 'projenc'):
        return v
    nhdr = {'enc': 5, 'msenc': 8, 'mssur': 6, 'projenc': 5}[tok[1]]
    hdr, ops = tok[:nhdr], [t for t in tok[nhdr:] if t != 'g4029']
    if ops and ops[-1][0] == 'g' and suite == 'ctl-readback':
        ops = ops[:-1]                      # the getter the witness appends for readability
    h = _harness(ctx)
    cls = why.split(':')[0][:40]
    budget = [400]

    def fails(cand):
        if budget[0] <= 0:
            return None
        budget[0] -= 1
        # strip recorded results from E ops: E<fsz>:<bytes>:<sig>:<seed>
        def bare(t):
            f = t[1:].split(':')
            if t[0] != 'E' or len(f) < 4:
                return t
            if tok[1] == 'enc':          # …:<sig>:<seed>:<fmt>
                return 'E%s:%s:0:0:0:%s:%s:%s' % (f[0], f[1], f[-3], f[-2], f[-1])
            return 'E%s:%s:0:0:%s:%s' % (f[0], f[1], f[-2], f[-1])
        line = ' '.join(hdr + [bare(t) for t in cand])
        i2, o2 = _replay_history(h, line)
        if i2 is None:
            return None
        for w in _history_violations(i2, o2):
            if w[0] == suite and w[4].split(':')[0][:40] == cls:
                return w
        return None

    best = fails(ops)
    if best is None:
        return v                            # does not reproduce in isolation: keep the original history
    n = 2
    while len(ops) >= 2 and budget[0] > 0:
        chunk = max(1, len(ops) // n)
        reduced = False
        for i in range(0, len(ops), chunk):
            cand = ops[:i] + ops[i + chunk:]
            w = fails(cand) if cand else None
            if w is not None:
                ops, best, n, reduced = cand, w, max(n - 1, 2), True
                break
        if not reduced:
            if chunk == 1:
                break
            n = min(len(ops), n * 2)
    return (best[0], best[1], best[2], best[3], best[4] + ' [history shrunk to %d ops]' % len(ops))


def _silkbw_violation(tie, inp, impl, model):
    """silk_rate_inv evaluated on the implementation's own answer: inside the documented input ranges (BwInv, BwInOk,
    min <= API rate) the returned rate is 8/12/16 kHz and within [minInternalSampleRate, maxInternalSampleRate]."""
    tok = inp.split()
    if len(tok) >= 12 and tok[1] == 'silkbw':
        try:
            fs, sv, md, tf, api, des, mx, mn, al, cn = [int(x) for x in tok[2:12]]
            ret = int(impl.split()[0])
        except (ValueError, IndexError):
            return None
        sane = (fs in (0, 8, 12, 16) and sv in (0, 8, 12, 16) and md in (-2, 0, 1) and 0 <= tf <= 256 and
                all(x in (8000, 12000, 16000) for x in (des, mx, mn)) and mn <= des <= mx and mn <= api)
        if sane and not (ret in (8, 12, 16) and mn <= ret * 1000 <= mx):
            return {'suite': tie.name, 'input': inp, 'expected': 'a rate in {8,12,16} kHz within [%d,%d] Hz' % (mn, mx),
                    'observed': impl, 'why': 'silk_control_audio_bandwidth returns an internal rate outside the requested '
                    '[minInternalSampleRate, maxInternalSampleRate] (silk_rate_inv)'}
    if len(tok) >= 3 and tok[1] == 'silkbwseq' and 'outside' in model:
        return {'suite': tie.name, 'input': inp[:4000], 'expected': 'every rate within [min,max] and <= API rate', 'observed': model,
                'why': 'inside a real encoder history SILK chose an internal rate outside what Opus asked for: ' + model}
    return None


def classify(ctx, tie, mm):
    inp, impl, model = mm.get('input', ''), mm.get('impl', ''), mm.get('model', '')
    if tie.name.startswith('ctl-silkbw'):
        return _silkbw_violation(tie, inp, impl, model)
    if tie.name.startswith('ctl-honour'):
        # the model side of this suite IS the property predicate evaluated on the implementation's packets
        if model.startswith('VIOLATES'):
            return {'suite': tie.name, 'input': inp, 'expected': 'OK (settings honoured by every packet)', 'observed': model,
                    'why': 'a packet produced by opus_encode contradicts the settings in force: ' + model}
        return None
    for v in _history_violations(inp, impl):
        v = _shrink(ctx, v)
        return {'suite': v[0], 'input': v[1], 'expected': v[2], 'observed': v[3], 'why': v[4]}
    v = _create_violation(inp, impl)
    if v:
        return {'suite': v[0], 'input': v[1], 'expected': v[2], 'observed': v[3], 'why': v[4]}
    if impl in ('SANITIZER', 'ABORT', 'SIGSEGV'):
        return {'suite': tie.name, 'input': inp, 'expected': model, 'observed': impl,
                'why': 'ctl/create/encode call trapped (%s): %s' % (impl, '; '.join(mm.get('sanitizer_report', [])[:3]))}
    if tie.name == 'ctl-funcs' and inp.startswith('ctl fss'):
        a = [int(x) for x in inp.split()[2:5]]
        if str(_fss_spec(*a)) != impl.strip():
            return {'suite': tie.name, 'input': inp, 'expected': str(_fss_spec(*a)), 'observed': impl,
                    'why': 'frame_size_select does not select the documented duration (OPUS_SET_EXPERT_FRAME_DURATION)'}
    if tie.name == 'ctl-funcs' and inp.startswith('ctl toc'):
        # gen_toc is proved to code mode/bandwidth/channels/duration (genToc_*, spf_genToc): a different byte breaks that
        return {'suite': tie.name, 'input': inp, 'expected': model, 'observed': impl,
                'why': 'gen_toc differs from the TOC layout proved to carry mode, bandwidth, channel count and frame duration'}
    return None


def search(ctx):
    """S4: the property predicates evaluated on the implementation alone (no model): a failing ctl leaves every getter and
    hidden field unchanged; an accepted setter is reported by its getter; create accepts exactly the documented
    arguments, leaks nothing, reports allocation failure."""
    h = _harness(ctx)
    t0 = time.time()
    cases = 0
    kinds = set()
    wit = []
    samples = []
    seen = set()
    runs = [[h, 'forceauto'], [h, 'msapp'], [h, 'grid', '0' if ctx.quick else '1'], [h, 'rand', str(ctx.seed + 1000), '2000' if ctx.quick else '20000'],
            [h, 'reapp', str(ctx.seed + 1000), '1500' if ctx.quick else '20000'],
            [h, 'msstarve', str(ctx.seed + 1000), '1000' if ctx.quick else '15000'],
            [h, 'chain', str(ctx.seed + 1000), '1000' if ctx.quick else '10000'],
            [h, 'create', '0' if ctx.quick else '1']]
    for cmd in runs:
        for inp, outp in _run_lines(cmd):
            cases += 1
            tok = inp.split()
            if tok[1] == 'create':
                kinds.add(('create', tok[2], outp.split()[0]))
                v = _create_violation(inp, outp)
                vs = [v] if v else []
            else:
                vs = _history_violations(inp, outp)
                for a in outp.split():
                    kinds.add((tok[1], a.split('/')[0].split('=')[0]))
            for v in vs:
                key = (v[0], v[4][:60])
                if key in seen:
                    continue
                seen.add(key)
                if len(wit) < 4:
                    v = _shrink(ctx, v)
                wit.append({'suite': v[0], 'input': v[1], 'expected': v[2], 'observed': v[3], 'why': v[4]})
            if len(samples) < 3 and len(inp) < 200:
                samples.append('%s -> %s' % (inp, outp[:120]))
    # the two recorded read-back deviations, probed deterministically (KNOWN-FINDING while they exist)
    probes = [('ctl enc 48000 2 2049', 's4008:1101', 'g4009', ENC_GET.index(4009), '1101', False),
              ('ctl msenc 48000 3 2 1 x000102 2049', 's4002:64000', 'g4003', ENC_GET.index(4003), '64000', True)]
    for hdr, sop, gop, col, exp, ms in probes:
        for inp, outp in _run_lines([h, 'probe', hdr.split()[1]]):
            cases += 1
            if not inp.startswith(hdr + ' g4029 ' + sop):
                continue
            ans = outp.split()
            if len(ans) < 2 or '/' not in ans[1]:
                continue
            ret, snap = ans[1].split('/', 1)
            got = snap.split(';')[0].split(',')[col]
            if ret.startswith('OK') and got != exp:
                wit.append({'suite': 'ctl-readback', 'input': '%s %s %s' % (hdr, sop, gop), 'expected': exp, 'observed': got,
                            'why': 'the setter returned OK but the getter of the same name does not report the value'})
    return {'cases': cases, 'distinct': len(kinds), 'seconds': round(time.time() - t0, 1),
            'oracle': 'reject_unchanged + set_get + create_rejects evaluated on the implementation output (no model)',
            'samples': samples, 'witnesses': wit}
