"""C11 — settings are validated, read back, and honoured in the bitstream (DESIGN.md §7.C11)."""
import os, re, subprocess
import common

LEAN_MODULES = ['OpusProps.C11']
GEN = []
SOURCES = ['src/opus_encoder.c', 'src/opus_decoder.c', 'src/opus_multistream_encoder.c',
           'src/opus_multistream_decoder.c', 'src/opus_multistream.c', 'src/opus_projection_encoder.c',
           'src/opus_projection_decoder.c', 'celt/celt_encoder.c', 'celt/celt_decoder.c',
           'include/opus_defines.h', 'src/opus_private.h', 'celt/celt.h', 'src/mapping_matrix.c']
RULE = ('per object kind and request an exhaustive value grid (all in-range values of small domains, boundaries +-1, '
        'INT_MIN/INT_MAX, sentinels) with every getter and the hidden state fields compared after EVERY call; random '
        'ctl histories interleaved with encode/decode calls; forced-settings histories with exact prediction of '
        'mode/bandwidth/channels/toMono; create/init argument grids incl. k-th allocation failure; gen_toc on its whole '
        'domain; frame_size_select grid; random settings fixed before the first frame -> TOC of every packet. A case is '
        'distinct by (suite, op, outcome kind)')
NOT_COVERED = [
    'the DSP-dependent decisions inside opus_encode_native (rate-dependent stereo/mode/bandwidth thresholds, detected '
    'bandwidth, decide_fec, SILK internal rate) are oracle parameters of the model: theorems hold for all their values, '
    'the implementation side of them is only searched (honour suite)',
    'multistream/projection encode: the per-stream state after an encode call is adopted from the implementation '
    '(rate allocation and the surround overrides of bandwidth/mode/channels are not modelled); the honour clauses are '
    'checked on single-stream encoders only',
    'OPUS_SET_DNN_BLOB / DRED / OSCE requests (not compiled in this configuration); opus_custom_* API; '
    'OPUS_PROJECTION_GET_DEMIXING_MATRIX payload bytes (only size/pointer validation is modelled)',
    'projection decoder creation arguments (its ctl is covered: identical to the multistream decoder ctl)',
]
ASSUMPTIONS = [
    'a request number is always passed with the argument type its macro prescribes (anything else is undefined behaviour of '
    'the varargs protocol)',
    'SILK reports an internal sampling rate not above the desired one when the settings were constant since the first frame '
    '(contract of honour_bandwidth for SILK-only packets; monitored by the honour suite)',
    'opus_alloc is plain malloc (allocation failure is injected with ld --wrap=malloc)',
]
REQUIRED_THEOREMS = [
    'OpusProps.C11.set_get', 'OpusProps.C11.reject_unchanged', 'OpusProps.C11.ctl_inv',
    'OpusProps.C11.create_rejects', 'OpusProps.C11.honour_duration', 'OpusProps.C11.honour_channels',
    'OpusProps.C11.honour_bandwidth', 'OpusProps.C11.lowdelay_celt_only', 'OpusProps.C11.short_frames_celt_only',
]
LEVEL_TEXT = ('proof of the modelled chain: every ctl request of encoder/decoder/multistream/projection objects as a state '
              'machine with set/get read-back, rejection-leaves-state-unchanged and a range invariant over all request and '
              'encode histories; frame_size_select, gen_toc and the channels/mode/bandwidth clamp chain of '
              'opus_encode_native proved to bind the TOC (duration, channel count, bandwidth limit, CELT-only cases) for ALL '
              'values of the DSP-dependent inputs; tied to the code by exact differential comparison of return codes, all '
              'getters and hidden state after every call')
LEVEL_NOTE = ('trusted: Lean kernel; harness + line protocol; DSP-dependent decisions are universally quantified oracles '
              '(their implementation is searched, not proved); C int as unbounded Int (all products < 2^31 on the legal domain)')
TECHNIQUE = 'Lean 4 theorems over an executable ctl/decision-chain model + differential correspondence + witness search'

_EXTRA = ['-Wl,--wrap=malloc', '-Wl,--wrap=free']


def _harness(ctx):
    return ctx.harness('c11_ctl', ['c11_ctl.c'], variant='san', extra=_EXTRA)


def ties(ctx):
    h = _harness(ctx)
    q = ctx.quick
    env = {'ASAN_OPTIONS': 'detect_leaks=1:abort_on_error=0', 'UBSAN_OPTIONS': 'print_stacktrace=1'}
    out = []
    out.append(common.run_tie('ctl-funcs', [h, 'funcs'], env=env))
    out.append(common.run_tie('ctl-create', [h, 'create', '0' if q else '1'], env=env))
    out.append(common.run_tie('ctl-grid', [h, 'grid', '0' if q else '1'], env=env))
    out.append(common.run_tie('ctl-rand', [h, 'rand', str(ctx.seed), '400' if q else '6000'], env=env))
    out.append(common.run_tie('ctl-chain', [h, 'chain', str(ctx.seed), '250' if q else '4000'], env=env))
    out.append(common.run_tie('ctl-honour', [h, 'honour', str(ctx.seed), '700' if q else '12000'], env=env))
    return out


def classify(ctx, tie, mm):
    return None
