"""C15 — optimised (SIMD, run-time dispatched) kernels match the portable C code (DESIGN.md §7.C15)."""
import json, os, re, struct
import common

LEAN_MODULES = ['OpusProps.C15']
GEN = ['DispatchTables']
SOURCES = ['celt/x86/x86cpu.c', 'celt/x86/x86cpu.h', 'celt/x86/x86_celt_map.c', 'silk/x86/x86_silk_map.c',
           'celt/x86/pitch_sse.c', 'celt/x86/pitch_sse.h', 'celt/x86/pitch_sse2.c', 'celt/x86/pitch_sse4_1.c',
           'celt/x86/pitch_avx.c', 'celt/x86/vq_sse2.c', 'celt/x86/vq_sse.h', 'celt/x86/celt_lpc_sse4_1.c',
           'celt/pitch.h', 'celt/pitch.c', 'celt/celt.c', 'celt/vq.c', 'celt/vq.h', 'celt/cpu_support.h', 'celt/arch.h',
           'silk/x86/NSQ_sse4_1.c', 'silk/x86/NSQ_del_dec_sse4_1.c', 'silk/x86/NSQ_del_dec_avx2.c',
           'silk/x86/VQ_WMat_EC_sse4_1.c', 'silk/x86/VAD_sse4_1.c', 'silk/x86/main_sse.h', 'silk/x86/SigProc_FIX_sse.h',
           'silk/float/x86/inner_product_FLP_avx2.c', 'silk/float/inner_product_FLP.c', 'silk/VQ_WMat_EC.c',
           'silk/NSQ.c', 'silk/NSQ_del_dec.c', 'silk/NSQ.h', 'silk/VAD.c', 'silk/main.h', 'silk/macros.h', 'silk/SigProc_FIX.h',
           'silk/lin2log.c', 'silk/control_codec.c', 'silk/float/wrappers_FLP.c', 'silk/quant_LTP_gains.c',
           'silk/tables_LTP.c', 'silk/structs.h', 'silk/define.h', 'silk/Inlines.h', 'silk/ana_filt_bank_1.c', 'celt/celt.h']
REQUIRED_THEOREMS = ['OpusProps.C15.' + t for t in (
    'arch_range', 'arch_decision', 'dispatch_shape', 'dispatch_safe', 'float_kernels_fixed_below_avx2', 'vqWMatEC_sse_eq_c',
    'lanes_eq_seq_inner_prod', 'lanes_eq_seq_dual_inner_prod', 'lanes_eq_seq_xcorr_kernel',
    'lanes_eq_seq_pitch_xcorr', 'lanes_eq_seq_comb_filter', 'lanes_eq_seq_inner_product_flp',
    'nsq_scale_states_sse_eq_c', 'vad_energy_sse_eq_c', 'sar_round_smulww_avx2_eq_c', 'nsq_del_dec_avx2_lane_ops_eq_c', 'pvq_search_relational',
    'pvq_presearch_contract_exact')]
UNPROVED = [
    'comb_filter_inplace_sse_eq_c: comb_filter_const_sse = comb_filter_const_c when called in place (y == x) for T >= '
    'COMBFILTER_MINPERIOD = 15 (holds for T >= 6: the SSE code then only reads samples an in-place run has already finalised). '
    'lanes_eq_seq_comb_filter is the out-of-place statement; the in-place case is covered by the exact-domain tie (combip, every '
    'length at T = 15 and random T >= 15), not by a theorem.',
    'nsq_del_dec_simd_eq_c: silk_NSQ_del_dec_sse4_1 / silk_NSQ_del_dec_avx2 return the same silk_nsq_state, indices and pulses as '
    'silk_NSQ_del_dec_c for every state the encoder can hand over (about 2000 lines of intrinsics; only silk_sar_round_smulww has a '
    'Lean model; guarded by the differential search S4 on live and perturbed encoder states). For silk_NSQ_sse4_1 the part that '
    'differs from silk_NSQ_c on reachable shapes — silk_nsq_scale_states_sse4_1 — is proved equal; that the rest of the function is '
    'the same text as silk_NSQ_c (plus a table and a branch used only for the unselectable shaping order 10) is a fact of the source, '
    'not a theorem.',
    'vad_simd_eq_c: silk_VAD_GetSA_Q8_sse4_1 = silk_VAD_GetSA_Q8_c as whole functions (the only part that differs, the sub-frame '
    'energy loop, is proved equal; that the remaining text is identical is a fact of the source; S4 compares the whole functions).',
    'pvq_contracts: the two contracts under which pvq_search_relational is proved are properties of float code: '
    '(1) the pre-search never allocates more than K pulses (C: floor((K+0.8)/sum * X[j]); SSE2: cvttps of an _mm_rcp_ps-scaled '
    'vector) — proved in exact arithmetic over any ordered field with a relative-error margin eps*(5K+4) < 1 '
    '(pvq_presearch_contract_exact); that binary32 rounding stays inside the margin is assumed, not proved; (2) the arg-max never selects one of the three padding lanes (X = -100, y = 100). Their consequence (K pulses, signs, '
    'yy) is what S4 checks on the compiled kernels; the quality of the SSE2 choices (rsqrt approximation) is checked against a '
    'calibrated margin only.',
    'float_error_bound: |SIMD - C| <= 2*gamma_n*sum|x_i*y_i| in IEEE binary32/64 arithmetic for the reduction kernels. The Lean '
    'theorems are over an arbitrary commutative semiring (equal as real numbers, hence differing by reassociation only); the '
    'rounding-error bound itself is the textbook a-priori bound, used as the S4 oracle, not formalised.',
]
RULE = ('exact domain, enumerated: every length 0..72 (thorough: 0..1100) for celt_inner_prod, dual_inner_prod, xcorr_kernel, '
        'silk_inner_product_FLP; celt_pitch_xcorr for every len with max_pitch sweeping the 8-/4-lag blocks and the tail, and every '
        'max_pitch 1..40; comb_filter_const out of place and in place; every variant (portable, SIMD by symbol, call macro at arch '
        '0..4) on the same data; every variant at 4 random buffer alignments (0..7 floats off a 32-byte boundary), data always ending '
        'at the end of an exact-size heap block under ASan. Random (seeded): lengths up to 1100 incl. the codec\'s frame/lag sizes, '
        'five data styles (all-at-bound so the sum reaches 2^24, alternating, position-coded, sparse, uniform). silk_VQ_WMat_EC: the '
        'three real LTP codebooks with correlation-like matrices, random codebooks of 0..40 vectors, int8/uint8 extremes, full-range '
        '32-bit data in the non-sanitizer build. Arch selection: all 2^6 combinations of the CPUID bits read x nIds in '
        '{0,1,6,7,8,13} x 18 values of the cap variable, plus random registers. Dispatch: every table, every index. '
        'silk_nsq_scale_states: 8/12/16 kHz geometry and odd sub-frame/memory lengths (vector tails), gains and states over the whole '
        '32-bit range, equal/changed gain, voiced/unvoiced, re-whitening on/off; silk_INVERSE32_varQ / silk_DIV32_varQ / '
        'silk_sar_round_smulww on random and boundary operands; VAD energy loop: every loop executed by both compiled functions '
        '(recorded through a macro hook) on random, loud, silent and injected extreme band signals (all -32768). A case is '
        'distinct by (operation, variant set, outcome class).')
NOT_COVERED = [
    'observation (dead code, not a violation): silk_noise_shape_quantizer_10_16_sse4_1 (silk/x86/NSQ_sse4_1.c:283-660, entered only for '
    'shapingLPCOrder=10 and predictLPCOrder=16) is not bit-exact with silk_NSQ_c — it feeds a stale local sDiff_shp_Q14 into the shaping '
    'filter — but silk_setup_complexity only selects orders 12,14,16,20,24, so no encoder input reaches it; the search probes it and '
    'prints the count as an observation',
    'the per-sample loops of silk_NSQ_del_dec_sse4_1 / silk_NSQ_del_dec_avx2 and the parts of silk_VAD_GetSA_Q8_sse4_1 outside the '
    'energy loop have no Lean model as whole programs (scale-states, the AVX2 lane helpers, silk_sar_round_smulww and the VAD energy '
    'loop do): for them the C-vs-SIMD comparison is differential only (live encoder states at every arch level plus structured '
    'perturbations) and is counted as search, not proof',
    'op_pvq_search_c / op_pvq_search_sse2: the integer bookkeeping (pulse counts, yy, "too many pulses left" branch, sign restoration) '
    'is modelled (OpusModel/KernelsPvq.lean) and tied: the pre-search counts and arg-max positions are recorded in the compiled '
    'kernels and the model must reproduce iy and yy. The floating-point parts themselves (which counts / positions are chosen) are '
    'oracles: the quality of the choices is searched against a calibrated margin only',
    'floating-point rounding-error bounds are not formalised; NaN/Inf/denormal inputs are not in the exact domain (the search uses '
    'finite floats of wide dynamic range with the a-priori reassociation bound)',
    'only the CPU levels the sandbox CPU supports are executed (here all five: the CPU has SSE4.1, AVX2 and FMA); fixed-point '
    '(celt_fir_sse4_1, xcorr_kernel_sse4_1, celt_inner_prod_sse2/_sse4_1, silk_burg_modified_sse4_1, silk_inner_prod16_sse4_1) and '
    'ARM/NEON kernels are not compiled in this configuration',
    'kernels presumed at compile time (SSE, SSE2 on x86-64) have no dispatch table: celt_inner_prod_sse, dual_inner_prod_sse, '
    'xcorr_kernel_sse, comb_filter_const_sse, op_pvq_search_sse2 are called directly at every arch level, so "packets identical at '
    'arch levels 0..3" compares the integer kernels only',
]
ASSUMPTIONS = ['x86-64 float build with OPUS_HAVE_RTCD, SSE/SSE2 presumed, SSE4.1/AVX2 run-time dispatched (the extractor prints the '
               'macro set into Gen/DispatchTables.lean and dispatch_shape is re-proved against it)',
               'the exact-domain differential presupposes IEEE binary32/binary64 arithmetic with round-to-nearest and no '
               'flush-to-zero surprises on integers below 2^24 / 2^53 (every operation is then exact)',
               'two\'s-complement wrap of 32-bit signed arithmetic in silk_MLA etc. as implemented by gcc (the model wraps explicitly)']
TRUSTED = [
           'the 0x49/0x9e/0x4e/0x99/0x55 shuffle immediates, the mask table of xcorr_kernel_avx and the loop bounds are hand-transcribed '
           'from the intrinsics into OpusModel/Kernels.lean; a transcription error shows up in the exact-domain differential',
           'Intel intrinsics semantics as modelled (one small Lean definition per intrinsic)']

CAL = json.load(open(os.path.join(common.VERIF, 'tools', 'c15_calibration.json')))


EXTRA = {'c15_pvq': (), 'c15_nsq': ('-msse4.1', '-mavx2', '-mfma'), 'c15_vadnrg': ('-msse4.1',)}


def _harness(ctx, name, variant, link_lib=True):
    """ctx.harness with one retry: the library cache (tools/common.py keeps the 8 newest builds) is shared with the other
    property checks, so a build directory can be pruned between the library build and the harness compilation."""
    for attempt in (0, 1):
        try:
            return ctx.harness(name, [name + '.c'], variant=variant, link_lib=link_lib, extra=EXTRA.get(name, ()))
        except RuntimeError:
            if attempt:
                raise
            ctx._libs.pop(variant, None)


def _k(ctx, variant):
    return _harness(ctx, 'c15_kernels', variant)


def _codec(ctx, variant):
    return _harness(ctx, 'c15_codec', variant)


def _nsq(ctx, variant):
    return _harness(ctx, 'c15_nsq', variant)


def _vad(ctx, variant):
    return _harness(ctx, 'c15_vadnrg', variant)


def _pvq(ctx, variant):
    return _harness(ctx, 'c15_pvq', variant)


def _arch(ctx):
    return _harness(ctx, 'c15_arch', 'plain', link_lib=False)


def pre_build(ctx):
    """Compile every harness right after the library builds (they link libopus.a statically, so later pruning of the
    shared library cache cannot affect them)."""
    for v in ('plain', 'san'):
        _k(ctx, v)
        _codec(ctx, v)
    _nsq(ctx, 'san'); _nsq(ctx, 'plain'); _vad(ctx, 'san'); _pvq(ctx, 'san')
    _arch(ctx)
    return {}


def ties(ctx):
    q, s = ctx.quick, str(ctx.seed)
    ks, kp = _k(ctx, 'san'), _k(ctx, 'plain')
    out = []
    corpus = os.path.join(common.VERIF, 'corpus', 'C15', 'nsq_lines.txt')
    if os.path.exists(corpus):
        out.append(common.run_tie('kernels-corpus', ['sh', '-c', 'grep "^kernels" "%s" | "%s" stdin' % (corpus, _nsq(ctx, 'plain'))]))
    out.append(common.run_tie('kernels-float-exact', [ks, 'float', s, '1200' if q else '30000', '0' if q else '1']))
    out.append(common.run_tie('kernels-vqwmat', [ks, 'vq', s, '2000' if q else '40000', '0']))
    out.append(common.run_tie('kernels-vqwmat-fullrange', [kp, 'vq', s, '1000' if q else '20000', '1']))
    out.append(common.run_tie('kernels-dispatch', [kp, 'dispatch']))
    out.append(common.run_tie('kernels-nsq-scale-states', [_nsq(ctx, 'san'), 'scale', s, '500' if q else '12000']))
    out.append(common.run_tie('kernels-nsq-avx2-lanes', [_nsq(ctx, 'plain'), 'lanes', s, '3000' if q else '120000']))
    out.append(common.run_tie('kernels-nsq-helpers', [_nsq(ctx, 'plain'), 'helpers', s, '6000' if q else '200000']))
    out.append(common.run_tie('kernels-vad-energy', [_vad(ctx, 'san'), 'run', s, '250' if q else '8000']))
    out.append(common.run_tie('kernels-pvq-bookkeeping', [_pvq(ctx, 'san'), 'run', s, '4000' if q else '150000']))
    out.append(common.run_tie('kernels-selectarch', [_arch(ctx), 'enum', s, '4000' if q else '300000']))
    return out


# ------------------------------------------------------------------ independent evaluation of the specification (Python)

def _ints(s):
    return [] if s == '-' else [int(x) for x in s.split(',')]


def _f32(v):
    if abs(v) >= 1 << 24:
        return 'INEXACT'
    return 'f%08x' % struct.unpack('>I', struct.pack('>f', float(v)))[0]


def _f64(v):
    if abs(v) >= 1 << 53:
        return 'INEXACT'
    return 'd%016x' % struct.unpack('>Q', struct.pack('>d', float(v)))[0]


def _spec(toks):
    """Exact value the property prescribes on the exact domain, as the harness prints it (None if not a reduction op)."""
    op = toks[1]
    if op == 'inner':
        x, y = _ints(toks[3]), _ints(toks[4])
        return _f32(sum(a * b for a, b in zip(x, y)))
    if op == 'dual':
        x, y1, y2 = _ints(toks[3]), _ints(toks[4]), _ints(toks[5])
        return _f32(sum(a * b for a, b in zip(x, y1))) + ',' + _f32(sum(a * b for a, b in zip(x, y2)))
    if op == 'xcorr4':
        n = int(toks[3]); x, y, s = _ints(toks[4]), _ints(toks[5]), _ints(toks[6])
        return ','.join(_f32(s[k] + sum(x[j] * y[j + k] for j in range(n))) for k in range(4))
    if op == 'pitchxcorr':
        n, mp = int(toks[3]), int(toks[4]); x, y = _ints(toks[5]), _ints(toks[6])
        return ','.join(_f32(sum(x[j] * y[i + j] for j in range(n))) for i in range(mp))
    if op in ('comb', 'combip'):
        T, N = int(toks[3]), int(toks[4]); g10, g11, g12 = int(toks[5]), int(toks[6]), int(toks[7])
        b = _ints(toks[8]); out = []
        for i in range(N // 4 * 4):
            v = b[i + T + 2] + g10 * b[i + 2] + g11 * (b[i + 3] + b[i + 1]) + g12 * (b[i + 4] + b[i])
            out.append(v)
            if op == 'combip':
                b[i + T + 2] = v
        return ','.join(_f32(v) for v in out)
    if op == 'flp':
        x, y = _ints(toks[3]), _ints(toks[4])
        return _f64(sum(a * b for a, b in zip(x, y)))
    return None


def _arch_spec(toks):
    nids, ecx, edx, ebx = (int(t) for t in toks[2:6])
    bit = lambda v, n: (v >> n) & 1
    lvl = 0
    if nids >= 1:
        sse, sse2, sse41 = bit(edx, 25), bit(edx, 26), bit(ecx, 19)
        avx2 = bit(ecx, 28) and bit(ecx, 12) and nids >= 7 and bit(ebx, 5)
        for f in (sse, sse2, sse41, avx2):
            if not f:
                break
            lvl += 1
    if toks[6] != '-':
        lvl = min(lvl, int(toks[6]))
    return str(lvl)


def classify(ctx, tie, mm):
    """A disagreement is turned into a witness when the implementation's own answer contradicts the property:
    a kernel variant that does not return the exact value on the exact domain (reassociation error is zero there), a SIMD
    integer kernel that differs from the portable one, an arch value or table entry other than the specified one, or a
    trap.  The expected value is recomputed here in Python, independently of the Lean model; if every implementation
    variant agrees with that value the model is at fault and the line is reported as a broken correspondence."""
    inp, impl = mm.get('input', ''), mm.get('impl', '')
    toks = inp.split(' ')
    op = toks[1] if len(toks) > 1 else ''
    why = None
    expected = mm.get('model')
    if impl in ('SANITIZER', 'ABORT', 'SIGSEGV'):
        why = ('the kernel trapped (%s: read/write outside the buffers the caller owns, undefined behaviour or assertion) '
               'on this input' % impl)
    elif op in ('inner', 'dual', 'xcorr4', 'pitchxcorr', 'comb', 'combip', 'flp'):
        try:
            want = _spec(toks)
        except (ValueError, IndexError):
            want = None
        if want is None or 'INEXACT' in want:
            return None
        bad = []
        for part in impl.split(' '):
            if '=' not in part:
                continue
            v, val = part.split('=', 1)
            if val != want:
                bad.append(v + ('(alignment-dependent)' if '@' in val else ''))
        if not bad:
            return None
        expected = want
        why = ('on integer-valued inputs whose partial sums are all exact in the kernel\'s float type every summation order '
               'gives the same result, so any variant must return the exact value bit for bit; variant(s) %s do not '
               '(an element is dropped, duplicated, taken from a neighbouring address or wrongly combined)' % ', '.join(bad))
    elif op == 'vqwmat':
        vals = dict(p.split('=', 1) for p in impl.split(' ') if '=' in p)
        c = vals.get('c')
        bad = [v for v, x in vals.items() if x != c]
        if not bad:
            return None
        expected = 'every variant = c = %s' % c
        why = 'silk_VQ_WMat_EC: variant(s) %s are not bit-identical to the portable function' % ', '.join(bad)
    elif op in ('nsqscale', 'vadnrg', 'sarround', 'lane'):
        if 'X-MISMATCH' in impl:
            return None
        vals = dict(p.split('=', 1) for p in impl.split(' ') if '=' in p)
        c = vals.get('c')
        bad = [v for v, x in vals.items() if x != c]
        if not bad:
            return None           # every compiled variant agrees with the C code: the model is at fault
        expected = 'every variant = c = %s' % (c or '')[:300]
        why = ('%s: variant(s) %s are not bit-identical to the portable C code on this input'
               % ({'nsqscale': 'silk_nsq_scale_states', 'vadnrg': 'VAD sub-frame energy loop',
                   'sarround': 'silk_sar_round_smulww', 'lane': 'NSQ_del_dec_avx2.c lane helper ' + (toks[2] if len(toks) > 2 else '')}[op],
                  ', '.join(bad)))
    elif op == 'pvq':
        # the relational property evaluated on the kernel's own answer
        try:
            K = int(toks[4]); signs = _ints(toks[7])
            m = re.match(r'iy=(\S+) yy=(\S+)', impl)
            iy = _ints(m.group(1)); yy = float(m.group(2))
        except (ValueError, IndexError, AttributeError):
            return None
        bad = []
        if sum(abs(v) for v in iy) != K:
            bad.append('sum|iy| = %d, not K = %d' % (sum(abs(v) for v in iy), K))
        if any((v > 0 and s) or (v < 0 and not s) for v, s in zip(iy, signs)):
            bad.append('a pulse has the opposite sign of its coefficient')
        if yy != sum(v * v for v in iy):
            bad.append('returned yy is not sum iy^2')
        if not bad:
            return None           # the kernel's answer satisfies the property: recording / model at fault
        expected = 'K pulses, signs follow X, yy = sum iy^2 (model: %s)' % (expected or '')[:200]
        why = 'op_pvq_search_%s: %s' % (toks[2], '; '.join(bad))
    elif op == 'selectarch':
        try:
            want = _arch_spec(toks)
        except (ValueError, IndexError):
            return None
        if impl.split(' ')[0] == want and 'queried' not in impl:
            return None
        expected = want
        why = ('opus_select_arch returns another level than the number of leading available feature sets '
               '(SSE, SSE2, SSE4.1, AVX2 with AVX+FMA+leaf 7) capped by OPUS_VERIF_ARCH_CAP'
               if 'queried' not in impl else 'opus_cpu_feature_check queries a CPUID leaf the CPU does not announce')
    elif op == 'dispatch':
        why = ('RTCD table %s holds %s at index %s; the configuration requires %s (portable function below the kernel\'s '
               'feature level, the SIMD function from it on)' % (toks[2], impl, toks[4] if len(toks) > 4 else '?', expected))
    if why is None:
        return None
    return {'suite': tie.name, 'input': inp, 'expected': expected, 'observed': impl, 'why': why,
            'sanitizer_report': mm.get('sanitizer_report')}


# ------------------------------------------------------------------ S4

def _run_search(cmd, suite, env, timeout=3000):
    rc, out = common.sh(cmd, env=env, timeout=timeout)
    wit, cases, notes, dist = [], 0, [], {}
    for line in out.split('\n'):
        if line.startswith('V '):
            parts = line[2:].split(' | ')
            if len(parts) >= 3:
                wit.append({'suite': suite, 'input': parts[0], 'expected': parts[1], 'observed': ' | '.join(parts[2:]),
                            'why': 'property predicate fails on the implementation: ' + parts[1]})
        m = re.match(r'# search cases=(\d+) violations=(\d+)', line)
        if m:
            cases = int(m.group(1))
        elif line.startswith('# running cfg '):
            pass
        elif line.startswith('# dist '):
            notes.append(line[7:])
        elif line.startswith('# '):
            notes.append(line[2:])
    if rc != 0 and not wit:
        running = [l for l in out.split('\n') if l.startswith('# running cfg ')]
        if running and os.path.basename(cmd[0]).startswith('c15_codec') and cmd[1] == 'wrap':
            # the configuration in flight when the process died, as a stand-alone replay
            cmd = [cmd[0], 'cfg', running[-1].split(' ')[3], cmd[4], cmd[5]]
        tail = [l for l in out.split('\n') if 'runtime error' in l or 'assertion failed' in l.lower() or 'Fatal (internal) error' in l or 'ERROR: AddressSanitizer' in l or l.startswith('SUMMARY')
                or l.startswith('O ABORT') or l.startswith('O SIG') or re.match(r'\s+#[0-4] ', l)]
        wit.append({'suite': suite, 'input': ' '.join(('c15_codec' if os.path.basename(c).startswith('c15_codec') else
                                                       'c15_kernels' if os.path.basename(c).startswith('c15_kernels') else
                                                       os.path.basename(c)) if i == 0 else c for i, c in enumerate(cmd)),
                    'expected': 'kernels run without sanitizer report / abort',
                    'observed': '; '.join(t.strip() for t in tail[:6]) or ('exit code %d: %s' % (rc, out[-400:])),
                    'why': 'the implementation trapped (out-of-bounds access, undefined behaviour or assertion) during the search'})
    return wit, cases, notes


def search(ctx):
    """Property predicates evaluated on the implementation only."""
    q, s = ctx.quick, str(ctx.seed)
    env = {'ASAN_OPTIONS': 'detect_leaks=0:abort_on_error=0', 'UBSAN_OPTIONS': 'print_stacktrace=1'}
    wit, cases, notes, samples = [], 0, [], []
    ppm = str(CAL['threshold_ppm'])
    runs = []
    corpus = os.path.join(common.VERIF, 'corpus', 'C15', 'codec_cfgs.txt')
    if os.path.exists(corpus):
        for line in open(corpus):
            t = line.split('#')[0].split()
            if len(t) == 3:
                runs.append(('codec-corpus', [_codec(ctx, 'plain'), 'cfg'] + t))
    runs += [
        ('kernels-search', [_k(ctx, 'san'), 'search', s, '140000' if q else '4000000', ppm]),
        ('codec-wrapped', [_codec(ctx, 'plain'), 'wrap', s, '14' if q else '260', '2' if q else '4', '1' if q else '2']),
        ('codec-wrapped-extreme', [_codec(ctx, 'plain'), 'wrapx', s, '8' if q else '300', '0', '1']),
        ('codec-wrapped-sanitizer', [_codec(ctx, 'san'), 'wrap', str(ctx.seed + 1000), '5' if q else '50', '0', '1']),
    ]
    if not q:
        # upstream's own self-check: every SIMD kernel re-runs the C kernel and asserts equality (OPUS_CHECK_ASM +
        # ENABLE_ASSERTIONS build); a fired assert aborts, and the configuration in flight becomes the witness
        runs.append(('codec-checkasm', [_codec(ctx, 'checkasm'), 'wrap', str(ctx.seed + 2000), '120', '0', '1']))
    for suite, cmd in runs:
        w, c, n = _run_search(cmd, suite, env)
        wit += w; cases += c
        notes += ['%s: %s' % (suite, x) for x in n]
        samples.append('%s %s -> %d cases, %d violations' % (suite, ' '.join(cmd[1:]), c, len(w)))
    return {'cases': cases, 'distinct': 24,
            'oracle': 'on the real library: (a) float kernels on arbitrary finite floats: |SIMD - C| <= 2*gamma_n*sum|x_i*y_i| '
                      '(a-priori bound for any two summation orders; no empirical threshold); op_pvq_search_c/_sse2: sum|iy| = K, '
                      'pulse signs follow X, returned yy = sum iy^2, SSE2 score within %d ppm of the C score (calibrated: '
                      'tools/c15_calibration.json); (b) whole codec with interposed dispatch tables: at every dispatched call the '
                      'portable function and every SIMD function of the table run on copies of the live state and of structured '
                      'perturbations of it; silk_NSQ*/silk_VAD/silk_VQ_WMat_EC outputs and states byte-identical, '
                      'silk_inner_product_FLP/celt_pitch_xcorr within the a-priori bound; (c) OPUS_VERIF_ARCH_CAP unset,0..4: table '
                      'index actually used = min(cap, host), packets and final ranges identical between arch levels whose float '
                      'tables coincide, every decoder level decodes every encoder level to the encoder\'s final range, PCM '
                      'identical between float-equivalent decoder levels; (d) the same under ASan+UBSan on live states; (e) thorough tier: the '
                      'same whole-codec load on an OPUS_CHECK_ASM + ENABLE_ASSERTIONS build (upstream\'s in-kernel self-checks; a fired '
                      'assert is a witness)'
                      % CAL['threshold_ppm'],
            'notes': notes[:60],
            'samples': samples,
            'witnesses': wit[:10]}


def replay(ctx, obj):
    """Re-run the recorded input on the implementation (and on the model where one exists)."""
    inputs = [obj.get('input', '')] + [w.get('input', '') for w in obj.get('other_witnesses', [])]
    lines = [l for l in inputs if l.startswith('kernels ')]
    cmds = [l for l in inputs if l.startswith('c15_codec ') or l.startswith('c15_kernels ')]
    if not lines and not cmds:
        print('replay: nothing to re-run in %s; re-running the whole check' % obj.get('kind'))
        import sys
        os.execv(sys.executable, [sys.executable, os.path.join(common.VERIF, 'tools', 'check.py'), ctx.prop,
                                  '--tier', obj.get('tier', 'quick')])
    env = {'ASAN_OPTIONS': 'detect_leaks=0:abort_on_error=0'}
    bad = 0
    if lines:
        common.lake_build(['opusmodel'])
        nsq = [l for l in lines if l.split(' ')[1] in ('nsqscale', 'invvarq', 'divvarq', 'sarround', 'lane')]
        if nsq:
            rc, out = common.sh([_nsq(ctx, 'san'), 'stdin'], input='\n'.join(nsq) + '\n', env=env)
            impl = [l[2:] for l in out.split('\n') if l.startswith('O ')]
            model = common.model_eval(nsq)
            for i, l in enumerate(nsq):
                a = impl[i] if i < len(impl) else '(no answer)'
                print('input: %s\n  impl:  %s\n  model: %s' % (l[:300], a[:600], (model[i] if i < len(model) else '')[:600]))
                if i >= len(impl) or a != model[i]:
                    bad += 1
        vadl = [l for l in lines if l.split(' ')[1] == 'vadnrg']
        if vadl:
            print('input: %s  (re-run by the whole check: `c15_vadnrg run`)' % vadl[0][:200])
            bad += common.run_tie('kernels-vad-energy', [_vad(ctx, 'san'), 'run', str(obj.get('seed', 1)), '250']).n_mismatch
        ker = [l for l in lines if l.split(' ')[1] not in ('selectarch', 'dispatch', 'nsqscale', 'invvarq', 'divvarq', 'sarround', 'lane', 'vadnrg')]
        if ker:
            rc, out = common.sh([_k(ctx, 'san'), 'stdin'], input='\n'.join(ker) + '\n', env=env)
            impl = [l[2:] for l in out.split('\n') if l.startswith('O ')]
            model = common.model_eval(ker)
            for i, l in enumerate(ker):
                a = impl[i] if i < len(impl) else '(no answer)'
                print('input: %s\n  impl:  %s\n  model: %s' % (l[:300], a[:600], (model[i] if i < len(model) else '')[:600]))
                if i >= len(impl) or a != model[i]:
                    bad += 1
        for l in lines:
            if l.split(' ')[1] in ('selectarch', 'dispatch'):
                print('input: %s  (re-run by the whole check: `c15_arch enum` / `c15_kernels dispatch`)' % l)
                for t in ties(ctx)[3:]:
                    bad += t.n_mismatch
                break
    for c in cmds:
        t = c.split(' ')
        var = 'checkasm' if any(w.get('input') == c and w.get('suite') == 'codec-checkasm'
                                for w in [obj] + obj.get('other_witnesses', [])) else 'plain'
        exe = _codec(ctx, var) if t[0] == 'c15_codec' else _k(ctx, 'san')
        rc, out = common.sh([exe] + t[1:], env=env)
        v = [l for l in out.split('\n') if l.startswith('V ')]
        print('command: %s\n  %s' % (c, '\n  '.join(x[:500] for x in v[:5]) or 'no violation'))
        bad += len(v) + (1 if rc != 0 and not v else 0)
    if bad:
        print('VIOLATION property=C15 replay reproduced (%d disagreement(s))' % bad)
        return 1
    print('replay: implementation agrees with the property on the recorded input(s)')
    return 0


LEVEL_TEXT = ('proof (partial): kernel-checked Lean theorems for all inputs that (i) opus_select_arch returns 0..4, follows the '
              'feature-prefix decision list, and every regenerated RTCD table holds at every selectable index a real function whose '
              'feature level the CPU has; (ii) silk_VQ_WMat_EC_sse4_1 equals silk_VQ_WMat_EC_c bit for bit for every input, '
              'silk_nsq_scale_states_sse4_1 equals silk_nsq_scale_states as a whole, the VAD sub-frame energy loop of the SSE4.1 kernel '
              'equals the portable one, silk_sar_round_smulww (AVX2) equals RSHIFT_ROUND(SMULWW) of the C kernel; (iii) '
              'celt_inner_prod_sse, dual_inner_prod_sse, xcorr_kernel_sse, celt_pitch_xcorr_avx2/_c, comb_filter_const_sse and '
              'silk_inner_product_FLP_avx2/_c equal the sequential sums for every length in any commutative semiring (so they differ '
              'from the C code by reassociation only); the models are tied to the compiled kernels by an exact-domain differential '
              'run (bit-identical on integer-valued floats, every length, random alignments, under ASan) and by direct differentials of '
              'the static integer functions (#include of the .c files). The sample loops of the NSQ_del_dec kernels, the remainder of '
              'the VAD kernel and the PVQ search are compared with their C twins by differential search only.')
LEVEL_NOTE = ('trusted: Lean kernel; extractor + regen; harness/line protocol; intrinsic semantics as modelled. Not proved: NSQ / NSQ_del_dec '
              '/ VAD / op_pvq_search SIMD = C (search only, on live + perturbed encoder states and all arch caps); IEEE rounding-error '
              'bounds. Fixed-point and ARM kernels are not part of this build.')
TECHNIQUE = ('Lean 4 theorems over executable lane-level models (generic commutative semiring; modular arithmetic with omega for the '
             'integer kernel) + regenerated dispatch tables (decide +kernel) + exact-domain differential correspondence + '
             'interposed-dispatch-table whole-codec differential search')
