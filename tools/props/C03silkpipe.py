"""C03 extension, slice SilkPipe — ONE Lean function from packet bytes to PCM for SILK-only mono streams without loss
(Opus.SilkPipe.silkOnlyDecode = C06 framing, C03 symbol layer, slice SilkCore synthesis, mono buffering of silk_Decode, slice
SilkResamp resampler), tied sample for sample to the PUBLIC opus_decode (int16) on streams of the real encoder."""
import os, re, subprocess
import common

LEAN_MODULES = ['OpusProps.C03SilkPipe']
GEN = ['SilkCoreTabs', 'SilkNlsf', 'SilkResampRom', 'SilkIcdf', 'SilkSyms']
SOURCES = ['src/opus_decoder.c', 'src/opus.c', 'silk/dec_API.c', 'silk/decode_frame.c', 'silk/decode_core.c',
           'silk/decode_parameters.c', 'silk/decode_indices.c', 'silk/decode_pulses.c', 'silk/decoder_set_fs.c',
           'silk/init_decoder.c', 'silk/resampler.c', 'silk/PLC.c', 'silk/CNG.c', 'celt/entdec.c']
RULE = ('whole streams through the public API: a fresh opus encoder (forced SILK-only, mono, NB / MB / WB, 10 / 20 / 40 / 60 ms frames, VBR / '
        'CBR, 6-40 kb/s, with and without in-band FEC so that packets carry LBRR data that a loss-free decoder reads and drops) encodes a '
        'synthetic speech-like signal; part of the streams is repacketised into code-1/2/3 packets of up to 120 ms, some with padding; a '
        'fresh mono decoder at 8 / 12 / 16 / 24 / 48 kHz decodes every packet with opus_decode (int16, decode_fec = 0). Every PCM sample of '
        'every packet is compared with the output of the Lean pipeline run on the same bytes from the state after initPipe. A stream '
        'leaves the class where the pipeline answers UNIMPLEMENTED (a frame of <= 1 byte = DTX / PLC, a redundancy frame around an '
        'encoder-side bandwidth switch, a change of internal rate): packets before that point are compared, the rest of the stream is '
        'counted as outside the class (numbers printed; at least 80 % of all packets must be compared)')
NOT_COVERED = ['stereo streams, hybrid and CELT-only packets, packet loss / FEC decoding / DTX, redundancy frames (SILK <-> CELT transitions and '
               'encoder bandwidth switches), a change of the internal rate inside a stream (decoder reset + resampler re-initialisation), '
               'the float API opus_decode_float (same samples / 32768) and decoder gain != 0: the pipeline answers UNIMPLEMENTED there',
               'silk_PLC (update on good frames), silk_CNG (estimation) and silk_PLC_glue_frames run in the library between synthesis and '
               'buffering; for loss-free streams they leave the frame untouched, which the tie confirms but the model does not contain them']
ASSUMPTIONS = ['float build of the tree: opus_decode_frame outputs a SILK-only frame as pcm_silk / 32768 and the int16 API converts back '
               'exactly (FLOAT2INT16 on multiples of 2^-15, soft clipping inactive inside [-1, 1])',
               'the caller passes frame_size >= the packet duration and a mono decoder created at one of the five API rates']
LEVEL_TEXT = ('an executable Lean function packet bytes -> int16 PCM for SILK-only mono loss-free streams, literally the composition of the '
              'separately tied models (framing, range decoder + SILK symbol layer, parameter decoding + synthesis, mono buffering, resampler), '
              'which makes the Lean development a bit-exact reference decoder for this class; tied to the public opus_decode on real encoder '
              'streams at all internal and API rates')
LEVEL_NOTE = 'trusted: Lean kernel; harness and line protocol; class membership of a packet is decided by the model (symbol layer tied by C03 stage 1)'
TECHNIQUE = 'Lean 4 composition of tied models + theorems + differential correspondence against the public API'

REQUIRED_THEOREMS = ['OpusProps.C03SilkPipe.' + t for t in (
    'silk_only_pipeline_is_composition', 'fresh_decoder_satisfies_invariant', 'silk_only_pipeline_total_partial', 'opus_frame_total',
    'pipeline_frames_are_frame_ok')]
UNPROVED = [
    'silk_only_pipeline_total (full, from bytes): missing is the structural lemma that for every byte string the parser accepts as a SILK-only '
    'mono packet the event list of SilkSyms.decodePacket holds, per Opus frame, exactly nFramesPerPacket normally decoded (indices, pulses) '
    'pairs with frame_length pulses each (framesOfEvs o silkCalls), and the lifting over opusFrames / runPackets. PROVED '
    '(silk_only_pipeline_total_partial, opus_frame_total, fresh_decoder_satisfies_invariant, pipeline_frames_are_frame_ok): from the decoded '
    'symbols on, for one silk_Decode call, any list of them and one whole Opus frame of the class, '
    'every stage is total, returns frame_count * frame_duration * Fs_API int16 samples and preserves the combined invariant, for any number '
    'of frames; a fresh decoder satisfies the invariant; the frames the symbol layer delivers satisfy FrameOk']


def _h(ctx, variant):
    return ctx.harness('c03_silkpipe' + ('' if variant == 'plain' else '_' + variant), ['c03_silkpipe.c'], variant=variant)


def _wait_driver(secs=120):
    import time
    t0 = time.time()
    while not os.path.exists(common.driver_path()) and time.time() - t0 < secs:
        time.sleep(2)
    if not os.path.exists(common.driver_path()):
        common.lake_build(['opusmodel'])


def _tie(name, cmd):
    """Like common.run_tie, but a stream is compared up to the packet at which the MODEL leaves the class (UNIMPLEMENTED)."""
    res = common.TieResult(name)
    res.sanitizer = []
    env = dict(os.environ)
    env.setdefault('ASAN_OPTIONS', 'detect_leaks=0:abort_on_error=0')
    env.setdefault('UBSAN_OPTIONS', 'print_stacktrace=1')
    p = subprocess.run(cmd, stdout=subprocess.PIPE, stderr=subprocess.PIPE, text=True, env=env, timeout=3000)
    ins, outs = [], []
    for l in p.stdout.split('\n'):
        if l.startswith('I '):
            ins.append(l[2:]); outs.append(None)
        elif l.startswith('O ') and ins and outs[-1] is None:
            outs[-1] = l[2:]
        elif l.startswith('# '):
            res.notes.append(l[2:])
    if not ins:
        res.error = 'no cases (harness exit %s: %s)' % (p.returncode, p.stderr[-800:])
        return res
    model = common.model_eval(ins)
    npk = ncmp = nleft = 0
    left = []
    for i, (inp, o) in enumerate(zip(ins, outs)):
        m = model[i] if i < len(model) else ''
        res.cases += 1
        if o is None or not o.startswith('PCM') or not m.startswith('PCM'):
            res.mismatches.append({'input': inp, 'impl': o or 'SANITIZER', 'model': m,
                                   'sanitizer_report': [x for x in p.stderr.split('\n') if 'runtime error' in x or 'ERROR: Address' in x][:6]})
            continue
        ip, mp = o[4:].split(';'), m[4:].split(';')
        pk = inp.split(' ')[4:]
        npk += len(pk)
        bad = None
        for k in range(len(pk)):
            a = ip[k] if k < len(ip) else '<missing>'
            b = mp[k] if k < len(mp) else '<missing>'
            if b.startswith('ERR@') and b.endswith('UNIMPLEMENTED') and not a.startswith('ERR'):
                nleft += 1
                left.append(inp)
                break
            ncmp += 1
            if a != b:
                bad = k
                break
        key = 'silkcore:pipe-stream:' + ('compared-to-end' if bad is None and ncmp and not (len(mp) and mp[-1].endswith('UNIMPLEMENTED')) else
                                         'left-class' if bad is None else 'MISMATCH')
        res.dist[key] = res.dist.get(key, 0) + 1
        if bad is not None:
            xs, ys = ip[bad].split(','), (mp[bad] if bad < len(mp) else '').split(',')
            j = next((t for t, (u, v) in enumerate(zip(xs, ys)) if u != v), min(len(xs), len(ys)))
            res.mismatches.append({'input': inp, 'impl': 'packet %d (%s…, %d bytes): %d samples, sample %d = %s' % (
                                       bad, pk[bad][:9], len(pk[bad]) // 2, len(xs), j, ','.join(xs[j:j + 6])),
                                   'model': 'packet %d: %d samples, sample %d = %s' % (bad, len(ys), j, ','.join(ys[j:j + 6]))})
        elif len(res.samples) < 2:
            res.samples.append(inp[:300] + ' … => ' + o[:120] + ' …')
    if left:   # diagnostic: why the model put the packet outside the class
        why = common.model_eval([l.replace('silkcore pipe-stream ', 'silkcore pipe-why ', 1) for l in left])
        for w in why:
            k = 'left-class-because:' + re.sub(r'^packet \d+: ', '', w).split('(')[0]
            res.dist[k] = res.dist.get(k, 0) + 1
    res.n_mismatch = len(res.mismatches)
    res.notes.append('%s: packets=%d compared=%d streams_that_left_the_class=%d' % (name, npk, ncmp, nleft))
    if npk and ncmp < 0.8 * npk:
        res.error = 'only %d of %d packets were inside the class of the pipeline (expected >= 80 %%)' % (ncmp, npk)
    if p.returncode != 0 and not res.mismatches:
        res.error = 'harness exited with %d: %s' % (p.returncode, p.stderr[-800:])
    return res


def ties(ctx):
    hs, hp = _h(ctx, 'san'), _h(ctx, 'plain')
    _wait_driver()
    n = 60 if ctx.quick else 800
    specs = [('silkpipe-plain', [hp, 'rand', str(ctx.seed), str(n)]),
             ('silkpipe-san', [hs, 'rand', str(ctx.seed + 7919), str(n)])]
    from concurrent.futures import ThreadPoolExecutor
    with ThreadPoolExecutor(max_workers=2) as ex:
        return list(ex.map(lambda sp: _tie(sp[0], sp[1]), specs))


def classify(ctx, tie, mm):
    # The pipeline is the frozen reference decoder for SILK-only mono loss-free streams (C03: the decoded PCM is THIS function of the
    # packet history): a stream on which opus_decode returns other samples is a failing input of C03.
    impl = mm.get('impl', '')
    why = 'opus_decode differs from the bit-exact reference pipeline on a SILK-only mono stream'
    if impl in ('SANITIZER', 'ABORT', 'SIGSEGV'):
        why = 'opus_decode trapped (%s) on a stream the reference decodes: %s' % (impl, '; '.join(mm.get('sanitizer_report', [])[:3]))
    return {'suite': tie.name, 'input': mm.get('input', '')[:20000], 'expected': (mm.get('model') or '')[:600], 'observed': impl[:600],
            'why': why}


def search(ctx):
    return {'cases': 0, 'distinct': 0, 'oracle': 'none of its own: the tie of this slice already runs on the public API; the predicates '
            'on the implementation alone are those of the parts (C03, C03silkcore, C03silkresamp)', 'samples': [], 'witnesses': []}
